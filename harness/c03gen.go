package main

// C03 — program generator for the Mini grammar (coq/theories/Lang/Mini.v):
// Go-side AST, MPCL printer, s-expression printer (the Mini term the Coq
// model decodes), an independent reference interpreter on big.Int (used by
// the oracle and by the shrinker), a scope/type checker (used to validate
// shrink candidates) and the shrinker.

import (
	"fmt"
	"math/big"
	"sort"
	"strings"
)

// ------------------------------------------------------------------ types

type c03Ty struct {
	kind   int // 0 bool, 1 int, 2 uint, 3 array, 4 struct
	w      int
	n      int
	elem   *c03Ty
	fields []*c03Ty
	name   string // struct type name
}

func (t *c03Ty) width() int {
	switch t.kind {
	case 0:
		return 1
	case 1, 2:
		return t.w
	case 3:
		return t.n * t.elem.width()
	}
	s := 0
	for _, f := range t.fields {
		s += f.width()
	}
	return s
}
func (t *c03Ty) signed() bool { return t.kind == 1 }
func (t *c03Ty) scalar() bool { return t.kind <= 2 }
func (t *c03Ty) src() string {
	switch t.kind {
	case 0:
		return "bool"
	case 1:
		return fmt.Sprintf("int%d", t.w)
	case 2:
		return fmt.Sprintf("uint%d", t.w)
	case 3:
		return fmt.Sprintf("[%d]%s", t.n, t.elem.src())
	}
	return t.name
}
func (t *c03Ty) sx() SX {
	switch t.kind {
	case 0:
		return L(I(0))
	case 1:
		return L(I(1), I(t.w))
	case 2:
		return L(I(2), I(t.w))
	case 3:
		return L(I(3), I(t.n), t.elem.sx())
	}
	l := []SX{I(4)}
	for _, f := range t.fields {
		l = append(l, f.sx())
	}
	return L(l...)
}
func (t *c03Ty) equal(o *c03Ty) bool {
	if t.kind != o.kind {
		return false
	}
	switch t.kind {
	case 0:
		return true
	case 1, 2:
		return t.w == o.w
	case 3:
		return t.n == o.n && t.elem.equal(o.elem)
	}
	return t == o
}
func (t *c03Ty) fieldOff(k int) int {
	off := 0
	for i := 0; i < k; i++ {
		off += t.fields[i].width()
	}
	return off
}

// ------------------------------------------------------------ expressions

const (
	c03EVar = iota
	c03ELit
	c03EBin
	c03ENeg
	c03ENot
	c03EShl
	c03EShr
	c03ECast
	c03ESlice // a[k] (constant k or loop variable) / s.f
	c03EIndex // a[i], i run-time
)

// operator numbering = RunC03.dec_binop
var c03BinSrc = []string{"+", "-", "*", "/", "%", "&", "|", "^", "&^", "<", "<=", ">", ">=", "==", "!=", "&&", "||"}
var c03BinName = []string{"add", "sub", "mul", "div", "mod", "and", "or", "xor", "andnot", "lt", "le", "gt", "ge", "eq", "ne", "land", "lor"}

const (
	c03Add = iota
	c03Sub
	c03Mul
	c03Div
	c03Mod
	c03BAnd
	c03BOr
	c03BXor
	c03BAndNot
	c03Lt
	c03Le
	c03Gt
	c03Ge
	c03Eq
	c03Ne
	c03LAnd
	c03LOr
)

func c03IsCmp(op int) bool     { return op >= c03Lt && op <= c03Ne }
func c03Sensitive(op int) bool { return op == c03Div || op == c03Mod || (op >= c03Lt && op <= c03Ge) }

type c03Var struct {
	id   int // Mini name = index of the source name
	name string
}

type c03Expr struct {
	tag       int
	v         *c03Var
	t         *c03Ty // operand type (bin, neg, shl, shr), literal type, element type (index), result type of slice
	to        *c03Ty // cast target (t = source)
	n         *big.Int
	op        int
	a, b      *c03Expr
	k         int    // shift count / constant index / field number
	at        *c03Ty // slice, index: type of a
	isLoopVar bool   // EVar naming a loop variable (a compile-time constant)
}

// c03IsConstExpr: literal, loop variable, or T(loop variable)
func c03IsConstExpr(e *c03Expr) bool {
	switch e.tag {
	case c03ELit:
		return true
	case c03EVar:
		return e.isLoopVar
	case c03ECast:
		return c03IsConstExpr(e.a)
	}
	return false
}

// result type
func (e *c03Expr) ty(env func(*c03Var) *c03Ty) *c03Ty {
	switch e.tag {
	case c03EVar:
		return env(e.v)
	case c03ELit, c03ENeg, c03EShl, c03EShr:
		return e.t
	case c03EBin:
		if c03IsCmp(e.op) || e.op >= c03LAnd {
			return c03Bool
		}
		return e.t
	case c03ENot:
		return c03Bool
	case c03ECast:
		return e.to
	}
	return e.t // slice, index: element / field type
}

var c03Bool = &c03Ty{kind: 0}

func (e *c03Expr) sliceOffW() (int, int) {
	if e.at.kind == 3 {
		return e.k * e.at.elem.width(), e.at.elem.width()
	}
	return e.at.fieldOff(e.k), e.at.fields[e.k].width()
}

func (e *c03Expr) src() string {
	switch e.tag {
	case c03EVar:
		return e.v.name
	case c03ELit:
		if e.t.kind == 0 {
			if e.n.Sign() != 0 {
				return "true"
			}
			return "false"
		}
		if c03Sty.hexLits && e.n.Cmp(big.NewInt(9)) > 0 {
			return "0x" + e.n.Text(16)
		}
		return e.n.String()
	case c03EBin:
		return "(" + e.a.src() + " " + c03BinSrc[e.op] + " " + e.b.src() + ")"
	case c03ENeg:
		return "-(" + e.a.src() + ")"
	case c03ENot:
		return "!(" + e.a.src() + ")"
	case c03EShl, c03EShr:
		op := "<<"
		if e.tag == c03EShr {
			op = ">>"
		}
		cnt := fmt.Sprint(e.k)
		return "(" + e.a.src() + " " + op + " " + cnt + ")"
	case c03ECast:
		return e.to.src() + "(" + e.a.src() + ")"
	case c03ESlice:
		if e.at.kind == 3 {
			idx := fmt.Sprint(e.k)
			return e.a.src() + "[" + idx + "]"
		}
		return e.a.src() + fmt.Sprintf(".f%d", e.k)
	}
	return e.a.src() + "[" + e.b.src() + "]"
}

func (e *c03Expr) sx() SX {
	switch e.tag {
	case c03EVar:
		return L(I(0), I(e.v.id))
	case c03ELit:
		return L(I(1), e.t.sx(), Big(e.n))
	case c03EBin:
		return L(I(2), I(e.op), e.t.sx(), e.a.sx(), e.b.sx())
	case c03ENeg:
		return L(I(3), e.t.sx(), e.a.sx())
	case c03ENot:
		return L(I(4), e.a.sx())
	case c03EShl:
		return L(I(5), e.t.sx(), e.a.sx(), I(e.k))
	case c03EShr:
		return L(I(6), e.t.sx(), e.a.sx(), I(e.k))
	case c03ECast:
		return L(I(7), e.t.sx(), e.to.sx(), e.a.sx())
	case c03ESlice:
		off, w := e.sliceOffW()
		return L(I(8), I(off), I(w), e.a.sx())
	}
	return L(I(9), I(e.at.n), e.at.elem.sx(), e.a.sx(), e.b.sx())
}

func (e *c03Expr) clone() *c03Expr {
	if e == nil {
		return nil
	}
	c := *e
	c.a = e.a.clone()
	c.b = e.b.clone()
	return &c
}

// ------------------------------------------------------------- statements

const (
	c03SDecl = iota
	c03SAssign
	c03SStore
	c03SIf
	c03SFor
	c03SReturn
	c03SCall
	c03SDeclZero // var x T   (composite, immediately followed by stores); Mini: SDecl x T (ELit 0)
	c03SCopy     // copy(v[lo:hi], sv): min(hi-lo, len(sv)) elements; Mini: SStore v tw lo*ew count*ew (EVar sv)
)

type c03Stmt struct {
	tag    int
	v      *c03Var
	t      *c03Ty
	e      *c03Expr
	short  bool // x := e instead of var x T = e
	k      int  // store: constant index / field
	c      *c03Expr
	a, b   []*c03Stmt
	hasEls bool
	elseIf bool // print `} else if c {` when the else-block is exactly one if statement
	lo     int
	cnt    int
	es     []*c03Expr
	xs     []*c03Var
	xts    []*c03Ty
	f      int
	sv     *c03Var // copy: source array
	st     *c03Ty
	hi     int // copy: v[lo:hi]
	// return: statements written after the return in the same block (dead
	// code: not part of the Mini term, ignored by the reference interpreter)
	dead []*c03Stmt
}

func (s *c03Stmt) clone() *c03Stmt {
	c := *s
	c.e = s.e.clone()
	c.c = s.c.clone()
	c.a = c03CloneBlock(s.a)
	c.b = c03CloneBlock(s.b)
	c.dead = c03CloneBlock(s.dead)
	c.es = nil
	for _, e := range s.es {
		c.es = append(c.es, e.clone())
	}
	return &c
}
func c03CloneBlock(b []*c03Stmt) []*c03Stmt {
	var r []*c03Stmt
	for _, s := range b {
		r = append(r, s.clone())
	}
	return r
}

func (s *c03Stmt) storeOffW() (int, int) {
	if s.t.kind == 3 {
		return s.k * s.t.elem.width(), s.t.elem.width()
	}
	return s.t.fieldOff(s.k), s.t.fields[s.k].width()
}

func (s *c03Stmt) storeOffW2() (int, int) {
	if s.tag == c03SCopy {
		return s.copyOffW()
	}
	return s.storeOffW()
}

func (s *c03Stmt) copyOffW() (int, int) {
	cnt := s.hi - s.lo
	if s.st.n < cnt {
		cnt = s.st.n
	}
	ew := s.t.elem.width()
	return s.lo * ew, cnt * ew
}

// c03Mentions: e reads variable id.
func c03Mentions(e *c03Expr, id int) bool {
	if e == nil {
		return false
	}
	if e.tag == c03EVar && e.v.id == id {
		return true
	}
	return c03Mentions(e.a, id) || c03Mentions(e.b, id)
}

// c03CompoundForm: x = x op e written x op= e (x++ / x-- for x = x +- 1);
// "" when the assignment has no such form.
func c03CompoundForm(s *c03Stmt) string {
	e := s.e
	isX := func(a *c03Expr) bool { return a != nil && a.tag == c03EVar && !a.isLoopVar && a.v.id == s.v.id }
	switch e.tag {
	case c03EBin:
		ops := map[int]string{c03Add: "+=", c03Sub: "-=", c03Mul: "*=", c03Div: "/=", c03BAnd: "&=", c03BOr: "|=", c03BXor: "^="}
		op, ok := ops[e.op]
		if !ok || !isX(e.a) || e.t.kind == 0 {
			return ""
		}
		if e.b.tag == c03ELit && e.b.n.Cmp(big.NewInt(1)) == 0 && (e.op == c03Add || e.op == c03Sub) {
			return s.v.name + map[int]string{c03Add: "++", c03Sub: "--"}[e.op]
		}
		return s.v.name + " " + op + " " + e.b.src()
	case c03EShl:
		if isX(e.a) {
			return fmt.Sprintf("%s <<= %d", s.v.name, e.k)
		}
	case c03EShr:
		if isX(e.a) {
			return fmt.Sprintf("%s >>= %d", s.v.name, e.k)
		}
	}
	return ""
}

func c03Indent(n int) string { return strings.Repeat("\t", n) }

func (s *c03Stmt) src(sb *strings.Builder, ind int) {
	in := c03Indent(ind)
	switch s.tag {
	case c03SDecl:
		if s.short {
			fmt.Fprintf(sb, "%s%s := %s\n", in, s.v.name, s.e.src())
		} else if c03Sty.splitDecl && !c03Mentions(s.e, s.v.id) {
			fmt.Fprintf(sb, "%svar %s %s\n%s%s = %s\n", in, s.v.name, s.t.src(), in, s.v.name, s.e.src())
		} else {
			fmt.Fprintf(sb, "%svar %s %s = %s\n", in, s.v.name, s.t.src(), s.e.src())
		}
	case c03SDeclZero:
		fmt.Fprintf(sb, "%svar %s %s\n", in, s.v.name, s.t.src())
	case c03SAssign:
		if c03Sty.compound {
			if c := c03CompoundForm(s); c != "" {
				fmt.Fprintf(sb, "%s%s\n", in, c)
				break
			}
		}
		fmt.Fprintf(sb, "%s%s = %s\n", in, s.v.name, s.e.src())
	case c03SCopy:
		if s.lo == 0 && s.hi == s.t.n {
			fmt.Fprintf(sb, "%scopy(%s, %s)\n", in, s.v.name, s.sv.name)
		} else {
			fmt.Fprintf(sb, "%scopy(%s[%d:%d], %s)\n", in, s.v.name, s.lo, s.hi, s.sv.name)
		}
	case c03SStore:
		if s.t.kind == 3 {
			idx := fmt.Sprint(s.k)
			fmt.Fprintf(sb, "%s%s[%s] = %s\n", in, s.v.name, idx, s.e.src())
		} else {
			fmt.Fprintf(sb, "%s%s.f%d = %s\n", in, s.v.name, s.k, s.e.src())
		}
	case c03SIf:
		fmt.Fprintf(sb, "%sif %s {\n", in, s.c.src())
		for _, x := range s.a {
			x.src(sb, ind+1)
		}
		if s.hasEls && s.elseIf && len(s.b) == 1 && s.b[0].tag == c03SIf {
			// else-if chain: the parser makes the inner if the False branch itself
			var inner strings.Builder
			s.b[0].src(&inner, ind)
			fmt.Fprintf(sb, "%s} else %s", in, strings.TrimLeft(inner.String(), "\t"))
			return
		}
		if s.hasEls {
			fmt.Fprintf(sb, "%s} else {\n", in)
			for _, x := range s.b {
				x.src(sb, ind+1)
			}
		}
		fmt.Fprintf(sb, "%s}\n", in)
	case c03SFor:
		inc := s.v.name + "++"
		switch c03Sty.loopForm {
		case 1:
			inc = s.v.name + " = " + s.v.name + " + 1"
		case 2:
			inc = s.v.name + " += 1"
		}
		fmt.Fprintf(sb, "%sfor %s := %d; %s < %d; %s {\n", in, s.v.name, s.lo, s.v.name, s.lo+s.cnt, inc)
		for _, x := range s.a {
			x.src(sb, ind+1)
		}
		fmt.Fprintf(sb, "%s}\n", in)
	case c03SReturn:
		var parts []string
		for _, e := range s.es {
			parts = append(parts, e.src())
		}
		if c03Sty.named && c03Sty.bareReturn && c03StyFn != nil && len(parts) == len(c03StyFn.rets) {
			for i, e := range parts {
				fmt.Fprintf(sb, "%sres%d = %s\n", in, i, e)
			}
			fmt.Fprintf(sb, "%sreturn\n", in)
		} else if c03Sty.comments {
			fmt.Fprintf(sb, "%sreturn %s // done\n", in, strings.Join(parts, ", "))
		} else {
			fmt.Fprintf(sb, "%sreturn %s\n", in, strings.Join(parts, ", "))
		}
		for _, d := range s.dead {
			d.src(sb, ind)
		}
	case c03SCall:
		var xs, as []string
		for _, x := range s.xs {
			xs = append(xs, x.name)
		}
		for _, e := range s.es {
			as = append(as, e.src())
		}
		fmt.Fprintf(sb, "%s%s := f%d(%s)\n", in, strings.Join(xs, ", "), s.f, strings.Join(as, ", "))
	}
}

func c03BlockSX(b []*c03Stmt) SX {
	l := make([]SX, len(b))
	for i, s := range b {
		l[i] = s.sx()
	}
	return L(l...)
}

func (s *c03Stmt) sx() SX {
	switch s.tag {
	case c03SDecl:
		return L(I(0), I(s.v.id), s.t.sx(), s.e.sx())
	case c03SDeclZero:
		return L(I(0), I(s.v.id), s.t.sx(), L(I(1), s.t.sx(), I(0)))
	case c03SAssign:
		return L(I(1), I(s.v.id), s.t.sx(), s.e.sx())
	case c03SStore:
		off, w := s.storeOffW()
		return L(I(2), I(s.v.id), I(s.t.width()), I(off), I(w), s.e.sx())
	case c03SCopy:
		off, w := s.copyOffW()
		return L(I(2), I(s.v.id), I(s.t.width()), I(off), I(w), L(I(0), I(s.sv.id)))
	case c03SIf:
		return L(I(3), s.c.sx(), c03BlockSX(s.a), c03BlockSX(s.b))
	case c03SFor:
		return L(I(4), I(s.v.id), L(I(1), I(32)), I(s.lo), I(s.cnt), c03BlockSX(s.a))
	case c03SReturn:
		l := make([]SX, len(s.es))
		for i, e := range s.es {
			l[i] = e.sx()
		}
		return L(I(5), L(l...))
	}
	xs := make([]SX, len(s.xs))
	for i, x := range s.xs {
		xs[i] = L(I(x.id), s.xts[i].sx())
	}
	as := make([]SX, len(s.es))
	for i, e := range s.es {
		as[i] = e.sx()
	}
	return L(I(6), L(xs...), I(s.f), L(as...))
}

type c03Func struct {
	name   string
	params []*c03Var
	ptys   []*c03Ty
	rets   []*c03Ty
	body   []*c03Stmt
}

type c03Prog struct {
	structs []*c03Ty
	funcs   []*c03Func // definition order, main last
	names   map[string]*c03Var
	class   string
	style   c03Style
}

// c03Style: how the SAME program (same Mini term) is spelled: different
// doors into lexer.go / parser.go / the statement forms of ssagen.go.
type c03Style struct {
	compound    bool // x op= e, x++, x-- for x = x op e
	splitDecl   bool // var x T <newline> x = e  for  var x T = e
	groupParams bool // a, b T
	hexLits     bool // 0x1f
	comments    bool // header line, line and trailing comments, blank lines
	loopForm    int  // 0: i++   1: i = i + 1   2: i += 1
	named       bool // named results (r0 T0, ...)
	bareReturn  bool // with named: r0 = e0 ... ; return
	unsized     bool // main's integer parameters written int / uint (sizes via inputSizes)
}

var c03Sty c03Style // style of the program being printed
var c03StyFn *c03Func

func (p *c03Prog) src() string { return p.srcStyled(p.style) }

func (p *c03Prog) srcStyled(sty c03Style) string {
	c03Sty = sty
	defer func() { c03Sty, c03StyFn = c03Style{}, nil }()
	var sb strings.Builder
	if sty.comments {
		sb.WriteString("// -*- go -*-\n//\n// generated /* not a block comment */\n\n")
	}
	sb.WriteString("package main\n\n")
	for _, st := range p.structs {
		fmt.Fprintf(&sb, "type %s struct {\n", st.name)
		for i, f := range st.fields {
			fmt.Fprintf(&sb, "\tf%d %s\n", i, f.src())
		}
		sb.WriteString("}\n\n")
	}
	for _, f := range p.funcs {
		c03StyFn = f
		var ps, rs []string
		for i, v := range f.params {
			ts := f.ptys[i].src()
			if sty.unsized && f.name == "main" && f.ptys[i].kind != 0 {
				ts = []string{"", "int", "uint"}[f.ptys[i].kind]
			}
			if sty.groupParams && i+1 < len(f.params) && f.ptys[i+1].equal(f.ptys[i]) {
				ps = append(ps, v.name)
			} else {
				ps = append(ps, v.name+" "+ts)
			}
		}
		for i, r := range f.rets {
			if sty.named {
				rs = append(rs, fmt.Sprintf("res%d %s", i, r.src()))
			} else {
				rs = append(rs, r.src())
			}
		}
		if sty.comments {
			fmt.Fprintf(&sb, "// %s does things.\n", f.name)
		}
		fmt.Fprintf(&sb, "func %s(%s) (%s) {\n", f.name, strings.Join(ps, ", "), strings.Join(rs, ", "))
		for k, s := range f.body {
			if sty.comments && k == 1 {
				sb.WriteString("\n\t// a comment line\n")
			}
			s.src(&sb, 1)
		}
		sb.WriteString("}\n\n")
	}
	return sb.String()
}

func (p *c03Prog) sx() SX {
	fs := make([]SX, len(p.funcs))
	for i, f := range p.funcs {
		ps := make([]SX, len(f.params))
		for j, v := range f.params {
			ps[j] = L(I(v.id), f.ptys[j].sx())
		}
		rs := make([]SX, len(f.rets))
		for j, r := range f.rets {
			rs[j] = r.sx()
		}
		fs[i] = L(L(ps...), L(rs...), c03BlockSX(f.body))
	}
	return L(fs...)
}

func (p *c03Prog) clone() *c03Prog {
	c := &c03Prog{structs: p.structs, names: p.names, class: p.class, style: p.style}
	for _, f := range p.funcs {
		nf := *f
		nf.body = c03CloneBlock(f.body)
		c.funcs = append(c.funcs, &nf)
	}
	return c
}

// ------------------------------------------------- reference interpreter

func c03Mask(w int) *big.Int {
	m := new(big.Int).Lsh(big.NewInt(1), uint(w))
	return m.Sub(m, big.NewInt(1))
}
func c03Norm(w int, v *big.Int) *big.Int { return new(big.Int).And(v, c03Mask(w)) }
func c03ToZ(sg bool, w int, v *big.Int) *big.Int {
	m := c03Norm(w, v)
	if sg && w > 0 && m.Bit(w-1) == 1 {
		m.Sub(m, new(big.Int).Lsh(big.NewInt(1), uint(w)))
	}
	return m
}
func c03OfZ(w int, z *big.Int) *big.Int {
	m := new(big.Int).Lsh(big.NewInt(1), uint(w))
	r := new(big.Int).Mod(z, m) // Euclidean: non-negative
	return r
}
func c03B(b bool) *big.Int {
	if b {
		return big.NewInt(1)
	}
	return big.NewInt(0)
}

type c03Stats struct{ divZero int }

func c03Arith(op int, sg bool, w int, a, b *big.Int, st *c03Stats) *big.Int {
	za, zb := c03ToZ(sg, w, a), c03ToZ(sg, w, b)
	switch op {
	case c03Add:
		return c03OfZ(w, new(big.Int).Add(za, zb))
	case c03Sub:
		return c03OfZ(w, new(big.Int).Sub(za, zb))
	case c03Mul:
		return c03OfZ(w, new(big.Int).Mul(za, zb))
	case c03Div:
		if zb.Sign() == 0 {
			if st != nil {
				st.divZero++
			}
			if za.Sign() < 0 {
				return c03OfZ(w, big.NewInt(1))
			}
			return c03OfZ(w, big.NewInt(-1))
		}
		return c03OfZ(w, new(big.Int).Quo(za, zb))
	case c03Mod:
		if zb.Sign() == 0 {
			if st != nil {
				st.divZero++
			}
			return c03OfZ(w, new(big.Int).Abs(za))
		}
		return c03OfZ(w, new(big.Int).Rem(new(big.Int).Abs(za), new(big.Int).Abs(zb)))
	case c03BAnd:
		return new(big.Int).And(c03Norm(w, a), c03Norm(w, b))
	case c03BOr:
		return new(big.Int).Or(c03Norm(w, a), c03Norm(w, b))
	case c03BXor:
		return new(big.Int).Xor(c03Norm(w, a), c03Norm(w, b))
	case c03BAndNot:
		return new(big.Int).AndNot(c03Norm(w, a), c03Norm(w, b))
	case c03Lt:
		return c03B(za.Cmp(zb) < 0)
	case c03Le:
		return c03B(za.Cmp(zb) <= 0)
	case c03Gt:
		return c03B(za.Cmp(zb) > 0)
	case c03Ge:
		return c03B(za.Cmp(zb) >= 0)
	case c03Eq:
		return c03B(c03Norm(w, a).Cmp(c03Norm(w, b)) == 0)
	case c03Ne:
		return c03B(c03Norm(w, a).Cmp(c03Norm(w, b)) != 0)
	case c03LAnd:
		return new(big.Int).And(c03Norm(1, a), c03Norm(1, b))
	}
	return new(big.Int).Or(c03Norm(1, a), c03Norm(1, b))
}

func c03IndexBits(n int) int {
	bits := 1
	for length := 2; length < n; length *= 2 {
		bits++
	}
	return bits
}

type c03Binding struct {
	v   *c03Var
	val *big.Int
}
type c03Env []c03Binding

func (en c03Env) lookup(v *c03Var) *big.Int {
	for i := len(en) - 1; i >= 0; i-- {
		if en[i].v.id == v.id {
			return en[i].val
		}
	}
	return big.NewInt(0)
}
func (en c03Env) update(v *c03Var, val *big.Int) {
	for i := len(en) - 1; i >= 0; i-- {
		if en[i].v.id == v.id {
			en[i].val = val
			return
		}
	}
}

type c03Interp struct {
	p  *c03Prog
	st *c03Stats
}

func (it *c03Interp) eval(e *c03Expr, en c03Env) *big.Int {
	switch e.tag {
	case c03EVar:
		return en.lookup(e.v)
	case c03ELit:
		return c03Norm(e.t.width(), e.n)
	case c03EBin:
		return c03Arith(e.op, e.t.signed(), e.t.width(), it.eval(e.a, en), it.eval(e.b, en), it.st)
	case c03ENeg:
		return c03Arith(c03Sub, e.t.signed(), e.t.width(), big.NewInt(0), it.eval(e.a, en), it.st)
	case c03ENot:
		return new(big.Int).Xor(big.NewInt(1), c03Norm(1, it.eval(e.a, en)))
	case c03EShl:
		w := e.t.width()
		return c03Norm(w, new(big.Int).Lsh(c03Norm(w, it.eval(e.a, en)), uint(e.k)))
	case c03EShr:
		w := e.t.width()
		z := c03ToZ(e.t.signed(), w, it.eval(e.a, en))
		return c03OfZ(w, new(big.Int).Rsh(z, uint(e.k))) // big.Int Rsh is arithmetic
	case c03ECast:
		v := it.eval(e.a, en)
		if e.t.signed() && e.to.signed() {
			return c03OfZ(e.to.width(), c03ToZ(true, e.t.width(), v))
		}
		return c03Norm(e.to.width(), v)
	case c03ESlice:
		off, w := e.sliceOffW()
		return c03Norm(w, new(big.Int).Rsh(it.eval(e.a, en), uint(off)))
	}
	a, i := it.eval(e.a, en), it.eval(e.b, en)
	n, ew := e.at.n, e.at.elem.width()
	p := c03Norm(c03IndexBits(n), i)
	if p.Cmp(big.NewInt(int64(n))) < 0 {
		return c03Norm(ew, new(big.Int).Rsh(a, uint(int(p.Int64())*ew)))
	}
	return big.NewInt(0)
}

// exec returns (env, returned values or nil)
func (it *c03Interp) exec(b []*c03Stmt, en c03Env) (c03Env, []*big.Int) {
	for _, s := range b {
		switch s.tag {
		case c03SDecl:
			en = append(en, c03Binding{s.v, c03Norm(s.t.width(), it.eval(s.e, en))})
		case c03SDeclZero:
			en = append(en, c03Binding{s.v, big.NewInt(0)})
		case c03SAssign:
			en.update(s.v, c03Norm(s.t.width(), it.eval(s.e, en)))
		case c03SStore, c03SCopy:
			off, w := s.storeOffW2()
			tw := s.t.width()
			old := c03Norm(tw, en.lookup(s.v))
			var val *big.Int
			if s.tag == c03SCopy {
				val = c03Norm(w, en.lookup(s.sv))
			} else {
				val = c03Norm(w, it.eval(s.e, en))
			}
			hole := new(big.Int).Lsh(c03Mask(w), uint(off))
			r := new(big.Int).AndNot(old, hole)
			r.Or(r, new(big.Int).Lsh(val, uint(off)))
			en.update(s.v, c03Norm(tw, r))
		case c03SIf:
			blk := s.b
			if it.eval(s.c, en).Bit(0) == 1 {
				blk = s.a
			}
			n := len(en)
			e1, ret := it.exec(blk, en)
			if ret != nil {
				return e1, ret
			}
			en = e1[:n]
		case c03SFor:
			for k := 0; k < s.cnt; k++ {
				n := len(en)
				e1 := append(en, c03Binding{s.v, c03Norm(32, big.NewInt(int64(s.lo+k)))})
				e1, ret := it.exec(s.a, e1)
				if ret != nil {
					return e1, ret
				}
				en = e1[:n]
			}
		case c03SReturn:
			vs := make([]*big.Int, len(s.es))
			for i, e := range s.es {
				vs[i] = it.eval(e, en)
			}
			return en, vs
		case c03SCall:
			args := make([]*big.Int, len(s.es))
			for i, e := range s.es {
				args[i] = it.eval(e, en)
			}
			rs := it.call(s.f, args)
			for i, x := range s.xs {
				en = append(en, c03Binding{x, c03Norm(s.xts[i].width(), rs[i])})
			}
		}
	}
	return en, nil
}

func (it *c03Interp) call(f int, args []*big.Int) []*big.Int {
	fn := it.p.funcs[f]
	var en c03Env
	for i, v := range fn.params {
		en = append(en, c03Binding{v, c03Norm(fn.ptys[i].width(), args[i])})
	}
	// the interpreter mutates bindings in place: give the callee its own copies
	_, ret := it.exec(fn.body, en)
	out := make([]*big.Int, len(fn.rets))
	for i, r := range fn.rets {
		if i < len(ret) {
			out[i] = c03Norm(r.width(), ret[i])
		} else {
			out[i] = big.NewInt(0)
		}
	}
	return out
}

func c03Run(p *c03Prog, inputs []*big.Int, st *c03Stats) []*big.Int {
	it := &c03Interp{p: p, st: st}
	return it.call(len(p.funcs)-1, inputs)
}

// ------------------------------------------------------ validity checker
// Scoping and typing of the generator AST under Go rules; used to reject
// shrink candidates (a deleted declaration, a literal that no longer fits).

type c03Scope struct {
	vars []*c03Var
	tys  []*c03Ty
	cst  []bool // loop variable (compile-time constant)
}

func (sc *c03Scope) find(v *c03Var) (int, bool) {
	for i := len(sc.vars) - 1; i >= 0; i-- {
		if sc.vars[i].id == v.id {
			return i, true
		}
	}
	return 0, false
}

type c03Checker struct {
	p     *c03Prog
	fn    *c03Func
	sc    c03Scope
	start []int // index in sc.vars where each open scope begins
	ok    bool
}

// decl adds a declaration to the innermost scope; redeclaring a name of the
// same scope is an error in Go.
func (ck *c03Checker) decl(v *c03Var, t *c03Ty, cst bool) {
	from := 0
	if len(ck.start) > 0 {
		from = ck.start[len(ck.start)-1]
	}
	for i := from; i < len(ck.sc.vars); i++ {
		if ck.sc.vars[i].id == v.id {
			ck.fail()
		}
	}
	ck.sc.vars = append(ck.sc.vars, v)
	ck.sc.tys = append(ck.sc.tys, t)
	ck.sc.cst = append(ck.sc.cst, cst)
}
func (ck *c03Checker) open() { ck.start = append(ck.start, len(ck.sc.vars)) }
func (ck *c03Checker) close() {
	n := ck.start[len(ck.start)-1]
	ck.start = ck.start[:len(ck.start)-1]
	ck.sc.vars, ck.sc.tys, ck.sc.cst = ck.sc.vars[:n], ck.sc.tys[:n], ck.sc.cst[:n]
}

func (ck *c03Checker) fail() { ck.ok = false }

func c03LitFits(t *c03Ty, n *big.Int) bool {
	if n.Sign() < 0 {
		return false
	}
	switch t.kind {
	case 0:
		return n.BitLen() <= 1
	case 1:
		return n.BitLen() <= t.w-1
	case 2:
		return n.BitLen() <= t.w
	}
	return false
}

// expr checks e, returns its type and whether it is a run-time (dynamic) value
func (ck *c03Checker) expr(e *c03Expr) (*c03Ty, bool) {
	switch e.tag {
	case c03EVar:
		i, ok := ck.sc.find(e.v)
		if !ok || ck.sc.cst[i] != e.isLoopVar {
			ck.fail()
			return c03Bool, true
		}
		return ck.sc.tys[i], !e.isLoopVar
	case c03ELit:
		if !c03LitFits(e.t, e.n) {
			ck.fail()
		}
		return e.t, false
	case c03EBin:
		ta, da := ck.expr(e.a)
		tb, db := ck.expr(e.b)
		if !ta.equal(e.t) || !tb.equal(e.t) || !(da || db) {
			ck.fail()
		}
		switch {
		case e.op >= c03LAnd:
			if e.t.kind != 0 {
				ck.fail()
			}
		case e.op == c03Eq || e.op == c03Ne:
			if !e.t.scalar() {
				ck.fail()
			}
		default:
			if e.t.kind != 1 && e.t.kind != 2 {
				ck.fail()
			}
		}
		if c03IsCmp(e.op) || e.op >= c03LAnd {
			return c03Bool, true
		}
		return e.t, true
	case c03ENeg, c03EShl, c03EShr:
		ta, da := ck.expr(e.a)
		if !ta.equal(e.t) || !da || (e.t.kind != 1 && e.t.kind != 2) || e.k < 0 {
			ck.fail()
		}
		return e.t, true
	case c03ENot:
		ta, da := ck.expr(e.a)
		if ta.kind != 0 || !da {
			ck.fail()
		}
		return c03Bool, true
	case c03ECast:
		ta, da := ck.expr(e.a)
		if !ta.equal(e.t) || (e.t.kind != 1 && e.t.kind != 2) || (e.to.kind != 1 && e.to.kind != 2) {
			ck.fail()
		}
		if !da && !((e.to.kind == 1 && e.to.w >= 5) || (e.to.kind == 2 && e.to.w >= 4)) {
			ck.fail() // T(i): the loop counter must fit
		}
		return e.to, da
	case c03ESlice:
		ta, da := ck.expr(e.a)
		if !ta.equal(e.at) || !da {
			ck.fail()
			return c03Bool, true
		}
		if e.at.kind == 3 {
			if e.k < 0 || e.k >= e.at.n {
				ck.fail()
				return c03Bool, true
			}
			return e.at.elem, true
		}
		if e.at.kind != 4 || e.k >= len(e.at.fields) {
			ck.fail()
			return c03Bool, true
		}
		return e.at.fields[e.k], true
	}
	ta, da := ck.expr(e.a)
	tb, db := ck.expr(e.b)
	if !ta.equal(e.at) || e.at.kind != 3 || !da || !db || tb.kind != 2 {
		ck.fail()
		return c03Bool, true
	}
	return e.at.elem, true
}

// block checks a statement list; returns true when every path returns
func (ck *c03Checker) block(b []*c03Stmt) bool {
	dead := false
	for _, s := range b {
		if dead {
			ck.fail() // unreachable code is never generated
		}
		switch s.tag {
		case c03SDecl:
			t, d := ck.expr(s.e)
			if !t.equal(s.t) || !d {
				ck.fail()
			}
			ck.decl(s.v, s.t, false)
		case c03SDeclZero:
			ck.decl(s.v, s.t, false)
		case c03SAssign:
			t, d := ck.expr(s.e)
			i, ok := ck.sc.find(s.v)
			if !ok || ck.sc.cst[i] || !ck.sc.tys[i].equal(t) || !t.equal(s.t) || !d {
				ck.fail()
			}
		case c03SCopy:
			i, ok := ck.sc.find(s.v)
			j, ok2 := ck.sc.find(s.sv)
			if !ok || !ok2 || s.v.id == s.sv.id || !ck.sc.tys[i].equal(s.t) || !ck.sc.tys[j].equal(s.st) ||
				s.t.kind != 3 || s.st.kind != 3 || !s.t.elem.equal(s.st.elem) ||
				s.lo < 0 || s.lo >= s.hi || s.hi > s.t.n {
				ck.fail()
			}
		case c03SStore:
			t, d := ck.expr(s.e)
			i, ok := ck.sc.find(s.v)
			// a constant (literal, T(loop counter)) may be stored: no operator is folded
			if !ok || !ck.sc.tys[i].equal(s.t) || !(d || c03IsConstExpr(s.e)) {
				ck.fail()
				break
			}
			if s.t.kind == 3 {
				if s.k >= s.t.n || !s.t.elem.equal(t) {
					ck.fail()
				}
			} else if s.t.kind == 4 {
				if s.k >= len(s.t.fields) || !s.t.fields[s.k].equal(t) {
					ck.fail()
				}
			} else {
				ck.fail()
			}
		case c03SIf:
			t, d := ck.expr(s.c)
			if t.kind != 0 || !d {
				ck.fail()
			}
			ck.open()
			da := ck.block(s.a)
			ck.close()
			ck.open()
			db := ck.block(s.b)
			ck.close()
			if !s.hasEls && len(s.b) != 0 {
				ck.fail()
			}
			dead = da && db && s.hasEls
		case c03SFor:
			ck.open()
			ck.decl(s.v, c03Int32, true)
			ck.open()
			if ck.block(s.a) && s.cnt > 0 {
				ck.fail() // a loop body that always returns is never generated
			}
			ck.close()
			ck.close()
		case c03SReturn:
			if len(s.es) != len(ck.fn.rets) {
				ck.fail()
				break
			}
			for i, e := range s.es {
				t, d := ck.expr(e)
				if !t.equal(ck.fn.rets[i]) || !d {
					ck.fail()
				}
			}
			if len(s.dead) > 0 {
				// dead code must still be well-formed; it declares nothing
				for _, d := range s.dead {
					if d.tag != c03SAssign && d.tag != c03SReturn {
						ck.fail()
					}
				}
				ck.open()
				ck.block(s.dead)
				ck.close()
			}
			dead = true
		case c03SCall:
			if s.f < 0 || s.f >= len(ck.p.funcs)-1 {
				ck.fail()
				break
			}
			callee := ck.p.funcs[s.f]
			if callee == ck.fn || len(s.es) != len(callee.params) || len(s.xs) != len(callee.rets) {
				ck.fail()
				break
			}
			for i, e := range s.es {
				t, d := ck.expr(e)
				if !t.equal(callee.ptys[i]) || !d {
					ck.fail()
				}
			}
			for i, x := range s.xs {
				if !s.xts[i].equal(callee.rets[i]) {
					ck.fail()
				}
				ck.decl(x, s.xts[i], false)
			}
		}
	}
	return dead
}

var c03Int32 = &c03Ty{kind: 1, w: 32}

func c03Valid(p *c03Prog) bool {
	for fi, f := range p.funcs {
		ck := &c03Checker{p: p, fn: f, ok: true}
		ck.open()
		for i, v := range f.params {
			ck.decl(v, f.ptys[i], false)
		}
		// calls only to earlier functions
		var chk func(b []*c03Stmt)
		chk = func(b []*c03Stmt) {
			for _, s := range b {
				if s.tag == c03SCall && s.f >= fi {
					ck.fail()
				}
				chk(s.a)
				chk(s.b)
			}
		}
		chk(f.body)
		if !ck.block(f.body) || !ck.ok {
			return false
		}
	}
	return true
}

// ------------------------------------------------------------- features
// Construct classes of a program (histogram, failure keys).

type c03Feat map[string]bool

func (f c03Feat) list() []string {
	var l []string
	for k := range f {
		l = append(l, k)
	}
	sort.Strings(l)
	return l
}

type c03FeatWalker struct {
	feat    c03Feat
	scope   []map[int]bool // declared names per open scope
	closed  map[int]bool   // names declared in scopes of this function that are closed
	loopCnt int            // largest iteration count of the enclosing loops
}

func (fw *c03FeatWalker) visible(id int) bool {
	for _, m := range fw.scope {
		if m[id] {
			return true
		}
	}
	return false
}
func (fw *c03FeatWalker) declare(id int) {
	if fw.closed[id] && !fw.visible(id) {
		fw.feat["sibling-scope-name-reuse"] = true
	}
	if len(fw.scope) > 1 {
		outer := false
		for _, m := range fw.scope[:len(fw.scope)-1] {
			if m[id] {
				outer = true
			}
		}
		if outer {
			fw.feat["shadow"] = true
		}
	}
	fw.scope[len(fw.scope)-1][id] = true
}

func (fw *c03FeatWalker) expr(e *c03Expr) {
	if e == nil {
		return
	}
	switch e.tag {
	case c03EBin:
		fw.feat[c03BinName[e.op]] = true
		lit := c03IsConstExpr(e.a) || c03IsConstExpr(e.b)
		if lit && e.t.kind != 0 {
			fw.feat["literal-operand"] = true
			if c03Sensitive(e.op) {
				if e.t.kind == 1 && e.t.w < 32 {
					fw.feat["literal-operand:int<32:sign-sensitive"] = true
				}
				if e.t.kind == 2 && c03IsConstExpr(e.a) {
					fw.feat["literal-left:uint:sign-sensitive"] = true
				}
			}
		}
	case c03ENeg:
		fw.feat["neg"] = true
	case c03ENot:
		fw.feat["not"] = true
	case c03EShl:
		fw.feat["shl"] = true
	case c03EShr:
		fw.feat["shr"] = true
	case c03ECast:
		switch {
		case e.to.w > e.t.w && e.t.kind == 1 && e.to.kind == 2:
			fw.feat["cast-int-to-wider-uint"] = true
		case e.to.w > e.t.w:
			fw.feat["cast-widen"] = true
		case e.to.w < e.t.w:
			fw.feat["cast-narrow"] = true
		default:
			fw.feat["cast-same-width"] = true
		}
	case c03ESlice:
		if e.at.kind == 3 {
			fw.feat["array-const-index"] = true
		} else {
			fw.feat["struct-field"] = true
		}
	case c03EIndex:
		fw.feat["array-dynamic-index"] = true
	}
	fw.expr(e.a)
	fw.expr(e.b)
}

func (fw *c03FeatWalker) block(b []*c03Stmt, inLoop bool) {
	fw.scope = append(fw.scope, map[int]bool{})
	for _, s := range b {
		fw.expr(s.e)
		fw.expr(s.c)
		for _, e := range s.es {
			fw.expr(e)
		}
		switch s.tag {
		case c03SDecl, c03SDeclZero:
			fw.declare(s.v.id)
			if s.tag == c03SDecl && s.short && fw.loopCnt >= 2 {
				fw.feat["short-declaration-in-unrolled-loop-body"] = true
			}
		case c03SCopy:
			fw.feat["copy"] = true
			if s.st.n > s.hi-s.lo {
				fw.feat["copy-source-longer-than-destination-range"] = true
			}
		case c03SStore:
			if s.t.kind == 3 {
				fw.feat["array-store"] = true
			} else {
				fw.feat["struct-store"] = true
			}
			if c03IsConstExpr(s.e) {
				fw.feat["composite-store-of-constant"] = true
			}
		case c03SIf:
			fw.feat["if"] = true
			if s.hasEls {
				fw.feat["else"] = true
				if s.elseIf && len(s.b) == 1 && s.b[0].tag == c03SIf {
					fw.feat["else-if"] = true
				}
				// both arms assign the same variable under a nested condition
				na, nb := c03NestedAssigned(s.a), c03NestedAssigned(s.b)
				for id := range na {
					if nb[id] {
						fw.feat["nested-conditional-assignment-in-both-arms"] = true
					}
				}
			}
			fw.block(s.a, inLoop)
			fw.block(s.b, inLoop)
		case c03SFor:
			fw.feat["for"] = true
			fw.scope = append(fw.scope, map[int]bool{s.v.id: true})
			saved := fw.loopCnt
			if s.cnt > fw.loopCnt {
				fw.loopCnt = s.cnt
			}
			fw.block(s.a, true)
			fw.loopCnt = saved
			fw.scope = fw.scope[:len(fw.scope)-1]
			fw.closed[s.v.id] = true
		case c03SReturn:
			if len(s.dead) > 0 {
				fw.feat["dead-code-after-return"] = true
			}
			if len(fw.scope) > 2 {
				fw.feat["early-return"] = true
				if inLoop {
					fw.feat["return-in-loop"] = true
				}
			}
		case c03SCall:
			fw.feat["call"] = true
			if fw.loopCnt >= 2 {
				fw.feat["short-declaration-in-unrolled-loop-body"] = true
			}
			if len(s.xs) > 1 {
				fw.feat["call-multi-result"] = true
			}
			for _, x := range s.xs {
				fw.declare(x.id)
			}
		}
	}
	for id := range fw.scope[len(fw.scope)-1] {
		fw.closed[id] = true
	}
	fw.scope = fw.scope[:len(fw.scope)-1]
}

func c03Features(p *c03Prog) c03Feat {
	fw := &c03FeatWalker{feat: c03Feat{}}
	for _, f := range p.funcs {
		// the parameters live in the function's outermost scope; the body is
		// walked as a nested scope (a body-level redeclaration of a parameter
		// is an error in Go and never generated)
		fw.scope = []map[int]bool{{}}
		fw.closed = map[int]bool{}
		for _, v := range f.params {
			fw.scope[0][v.id] = true
		}
		fw.block(f.body, false)
	}
	return fw.feat
}

// c03NestedAssigned: variables assigned inside an if statement of the block
// (at any depth below that if).
func c03NestedAssigned(b []*c03Stmt) map[int]bool {
	out := map[int]bool{}
	var all func(b []*c03Stmt)
	all = func(b []*c03Stmt) {
		for _, s := range b {
			if s.tag == c03SAssign || s.tag == c03SStore || s.tag == c03SCopy {
				out[s.v.id] = true
			}
			all(s.a)
			all(s.b)
		}
	}
	for _, s := range b {
		if s.tag == c03SIf {
			all(s.a)
			all(s.b)
		}
	}
	return out
}
