package main

// Property C20: OT-based multiplication gadgets return shares of the product.
//
// Part 1 (VOLE): a real vole.Sender / vole.Receiver pair (base OT = ot.CO,
// wrapped only to record the base-OT wires) runs over p2p.Conn on a logging,
// fragmenting in-memory transport.  Several Mul calls are made per session so
// that the IKNP column streams continue across calls.  Observed per Mul: rs
// (Sender.Mul result), us (Receiver.Mul result), the bytes of the y-vector
// and u-vector messages (tail of each direction's byte log), the number of
// bytes each party wrote.  The IKNP labels are recomputed here from the
// recorded base-OT wires (label n of the session has bit j = bit n%8 of byte
// n/8 of AES-CTR(wire_j.L0); the receiver's choice flags are all false so
// both parties hold these labels) and given to the Coq model
// (coq/theories/OT/RunC20.v), which must reproduce every observable; for
// short vectors the model also computes the AES-CTR label expansion itself.
// Every session additionally yields one HISTORY case (c20History, op 6): the
// model is given the raw key streams of the base-OT wires and Delta only and
// derives the labels of every call of the session itself (OT/VoleHist.v).
// Part 2 (bmr): FxSend/FxReceive/FxkSend/FxkReceive over a real CO pair on
// ot.NewPipe, crypto/rand.Reader replaced by a harness reader so that the
// label of bmr.NewLabel is chosen here; the OT is wrapped to record the
// offered wire, the flag and the delivered label.
// The share relations are evaluated on the real outputs of every case.

import (
	"bytes"
	"crypto/aes"
	"crypto/cipher"
	crand "crypto/rand"
	"encoding/binary"
	"fmt"
	"io"
	"math/big"
	"os"
	"regexp"
	"runtime"
	"runtime/debug"
	"sort"
	"strings"
	"sync"
	"time"

	"github.com/markkurossi/mpc/bmr"
	"github.com/markkurossi/mpc/circuit"
	"github.com/markkurossi/mpc/ot"
	"github.com/markkurossi/mpc/p2p"
	"github.com/markkurossi/mpc/vole"
)

func init() { register("c20", runC20) }

type c20Replay struct {
	Seed    uint64   `json:"seed"`
	Part    string   `json:"part"`
	Modulus string   `json:"modulus,omitempty"`
	M       int      `json:"m,omitempty"`
	Index   int      `json:"index,omitempty"`
	X       string   `json:"x,omitempty"`
	Y       string   `json:"y,omitempty"`
	R       string   `json:"r,omitempty"`
	U       string   `json:"u,omitempty"`
	Label   string   `json:"label,omitempty"`
	A       uint     `json:"a,omitempty"`
	B       uint     `json:"b,omitempty"`
	Detail  string   `json:"detail"`
	Over    string   `json:"over,omitempty"`
	Call    int      `json:"call,omitempty"`
	History []string `json:"history,omitempty"`
}

// ---------------------------------------------------------------------------
// recording OT wrapper

type c20RecOT struct {
	ot.OT
	mu    sync.Mutex
	sent  [][]ot.Wire
	flags [][]bool
	got   [][]ot.Label
}

func (o *c20RecOT) Send(wires []ot.Wire) error {
	o.mu.Lock()
	o.sent = append(o.sent, append([]ot.Wire(nil), wires...))
	o.mu.Unlock()
	return o.OT.Send(wires)
}

func (o *c20RecOT) Receive(flags []bool, result []ot.Label) error {
	err := o.OT.Receive(flags, result)
	o.mu.Lock()
	o.flags = append(o.flags, append([]bool(nil), flags...))
	o.got = append(o.got, append([]ot.Label(nil), result...))
	o.mu.Unlock()
	return err
}

// ---------------------------------------------------------------------------
// moduli and elements

type c20Mod struct {
	name string
	p    *big.Int
}

func c20Hex(s string) *big.Int {
	v, ok := new(big.Int).SetString(s, 16)
	if !ok {
		panic(s)
	}
	return v
}

func c20Pow2(n uint) *big.Int { return new(big.Int).Lsh(big.NewInt(1), n) }

func c20Moduli(thorough bool) []c20Mod {
	m := []c20Mod{
		{"p256", c20Hex("ffffffff00000001000000000000000000000000ffffffffffffffffffffffff")},
		{"2", big.NewInt(2)},
		{"3", big.NewInt(3)},
		{"65537", big.NewInt(65537)},
		{"2^255-19", new(big.Int).Sub(c20Pow2(255), big.NewInt(19))},
	}
	if thorough {
		m = append(m,
			c20Mod{"1", big.NewInt(1)},
			c20Mod{"2^256-189", new(big.Int).Sub(c20Pow2(256), big.NewInt(189))},
			c20Mod{"2^256-1", new(big.Int).Sub(c20Pow2(256), big.NewInt(1))},
			c20Mod{"2^256", c20Pow2(256)},
			c20Mod{"2^61-1", new(big.Int).Sub(c20Pow2(61), big.NewInt(1))},
			c20Mod{"2^128", c20Pow2(128)},
		)
	}
	return m
}

func c20Rand(r *RNG, bound *big.Int) *big.Int {
	v := new(big.Int).SetBytes(r.Bytes(40))
	return v.Mod(v, bound)
}

// element kinds: 0 zero, 1 one, 2 p-1, 3 random; kinds >= 4 only in the
// "unreduced" class
var c20KindNames = []string{"0", "1", "p-1", "rand", "p", "2^256-1", "neg", "big"}

func c20Elem(r *RNG, p *big.Int, kind int) *big.Int {
	switch kind {
	case 0:
		return big.NewInt(0)
	case 1:
		return new(big.Int).Mod(big.NewInt(1), p)
	case 2:
		return new(big.Int).Sub(p, big.NewInt(1))
	case 3:
		return c20Rand(r, p)
	case 4: // unreduced: p itself (fits 32 bytes when p < 2^256)
		if p.BitLen() > 256 {
			return c20Rand(r, p)
		}
		return new(big.Int).Set(p)
	case 5:
		return new(big.Int).Sub(c20Pow2(256), big.NewInt(1))
	case 6: // negative (sender side only)
		v := c20Rand(r, c20Pow2(300))
		return v.Neg(v)
	default: // larger than 2^256 (sender side only)
		return new(big.Int).Add(c20Pow2(256), c20Rand(r, c20Pow2(300)))
	}
}

// c20Vectors builds x and y of length m: in the field class all 16
// combinations of {0,1,p-1,random} cycle through the positions (starting at a
// random phase); in the unreduced class x ranges over all 8 kinds and y over
// the kinds that are in [0,2^256).
func c20Vectors(r *RNG, p *big.Int, m int, unreduced bool) (xs, ys []*big.Int, kinds []string) {
	xs = make([]*big.Int, m)
	ys = make([]*big.Int, m)
	kinds = make([]string, m)
	phase := r.Intn(64)
	for i := 0; i < m; i++ {
		var kx, ky int
		if unreduced {
			k := (i + phase) % 48
			kx, ky = k%8, k/8
		} else {
			k := (i + phase) % 16
			kx, ky = k%4, k/4
		}
		xs[i] = c20Elem(r, p, kx)
		ys[i] = c20Elem(r, p, ky)
		kinds[i] = c20KindNames[kx] + "*" + c20KindNames[ky]
	}
	return
}

// c20SweepModuli: moduli of every bit length at and around the machine-word
// boundaries (31..33, 63..65, 127..129, 191..193, 255, 256), small ones, and
// random ones (random bit lengths, random 64-bit odd numbers and primes).
// The property quantifies over every modulus of at most 256 bits, so an
// implementation that special-cases word-sized moduli must be met here.
func c20SweepModuli(r *RNG, thorough bool) []c20Mod {
	sub := func(n uint, d int64) *big.Int { return new(big.Int).Sub(c20Pow2(n), big.NewInt(d)) }
	add := func(n uint, d int64) *big.Int { return new(big.Int).Add(c20Pow2(n), big.NewInt(d)) }
	m := []c20Mod{
		{"2", big.NewInt(2)}, {"3", big.NewInt(3)}, {"251", big.NewInt(251)}, {"65537", big.NewInt(65537)},
		{"2^31-1", sub(31, 1)},
		{"2^32-5", sub(32, 5)}, {"2^32-1", sub(32, 1)}, {"2^31", c20Pow2(31)},
		{"2^32+15", add(32, 15)}, {"2^32", c20Pow2(32)},
		{"2^63-25", sub(63, 25)}, {"2^63-1", sub(63, 1)},
		{"2^64-59", sub(64, 59)}, {"2^64-2^32+1", new(big.Int).Add(new(big.Int).Sub(c20Pow2(64), c20Pow2(32)), big.NewInt(1))},
		{"2^63+9", add(63, 9)}, {"2^63", c20Pow2(63)}, {"2^64-1", sub(64, 1)},
		{"2^64+13", add(64, 13)}, {"2^64", c20Pow2(64)},
		{"2^127-1", sub(127, 1)},
		{"2^128-159", sub(128, 159)}, {"2^127", c20Pow2(127)},
		{"2^128+51", add(128, 51)}, {"2^128", c20Pow2(128)},
		{"2^191-19", sub(191, 19)},
		{"p192", c20Hex("fffffffffffffffffffffffffffffffeffffffffffffffff")}, {"2^192-1", sub(192, 1)},
		{"2^192+133", add(192, 133)},
		{"2^255-19", sub(255, 19)},
		{"2^256-189", sub(256, 189)},
		{"p256", c20Hex("ffffffff00000001000000000000000000000000ffffffffffffffffffffffff")},
		{"p256-order", c20Hex("ffffffff00000000ffffffffffffffffbce6faada7179e84f3b9cac2fc632551")},
		{"2^256-1", sub(256, 1)}, {"2^255", c20Pow2(255)},
	}
	n64, nprime, nbits := 3, 2, 6
	if thorough {
		n64, nprime, nbits = 40, 20, 120
	}
	for i := 0; i < n64; i++ { // random 64-bit odd numbers
		v := new(big.Int).SetUint64(r.U64() | 1<<63 | 1)
		m = append(m, c20Mod{"rand64-odd", v})
	}
	for i := 0; i < nprime; i++ { // random 64-bit primes
		v := new(big.Int).SetUint64(r.U64() | 1<<63 | 1)
		for !v.ProbablyPrime(16) || v.BitLen() != 64 {
			v.Add(v, big.NewInt(2))
			if v.BitLen() != 64 {
				v.SetUint64(r.U64() | 1<<63 | 1)
			}
		}
		m = append(m, c20Mod{"rand64-prime", v})
	}
	for i := 0; i < nbits; i++ { // random bit lengths 2..256
		k := uint(2 + r.Intn(255))
		v := c20Rand(r, c20Pow2(k-1))
		v.Add(v, c20Pow2(k-1))
		m = append(m, c20Mod{fmt.Sprintf("rand-%dbit", k), v})
	}
	return m
}

// sweep element kinds
var c20SweepKindNames = []string{"0", "1", "2", "p-1", "p-2", "(p-1)/2", "2^(k-1)", "rand"}

func c20SweepElem(r *RNG, p *big.Int, kind int) *big.Int {
	var v *big.Int
	switch kind {
	case 0:
		v = big.NewInt(0)
	case 1:
		v = big.NewInt(1)
	case 2:
		v = big.NewInt(2)
	case 3:
		v = new(big.Int).Sub(p, big.NewInt(1))
	case 4:
		v = new(big.Int).Sub(p, big.NewInt(2))
	case 5:
		v = new(big.Int).Sub(p, big.NewInt(1))
		v.Rsh(v, 1)
	case 6:
		v = c20Pow2(uint(p.BitLen() - 1))
	default:
		return c20Rand(r, p)
	}
	// always a field element
	return v.Mod(v, p)
}

// c20SweepVectors: x, y over all 64 combinations of the 8 sweep kinds,
// cycling through the positions from a random phase.
func c20SweepVectors(r *RNG, p *big.Int, m int) (xs, ys []*big.Int, kinds []string) {
	xs = make([]*big.Int, m)
	ys = make([]*big.Int, m)
	kinds = make([]string, m)
	phase := r.Intn(64)
	for i := 0; i < m; i++ {
		k := (i + phase) % 64
		kx, ky := k%8, k/8
		xs[i] = c20SweepElem(r, p, kx)
		ys[i] = c20SweepElem(r, p, ky)
		kinds[i] = c20SweepKindNames[kx] + "*" + c20SweepKindNames[ky]
	}
	return
}

// ---------------------------------------------------------------------------
// VOLE session

type c20Op struct {
	class  string // field | unreduced | sweep | probe:<what>
	p      *big.Int
	xs, ys []*big.Int
	kinds  []string
	// results
	rs, us     []*big.Int
	sErr, rErr error
	yb, ub     []byte // message payloads (with the 4-byte prefix checked)
	sBytes     int    // bytes written by the sender during this Mul
	rBytes     int
	prefixOK   bool
	labels     []ot.Label
	pads       []*big.Int
	argSnap    string // xs|ys|p before the session
	rsSnap     string // rs right after Sender.Mul returned
	usSnap     string
}

type c20Session struct {
	ops      []*c20Op
	wires    []ot.Wire // base OT wires offered by the IKNP receiver
	k0       []ot.Label
	k0flags  []bool
	setupErr error
	timedOut bool
}

// c20PipeEnd is one end of an io.Pipe pair (what p2p.Pipe() wraps) with a log
// of everything written.
type c20PipeEnd struct {
	r   *io.PipeReader
	w   *io.PipeWriter
	log *fragQueue
}

func c20NewPipePair() (*c20PipeEnd, *c20PipeEnd) {
	ar, aw := io.Pipe()
	br, bw := io.Pipe()
	e0 := &c20PipeEnd{r: br, w: aw, log: &fragQueue{}}
	e1 := &c20PipeEnd{r: ar, w: bw, log: &fragQueue{}}
	return e0, e1
}

func (e *c20PipeEnd) Read(p []byte) (int, error) { return e.r.Read(p) }
func (e *c20PipeEnd) Write(p []byte) (int, error) {
	e.log.mu.Lock()
	e.log.log = append(e.log.log, p...)
	e.log.written += len(p)
	e.log.mu.Unlock()
	return e.w.Write(p)
}
func (e *c20PipeEnd) Close() error {
	e.r.Close()
	return e.w.Close()
}

func c20Snap(v []*big.Int) string {
	var sb strings.Builder
	for _, x := range v {
		if x == nil {
			sb.WriteString("nil,")
		} else {
			sb.WriteString(x.Text(16))
			sb.WriteByte(',')
		}
	}
	return sb.String()
}

func c20Protect(f func() error) (err error) {
	defer func() {
		if r := recover(); r != nil {
			err = fmt.Errorf("panic: %v", r)
		}
	}()
	return f()
}

func c20IsPanic(err error) bool {
	return err != nil && len(err.Error()) >= 6 && err.Error()[:6] == "panic:"
}

// c20BaseOT, when set, replaces ot.NewCO as the base OT given to
// vole.NewSender / vole.NewReceiver (door: every ot.OT the constructors accept).
var c20BaseOT func(r *RNG) ot.OT

// c20RunSession runs all ops of one session; both parties proceed op by op
// (barrier after every Mul so that per-Mul traffic can be attributed).
func c20RunSession(rng *RNG, ops []*c20Op, maxFrag int, timeout time.Duration) *c20Session {
	s := &c20Session{ops: ops}
	var d0, d1 interface {
		io.ReadWriter
		Close() error
	}
	var q01, q10 *fragQueue
	if maxFrag < 0 {
		// the transport of p2p.Pipe() (synchronous io.Pipe in both directions), with a byte log
		e0, e1 := c20NewPipePair()
		d0, d1, q01, q10 = e0, e1, e0.log, e1.log
	} else {
		d0, d1, q01, q10 = newDuplexPair(rng.Fork(), maxFrag)
	}
	c0 := p2p.NewConn(d0)
	c1 := p2p.NewConn(d1)
	// snapshots: arguments must be unchanged by Mul, results by later calls
	for _, op := range ops {
		op.argSnap = c20Snap(op.xs) + "|" + c20Snap(op.ys) + "|" + op.p.Text(16)
	}
	mkBase := func(r *RNG) ot.OT { return ot.NewCO(r) }
	if c20BaseOT != nil {
		mkBase = c20BaseOT
	}
	sOT := &c20RecOT{OT: mkBase(rng.Fork())}
	rOT := &c20RecOT{OT: mkBase(rng.Fork())}
	rngS, rngR := rng.Fork(), rng.Fork()

	type step struct{ s, r chan struct{} }
	steps := make([]step, len(ops))
	for i := range steps {
		steps[i] = step{make(chan struct{}), make(chan struct{})}
	}
	abort := make(chan struct{})
	var once sync.Once
	kill := func() {
		once.Do(func() {
			close(abort)
			d0.Close()
			d1.Close()
		})
	}
	wrote := func(q *fragQueue) int {
		q.mu.Lock()
		defer q.mu.Unlock()
		return q.written
	}
	tail := func(q *fragQueue, from int) []byte {
		q.mu.Lock()
		defer q.mu.Unlock()
		return append([]byte(nil), q.log[from:]...)
	}

	var wg sync.WaitGroup
	var snd *vole.Sender
	var rcv *vole.Receiver
	var sSetup, rSetup error
	sReady, rReady := make(chan struct{}), make(chan struct{})
	wg.Add(2)
	go func() {
		defer wg.Done()
		sSetup = c20Protect(func() error {
			var err error
			snd, err = vole.NewSender(sOT, c0, rngS)
			return err
		})
		if sSetup != nil {
			kill()
		}
		close(sReady)
		select {
		case <-rReady:
		case <-abort:
		}
		if sSetup != nil || rSetup != nil {
			return
		}
		for i, op := range ops {
			op.sErr = c20Protect(func() error {
				var err error
				op.rs, err = snd.Mul(op.xs, op.p)
				return err
			})
			op.rsSnap = c20Snap(op.rs)
			if op.sErr != nil {
				kill()
			}
			close(steps[i].s)
			select {
			case <-steps[i].r:
			case <-abort:
			}
			if op.sErr != nil || op.rErr != nil {
				return
			}
		}
	}()
	go func() {
		defer wg.Done()
		rSetup = c20Protect(func() error {
			var err error
			rcv, err = vole.NewReceiver(rOT, c1, rngR)
			return err
		})
		if rSetup != nil {
			kill()
		}
		close(rReady)
		select {
		case <-sReady:
		case <-abort:
		}
		if sSetup != nil || rSetup != nil {
			return
		}
		for i, op := range ops {
			s0, r0 := wrote(q01), wrote(q10)
			op.rErr = c20Protect(func() error {
				var err error
				op.us, err = rcv.Mul(op.ys, op.p)
				return err
			})
			op.usSnap = c20Snap(op.us)
			if op.rErr != nil {
				kill()
			}
			select {
			case <-steps[i].s:
			case <-abort:
				select {
				case <-steps[i].s:
				case <-time.After(2 * time.Second):
				}
			}
			// both Mul calls have returned: all bytes of this op are logged
			if op.sErr == nil && op.rErr == nil && len(op.ys) > 0 {
				sLog := tail(q01, s0)
				rLog := tail(q10, r0)
				op.sBytes, op.rBytes = len(sLog), len(rLog)
				n := 32 * len(op.ys)
				if len(sLog) >= n+4 && len(rLog) >= n+4 {
					op.ub = sLog[len(sLog)-n:]
					op.yb = rLog[len(rLog)-n:]
					op.prefixOK = binary.BigEndian.Uint32(sLog[len(sLog)-n-4:]) == uint32(n) &&
						binary.BigEndian.Uint32(rLog[len(rLog)-n-4:]) == uint32(n)
				}
			}
			close(steps[i].r)
			if op.sErr != nil || op.rErr != nil {
				return
			}
		}
	}()
	done := make(chan struct{})
	go func() { wg.Wait(); close(done) }()
	select {
	case <-done:
	case <-time.After(timeout):
		s.timedOut = true
		kill()
		select {
		case <-done:
		case <-time.After(5 * time.Second):
		}
	}
	kill()
	if !s.timedOut {
		c0.Close()
		c1.Close()
	}
	if sSetup != nil {
		s.setupErr = sSetup
	} else if rSetup != nil {
		s.setupErr = rSetup
	}
	rOT.mu.Lock()
	if len(rOT.sent) > 0 {
		s.wires = rOT.sent[0]
	}
	rOT.mu.Unlock()
	sOT.mu.Lock()
	if len(sOT.got) > 0 {
		s.k0 = sOT.got[0]
		s.k0flags = sOT.flags[0]
	}
	sOT.mu.Unlock()
	return s
}

// c20Streams are the 128 AES-CTR column streams of the IKNP receiver (g0).
type c20Streams struct {
	st [128]cipher.Stream
}

func c20NewStreams(wires []ot.Wire) (*c20Streams, error) {
	if len(wires) != 128 {
		return nil, fmt.Errorf("%d base wires", len(wires))
	}
	s := &c20Streams{}
	for j := 0; j < 128; j++ {
		var ld ot.LabelData
		wires[j].L0.GetData(&ld)
		blk, err := aes.NewCipher(ld[:])
		if err != nil {
			return nil, err
		}
		var iv [16]byte
		s.st[j] = cipher.NewCTR(blk, iv[:])
	}
	return s, nil
}

// next returns the m labels of the next extension of m rows.
func (s *c20Streams) next(m int) []ot.Label {
	nb := 0
	for ofs := 0; ofs < m; {
		rows := 512
		if rows > m-ofs {
			rows = m - ofs
		}
		nb += (rows + 7) / 8
		ofs += rows
	}
	cols := make([][]byte, 128)
	for j := range cols {
		cols[j] = make([]byte, nb)
		s.st[j].XORKeyStream(cols[j], cols[j])
	}
	labels := make([]ot.Label, m)
	for n := 0; n < m; n++ {
		for j := 0; j < 128; j++ {
			if (cols[j][n/8]>>uint(n%8))&1 != 0 {
				if j < 64 {
					labels[n].D0 |= 1 << uint(j)
				} else {
					labels[n].D1 |= 1 << uint(j-64)
				}
			}
		}
	}
	return labels
}

func c20Expand(l ot.Label) *big.Int {
	var ld ot.LabelData
	l.GetData(&ld)
	blk, err := aes.NewCipher(ld[:])
	if err != nil {
		panic(err)
	}
	var iv [16]byte
	var pad [32]byte
	cipher.NewCTR(blk, iv[:]).XORKeyStream(pad[:], pad[:])
	return new(big.Int).SetBytes(pad[:])
}

func c20Bigs(v []*big.Int) SX {
	l := make([]SX, len(v))
	for i, x := range v {
		l[i] = Big(x)
	}
	return L(l...)
}

func c20Blocks(b []byte) SX {
	var l []SX
	for i := 0; i+32 <= len(b); i += 32 {
		l = append(l, Big(new(big.Int).SetBytes(b[i:i+32])))
	}
	return L(l...)
}

func c20ModName(p *big.Int) string {
	if p.BitLen() <= 20 {
		return p.String()
	}
	return fmt.Sprintf("%dbit", p.BitLen())
}

// c20CheckOp evaluates the property on one finished Mul and emits its
// correspondence cases.  slices: element ranges emitted as cases.
func c20CheckOp(c *Ctx, op *c20Op, aesMode bool, allSlices bool) {
	m := len(op.xs)
	p := op.p
	probe := len(op.class) >= 5 && op.class[:5] == "probe"
	rep := func(i int, detail string) c20Replay {
		r := c20Replay{Seed: c.Seed, Part: "vole", Modulus: p.Text(16), M: m, Index: i, Detail: detail}
		if i >= 0 && i < m {
			r.X, r.Y = op.xs[i].Text(16), op.ys[i].Text(16)
			if i < len(op.rs) {
				r.R = op.rs[i].Text(16)
			}
			if i < len(op.us) {
				r.U = op.us[i].Text(16)
			}
			if i < len(op.labels) {
				r.Label = fmt.Sprintf("%016x%016x", op.labels[i].D0, op.labels[i].D1)
			}
		}
		return r
	}
	if op.class == "sweep" {
		c.Hist(fmt.Sprintf("vole:sweep:modulus-bits=%03d", p.BitLen()))
	} else {
		c.Hist(fmt.Sprintf("vole:%s:p=%s:m=%s", op.class, c20ModName(p), c20LenBucket(m)))
	}

	if op.sErr != nil || op.rErr != nil {
		code := 1
		if c20IsPanic(op.sErr) || c20IsPanic(op.rErr) {
			code = 2
		}
		if !probe {
			c.Fail(fmt.Sprintf("c20:vole:%s:error:p=%s", op.class, c20ModName(p)),
				fmt.Sprintf("Mul failed on in-domain input: sender=%v receiver=%v", op.sErr, op.rErr), rep(-1, "error"))
		}
		c.Case(L(I(0), I(0), Big(p), Labels(op.labels), c20Bigs(op.pads), c20Bigs(op.xs), c20Bigs(op.ys)),
			L(I(-1), I(code)))
		c.Eval(fmt.Sprintf("vole-err:%s:%s:%d", op.class, p.Text(16), m), true)
		return
	}
	if m == 0 {
		if op.rs != nil || op.us != nil {
			c.Fail("c20:vole:m=0:non-nil", "Mul of an empty vector returned a non-nil vector", rep(-1, ""))
		}
		c.Case(L(I(0), I(0), Big(p), L(), L(), L(), L()), L(I(1), L(), I(0), L(), I(0), L(), L()))
		c.Eval("vole:m=0:"+p.Text(16), false)
		return
	}
	// ---- oracle on the implementation
	if len(op.rs) != m || len(op.us) != m {
		c.Fail(fmt.Sprintf("c20:vole:%s:length", op.class), fmt.Sprintf("len(rs)=%d len(us)=%d want %d", len(op.rs), len(op.us), m), rep(-1, "length"))
		return
	}
	absP := new(big.Int).Abs(p)
	for i := 0; i < m; i++ {
		lhs := new(big.Int).Sub(op.us[i], op.rs[i])
		lhs.Mod(lhs, absP)
		rhs := new(big.Int).Mul(op.xs[i], op.ys[i])
		rhs.Mod(rhs, absP)
		c.Eval(fmt.Sprintf("vole:%s:%s:%s", p.Text(16), op.xs[i].Text(16), op.ys[i].Text(16)),
			op.xs[i].Sign() != 0 && op.ys[i].Sign() != 0 && absP.Cmp(big.NewInt(1)) > 0)
		if !probe {
			if lhs.Cmp(rhs) != 0 {
				key := fmt.Sprintf("c20:vole:%s:relation:p=%s:%s", op.class, c20ModName(p), op.kinds[i])
				if op.class == "sweep" {
					key = fmt.Sprintf("c20:vole:modulus-bits=%d:share-relation", p.BitLen())
				}
				c.Fail(key,
					fmt.Sprintf("(u-r) mod p = %x but x*y mod p = %x at index %d of %d", lhs, rhs, i, m), rep(i, "relation"))
			}
			if op.rs[i].Sign() < 0 || op.rs[i].Cmp(absP) >= 0 || op.us[i].Sign() < 0 || op.us[i].Cmp(absP) >= 0 {
				key := fmt.Sprintf("c20:vole:%s:range:p=%s", op.class, c20ModName(p))
				if op.class == "sweep" {
					key = fmt.Sprintf("c20:vole:modulus-bits=%d:share-range", p.BitLen())
				}
				c.Fail(key,
					fmt.Sprintf("share outside [0,p) at index %d", i), rep(i, "range"))
			}
		}
		// the mask is the expansion of the IKNP label of this position
		if i < len(op.pads) {
			want := new(big.Int).Mod(op.pads[i], absP)
			if want.Cmp(op.rs[i]) != 0 && !probe {
				c.Fail(fmt.Sprintf("c20:vole:%s:mask-not-expansion-of-label:p=%s", op.class, c20ModName(p)),
					fmt.Sprintf("r[%d] = %x, AES-CTR(label) mod p = %x", i, op.rs[i], want), rep(i, "mask"))
			}
		}
	}
	if !probe {
		// the messages carry exactly ys and us as 32-byte big-endian blocks
		if !op.prefixOK || len(op.yb) != 32*m || len(op.ub) != 32*m {
			c.Fail(fmt.Sprintf("c20:vole:%s:message-shape", op.class), "y/u message is not one SendData of m*32 bytes at the end of the exchange", rep(-1, "shape"))
		} else {
			for i := 0; i < m; i++ {
				yv := new(big.Int).SetBytes(op.yb[32*i : 32*i+32])
				uv := new(big.Int).SetBytes(op.ub[32*i : 32*i+32])
				if yv.Cmp(op.ys[i]) != 0 {
					c.Fail(fmt.Sprintf("c20:vole:%s:y-bytes", op.class), fmt.Sprintf("y block %d decodes to %x", i, yv), rep(i, "y-bytes"))
				}
				if uv.Cmp(op.us[i]) != 0 {
					c.Fail(fmt.Sprintf("c20:vole:%s:u-bytes", op.class), fmt.Sprintf("u block %d decodes to %x", i, uv), rep(i, "u-bytes"))
				}
			}
		}
	}
	if m >= 3 && op.class == "field" {
		i := m - 1
		c.Sample(map[string]interface{}{"part": "vole", "p": p.Text(16), "m": m, "index": i, "kind": op.kinds[i],
			"x": op.xs[i].Text(16), "y": op.ys[i].Text(16), "r": op.rs[i].Text(16), "u": op.us[i].Text(16)})
	}
	// ---- correspondence cases: element slices
	const sl = 64
	emit := func(lo, hi int) {
		mode := 0
		if aesMode {
			mode = 1
		}
		c.Case(L(I(0), I(mode), Big(p), Labels(op.labels[lo:hi]), c20Bigs(op.pads[lo:hi]), c20Bigs(op.xs[lo:hi]), c20Bigs(op.ys[lo:hi])),
			L(I(1), c20Bigs(op.rs[lo:hi]), I(32*(hi-lo)), c20Blocks(op.yb[32*lo:32*hi]), I(32*(hi-lo)), c20Blocks(op.ub[32*lo:32*hi]), c20Bigs(op.us[lo:hi])))
	}
	if len(op.yb) == 32*m && len(op.ub) == 32*m && len(op.labels) == m {
		if m <= sl {
			emit(0, m)
		} else {
			for lo := 0; lo < m; lo += sl {
				hi := lo + sl
				if hi > m {
					hi = m
				}
				// quick: first slice, the slices that contain an IKNP chunk boundary, the last slice
				boundary := lo == 0 || hi == m || (lo/512 != (hi-1)/512) || lo%512 == 0 || hi%512 == 0
				if allSlices || boundary {
					emit(lo, hi)
				}
			}
		}
		if old, ok := c20Traffic[m]; ok && old != [2]int{op.rBytes, op.sBytes} {
			c.Fail("c20:vole:traffic-not-a-function-of-m", fmt.Sprintf("m=%d: %v then %v bytes", m, old, [2]int{op.rBytes, op.sBytes}), rep(-1, "traffic"))
		}
		c20Traffic[m] = [2]int{op.rBytes, op.sBytes}
	}
}

// c20Traffic: per vector length, the bytes (receiver, sender) wrote during
// one Mul; emitted as one case at the end.  A length whose traffic differs
// between two Mul calls is an oracle failure (the traffic is a function of m).
var c20Traffic = map[int][2]int{}

func c20ChunkRows(m int) SX {
	var l []SX
	for ofs := 0; ofs < m; {
		rows := 512
		if rows > m-ofs {
			rows = m - ofs
		}
		l = append(l, I((rows+7)/8))
		ofs += rows
	}
	return L(l...)
}

func c20LenBucket(m int) string {
	switch {
	case m <= 20:
		return "1..20"
	case m <= 510:
		return "21..510"
	case m <= 513:
		return "511..513"
	case m <= 1022:
		return "514..1022"
	case m <= 1025:
		return "1023..1025"
	default:
		return ">1025"
	}
}

// c20Finish derives labels and pads for the ops of a finished session and
// checks them.
func c20Finish(c *Ctx, s *c20Session, aesMode bool, allSlices bool, what string) {
	if s.setupErr != nil || s.timedOut {
		c.Fail("c20:vole:session-setup", fmt.Sprintf("%s: setup error %v timedOut=%v", what, s.setupErr, s.timedOut),
			c20Replay{Seed: c.Seed, Part: "vole", Detail: what})
		return
	}
	// the base OT under the extension delivered the chosen seeds
	if len(s.k0) == len(s.wires) && len(s.k0flags) == len(s.wires) {
		for j := range s.wires {
			want := s.wires[j].L0
			if s.k0flags[j] {
				want = s.wires[j].L1
			}
			if !s.k0[j].Equal(want) {
				c.Fail("c20:vole:base-ot-delivery", fmt.Sprintf("%s: base OT %d delivered a label that is not the chosen one", what, j),
					c20Replay{Seed: c.Seed, Part: "vole", Index: j, Detail: what})
				break
			}
		}
	} else {
		c.Fail("c20:vole:base-ot-shape", fmt.Sprintf("%s: %d wires offered, %d received", what, len(s.wires), len(s.k0)),
			c20Replay{Seed: c.Seed, Part: "vole", Detail: what})
	}
	st, err := c20NewStreams(s.wires)
	if err != nil {
		c.Fail("c20:vole:base-ot-wires", err.Error(), c20Replay{Seed: c.Seed, Part: "vole", Detail: what})
		return
	}
	for _, op := range s.ops {
		// doors "arguments re-used after the call" / "results kept across later calls"
		if op.argSnap != "" && op.argSnap != c20Snap(op.xs)+"|"+c20Snap(op.ys)+"|"+op.p.Text(16) {
			c.Fail(fmt.Sprintf("c20:vole:%s:arguments-modified-by-Mul", op.class), what+": xs, ys or p differ after the session",
				c20Replay{Seed: c.Seed, Part: "vole", Modulus: op.p.Text(16), M: len(op.xs), Detail: what})
		}
		if op.sErr == nil && op.rErr == nil && (op.rsSnap != c20Snap(op.rs) || op.usSnap != c20Snap(op.us)) {
			c.Fail(fmt.Sprintf("c20:vole:%s:results-changed-by-later-call", op.class), what+": a returned vector changed after Mul returned",
				c20Replay{Seed: c.Seed, Part: "vole", Modulus: op.p.Text(16), M: len(op.xs), Detail: what})
		}
		// a nil element of the receiver's vector is written as 0 by bytes32: check it as 0
		for i := range op.ys {
			if op.ys[i] == nil {
				op.ys[i] = new(big.Int)
			}
		}
		m := len(op.xs)
		if m > 0 && (op.rs != nil || op.us != nil || (op.sErr == nil && op.rErr == nil)) {
			op.labels = st.next(m)
			op.pads = make([]*big.Int, m)
			for i, l := range op.labels {
				op.pads[i] = c20Expand(l)
			}
		} else if m > 0 {
			// failed before/within the extension: labels unknown, give the model dummies
			op.labels = make([]ot.Label, m)
			op.pads = make([]*big.Int, m)
			for i := range op.pads {
				op.pads[i] = new(big.Int)
			}
		}
		c20CheckOp(c, op, aesMode && m <= 24, allSlices)
		if op.sErr != nil || op.rErr != nil {
			break
		}
	}
	c20History(c, s, what)
}

// c20History emits the session's Mul calls, from the start of the session, as
// ONE correspondence case (op 6, coq/theories/OT/VoleHist.v): the model gets
// only the IKNP set-up of the pair — the key streams of the 128 base-OT wires
// (AES-CTR of L0 and of L1, as raw bytes, with slack) and the sender's Delta
// (its 128 base-OT choice flags) — and the operands of every call; it has to
// derive the labels of every call itself (IKNP model at the stream offset the
// earlier calls left) and reproduce rs and us of every call.  The prefix of
// the session that fits the case-size budget is taken.
func c20History(c *Ctx, s *c20Session, what string) {
	if len(s.wires) != 128 || len(s.k0flags) != 128 {
		return
	}
	const maxByteRows, maxElems = 48, 160
	var calls, outs []SX
	var labels []ot.Label
	var pads []*big.Int
	nb, elems, n := 0, 0, 0
	for _, op := range s.ops {
		m := len(op.xs)
		if op.sErr != nil || op.rErr != nil || len(op.ys) != m || len(op.rs) != m || len(op.us) != m || len(op.labels) != m {
			break
		}
		br := 0
		for ofs := 0; ofs < m; ofs += 512 {
			rows := m - ofs
			if rows > 512 {
				rows = 512
			}
			br += (rows + 7) / 8
		}
		if nb+br > maxByteRows || elems+m > maxElems {
			break
		}
		nb += br
		elems += m
		n++
		calls = append(calls, L(Big(op.p), c20Bigs(op.xs), c20Bigs(op.ys)))
		outs = append(outs, L(I(1), c20Bigs(op.rs), c20Bigs(op.us)))
		labels = append(labels, op.labels...)
		pads = append(pads, op.pads...)
	}
	if n == 0 || elems == 0 {
		return
	}
	var delta ot.Label
	for j, f := range s.k0flags {
		if f {
			if j < 64 {
				delta.D0 |= 1 << uint(j)
			} else {
				delta.D1 |= 1 << uint(j-64)
			}
		}
	}
	stream := func(key ot.Label) SX {
		var ld ot.LabelData
		key.GetData(&ld)
		blk, err := aes.NewCipher(ld[:])
		if err != nil {
			panic(err)
		}
		var iv [16]byte
		buf := make([]byte, nb+4)
		cipher.NewCTR(blk, iv[:]).XORKeyStream(buf, buf)
		return Bytes(buf)
	}
	g0 := make([]SX, 128)
	g1 := make([]SX, 128)
	for j := range s.wires {
		g0[j] = stream(s.wires[j].L0)
		g1[j] = stream(s.wires[j].L1)
	}
	mode := 0
	tl, tp := Labels(labels), c20Bigs(pads)
	if elems <= 24 {
		mode, tl, tp = 1, L(), L()
	}
	c.Case(L(I(6), I(mode), Label(delta), L(g0...), L(g1...), tl, tp, L(calls...)), L(outs...))
	c.Hist(fmt.Sprintf("vole:history:calls=%02d", n))
}

// ---------------------------------------------------------------------------
// bmr Fx / Fxk

// c20Reader replaces crypto/rand.Reader: hands out queued bytes.
type c20Reader struct {
	mu    sync.Mutex
	queue []byte
	fall  *RNG
	short int
}

func (r *c20Reader) Read(p []byte) (int, error) {
	r.mu.Lock()
	defer r.mu.Unlock()
	for i := range p {
		if len(r.queue) > 0 {
			p[i] = r.queue[0]
			r.queue = r.queue[1:]
		} else {
			p[i] = byte(r.fall.U64())
			r.short++
		}
	}
	return len(p), nil
}

func (r *c20Reader) push(b []byte) {
	r.mu.Lock()
	r.queue = append(r.queue, b...)
	r.mu.Unlock()
}

var _ io.Reader = (*c20Reader)(nil)

type c20FxPair struct {
	sOT, rOT *c20RecOT
	name     string   // the ot.OT implementation below the gadgets
	call     int      // transfers made on this initialised pair so far
	hist     []string // call history of the session (for the replay)
}

func (pr *c20FxPair) step(what string) {
	pr.call++
	pr.hist = append(pr.hist, fmt.Sprintf("call%d: %s", pr.call, what))
}

func (pr *c20FxPair) history() []string {
	h := pr.hist
	if len(h) > 60 {
		h = h[len(h)-60:]
	}
	return append([]string(nil), h...)
}

// c20OTImpl: every ot.OT implementation of the module whose Send transfers
// the caller's labels (ot.ROT is a random OT: its Send overwrites the wires,
// so the chosen-message gadgets cannot run over it).
type c20OTImpl struct {
	name string
	mk   func(r *RNG) ot.OT
}

func c20OTImpls() []c20OTImpl {
	return []c20OTImpl{
		{"co", func(r *RNG) ot.OT { return ot.NewCO(r) }},
		{"rsa1024", func(r *RNG) ot.OT { return ot.NewRSA(r, 1024) }},
		{"cot", func(r *RNG) ot.OT { return ot.NewCOT(ot.NewCO(r.Fork()), r, false, false) }},
		{"cot-malicious", func(r *RNG) ot.OT { return ot.NewCOT(ot.NewCO(r.Fork()), r, true, false) }},
		{"cot-shared", func(r *RNG) ot.OT { return ot.NewCOT(ot.NewCO(r.Fork()), r, false, true) }},
	}
}

func c20NewFxPair(rng *RNG) (*c20FxPair, error) {
	return c20NewFxPairOver(rng, c20OTImpls()[0])
}

func c20NewFxPairOver(rng *RNG, impl c20OTImpl) (*c20FxPair, error) {
	fp, tp := ot.NewPipe()
	pr := &c20FxPair{
		sOT:  &c20RecOT{OT: impl.mk(rng.Fork())},
		rOT:  &c20RecOT{OT: impl.mk(rng.Fork())},
		name: impl.name,
	}
	errc := make(chan error, 1)
	go func() { errc <- pr.rOT.InitReceiver(tp) }()
	if err := pr.sOT.InitSender(fp); err != nil {
		return nil, err
	}
	select {
	case err := <-errc:
		if err != nil {
			return nil, err
		}
	case <-time.After(60 * time.Second):
		return nil, fmt.Errorf("InitReceiver timed out")
	}
	return pr, nil
}

func c20BLabel(l bmr.Label) SX { return Bytes(l[:]) }

func c20Fx(c *Ctx, pr *c20FxPair, rd *c20Reader, rl bmr.Label, a, b uint, inDomain bool) error {
	pr.step(fmt.Sprintf("Fx a=%d b=%d rl=%x", a, b, rl[:]))
	rd.push(rl[:])
	type res struct {
		xb  uint
		err error
	}
	ch := make(chan res, 1)
	go func() {
		var r res
		r.err = c20Protect(func() error {
			var err error
			r.xb, err = bmr.FxReceive(pr.rOT, b)
			return err
		})
		ch <- r
	}()
	var r uint
	sErr := c20Protect(func() error {
		var err error
		r, err = bmr.FxSend(pr.sOT, a)
		return err
	})
	var rr res
	select {
	case rr = <-ch:
	case <-time.After(20 * time.Second):
		return fmt.Errorf("FxReceive timed out (sender error: %v)", sErr)
	}
	rep := c20Replay{Seed: c.Seed, Part: "fx", A: a, B: b, Label: fmt.Sprintf("%x", rl[:]), Over: pr.name, Call: pr.call, History: pr.history()}
	if sErr != nil || rr.err != nil {
		c.Fail(fmt.Sprintf("c20:Fx:over-%s:call%d:error", pr.name, pr.call), fmt.Sprintf("FxSend: %v FxReceive: %v", sErr, rr.err), rep)
		return fmt.Errorf("fx failed")
	}
	w := pr.sOT.sent[len(pr.sOT.sent)-1]
	fl := pr.rOT.flags[len(pr.rOT.flags)-1]
	got := pr.rOT.got[len(pr.rOT.got)-1]
	c.Hist(fmt.Sprintf("fx:over-%s:a=%d:b=%d", pr.name, a, b))
	c.Eval(fmt.Sprintf("fx:%s:%d:%x:%d:%d", pr.name, pr.call, rl[:], a, b), a != 0 && b != 0)
	if len(w) != 1 || len(fl) != 1 || len(got) != 1 {
		c.Fail(fmt.Sprintf("c20:Fx:over-%s:call%d:ot-shape", pr.name, pr.call), "FxSend/FxReceive did not run exactly one OT of one wire", rep)
		return nil
	}
	want := w[0].L0
	if fl[0] {
		want = w[0].L1
	}
	if !got[0].Equal(want) {
		c.Fail(fmt.Sprintf("c20:Fx:over-%s:call%d:ot-delivery", pr.name, pr.call), "the OT delivered a label that is not the chosen one", rep)
	}
	if inDomain {
		if r^rr.xb != a*b {
			rep.Detail = fmt.Sprintf("r=%d xb=%d", r, rr.xb)
			c.Fail(fmt.Sprintf("c20:Fx:over-%s:call%d:shares-do-not-recombine", pr.name, pr.call), fmt.Sprintf("a=%d b=%d: r^xb = %d, a*b = %d", a, b, r^rr.xb, a*b), rep)
		}
		if r > 1 || rr.xb > 1 {
			c.Fail(fmt.Sprintf("c20:Fx:over-%s:call%d:share-not-a-bit", pr.name, pr.call), fmt.Sprintf("r=%d xb=%d", r, rr.xb), rep)
		}
	}
	c.Case(L(I(1), c20BLabel(rl), U64(uint64(a)), U64(uint64(b))),
		L(L(Label(w[0].L0), Label(w[0].L1)), Bool(fl[0]), Label(got[0]), U64(uint64(r)), U64(uint64(rr.xb))))
	return nil
}

func c20Fxk(c *Ctx, pr *c20FxPair, rd *c20Reader, rl, s bmr.Label, b uint, inDomain bool) error {
	pr.step(fmt.Sprintf("Fxk s=%x b=%d rl=%x", s[:], b, rl[:]))
	rd.push(rl[:])
	type res struct {
		xb  bmr.Label
		err error
	}
	ch := make(chan res, 1)
	go func() {
		var r res
		r.err = c20Protect(func() error {
			var err error
			r.xb, err = bmr.FxkReceive(pr.rOT, b)
			return err
		})
		ch <- r
	}()
	var r bmr.Label
	sErr := c20Protect(func() error {
		var err error
		r, err = bmr.FxkSend(pr.sOT, s)
		return err
	})
	var rr res
	select {
	case rr = <-ch:
	case <-time.After(20 * time.Second):
		return fmt.Errorf("FxkReceive timed out (sender error: %v)", sErr)
	}
	rep := c20Replay{Seed: c.Seed, Part: "fxk", B: b, Label: fmt.Sprintf("r=%x s=%x", rl[:], s[:]), Over: pr.name, Call: pr.call, History: pr.history()}
	if sErr != nil || rr.err != nil {
		c.Fail(fmt.Sprintf("c20:Fxk:over-%s:call%d:error", pr.name, pr.call), fmt.Sprintf("FxkSend: %v FxkReceive: %v", sErr, rr.err), rep)
		return fmt.Errorf("fxk failed")
	}
	w := pr.sOT.sent[len(pr.sOT.sent)-1]
	fl := pr.rOT.flags[len(pr.rOT.flags)-1]
	got := pr.rOT.got[len(pr.rOT.got)-1]
	c.Hist(fmt.Sprintf("fxk:over-%s:b=%d", pr.name, b))
	var zero bmr.Label
	c.Eval(fmt.Sprintf("fxk:%s:%d:%x:%x:%d", pr.name, pr.call, rl[:], s[:], b), b != 0 && !s.Equal(zero))
	if len(w) != 1 || len(fl) != 1 || len(got) != 1 {
		c.Fail(fmt.Sprintf("c20:Fxk:over-%s:call%d:ot-shape", pr.name, pr.call), "FxkSend/FxkReceive did not run exactly one OT of one wire", rep)
		return nil
	}
	want := w[0].L0
	if fl[0] {
		want = w[0].L1
	}
	if !got[0].Equal(want) {
		c.Fail(fmt.Sprintf("c20:Fxk:over-%s:call%d:ot-delivery", pr.name, pr.call), "the OT delivered a label that is not the chosen one", rep)
	}
	if !r.Equal(rl) {
		c.Fail(fmt.Sprintf("c20:Fxk:over-%s:call%d:r-not-newlabel", pr.name, pr.call), "FxkSend did not return the label NewLabel produced", rep)
	}
	if inDomain {
		// r xor xb = b*s, computed here byte by byte (not with Label.Mul/Xor)
		for i := range r {
			wantB := byte(0)
			if b == 1 {
				wantB = s[i]
			}
			if r[i]^rr.xb[i] != wantB {
				rep.Detail = fmt.Sprintf("r=%x xb=%x byte %d", r[:], rr.xb[:], i)
				c.Fail(fmt.Sprintf("c20:Fxk:over-%s:call%d:shares-do-not-recombine", pr.name, pr.call), fmt.Sprintf("r^xb = %x, s = %x, b=%d", c20XorBytes(r[:], rr.xb[:]), s[:], b), rep)
				break
			}
		}
	}
	c.Case(L(I(2), c20BLabel(rl), c20BLabel(s), U64(uint64(b))),
		L(L(Label(w[0].L0), Label(w[0].L1)), Bool(fl[0]), Label(got[0]), c20BLabel(r), c20BLabel(rr.xb)))
	return nil
}

func c20XorBytes(a, b []byte) []byte {
	o := make([]byte, len(a))
	for i := range a {
		o[i] = a[i] ^ b[i]
	}
	return o
}

func c20EdgeLabel(r *RNG, k int) bmr.Label {
	var l bmr.Label
	switch k {
	case 0:
	case 1:
		for i := range l {
			l[i] = 0xff
		}
	case 2:
		l[0] = 1
	case 3:
		l[0] = 0xfe
	case 4:
		l[len(l)-1] = 1
	case 5:
		l[0] = 0x80
	default:
		copy(l[:], r.Bytes(len(l)))
	}
	return l
}

// c20Direct runs one plain transfer of n wires on the pair (the session then
// continues with gadget calls): the delivered labels must be the chosen ones.
func c20Direct(c *Ctx, pr *c20FxPair, rng *RNG, n int) error {
	pr.step(fmt.Sprintf("OT transfer of %d wires", n))
	wires := make([]ot.Wire, n)
	flags := make([]bool, n)
	for i := range wires {
		wires[i] = ot.Wire{L0: ot.Label{D0: rng.U64(), D1: rng.U64()}, L1: ot.Label{D0: rng.U64(), D1: rng.U64()}}
		flags[i] = rng.Bool()
	}
	orig := append([]ot.Wire(nil), wires...)
	got := make([]ot.Label, n)
	ch := make(chan error, 1)
	go func() { ch <- c20Protect(func() error { return pr.rOT.Receive(flags, got) }) }()
	sErr := c20Protect(func() error { return pr.sOT.Send(wires) })
	var rErr error
	select {
	case rErr = <-ch:
	case <-time.After(30 * time.Second):
		return fmt.Errorf("OT Receive timed out over %s (sender error: %v)", pr.name, sErr)
	}
	rep := c20Replay{Seed: c.Seed, Part: "ot", M: n, Over: pr.name, Call: pr.call, History: pr.history()}
	if sErr != nil || rErr != nil {
		c.Fail(fmt.Sprintf("c20:OT:over-%s:call%d:error", pr.name, pr.call), fmt.Sprintf("Send: %v Receive: %v", sErr, rErr), rep)
		return fmt.Errorf("ot transfer failed")
	}
	c.Hist(fmt.Sprintf("ot:over-%s:n=%d", pr.name, n))
	c.Eval(fmt.Sprintf("ot:%s:%d:%d", pr.name, pr.call, n), true)
	for i := range orig {
		want := orig[i].L0
		if flags[i] {
			want = orig[i].L1
		}
		if !got[i].Equal(want) {
			rep.Index = i
			c.Fail(fmt.Sprintf("c20:OT:over-%s:call%d:ot-delivery", pr.name, pr.call), fmt.Sprintf("wire %d of %d: delivered label is not the chosen one", i, n), rep)
			break
		}
	}
	return nil
}

// c20FxHistories: the gadgets over EVERY ot.OT implementation, many calls on
// one initialised pair (as bmr.Player uses peer.otSender / peer.otReceiver:
// one single-wire transfer per gate), Fx and Fxk interleaved, with plain
// transfers of other sizes (not divisible by the OT batch size, equal to it,
// above it) in between so that per-session state of the implementation is
// met in every phase.  The oracle is the unchanged share relation, per call.
func c20FxHistories(c *Ctx, rng *RNG, rd *c20Reader) error {
	for _, impl := range c20OTImpls() {
		if err := c20FxHistory(c, rng, rd, impl, c.N(3, 12)); err != nil {
			return err
		}
	}
	c.Note("ot.ROT is a random OT (Send overwrites the offered wires): the chosen-message gadgets Fx/Fxk do not apply to it")
	return nil
}

func c20FxHistory(c *Ctx, rng *RNG, rd *c20Reader, impl c20OTImpl, rounds int) error {
	{
		pr, err := c20NewFxPairOver(rng, impl)
		if err != nil {
			c.Fail(fmt.Sprintf("c20:Fx:over-%s:init", impl.name), err.Error(), c20Replay{Seed: c.Seed, Part: "fx", Over: impl.name})
			return nil
		}
		sizes := []int{3, 8, 9, 1, 17}
		for round := 0; round < rounds; round++ {
			for a := uint(0); a < 2; a++ {
				for b := uint(0); b < 2; b++ {
					if err := c20Fx(c, pr, rd, c20EdgeLabel(rng, 6+round), a, b, true); err != nil {
						return err
					}
					s := c20EdgeLabel(rng, int(2*a+b)+4*round)
					if err := c20Fxk(c, pr, rd, c20EdgeLabel(rng, 99), s, (a+b)%2, true); err != nil {
						return err
					}
				}
			}
			if err := c20Direct(c, pr, rng, sizes[round%len(sizes)]); err != nil {
				return err
			}
		}
		// after the mixed sizes: again single-wire gadget calls
		for a := uint(0); a < 2; a++ {
			for b := uint(0); b < 2; b++ {
				if err := c20Fx(c, pr, rd, c20EdgeLabel(rng, 99), a, b, true); err != nil {
					return err
				}
				if err := c20Fxk(c, pr, rd, c20EdgeLabel(rng, 99), c20EdgeLabel(rng, 99), b, true); err != nil {
					return err
				}
			}
		}
		c.Note("gadget history over %s: %d transfers on one pair", impl.name, pr.call)
	}
	return nil
}

// ---------------------------------------------------------------------------
// concurrent sessions: several independent gadget sessions (own OT objects,
// own pipes) active at the same time in one process — the call pattern of a
// bmr.Player with >= 2 peers.  Oracle unchanged (per call: shares recombine).
// These families are oracle-only: in the model a session is a pure function
// of its own inputs, so there is nothing a concurrent case could add to the
// correspondence.

// c20SignalIO is an ot.IO that tells when its reader first waits for input
// after arm().
type c20SignalIO struct {
	*ot.Pipe
	mu      sync.Mutex
	waiting chan struct{}
}

func (io *c20SignalIO) arm() chan struct{} {
	io.mu.Lock()
	defer io.mu.Unlock()
	io.waiting = make(chan struct{})
	return io.waiting
}

func (io *c20SignalIO) signal() {
	io.mu.Lock()
	if io.waiting != nil {
		close(io.waiting)
		io.waiting = nil
	}
	io.mu.Unlock()
}

// ot.Pipe is unbuffered: a receiver that speaks first (COT: the IKNP columns)
// blocks in its first write until its sender reads, so a write counts as
// "waiting for the sender" as well.
func (io *c20SignalIO) SendData(val []byte) error { io.signal(); return io.Pipe.SendData(val) }
func (io *c20SignalIO) SendByte(val byte) error   { io.signal(); return io.Pipe.SendByte(val) }
func (io *c20SignalIO) SendUint32(val int) error  { io.signal(); return io.Pipe.SendUint32(val) }
func (io *c20SignalIO) SendLabel(val ot.Label, data *ot.LabelData) error {
	io.signal()
	return io.Pipe.SendLabel(val, data)
}
func (io *c20SignalIO) ReceiveByte() (byte, error)   { io.signal(); return io.Pipe.ReceiveByte() }
func (io *c20SignalIO) ReceiveUint32() (int, error)  { io.signal(); return io.Pipe.ReceiveUint32() }
func (io *c20SignalIO) ReceiveData() ([]byte, error) { io.signal(); return io.Pipe.ReceiveData() }
func (io *c20SignalIO) ReceiveLabel(val *ot.Label, data *ot.LabelData) error {
	io.signal()
	return io.Pipe.ReceiveLabel(val, data)
}

// c20WaitTimeouts counts forced-waiting steps where the receiver never
// reported waiting (reported as a note; the pair then runs unforced).
var c20WaitTimeouts int

type c20ConcSession struct {
	snd, rcv ot.OT
	rio      *c20SignalIO
}

func c20NewConcSession(rng *RNG, impl c20OTImpl) (*c20ConcSession, error) {
	fp, tp := ot.NewPipe()
	s := &c20ConcSession{snd: impl.mk(rng.Fork()), rcv: impl.mk(rng.Fork()), rio: &c20SignalIO{Pipe: tp}}
	errc := make(chan error, 1)
	go func() { errc <- c20Protect(func() error { return s.rcv.InitReceiver(s.rio) }) }()
	if err := c20Protect(func() error { return s.snd.InitSender(fp) }); err != nil {
		return nil, err
	}
	select {
	case err := <-errc:
		if err != nil {
			return nil, err
		}
	case <-time.After(60 * time.Second):
		return nil, fmt.Errorf("InitReceiver timed out")
	}
	return s, nil
}

type c20ConcRes struct {
	bit uint
	lbl bmr.Label
	err error
}

// c20ConcPair: receiver 1 (b1) and receiver 2 (b2) are both made to wait for
// their senders before either sender speaks; then sender 1, then sender 2.
func c20ConcPair(c *Ctx, over string, s1, s2 *c20ConcSession, fxk bool, a uint, sl bmr.Label, b1, b2 uint) error {
	gadget := "Fx"
	if fxk {
		gadget = "Fxk"
	}
	recv := func(s *c20ConcSession, b uint, ch chan c20ConcRes) {
		var r c20ConcRes
		r.err = c20Protect(func() error {
			var err error
			if fxk {
				r.lbl, err = bmr.FxkReceive(s.rcv, b)
			} else {
				r.bit, err = bmr.FxReceive(s.rcv, b)
			}
			return err
		})
		ch <- r
	}
	wait := func(w chan struct{}) {
		select {
		case <-w:
		case <-time.After(2 * time.Second):
			c20WaitTimeouts++
		}
	}
	c1, c2 := make(chan c20ConcRes, 1), make(chan c20ConcRes, 1)
	w1 := s1.rio.arm()
	go recv(s1, b1, c1)
	wait(w1)
	w2 := s2.rio.arm()
	go recv(s2, b2, c2)
	wait(w2)
	send := func(s *c20ConcSession) (uint, bmr.Label, error) {
		var r uint
		var rl bmr.Label
		err := c20Protect(func() error {
			var err error
			if fxk {
				rl, err = bmr.FxkSend(s.snd, sl)
			} else {
				r, err = bmr.FxSend(s.snd, a)
			}
			return err
		})
		return r, rl, err
	}
	get := func(ch chan c20ConcRes) c20ConcRes {
		select {
		case r := <-ch:
			return r
		case <-time.After(30 * time.Second):
			return c20ConcRes{err: fmt.Errorf("receiver timed out")}
		}
	}
	r1, rl1, e1 := send(s1)
	x1 := get(c1)
	r2, rl2, e2 := send(s2)
	x2 := get(c2)
	hist := []string{
		fmt.Sprintf("session 1: %sReceive(b=%d) started, waits for its sender", gadget, b1),
		fmt.Sprintf("session 2: %sReceive(b=%d) started, waits for its sender", gadget, b2),
		fmt.Sprintf("session 1: %sSend(a=%d s=%x) -> r=%d/%x, receiver got xb=%d/%x", gadget, a, sl[:], r1, rl1[:], x1.bit, x1.lbl[:]),
		fmt.Sprintf("session 2: %sSend(a=%d s=%x) -> r=%d/%x, receiver got xb=%d/%x", gadget, a, sl[:], r2, rl2[:], x2.bit, x2.lbl[:]),
	}
	rep := c20Replay{Seed: c.Seed, Part: "concurrent-" + gadget, A: a, Over: over, History: hist}
	if e1 != nil || e2 != nil || x1.err != nil || x2.err != nil {
		c.Fail(fmt.Sprintf("c20:%s:concurrent-sessions:over-%s:error", gadget, over), fmt.Sprintf("%v %v %v %v", e1, x1.err, e2, x2.err), rep)
		return fmt.Errorf("concurrent %s over %s failed", gadget, over)
	}
	c.Hist(fmt.Sprintf("concurrent:%s:forced:over-%s", gadget, over))
	check := func(sess int, b uint, r uint, rl bmr.Label, x c20ConcRes) {
		c.Eval(fmt.Sprintf("conc:%s:%s:%d:%d:%d:%d:%x", gadget, over, a, b1, b2, sess, sl[:]), true)
		ok := true
		what := ""
		if fxk {
			for i := range rl {
				want := byte(0)
				if b == 1 {
					want = sl[i]
				}
				if rl[i]^x.lbl[i] != want {
					ok = false
				}
			}
			what = fmt.Sprintf("session %d: r^xb = %x, s = %x, b = %d (other session's b = %d)", sess, c20XorBytes(rl[:], x.lbl[:]), sl[:], b, b1+b2-b)
		} else {
			ok = r^x.bit == a*b
			what = fmt.Sprintf("session %d: r^xb = %d, a*b = %d (a=%d b=%d, other session's b = %d)", sess, r^x.bit, a*b, a, b, b1+b2-b)
		}
		if !ok {
			rep.B = b
			rep.Index = sess
			c.Fail(fmt.Sprintf("c20:%s:concurrent-sessions:over-%s:shares-do-not-recombine", gadget, over), what, rep)
		}
	}
	check(1, b1, r1, rl1, x1)
	check(2, b2, r2, rl2, x2)
	return nil
}

// c20ConcFree: n sessions, each a sender goroutine and a receiver goroutine
// making `rounds` calls with independent random operands, all free-running.
func c20ConcFree(c *Ctx, rng *RNG, impl c20OTImpl, fxk bool, n, rounds int) error {
	gadget := "Fx"
	if fxk {
		gadget = "Fxk"
	}
	type sess struct {
		s      *c20ConcSession
		a, b   []uint
		sl     []bmr.Label
		r, xb  []uint
		rl, xl []bmr.Label
		sErr   error
		rErr   error
	}
	ss := make([]*sess, n)
	for i := range ss {
		cs, err := c20NewConcSession(rng, impl)
		if err != nil {
			c.Fail(fmt.Sprintf("c20:%s:concurrent-sessions:over-%s:init", gadget, impl.name), err.Error(), c20Replay{Seed: c.Seed, Over: impl.name})
			return nil
		}
		q := &sess{s: cs, a: make([]uint, rounds), b: make([]uint, rounds), sl: make([]bmr.Label, rounds),
			r: make([]uint, rounds), xb: make([]uint, rounds), rl: make([]bmr.Label, rounds), xl: make([]bmr.Label, rounds)}
		for k := 0; k < rounds; k++ {
			q.a[k], q.b[k] = uint(rng.Intn(2)), uint(rng.Intn(2))
			q.sl[k] = c20EdgeLabel(rng, 99)
		}
		ss[i] = q
	}
	var wg sync.WaitGroup
	for _, q := range ss {
		q := q
		wg.Add(2)
		go func() {
			defer wg.Done()
			q.sErr = c20Protect(func() error {
				for k := 0; k < rounds; k++ {
					var err error
					if fxk {
						q.rl[k], err = bmr.FxkSend(q.s.snd, q.sl[k])
					} else {
						q.r[k], err = bmr.FxSend(q.s.snd, q.a[k])
					}
					if err != nil {
						return err
					}
				}
				return nil
			})
		}()
		go func() {
			defer wg.Done()
			q.rErr = c20Protect(func() error {
				for k := 0; k < rounds; k++ {
					var err error
					if fxk {
						q.xl[k], err = bmr.FxkReceive(q.s.rcv, q.b[k])
					} else {
						q.xb[k], err = bmr.FxReceive(q.s.rcv, q.b[k])
					}
					if err != nil {
						return err
					}
				}
				return nil
			})
		}()
	}
	done := make(chan struct{})
	go func() { wg.Wait(); close(done) }()
	select {
	case <-done:
	case <-time.After(120 * time.Second):
		c.Fail(fmt.Sprintf("c20:%s:concurrent-sessions:over-%s:stalled", gadget, impl.name), "free-running sessions did not finish", c20Replay{Seed: c.Seed, Over: impl.name})
		return fmt.Errorf("concurrent sessions stalled")
	}
	c.Hist(fmt.Sprintf("concurrent:%s:free:over-%s", gadget, impl.name))
	for i, q := range ss {
		if q.sErr != nil || q.rErr != nil {
			c.Fail(fmt.Sprintf("c20:%s:concurrent-sessions:over-%s:error", gadget, impl.name), fmt.Sprintf("session %d: %v %v", i, q.sErr, q.rErr), c20Replay{Seed: c.Seed, Over: impl.name, Index: i})
			continue
		}
		for k := 0; k < rounds; k++ {
			c.Eval(fmt.Sprintf("concfree:%s:%s:%d:%d:%d:%d:%x", gadget, impl.name, i, k, q.a[k], q.b[k], q.sl[k][:]), true)
			ok := true
			var what string
			if fxk {
				for j := range q.rl[k] {
					want := byte(0)
					if q.b[k] == 1 {
						want = q.sl[k][j]
					}
					if q.rl[k][j]^q.xl[k][j] != want {
						ok = false
					}
				}
				what = fmt.Sprintf("session %d of %d round %d: r^xb = %x, s = %x, b = %d", i, n, k, c20XorBytes(q.rl[k][:], q.xl[k][:]), q.sl[k][:], q.b[k])
			} else {
				ok = q.r[k]^q.xb[k] == q.a[k]*q.b[k]
				what = fmt.Sprintf("session %d of %d round %d: a=%d b=%d r=%d xb=%d: r^xb != a*b", i, n, k, q.a[k], q.b[k], q.r[k], q.xb[k])
			}
			if !ok {
				var hist []string
				for j, o := range ss {
					hist = append(hist, fmt.Sprintf("session %d round %d: a=%d b=%d s=%x", j, k, o.a[k], o.b[k], o.sl[k][:]))
				}
				c.Fail(fmt.Sprintf("c20:%s:concurrent-sessions:over-%s:shares-do-not-recombine", gadget, impl.name), what,
					c20Replay{Seed: c.Seed, Part: "concurrent-free-" + gadget, A: q.a[k], B: q.b[k], Over: impl.name, Index: i, Call: k + 1, History: hist})
			}
		}
	}
	return nil
}

// c20RunPlayers: the real caller of Fx/Fxk — n bmr.Players with n-1 peers each
// (one consumer goroutine per peer calling FxReceive/FxkReceive, the Play
// goroutine calling FxSend/FxkSend), on AND-only circuits.  bmr.Player has no
// online phase and returns no result; what it prints (fmt.Printf to
// os.Stdout) is each player's final lambda vector (Verbose) and its share
// of lambda_u*lambda_v per gate: the shares of all players must XOR to the
// product of the XORed lambdas — the Fx relation summed over all ordered
// pairs of players.  (The Fxk shares rj are printed piecewise and not
// checked here.)  Oracle-only.
var c20ReLambda = regexp.MustCompile("\u03bb([\u2070\u00b9\u00b2\u00b3\u2074-\u2079]+):\t([01]+)")
var c20ReLuv = regexp.MustCompile("Player([\u2070\u00b9\u00b2\u00b3\u2074-\u2079]+): \u03bbuv =([01]+)")

func c20SupID(s string) int {
	id := 0
	for _, r := range s {
		d := 0
		switch r {
		case 0x2070:
			d = 0
		case 0xb9:
			d = 1
		case 0xb2:
			d = 2
		case 0xb3:
			d = 3
		default:
			d = int(r - 0x2070)
		}
		id = id*10 + d
	}
	return id
}

func c20RunPlayers(c *Ctx) error {
	rng := c.rng.Fork()
	for run := 0; run < c.N(4, 30); run++ {
		n := 2 + run%3 // 2, 3, 4 players
		// AND-only circuit: n one-bit inputs, g gates over earlier wires
		g := 2 + rng.Intn(7)
		circ := &circuit.Circuit{NumGates: g, NumWires: n + g}
		for i := 0; i < n; i++ {
			circ.Inputs = append(circ.Inputs, circuit.IOArg{Name: fmt.Sprintf("i%d", i), Type: uintInfo(1)})
		}
		circ.Outputs = circuit.IO{{Name: "o", Type: uintInfo(1)}}
		for k := 0; k < g; k++ {
			w := n + k
			in0 := rng.Intn(w)
			in1 := rng.Intn(w)
			if k < n-1 { // use every input
				in0, in1 = k+1, k
				if k > 0 {
					in1 = n + k - 1
				}
			}
			circ.Gates = append(circ.Gates, circuit.Gate{Input0: circuit.Wire(in0), Input1: circuit.Wire(in1), Output: circuit.Wire(w), Op: circuit.AND})
		}
		// capture stdout
		oldOut := os.Stdout
		pr, pw, err := os.Pipe()
		if err != nil {
			return err
		}
		os.Stdout = pw
		outc := make(chan []byte, 1)
		go func() { b, _ := io.ReadAll(pr); outc <- b }()

		players := make([]*bmr.Player, n)
		var setupErr error
		for i := 0; i < n && setupErr == nil; i++ {
			players[i], setupErr = bmr.NewPlayer(i, n)
			if setupErr == nil {
				setupErr = players[i].SetCircuit(circ)
				players[i].Verbose = true
			}
		}
		errs := make([]error, n)
		stalled := false
		if setupErr == nil {
			for i := 0; i < n; i++ {
				for j := i + 1; j < n; j++ {
					cf, ct := ot.NewPipe()
					sf, st := ot.NewPipe()
					players[i].AddPeer(j, cf, st)
					players[j].AddPeer(i, sf, ct)
				}
			}
			var wg sync.WaitGroup
			for i := 0; i < n; i++ {
				i := i
				wg.Add(1)
				go func() {
					defer wg.Done()
					errs[i] = c20Protect(func() error { return players[i].Play() })
				}()
			}
			done := make(chan struct{})
			go func() { wg.Wait(); close(done) }()
			select {
			case <-done:
			case <-time.After(20 * time.Second):
				stalled = true
			}
		}
		os.Stdout = oldOut
		pw.Close()
		out := <-outc
		pr.Close()
		rep := c20Replay{Seed: c.Seed, Part: "player", M: g, Detail: fmt.Sprintf("%d players, gates %v", n, circ.Gates)}
		if stalled {
			// liveness of bmr.Player is not a subject of C20 (shares of the values
			// returned): recorded, not checked; the leftover goroutines end the family
			c.Note("player run %d (%d players, %d gates): Play did not return within 20 s: not checked", run, n, g)
			c.Hist("player:stalled")
			return nil
		}
		if setupErr != nil {
			c.Fail("c20:Player:run", setupErr.Error(), rep)
			return nil
		}
		for i, e := range errs {
			if e != nil {
				c.Fail("c20:Player:run", fmt.Sprintf("player %d: %v", i, e), rep)
				return nil
			}
		}
		lam := make(map[int]string)
		luv := make(map[int]string)
		for _, m := range c20ReLambda.FindAllStringSubmatch(string(out), -1) {
			lam[c20SupID(m[1])] = m[2] // the last one printed is the final vector
		}
		for _, m := range c20ReLuv.FindAllStringSubmatch(string(out), -1) {
			luv[c20SupID(m[1])] = m[2]
		}
		if len(lam) != n || len(luv) != n {
			c.Note("player run %d: diagnostic output not parseable (%d lambda, %d luv lines of %d): not checked", run, len(lam), len(luv), n)
			continue
		}
		bit := func(s string, i int) uint {
			if i >= len(s) {
				return 0
			}
			return uint(s[len(s)-1-i] - '0')
		}
		c.Hist(fmt.Sprintf("player:n=%d", n))
		for k, gate := range circ.Gates {
			var lu, lv, share uint
			for i := 0; i < n; i++ {
				lu ^= bit(lam[i], int(gate.Input0))
				lv ^= bit(lam[i], int(gate.Input1))
				share ^= bit(luv[i], k)
			}
			c.Eval(fmt.Sprintf("player:%d:%d:%d:%d:%d", run, n, k, lu, lv), lu == 1 && lv == 1)
			if share != lu&lv {
				rep.Index = k
				rep.History = nil
				for i := 0; i < n; i++ {
					rep.History = append(rep.History, fmt.Sprintf("player %d: lambda=%s luv-share=%s", i, lam[i], luv[i]))
				}
				c.Fail("c20:Player:lambda-product-shares-do-not-recombine",
					fmt.Sprintf("gate %d (%d AND %d): XOR of the players' shares = %d, lambda_u*lambda_v = %d", k, gate.Input0, gate.Input1, share, lu&lv), rep)
			}
		}
	}
	return nil
}

func c20RunConcurrent(c *Ctx) error {
	rng := c.rng.Fork()
	for _, impl := range c20OTImpls() {
		// (a) two receivers forced to wait together
		s1, err := c20NewConcSession(rng, impl)
		var s2 *c20ConcSession
		if err == nil {
			s2, err = c20NewConcSession(rng, impl)
		}
		if err != nil {
			c.Fail(fmt.Sprintf("c20:Fx:concurrent-sessions:over-%s:init", impl.name), err.Error(), c20Replay{Seed: c.Seed, Over: impl.name})
			continue
		}
		for rep := 0; rep < c.N(2, 10); rep++ {
			for a := uint(0); a < 2; a++ {
				for _, bb := range [][2]uint{{0, 1}, {1, 0}, {0, 0}, {1, 1}} {
					if err := c20ConcPair(c, impl.name, s1, s2, false, a, bmr.Label{}, bb[0], bb[1]); err != nil {
						return err
					}
					if err := c20ConcPair(c, impl.name, s1, s2, true, 0, c20EdgeLabel(rng, 99), bb[0], bb[1]); err != nil {
						return err
					}
				}
			}
		}
		// (b) free-running sessions
		if err := c20ConcFree(c, rng, impl, false, 4, c.N(50, 300)); err != nil {
			return err
		}
		if err := c20ConcFree(c, rng, impl, true, 4, c.N(50, 300)); err != nil {
			return err
		}
	}
	return nil
}

func c20RunFx(c *Ctx) error {
	rng := c.rng.Fork()
	rd := &c20Reader{fall: rng.Fork()}
	old := crand.Reader
	crand.Reader = rd
	defer func() { crand.Reader = old }()

	pr, err := c20NewFxPair(rng)
	if err != nil {
		return fmt.Errorf("fx pair: %v", err)
	}
	nl := c.N(12, 200)
	for k := 0; k < nl; k++ {
		rl := c20EdgeLabel(rng, k)
		for a := uint(0); a < 2; a++ {
			for b := uint(0); b < 2; b++ {
				if err := c20Fx(c, pr, rd, rl, a, b, true); err != nil {
					return err
				}
			}
		}
	}
	// operands outside {0,1}: correspondence only (byte(a) truncation, b == 1 test)
	for _, ab := range [][2]uint{{2, 1}, {3, 1}, {255, 1}, {256, 1}, {257, 1}, {1, 2}, {1, 3}, {3, 0}} {
		if err := c20Fx(c, pr, rd, c20EdgeLabel(rng, 99), ab[0], ab[1], false); err != nil {
			return err
		}
	}
	for k := 0; k < nl; k++ {
		rl := c20EdgeLabel(rng, k)
		for ks := 0; ks < 3; ks++ {
			s := c20EdgeLabel(rng, (k+ks*5)%9)
			for b := uint(0); b < 2; b++ {
				if err := c20Fxk(c, pr, rd, rl, s, b, true); err != nil {
					return err
				}
			}
		}
	}
	for _, b := range []uint{2, 3, 256} {
		if err := c20Fxk(c, pr, rd, c20EdgeLabel(rng, 99), c20EdgeLabel(rng, 99), b, false); err != nil {
			return err
		}
	}
	if err := c20FxHistories(c, rng, rd); err != nil {
		return err
	}
	// door: runtime configuration — one processor, a collection at every allocation
	{
		oldGC := debug.SetGCPercent(1)
		oldP := runtime.GOMAXPROCS(1)
		var err error
		for _, impl := range c20OTImpls() {
			if impl.name == "co" || impl.name == "cot" {
				impl.name += "+GOGC=1,GOMAXPROCS=1"
				if err = c20FxHistory(c, rng, rd, impl, 1); err != nil {
					break
				}
			}
		}
		debug.SetGCPercent(oldGC)
		runtime.GOMAXPROCS(oldP)
		if err != nil {
			return err
		}
	}
	if rd.short > 0 {
		c.Note("crypto/rand reader was asked for %d bytes more than queued", rd.short)
	}
	// label conversions and byte operations on their own
	for k := 0; k < c.N(12, 400); k++ {
		l := c20EdgeLabel(rng, k)
		o := l.ToOT()
		var back bmr.Label
		back.FromOT(o)
		if !back.Equal(l) {
			c.Fail("c20:label:toot-fromot", fmt.Sprintf("FromOT(ToOT(%x)) = %x", l[:], back[:]), c20Replay{Seed: c.Seed, Part: "label", Label: fmt.Sprintf("%x", l[:])})
		}
		any := ot.Label{D0: rng.U64(), D1: rng.U64()}
		pre := c20EdgeLabel(rng, k+3)
		dst := pre
		dst.FromOT(any)
		m0, m1 := l, l
		m0.Mul(0)
		m1.Mul(1)
		var zero bmr.Label
		if !m0.Equal(zero) || !m1.Equal(l) {
			c.Fail("c20:label:mul", "Label.Mul(b) is not b*l", c20Replay{Seed: c.Seed, Part: "label"})
		}
		xl := l
		xl.Xor(pre)
		if !bytes.Equal(xl[:], c20XorBytes(l[:], pre[:])) {
			c.Fail("c20:label:xor", "Label.Xor is not bytewise xor", c20Replay{Seed: c.Seed, Part: "label"})
		}
		c.Case(L(I(3), c20BLabel(l), c20BLabel(pre), Label(any)),
			L(Label(o), c20BLabel(dst), c20BLabel(m0), c20BLabel(m1), c20BLabel(xl)))
		c.Eval(fmt.Sprintf("label:%x:%x", l[:], pre[:]), true)
	}
	return nil
}

// ---------------------------------------------------------------------------

func c20MkOps(r *RNG, p *big.Int, lens []int, class string) []*c20Op {
	var ops []*c20Op
	for _, m := range lens {
		op := &c20Op{class: class, p: p}
		if class == "sweep" {
			op.xs, op.ys, op.kinds = c20SweepVectors(r, p, m)
		} else if class == "aliased" {
			// the same *big.Int at several positions, the modulus object itself as an
			// element, the same object in the sender's and the receiver's vector
			op.xs, op.ys, op.kinds = c20SweepVectors(r, p, m)
			X, Y := c20Rand(r, p), c20Rand(r, p)
			for i := 0; i < m; i++ {
				switch i % 5 {
				case 0, 1:
					op.xs[i], op.ys[i], op.kinds[i] = X, Y, "X*Y"
				case 2:
					op.xs[i], op.ys[i], op.kinds[i] = p, Y, "(p itself)*Y"
				case 3:
					op.xs[i], op.ys[i], op.kinds[i] = X, X, "X*X(shared object)"
				default:
					if p.BitLen() <= 256 && p.Cmp(c20Pow2(256)) < 0 {
						op.ys[i], op.kinds[i] = p, "x*(p itself)"
					}
				}
			}
		} else if class == "nil-y" {
			op.xs, op.ys, op.kinds = c20SweepVectors(r, p, m)
			for i := 0; i < m; i += 3 {
				op.ys[i], op.kinds[i] = nil, "x*nil"
			}
		} else {
			op.xs, op.ys, op.kinds = c20Vectors(r, p, m, class == "unreduced")
		}
		ops = append(ops, op)
	}
	return ops
}

func runC20(c *Ctx) error {
	start := time.Now()
	thorough := c.Thorough()
	mods := c20Moduli(thorough)
	small := make([]int, 0, 21)
	for m := 1; m <= 20; m++ {
		small = append(small, m)
	}
	bigLens := []int{511, 512, 513, 1023, 1024, 1025, 2000}
	sessTimeout := 120 * time.Second

	// (a) lengths 1..20 (and the empty vector), every modulus, one session per modulus
	for _, md := range mods {
		r := c.rng.Fork()
		lens := append([]int{0}, small...)
		ops := c20MkOps(r, md.p, lens, "field")
		s := c20RunSession(r, ops, []int{0, 7, 1500}[r.Intn(3)], sessTimeout)
		c20Finish(c, s, true, thorough, "small:"+md.name)
	}
	// (b) lengths across the IKNP chunk boundaries
	for i, md := range mods {
		r := c.rng.Fork()
		lens := append([]int{}, bigLens...)
		if thorough && i < 2 {
			lens = append(lens, 100, 4097, 10000)
		}
		if !thorough {
			// quick: P-256 gets all lengths, every other modulus three of the boundary lengths
			lens = []int{bigLens[i%3], bigLens[3+(i+1)%3], bigLens[(i+2)%3]}
			if i == 0 {
				lens = bigLens
			}
		}
		ops := c20MkOps(r, md.p, lens, "field")
		s := c20RunSession(r, ops, []int{0, 64, 4096}[r.Intn(3)], sessTimeout)
		c20Finish(c, s, false, thorough || i == 0, "big:"+md.name)
	}
	// (c) unreduced operands: any integer x, y in [0, 2^256); also for 64-bit moduli
	umods := append(append([]c20Mod{}, mods...),
		c20Mod{"2^64-59", new(big.Int).Sub(c20Pow2(64), big.NewInt(59))},
		c20Mod{"2^63+9", new(big.Int).Add(c20Pow2(63), big.NewInt(9))})
	for i, md := range umods {
		if md.p.BitLen() > 256 {
			continue
		}
		r := c.rng.Fork()
		lens := []int{48, 5}
		if thorough {
			lens = []int{48, 96, 513, 7}
		} else if i > 1 {
			lens = []int{48}
		}
		ops := c20MkOps(r, md.p, lens, "unreduced")
		s := c20RunSession(r, ops, 0, sessTimeout)
		c20Finish(c, s, true, thorough, "unreduced:"+md.name)
	}
	// (e) modulus sweep: every bit length at and around the machine-word
	// boundaries, boundary elements; several moduli per session
	{
		r := c.rng.Fork()
		sweep := c20SweepModuli(r, thorough)
		longFor := map[string]bool{"2^64-59": true, "2^64-2^32+1": true, "2^32-5": true, "p256-order": true, "2^63+9": true}
		var ops []*c20Op
		flush := func(what string) {
			if len(ops) == 0 {
				return
			}
			s := c20RunSession(r, ops, []int{0, 64, 4096}[r.Intn(3)], sessTimeout)
			c20Finish(c, s, true, true, what)
			ops = nil
		}
		for i, md := range sweep {
			lens := []int{1, 2, 64}
			if thorough {
				lens = []int{1, 2, 64, 255, 256, 257}
			} else if longFor[md.name] {
				lens = []int{1, 2, 64, 255, 256, 257}
			}
			ops = append(ops, c20MkOps(r, md.p, lens, "sweep")...)
			if (i+1)%6 == 0 {
				flush(fmt.Sprintf("sweep:%d", i))
			}
		}
		flush("sweep:last")
		c.Note("modulus sweep: %d moduli", len(sweep))
	}
	// (f) concurrent vole sessions: four Sender/Receiver pairs run their Mul
	// calls at the same time; every session is checked (and is a
	// correspondence case) as in the sequential groups
	{
		type job struct {
			r   *RNG
			ops []*c20Op
			s   *c20Session
		}
		pm := []*big.Int{mods[0].p, big.NewInt(65537), new(big.Int).Sub(c20Pow2(64), big.NewInt(59)), mods[4].p}
		jobs := make([]*job, 4)
		for i := range jobs {
			r := c.rng.Fork()
			jobs[i] = &job{r: r, ops: c20MkOps(r, pm[i], []int{1, 2, 17, 64, 3}, "sweep")}
		}
		var wg sync.WaitGroup
		for _, j := range jobs {
			j := j
			wg.Add(1)
			go func() {
				defer wg.Done()
				j.s = c20RunSession(j.r, j.ops, 0, sessTimeout)
			}()
		}
		wg.Wait()
		for i, j := range jobs {
			c20Finish(c, j.s, true, true, fmt.Sprintf("concurrent-vole:%d", i))
		}
	}
	// (g) doors of the vole API beyond "fresh vectors of field elements":
	// aliased arguments, nil elements in the receiver's vector, the transport of
	// p2p.Pipe(), a long-lived pair with many small Mul calls, vectors whose
	// messages cross the 64 KiB p2p write buffer, one processor with GOGC=1.
	{
		p64 := new(big.Int).Sub(c20Pow2(64), big.NewInt(59))
		r := c.rng.Fork()
		var ops []*c20Op
		for _, p := range []*big.Int{mods[0].p, p64, big.NewInt(65537)} {
			ops = append(ops, c20MkOps(r, p, []int{11, 3}, "aliased")...)
			ops = append(ops, c20MkOps(r, p, []int{7, 1}, "nil-y")...)
		}
		s := c20RunSession(r, ops, -1, sessTimeout)
		c20Finish(c, s, true, true, "aliased+nil-y over io.Pipe")

		// long-lived pair
		r = c.rng.Fork()
		ops = nil
		lp := []*big.Int{mods[0].p, p64, big.NewInt(3), mods[4].p}
		for k := 0; k < c.N(40, 400); k++ {
			ops = append(ops, c20MkOps(r, lp[k%len(lp)], []int{1 + r.Intn(9)}, "sweep")...)
		}
		s = c20RunSession(r, ops, -1, sessTimeout)
		c20Finish(c, s, true, true, "long-lived pair")

		// messages larger than the p2p write buffer (m*32 > 64 KiB)
		r = c.rng.Fork()
		ops = c20MkOps(r, mods[0].p, []int{2047, 2048, 2049, 4097}, "field")
		ops = append(ops, c20MkOps(r, p64, []int{2049}, "sweep")...)
		s = c20RunSession(r, ops, []int{0, -1}[r.Intn(2)], sessTimeout)
		c20Finish(c, s, false, thorough, "write-buffer boundary")

		// runtime configuration
		oldGC := debug.SetGCPercent(1)
		oldP := runtime.GOMAXPROCS(1)
		r = c.rng.Fork()
		ops = c20MkOps(r, p64, []int{1, 17, 64}, "sweep")
		ops = append(ops, c20MkOps(r, mods[0].p, []int{2, 64, 130}, "sweep")...)
		s = c20RunSession(r, ops, 0, sessTimeout)
		debug.SetGCPercent(oldGC)
		runtime.GOMAXPROCS(oldP)
		c20Finish(c, s, true, true, "GOGC=1,GOMAXPROCS=1")

		// every other ot.OT as the base OT of NewSender/NewReceiver: an explicit
		// error is fine (the constructors use the base OT in the reverse role);
		// a session that comes up must satisfy the relation
		for _, impl := range c20OTImpls()[1:] {
			r = c.rng.Fork()
			c20BaseOT = impl.mk
			ops = c20MkOps(r, mods[0].p, []int{5}, "sweep")
			s = c20RunSession(r, ops, 0, 15*time.Second)
			c20BaseOT = nil
			if s.setupErr != nil {
				c.Note("vole over base OT %s: constructors return an explicit error: %v", impl.name, s.setupErr)
				c.Hist("vole:base-ot:" + impl.name + ":explicit-error")
				continue
			}
			c.Hist("vole:base-ot:" + impl.name + ":session")
			c20Finish(c, s, true, true, "base-ot:"+impl.name)
		}
	}
	// (d) probes outside the domain of the property (correspondence only):
	// negative y, y >= 2^256, p = 0, negative p, p > 2^256 with a large share
	{
		p := mods[0].p
		probes := []struct {
			name string
			p    *big.Int
			x, y *big.Int
		}{
			{"probe:y-negative", p, big.NewInt(5), big.NewInt(-3)},
			{"probe:y>=2^256", p, big.NewInt(5), c20Pow2(256)},
			{"probe:p=0", big.NewInt(0), big.NewInt(5), big.NewInt(7)},
			{"probe:p-negative", big.NewInt(-65537), big.NewInt(-5), big.NewInt(70000)},
		}
		for _, pb := range probes {
			r := c.rng.Fork()
			op := &c20Op{class: pb.name, p: pb.p, xs: []*big.Int{big.NewInt(1), pb.x}, ys: []*big.Int{big.NewInt(1), pb.y}, kinds: []string{"1*1", pb.name}}
			s := c20RunSession(r, []*c20Op{op}, 0, 30*time.Second)
			c20Finish(c, s, true, true, pb.name)
			if op.sErr == nil && op.rErr == nil && len(op.us) == 2 && len(op.rs) == 2 && pb.p.Sign() != 0 {
				ap := new(big.Int).Abs(pb.p)
				lhs := new(big.Int).Sub(op.us[1], op.rs[1])
				lhs.Mod(lhs, ap)
				rhs := new(big.Int).Mul(pb.x, pb.y)
				rhs.Mod(rhs, ap)
				c.Note("%s: x=%v y=%v: (u-r) mod p == x*y mod p is %v", pb.name, pb.x, pb.y, lhs.Cmp(rhs) == 0)
			} else {
				c.Note("%s: sender=%v receiver=%v", pb.name, op.sErr, op.rErr)
			}
		}
	}
	{
		var ms []int
		for m := range c20Traffic {
			ms = append(ms, m)
		}
		sort.Ints(ms)
		var in, out []SX
		for _, m := range ms {
			in = append(in, I(m))
			out = append(out, L(I(c20Traffic[m][0]), I(c20Traffic[m][1]), c20ChunkRows(m)))
		}
		c.Case(L(I(5), L(in...)), L(out...))
	}
	c.Note("vole part: %.1fs", time.Since(start).Seconds())
	t1 := time.Now()
	if err := c20RunFx(c); err != nil {
		return err
	}
	c.Note("fx part: %.1fs", time.Since(t1).Seconds())
	t2 := time.Now()
	{
		// bmr.NewLabel reads crypto/rand.Reader from several goroutines here
		old := crand.Reader
		crand.Reader = &c20Reader{fall: c.rng.Fork()}
		err := c20RunConcurrent(c)
		if err == nil {
			err = c20RunPlayers(c)
		}
		crand.Reader = old
		if err != nil {
			return err
		}
	}
	c.Note("concurrent gadget sessions: %.1fs, %d forced waits timed out", time.Since(t2).Seconds(), c20WaitTimeouts)
	return nil
}
