package main

// C03 — multi-package family (oracle only).  Programs split over packages:
// the harness writes two small library packages into <out>/c03pkgs (found via
// Params.PkgPath); their functions call each other by PLAIN name and use
// package-level constants and variables; package main imports them, calls
// them qualified, and defines functions / constants / variables whose names
// COLLIDE with the libraries' unexported and exported ones (same and different
// signatures), plus a control without collisions.  One more program calls
// real libraries under /repo/pkg (sort; encoding/hex.DecodeString does not compile
// on the unchanged tree, see notes/C03-findings.md) while main defines names
// of helpers those libraries call unqualified.  In MPCL (as in Go) a plain name
// written in a package refers to that package: the reference for every
// program is a Go function written with that scoping.  Oracle: circuit outputs
// == reference on boundary + random inputs; a program must compile.
// Keys: c03:packages:<program>:wrong-output | :compile-error.

import (
	"fmt"
	"math/big"
	"os"
	"path/filepath"
	"sort"
	"strings"

	"github.com/markkurossi/mpc/compiler"
	"github.com/markkurossi/mpc/compiler/utils"
)

const c03LibA = `// -*- go -*-

package c03liba

const Bias = 7

var offset uint16 = 300

func scale(a uint32) uint32 {
	return a * 3
}

func pair(a, b int16) (int16, int16) {
	if a > b {
		return a - b, b
	}
	return b - a, a
}

func clamp(a uint16) uint16 {
	if a > 1000 {
		return 1000
	}
	return a
}

// Helper is exported and called by plain name inside the package.
func Helper(a uint16) uint16 {
	return a + Bias
}

func Triple(a uint32) uint32 {
	return scale(a)
}

func Twice(a uint32) uint32 {
	return Triple(a) + Triple(a)
}

func Dist(a, b int16) int16 {
	d, m := pair(a, b)
	return d + m
}

func Norm(a uint16) uint16 {
	return clamp(Helper(a)) + offset
}
`

const c03LibB = `// -*- go -*-

package c03libb

const Bias = 11

func scale(a uint32) uint32 {
	return a << 2
}

func mix(a, b uint8) uint8 {
	return (a ^ b) + Bias
}

func Mix(a, b uint8) uint8 {
	return mix(a, b)
}

func Quad(a uint32) uint32 {
	return scale(a) + 1
}
`

type c03PkgProg struct {
	name   string
	main   string
	widths []int
	ref    func(in []uint64) []uint64 // outputs as bit patterns of the output widths
	outw   []int
}

func c03U(v uint64, w int) uint64 { return v & (1<<uint(w) - 1) }

// library functions, Go reference (the library's own scoping)
func c03RefTriple(a uint32) uint32 { return a * 3 }
func c03RefTwice(a uint32) uint32  { return c03RefTriple(a) + c03RefTriple(a) }
func c03RefDist(a, b int16) int16 {
	if a > b {
		return (a - b) + b
	}
	return (b - a) + a
}
func c03RefNorm(a uint16) uint16 {
	h := a + 7
	if h > 1000 {
		h = 1000
	}
	return h + 300
}
func c03RefMix(a, b uint8) uint8 { return (a ^ b) + 11 }
func c03RefQuad(a uint32) uint32 { return a<<2 + 1 }

func c03PkgPrograms() []c03PkgProg {
	w4 := []int{32, 32}
	return []c03PkgProg{
		{name: "control-no-collision", widths: w4, outw: []int{32, 32, 16, 16, 16},
			main: `package main

import (
	"c03liba"
)

func mscale(a uint32) uint32 {
	return a + 1
}

func mpair(a, b int16) (int16, int16) {
	return a, b
}

func main(a, b uint32) (uint32, uint32, int16, int16, uint16) {
	x, y := mpair(int16(a), int16(b))
	return c03liba.Triple(a), mscale(b), c03liba.Dist(int16(a), int16(b)), x - y, c03liba.Norm(uint16(b))
}
`,
			ref: func(in []uint64) []uint64 {
				a, b := uint32(in[0]), uint32(in[1])
				return []uint64{uint64(c03RefTriple(a)), uint64(b + 1),
					uint64(uint16(c03RefDist(int16(a), int16(b)))), uint64(uint16(int16(a) - int16(b))),
					uint64(c03RefNorm(uint16(b)))}
			}},
		{name: "name-collision:unexported-functions-same-signature", widths: w4, outw: []int{32, 32, 16, 16, 16},
			main: `package main

import (
	"c03liba"
)

func scale(a uint32) uint32 {
	return a + 1
}

func pair(a, b int16) (int16, int16) {
	return a, b
}

func clamp(a uint16) uint16 {
	return a & 15
}

func main(a, b uint32) (uint32, uint32, int16, int16, uint16) {
	x, y := pair(int16(a), int16(b))
	return c03liba.Triple(a), scale(b), c03liba.Dist(int16(a), int16(b)), x - y, c03liba.Norm(uint16(b)) + clamp(uint16(a))
}
`,
			ref: func(in []uint64) []uint64 {
				a, b := uint32(in[0]), uint32(in[1])
				return []uint64{uint64(c03RefTriple(a)), uint64(b + 1),
					uint64(uint16(c03RefDist(int16(a), int16(b)))), uint64(uint16(int16(a) - int16(b))),
					uint64(c03RefNorm(uint16(b)) + uint16(a)&15)}
			}},
		{name: "name-collision:exported-functions-constants-variables", widths: w4, outw: []int{32, 32, 16, 16},
			main: `package main

import (
	"c03liba"
)

const Bias = 100

var offset uint16 = 1

func Helper(a uint16) uint16 {
	return a - Bias
}

func Triple(a uint32) uint32 {
	return a + 5
}

func main(a, b uint32) (uint32, uint32, uint16, uint16) {
	return c03liba.Twice(a), Triple(b), c03liba.Norm(uint16(a)), Helper(uint16(b)) + offset
}
`,
			ref: func(in []uint64) []uint64 {
				a, b := uint32(in[0]), uint32(in[1])
				return []uint64{uint64(c03RefTwice(a)), uint64(b + 5), uint64(c03RefNorm(uint16(a))),
					uint64(uint16(b) - 100 + 1)}
			}},
		{name: "name-collision:different-signature", widths: w4, outw: []int{32, 32, 16},
			main: `package main

import (
	"c03liba"
)

func scale(a, b uint32) uint32 {
	return a + b
}

func pair(a int16) int16 {
	return a + 1
}

func main(a, b uint32) (uint32, uint32, int16) {
	return c03liba.Triple(a), scale(a, b), c03liba.Dist(int16(a), pair(int16(b)))
}
`,
			ref: func(in []uint64) []uint64 {
				a, b := uint32(in[0]), uint32(in[1])
				return []uint64{uint64(c03RefTriple(a)), uint64(a + b),
					uint64(uint16(c03RefDist(int16(a), int16(b)+1)))}
			}},
		{name: "name-collision:two-libraries-same-helper-name", widths: w4, outw: []int{32, 32, 32, 8},
			main: `package main

import (
	"c03liba"
	"c03libb"
)

const Bias = 1

func scale(a uint32) uint32 {
	return a - 1
}

func mix(a, b uint8) uint8 {
	return a & b
}

func main(a, b uint32) (uint32, uint32, uint32, uint8) {
	return c03liba.Triple(a), c03libb.Quad(a), scale(b), c03libb.Mix(uint8(a), uint8(b)) + mix(uint8(a), uint8(b)) + Bias
}
`,
			ref: func(in []uint64) []uint64 {
				a, b := uint32(in[0]), uint32(in[1])
				return []uint64{uint64(c03RefTriple(a)), uint64(c03RefQuad(a)), uint64(b - 1),
					uint64(c03RefMix(uint8(a), uint8(b)) + uint8(a)&uint8(b) + 1)}
			}},
		{name: "name-collision:real-library-sort-helpers", widths: []int{16, 16, 16, 16}, outw: []int{16, 16, 16, 16},
			main: `package main

import (
	"sort"
)

func bitonicMerge(a []int, lo, n int, dir bool) []int {
	return a
}

func floorPow2(n int) int {
	return 1
}

func main(a, b, c, d int16) (int16, int16, int16, int16) {
	var arr [4]int16
	arr[0] = a
	arr[1] = b
	arr[2] = c
	arr[3] = d
	r := sort.Slice(arr)
	keep := bitonicMerge(arr, 0, floorPow2(4), true)
	return r[0], r[1], r[2], r[3] + keep[0] - a
}
`,
			ref: func(in []uint64) []uint64 {
				v := []int{int(int16(in[0])), int(int16(in[1])), int(int16(in[2])), int(int16(in[3]))}
				sort.Ints(v)
				return []uint64{uint64(uint16(v[0])), uint64(uint16(v[1])), uint64(uint16(v[2])), uint64(uint16(v[3]))}
			}},
	}
}

type c03PkgReplay struct {
	Program  string            `json:"program"`
	Main     string            `json:"main_source"`
	Packages map[string]string `json:"library_sources"`
	PkgPath  string            `json:"pkgpath"`
	Inputs   string            `json:"inputs,omitempty"`
	Expected string            `json:"expected,omitempty"`
	Got      string            `json:"got,omitempty"`
	Error    string            `json:"error,omitempty"`
}

func c03Packages(c *Ctx) error {
	dir := filepath.Join(c.OutDir, "c03pkgs")
	libs := map[string]string{"c03liba": c03LibA, "c03libb": c03LibB}
	for name, src := range libs {
		if err := os.MkdirAll(filepath.Join(dir, name), 0o755); err != nil {
			return err
		}
		if err := os.WriteFile(filepath.Join(dir, name, name+".mpcl"), []byte(src), 0o644); err != nil {
			return err
		}
	}
	abs, err := filepath.Abs(dir)
	if err != nil {
		return err
	}
	for pi, pp := range c03PkgPrograms() {
		pp := pp
		rep := c03PkgReplay{Program: pp.name, Main: pp.main, Packages: libs, PkgPath: abs}
		var compileErr string
		circ := func() (res c03Compiled) {
			saved := os.Stdout
			os.Stdout = c03DevNull
			defer func() { os.Stdout = saved }()
			defer func() {
				if r := recover(); r != nil {
					res.err, res.panicked = fmt.Sprint(r), true
				}
			}()
			params := utils.NewParams()
			defer params.Close()
			params.PkgPath = []string{abs}
			cc, _, err := compiler.New(params).Compile(pp.main, nil)
			if err != nil {
				res.err = err.Error()
				return
			}
			res.circ = cc
			return
		}()
		c.Hist("packages:" + pp.name)
		if circ.err != "" {
			compileErr = circ.err
			rep.Error = compileErr
			c.Eval("pkg|"+pp.name, true)
			c.Fail("c03:packages:"+pp.name+":compile-error",
				"multi-package program does not compile: "+strings.TrimSpace(compileErr), rep)
			continue
		}
		vecs := c03Vectors(NewRNG(uint64(0xC03B0+pi)), pp.widths, 0, c.N(40, 400))
		for _, v := range vecs {
			in := make([]uint64, len(v))
			for k := range v {
				in[k] = v[k].Uint64()
			}
			want := pp.ref(in)
			got, e := c03Compute(circ.circ, v)
			c.Eval("pkg|"+pp.name+"|"+c03VecStr(v), true)
			bad := e != "" || len(got) != len(want)
			var ws, gs []string
			for k := range want {
				ws = append(ws, fmt.Sprintf("0x%x", c03U(want[k], pp.outw[k])))
				if !bad && got[k].Cmp(new(big.Int).SetUint64(c03U(want[k], pp.outw[k]))) != 0 {
					bad = true
				}
			}
			if bad {
				for _, g := range got {
					gs = append(gs, "0x"+g.Text(16))
				}
				rep.Inputs, rep.Expected, rep.Got, rep.Error = c03VecStr(v), strings.Join(ws, " "), strings.Join(gs, " "), e
				c.Fail("c03:packages:"+pp.name+":wrong-output",
					fmt.Sprintf("multi-package program %s: inputs %s: circuit %s, reference %s %s",
						pp.name, rep.Inputs, rep.Got, rep.Expected, e), rep)
				break
			}
		}
	}
	return nil
}
