package main

// C11 — connection layer is a faithful, ordered, typed byte stream.
//
// Every session runs two real p2p.Conn endpoints A and B with an independent
// script in each direction, all four roles (A sends, B receives, B sends,
// A receives) in their own goroutines:
//   mode 0: over a scripted in-memory transport that records every Write
//           chunk (bytes + identity of the ring buffer it aliases) and serves
//           Reads cut at prescribed segment boundaries;
//   mode 1: over p2p.Pipe() (io.Pipe underneath: segments = written chunks).
// Each direction is one correspondence case for the Coq model (Proto/Conn.v)
// and is judged by the property oracle independently of the model.

import (
	"bytes"
	"encoding/binary"
	"fmt"
	"hash/adler32"
	"io"
	"net"
	"runtime"
	"runtime/debug"
	"strings"
	"sync"
	"time"

	"github.com/markkurossi/mpc/ot"
	"github.com/markkurossi/mpc/p2p"
)

func init() { register("c11", runC11) }

// buffer sizes of the implementation under test (numBuffers/writeBufSize/readBufSize are
// unexported; the slices are exported): probed from a real Conn by c11ProbeSizes
var (
	c11WriteBuf = 64 * 1024
	c11ReadBuf  = 1024 * 1024
)

func c11ProbeSizes() {
	w := newC11Wire(nil, false)
	conn := p2p.NewConn(&c11End{r: w, w: w})
	c11WriteBuf = len(conn.WriteBuf)
	c11ReadBuf = len(conn.ReadBuf)
	conn.Close()
}

// ---- script

const (
	c11KByte = iota
	c11KU16
	c11KU32
	c11KData
	c11KString
	c11KLabel
	c11KSizes
	c11KFlush
	c11KClose
	c11KRaw // in-place write: NeedSpace(v), then data stored at WriteBuf[WritePos:], WritePos += len(data)
)

// receive scripts are lists of kinds; an in-place read of k bytes (Fill(k) unless the window
// holds k bytes, then ReadBuf[ReadStart:ReadStart+k], ReadStart += k) is coded c11RawBase+k
const c11RawBase = 1000

func (o c11Op) isValue() bool { return o.kind < c11KFlush || o.kind == c11KRaw }

// the receive that matches a send op
func (o c11Op) recvCode() int {
	if o.kind == c11KRaw {
		return c11RawBase + len(o.data)
	}
	return o.kind
}

// number of bytes the op puts on the wire
func (o c11Op) wireLen() int {
	switch o.kind {
	case c11KByte:
		return 1
	case c11KU16:
		return 2
	case c11KU32:
		return 4
	case c11KData, c11KString:
		return 4 + len(o.data)
	case c11KLabel:
		return 16
	case c11KSizes:
		return 4 + 4*len(o.sizes)
	case c11KRaw:
		return len(o.data)
	}
	return 0
}

func c11RecvSX(codes []int) SX {
	l := make([]SX, len(codes))
	for i, k := range codes {
		if k >= c11RawBase {
			l[i] = L(I(7), I(k-c11RawBase))
		} else {
			l[i] = I(k)
		}
	}
	return L(l...)
}

type c11Op struct {
	kind  int
	b     byte
	v     int
	data  []byte // payload bytes (always materialised on the Go side)
	gen   bool   // payload described as (n, seed) to the model
	cyc   bool   // gen: cyclic repetition of a 4093-byte block (multi-megabyte payloads)
	seed  int
	label ot.Label
	fresh bool // SendLabel with a fresh ot.LabelData instead of the script's shared scratch buffer
	sizes []int
}

// c11GenBytes: full-period 16-bit LCG, high byte (mirrored by RunC11.gen_bytes).
func c11GenBytes(n, seed int) []byte {
	out := make([]byte, n)
	x := uint32(seed) & 0xffff
	for i := range out {
		out[i] = byte(x >> 8)
		x = (x*5 + 1) & 0xffff
	}
	return out
}

// c11CycBytes: the first n bytes of the endless repetition of c11GenBytes(4093, seed)
// (mirrored by RunC11.cycle_take).
func c11CycBytes(n, seed int) []byte {
	blk := c11GenBytes(4093, seed)
	out := make([]byte, n)
	for i := 0; i < n; i += len(blk) {
		copy(out[i:], blk)
	}
	return out
}

func (o c11Op) payloadSX() SX {
	if o.gen && o.cyc {
		return L(I(2), I(len(o.data)), I(o.seed))
	}
	if o.gen {
		return L(I(1), I(len(o.data)), I(o.seed))
	}
	items := []SX{I(0)}
	for _, b := range o.data {
		items = append(items, I(int(b)))
	}
	return L(items...)
}

func (o c11Op) sx() SX {
	switch o.kind {
	case c11KByte:
		return L(I(c11KByte), I(int(o.b)))
	case c11KU16, c11KU32:
		return L(I(o.kind), I(o.v))
	case c11KData, c11KString:
		return L(I(o.kind), o.payloadSX())
	case c11KLabel:
		return L(I(c11KLabel), Label(o.label))
	case c11KSizes:
		return L(I(c11KSizes), Ints(o.sizes))
	case c11KRaw:
		return L(I(c11KRaw), I(o.v), o.payloadSX())
	}
	return L(I(o.kind))
}

func (o c11Op) String() string {
	switch o.kind {
	case c11KByte:
		return fmt.Sprintf("Byte(%d)", o.b)
	case c11KU16:
		return fmt.Sprintf("U16(%d)", o.v)
	case c11KU32:
		return fmt.Sprintf("U32(%d)", o.v)
	case c11KData, c11KString:
		n := "Data"
		if o.kind == c11KString {
			n = "String"
		}
		if o.gen {
			return fmt.Sprintf("%s(gen n=%d seed=%d cyclic=%v)", n, len(o.data), o.seed, o.cyc)
		}
		return fmt.Sprintf("%s(%x)", n, o.data)
	case c11KLabel:
		if o.fresh {
			return "Label(" + o.label.String() + ",fresh-buffer)"
		}
		return "Label(" + o.label.String() + ")"
	case c11KSizes:
		return fmt.Sprintf("Sizes(%v)", o.sizes)
	case c11KFlush:
		return "Flush"
	case c11KRaw:
		if o.gen {
			return fmt.Sprintf("NeedSpace(%d)+store(gen n=%d seed=%d)", o.v, len(o.data), o.seed)
		}
		return fmt.Sprintf("NeedSpace(%d)+store(%x)", o.v, o.data)
	}
	return "Close"
}

// a received (or expected) value
type c11Val struct {
	kind  int
	n     uint64 // byte / u16 / u32
	data  []byte
	label ot.Label
	sizes []int
}

func (v c11Val) equal(o c11Val) bool {
	if v.kind != o.kind || v.n != o.n || !bytes.Equal(v.data, o.data) || !v.label.Equal(o.label) || len(v.sizes) != len(o.sizes) {
		return false
	}
	for i := range v.sizes {
		if v.sizes[i] != o.sizes[i] {
			return false
		}
	}
	return true
}

// independent wire encoder (encoding/binary), used only by the oracle
func (v c11Val) encode() []byte {
	var out []byte
	switch v.kind {
	case c11KByte:
		out = []byte{byte(v.n)}
	case c11KU16:
		out = binary.BigEndian.AppendUint16(nil, uint16(v.n))
	case c11KU32:
		out = binary.BigEndian.AppendUint32(nil, uint32(v.n))
	case c11KRaw:
		out = append(out, v.data...)
	case c11KData, c11KString:
		out = binary.BigEndian.AppendUint32(nil, uint32(len(v.data)))
		out = append(out, v.data...)
	case c11KLabel:
		out = binary.BigEndian.AppendUint64(nil, v.label.D0)
		out = binary.BigEndian.AppendUint64(out, v.label.D1)
	case c11KSizes:
		out = binary.BigEndian.AppendUint32(nil, uint32(len(v.sizes)))
		for _, s := range v.sizes {
			out = binary.BigEndian.AppendUint32(out, uint32(s))
		}
	}
	return out
}

// c11SparseSample: first 16 bytes, every 1021st byte, last 16 bytes (RunC11.sparse_sample).
func c11SparseSample(b []byte) []byte {
	out := append([]byte(nil), b[:16]...)
	for j := 0; j < len(b); j += 1021 {
		out = append(out, b[j])
	}
	return append(out, b[len(b)-16:]...)
}

func c11BytesSX(b []byte, sparse bool) SX {
	if len(b) <= 32 {
		items := []SX{I(0)}
		for _, x := range b {
			items = append(items, I(int(x)))
		}
		return L(items...)
	}
	if sparse {
		return L(I(2), I(len(b)), U64(uint64(adler32.Checksum(c11SparseSample(b)))))
	}
	return L(I(1), I(len(b)), U64(uint64(adler32.Checksum(b))))
}

func (v c11Val) sx(sparse bool) SX {
	switch v.kind {
	case c11KByte, c11KU16, c11KU32:
		return L(I(v.kind), U64(v.n))
	case c11KRaw:
		return L(I(7), c11BytesSX(v.data, sparse))
	case c11KData, c11KString:
		return L(I(v.kind), c11BytesSX(v.data, sparse))
	case c11KLabel:
		return L(I(c11KLabel), Label(v.label))
	}
	return L(I(c11KSizes), Ints(v.sizes))
}

func (v c11Val) String() string {
	switch v.kind {
	case c11KByte, c11KU16, c11KU32:
		return fmt.Sprintf("%d:%d", v.kind, v.n)
	case c11KData, c11KString, c11KRaw:
		if len(v.data) > 24 {
			return fmt.Sprintf("%d:len=%d adler=%08x", v.kind, len(v.data), adler32.Checksum(v.data))
		}
		return fmt.Sprintf("%d:%x", v.kind, v.data)
	case c11KLabel:
		return "5:" + v.label.String()
	}
	return fmt.Sprintf("6:%v", v.sizes)
}

// the value a matching receive is expected to return (in-domain: the value
// itself; out-of-domain ints: the uint16/uint32 truncation, counted apart)
func (o c11Op) expect() (c11Val, bool) {
	switch o.kind {
	case c11KByte:
		return c11Val{kind: c11KByte, n: uint64(o.b)}, true
	case c11KU16:
		return c11Val{kind: c11KU16, n: uint64(uint16(o.v))}, true
	case c11KU32:
		return c11Val{kind: c11KU32, n: uint64(uint32(o.v))}, true
	case c11KData, c11KString, c11KRaw:
		return c11Val{kind: o.kind, data: o.data}, true
	case c11KLabel:
		return c11Val{kind: c11KLabel, label: o.label}, true
	case c11KSizes:
		s := make([]int, len(o.sizes))
		for i, x := range o.sizes {
			s[i] = int(uint32(x))
		}
		return c11Val{kind: c11KSizes, sizes: s}, true
	}
	return c11Val{}, false
}

type c11Seg struct{ count, size int } // run-length segment sizes of the reading side

type c11Script struct {
	ops      []c11Op
	recv     []int // receive kinds
	segs     []c11Seg
	class    string // generator class of the ops
	rclass   string // match | retyped | prefix | overread
	fclass   string // fragmentation class
	eofData  bool   // the transport returns its last bytes together with io.EOF
	noCloser bool   // the transport handed to NewConn does not implement io.Closer
	sparse   bool   // long byte strings are compared by a sparse digest (multi-megabyte payloads)
}

// ---- scripted transport (one direction)

type c11Wire struct {
	mu          sync.Mutex
	cond        *sync.Cond
	buf         []byte
	off         int
	chunks      [][]byte
	cptr        []*byte
	total       int // >= 0: the sender will never write more than this many bytes in total
	segs        []c11Seg
	si          int // current run
	sleft       int // segments left in current run
	segrem      int // bytes left of the current segment; -1 unlimited
	nreads      int
	eofData     bool
	eofWithData int   // Reads that returned data together with io.EOF
	rerr        error // the error the reading side ends with (nil: io.EOF); see c11fault.go
}

func (w *c11Wire) endErr() error {
	if w.rerr != nil {
		return w.rerr
	}
	return io.EOF
}

func newC11Wire(segs []c11Seg, eofData bool) *c11Wire {
	w := &c11Wire{total: -1, segs: segs, segrem: -1, eofData: eofData}
	w.cond = sync.NewCond(&w.mu)
	w.nextSeg()
	return w
}

func (w *c11Wire) nextSeg() {
	for w.si < len(w.segs) {
		if w.sleft == 0 {
			w.sleft = w.segs[w.si].count
		}
		if w.sleft > 0 {
			w.sleft--
			w.segrem = w.segs[w.si].size
			if w.segrem < 1 {
				w.segrem = 1
			}
			if w.sleft == 0 {
				w.si++
			}
			return
		}
		w.si++
	}
	w.segrem = -1
}

func (w *c11Wire) write(p []byte) (int, error) {
	w.mu.Lock()
	cp := append([]byte(nil), p...)
	w.chunks = append(w.chunks, cp)
	if len(p) > 0 {
		w.cptr = append(w.cptr, &p[0])
	} else {
		w.cptr = append(w.cptr, nil)
	}
	w.buf = append(w.buf, p...)
	w.cond.Broadcast()
	w.mu.Unlock()
	return len(p), nil
}

// waitLen waits (bounded) until n bytes have been written.
func (w *c11Wire) waitLen(n int, d time.Duration) {
	deadline := time.Now().Add(d)
	for {
		w.mu.Lock()
		l := len(w.buf)
		w.mu.Unlock()
		if l >= n || time.Now().After(deadline) {
			return
		}
		time.Sleep(50 * time.Microsecond)
	}
}

func (w *c11Wire) setTotal(n int) {
	w.mu.Lock()
	if w.total < 0 || n < w.total {
		w.total = n
	}
	w.cond.Broadcast()
	w.mu.Unlock()
}

func (w *c11Wire) read(p []byte) (int, error) {
	if len(p) == 0 {
		return 0, nil
	}
	w.mu.Lock()
	defer w.mu.Unlock()
	want := len(p)
	if w.segrem >= 0 && w.segrem < want {
		want = w.segrem
	}
	for {
		avail := len(w.buf) - w.off
		if w.total >= 0 && len(w.buf) >= w.total {
			break
		}
		// when EOF is to accompany the final bytes the transport must know whether
		// these are the final bytes: wait for more data or for the end of the stream
		if avail > want || (!w.eofData && avail >= want) {
			break
		}
		w.cond.Wait()
	}
	avail := len(w.buf) - w.off
	if avail == 0 {
		return 0, w.endErr()
	}
	n := want
	if avail < n {
		n = avail
	}
	copy(p, w.buf[w.off:w.off+n])
	w.off += n
	w.nreads++
	if w.segrem >= 0 {
		w.segrem -= n
		if w.segrem == 0 {
			w.nextSeg()
		}
	}
	if w.eofData && w.total >= 0 && w.off >= w.total {
		w.eofWithData++
		return n, w.endErr()
	}
	return n, nil
}

type c11End struct {
	r, w *c11Wire
}

func (e *c11End) Read(p []byte) (int, error)  { return e.r.read(p) }
func (e *c11End) Write(p []byte) (int, error) { return e.w.write(p) }
func (e *c11End) Close() error {
	e.w.mu.Lock()
	n := len(e.w.buf)
	e.w.mu.Unlock()
	e.w.setTotal(n)
	return nil
}

// ---- running one direction

// c11EndNoClose hides the Close method of the endpoint.
type c11EndNoClose struct{ rw io.ReadWriter }

func (e c11EndNoClose) Read(p []byte) (int, error)  { return e.rw.Read(p) }
func (e c11EndNoClose) Write(p []byte) (int, error) { return e.rw.Write(p) }

// c11NetPair: mode 2 = TCP over loopback, mode 3 = net.Pipe.
func c11NetPair(mode int) (net.Conn, net.Conn, error) {
	if mode == 3 {
		a, b := net.Pipe()
		return a, b, nil
	}
	ln, err := net.Listen("tcp", "127.0.0.1:0")
	if err != nil {
		return nil, nil, err
	}
	defer ln.Close()
	type acc struct {
		c   net.Conn
		err error
	}
	ch := make(chan acc, 1)
	go func() { c, err := ln.Accept(); ch <- acc{c, err} }()
	a, err := net.Dial("tcp", ln.Addr().String())
	if err != nil {
		return nil, nil, err
	}
	b := <-ch
	if b.err != nil {
		a.Close()
		return nil, nil, b.err
	}
	return a, b.c, nil
}

// ---- dialogue: the way every caller in the repository uses a Conn — ONE goroutine per
// endpoint that alternates between sending a round (ending in Flush) and receiving the peer's
// round, with ONE ot.LabelData scratch buffer for its sends and its receives; over p2p.Pipe().

func c11MergeSend(dst *c11SendRes, r c11SendRes, opsBefore int) {
	dst.trace = append(dst.trace, r.trace...)
	dst.ptrs = append(dst.ptrs, r.ptrs...)
	if dst.err == nil && r.err != nil {
		dst.err, dst.errAt = r.err, opsBefore+r.errAt
	}
	if dst.statAt < 0 && r.statAt >= 0 {
		dst.statAt, dst.statSent, dst.statPos, dst.statWant = opsBefore+r.statAt, r.statSent, r.statPos, r.statWant
	}
	if dst.argErr == "" {
		dst.argErr = r.argErr
	}
	dst.sent, dst.produced = r.sent, r.produced
}

func c11MergeRecv(dst *c11RecvRes, r c11RecvRes, before int) {
	dst.trace = append(dst.trace, r.trace...)
	dst.vals = append(dst.vals, r.vals...)
	if dst.err == nil && r.err != nil {
		dst.err, dst.errAt = r.err, before+r.errAt
	}
}

// c11DialogueScripts: rounds of a few small ops each, every round ending in Flush.
func c11DialogueScripts(r *RNG, c *Ctx) (ab, ba *c11Script, roundsAB, roundsBA [][]c11Op) {
	n := 2 + r.Intn(8)
	mk := func() (*c11Script, [][]c11Op) {
		s := &c11Script{class: "dialogue", rclass: "match", fclass: "pipe-chunks"}
		var rounds [][]c11Op
		for i := 0; i < n; i++ {
			var ops []c11Op
			for j := 1 + r.Intn(6); j > 0; j-- {
				o := c11RandOp(r, c, false)
				if o.kind == c11KLabel {
					o.fresh = false // the one scratch buffer of the endpoint
				}
				ops = append(ops, o)
				if r.Intn(10) == 0 {
					ops = append(ops, c11Op{kind: c11KFlush})
				}
			}
			ops = append(ops, c11Op{kind: c11KFlush})
			rounds = append(rounds, ops)
			s.ops = append(s.ops, ops...)
		}
		for _, o := range s.ops {
			if o.isValue() {
				s.recv = append(s.recv, o.recvCode())
			}
		}
		return s, rounds
	}
	ab, roundsAB = mk()
	ba, roundsBA = mk()
	return
}

func c11RecvCodes(ops []c11Op) []int {
	var k []int
	for _, o := range ops {
		if o.isValue() {
			k = append(k, o.recvCode())
		}
	}
	return k
}

func c11RunDialogue(ab, ba *c11Dir, roundsAB, roundsBA [][]c11Op) bool {
	A, B := p2p.Pipe()
	ab.send, ba.send = c11SendRes{errAt: -1, closeLen: -1, statAt: -1}, c11SendRes{errAt: -1, closeLen: -1, statAt: -1}
	ab.recv, ba.recv = c11RecvRes{errAt: -1, statAt: -1}, c11RecvRes{errAt: -1, statAt: -1}
	var wg sync.WaitGroup
	wg.Add(2)
	go func() { // endpoint A: send round, then receive the peer's round
		defer wg.Done()
		var ld ot.LabelData
		ops, vals := 0, 0
		for i := range roundsAB {
			c11MergeSend(&ab.send, c11SendFrom(A, roundsAB[i], nil, &ld, ab.send.produced, true), ops)
			ops += len(roundsAB[i])
			codes := c11RecvCodes(roundsBA[i])
			c11MergeRecv(&ba.recv, c11RecvWith(A, codes, nil, false, &ld), vals)
			vals += len(codes)
			if ab.send.err != nil || ba.recv.err != nil {
				return
			}
		}
	}()
	go func() { // endpoint B: receive the peer's round, then send its own
		defer wg.Done()
		var ld ot.LabelData
		ops, vals := 0, 0
		for i := range roundsBA {
			codes := c11RecvCodes(roundsAB[i])
			c11MergeRecv(&ab.recv, c11RecvWith(B, codes, nil, false, &ld), vals)
			vals += len(codes)
			c11MergeSend(&ba.send, c11SendFrom(B, roundsBA[i], nil, &ld, ba.send.produced, true), ops)
			ops += len(roundsBA[i])
			if ba.send.err != nil || ab.recv.err != nil {
				return
			}
		}
	}()
	done := make(chan struct{})
	go func() { wg.Wait(); close(done) }()
	select {
	case <-done:
	case <-time.After(60 * time.Second):
		return false
	}
	// both close; the Close is the last op of each script
	for _, x := range []struct {
		d    *c11Dir
		conn *p2p.Conn
	}{{ab, A}, {ba, B}} {
		if x.d.send.err == nil {
			c11MergeSend(&x.d.send, c11SendFrom(x.conn, []c11Op{{kind: c11KClose}}, nil, new(ot.LabelData), x.d.send.produced, false), len(x.d.script.ops))
			x.d.script.ops = append(x.d.script.ops, c11Op{kind: c11KClose})
		}
	}
	ab.recvd = B.Stats.Recvd.Load()
	ba.recvd = A.Stats.Recvd.Load()
	return true
}

type c11SendRes struct {
	// first op after which Stats.Sent + WritePos differs from the bytes of all values sent so far
	statAt   int
	statSent uint64
	statPos  int
	statWant int
	trace    []SX
	ptrs     []*byte // c.WriteBuf identity after every op
	err      error
	errAt    int
	sent     uint64
	closeLen int    // bytes on the wire when Close returned (-1: no Close / mode 1)
	produced int    // bytes of all values sent
	argErr   string // a Send* call modified the slice it was given
}

func c11Send(conn *p2p.Conn, ops []c11Op, wire *c11Wire) c11SendRes {
	var ld ot.LabelData
	return c11SendFrom(conn, ops, wire, &ld, 0, false)
}

// c11SendFrom runs ops on conn.  ld is the ot.LabelData scratch buffer the caller shares
// across its labels (and, in dialogue mode, with its receives); base is the number of
// bytes earlier calls on the same Conn produced; more: further ops will follow (the
// transport's end of stream is not announced).
func c11SendFrom(conn *p2p.Conn, ops []c11Op, wire *c11Wire, ldp *ot.LabelData, base int, more bool) c11SendRes {
	res := c11SendRes{errAt: -1, closeLen: -1, statAt: -1}
	produced := base
	for i, o := range ops {
		var err error
		switch o.kind {
		case c11KByte:
			err = conn.SendByte(o.b)
		case c11KU16:
			err = conn.SendUint16(o.v)
		case c11KU32:
			err = conn.SendUint32(o.v)
		case c11KData:
			if len(o.data) == 0 && i%2 == 1 {
				err = conn.SendData(nil)
			} else {
				// the caller owns its slice: the call must not modify it and must be done with
				// it when it returns (the caller re-uses the buffer at once)
				arg := append([]byte{}, o.data...)
				err = conn.SendData(arg)
				if res.argErr == "" && !bytes.Equal(arg, o.data) {
					res.argErr = fmt.Sprintf("op %d: SendData modified the caller's slice (first difference at %d)", i, c11FirstDiff(arg, o.data))
				}
				for j := range arg {
					arg[j] ^= 0xa5
				}
			}
		case c11KString:
			err = conn.SendString(string(o.data))
		case c11KLabel:
			// the callers in the repository reuse ONE ot.LabelData for all labels of a session
			if o.fresh {
				var f ot.LabelData
				err = conn.SendLabel(o.label, &f)
			} else {
				err = conn.SendLabel(o.label, ldp)
				if i%3 == 2 {
					// the caller re-uses its scratch buffer for something else after the call
					for j := range ldp {
						ldp[j] = 0xee
					}
				}
			}
		case c11KSizes:
			if len(o.sizes) == 0 && i%2 == 1 {
				err = conn.SendInputSizes(nil)
			} else {
				arg := append([]int{}, o.sizes...)
				err = conn.SendInputSizes(arg)
				for j := range arg {
					if res.argErr == "" && arg[j] != o.sizes[j] {
						res.argErr = fmt.Sprintf("op %d: SendInputSizes modified the caller's slice: element %d was %d, is %d", i, j, o.sizes[j], arg[j])
					}
					arg[j] = -1
				}
			}
		case c11KFlush:
			err = conn.Flush()
		case c11KRaw:
			// the in-place write API used by circuit.Streaming.Garble
			if err = conn.NeedSpace(o.v); err == nil {
				copy(conn.WriteBuf[conn.WritePos:], o.data)
				conn.WritePos += len(o.data)
			}
		case c11KClose:
			err = conn.Close()
			if wire != nil {
				wire.mu.Lock()
				res.closeLen = len(wire.buf)
				wire.mu.Unlock()
			}
		}
		if err != nil {
			res.err = fmt.Errorf("op %d %s: %v", i, o, err)
			res.errAt = i
			break
		}
		res.trace = append(res.trace, L(I(conn.WritePos), U64(conn.Stats.Sent.Load()), U64(conn.Stats.Flushed.Load()), I(-1)))
		// byte counter = bytes moved at every point: what was handed to the writer plus what is
		// still in the buffer is everything produced so far (after a Flush: WritePos = 0)
		produced += o.wireLen()
		if sent := conn.Stats.Sent.Load(); res.statAt < 0 && sent+uint64(conn.WritePos) != uint64(produced) {
			res.statAt, res.statSent, res.statPos, res.statWant = i, sent, conn.WritePos, produced
		}
		if len(conn.WriteBuf) > 0 {
			res.ptrs = append(res.ptrs, &conn.WriteBuf[0])
		} else {
			res.ptrs = append(res.ptrs, nil)
		}
	}
	res.sent = conn.Stats.Sent.Load()
	if wire != nil && !more {
		// every script ends with Flush or Close: all produced bytes are what the wire will carry
		wire.setTotal(produced)
	}
	res.produced = produced
	return res
}

type c11RecvRes struct {
	trace []SX
	vals  []c11Val
	err   error
	errAt int
	// first receive after which Stats.Recvd differs from the bytes the transport has served
	statAt    int
	statRecvd uint64
	statMoved uint64
}

func c11Recv(conn *p2p.Conn, kinds []int, wire *c11Wire, sparse bool) c11RecvRes {
	var ld ot.LabelData
	return c11RecvWith(conn, kinds, wire, sparse, &ld)
}

// c11RecvWith: ldp is the caller's ot.LabelData scratch buffer (in dialogue mode the one it
// also sends with).  Returned slices belong to the caller: it may modify them at once, and
// they must stay as they were while later receives run (they are compared at the end).
func c11RecvWith(conn *p2p.Conn, kinds []int, wire *c11Wire, sparse bool, ldp *ot.LabelData) c11RecvRes {
	res := c11RecvRes{errAt: -1, statAt: -1}
	checkStats := func(i int) {
		if wire == nil || res.statAt >= 0 {
			return
		}
		wire.mu.Lock()
		moved := uint64(wire.off)
		wire.mu.Unlock()
		if got := conn.Stats.Recvd.Load(); got != moved {
			res.statAt, res.statRecvd, res.statMoved = i, got, moved
		}
	}
	for i, k := range kinds {
		v := c11Val{kind: k}
		var err error
		if k >= c11RawBase {
			// the in-place read API
			n := k - c11RawBase
			v.kind = c11KRaw
			if conn.ReadStart+n > conn.ReadEnd {
				err = conn.Fill(n)
			}
			if err == nil {
				v.data = append([]byte{}, conn.ReadBuf[conn.ReadStart:conn.ReadStart+n]...)
				conn.ReadStart += n
			}
		}
		switch k {
		case c11KByte:
			var b byte
			b, err = conn.ReceiveByte()
			v.n = uint64(b)
		case c11KU16:
			var x int
			x, err = conn.ReceiveUint16()
			v.n = uint64(x)
		case c11KU32:
			var x int
			x, err = conn.ReceiveUint32()
			v.n = uint64(x)
		case c11KData:
			var got []byte
			got, err = conn.ReceiveData()
			if i%2 == 0 {
				// the caller owns the result: it keeps a copy and overwrites the slice it got
				v.data = append([]byte{}, got...)
				for j := range got {
					got[j] ^= 0x5a
				}
			} else {
				// ... or keeps the slice itself while it goes on receiving (compared at the end)
				v.data = got
			}
		case c11KString:
			var s string
			s, err = conn.ReceiveString()
			v.data = []byte(s)
		case c11KLabel:
			err = conn.ReceiveLabel(&v.label, ldp)
		case c11KSizes:
			var got []int
			got, err = conn.ReceiveInputSizes()
			if i%2 == 0 {
				v.sizes = append([]int{}, got...)
				for j := range got {
					got[j] = -7
				}
			} else {
				v.sizes = got
			}
		}
		if err != nil {
			st := 2
			if err == io.EOF {
				st = 1
			}
			res.trace = append(res.trace, L(I(st), L(), I(conn.ReadStart), I(conn.ReadEnd), U64(conn.Stats.Recvd.Load())))
			res.err = err
			res.errAt = i
			checkStats(i)
			break
		}
		res.vals = append(res.vals, v)
		res.trace = append(res.trace, L(I(0), v.sx(sparse), I(conn.ReadStart), I(conn.ReadEnd), U64(conn.Stats.Recvd.Load())))
		checkStats(i)
	}
	return res
}

// ---- generators

func c11Payload(r *RNG, c *Ctx, big bool) (data []byte, gen bool, seed int) {
	var n int
	switch r.Intn(10) {
	case 0:
		n = 0
	case 1:
		n = 1
	case 2:
		n = 15 + r.Intn(3) // 15 16 17
	case 3, 4, 5:
		n = r.Intn(100)
	case 6:
		n = r.Intn(3000)
	default:
		n = r.Intn(40)
	}
	if big {
		switch r.Intn(8) {
		case 0:
			n = c11WriteBuf - 4 - r.Intn(20) // with the length prefix: lands on / just below a full buffer
		case 1:
			n = c11WriteBuf - 8 + r.Intn(17)
		case 2:
			n = 2*c11WriteBuf - 8 + r.Intn(17)
		case 3:
			n = 3*c11WriteBuf - 12 + r.Intn(25)
		case 4:
			n = c11WriteBuf/2 + r.Intn(c11WriteBuf)
		case 5:
			n = 65535 + r.Intn(3)
		default:
			n = 4000 + r.Intn(200000)
		}
	}
	c.Hist("payload:" + c11SizeClass(n))
	if n <= 48 || (n <= 200 && r.Intn(2) == 0) {
		return r.Bytes(n), false, 0
	}
	seed = r.Intn(65536)
	return c11GenBytes(n, seed), true, seed
}

func c11SizeClass(n int) string {
	switch {
	case n == 0:
		return "0"
	case n < 15:
		return "1..14"
	case n <= 17:
		return "15..17"
	case n < 4096:
		return "18..4095"
	case n < c11WriteBuf-32:
		return "4Ki..64Ki-32"
	case n <= c11WriteBuf+32:
		return "64Ki+-32"
	case n < c11ReadBuf-64:
		return "64Ki+32..1Mi-64"
	case n <= c11ReadBuf+64:
		return "1Mi+-64"
	}
	return ">1Mi+64"
}

// c11RandLabel: structured labels next to random ones (zero, one half zero, tweak-shaped,
// all ones, single bit, equal halves).
func c11RandLabel(r *RNG) (ot.Label, string) {
	switch r.Intn(12) {
	case 0:
		return ot.Label{}, "zero"
	case 1:
		return ot.Label{D0: 0, D1: r.U64()}, "high-word-zero"
	case 2:
		return ot.NewTweak(uint32(r.U64())), "tweak"
	case 3:
		return ot.Label{D0: r.U64(), D1: 0}, "low-word-zero"
	case 4:
		return ot.Label{D0: ^uint64(0), D1: ^uint64(0)}, "all-ones"
	case 5:
		var l ot.Label
		if b := r.Intn(128); b < 64 {
			l.D1 = 1 << uint(b)
		} else {
			l.D0 = 1 << uint(b-64)
		}
		return l, "single-bit"
	case 6:
		x := r.U64()
		return ot.Label{D0: x, D1: x}, "equal-halves"
	case 7:
		return ot.Label{D0: 0, D1: uint64(r.Intn(256))}, "high-word-zero"
	}
	return ot.Label{D0: r.U64(), D1: r.U64()}, "random"
}

// c11RawOp: NeedSpace(n) followed by an in-place store of at most n bytes.
func c11RawOp(r *RNG, c *Ctx, garbleLike bool) c11Op {
	var n, l int
	shape := r.Intn(8)
	if garbleLike && shape < 6 {
		shape = 0
	}
	switch shape {
	case 0, 1: // circuit.Streaming.Garble: NeedSpace(512), then up to 512 bytes
		n, l = 512, 1+r.Intn(512)
	case 2:
		l = 1 + r.Intn(64)
		n = l
	case 3:
		n = 1 + r.Intn(2000)
		l = r.Intn(n + 1)
	case 4:
		n, l = 1+r.Intn(100), 0
	case 5: // up to a whole buffer
		n = c11WriteBuf - r.Intn(3)
		l = n - r.Intn(40)
	case 6:
		n = 16 + r.Intn(5000)
		l = n
	default:
		n, l = 1+r.Intn(20), 1
	}
	c.Hist("op:NeedSpace:" + c11SizeClass(n))
	o := c11Op{kind: c11KRaw, v: n}
	if l <= 48 {
		o.data = r.Bytes(l)
	} else {
		o.seed = r.Intn(65536)
		o.gen = true
		o.data = c11GenBytes(l, o.seed)
	}
	return o
}

func c11RandOp(r *RNG, c *Ctx, big bool) c11Op {
	if r.Intn(9) == 0 {
		return c11RawOp(r, c, false)
	}
	switch r.Intn(13) {
	case 0, 1:
		return c11Op{kind: c11KByte, b: byte(r.U64())}
	case 2, 3:
		v := r.Intn(65536)
		switch r.Intn(12) {
		case 0:
			v = 65535
		case 1:
			v = 0
		case 2: // outside the domain: truncated by the uint32/uint16 conversions
			v = 65536 + r.Intn(1<<20)
			c.Hist("ood:u16")
		case 3:
			v = -1 - r.Intn(70000)
			c.Hist("ood:u16")
		}
		return c11Op{kind: c11KU16, v: v}
	case 4, 5:
		v := int(r.U64() & 0xffffffff)
		switch r.Intn(12) {
		case 0:
			v = 0xffffffff
		case 1:
			v = r.Intn(256)
		case 2:
			v = int(r.U64()&0xffffffffff) + (1 << 32)
			c.Hist("ood:u32")
		case 3:
			v = -1 - int(r.U64()&0xffffffffff)
			c.Hist("ood:u32")
		}
		return c11Op{kind: c11KU32, v: v}
	case 6, 7, 8:
		d, g, s := c11Payload(r, c, big)
		return c11Op{kind: c11KData, data: d, gen: g, seed: s}
	case 9:
		d, g, s := c11Payload(r, c, big && r.Intn(3) == 0)
		return c11Op{kind: c11KString, data: d, gen: g, seed: s}
	case 10, 11:
		l, shape := c11RandLabel(r)
		c.Hist("label:" + shape)
		return c11Op{kind: c11KLabel, label: l, fresh: r.Intn(5) == 0}
	}
	n := r.Intn(12)
	if r.Intn(6) == 0 {
		n = 0
	}
	sizes := make([]int, n)
	for i := range sizes {
		sizes[i] = int(r.U64() & 0xffffffff)
		switch r.Intn(10) {
		case 0:
			sizes[i] = r.Intn(1024)
		case 1:
			sizes[i] = -1 - r.Intn(1000)
			c.Hist("ood:sizes")
		}
	}
	return c11Op{kind: c11KSizes, sizes: sizes}
}

// c11GenOps builds the send ops of one direction.  class:
//
//	small    only small values
//	mixed    small values and some payloads around the 64 KiB buffer size
//	boundary first a payload that leaves WritePos at 64Ki-k (k=0..17), then fixed-size values
//	bigstream payloads adding up to more than the 1 MiB read buffer
//	huge     (thorough) a payload around 1 MiB / 2 MiB / 3 MiB
func c11GenOps(r *RNG, c *Ctx, class string, flushP int) []c11Op {
	var ops []c11Op
	add := func(o c11Op) {
		ops = append(ops, o)
		if r.Intn(100) < flushP {
			ops = append(ops, c11Op{kind: c11KFlush})
			if r.Intn(8) == 0 {
				ops = append(ops, c11Op{kind: c11KFlush}) // Flush of an empty buffer
			}
		}
	}
	genData := func(n int) c11Op {
		seed := r.Intn(65536)
		c.Hist("payload:" + c11SizeClass(n))
		return c11Op{kind: c11KData, data: c11GenBytes(n, seed), gen: true, seed: seed}
	}
	switch class {
	case "small":
		n := 1 + r.Intn(25)
		if r.Intn(5) == 0 {
			n = 1 + r.Intn(3)
		}
		for i := 0; i < n; i++ {
			o := c11RandOp(r, c, false)
			add(o)
			// labels come in runs (garbled tables, input labels): more labels through the same scratch buffer
			for o.kind == c11KLabel && r.Intn(2) == 0 {
				l, shape := c11RandLabel(r)
				c.Hist("label:" + shape)
				add(c11Op{kind: c11KLabel, label: l, fresh: r.Intn(8) == 0})
			}
		}
	case "inplace":
		// the in-place write path producing several write-buffer rollovers inside NeedSpace,
		// mixed with Send* and explicit Flushes
		n := 150 + r.Intn(350)
		for i := 0; i < n; i++ {
			if r.Intn(6) == 0 {
				add(c11RandOp(r, c, false))
			} else {
				add(c11RawOp(r, c, true))
			}
		}
	case "long":
		// a long-lived connection: hundreds of values, the ring goes round many times
		n := 200 + r.Intn(200)
		for i := 0; i < n; i++ {
			add(c11RandOp(r, c, false))
		}
	case "mixed":
		n := 2 + r.Intn(14)
		for i := 0; i < n; i++ {
			add(c11RandOp(r, c, r.Intn(4) == 0))
		}
	case "boundary":
		// a first payload leaves WritePos at 64Ki-k; the next op writes sz bytes first
		// (SendData/String/InputSizes start with a SendUint32); k is aimed at sz-1, sz, sz+1
		// so that WritePos+sz lands just above, on, and just below len(WriteBuf)
		aimed := func() (c11Op, int) {
			o := c11RandOp(r, c, false)
			sz := map[int]int{c11KByte: 1, c11KU16: 2, c11KU32: 4, c11KData: 4, c11KString: 4, c11KLabel: 16, c11KSizes: 4}[o.kind]
			k := sz - 1 + r.Intn(3)
			if r.Intn(5) == 0 {
				k = r.Intn(18)
			}
			c.Hist(fmt.Sprintf("boundary:WritePos+size-64Ki=%+d", sz-k))
			return o, k
		}
		o, k := aimed()
		ops = append(ops, genData(c11WriteBuf-4-k)) // no flush: WritePos = 64Ki-k now
		add(o)
		n := r.Intn(6)
		for i := 0; i < n; i++ {
			add(c11RandOp(r, c, false))
		}
		if r.Intn(2) == 0 {
			o2, k2 := aimed()
			ops = append(ops, c11Op{kind: c11KFlush}, genData(c11WriteBuf-4-k2))
			add(o2)
			add(c11RandOp(r, c, false))
		}
	case "bigstream":
		tot := 0
		limit := c11ReadBuf + c11WriteBuf
		if c.Thorough() {
			limit = c11ReadBuf + c11ReadBuf/2
		}
		for tot < limit {
			n := 100000 + r.Intn(500000)
			if r.Intn(4) == 0 {
				n = c11ReadBuf - tot - 8 + r.Intn(17) - 4
				if n < 1 {
					n = 7
				}
			}
			add(genData(n))
			tot += n + 4
			for j := r.Intn(4); j > 0; j-- {
				add(c11RandOp(r, c, false))
			}
		}
	case "huge":
		base := []int{c11ReadBuf, 2 * c11ReadBuf, 3 * c11ReadBuf, c11ReadBuf + c11WriteBuf}[r.Intn(4)]
		for j := r.Intn(3); j > 0; j-- {
			add(c11RandOp(r, c, false))
		}
		add(genData(base - 12 + r.Intn(25)))
		for j := r.Intn(4); j > 0; j-- {
			add(c11RandOp(r, c, false))
		}
		if r.Intn(2) == 0 {
			add(genData(c11ReadBuf - 4 - r.Intn(9)))
			add(c11RandOp(r, c, false))
		}
	}
	return ops
}

func c11StreamLen(ops []c11Op) int {
	n := 0
	for _, o := range ops {
		if v, ok := o.expect(); ok {
			n += len(v.encode())
		}
	}
	return n
}

// c11GenSegs picks the fragmentation of the reading side.
func c11GenSegs(r *RNG, streamLen int) ([]c11Seg, string) {
	rest := streamLen + 16
	switch r.Intn(9) {
	case 0:
		return []c11Seg{{rest, 1}}, "all-1"
	case 1:
		k := 2 + r.Intn(6)
		return []c11Seg{{rest, k}}, "all-2..7"
	case 2:
		var s []c11Seg
		for i := 0; i < 200; i++ {
			s = append(s, c11Seg{1, 1 + r.Intn(20)})
		}
		s = append(s, c11Seg{rest, 1 + r.Intn(20)})
		return s, "rand-1..20"
	case 3:
		var s []c11Seg
		for i := 0; i < 100; i++ {
			s = append(s, c11Seg{1, 1 + r.Intn(70000)})
		}
		return s, "rand-1..70000"
	case 4:
		return nil, "whole-buffer"
	case 5:
		k := []int{16, 4096, 65535, 65536, 65537, 4, 2, 17}[r.Intn(8)]
		return []c11Seg{{rest, k}}, "all-k-boundary"
	case 6:
		var s []c11Seg
		for i := 0; i < 60; i++ {
			switch r.Intn(3) {
			case 0:
				s = append(s, c11Seg{1 + r.Intn(30), 1})
			case 1:
				s = append(s, c11Seg{1, 1 + r.Intn(300000)})
			default:
				s = append(s, c11Seg{1 + r.Intn(5), 1 + r.Intn(9)})
			}
		}
		return s, "mixed-runs"
	case 7:
		return []c11Seg{{1, c11ReadBuf - r.Intn(3)}, {rest, 1 + r.Intn(3)}}, "buffer-then-tiny"
	}
	return []c11Seg{{1, 1 + r.Intn(streamLen+1)}, {1, 1 + r.Intn(5)}}, "one-cut"
}

// retype: receive a value by an equivalent decomposition into smaller receives
func c11Retype(r *RNG, o c11Op) []int {
	rep := func(k, n int) []int {
		s := make([]int, n)
		for i := range s {
			s[i] = k
		}
		return s
	}
	switch o.kind {
	case c11KU16:
		return rep(c11KByte, 2)
	case c11KU32:
		if r.Bool() {
			return rep(c11KU16, 2)
		}
		return rep(c11KByte, 4)
	case c11KLabel:
		switch r.Intn(3) {
		case 0:
			return rep(c11KU32, 4)
		case 1:
			return rep(c11KByte, 16)
		}
		return rep(c11KU16, 8)
	case c11KData, c11KString:
		if len(o.data) <= 64 {
			return append([]int{c11KU32}, rep(c11KByte, len(o.data))...)
		}
		return []int{c11KData + c11KString - o.kind}
	case c11KSizes:
		return append([]int{c11KU32}, rep(c11KU32, len(o.sizes))...)
	}
	return []int{o.recvCode()}
}

func c11GenScript(r *RNG, c *Ctx, mode int, class string) *c11Script {
	flushP := []int{0, 0, 10, 30, 60, 100}[r.Intn(6)]
	if class == "inplace" {
		flushP = []int{0, 0, 1, 3}[r.Intn(4)]
	}
	s := &c11Script{class: class}
	s.ops = c11GenOps(r, c, class, flushP)
	closes := r.Intn(10) < 7
	if mode >= 1 {
		closes = false
	}
	if closes {
		s.ops = append(s.ops, c11Op{kind: c11KClose})
	} else if s.ops[len(s.ops)-1].kind != c11KFlush {
		s.ops = append(s.ops, c11Op{kind: c11KFlush})
	}
	var match []int
	var sendOps []c11Op
	for _, o := range s.ops {
		if o.isValue() {
			match = append(match, o.recvCode())
			sendOps = append(sendOps, o)
		}
	}
	s.recv = match
	s.rclass = "match"
	if mode == 0 {
		switch x := r.Intn(10); {
		case x == 0 && c11StreamLen(s.ops) < 20000:
			s.rclass = "retyped"
			s.recv = nil
			for _, o := range sendOps {
				if r.Intn(3) > 0 {
					s.recv = append(s.recv, c11Retype(r, o)...)
				} else {
					s.recv = append(s.recv, o.recvCode())
				}
			}
		case x == 1 && len(match) > 1:
			s.rclass = "prefix"
			s.recv = match[:1+r.Intn(len(match)-1)]
		case x == 2 && closes:
			s.rclass = "overread"
			s.recv = append(append([]int(nil), match...), []int{c11KByte, c11KU16, c11KU32, c11KData, c11KLabel, c11KSizes}[r.Intn(6)])
		}
		s.segs, s.fclass = c11GenSegs(r, c11StreamLen(s.ops))
		s.eofData = r.Intn(4) == 0
		s.noCloser = r.Intn(5) == 0
	} else {
		s.fclass = "pipe-chunks"
	}
	return s
}

// c11AtSizeScript: one SendData/SendString payload of exactly the given size (around and
// above readBufSize) between a few small values; matching receives; long byte strings are
// described to the model as a cyclic pattern and compared by a sparse digest so that the
// case stays cheap.  frag selects the read segmentation (0 = whole buffer).
func c11AtSizeScript(r *RNG, c *Ctx, mode, size, kind, frag int) *c11Script {
	s := &c11Script{class: "atsize", rclass: "match", sparse: true}
	flushP := []int{0, 30, 100}[r.Intn(3)]
	add := func(o c11Op) {
		s.ops = append(s.ops, o)
		if r.Intn(100) < flushP {
			s.ops = append(s.ops, c11Op{kind: c11KFlush})
		}
	}
	for j := r.Intn(3); j > 0; j-- {
		add(c11RandOp(r, c, false))
	}
	seed := r.Intn(65536)
	add(c11Op{kind: kind, data: c11CycBytes(size, seed), gen: true, cyc: true, seed: seed})
	c.Hist("payload:" + c11SizeClass(size))
	c.Hist(fmt.Sprintf("atsize:%s:readBufSize%+d", c11KindName(kind), size-c11ReadBuf))
	for j := r.Intn(3); j > 0; j-- {
		add(c11RandOp(r, c, false))
	}
	if mode == 0 && r.Intn(10) < 7 {
		s.ops = append(s.ops, c11Op{kind: c11KClose})
	} else if s.ops[len(s.ops)-1].kind != c11KFlush {
		s.ops = append(s.ops, c11Op{kind: c11KFlush})
	}
	for _, o := range s.ops {
		if o.isValue() {
			s.recv = append(s.recv, o.recvCode())
		}
	}
	if mode == 1 {
		s.fclass = "pipe-chunks"
		return s
	}
	rest := c11StreamLen(s.ops) + 16
	switch frag {
	case 0:
		s.segs, s.fclass = nil, "whole-buffer"
	case 1:
		s.segs, s.fclass = []c11Seg{{rest, 4096}}, "all-k-boundary"
	case 2:
		for i := 0; i < 400; i++ {
			s.segs = append(s.segs, c11Seg{1, 1 + r.Intn(70000)})
		}
		s.fclass = "rand-1..70000"
	case 3:
		s.segs, s.fclass = []c11Seg{{rest, c11WriteBuf + 1}}, "all-k-boundary"
	case 4:
		if size <= c11ReadBuf+c11WriteBuf {
			s.segs, s.fclass = []c11Seg{{rest, 1}}, "all-1"
		} else {
			s.segs, s.fclass = []c11Seg{{rest, 1000}}, "all-k-boundary"
		}
	case 5:
		if size <= c11ReadBuf+c11WriteBuf {
			s.segs, s.fclass = []c11Seg{{1, c11ReadBuf - r.Intn(3)}, {rest, 1 + r.Intn(3)}}, "buffer-then-tiny"
		} else {
			s.segs, s.fclass = []c11Seg{{rest, 100000}}, "all-k-boundary"
		}
	default:
		s.segs, s.fclass = []c11Seg{{1, c11ReadBuf/2 + r.Intn(c11ReadBuf)}, {rest, 7 + r.Intn(30000)}}, "one-cut"
	}
	s.eofData = r.Intn(4) == 0
	return s
}

func (s *c11Script) inputSX(mode int) SX {
	ops := make([]SX, len(s.ops))
	for i, o := range s.ops {
		ops[i] = o.sx()
	}
	var frags []SX
	for _, sg := range s.segs {
		frags = append(frags, L(I(sg.count), I(sg.size)))
	}
	return L(I(mode), L(ops...), c11RecvSX(s.recv), L(frags...), Bool(s.eofData), Bool(s.sparse))
}

func (s *c11Script) text() string {
	t := ""
	for _, o := range s.ops {
		t += o.String() + ";"
	}
	return fmt.Sprintf("ops=%s recv=%v segs=%v eofWithData=%v transportHasCloser=%v", t, s.recv, s.segs, s.eofData, !s.noCloser)
}

// ---- sessions

type c11Dir struct {
	apiErr string
	script *c11Script
	send   c11SendRes
	recv   c11RecvRes
	wire   *c11Wire // mode 0
	recvd  uint64
}

type c11Replay struct {
	Seed    uint64 `json:"seed"`
	Session int    `json:"session"`
	Dir     string `json:"direction"`
	Mode    int    `json:"mode"`
	Script  string `json:"script"`
	Detail  string `json:"detail"`
}

// c11RunSession runs both directions concurrently; returns false on a hang.
func c11RunSession(mode int, ab, ba *c11Dir) (ok bool, closeErrs []error) {
	var A, B *p2p.Conn
	if mode == 0 {
		ab.wire = newC11Wire(ab.script.segs, ab.script.eofData)
		ba.wire = newC11Wire(ba.script.segs, ba.script.eofData)
		// NewConn on an io.ReadWriter with and without io.Closer
		var ea, eb io.ReadWriter = &c11End{r: ba.wire, w: ab.wire}, &c11End{r: ab.wire, w: ba.wire}
		if ab.script.noCloser {
			ea = c11EndNoClose{ea}
		}
		if ba.script.noCloser {
			eb = c11EndNoClose{eb}
		}
		A = p2p.NewConn(ea)
		B = p2p.NewConn(eb)
	} else if mode == 1 {
		A, B = p2p.Pipe()
	} else {
		// the transports of the front ends: a TCP connection (apps/garbled, gmw) or net.Pipe
		ca, cb, err := c11NetPair(mode)
		if err != nil {
			return false, []error{err}
		}
		A, B = p2p.NewConn(ca), p2p.NewConn(cb)
	}
	var wg sync.WaitGroup
	wg.Add(4)
	go func() { defer wg.Done(); ab.send = c11Send(A, ab.script.ops, ab.wire) }()
	go func() { defer wg.Done(); ba.send = c11Send(B, ba.script.ops, ba.wire) }()
	go func() { defer wg.Done(); ab.recv = c11Recv(B, ab.script.recv, ab.wire, ab.script.sparse) }()
	go func() { defer wg.Done(); ba.recv = c11Recv(A, ba.script.recv, ba.wire, ba.script.sparse) }()
	done := make(chan struct{})
	go func() { wg.Wait(); close(done) }()
	select {
	case <-done:
	case <-time.After(120 * time.Second):
		return false, nil
	}
	if mode >= 1 {
		// epilogue over the pipe: A sends a tail without flushing and closes; B receives
		// the tail and then must see EOF.  Then B closes.
		tail := []c11Op{{kind: c11KU32, v: 0xC0FFEE}, {kind: c11KData, data: []byte("tail-of-stream")}, {kind: c11KByte, b: 0x5a}, {kind: c11KClose}}
		tailRecv := []int{c11KU32, c11KData, c11KByte, c11KByte}
		var wg2 sync.WaitGroup
		wg2.Add(2)
		var ts c11SendRes
		var tr c11RecvRes
		go func() { defer wg2.Done(); ts = c11Send(A, tail, nil) }()
		go func() { defer wg2.Done(); tr = c11Recv(B, tailRecv, nil, ab.script.sparse) }()
		done2 := make(chan struct{})
		go func() { wg2.Wait(); close(done2) }()
		select {
		case <-done2:
		case <-time.After(60 * time.Second):
			return false, nil
		}
		// splice the epilogue into direction A->B
		ab.script.ops = append(ab.script.ops, tail...)
		ab.script.recv = append(ab.script.recv, tailRecv...)
		if ab.send.err == nil {
			ab.send.trace = append(ab.send.trace, ts.trace...)
			ab.send.ptrs = append(ab.send.ptrs, ts.ptrs...)
			ab.send.err = ts.err
			ab.send.sent = ts.sent
		}
		if ab.recv.err == nil {
			ab.recv.trace = append(ab.recv.trace, tr.trace...)
			ab.recv.vals = append(ab.recv.vals, tr.vals...)
			ab.recv.err = tr.err
			if tr.errAt >= 0 {
				ab.recv.errAt = len(ab.script.recv) - len(tailRecv) + tr.errAt
			}
		}
		ab.script.rclass = "overread"
		cs := c11Send(B, []c11Op{{kind: c11KClose}}, nil)
		ba.script.ops = append(ba.script.ops, c11Op{kind: c11KClose})
		if ba.send.err == nil {
			ba.send.trace = append(ba.send.trace, cs.trace...)
			ba.send.ptrs = append(ba.send.ptrs, cs.ptrs...)
			ba.send.err = cs.err
			ba.send.sent = cs.sent
		}
	}
	if mode == 0 {
		// Flush returns when the chunk is queued, not when it is written: give the
		// writer goroutines time to finish before the transport is inspected
		ab.wire.waitLen(ab.send.produced, 10*time.Second)
		ba.wire.waitLen(ba.send.produced, 10*time.Second)
	}
	// IOStats API: Sum and Add
	for i, cn := range []*p2p.Conn{A, B} {
		st := cn.Stats
		if st.Sum() != st.Sent.Load()+st.Recvd.Load() || st.Add(st).Sum() != 2*st.Sum() {
			[]*c11Dir{ab, ba}[i].apiErr = fmt.Sprintf("Stats.Sum()=%d, Sent=%d, Recvd=%d, Add(self).Sum()=%d", st.Sum(), st.Sent.Load(), st.Recvd.Load(), st.Add(st).Sum())
		}
	}
	ab.recvd = B.Stats.Recvd.Load()
	ba.recvd = A.Stats.Recvd.Load()
	return true, nil
}

// number ring buffers in order of first use: a buffer is flushed in the order
// it became current, so chunk order first, then the buffers seen as c.WriteBuf
// after an op.  Over the pipe (no access to the chunks) the id is not observable.
func c11BufIDs(d *c11Dir) (trace []SX, chunks []SX, distinct int) {
	ids := map[*byte]int{}
	id := func(p *byte) int {
		x, seen := ids[p]
		if !seen {
			x = len(ids)
			ids[p] = x
		}
		return x
	}
	if d.wire != nil {
		for i, ch := range d.wire.chunks {
			chunks = append(chunks, L(I(id(d.wire.cptr[i])), c11BytesSX(ch, d.script.sparse)))
		}
	}
	for i, p := range d.send.ptrs {
		t := d.send.trace[i]
		if d.wire != nil {
			t.list[3] = I(id(p))
		} else {
			t.list[3] = I(0)
		}
		trace = append(trace, t)
	}
	return trace, chunks, len(ids)
}

func c11Judge(c *Ctx, sess int, mode int, name string, d *c11Dir) {
	s := d.script
	fail := func(key, detail string) {
		c.Fail(key, detail, c11Replay{Seed: c.Seed, Session: sess, Dir: name, Mode: mode, Script: c11Clip(s.text(), 3000), Detail: detail})
	}
	var sent []c11Val
	var sendOps []c11Op
	var stream []byte
	for _, o := range s.ops {
		if v, ok := o.expect(); ok {
			sent = append(sent, v)
			sendOps = append(sendOps, o)
			stream = append(stream, v.encode()...)
		}
	}
	closes := s.ops[len(s.ops)-1].kind == c11KClose
	if d.send.err != nil {
		fail("c11:send:error", d.send.err.Error())
		return
	}
	// byte counters = bytes actually moved; the key names the payload class
	maxPayload := 0
	for _, o := range s.ops {
		if (o.kind == c11KData || o.kind == c11KString) && len(o.data) > maxPayload {
			maxPayload = len(o.data)
		}
	}
	sfx := ""
	if maxPayload > c11ReadBuf {
		sfx = ":payload>readBufSize"
	} else if maxPayload == c11ReadBuf {
		sfx = ":payload=readBufSize"
	}
	if d.send.argErr != "" {
		fail("c11:arg:send-modified-callers-slice", d.send.argErr)
	}
	if d.apiErr != "" {
		fail("c11:stats:Sum-or-Add", d.apiErr)
	}
	if d.send.statAt >= 0 {
		i := d.send.statAt
		key := "c11:stats:sent-differs-from-bytes-moved" + sfx
		if s.ops[i].kind == c11KRaw {
			key += ":NeedSpace-rollover"
		}
		fail(key, fmt.Sprintf("after op %d %s (preceded by %s): Stats.Sent=%d + WritePos=%d != %d bytes produced by the ops so far (short by %d)",
			i, c11Clip(s.ops[i].String(), 120), c11OpsAround(s.ops, i), d.send.statSent, d.send.statPos, d.send.statWant,
			int64(d.send.statWant)-int64(d.send.statSent)-int64(d.send.statPos)))
	}
	// Sent = bytes handed to the transport
	if d.send.statAt < 0 && d.send.sent != uint64(len(stream)) {
		fail("c11:stats:sent-differs-from-bytes-moved"+sfx, fmt.Sprintf("Stats.Sent=%d, bytes of all sent values=%d (largest payload %d)", d.send.sent, len(stream), maxPayload))
	}
	// Recvd = bytes served by the transport, after every receive
	if d.recv.statAt >= 0 {
		i := d.recv.statAt
		what := fmt.Sprintf("after receive %d (%s", i, c11KindName(s.recv[i]))
		if i < len(d.recv.vals) && (s.recv[i] == c11KData || s.recv[i] == c11KString) {
			what += fmt.Sprintf(" of %d bytes", len(d.recv.vals[i].data))
		}
		fail("c11:stats:recvd-differs-from-bytes-moved"+sfx, fmt.Sprintf("%s): Stats.Recvd=%d, bytes served by the transport=%d (short by %d; readBufSize=%d)",
			what, d.recv.statRecvd, d.recv.statMoved, int64(d.recv.statMoved)-int64(d.recv.statRecvd), c11ReadBuf))
	}
	if d.wire != nil {
		d.wire.mu.Lock()
		wbuf := d.wire.buf
		off := d.wire.off
		d.wire.mu.Unlock()
		if closes && d.send.closeLen != len(stream) {
			fail("c11:Close:undelivered", fmt.Sprintf("when Close returned the transport had %d of %d bytes", d.send.closeLen, len(stream)))
		}
		if !bytes.Equal(wbuf, stream) {
			at := c11FirstDiff(wbuf, stream)
			key := "c11:wire:bytes"
			detail := fmt.Sprintf("transport carried %d bytes, expected %d; first difference at %d", len(wbuf), len(stream), at)
			// which value's encoding is hit?  a label written through the shared scratch buffer?
			pos := 0
			for i, v := range sent {
				n := len(v.encode())
				if at < pos+n {
					detail += fmt.Sprintf(" (inside value %d, %s)", i, c11Clip(sendOps[i].String(), 80))
					if v.kind == c11KLabel && pos+16 <= len(wbuf) {
						var onWire ot.Label
						onWire.SetBytes(wbuf[pos : pos+16])
						if k, dt, ok := c11StaleLabel(sendOps, i, onWire); ok {
							key, detail = k, "on the wire: "+dt
						}
					}
					break
				}
				pos += n
			}
			fail(key, detail)
		}
		for _, ch := range d.wire.chunks {
			if len(ch) == 0 || len(ch) > c11WriteBuf {
				fail("c11:wire:chunk-size", fmt.Sprintf("chunk of %d bytes", len(ch)))
			}
		}
		if d.recv.statAt < 0 && d.recvd != uint64(off) {
			fail("c11:stats:recvd-differs-from-bytes-moved"+sfx, fmt.Sprintf("at the end: Stats.Recvd=%d, bytes served by the transport=%d (largest payload %d)", d.recvd, off, maxPayload))
		}
	}
	// received values
	switch s.rclass {
	case "match", "prefix", "overread":
		nExp := len(s.recv)
		if s.rclass == "overread" {
			nExp--
		}
		for i := 0; i < nExp; i++ {
			if i >= len(d.recv.vals) {
				key := fmt.Sprintf("c11:recv:%s:error", c11KindName(s.recv[i]))
				if s.eofData && d.recv.err == io.EOF {
					// the value's bytes were on the wire; the transport handed the last of them over with io.EOF
					key = "c11:Fill:data-with-EOF-dropped"
				}
				fail(key, fmt.Sprintf("receive %d (%s) failed: %v", i, c11KindName(s.recv[i]), d.recv.err))
				break
			}
			if !d.recv.vals[i].equal(sent[i]) {
				key := fmt.Sprintf("c11:recv:%s:mismatch", c11KindName(s.recv[i]))
				detail := fmt.Sprintf("receive %d: sent %s (op %s), got %s", i, sent[i], c11Clip(sendOps[i].String(), 200), d.recv.vals[i])
				if s.recv[i] == c11KLabel && sent[i].kind == c11KLabel {
					if k, dt, ok := c11StaleLabel(sendOps, i, d.recv.vals[i].label); ok {
						key, detail = k, "received: "+dt
					}
				}
				fail(key, detail)
				break
			}
		}
		if s.rclass == "overread" {
			if d.recv.err == nil || d.recv.errAt != nExp {
				fail("c11:recv:overread-no-error", fmt.Sprintf("receive past the end of a closed stream returned err=%v at %d (expected an error at %d)", d.recv.err, d.recv.errAt, nExp))
			}
		}
		if s.rclass != "prefix" && len(d.recv.vals) >= len(sent) && d.recvd != d.send.sent {
			fail("c11:stats:recvd-differs-from-sent"+sfx, fmt.Sprintf("all %d values received: receiver Stats.Recvd=%d, sender Stats.Sent=%d (short by %d; largest payload %d, readBufSize=%d)",
				len(sent), d.recvd, d.send.sent, int64(d.send.sent)-int64(d.recvd), maxPayload, c11ReadBuf))
		}
	case "retyped":
		if d.recv.err != nil {
			key := "c11:recv:retyped:error"
			if s.eofData && d.recv.err == io.EOF {
				key = "c11:Fill:data-with-EOF-dropped"
			}
			fail(key, d.recv.err.Error())
			break
		}
		var got []byte
		for _, v := range d.recv.vals {
			got = append(got, v.encode()...)
		}
		if !bytes.Equal(got, stream) {
			fail("c11:recv:retyped:mismatch", fmt.Sprintf("re-encoded received values differ from the sent stream at %d", c11FirstDiff(got, stream)))
		}
	}
}

// c11StaleLabel recognises a label that arrived with one word of the label that went through
// the shared ot.LabelData scratch buffer before it.  i indexes the value-carrying ops.
func c11StaleLabel(sendOps []c11Op, i int, got ot.Label) (key, detail string, ok bool) {
	if sendOps[i].kind != c11KLabel || sendOps[i].fresh {
		return "", "", false
	}
	prev := -1
	for j := i - 1; j >= 0; j-- {
		if sendOps[j].kind == c11KLabel && !sendOps[j].fresh {
			prev = j
			break
		}
	}
	if prev < 0 {
		return "", "", false
	}
	want, before := sendOps[i].label, sendOps[prev].label
	seq := fmt.Sprintf("labels sent through ONE ot.LabelData: value %d SendLabel(%s), then value %d SendLabel(%s) -> Label(%s)", prev, before, i, want, got)
	switch {
	case got.D1 == want.D1 && got.D0 != want.D0 && got.D0 == before.D0:
		return "c11:label:stale-high-word-from-shared-scratch", seq + " = high word of the earlier label + low word of the sent one", true
	case got.D0 == want.D0 && got.D1 != want.D1 && got.D1 == before.D1:
		return "c11:label:stale-low-word-from-shared-scratch", seq + " = high word of the sent label + low word of the earlier one", true
	}
	return "", "", false
}

// the few ops before op i, for failure messages
func c11OpsAround(ops []c11Op, i int) string {
	t := ""
	lo := i - 4
	if lo < 0 {
		lo = 0
	}
	for j := lo; j < i; j++ {
		t += c11Clip(ops[j].String(), 60) + "; "
	}
	if lo > 0 {
		t = fmt.Sprintf("... %d earlier ops ...; ", lo) + t
	}
	return t
}

func c11KindName(k int) string {
	if k >= c11RawBase {
		return "InPlaceRead"
	}
	return []string{"Byte", "Uint16", "Uint32", "Data", "String", "Label", "InputSizes", "Flush", "Close", "NeedSpace+store"}[k]
}

func c11FirstDiff(a, b []byte) int {
	n := len(a)
	if len(b) < n {
		n = len(b)
	}
	for i := 0; i < n; i++ {
		if a[i] != b[i] {
			return i
		}
	}
	return n
}

func c11Clip(s string, n int) string {
	if len(s) > n {
		return s[:n] + "..."
	}
	return s
}

func runC11(c *Ctx) error {
	c11ProbeSizes()
	type plan struct {
		mode  int
		class string
		n     int
	}
	plans := []plan{
		{0, "small", c.N(250, 4000)},
		{0, "mixed", c.N(8, 600)},
		{0, "boundary", c.N(10, 300)},
		{0, "bigstream", c.N(1, 12)},
		{0, "inplace", c.N(3, 200)},
		{1, "inplace", c.N(1, 60)},
		{1, "small", c.N(50, 1000)},
		{1, "mixed", c.N(4, 150)},
		{1, "boundary", c.N(3, 80)},
		{1, "bigstream", c.N(0, 4)},
	}
	if c.Thorough() {
		plans = append(plans, plan{0, "huge", 8}, plan{1, "huge", 3})
	}
	// payloads around and above the read buffer: every size x {SendData, SendString} x
	// {whole-buffer, fragmenting} over the scripted transport, and some over p2p.Pipe()
	// All of them run the real code under the oracle; in the quick tier only those marked
	// [model] are also correspondence cases (the extracted model needs about 3 s per MiB
	// with the default OCaml GC settings), in the thorough tier all of them are.
	type atSize struct {
		mode, size, kind, frag int
		model                  bool
	}
	var ats []atSize
	sizes := []int{c11ReadBuf - 8, c11ReadBuf, c11ReadBuf + 1, c11ReadBuf + c11WriteBuf, 2*c11ReadBuf + 5, 3*c11ReadBuf + 5}
	for i, sz := range sizes {
		for k, kind := range []int{c11KData, c11KString} {
			frag := 1 + (2*i+k)%6
			ats = append(ats,
				atSize{0, sz, kind, 0, i == 2 && k == 1},                  // whole buffer; model: String readBufSize+1
				atSize{0, sz, kind, frag, (i == 1 || i == 3) && k == i/2}) // fragmenting; model: Data readBufSize, String readBufSize+writeBufSize
		}
	}
	ats = append(ats, atSize{1, c11ReadBuf, c11KString, 0, false}, atSize{1, c11ReadBuf + c11WriteBuf, c11KData, 0, true},
		atSize{1, 2*c11ReadBuf + 5, c11KString, 0, false})
	if c.Thorough() {
		for i := 0; i < 60; i++ {
			sz := sizes[c.rng.Intn(len(sizes))] - 8 + c.rng.Intn(17)
			ats = append(ats, atSize{i % 4 / 3, sz, c11KData + c.rng.Intn(2), c.rng.Intn(8), true})
		}
	}
	plans = append(plans, plan{0, "atsize", len(ats)})
	// doors: the one-goroutine-per-endpoint dialogue of the real callers; the front ends'
	// transports (TCP loopback, net.Pipe: oracle only, the fragmentation is the kernel's);
	// a single processor; a collection at nearly every allocation; long-lived connections
	plans = append(plans, plan{1, "dialogue", c.N(20, 600)}, plan{2, "small", c.N(6, 100)}, plan{2, "mixed", c.N(1, 20)},
		plan{3, "small", c.N(4, 60)}, plan{0, "small@procs1", c.N(10, 200)}, plan{1, "small@procs1", c.N(4, 100)},
		plan{0, "small@gogc1", c.N(6, 200)}, plan{1, "small@gogc1", c.N(3, 100)}, plan{0, "long", c.N(1, 40)})
	sess := 0
	for _, p := range plans {
		// run-time environment doors
		restore := func() {}
		if k := strings.Index(p.class, "@"); k >= 0 {
			switch p.class[k+1:] {
			case "procs1":
				old := runtime.GOMAXPROCS(1)
				restore = func() { runtime.GOMAXPROCS(old) }
			case "gogc1":
				old := debug.SetGCPercent(1)
				restore = func() { debug.SetGCPercent(old) }
			}
			c.Hist("env:" + p.class[k+1:])
			p.class = p.class[:k]
		}
		for i := 0; i < p.n; i++ {
			r := c.rng.Fork()
			var ab, ba *c11Dir
			if p.class == "dialogue" {
				sa, sb, ra, rb := c11DialogueScripts(r, c)
				ab, ba = &c11Dir{script: sa}, &c11Dir{script: sb}
				if !c11RunDialogue(ab, ba, ra, rb) {
					c.Fail("c11:hang", "dialogue session did not finish within the watchdog time",
						c11Replay{Seed: c.Seed, Session: sess, Mode: 1, Script: c11Clip(sa.text(), 1500) + " || " + c11Clip(sb.text(), 1500)})
					return fmt.Errorf("dialogue session %d hung", sess)
				}
			} else if p.class == "atsize" {
				a := ats[i]
				p.mode = a.mode
				ab = &c11Dir{script: c11AtSizeScript(r, c, a.mode, a.size, a.kind, a.frag)}
				ba = &c11Dir{script: c11GenScript(r, c, a.mode, "small")}
			} else {
				ab = &c11Dir{script: c11GenScript(r, c, p.mode, p.class)}
				// the other direction: usually small so that both directions overlap in time
				cls2 := p.class
				if p.class == "bigstream" || p.class == "huge" || r.Intn(3) == 0 {
					cls2 = "small"
				}
				ba = &c11Dir{script: c11GenScript(r, c, p.mode, cls2)}
			}
			ok := true
			if p.class != "dialogue" {
				var errs []error
				ok, errs = c11RunSession(p.mode, ab, ba)
				if !ok && len(errs) > 0 {
					// no loopback networking in this sandbox: the door stays closed, say so
					c.Note("transport mode %d unavailable: %v", p.mode, errs[0])
					c.Hist(fmt.Sprintf("mode:%d:unavailable", p.mode))
					continue
				}
			}
			if !ok {
				c.Fail("c11:hang", "session did not finish within the watchdog time",
					c11Replay{Seed: c.Seed, Session: sess, Mode: p.mode, Script: c11Clip(ab.script.text(), 1500) + " || " + c11Clip(ba.script.text(), 1500)})
				return fmt.Errorf("session %d hung", sess)
			}
			for di, d := range []*c11Dir{ab, ba} {
				name := []string{"A->B", "B->A"}[di]
				c11Judge(c, sess, p.mode, name, d)
				s := d.script
				c.Hist("class:" + s.class)
				c.Hist("recv:" + s.rclass)
				c.Hist("frag:" + s.fclass)
				c.Hist(fmt.Sprintf("mode:%d", p.mode))
				if s.eofData {
					c.Hist("eof:flag-set")
					if d.wire != nil && d.wire.eofWithData > 0 {
						c.Hist("eof:final-bytes-delivered-with-io.EOF")
					}
				}
				nvals := 0
				for _, o := range s.ops {
					c.Hist("op:" + c11KindName(o.kind))
					if o.isValue() {
						nvals++
					}
				}
				c.Eval(fmt.Sprintf("%d|%s", p.mode, s.text()), nvals >= 2 && len(d.recv.vals) >= 1)
				asCase := p.mode <= 1 && (p.class != "atsize" || di == 1 || c.Thorough() || ats[i].model)
				if !asCase {
					c.Hist("atsize:oracle-only")
				}
				if d.send.err == nil && asCase {
					trace, chunks, nbufs := c11BufIDs(d)
					if nbufs > 3 {
						c.Fail("c11:ring:more-than-numBuffers", fmt.Sprintf("%d distinct write buffers seen", nbufs),
							c11Replay{Seed: c.Seed, Session: sess, Dir: name, Mode: p.mode, Script: c11Clip(s.text(), 3000)})
					}
					nreads := 0
					if d.wire != nil {
						nreads = d.wire.nreads
					}
					if p.mode == 1 {
						chunks = nil
					}
					c.Case(s.inputSX(p.mode), L(L(trace...), L(chunks...), L(d.recv.trace...), I(nreads)))
				}
				if sess < 3 && di == 0 {
					c.Sample(map[string]string{"mode": fmt.Sprint(p.mode), "script": c11Clip(s.text(), 600),
						"received": fmt.Sprint(len(d.recv.vals)), "sent_bytes": fmt.Sprint(d.send.sent)})
				}
			}
			sess++
		}
		restore()
	}
	// transport faults (c11fault.go): a Write error / short write at chunk k, a Read error / EOF after p bytes
	c11WriteFaultFamily(c)
	c11ReadFaultFamily(c)
	return nil
}
