package main

// RNG is splitmix64: every random choice of the harness derives from one
// seed so that a disagreement replays exactly.
type RNG struct{ s uint64 }

func NewRNG(seed uint64) *RNG { return &RNG{s: seed*0x9E3779B97F4A7C15 + 0x1234567} }

func (r *RNG) U64() uint64 {
	r.s += 0x9E3779B97F4A7C15
	z := r.s
	z = (z ^ (z >> 30)) * 0xBF58476D1CE4E5B9
	z = (z ^ (z >> 27)) * 0x94D049BB133111EB
	return z ^ (z >> 31)
}
func (r *RNG) Intn(n int) int {
	if n <= 0 {
		return 0
	}
	return int(r.U64() % uint64(n))
}
func (r *RNG) Range(lo, hi int) int { return lo + r.Intn(hi-lo+1) }
func (r *RNG) Bool() bool          { return r.U64()&1 == 1 }
func (r *RNG) Bytes(n int) []byte {
	b := make([]byte, n)
	for i := range b {
		b[i] = byte(r.U64())
	}
	return b
}
func (r *RNG) Fork() *RNG { return NewRNG(r.U64()) }

// Read makes RNG an io.Reader (deterministic "crypto/rand").
func (r *RNG) Read(p []byte) (int, error) {
	for i := range p {
		p[i] = byte(r.U64())
	}
	return len(p), nil
}
