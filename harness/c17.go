package main

// C17 — a circuit value is safe to share between goroutines.
//
// M goroutines run random histories of Garble / Release / Eval / Compute on
// ONE *circuit.Circuit: released buffers are reused by later calls, the first
// calls race on the lazy creation of the scratch pool.  Every call has its own
// deterministic random reader, so what it must return is what the same call
// returns when run alone on a fresh copy of the circuit.
//
// The concurrent part runs in a child process of the same binary ("c17child");
// when the binary was built with -race (props/C17.json "race": true) the
// parent scans the child's stderr for race reports.

import (
	"bytes"
	"crypto/sha256"
	"encoding/json"
	"errors"
	"fmt"
	"math/big"
	"os"
	"os/exec"
	"path/filepath"
	"runtime"
	"strings"
	"sync"
	"time"

	"github.com/markkurossi/mpc/circuit"
	"github.com/markkurossi/mpc/ot"
	"github.com/markkurossi/mpc/sha2pc"
	"github.com/markkurossi/mpc/types"
)

func init() {
	register("c17", runC17)
	register("c17child", runC17Child)
}

// ---------------------------------------------------------------- parent

// the inventory of circuit.Circuit's fields and of the receiver-field writes /
// address-takings / method calls in Garble, Eval, Compute (and the *Circuit
// methods they call) that Circuit/Pool.v was written against
var c17ExpectedInventory = []string{
	"Compute:call:Outputs.Size",
	"Eval:addr:Gates",
	"Garble:addr:Gates",
	"Garble:call:Inputs.Size",
	"field:Gates",
	"field:Inputs",
	"field:NumGates",
	"field:NumWires",
	"field:Outputs",
	"field:Stats",
	"field:garblePool",
	"garbleScratchPool:call:garblePool.CompareAndSwap",
	"garbleScratchPool:call:garblePool.Load",
	"garbleScratchPool:order:New-before-CompareAndSwap",
}

func c17CheckInventory(c *Ctx) {
	repo := os.Getenv("VERIF_REPO")
	if repo == "" {
		repo = "/repo"
	}
	inv, err := c17Inventory(repo)
	if err != nil {
		c.Fail("c17:circuit-shared-state:scan-failed", err.Error(), map[string]interface{}{"repo": repo})
		return
	}
	if rel, rerr := c17ReleaseInventory(repo); rerr == nil {
		inv = append(inv, rel...) // expected: no Release call outside tests anywhere in the module
	}
	exp := map[string]bool{}
	for _, s := range c17ExpectedInventory {
		exp[s] = true
	}
	got := map[string]bool{}
	for _, s := range inv {
		got[s] = true
		c.Eval("inventory/"+s, false)
		if !exp[s] {
			c.Fail("c17:circuit-shared-state:unmodelled:"+s,
				"Garble/Eval/Compute (or a *Circuit method they call) touch state of circuit.Circuit that the model of Circuit/Pool.v does not have: "+s+
					" (the model has one mutable field, garblePool, accessed by atomic Load/CompareAndSwap only; everything else is read-only)",
				map[string]interface{}{"repo": repo, "inventory": inv, "expected": c17ExpectedInventory})
		}
	}
	for _, s := range c17ExpectedInventory {
		if !got[s] {
			c.Note("source inventory: expected item %q no longer present", s)
		}
	}
	c.Hist(fmt.Sprintf("inventory-items:%d", len(inv)))
}

func runC17(c *Ctx) error {
	defer c17CheckInventory(c) // after the dynamic evidence, so that a concrete failing run comes first
	c17Sizing(c)               // sizing of the pooled scratch (c17sizing.go; cases of kind 2)
	childOut := filepath.Join(c.OutDir, "child")
	cmd := exec.Command(os.Args[0], "c17child", "-seed", fmt.Sprint(c.Seed), "-tier", c.Tier, "-out", childOut)
	cmd.Env = append(os.Environ(), "GORACE=halt_on_error=0 exitcode=66")
	var stderr bytes.Buffer
	cmd.Stderr = &stderr
	cmd.Stdout = nil
	err := cmd.Run()
	code := 0
	if err != nil {
		if ee, ok := err.(*exec.ExitError); ok {
			code = ee.ExitCode()
		} else {
			return fmt.Errorf("c17: cannot run the child process: %v", err)
		}
	}
	se := stderr.String()
	races := strings.Count(se, "WARNING: DATA RACE")
	reportRaces := func() {
		if races > 0 {
			// key: the first frame of the first report that lies in the mpc module
			site := "unknown"
			for _, ln := range strings.Split(se, "\n") {
				ln = strings.TrimSpace(ln)
				if strings.HasPrefix(ln, "github.com/markkurossi/mpc/") {
					site = strings.TrimPrefix(ln, "github.com/markkurossi/mpc/")
					site = strings.TrimSuffix(site, "()")
					break
				}
			}
			rep := se
			if len(rep) > 6000 {
				rep = rep[:6000]
			}
			c.Fail("c17:race:"+site, fmt.Sprintf("the race detector reported %d data race(s) in the concurrent run", races),
				map[string]interface{}{"seed": c.Seed, "tier": c.Tier, "report": rep})
		} else if code != 0 {
			tail := se
			if len(tail) > 3000 {
				tail = tail[len(tail)-3000:]
			}
			c.Fail("c17:child-crashed", fmt.Sprintf("the concurrent run exited with code %d", code),
				map[string]interface{}{"seed": c.Seed, "stderr": tail})
		}
	}
	// merge the child's cases, oracle verdicts and statistics
	if b, err := os.ReadFile(filepath.Join(childOut, "cases.txt")); err == nil {
		for _, ln := range strings.Split(string(b), "\n") {
			if strings.Contains(ln, "\t") {
				c.cases.WriteString(ln)
				c.cases.WriteByte('\n')
				c.nCases++
			}
		}
	}
	if b, err := os.ReadFile(filepath.Join(childOut, "oracle.jsonl")); err == nil {
		for _, ln := range strings.Split(string(b), "\n") {
			if strings.TrimSpace(ln) != "" {
				c.oracleF.Write([]byte(ln + "\n"))
				c.nOracle++
			}
		}
	}
	reportRaces() // after the child's own verdicts, so that a concrete failing scenario comes first
	var st struct {
		Evaluations int            `json:"evaluations"`
		Distinct    int            `json:"distinct_nontrivial"`
		Histogram   map[string]int `json:"histogram"`
		Samples     []interface{}  `json:"samples"`
		Notes       []string       `json:"notes"`
	}
	if b, err := os.ReadFile(filepath.Join(childOut, "stats.json")); err == nil && json.Unmarshal(b, &st) == nil {
		c.nEval += st.Evaluations
		c.nontriv += st.Distinct
		for k, v := range st.Histogram {
			c.hist[k] += v
		}
		for _, s := range st.Samples {
			c.Sample(s)
		}
		c.notes = append(c.notes, st.Notes...)
	} else {
		return fmt.Errorf("c17: the child left no statistics (exit code %d): %s", code, lastLines(se, 10))
	}
	c.Note("race detector: %s; child exit code %d; data race reports: %d", raceMode(se), code, races)
	c.Hist(fmt.Sprintf("race-reports:%d", races))
	return nil
}

func raceMode(stderr string) string {
	if strings.Contains(stderr, "c17child: race detector on") {
		return "on"
	}
	return "OFF (binary built without -race)"
}

func lastLines(s string, n int) string {
	ls := strings.Split(strings.TrimSpace(s), "\n")
	if len(ls) > n {
		ls = ls[len(ls)-n:]
	}
	return strings.Join(ls, " | ")
}

// ---------------------------------------------------------------- child

type c17Call struct {
	T, Idx int    // goroutine, position in its program
	Kind   string // garble | release | eval | compute
	H      int    // handle index (per goroutine)
	Seed   uint64 // garble: seed of the call's reader
	X      []bool // eval / compute input; garble: input of the immediate evaluation
	// results of the concurrent run
	R       ot.Label
	Wires   []ot.Wire
	Gates   [][]ot.Label
	Blocks  []ot.Label
	OutL    []ot.Label
	Decoded []int
	Comp    []bool
	Err     string
}

type c17Handle struct {
	g        *circuit.Garbled
	call     *c17Call
	released bool
}

type c17Event struct {
	Kind int // 0 garble done, 1 release begins, 2 eval done
	T    int
	A    uint64 // garble: scratch identity; else handle index
	Seed int
}

// failRd serves [left] reads and then fails: Garble reads 16 bytes for R and
// 16 bytes per input wire, so left = 0 fails at R, left = k >= 1 at input wire k-1.
type failRd struct {
	r    *RNG
	left int
}

func (f *failRd) Read(p []byte) (int, error) {
	if f.left <= 0 {
		return 0, errors.New("entropy source failed")
	}
	f.left--
	return f.r.Read(p)
}

func copyWires(w []ot.Wire) []ot.Wire { return append([]ot.Wire(nil), w...) }
func copyGates(g [][]ot.Label) [][]ot.Label {
	r := make([][]ot.Label, len(g))
	for i, row := range g {
		r[i] = append([]ot.Label(nil), row...)
	}
	return r
}
func sameWires(a, b []ot.Wire) bool {
	if len(a) != len(b) {
		return false
	}
	for i := range a {
		if a[i] != b[i] {
			return false
		}
	}
	return true
}
func sameGates(a, b [][]ot.Label) bool {
	if len(a) != len(b) {
		return false
	}
	for i := range a {
		if len(a[i]) != len(b[i]) {
			return false
		}
		for j := range a[i] {
			if a[i][j] != b[i][j] {
				return false
			}
		}
	}
	return true
}

// evalOn evaluates the garbling (wires, gates) on x and decodes the outputs.
func evalOn(circ *circuit.Circuit, key []byte, gw []ot.Wire, gt [][]ot.Label, x []bool) (outl []ot.Label, dec []int, err error) {
	ni, no := circ.Inputs.Size(), circ.Outputs.Size()
	wires := make([]ot.Label, circ.NumWires)
	for b := 0; b < ni; b++ {
		wires[b] = circuit.LabelForBit(gw[b], x[b])
	}
	if err := circ.Eval(key, wires, gt); err != nil {
		return nil, nil, err
	}
	outl = make([]ot.Label, no)
	copy(outl, wires[circ.NumWires-no:])
	dec = make([]int, no)
	for o := 0; o < no; o++ {
		w := circ.NumWires - no + o
		bit, e := circuit.BitFromLabel(gw[w], wires[w])
		if e != nil {
			dec[o] = -1
		} else if bit {
			dec[o] = 1
		}
	}
	return outl, dec, nil
}

func freshCopy(c *circuit.Circuit) *circuit.Circuit {
	return &circuit.Circuit{NumGates: c.NumGates, NumWires: c.NumWires, Inputs: c.Inputs, Outputs: c.Outputs,
		Gates: c.Gates, Stats: c.Stats}
}

func decBits(dec []int) []bool {
	r := make([]bool, len(dec))
	for i, d := range dec {
		r[i] = d == 1
	}
	return r
}

func randBits(r *RNG, n int) []bool {
	x := make([]bool, n)
	for i := range x {
		x[i] = r.Bool()
	}
	return x
}

func runC17Child(c *Ctx) error {
	if raceEnabled {
		fmt.Fprintln(os.Stderr, "c17child: race detector on")
	}
	phaseT0 := time.Now()
	phase := func(name string) {
		if os.Getenv("C17_TIMING") != "" {
			c.Note("phase %s: %v", name, time.Since(phaseT0).Round(10*time.Millisecond))
		}
		phaseT0 = time.Now()
	}
	for _, ph := range []struct {
		name string
		f    func(*Ctx) error
	}{{"first-use", c17FirstUse}, {"unreleased", c17Unreleased}, {"sha2pc", c17Sha2pc}, {"proto-sessions", c17ProtoSessions},
		{"parsed", c17Parsed}, {"doors", c17Doors}} {
		if err := ph.f(c); err != nil {
			return err
		}
		phase(ph.name)
	}
	for sr := 0; sr < c.N(8, 120); sr++ {
		if err := c17Sessions(c, sr); err != nil {
			return err
		}
	}
	phase("sessions")
	rounds := c.N(60, 1500)
	// further rounds of the same kind under GOMAXPROCS 1 / 2 / 2 x NumCPU and GC pressure
	// (appended, so that the rounds above are what they were)
	envRounds := c.N(16, 200)
	keyLens := []int{16, 24, 32}
	for round := 0; round < rounds+envRounds; round++ {
		r := c.rng.Fork()
		restoreEnv := func() {}
		envName, envT0 := "", time.Now()
		if round >= rounds {
			envName, restoreEnv = c17SetEnv(c, 1+(round-rounds)%4)
		}
		opts := GenOpts{MinIn: 1, MaxIn: 6, MinGates: 1, MaxGates: 30, MaxOut: 4, Overwrite: true}
		if round%7 == 6 {
			opts.MinGates, opts.MaxGates = 150, 400
		}
		circ := GenCircuit(r, opts)
		if round%3 == 1 {
			// a struct-typed argument (main(g Garbler, ...) with type Garbler struct{...}): the
			// argument list carries the flattened members in Compound
			members := circ.Inputs
			total := 0
			for _, m := range members {
				total += int(m.Type.Bits)
			}
			circ.Inputs = circuit.IO{{Name: "s", Type: types.Info{Type: types.TStruct, IsConcrete: true, Bits: types.Size(total)}, Compound: members}}
			c.Hist("inputs:struct-argument")
		}
		key := r.Bytes(keyLens[round%3])
		ni := circ.Inputs.Size()
		M := r.Range(2, 8)
		// programs
		type pop struct {
			kind string
			h    int
			seed uint64
			x    []bool
			fk   int // gfail: the reader fails after fk reads
		}
		progs := make([][]pop, M)
		for t := 0; t < M; t++ {
			n := r.Range(4, 16)
			nh := 0
			for i := 0; i < n; i++ {
				k := r.Intn(100)
				switch {
				case nh > 0 && k < 8:
					// a Garble that fails: at R, at the first input label, in the middle of them
					fk := []int{0, 1, 1 + r.Intn(ni)}[r.Intn(3)]
					progs[t] = append(progs[t], pop{kind: "gfail", seed: r.U64(), fk: fk})
				case nh == 0 || k < 44:
					progs[t] = append(progs[t], pop{kind: "garble", h: nh, seed: r.U64(), x: randBits(r, ni)})
					nh++
				case k < 65:
					progs[t] = append(progs[t], pop{kind: "release", h: r.Intn(nh)}) // may be released already
				case k < 88:
					progs[t] = append(progs[t], pop{kind: "eval", h: r.Intn(nh), x: randBits(r, ni)})
				default:
					progs[t] = append(progs[t], pop{kind: "compute", x: randBits(r, ni)})
				}
			}
		}
		var logMu sync.Mutex
		var events []c17Event
		logEv := func(e c17Event) { logMu.Lock(); events = append(events, e); logMu.Unlock() }
		calls := make([][]*c17Call, M)
		// Scratch identity in the ownership history is the ADDRESS of Garbled.scratch.  An
		// address identifies a scratch only while the scratch cannot be collected: every handle
		// of the round (released or not) therefore stays reachable until the history has been
		// evaluated — otherwise the scratch of an unreleased handle whose goroutine has ended can
		// be freed and a NEW scratch allocated at the same address, which reads as "one scratch,
		// two live handles".  (Handles dropped on purpose are the business of c17Unreleased.)
		keep := make([][]*c17Handle, M)
		var failMu sync.Mutex
		fail := func(key, what string, rep interface{}) { failMu.Lock(); c.Fail(key, what, rep); failMu.Unlock() }
		// ---- prelude, sequential, as "goroutine" M: failing Garble calls (failing reader;
		// every third round also one invalid gate Op at the end of the circuit, restored before
		// anything else runs), then two overlapping garblings that stay unreleased while the
		// goroutines run.
		type preH struct {
			g     *circuit.Garbled
			wires []ot.Wire
			gates [][]ot.Label
		}
		var pre []preH
		preFail := func(site int, rd *failRd) {
			g, err := circ.Garble(rd, key)
			logEv(c17Event{Kind: 3, T: M, A: uint64(site)})
			c.Hist(fmt.Sprintf("failing-garble:site%d", site))
			if err == nil || g != nil {
				fail("c17:garble:no-error", "Garble with a failing entropy source / an invalid gate returned no error",
					map[string]interface{}{"round": round, "site": site})
			}
		}
		preN := 0
		if round%3 == 0 && len(circ.Gates) > 0 {
			// the pool must exist before the circuit is modified (its slab size is computed
			// from the gate kinds when the pool is created)
			g0, err := circ.Garble(&blockLog{r: NewRNG(r.U64())}, key)
			if err != nil {
				return fmt.Errorf("prelude Garble: %v", err)
			}
			logEv(c17Event{Kind: 0, T: M, A: uint64(g0.VerifScratchID()), Seed: preN})
			logEv(c17Event{Kind: 1, T: M, A: uint64(preN)})
			g0.Release()
			preN++
			last := len(circ.Gates) - 1
			saved := circ.Gates[last].Op
			circ.Gates[last].Op = circuit.Operation(200)
			preFail(3, &failRd{r: NewRNG(r.U64()), left: 1 << 30})
			circ.Gates[last].Op = saved
		}
		for _, fk := range []int{0, 1, 1 + r.Intn(ni)}[:r.Range(1, 3)] {
			site := 2
			if fk == 0 {
				site = 0
			}
			preFail(site, &failRd{r: NewRNG(r.U64()), left: fk})
		}
		if round%2 == 0 {
			// error site 1: aes.NewCipher rejects the key (R has been drawn, nothing written yet)
			g, err := circ.Garble(&failRd{r: NewRNG(uint64(round)), left: 1 << 30}, key[:len(key)-1-round%5])
			logEv(c17Event{Kind: 3, T: M, A: 1})
			c.Hist("failing-garble:site1")
			if err == nil || g != nil {
				fail("c17:garble:no-error", "Garble with a key of invalid length returned no error", map[string]interface{}{"round": round, "site": 1})
			}
		}
		for x := 0; x < 2; x++ {
			g, err := circ.Garble(&blockLog{r: NewRNG(r.U64())}, key)
			if err != nil {
				return fmt.Errorf("prelude Garble: %v", err)
			}
			logEv(c17Event{Kind: 0, T: M, A: uint64(g.VerifScratchID()), Seed: preN})
			preN++
			pre = append(pre, preH{g, copyWires(g.Wires), copyGates(g.Gates)})
		}
		preCheck := func(when string) {
			for x, h := range pre {
				if !sameWires(h.g.Wires, h.wires) || !sameGates(h.g.Gates, h.gates) {
					fail("c17:garbling-changed-before-release", "Wires/Gates of an unreleased Garbled differ from what Garble returned ("+when+")",
						map[string]interface{}{"round": round, "goroutine": "prelude", "handle": x})
				}
			}
		}
		preCheck("after the second overlapping Garble")

		start := make(chan struct{})
		var wg sync.WaitGroup
		for t := 0; t < M; t++ {
			wg.Add(1)
			go func(t int) {
				defer wg.Done()
				var hs []*c17Handle
				<-start
				for idx, o := range progs[t] {
					call := &c17Call{T: t, Idx: idx, Kind: o.kind, H: o.h, Seed: o.seed, X: o.x}
					calls[t] = append(calls[t], call)
					func() {
						defer func() {
							if p := recover(); p != nil {
								call.Err = fmt.Sprintf("panic: %v", p)
								fail("c17:"+o.kind+":panic", call.Err, map[string]interface{}{"round": round, "goroutine": t, "op": idx})
							}
						}()
						switch o.kind {
						case "garble":
							rd := &blockLog{r: NewRNG(o.seed)}
							g, err := circ.Garble(rd, key)
							if err != nil {
								call.Err = err.Error()
								return
							}
							logEv(c17Event{Kind: 0, T: t, A: uint64(g.VerifScratchID()), Seed: len(hs)})
							call.R, call.Wires, call.Gates, call.Blocks = g.R, copyWires(g.Wires), copyGates(g.Gates), rd.blocks
							hs = append(hs, &c17Handle{g: g, call: call})
							// evaluate it at once: a complete C01-format observation from the concurrent run
							outl, dec, err := evalOn(circ, key, g.Wires, g.Gates, o.x)
							if err != nil {
								call.Err = "Eval: " + err.Error()
								return
							}
							call.OutL, call.Decoded = outl, dec
							comp, err := circ.Compute(SplitInputs(circ, o.x))
							if err != nil {
								call.Err = "Compute: " + err.Error()
								return
							}
							call.Comp = JoinOutputs(circ, comp)
						case "gfail":
							gkey, left := key, o.fk
							site := 2
							if o.fk == 0 {
								site = 0
							}
							if o.seed%4 == 3 {
								gkey, left, site = key[:len(key)-1], 1<<30, 1 // aes.NewCipher fails
							}
							g, err := circ.Garble(&failRd{r: NewRNG(o.seed), left: left}, gkey)
							logEv(c17Event{Kind: 3, T: t, A: uint64(site)})
							if err == nil || g != nil {
								fail("c17:garble:no-error", "Garble with a failing entropy source returned no error",
									map[string]interface{}{"round": round, "goroutine": t, "op": idx})
							}
						case "release":
							h := hs[o.h]
							if !h.released {
								// a garbling stays valid until it is released
								if !sameWires(h.g.Wires, h.call.Wires) || !sameGates(h.g.Gates, h.call.Gates) {
									fail("c17:garbling-changed-before-release", "Wires/Gates of an unreleased Garbled differ from what Garble returned",
										map[string]interface{}{"round": round, "goroutine": t, "handle": o.h})
								}
								logEv(c17Event{Kind: 1, T: t, A: uint64(o.h)})
							}
							h.g.Release()
							h.released = true
							if h.g.Wires != nil || h.g.Gates != nil || h.g.VerifScratchID() != 0 || h.g.VerifHasPool() {
								fail("c17:release:fields-not-cleared", "Release left Wires/Gates/scratch/pool set",
									map[string]interface{}{"round": round, "goroutine": t, "handle": o.h})
							}
						case "eval":
							h := hs[o.h]
							if h.released {
								return
							}
							if !sameWires(h.g.Wires, h.call.Wires) || !sameGates(h.g.Gates, h.call.Gates) {
								fail("c17:garbling-changed-before-release", "Wires/Gates of an unreleased Garbled differ from what Garble returned",
									map[string]interface{}{"round": round, "goroutine": t, "handle": o.h})
							}
							outl, dec, err := evalOn(circ, key, h.g.Wires, h.g.Gates, o.x)
							if err != nil {
								call.Err = err.Error()
								return
							}
							call.OutL, call.Decoded = outl, dec
							logEv(c17Event{Kind: 2, T: t, A: uint64(o.h)})
						case "compute":
							comp, err := circ.Compute(SplitInputs(circ, o.x))
							if err != nil {
								call.Err = err.Error()
								return
							}
							call.Comp = JoinOutputs(circ, comp)
						}
					}()
				}
				// handles stay referenced until the history of the round has been evaluated
				keep[t] = hs
			}(t)
		}
		close(start)
		wg.Wait()
		preCheck("at the end of the round")

		// ---- each call against the same call run alone on a fresh copy of the circuit
		nGarble, nEval := 0, 0
		emitted := 0
		dims, gs := CircuitSX(circ)
		for t := 0; t < M; t++ {
			var soloH []*circuit.Garbled
			for _, call := range calls[t] {
				c.Eval(fmt.Sprintf("%d/%d/%d/%s", round, t, call.Idx, call.Kind), call.Kind == "garble" || call.Kind == "eval")
				c.Hist("op:" + call.Kind)
				rep := map[string]interface{}{"seed": c.Seed, "round": round, "goroutine": t, "op": call.Idx, "kind": call.Kind,
					"circuit": circuitText(circ), "key": fmt.Sprintf("%x", key), "x": bitsString(call.X), "goroutines": M}
				if call.Err != "" && !strings.HasPrefix(call.Err, "panic") {
					c.Fail("c17:"+call.Kind+":error", call.Err, rep)
					if call.Kind == "garble" {
						soloH = append(soloH, nil)
					}
					continue
				}
				want := TruthEval(circ, call.X)
				switch call.Kind {
				case "garble":
					nGarble++
					solo := freshCopy(circ)
					rd := &blockLog{r: NewRNG(call.Seed)}
					g2, err := solo.Garble(rd, key)
					if err != nil {
						return fmt.Errorf("solo Garble: %v", err)
					}
					soloH = append(soloH, g2)
					if g2.R != call.R || !sameWires(g2.Wires, call.Wires) || !sameGates(g2.Gates, call.Gates) {
						c.Fail("c17:garble:result-differs-from-solo", "Garble in the concurrent run returned another garbling than the same call alone", rep)
					}
					o2, d2, err := evalOn(solo, key, g2.Wires, g2.Gates, call.X)
					if err != nil || !labelsEq(o2, call.OutL) || fmt.Sprint(d2) != fmt.Sprint(call.Decoded) {
						c.Fail("c17:eval:result-differs-from-solo", "Eval of a fresh garbling differs from the same call alone", rep)
					}
					if bitsString(decBits(call.Decoded)) != bitsString(want) || bitsString(call.Comp) != bitsString(want) {
						c.Fail("c17:wrong-result", "garbled evaluation or Compute differs from the truth table", rep)
					}
					// a sample of the calls goes to the C01 model (small cases first)
					if emitted < 3 && len(circ.Gates) <= 60 {
						emitted++
						in := L(Bytes(key), dims, gs, Labels(call.Blocks), Bits(call.X), L())
						dec := make([]SX, len(call.Decoded))
						for i, d := range call.Decoded {
							dec[i] = I(d)
						}
						obs := L(Label(call.R), wiresSX(call.Wires), tablesSX(call.Gates), Labels(call.OutL), L(dec...), Bits(call.Comp))
						c.Case(L(I(0), in), obs)
					}
				case "eval":
					if call.OutL == nil {
						continue // handle was released: the harness does not touch it
					}
					nEval++
					g2 := soloH[call.H]
					if g2 == nil {
						continue
					}
					o2, d2, err := evalOn(circ, key, g2.Wires, g2.Gates, call.X)
					if err != nil || !labelsEq(o2, call.OutL) || fmt.Sprint(d2) != fmt.Sprint(call.Decoded) {
						c.Fail("c17:eval:result-differs-from-solo", "Eval in the concurrent run differs from the same call alone", rep)
					}
					if bitsString(decBits(call.Decoded)) != bitsString(want) {
						c.Fail("c17:wrong-result", "garbled evaluation differs from the truth table", rep)
					}
				case "compute":
					if bitsString(call.Comp) != bitsString(want) {
						c.Fail("c17:compute:wrong-result", "Compute in the concurrent run differs from the truth table", rep)
					}
				}
			}
		}

		// ---- ownership history: scratch ids numbered by first appearance
		ids := map[uint64]int{}
		nextID := 0               // a failed Garble reserves a number for the scratch it may have created
		owner := map[int]string{} // scratch -> live handle
		var evs []SX
		live := 0
		hscr := map[string]int{}
		for _, e := range events {
			switch e.Kind {
			case 0:
				s, ok := ids[e.A]
				if !ok {
					s = nextID
					nextID++
					ids[e.A] = s
				}
				hk := fmt.Sprintf("%d/%d", e.T, e.Seed)
				if prev, busy := owner[s]; busy {
					c.Fail("c17:scratch-shared-by-two-live-handles", fmt.Sprintf("scratch %d handed to handle %s while unreleased handle %s owns it", s, hk, prev),
						map[string]interface{}{"seed": c.Seed, "round": round})
				}
				owner[s] = hk
				hscr[hk] = s
				live++
				evs = append(evs, L(I(0), I(e.T), I(s), I(e.T*64+e.Seed+1)))
			case 1:
				hk := fmt.Sprintf("%d/%d", e.T, e.A)
				delete(owner, hscr[hk])
				live--
				evs = append(evs, L(I(1), I(e.T), I(int(e.A))))
			case 2:
				evs = append(evs, L(I(2), I(e.T), I(int(e.A))))
			case 3:
				nextID++
				if e.T < M {
					c.Hist(fmt.Sprintf("failing-garble-concurrent:site%d", e.A))
				}
				evs = append(evs, L(I(3), I(e.T), I(int(e.A)), I(1)))
			}
		}
		c.Case(L(I(1), I(M+1), L(evs...)), L(I(1), I(nextID), I(live)))
		runtime.KeepAlive(keep)
		runtime.KeepAlive(pre)
		restoreEnv()
		if envName != "" && os.Getenv("C17_TIMING") != "" {
			c.Note("round %d under %s: %v", round, envName, time.Since(envT0).Round(time.Millisecond))
		}
		c.Hist(fmt.Sprintf("goroutines:%d", M))
		c.Hist(fmt.Sprintf("scratch-reuse:%v", len(ids) < nGarble))
		if round == rounds-1 {
			phase("rounds")
		}
		if round < 3 {
			c.Sample(map[string]interface{}{"round": round, "goroutines": M, "garbles": nGarble, "evals": nEval, "scratches": len(ids), "events": len(events)})
		}
	}
	return nil
}

func labelsEq(a, b []ot.Label) bool {
	if len(a) != len(b) {
		return false
	}
	for i := range a {
		if a[i] != b[i] {
			return false
		}
	}
	return true
}

// c17Sessions: several garbled sessions over ONE compiled circuit, every
// session with its own random key and its own garbling; all sessions evaluate
// concurrently in tight loops.  Every result must be the result of the same
// session evaluated alone (on a fresh copy of the circuit).
func c17Sessions(c *Ctx, sr int) error {
	r := c.rng.Fork()
	circ := GenCircuit(r, GenOpts{MinIn: 2, MaxIn: 6, MinGates: 4, MaxGates: 14, MaxOut: 4, Overwrite: true})
	ni := circ.Inputs.Size()
	S := r.Range(8, 16)
	iters := c.N(1500, 6000)
	const nx = 4
	type sess struct {
		key    []byte
		g      *circuit.Garbled
		blocks []ot.Label
		xs     [][]bool
		solo   [][]ot.Label
		sdec   [][]int
		bad    int
		badX   int
		badOut []ot.Label
		badDec []int
		errs   string
	}
	ss := make([]*sess, S)
	keyLens := []int{16, 24, 32}
	gseeds := make([]uint64, S)
	for i := range gseeds {
		gseeds[i] = r.U64()
	}
	mk := func(i int) error {
		s := ss[i]
		rd := &blockLog{r: NewRNG(gseeds[i])}
		g, err := circ.Garble(rd, s.key)
		if err != nil {
			return err
		}
		s.g, s.blocks = g, rd.blocks
		return nil
	}
	for i := range ss {
		ss[i] = &sess{key: r.Bytes(keyLens[(sr+i)%3])}
		for x := 0; x < nx; x++ {
			ss[i].xs = append(ss[i].xs, randBits(r, ni))
		}
	}
	if sr%2 == 0 {
		for i := range ss {
			if err := mk(i); err != nil {
				return err
			}
		}
	} else {
		var wg sync.WaitGroup
		errs := make([]error, S)
		for i := range ss {
			wg.Add(1)
			go func(i int) { defer wg.Done(); errs[i] = mk(i) }(i)
		}
		wg.Wait()
		for _, e := range errs {
			if e != nil {
				return e
			}
		}
	}
	// each session alone, on a fresh copy of the circuit
	for _, s := range ss {
		solo := freshCopy(circ)
		for _, x := range s.xs {
			o, d, err := evalOn(solo, s.key, s.g.Wires, s.g.Gates, x)
			if err != nil {
				return fmt.Errorf("solo Eval: %v", err)
			}
			s.solo = append(s.solo, o)
			s.sdec = append(s.sdec, d)
			if bitsString(decBits(d)) != bitsString(TruthEval(circ, x)) {
				c.Fail("c17:wrong-result", "solo garbled evaluation differs from the truth table",
					map[string]interface{}{"circuit": circuitText(circ), "key": fmt.Sprintf("%x", s.key), "x": bitsString(x)})
			}
		}
	}
	// all sessions at once
	start := make(chan struct{})
	var wg sync.WaitGroup
	for _, s := range ss {
		wg.Add(1)
		go func(s *sess) {
			defer wg.Done()
			defer func() {
				if p := recover(); p != nil {
					s.errs = fmt.Sprintf("panic: %v", p)
				}
			}()
			<-start
			for it := 0; it < iters; it++ {
				xi := it % nx
				o, d, err := evalOn(circ, s.key, s.g.Wires, s.g.Gates, s.xs[xi])
				if err != nil {
					s.errs = err.Error()
					return
				}
				if !labelsEq(o, s.solo[xi]) || fmt.Sprint(d) != fmt.Sprint(s.sdec[xi]) {
					if s.bad == 0 {
						s.badX, s.badOut, s.badDec = xi, o, d
					}
					s.bad++
				}
			}
		}(s)
	}
	close(start)
	wg.Wait()
	dims, gs := CircuitSX(circ)
	emitted := false
	totalBad := 0
	for i, s := range ss {
		c.Eval(fmt.Sprintf("sessions/%d/%d", sr, i), true)
		rep := map[string]interface{}{"seed": c.Seed, "sessions_round": sr, "session": i, "sessions": S, "iterations": iters,
			"circuit": circuitText(circ), "key": fmt.Sprintf("%x", s.key)}
		if s.errs != "" {
			c.Fail("c17:concurrent-eval-shared-circuit:error", s.errs, rep)
			continue
		}
		totalBad += s.bad
		xi, outl, dec := 0, s.solo[0], s.sdec[0]
		if s.bad > 0 {
			xi, outl, dec = s.badX, s.badOut, s.badDec
			rep["x"] = bitsString(s.xs[xi])
			rep["wrong_evaluations"] = s.bad
			rep["got_decoded"] = fmt.Sprint(dec)
			rep["solo_decoded"] = fmt.Sprint(s.sdec[xi])
			c.Fail("c17:concurrent-eval-shared-circuit:different-keys",
				fmt.Sprintf("%d of %d evaluations of session %d (own key, own garbling), run concurrently with %d other sessions on the same *circuit.Circuit, differ from the session evaluated alone",
					s.bad, iters, i, S-1), rep)
		}
		// one session per round (a failing one if there is any) goes to the C01 model
		if !emitted && (s.bad > 0 || i == S-1) {
			emitted = true
			comp, err := circ.Compute(SplitInputs(circ, s.xs[xi]))
			if err != nil {
				return err
			}
			in := L(Bytes(s.key), dims, gs, Labels(s.blocks), Bits(s.xs[xi]), L())
			decs := make([]SX, len(dec))
			for k, d := range dec {
				decs[k] = I(d)
			}
			obs := L(Label(s.g.R), wiresSX(s.g.Wires), tablesSX(s.g.Gates), Labels(outl), L(decs...), Bits(JoinOutputs(circ, comp)))
			c.Case(L(I(0), in), obs)
		}
	}
	c.Hist(fmt.Sprintf("sessions:%d", S))
	c.Hist(fmt.Sprintf("sessions-wrong-evals:%v", totalBad > 0))
	for _, s := range ss {
		s.g.Release()
	}
	return nil
}

// c17Chain builds a long gate chain: gate k combines the previous wire with an
// input wire; all gate kinds occur; the last four wires are the outputs.
func c17Chain(r *RNG, ni, ng int) *circuit.Circuit {
	ops := []circuit.Operation{circuit.AND, circuit.XOR, circuit.OR, circuit.INV, circuit.XNOR, circuit.AND}
	gates := make([]circuit.Gate, ng)
	prev := 0
	for k := 0; k < ng; k++ {
		gates[k] = circuit.Gate{Input0: circuit.Wire(prev), Input1: circuit.Wire(r.Intn(ni)), Output: circuit.Wire(ni + k), Op: ops[r.Intn(len(ops))]}
		prev = ni + k
	}
	c := &circuit.Circuit{NumGates: ng, NumWires: ni + ng, Gates: gates}
	c.Inputs = circuit.IO{{Name: "a", Type: uintInfo(ni)}}
	c.Outputs = circuit.IO{{Name: "r0", Type: uintInfo(4)}}
	for _, g := range gates {
		c.Stats[g.Op]++
	}
	return c
}

// c17FirstUse: G goroutines released from a barrier call Garble on a circuit
// value that has NEVER been garbled (its scratch pool does not exist yet), then
// Eval, decode, compare with Compute, Release.  The circuits are long chains so
// that building the pool takes a while; every trial uses a fresh Circuit value
// (a fresh copy of the chain, or a newly built chain).
func c17FirstUse(c *Ctx) error {
	r := c.rng.Fork()
	trials := c.N(5, 40)
	var base *circuit.Circuit
	for tr := 0; tr < trials; tr++ {
		ni := r.Range(4, 8)
		if base == nil || tr%2 == 0 {
			base = c17Chain(r, ni, r.Range(50000, c.N(120000, 200000)))
		}
		ni = base.Inputs.Size()
		circ := freshCopy(base) // never garbled: its pool pointer is nil
		key := r.Bytes([]int{16, 24, 32}[tr%3])
		G := r.Range(8, 16)
		type out struct {
			panic, err, bad string
		}
		outs := make([]out, G)
		seeds := make([]uint64, G)
		xs := make([][]bool, G)
		wants := make([][]bool, G)
		for i := range seeds {
			seeds[i] = r.U64()
			xs[i] = randBits(r, ni)
			wants[i] = TruthEval(base, xs[i])
		}
		start := make(chan struct{})
		var wg sync.WaitGroup
		for i := 0; i < G; i++ {
			wg.Add(1)
			go func(i int) {
				defer wg.Done()
				defer func() {
					if p := recover(); p != nil {
						outs[i].panic = fmt.Sprint(p)
					}
				}()
				<-start
				g, err := circ.Garble(NewRNG(seeds[i]), key)
				if err != nil {
					outs[i].err = err.Error()
					return
				}
				_, dec, err := evalOn(circ, key, g.Wires, g.Gates, xs[i])
				if err != nil {
					outs[i].err = "Eval: " + err.Error()
					return
				}
				comp, err := circ.Compute(SplitInputs(circ, xs[i]))
				if err != nil {
					outs[i].err = "Compute: " + err.Error()
					return
				}
				if bitsString(decBits(dec)) != bitsString(wants[i]) || bitsString(JoinOutputs(circ, comp)) != bitsString(wants[i]) {
					outs[i].bad = fmt.Sprintf("decoded %s, Compute %s, expected %s", bitsString(decBits(dec)), bitsString(JoinOutputs(circ, comp)), bitsString(wants[i]))
				}
				g.Release()
			}(i)
		}
		close(start)
		wg.Wait()
		nPanic, nErr, nBad := 0, 0, 0
		first := ""
		for i, o := range outs {
			c.Eval(fmt.Sprintf("firstuse/%d/%d", tr, i), true)
			switch {
			case o.panic != "":
				nPanic++
				if first == "" {
					first = o.panic
				}
			case o.err != "":
				nErr++
				if first == "" {
					first = o.err
				}
			case o.bad != "":
				nBad++
				if first == "" {
					first = o.bad
				}
			}
		}
		rep := map[string]interface{}{"seed": c.Seed, "trial": tr, "goroutines": G, "gates": len(base.Gates), "inputs": ni,
			"key": fmt.Sprintf("%x", key), "first": first}
		if nPanic > 0 {
			c.Fail("c17:concurrent-first-garble:panic", fmt.Sprintf("%d of %d goroutines calling Garble concurrently on a never-garbled circuit (%d gates) panicked: %s", nPanic, G, len(base.Gates), first), rep)
		}
		if nErr > 0 {
			c.Fail("c17:concurrent-first-garble:error", fmt.Sprintf("%d of %d goroutines: %s", nErr, G, first), rep)
		}
		if nBad > 0 {
			c.Fail("c17:concurrent-first-garble:wrong-result", fmt.Sprintf("%d of %d goroutines: %s", nBad, G, first), rep)
		}
		c.Hist(fmt.Sprintf("first-use-trial:goroutines=%d", G))
		c.Hist(fmt.Sprintf("first-use-failed:%v", nPanic+nErr+nBad > 0))
	}
	return nil
}

// c17KeepTables garbles and returns ONLY the tables: the *Garbled itself is
// unreachable when the function returns (Release is optional: "skipping it just
// forgoes reuse"; sha2pc.garbleOnce keeps the tables of a garbling of a
// package-global circuit this way).
//
//go:noinline
func c17KeepTables(circ *circuit.Circuit, key []byte, seed uint64) (ot.Label, []ot.Wire, [][]ot.Label, error) {
	g, err := circ.Garble(NewRNG(seed), key)
	if err != nil {
		return ot.Label{}, nil, nil, err
	}
	r, w, t := g.R, g.Wires, g.Gates
	g = nil
	return r, w, t, nil
}

// c17Unreleased: a garbling that is never released stays valid.  Garble, keep
// only g.Wires / g.Gates (no copy), drop the handle, let the garbage collector
// and the finalizer goroutine run, garble the same circuit several more times
// (one goroutine, then several), and only THEN evaluate the retained tables.
func c17Unreleased(c *Ctx) error {
	r := c.rng.Fork()
	for tr := 0; tr < c.N(12, 100); tr++ {
		circ := GenCircuit(r, GenOpts{MinIn: 2, MaxIn: 8, MinGates: 8, MaxGates: 60, MaxOut: 6, Overwrite: true})
		ni := circ.Inputs.Size()
		key := r.Bytes([]int{16, 24, 32}[tr%3])
		seed := r.U64()
		x := randBits(r, ni)
		_, wires, gates, err := c17KeepTables(circ, key, seed)
		if err != nil {
			return err
		}
		// one collection finds the handle unreachable and queues finalizers/cleanups, which
		// then run on their own goroutine; a second collection (every other trial) would move
		// what they put into a sync.Pool to the pool's victim cache, a third would drop it
		for i := 0; i < 1+tr%2; i++ {
			runtime.GC()
			time.Sleep(10 * time.Millisecond)
			for y := 0; y < 100; y++ {
				runtime.Gosched()
			}
		}
		// later garblings of the same circuit, kept alive and unreleased until the end
		var later []*circuit.Garbled
		for i := 0; i < 3; i++ {
			g, err := circ.Garble(NewRNG(r.U64()), key)
			if err != nil {
				return err
			}
			later = append(later, g)
		}
		var mu sync.Mutex
		var wg sync.WaitGroup
		// many goroutines: a scratch put back by another goroutine sits in the per-P part of the
		// sync.Pool and is found by whoever runs on (or steals from) that P
		nG := 2 * runtime.GOMAXPROCS(0)
		if nG < 8 {
			nG = 8
		}
		seeds := make([]uint64, nG)
		for i := range seeds {
			seeds[i] = r.U64()
		}
		for i := 0; i < nG; i++ {
			wg.Add(1)
			go func(i int) {
				defer wg.Done()
				for y := 0; y < 2; y++ {
					g, err := circ.Garble(NewRNG(seeds[i]+uint64(y)), key)
					if err == nil {
						mu.Lock()
						later = append(later, g)
						mu.Unlock()
					}
				}
			}(i)
		}
		wg.Wait()
		// the retained garbling against the same call run alone and against the truth table
		solo := freshCopy(circ)
		g2, err := solo.Garble(NewRNG(seed), key)
		if err != nil {
			return err
		}
		want := TruthEval(circ, x)
		rep := map[string]interface{}{"seed": c.Seed, "trial": tr, "circuit": circuitText(circ), "key": fmt.Sprintf("%x", key), "x": bitsString(x)}
		c.Eval(fmt.Sprintf("unreleased/%d", tr), true)
		bad := ""
		if !sameWires(wires, g2.Wires) || !sameGates(gates, g2.Gates) {
			bad = "the retained Wires/Gates no longer hold the garbling Garble returned"
		}
		_, dec, eerr := evalOn(circ, key, wires, gates, x)
		if eerr != nil {
			bad = "Eval of the retained tables: " + eerr.Error()
		} else if bitsString(decBits(dec)) != bitsString(want) || fmt.Sprint(dec) != fmt.Sprint(decOnly(solo, key, g2, x)) {
			bad = fmt.Sprintf("Eval of the retained tables decodes to %v, expected %s", dec, bitsString(want))
		}
		if bad != "" {
			c.Fail("c17:unreleased-garbling:invalidated-after-gc",
				"a garbling that was never released (only its Wires/Gates were kept, the *Garbled became unreachable, GC ran, "+fmt.Sprint(len(later))+" later Garble calls on the same circuit): "+bad, rep)
		}
		c.Hist(fmt.Sprintf("unreleased-trial-bad:%v", bad != ""))
		runtime.KeepAlive(later)
	}
	return nil
}

func decOnly(circ *circuit.Circuit, key []byte, g *circuit.Garbled, x []bool) []int {
	_, d, _ := evalOn(circ, key, g.Wires, g.Gates, x)
	return d
}

// ---- other users of a shared *Circuit in the module

type c17ShaSession struct {
	a, b   [32]byte
	gState *sha2pc.GarblerSession
	eState *sha2pc.EvaluatorSession
	msg2   sha2pc.Round2Payload
	msg3   sha2pc.Round3Payload
}

func c17ShaNew(r *RNG) (*c17ShaSession, error) {
	s := new(c17ShaSession)
	copy(s.a[:], r.Bytes(32))
	copy(s.b[:], r.Bytes(32))
	msg1, gState, err := sha2pc.GarblerRound1(r.Fork(), sha2pc.CurveP256)
	if err != nil {
		return nil, fmt.Errorf("Round1: %v", err)
	}
	msg2, eState, err := sha2pc.EvaluatorRound2(r.Fork(), sha2pc.CurveP256, msg1, s.b)
	if err != nil {
		return nil, fmt.Errorf("Round2: %v", err)
	}
	s.gState, s.eState, s.msg2 = gState, eState, msg2
	return s, nil
}

func (s *c17ShaSession) check() string {
	got, err := sha2pc.EvaluatorRound4(sha2pc.CurveP256, s.eState, s.msg3)
	if err != nil {
		return "Round4: " + err.Error()
	}
	var x [32]byte
	for i := range x {
		x[i] = s.a[i] ^ s.b[i]
	}
	if want := sha256.Sum256(x[:]); got != want {
		return fmt.Sprintf("digest %x, expected SHA-256(a xor b) = %x", got, want)
	}
	return ""
}

// c17Sha2pc: the sha2pc round API garbles its package-level SHA256(XOR) circuit through
// Circuit.Garble; sessions that overlap in one process must each get a garbling that stays
// valid until the session has consumed it.
func c17Sha2pc(c *Ctx) error {
	r := c.rng.Fork()
	failS := func(mode string, i int, what string) {
		c.Fail("c17:sha2pc:"+mode+"-sessions:wrong-or-error",
			fmt.Sprintf("sha2pc round API, %s sessions on the package-level circuit: session %d: %s", mode, i, what),
			map[string]interface{}{"seed": c.Seed, "mode": mode, "session": i})
	}
	// interleaved, one goroutine: Round 3 of every session first, then Round 4 of every session
	nI := c.N(3, 6)
	var ss []*c17ShaSession
	for i := 0; i < nI; i++ {
		s, err := c17ShaNew(r)
		if err != nil {
			return err
		}
		ss = append(ss, s)
	}
	for i, s := range ss {
		var err error
		s.msg3, err = sha2pc.GarblerRound3(r.Fork(), sha2pc.CurveP256, s.gState, s.a, s.msg2)
		if err != nil {
			failS("interleaved", i, "Round3: "+err.Error())
		}
	}
	for i, s := range ss {
		c.Eval(fmt.Sprintf("sha2pc/interleaved/%d", i), true)
		if bad := s.check(); bad != "" {
			failS("interleaved", i, bad)
		}
	}
	c.Hist(fmt.Sprintf("sha2pc-interleaved-sessions:%d", nI))
	// pipelined: one garbler goroutine feeds evaluator goroutines
	nP := c.N(4, 10)
	ch := make(chan *c17ShaSession)
	type pres struct {
		i   int
		bad string
	}
	var mu sync.Mutex
	var bads []pres
	idx := map[*c17ShaSession]int{}
	var wg sync.WaitGroup
	for e := 0; e < 2; e++ {
		wg.Add(1)
		go func() {
			defer wg.Done()
			for s := range ch {
				bad := s.check()
				mu.Lock()
				bads = append(bads, pres{idx[s], bad})
				mu.Unlock()
			}
		}()
	}
	for i := 0; i < nP; i++ {
		s, err := c17ShaNew(r)
		if err != nil {
			close(ch)
			wg.Wait()
			return err
		}
		s.msg3, err = sha2pc.GarblerRound3(r.Fork(), sha2pc.CurveP256, s.gState, s.a, s.msg2)
		if err != nil {
			failS("pipelined", i, "Round3: "+err.Error())
			continue
		}
		mu.Lock()
		idx[s] = i
		mu.Unlock()
		ch <- s
	}
	close(ch)
	wg.Wait()
	for _, b := range bads {
		c.Eval(fmt.Sprintf("sha2pc/pipelined/%d", b.i), true)
		if b.bad != "" {
			failS("pipelined", b.i, b.bad)
		}
	}
	c.Hist(fmt.Sprintf("sha2pc-pipelined-sessions:%d", nP))
	return nil
}

// c17ProtoSessions: several circuit.Garbler / circuit.Evaluator sessions (over in-memory
// transports) share ONE *circuit.Circuit and run at the same time with different inputs.
func c17ProtoSessions(c *Ctx) error {
	r := c.rng.Fork()
	for round := 0; round < c.N(2, 12); round++ {
		circ := GenCircuit(r, GenOpts{MinIn: 2, MaxIn: 10, MinGates: 5, MaxGates: 60, MaxOut: 6, Overwrite: true, TwoParty: true})
		n0, n1 := int(circ.Inputs[0].Type.Bits), int(circ.Inputs[1].Type.Bits)
		S := r.Range(3, 6)
		type ps struct {
			x, y []bool
			res  *sessionResult
			rng  *RNG
		}
		sess := make([]*ps, S)
		for i := range sess {
			sess[i] = &ps{x: randBits(r, n0), y: randBits(r, n1), rng: r.Fork()}
		}
		var wg sync.WaitGroup
		for _, s := range sess {
			wg.Add(1)
			go func(s *ps) {
				defer wg.Done()
				kind := otKinds[0]
				s.res = runSession(circ, bitsToBig(s.x), bitsToBig(s.y), s.rng.Fork(), kind.mk(s.rng.Fork()), kind.mk(s.rng.Fork()),
					0, s.rng.Fork(), nil, 60*time.Second)
			}(s)
		}
		wg.Wait()
		for i, s := range sess {
			c.Eval(fmt.Sprintf("proto-sessions/%d/%d", round, i), true)
			xy := append(append([]bool(nil), s.x...), s.y...)
			want := JoinBig(circ, TruthEval(circ, xy))
			bad := ""
			switch {
			case s.res.stalled:
				bad = "session stalled"
			case s.res.gErr != nil:
				bad = "garbler error: " + s.res.gErr.Error()
			case s.res.eErr != nil:
				bad = "evaluator error: " + s.res.eErr.Error()
			case bigsString(s.res.gRes) != bigsString(want) || bigsString(s.res.eRes) != bigsString(want):
				bad = "result differs from plain evaluation"
			}
			if bad != "" {
				c.Fail("c17:garbler-evaluator:concurrent-sessions:wrong-or-error",
					fmt.Sprintf("%d circuit.Garbler/Evaluator sessions sharing one *circuit.Circuit: session %d: %s", S, i, bad),
					map[string]interface{}{"seed": c.Seed, "round": round, "circuit": circuitText(circ), "x": bitsString(s.x), "y": bitsString(s.y)})
			}
		}
		c.Hist(fmt.Sprintf("proto-sessions:%d", S))
	}
	return nil
}

var _ = big.NewInt

// c17ChainOps: a chain like c17Chain with the gate kinds drawn from [ops].
func c17ChainOps(r *RNG, ni, ng int, ops []circuit.Operation) *circuit.Circuit {
	gates := make([]circuit.Gate, ng)
	prev := 0
	for k := 0; k < ng; k++ {
		gates[k] = circuit.Gate{Input0: circuit.Wire(prev), Input1: circuit.Wire(k % ni), Output: circuit.Wire(ni + k), Op: ops[r.Intn(len(ops))]}
		prev = ni + k
	}
	c := &circuit.Circuit{NumGates: ng, NumWires: ni + ng, Gates: gates}
	c.Inputs = circuit.IO{{Name: "a", Type: uintInfo(ni)}}
	c.Outputs = circuit.IO{{Name: "r0", Type: uintInfo(4)}}
	for _, g := range gates {
		c.Stats[g.Op]++
	}
	return c
}

// c17Parsed: circuits obtained THROUGH THE PARSERS (Marshal/MarshalBristol, then
// ParseMPCLC/ParseBristol/Parse), in pairs with equal NumWires/NumGates and different gate
// mixes (a garbling of the heavy one needs far more table rows than one of the light one),
// parsed in both orders, garbled and evaluated sequentially (Release in between, so that
// buffers are reused) and concurrently.  What a circuit value's Garble does must not depend
// on what else was parsed in the process.
func c17Parsed(c *Ctx) error {
	r := c.rng.Fork()
	dir, err := os.MkdirTemp("", "c17parsed")
	if err != nil {
		return err
	}
	defer os.RemoveAll(dir)
	for tr := 0; tr < c.N(6, 40); tr++ {
		ni := r.Range(4, 8)
		ng := r.Range(40, 400)
		format := tr % 3 // 0 ParseMPCLC, 1 ParseBristol, 2 Parse(file)
		lightOps := []circuit.Operation{circuit.XOR, circuit.XNOR}
		heavyOps := []circuit.Operation{circuit.OR, circuit.AND, circuit.OR}
		if format != 0 {
			lightOps = []circuit.Operation{circuit.XOR}
			heavyOps = []circuit.Operation{circuit.AND}
		}
		src := []*circuit.Circuit{c17ChainOps(r, ni, ng, lightOps), c17ChainOps(r, ni, ng, heavyOps)}
		names := []string{"light", "heavy"}
		if tr%2 == 1 {
			src[0], src[1] = src[1], src[0]
			names[0], names[1] = names[1], names[0]
		}
		parse := func(x int) (*circuit.Circuit, error) {
			var b bytes.Buffer
			switch format {
			case 0:
				if err := src[x].Marshal(&b); err != nil {
					return nil, err
				}
				return circuit.ParseMPCLC(bytes.NewReader(b.Bytes()))
			case 1:
				if err := src[x].MarshalBristol(&b); err != nil {
					return nil, err
				}
				return circuit.ParseBristol(bytes.NewReader(b.Bytes()))
			default:
				if err := src[x].Marshal(&b); err != nil {
					return nil, err
				}
				fn := filepath.Join(dir, fmt.Sprintf("t%d_%d.mpclc", tr, x))
				if err := os.WriteFile(fn, b.Bytes(), 0o644); err != nil {
					return nil, err
				}
				return circuit.Parse(fn)
			}
		}
		var circs []*circuit.Circuit
		for x := 0; x < 2; x++ {
			pc, err := parse(x)
			if err != nil {
				return fmt.Errorf("c17Parsed: format %d: %v", format, err)
			}
			circs = append(circs, pc)
		}
		key := r.Bytes([]int{16, 24, 32}[tr%3])
		// one garble-evaluate-release cycle; returns what went wrong
		cycle := func(pc *circuit.Circuit, seed uint64, x []bool) (bad string) {
			defer func() {
				if p := recover(); p != nil {
					bad = fmt.Sprintf("panic: %v", p)
				}
			}()
			g, err := pc.Garble(NewRNG(seed), key)
			if err != nil {
				return "Garble: " + err.Error()
			}
			_, dec, err := evalOn(pc, key, g.Wires, g.Gates, x)
			if err != nil {
				return "Eval: " + err.Error()
			}
			comp, err := pc.Compute(SplitInputs(pc, x))
			if err != nil {
				return "Compute: " + err.Error()
			}
			want := TruthEval(pc, x)
			if bitsString(decBits(dec)) != bitsString(want) || bitsString(JoinOutputs(pc, comp)) != bitsString(want) {
				return fmt.Sprintf("decoded %s, Compute %s, expected %s", bitsString(decBits(dec)), bitsString(JoinOutputs(pc, comp)), bitsString(want))
			}
			g.Release()
			return ""
		}
		report := func(phase string, x int, bad string) {
			if bad == "" {
				return
			}
			c.Fail("c17:parsed-circuits:same-shape-different-mix:panic-or-wrong",
				fmt.Sprintf("two parsed circuits with the same NumWires=%d / NumGates=%d and different gate mixes (%s parsed first, then %s; parser %s): %s use of the %s one: %s",
					ni+ng, ng, names[0], names[1], []string{"ParseMPCLC", "ParseBristol", "Parse(file)"}[format], phase, names[x], bad),
				map[string]interface{}{"seed": c.Seed, "trial": tr, "format": format, "order": names, "gates": ng, "inputs": ni})
		}
		for rep := 0; rep < 2; rep++ {
			for x := 0; x < 2; x++ {
				c.Eval(fmt.Sprintf("parsed/%d/%d/%d", tr, rep, x), true)
				report("sequential", x, cycle(circs[x], r.U64(), randBits(r, ni)))
			}
		}
		var wg sync.WaitGroup
		bads := make([]string, 8)
		seeds := make([]uint64, 8)
		xs := make([][]bool, 8)
		for i := range seeds {
			seeds[i], xs[i] = r.U64(), randBits(r, ni)
		}
		for i := 0; i < 8; i++ {
			wg.Add(1)
			go func(i int) {
				defer wg.Done()
				bads[i] = cycle(circs[i%2], seeds[i], xs[i])
			}(i)
		}
		wg.Wait()
		for i, b := range bads {
			c.Eval(fmt.Sprintf("parsed/%d/conc/%d", tr, i), true)
			report("concurrent", i%2, b)
		}
		c.Hist("parsed-pair:" + []string{"ParseMPCLC", "ParseBristol", "Parse(file)"}[format] + ":" + names[0] + "-first")
	}
	return nil
}
