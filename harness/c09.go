package main

// C09 — compiler options and targets never change a program's meaning.
//
// (a) Random gate graphs are built through the real circuits.Compiler API and
//     run through ConstPropagate, ShortCircuitXORZero, Prune and Compile for
//     {prune on, off} x {Yao, GMW}.  The graph is snapshotted before and after
//     every pass; the model (coq/theories/Circuit/Passes.v via run_c09) must
//     reproduce every snapshot and the flat circuit exactly.
// (b) MPCL programs are compiled under {prune} x {threshold 0, 8, 21, 64} x
//     {Yao, GMW}.
// Oracle (implementation only): all configurations of one graph / program
// compute the same outputs under Circuit.Compute (graphs: also equal to the
// harness's own evaluation of the builder recipe).

import (
	"fmt"
	"math/big"
	"math/bits"
	"os"
	"path/filepath"
	"sort"
	"strings"
	"time"

	"github.com/markkurossi/mpc/circuit"
	"github.com/markkurossi/mpc/compiler"
	"github.com/markkurossi/mpc/compiler/circuits"
	"github.com/markkurossi/mpc/compiler/utils"
)

func init() { register("c09", runC09) }

// ---------------------------------------------------------------- recipes

const (
	c09Raw  = iota // cc.AddGate(cc.Calloc.BinaryGate(op, a, b, o))
	c09RawI        // cc.AddGate(cc.Calloc.INVGate(a, o))
	c09INV         // cc.INV(a, o)
	c09OR          // cc.OR(a, b, o)
	c09ID          // cc.ID(a, o)
	c09Zero        // cc.ZeroWire()
	c09One         // cc.OneWire()
)

type c09Step struct {
	Kind int `json:"k"`
	Op   int `json:"op"`
	A    int `json:"a"`
	B    int `json:"b"`
}

type c09Out struct {
	Idx    int  `json:"i"`
	Direct bool `json:"d"` // flag the wire itself instead of an ID gate
}

type c09Recipe struct {
	NI    int       `json:"ni"`
	Steps []c09Step `json:"steps"`
	Outs  []c09Out  `json:"outs"`
}

func c09GenRecipe(r *RNG, maxSteps int) *c09Recipe {
	rc := &c09Recipe{NI: r.Range(1, 7)}
	ns := r.Range(1, maxSteps)
	// per avail wire: number of consumers, whether it is a plain gate output
	var cons []int
	var gateOut []bool
	for i := 0; i < rc.NI; i++ {
		cons = append(cons, 0)
		gateOut = append(gateOut, false)
	}
	zeroIdx, oneIdx := -1, -1
	addAvail := func(isGate bool) int {
		cons = append(cons, 0)
		gateOut = append(gateOut, isGate)
		return len(cons) - 1
	}
	if r.Intn(10) < 7 {
		// as CompileCircuit: DefineConstants(cc.ZeroWire(), cc.OneWire())
		rc.Steps = append(rc.Steps, c09Step{Kind: c09Zero})
		zeroIdx = addAvail(false)
		rc.Steps = append(rc.Steps, c09Step{Kind: c09One})
		oneIdx = addAvail(false)
	}
	constBias := r.Intn(4) // 0: rarely constants .. 3: often
	pick := func() int {
		if (zeroIdx >= 0 || oneIdx >= 0) && r.Intn(12) < constBias*2 {
			if zeroIdx >= 0 && (oneIdx < 0 || r.Bool()) {
				return zeroIdx
			}
			return oneIdx
		}
		n := len(cons)
		if r.Intn(3) == 0 {
			return r.Intn(n)
		}
		lo := n - 8
		if lo < 0 {
			lo = 0
		}
		return lo + r.Intn(n-lo)
	}
	ops := []circuit.Operation{circuit.XOR, circuit.XNOR, circuit.AND, circuit.OR}
	for k := 0; k < ns; k++ {
		p := r.Intn(100)
		var st c09Step
		switch {
		case p < 52:
			st = c09Step{Kind: c09Raw, Op: int(ops[r.Intn(4)]), A: pick(), B: pick()}
			if r.Intn(12) == 0 {
				st.B = st.A
			}
		case p < 62:
			st = c09Step{Kind: c09RawI, Op: int(circuit.INV), A: pick()}
		case p < 70:
			st = c09Step{Kind: c09INV, A: pick()}
		case p < 77:
			st = c09Step{Kind: c09OR, A: pick(), B: pick()}
		case p < 86:
			st = c09Step{Kind: c09ID, A: pick()}
		case p < 93:
			if zeroIdx >= 0 {
				k--
				if r.Intn(4) == 0 {
					k++
				}
				continue
			}
			st = c09Step{Kind: c09Zero}
		default:
			if oneIdx >= 0 {
				k--
				if r.Intn(4) == 0 {
					k++
				}
				continue
			}
			st = c09Step{Kind: c09One}
		}
		rc.Steps = append(rc.Steps, st)
		switch st.Kind {
		case c09Raw, c09OR:
			cons[st.A]++
			cons[st.B]++
			addAvail(true)
		case c09RawI, c09INV, c09ID:
			cons[st.A]++
			addAvail(true)
		case c09Zero:
			zeroIdx = addAvail(false)
		case c09One:
			oneIdx = addAvail(false)
		}
	}
	no := r.Range(1, 4)
	taken := map[int]bool{}
	for o := 0; o < no; o++ {
		direct := r.Intn(10) < 4
		if direct {
			var sinks []int
			for i := range cons {
				if gateOut[i] && cons[i] == 0 && !taken[i] {
					sinks = append(sinks, i)
				}
			}
			if len(sinks) > 0 {
				i := sinks[r.Intn(len(sinks))]
				taken[i] = true
				rc.Outs = append(rc.Outs, c09Out{Idx: i, Direct: true})
				continue
			}
		}
		// through an ID gate, as the Ret instruction does
		for try := 0; ; try++ {
			i := pick()
			if try > 20 {
				i = r.Intn(rc.NI)
			}
			if taken[i] {
				continue
			}
			cons[i]++
			rc.Outs = append(rc.Outs, c09Out{Idx: i})
			break
		}
	}
	return rc
}

// c09DirectedRecipes: in every run, gates with BOTH inputs on one wire w where
// w is the output of a gate that ConstPropagate short-circuits (XOR/OR with
// zero, AND with one, either operand order, and cc.ID), followed by a
// dependent gate; outputs behind ID gates.  Gate.ShortCircuit must move both
// inputs of the consumer (it is listed twice in w's output gates).
func c09DirectedRecipes() []*c09Recipe {
	type byp struct {
		kind, op, a, b int
	}
	const in0, in1, zero, one = 0, 1, 2, 3
	bypasses := []byp{
		{c09Raw, int(circuit.XOR), in0, zero}, {c09Raw, int(circuit.XOR), zero, in0},
		{c09Raw, int(circuit.AND), in0, one}, {c09Raw, int(circuit.AND), one, in0},
		{c09Raw, int(circuit.OR), in0, zero}, {c09Raw, int(circuit.OR), zero, in0},
		{c09ID, 0, in0, 0},
	}
	var res []*c09Recipe
	for _, bp := range bypasses {
		for _, op := range []circuit.Operation{circuit.XOR, circuit.XNOR, circuit.AND, circuit.OR} {
			rc := &c09Recipe{NI: 2}
			rc.Steps = append(rc.Steps, c09Step{Kind: c09Zero}, c09Step{Kind: c09One})
			rc.Steps = append(rc.Steps, c09Step{Kind: bp.kind, Op: bp.op, A: bp.a, B: bp.b}) // w = 4
			rc.Steps = append(rc.Steps, c09Step{Kind: c09Raw, Op: int(op), A: 4, B: 4})          // c = op(w, w) = 5
			rc.Steps = append(rc.Steps, c09Step{Kind: c09Raw, Op: int(circuit.XOR), A: 5, B: in1}) // d = 6
			rc.Steps = append(rc.Steps, c09Step{Kind: c09RawI, Op: int(circuit.INV), A: 5})       // e = 7
			rc.Outs = []c09Out{{Idx: 6}, {Idx: 7}, {Idx: 5}}
			res = append(res, rc)
		}
	}
	return res
}

// c09GenRestricted: recipes on which cc.ZeroWire()/cc.OneWire() are NOT both
// created while the graph is built (they are lazy in compiler.go).
// mode 0: neither constant (no wire carries a value: the hypothesis
// [unvalued] of C09_options_no_constants); mode 1: only the zero wire;
// mode 2: only the one wire.  Only raw gates and cc.OR (which needs no
// constant), outputs are flagged sink wires (an ID gate would create the zero
// wire).  With one constant ConstPropagate meets wires of the other value and
// calls cc.OneWire()/cc.ZeroWire() itself: the constant gate is appended to
// cc.Gates during the pass.
func c09GenRestricted(r *RNG, maxSteps, mode int) *c09Recipe {
	rc := &c09Recipe{NI: r.Range(1, 5)}
	n := rc.NI
	constIdx := -1
	switch mode {
	case 1:
		rc.Steps = append(rc.Steps, c09Step{Kind: c09Zero})
		constIdx = n
		n++
	case 2:
		rc.Steps = append(rc.Steps, c09Step{Kind: c09One})
		constIdx = n
		n++
	}
	cons := make([]int, n)
	gateOut := make([]bool, n)
	pick := func() int {
		if constIdx >= 0 && r.Intn(3) == 0 {
			return constIdx
		}
		lo := len(cons) - 6
		if lo < 0 || r.Intn(3) == 0 {
			lo = 0
		}
		return lo + r.Intn(len(cons)-lo)
	}
	ops := []circuit.Operation{circuit.XOR, circuit.XNOR, circuit.AND, circuit.OR}
	ns := r.Range(2, maxSteps)
	for k := 0; k < ns; k++ {
		var st c09Step
		switch p := r.Intn(10); {
		case p < 6:
			st = c09Step{Kind: c09Raw, Op: int(ops[r.Intn(4)]), A: pick(), B: pick()}
			if r.Intn(10) == 0 {
				st.B = st.A
			}
		case p < 8:
			st = c09Step{Kind: c09RawI, Op: int(circuit.INV), A: pick()}
		default:
			st = c09Step{Kind: c09OR, A: pick(), B: pick()}
		}
		rc.Steps = append(rc.Steps, st)
		cons[st.A]++
		if st.Kind != c09RawI {
			cons[st.B]++
		}
		cons = append(cons, 0)
		gateOut = append(gateOut, true)
	}
	var sinks []int
	for i := range cons {
		if gateOut[i] && cons[i] == 0 {
			sinks = append(sinks, i)
		}
	}
	// the last gate's output is always a sink
	no := r.Range(1, 3)
	for o := 0; o < no && len(sinks) > 0; o++ {
		k := r.Intn(len(sinks))
		rc.Outs = append(rc.Outs, c09Out{Idx: sinks[k], Direct: true})
		sinks = append(sinks[:k], sinks[k+1:]...)
	}
	return rc
}

// c09LazyRecipes: in every run, (a) graphs without any constant wire, (b)
// graphs with exactly one constant on which ConstPropagate creates the other
// one lazily (directed: a wire of the missing value is produced from the
// existing constant and then consumed), (c) random graphs of both kinds.
func c09LazyRecipes(r *RNG, random int) []*c09Recipe {
	var res []*c09Recipe
	raw := func(op circuit.Operation, a, b int) c09Step { return c09Step{Kind: c09Raw, Op: int(op), A: a, B: b} }
	inv := func(a int) c09Step { return c09Step{Kind: c09RawI, Op: int(circuit.INV), A: a} }
	// (a) the example of PassesLazyExamples.v (ex0_graph) and a chain
	res = append(res, &c09Recipe{NI: 3, Steps: []c09Step{raw(circuit.AND, 0, 1), raw(circuit.XOR, 3, 2), inv(1), raw(circuit.OR, 3, 0)},
		Outs: []c09Out{{Idx: 4, Direct: true}, {Idx: 6, Direct: true}}})
	res = append(res, &c09Recipe{NI: 2, Steps: []c09Step{raw(circuit.XOR, 0, 1), raw(circuit.AND, 2, 2), {Kind: c09OR, A: 3, B: 0}, inv(4)},
		Outs: []c09Out{{Idx: 5, Direct: true}}})
	// (b) zero only: idx 2 = zero; a One-valued wire is made from it and consumed
	const in0, in1, k = 0, 1, 2
	for _, mk := range []c09Step{inv(k), raw(circuit.XNOR, k, k)} {
		for _, use := range []circuit.Operation{circuit.AND, circuit.XOR, circuit.OR, circuit.XNOR} {
			rc := &c09Recipe{NI: 2}
			rc.Steps = append(rc.Steps, c09Step{Kind: c09Zero}, mk) // w = 3 carries One after its iteration
			rc.Steps = append(rc.Steps, raw(use, 3, in1))             // 4: g.A = cc.OneWire() inside ConstPropagate
			rc.Steps = append(rc.Steps, raw(circuit.XOR, 4, in0))     // 5
			rc.Steps = append(rc.Steps, raw(circuit.AND, in1, 3))     // 6: second consumer, B side
			rc.Steps = append(rc.Steps, raw(circuit.OR, 5, 6))        // 7
			rc.Outs = []c09Out{{Idx: 7, Direct: true}}
			res = append(res, rc)
		}
	}
	// one only: idx 2 = one; a Zero-valued wire is made from it and consumed
	for _, mk := range []c09Step{inv(k), raw(circuit.XOR, k, k)} {
		for _, use := range []circuit.Operation{circuit.AND, circuit.XOR, circuit.OR, circuit.XNOR} {
			rc := &c09Recipe{NI: 2}
			rc.Steps = append(rc.Steps, c09Step{Kind: c09One}, mk) // w = 3 carries Zero
			rc.Steps = append(rc.Steps, raw(use, in1, 3))           // 4: g.B = cc.ZeroWire() inside ConstPropagate
			rc.Steps = append(rc.Steps, raw(circuit.XOR, 4, in0))   // 5
			rc.Steps = append(rc.Steps, raw(circuit.OR, 3, in1))    // 6
			rc.Steps = append(rc.Steps, raw(circuit.AND, 5, 6))     // 7
			rc.Outs = []c09Out{{Idx: 7, Direct: true}}
			res = append(res, rc)
		}
	}
	// (c) random
	for i := 0; i < random; i++ {
		res = append(res, c09GenRestricted(r.Fork(), 6+4*(i%5), i%3))
	}
	return res
}

// c09EvalRecipe is the harness's own meaning of a recipe.
func c09EvalRecipe(rc *c09Recipe, x []bool) []bool {
	v := append([]bool(nil), x...)
	for _, st := range rc.Steps {
		switch st.Kind {
		case c09Raw:
			a, b := v[st.A], v[st.B]
			var o bool
			switch circuit.Operation(st.Op) {
			case circuit.XOR:
				o = a != b
			case circuit.XNOR:
				o = a == b
			case circuit.AND:
				o = a && b
			case circuit.OR:
				o = a || b
			}
			v = append(v, o)
		case c09RawI, c09INV:
			v = append(v, !v[st.A])
		case c09OR:
			v = append(v, v[st.A] || v[st.B])
		case c09ID:
			v = append(v, v[st.A])
		case c09Zero:
			v = append(v, false)
		case c09One:
			v = append(v, true)
		}
	}
	var res []bool
	for _, o := range rc.Outs {
		res = append(res, v[o.Idx])
	}
	return res
}

type c09Built struct {
	cc       *circuits.Compiler
	zeroMade bool
	oneMade  bool
}

func c09Build(rc *c09Recipe, params *utils.Params) (*c09Built, error) {
	calloc := circuits.NewAllocator()
	var avail []*circuits.Wire
	for i := 0; i < rc.NI; i++ {
		avail = append(avail, calloc.Wire())
	}
	inputs := circuit.IO{{Name: "x", Type: uintInfo(rc.NI)}}
	outputs := circuit.IO{{Name: "r", Type: uintInfo(len(rc.Outs))}}
	cc, err := circuits.NewCompiler(params, calloc, inputs, outputs,
		append([]*circuits.Wire(nil), avail...), nil)
	if err != nil {
		return nil, err
	}
	b := &c09Built{cc: cc}
	for _, st := range rc.Steps {
		switch st.Kind {
		case c09Raw:
			o := calloc.Wire()
			cc.AddGate(calloc.BinaryGate(circuit.Operation(st.Op), avail[st.A], avail[st.B], o))
			avail = append(avail, o)
		case c09RawI:
			o := calloc.Wire()
			cc.AddGate(calloc.INVGate(avail[st.A], o))
			avail = append(avail, o)
		case c09INV:
			o := calloc.Wire()
			cc.INV(avail[st.A], o)
			b.oneMade = true
			avail = append(avail, o)
		case c09OR:
			o := calloc.Wire()
			cc.OR(avail[st.A], avail[st.B], o)
			avail = append(avail, o)
		case c09ID:
			o := calloc.Wire()
			cc.ID(avail[st.A], o)
			b.zeroMade = true
			avail = append(avail, o)
		case c09Zero:
			avail = append(avail, cc.ZeroWire())
			b.zeroMade = true
		case c09One:
			avail = append(avail, cc.OneWire())
			b.oneMade = true
		}
	}
	for _, o := range rc.Outs {
		if o.Direct {
			cc.OutputWires = append(cc.OutputWires, avail[o.Idx])
		} else {
			w := calloc.Wire()
			cc.ID(avail[o.Idx], w)
			b.zeroMade = true
			cc.OutputWires = append(cc.OutputWires, w)
		}
	}
	for _, o := range cc.OutputWires {
		o.SetOutput(true)
	}
	return b, nil
}

// ---------------------------------------------------------------- snapshots

// c09Num numbers wires and gates (pointers) canonically: input wires first,
// then in the order a walk over cc.Gates (A, B, O) meets them; pointers first
// seen at a later snapshot continue the numbering.
type c09Num struct {
	wid   map[*circuits.Wire]int
	wires []*circuits.Wire
	gid   map[*circuits.Gate]int
	gates []*circuits.Gate
}

func newC09Num() *c09Num {
	return &c09Num{wid: map[*circuits.Wire]int{}, gid: map[*circuits.Gate]int{}}
}

func (n *c09Num) wire(w *circuits.Wire) int {
	if id, ok := n.wid[w]; ok {
		return id
	}
	id := len(n.wires)
	n.wid[w] = id
	n.wires = append(n.wires, w)
	return id
}

func (n *c09Num) gate(g *circuits.Gate) int {
	if id, ok := n.gid[g]; ok {
		return id
	}
	id := len(n.gates)
	n.gid[g] = id
	n.gates = append(n.gates, g)
	return id
}

func (n *c09Num) walk(cc *circuits.Compiler) {
	for _, g := range cc.Gates {
		n.gate(g)
		n.wire(g.A)
		if g.B != nil {
			n.wire(g.B)
		}
		n.wire(g.O)
	}
}

// snapshot renders the canonical graph: (wires) (gates) (order).
func (n *c09Num) snapshot(cc *circuits.Compiler) (SX, SX, SX, error) {
	n.walk(cc)
	var err error
	gref := func(g *circuits.Gate) SX {
		id, ok := n.gid[g]
		if !ok {
			err = fmt.Errorf("gate %p referenced from a wire is not in cc.Gates of any snapshot", g)
			return I(-2)
		}
		return I(id)
	}
	ws := make([]SX, len(n.wires))
	for i, w := range n.wires {
		inp := I(-1)
		if g := w.Input(); g != nil {
			inp = gref(g)
		}
		var outs []SX
		w.ForEachOutput(func(g *circuits.Gate) { outs = append(outs, gref(g)) })
		ws[i] = L(I(int(w.Value())), Bool(w.Output()), I(int(w.NumOutputs())), inp, L(outs...))
	}
	gs := make([]SX, len(n.gates))
	for i, g := range n.gates {
		b := I(-1)
		if g.B != nil {
			b = I(n.wire(g.B))
		}
		gs[i] = L(I(int(g.Op)), I(n.wire(g.A)), b, I(n.wire(g.O)), Bool(g.Dead))
	}
	order := make([]SX, len(cc.Gates))
	for i, g := range cc.Gates {
		order[i] = I(n.gid[g])
	}
	return L(ws...), L(gs...), L(order...), err
}

func c09PanicCode(msg string) int {
	switch {
	case strings.Contains(msg, "wire outputs overflow"):
		return 1
	case strings.Contains(msg, "wire input gate already set"):
		return 2
	case strings.Contains(msg, "is not input for gate"):
		return 3
	case strings.Contains(msg, "Output already assigned"):
		return 4
	}
	return 99
}

func c09Try(f func()) (msg string) {
	defer func() {
		if r := recover(); r != nil {
			msg = fmt.Sprint(r)
		}
	}()
	f()
	return ""
}

func c09CircuitSX(c *circuit.Circuit) (SX, bool) {
	ok := true
	gs := make([]SX, len(c.Gates))
	for i, g := range c.Gates {
		if uint32(g.Input0) == 0xffffffff || uint32(g.Input1) == 0xffffffff || uint32(g.Output) == 0xffffffff {
			ok = false
		}
		gs[i] = L(I(int(g.Op)), I(int(g.Input0)), I(int(g.Input1)), I(int(g.Output)))
	}
	return L(I(c.NumWires), I(c.Inputs.Size()), I(c.Outputs.Size()), L(gs...)), ok
}

type c09GraphReplay struct {
	Seed   uint64     `json:"seed"`
	Case   int        `json:"case"`
	Prune  bool       `json:"prune"`
	Target string     `json:"target"`
	Recipe *c09Recipe `json:"recipe"`
	X      string     `json:"x,omitempty"`
	Got    string     `json:"got,omitempty"`
	Want   string     `json:"want,omitempty"`
	Panic  string     `json:"panic,omitempty"`
}

// c09CheckWfg checks, on the real graph as built, the hypotheses of the
// theorems (PassesProof.v, [wfg]): gates in dependency order, one producer
// per wire, output wires not consumed, input wires not produced, exact
// output-gate lists and counters.  Returns "" when they hold.
func c09CheckWfg(cc *circuits.Compiler) string {
	produced := map[*circuits.Wire]*circuits.Gate{}
	isInput := map[*circuits.Wire]bool{}
	for _, w := range cc.InputWires {
		if isInput[w] {
			return "duplicate input wire"
		}
		isInput[w] = true
		if w.Output() {
			return "input wire flagged output"
		}
		if w.Input() != nil {
			return "input wire has an input gate"
		}
	}
	isOutput := map[*circuits.Wire]bool{}
	for _, w := range cc.OutputWires {
		if isOutput[w] {
			return "duplicate output wire"
		}
		isOutput[w] = true
		if !w.Output() {
			return "output wire not flagged"
		}
	}
	uses := map[*circuits.Wire]map[*circuits.Gate]int{}
	use := func(w *circuits.Wire, g *circuits.Gate) string {
		if w.Output() {
			return "output wire consumed by a gate"
		}
		if !isInput[w] && produced[w] == nil {
			return "gate input not produced by an earlier gate"
		}
		if uses[w] == nil {
			uses[w] = map[*circuits.Gate]int{}
		}
		uses[w][g]++
		return ""
	}
	for _, g := range cc.Gates {
		if g.Dead || g.Visited {
			return "dead or visited gate before the passes"
		}
		if s := use(g.A, g); s != "" {
			return s
		}
		if g.Op != circuit.INV {
			if g.B == nil {
				return "binary gate with nil B"
			}
			if s := use(g.B, g); s != "" {
				return s
			}
		}
		if isInput[g.O] {
			return "gate writes an input wire"
		}
		if produced[g.O] != nil {
			return "wire produced by two gates"
		}
		if g.O.Output() && !isOutput[g.O] {
			return "flagged wire not in OutputWires"
		}
		if g.O.Input() != g {
			return "Wire.Input() is not the producing gate"
		}
		if g.O.Assigned() {
			return "wire id assigned before Compile"
		}
		produced[g.O] = g
	}
	for _, w := range cc.OutputWires {
		if produced[w] == nil {
			return "output wire not produced by a gate"
		}
	}
	check := func(w *circuits.Wire) string {
		got := map[*circuits.Gate]int{}
		n := 0
		w.ForEachOutput(func(g *circuits.Gate) { got[g]++; n++ })
		if int(w.NumOutputs()) != n {
			return "NumOutputs differs from the list length"
		}
		want := uses[w]
		if len(got) != len(want) {
			return "output gate list differs from the consumers"
		}
		for g, k := range want {
			if got[g] != k {
				return "output gate list differs from the consumers"
			}
		}
		return ""
	}
	for _, w := range cc.InputWires {
		if s := check(w); s != "" {
			return s
		}
	}
	for _, g := range cc.Gates {
		if s := check(g.O); s != "" {
			return s
		}
		v := g.O.Value()
		if v != circuits.Unknown {
			// only cc.ZeroWire()/cc.OneWire() carry a value: AND/XOR(in0, INV(in0))
			a, b := g.A, g.B
			okShape := b != nil && a == cc.InputWires[0] && b.Input() != nil &&
				b.Input().Op == circuit.INV && b.Input().A == cc.InputWires[0] &&
				((v == circuits.Zero && g.Op == circuit.AND) || (v == circuits.One && g.Op == circuit.XOR))
			if !okShape {
				return "valued wire that is not the zero/one wire"
			}
		}
	}
	return ""
}

func c09Graphs(c *Ctx) error {
	n := c.N(200, 10000)
	targets := []utils.Target{utils.TargetYao, utils.TargetGMW}
	reprSeen := map[string]int{}
	directed := c09DirectedRecipes()
	// graphs without (one of) the constant wires: their own generator, seeded
	// independently so that the main random stream is what it was
	lazy := c09LazyRecipes(NewRNG(c.Seed^0xC09C0257A27), c.N(30, 1500))
	for i := 0; i < n+len(lazy); i++ {
		var rc *c09Recipe
		if i < n {
			r := c.rng.Fork()
			maxSteps := 30
			if i%10 == 9 {
				maxSteps = 60
			}
			if i%7 == 0 {
				maxSteps = 8 // small cases for the in-kernel sub-sample
			}
			rc = c09GenRecipe(r, maxSteps)
			if i < len(directed) {
				rc = directed[i]
				c.Hist("graph:directed-both-inputs-on-bypassed-wire")
			}
		} else {
			rc = lazy[i-n]
			c.Hist("graph:family:constants-not-both-created-up-front")
		}
		c.Hist(fmt.Sprintf("graph:inputs:%d", rc.NI))
		c.Hist(fmt.Sprintf("graph:outputs:%d", len(rc.Outs)))
		// reference truth table
		nx := 1 << uint(rc.NI)
		want := make([]string, nx)
		xs := make([][]bool, nx)
		for v := 0; v < nx; v++ {
			x := make([]bool, rc.NI)
			for b := 0; b < rc.NI; b++ {
				x[b] = v>>uint(b)&1 == 1
			}
			xs[v] = x
			want[v] = bitsString(c09EvalRecipe(rc, x))
		}
		first := true
		var deferred []func()
		for _, prune := range []bool{false, true} {
			for _, tgt := range targets {
				params := utils.NewParams()
				params.Target = tgt
				params.OptPruneGates = prune
				b, err := c09Build(rc, params)
				if err != nil {
					return fmt.Errorf("graph %d: build: %v", i, err)
				}
				cc := b.cc
				num := newC09Num()
				for _, w := range cc.InputWires {
					num.wire(w)
				}
				w0, g0, o0, err := num.snapshot(cc)
				if err != nil {
					return fmt.Errorf("graph %d: %v", i, err)
				}
				for _, w := range cc.OutputWires {
					num.wire(w)
				}
				if first {
					first = false
					c.Hist(fmt.Sprintf("graph:gates:%d", (len(cc.Gates)/10)*10))
					for _, g := range cc.Gates {
						c.Hist("graph:op:" + g.Op.String())
					}
					if s := c09CheckWfg(cc); s != "" {
						// The implementation's graph representation is not what the model's
						// wfg/wfb/wfx describe (the recipes themselves are well-formed by
						// construction): an oracle failure of its own; the semantic oracle
						// below still runs on this graph.
						c.Hist("graph:wfg-violated:" + s)
						rkey := "c09:graph-representation:" + strings.ReplaceAll(s, " ", "-")
						if reprSeen[rkey] < 3 {
							// recorded after the semantic oracle of this graph (see below)
							rs, rp := s, c09GraphReplay{Seed: c.Seed, Case: i, Prune: prune, Target: tgt.String(), Recipe: rc}
							deferred = append(deferred, func() {
								c.Fail(rkey, "the gate graph built through circuits.Compiler does not have the representation the model assumes: "+rs, rp)
							})
						}
						reprSeen[rkey]++
					} else {
						c.Hist("graph:wfg-holds") // structural part: wfg0, wfb, wfx and the exact lists of wfe; the clause about the constants is classified below (graph:theorem:...)
						c.Hist("graph:structural-hypotheses-hold(wfg0,wfb,wfx,wfe)")
					}
					if !b.zeroMade || !b.oneMade {
						c.Hist("graph:constants-created-lazily")
					}
					// which theorem covers this graph (the hypotheses about the constants:
					// wf_consts of wfg, or [unvalued] of C09_options_no_constants)
					switch {
					case b.zeroMade && b.oneMade:
						c.Hist("graph:theorem:C09_options+C09_no_panic_pipeline(both-constants)")
					case !b.zeroMade && !b.oneMade:
						c.Hist("graph:theorem:C09_options_no_constants(no-constant)")
					default:
						c.Hist("graph:theorem:none(one-constant:correspondence+oracle-only)")
					}
				}
				// [unvalued], evaluated on the real graph
				unvalued := true
				for _, w := range num.wires {
					if w.Value() != circuits.Unknown {
						unvalued = false
					}
				}
				if unvalued != (!b.zeroMade && !b.oneMade) {
					c.Fail("c09:graph:unvalued-iff-no-constant-created",
						"a wire carries a value although no constant wire was created (or none does although one was)",
						c09GraphReplay{Seed: c.Seed, Case: i, Prune: prune, Target: tgt.String(), Recipe: rc})
				}
				ref := func(w *circuits.Wire, made bool) SX {
					if !made {
						return I(-1)
					}
					return I(num.wire(w))
				}
				var inv, zero, one SX = I(-1), I(-1), I(-1)
				if b.zeroMade || b.oneMade {
					inv = ref(cc.InvI0Wire(), true)
				}
				if b.zeroMade {
					zero = ref(cc.ZeroWire(), true)
				}
				if b.oneMade {
					one = ref(cc.OneWire(), true)
				}
				ins := make([]int, len(cc.InputWires))
				for k, w := range cc.InputWires {
					ins[k] = num.wire(w)
				}
				outs := make([]int, len(cc.OutputWires))
				for k, w := range cc.OutputWires {
					outs[k] = num.wire(w)
				}
				in := L(w0, g0, o0, Ints(ins), Ints(outs), L(inv, zero, one), Bool(prune), I(int(tgt)))
				s0 := L(w0, g0, o0).String()

				replay := c09GraphReplay{Seed: c.Seed, Case: i, Prune: prune, Target: tgt.String(), Recipe: rc}
				var snaps []SX
				panicMsg := ""
				stage := ""
				step := func(name string, f func()) bool {
					if msg := c09Try(f); msg != "" {
						panicMsg, stage = msg, name
						return false
					}
					return true
				}
				var circ *circuit.Circuit
				nontrivial := false
				prev := s0
				snap := func() bool {
					w, g, o, err := num.snapshot(cc)
					if err != nil {
						panicMsg, stage = err.Error(), "snapshot"
						return false
					}
					s := L(w, g, o)
					snaps = append(snaps, s)
					str := s.String()
					if str != prev {
						nontrivial = true
					}
					prev = str
					return true
				}
				gatesBefore := len(cc.Gates)
				ok := step("ConstPropagate", cc.ConstPropagate) && snap()
				if ok && prev != s0 {
					c.Hist("pass:ConstPropagate-changed")
				}
				if ok && len(cc.Gates) != gatesBefore {
					// cc.ZeroWire()/cc.OneWire() called from a substitution block
					c.Hist("pass:ConstPropagate-created-a-constant-lazily")
					if b.zeroMade && b.oneMade || len(cc.Gates) != gatesBefore+1 {
						c.Fail("c09:graph:ConstPropagate:unexpected-gates-added",
							"ConstPropagate added gates other than one missing constant gate", replay)
					}
				}
				p1 := prev
				ok = ok && step("ShortCircuitXORZero", cc.ShortCircuitXORZero) && snap()
				if ok && prev != p1 {
					c.Hist("pass:ShortCircuitXORZero-changed")
				}
				if ok && unvalued {
					// C09_unvalued_passes_identity on the implementation
					c.Hist("pass:identity-on-unvalued-graph-evaluated")
					if p1 != s0 || prev != s0 {
						c.Fail("c09:graph:no-constants:rewriting-pass-changes-graph",
							"ConstPropagate or ShortCircuitXORZero changed a graph on which no wire carries a value", replay)
					}
				}
				if ok && prune {
					before := len(cc.Gates)
					ok = step("Prune", func() { cc.Prune() }) && snap()
					if ok && len(cc.Gates) != before {
						c.Hist("pass:Prune-removed")
					}
				} else if ok {
					snaps = append(snaps, L())
				}
				ok = ok && step("Compile", func() { circ = cc.Compile() })
				c.Hist("config:" + tgt.String() + fmt.Sprintf(":prune=%v", prune))
				c.Eval(in.String(), nontrivial)
				if !ok {
					code := c09PanicCode(panicMsg)
					c.Case(in, L(I(-1), I(code)))
					replay.Panic = stage + ": " + panicMsg
					c.Fail(fmt.Sprintf("c09:graph:panic:%s:%d", stage, code),
						"pass panics on a well-formed gate graph: "+stage+": "+panicMsg, replay)
					continue
				}
				csx, idsOK := c09CircuitSX(circ)
				if !idsOK {
					c.Case(in, L(I(-1), I(6)))
					c.Fail("c09:graph:Compile:unassigned-wire-emitted", "Compile emitted a gate on a wire without id", replay)
					continue
				}
				levels := make([]int, len(num.gates))
				vis := make([]bool, len(num.gates))
				for k, g := range num.gates {
					levels[k] = int(g.Level) // independent of the field's integer type
					vis[k] = g.Visited
				}
				// circuit.AssignLevels on the compiled circuit (Gate.Level of every flat gate)
				circ.AssignLevels(tgt)
				alev := make([]int, len(circ.Gates))
				for k := range circ.Gates {
					alev[k] = int(circ.Gates[k].Level)
				}
				c.Case(in, L(snaps[0], snaps[1], snaps[2], csx, Ints(levels), Bits(vis), Ints(alev)))
				if i < 1 && !prune && tgt == utils.TargetYao {
					c.Sample(map[string]interface{}{"recipe": rc, "gates_in": len(num.gates), "gates_out": circ.NumGates})
				}
				// oracle: exhaustive (<= 7 input bits) against the recipe's own meaning
				for v := 0; v < nx; v++ {
					got := ""
					msg := c09Try(func() {
						res, err := circ.Compute(SplitInputs(circ, xs[v]))
						if err != nil {
							panic(err)
						}
						got = bitsString(JoinOutputs(circ, res))
					})
					if msg != "" || got != want[v] {
						rp := replay
						rp.X, rp.Got, rp.Want, rp.Panic = bitsString(xs[v]), got, want[v], msg
						c.Fail(fmt.Sprintf("c09:graph:output-differs:prune=%v:%s", prune, tgt),
							"compiled circuit differs from the meaning of the gate graph", rp)
						break
					}
				}
			}
		}
		if i < 80 {
			for _, tgt := range targets {
				c.Hist("door:D3:pass-orders:" + tgt.String())
				if name, what, x := c09SweepPassOrders(rc, xs, want, tgt); name != "" {
					c.Fail("c09:graph:pass-order:"+name+":"+tgt.String(),
						"the gate graph compiled after another legal sequence of the passes computes something else: "+what,
						c09GraphReplay{Seed: c.Seed, Case: i, Target: tgt.String(), Recipe: rc, X: x})
				}
			}
		}
		for _, f := range deferred {
			f()
		}
	}
	return nil
}

// ---------------------------------------------------------------- programs

type c09Prog struct {
	Name string
	Src  string
	File string
}

func c09Programs(r *RNG, count int) []c09Prog {
	var ps []c09Prog
	add := func(name, src string) { ps = append(ps, c09Prog{Name: name, Src: src}) }
	bin := func(name, ty, rty, op string) {
		add(name, fmt.Sprintf("package main\nfunc main(a, b %s) %s {\n    return a %s b\n}\n", ty, rty, op))
	}
	// multipliers across the threshold values 8, 21, 64 and Karatsuba's table
	bin("mul-u4", "uint4", "uint4", "*")
	bin("mul-u12", "uint12", "uint12", "*")
	bin("mul-i24", "int24", "int24", "*")
	bin("mul-u32", "uint32", "uint32", "*")
	// divisions and modulos are handled by the structured family c09Divs (stand-alone-divider discriminator)
	// exhaustive adder widths that are not 2^k or 2^k+1 (GMW: Kogge-Stone stage count)
	bin("add-u6", "uint6", "uint6", "+")
	bin("add-u7", "uint7", "uint7", "+")
	bin("add-i16", "int16", "int16", "+")
	bin("sub-u7", "uint7", "uint7", "-")
	bin("lt-i6", "int6", "bool", "<")
	bin("ge-u6", "uint6", "bool", ">=")
	add("if-else", "package main\nfunc main(a, b int6) int6 {\n    if a > b {\n        return a - b\n    }\n    return b * a\n}\n")
	add("loop-const", "package main\nfunc main(a, b uint6) uint6 {\n    var sum uint6 = 0\n    for i := 0; i < 5; i = i + 1 {\n        sum = sum + a\n        sum = sum ^ b\n    }\n    return sum\n}\n")
	add("shift-mask", "package main\nfunc main(a, b uint7) uint7 {\n    return (a << 3) | (b >> 2) & 0x3c\n}\n")
	add("const-fold", "package main\nfunc main(a, b uint6) uint6 {\n    return a * 0 + b * 1 + (a & 0) + (b | 0) + 7\n}\n")
	add("array-index", "package main\nfunc main(a, b uint4) uint4 {\n    var arr [4]uint4\n    arr[0] = a\n    arr[1] = b\n    arr[2] = a + b\n    arr[3] = a ^ b\n    return arr[b % 4]\n}\n")
	add("two-results", "package main\nfunc main(a, b uint6) (uint6, bool) {\n    return a * b, a == b\n}\n")
	add("mul-add-u16", "package main\nfunc main(a, b uint16) uint16 {\n    return a * b + a\n}\n")
	add("mul-u40", "package main\nfunc main(a, b uint40) uint40 {\n    return a * b\n}\n")
	add("unused-arg", "package main\nfunc main(a, b uint4) uint4 {\n    return a\n}\n")
	add("const-result", "package main\nfunc main(a, b uint4) uint8 {\n    return 42\n}\n")
	add("neg-not", "package main\nfunc main(a, b int6) int6 {\n    return -a ^ b\n}\n")
	add("bool-logic", "package main\nfunc main(a, b uint5) bool {\n    return a > 3 && b < 9 || a == b\n}\n")
	add("mul-i64", "package main\nfunc main(a, b int64) int64 {\n    return a * b\n}\n")
	// a value whose gates constant propagation short-circuits, used as BOTH operands of one gate
	add("same-operand-and-mul", "package main\nfunc main(a, b uint6) uint6 {\n    x := a & 0x0f\n    return x * x + b\n}\n")
	add("same-operand-xor-add", "package main\nfunc main(a, b uint6) uint6 {\n    x := a ^ 0x15\n    y := x + x\n    return y ^ b\n}\n")
	add("same-operand-or-and", "package main\nfunc main(a, b uint6) uint6 {\n    x := a | 0x21\n    y := x & x\n    z := b & 0x3c\n    return y + (z | z)\n}\n")
	add("same-operand-add-xor", "package main\nfunc main(a, b uint6) uint6 {\n    x := a + 16\n    y := x ^ x\n    z := b ^ 0x2a\n    return y | (z * z)\n}\n")
	add("same-operand-compare", "package main\nfunc main(a, b uint6) uint6 {\n    x := a & 0x33\n    y := b | 0x0c\n    if x < x || y > y {\n        return 1\n    }\n    if x <= x && y == y {\n        return x - x + y\n    }\n    return 2\n}\n")
	add("same-operand-signed-mul", "package main\nfunc main(a, b int6) int6 {\n    x := a & 0x1b\n    y := b ^ 0x24\n    return x * x - y * y\n}\n")
	// testsuite/lang files
	files, _ := filepath.Glob(filepath.Join(repoRoot(), "testsuite", "lang", "*.mpcl"))
	sort.Strings(files)
	for _, f := range files {
		switch filepath.Base(f) {
		case "divi.mpcl", "divu.mpcl", "modi.mpcl", "modu.mpcl":
			continue // int64/uint64 a / b, a % b: covered by c09Divs
		}
		ps = append(ps, c09Prog{Name: "testsuite/lang/" + filepath.Base(f), File: f})
	}
	// random expression programs
	types := []string{"uint3", "int4", "uint5", "int6", "uint8", "int8", "uint11", "int16", "uint23", "int32", "uint32", "uint48"}
	for k := 0; len(ps) < count; k++ {
		ty := types[r.Intn(len(types))]
		var gen func(depth int) string
		gen = func(depth int) string {
			if depth == 0 || r.Intn(4) == 0 {
				switch r.Intn(5) {
				case 0:
					return fmt.Sprintf("%d", r.Intn(8))
				case 1, 2:
					return "a"
				default:
					return "b"
				}
			}
			ops := []string{"+", "-", "*", "*", "&", "|", "^", "-", "+"}
			return "(" + gen(depth-1) + " " + ops[r.Intn(len(ops))] + " " + gen(depth-1) + ")"
		}
		e := gen(r.Range(1, 3))
		cond := []string{"<", ">", "==", "!=", "<=", ">="}[r.Intn(6)]
		src := fmt.Sprintf("package main\nfunc main(a, b %s) %s {\n    var r %s = %s\n    if a %s %s {\n        r = r + %s\n    }\n    return r\n}\n",
			ty, ty, ty, e, cond, gen(1), gen(2))
		add(fmt.Sprintf("random-%d-%s", k, ty), src)
	}
	return ps
}

func repoRoot() string {
	if v := os.Getenv("VERIF_REPO"); v != "" {
		return v
	}
	return "/repo"
}

type c09ProgReplay struct {
	Seed    uint64 `json:"seed"`
	Program string `json:"program"`
	Source  string `json:"source,omitempty"`
	File    string `json:"file,omitempty"`
	ConfigA string `json:"config_a"`
	ConfigB string `json:"config_b"`
	Inputs  string `json:"inputs,omitempty"`
	Got     string `json:"got,omitempty"`
	Want    string `json:"want,omitempty"`
	Error   string `json:"error,omitempty"`
	Failing int    `json:"failing_vectors,omitempty"`
	Vectors int    `json:"vectors,omitempty"`
}

type c09Cfg struct {
	prune bool
	thr   int
	tgt   utils.Target
}

func (k c09Cfg) String() string {
	return fmt.Sprintf("prune=%v,threshold=%d,target=%s", k.prune, k.thr, k.tgt)
}

func c09CompileProg(p c09Prog, k c09Cfg) (circ *circuit.Circuit, errMsg string) {
	params := utils.NewParams()
	params.Target = k.tgt
	params.OptPruneGates = k.prune
	params.CircMultArrayTreshold = k.thr
	params.Warn.DisableAll()
	params.PkgPath = []string{filepath.Join(repoRoot(), "pkg")}
	defer params.Close()
	msg := c09Try(func() {
		var err error
		if p.File != "" {
			circ, _, err = compiler.New(params).CompileFile(p.File, nil)
		} else {
			circ, _, err = compiler.New(params).Compile(p.Src, nil)
		}
		if err != nil {
			errMsg = "error: " + err.Error()
		}
	})
	if msg != "" {
		errMsg = "panic: " + msg
	}
	return circ, errMsg
}

func c09IOSig(io circuit.IO) string {
	var s []string
	for _, a := range io {
		s = append(s, fmt.Sprintf("%d", a.Type.Bits))
	}
	return strings.Join(s, ",")
}

func c09Progs(c *Ctx) error {
	nprog := c.N(40, 64)
	progs := c09Programs(c.rng.Fork(), nprog)
	var cfgs []c09Cfg
	for _, prune := range []bool{false, true} {
		for _, thr := range []int{0, 8, 21, 64} {
			for _, tgt := range []utils.Target{utils.TargetYao, utils.TargetGMW} {
				cfgs = append(cfgs, c09Cfg{prune, thr, tgt})
			}
		}
	}
	// silence the compiler's stdout diagnostics
	devnull, _ := os.OpenFile(os.DevNull, os.O_WRONLY, 0)
	saved := os.Stdout
	if devnull != nil {
		os.Stdout = devnull
		defer func() { os.Stdout = saved; devnull.Close() }()
	}
	nconf := 0
	limit := c.N(40*16, 1000)
	if c.Thorough() {
		limit = len(progs) * len(cfgs)
	}
	for pi, p := range progs {
		if nconf >= limit {
			break
		}
		r := c.rng.Fork()
		base, berr := c09CompileProg(p, cfgs[0])
		if berr != "" {
			// must fail the same way everywhere
			c.Hist("prog:does-not-compile")
			c.Note("program %s does not compile under the default configuration: %s", p.Name, berr)
			for _, k := range cfgs[1:] {
				_, e := c09CompileProg(p, k)
				nconf++
				if (e == "") != (berr == "") {
					c.Fail("c09:prog:compiles-under-some-configurations-only:"+k.String(),
						"program compiles under one configuration and fails under another",
						c09ProgReplay{Seed: c.Seed, Program: p.Name, Source: p.Src, File: p.File,
							ConfigA: cfgs[0].String(), ConfigB: k.String(), Error: berr + " / " + e})
				}
			}
			continue
		}
		c.Hist("prog:compiled")
		ni := base.Inputs.Size()
		no := base.Outputs.Size()
		c.Hist(fmt.Sprintf("prog:input-bits:%d", (ni/8)*8))
		var xs [][]bool
		if ni <= 16 {
			for v := 0; v < 1<<uint(ni); v++ {
				x := make([]bool, ni)
				for b := 0; b < ni; b++ {
					x[b] = v>>uint(b)&1 == 1
				}
				xs = append(xs, x)
			}
			c.Hist("prog:exhaustive")
		} else {
			for k := 0; k < 64; k++ {
				x := make([]bool, ni)
				switch {
				case k == 0:
				case k == 1:
					for b := range x {
						x[b] = true
					}
				default:
					for b := range x {
						x[b] = r.Bool()
					}
				}
				xs = append(xs, x)
			}
			c.Hist("prog:64-vectors")
		}
		eval := func(circ *circuit.Circuit, x []bool) (string, string) {
			out := ""
			msg := c09Try(func() {
				res, err := circ.Compute(SplitInputs(circ, x))
				if err != nil {
					panic(err)
				}
				out = bitsString(JoinOutputs(circ, res))
			})
			return out, msg
		}
		want := make([]string, len(xs))
		for xi, x := range xs {
			w, msg := eval(base, x)
			if msg != "" {
				return fmt.Errorf("program %s: Compute on the baseline configuration: %s", p.Name, msg)
			}
			want[xi] = w
		}
		nconf++
		c.Eval(fmt.Sprintf("%s|%s", p.Name, cfgs[0]), base.NumGates > 0)
		if pi < 3 {
			c.Sample(map[string]interface{}{"program": p.Name, "inputs": ni, "outputs": no, "gates_baseline": base.NumGates})
		}
		for _, k := range cfgs[1:] {
			if nconf >= limit && !c.Thorough() {
				break
			}
			nconf++
			circ, e := c09CompileProg(p, k)
			rp := c09ProgReplay{Seed: c.Seed, Program: p.Name, Source: p.Src, File: p.File,
				ConfigA: cfgs[0].String(), ConfigB: k.String()}
			key := fmt.Sprintf("prune=%v:thr=%d:%s", k.prune, k.thr, k.tgt)
			if e != "" {
				rp.Error = e
				if strings.HasPrefix(e, "panic:") {
					c.Fail("c09:prog:compiler-panics:"+key,
						"the compiler panics on a program under this configuration and not under the default one", rp)
					continue
				}
				c.Fail("c09:prog:compiles-under-some-configurations-only:"+key,
					"program compiles under the default configuration and fails under another", rp)
				continue
			}
			c.Eval(fmt.Sprintf("%s|%s", p.Name, k), circ.NumGates != base.NumGates || k.tgt != cfgs[0].tgt)
			c.Hist("prog-config:" + key)
			if c09IOSig(circ.Inputs) != c09IOSig(base.Inputs) || c09IOSig(circ.Outputs) != c09IOSig(base.Outputs) {
				rp.Error = fmt.Sprintf("inputs %s outputs %s vs inputs %s outputs %s",
					c09IOSig(base.Inputs), c09IOSig(base.Outputs), c09IOSig(circ.Inputs), c09IOSig(circ.Outputs))
				c.Fail("c09:prog:signature-differs:"+key, "input/output widths differ between configurations", rp)
				continue
			}
			// all failing vectors; a failure is classified as division by zero when the
			// program divides and every failing vector has an all-zero last argument
			nfail, nfailDivZero := 0, 0
			lastBits := 0
			if len(base.Inputs) > 0 {
				lastBits = int(base.Inputs[len(base.Inputs)-1].Type.Bits)
			}
			for xi, x := range xs {
				got, msg := eval(circ, x)
				if msg != "" || got != want[xi] {
					zero := lastBits > 0
					for _, b := range x[len(x)-lastBits:] {
						if b {
							zero = false
						}
					}
					if nfail == 0 || (!zero && nfail == nfailDivZero) {
						rp.Inputs, rp.Got, rp.Want, rp.Error = bitsString(x), got, want[xi], msg
					}
					nfail++
					if zero {
						nfailDivZero++
					}
				}
			}
			if nfail > 0 {
				src := p.Src
				if p.File != "" {
					if b, err := os.ReadFile(p.File); err == nil {
						src = string(b)
					}
				}
				divides := strings.Contains(src, "/") && strings.Contains(strings.ReplaceAll(src, "//", ""), "/") || strings.Contains(src, "%")
				rp.Failing = nfail
				rp.Vectors = len(xs)
				if divides && nfailDivZero == nfail && k.tgt != cfgs[0].tgt {
					c.Hist("prog-finding:division-by-zero:" + k.tgt.String())
					c.Fail("c09:prog:output-differs:division-by-zero:Yao-vs-"+k.tgt.String(),
						"integer division/modulo by zero yields different results for the Yao and GMW targets (every failing vector has divisor 0)", rp)
				} else if divides && k.tgt != cfgs[0].tgt {
					c.Hist("prog-finding:division-nonzero-divisor:" + k.tgt.String())
					c.Fail("c09:prog:output-differs:division-nonzero-divisor:Yao-vs-"+k.tgt.String(),
						"integer division/modulo with a non-zero divisor yields different results for the Yao and GMW targets (the GMW Goldschmidt divider is wrong)", rp)
				} else {
					c.Fail("c09:prog:output-differs:"+key,
						"the same program computes different outputs under two configurations", rp)
				}
			}
		}
	}
	c.Note("program configurations compiled and compared: %d", nconf)
	return nil
}

// ---------------------------------------------------------------- deep chains

// c09Deep builds, directly through circuits.Compiler, dependent chains whose BFS
// depth is around and beyond 65536 levels and compiles them for both targets.
// Gate.Level is consumed only by the GMW stable sort of Compile: the sort key must
// preserve the order of the levels however deep the circuit is, otherwise gates
// are emitted before their producers.  Oracle: the emitted gate list is
// topologically ordered, and Compute(GMW) == Compute(Yao) == the chain's own
// meaning on all inputs.  (The model's level is an unbounded nat; these graphs
// are too large for the model and are covered by the oracle only.)
type c09DeepReplay struct {
	Seed      uint64 `json:"seed"`
	Gates     int    `json:"chain_gates"`
	MaxLevel  int    `json:"max_bfs_level"`
	Target    string `json:"target"`
	ChainSeed uint64 `json:"chain_seed"`
	BadGate   int    `json:"first_gate_read_before_written,omitempty"`
	BadWire   int    `json:"wire_read_before_written,omitempty"`
	X         string `json:"x,omitempty"`
	Got       string `json:"got,omitempty"`
	Want      string `json:"want,omitempty"`
	Panic     string `json:"panic,omitempty"`
}

// chain step k: w[k+1] = op_k(w[k], in[sel_k]); op/sel derive from chainSeed.
func c09DeepStep(chainSeed uint64, k int) (circuit.Operation, int) {
	h := fnv64(fmt.Sprintf("%d:%d", chainSeed, k))
	sel := int(h>>8) % 3
	switch h % 8 {
	case 0:
		return circuit.AND, sel
	case 1:
		return circuit.OR, sel
	case 2:
		return circuit.XNOR, sel
	default:
		return circuit.XOR, sel
	}
}

func c09DeepBuild(n int, chainSeed uint64, tgt utils.Target) (*circuit.Circuit, string) {
	var circ *circuit.Circuit
	msg := c09Try(func() {
		params := utils.NewParams()
		params.Target = tgt
		calloc := circuits.NewAllocator()
		const ni = 4
		ins := make([]*circuits.Wire, ni)
		for i := range ins {
			ins[i] = calloc.Wire()
		}
		cc, err := circuits.NewCompiler(params, calloc,
			circuit.IO{{Name: "x", Type: uintInfo(ni)}}, circuit.IO{{Name: "r", Type: uintInfo(1)}},
			append([]*circuits.Wire(nil), ins...), nil)
		if err != nil {
			panic(err)
		}
		w := ins[3]
		for k := 0; k < n; k++ {
			op, sel := c09DeepStep(chainSeed, k)
			o := calloc.Wire()
			cc.AddGate(calloc.BinaryGate(op, w, ins[sel], o))
			w = o
		}
		w.SetOutput(true)
		cc.OutputWires = append(cc.OutputWires, w)
		circ = cc.Compile()
	})
	return circ, msg
}

func c09DeepRef(n int, chainSeed uint64, x []bool) bool {
	w := x[3]
	for k := 0; k < n; k++ {
		op, sel := c09DeepStep(chainSeed, k)
		b := x[sel]
		switch op {
		case circuit.AND:
			w = w && b
		case circuit.OR:
			w = w || b
		case circuit.XNOR:
			w = w == b
		default:
			w = w != b
		}
	}
	return w
}

func c09Deep(c *Ctx) error {
	r := c.rng.Fork()
	sizes := []int{65535, 65536, 65537, 65538, 70000}
	if c.Thorough() {
		sizes = append(sizes, 131073, 140000, 65536+r.Range(2, 5000))
	}
	const ni = 4
	for _, n := range sizes {
		chainSeed := r.U64()
		c.Hist(fmt.Sprintf("deep:max-bfs-level:%d", n-1))
		outs := map[utils.Target][]string{}
		for _, tgt := range []utils.Target{utils.TargetYao, utils.TargetGMW} {
			key := "c09:gmw-level-sort:depth>=65536"
			if n-1 < 65536 {
				key = "c09:gmw-level-sort:depth<65536"
			}
			if tgt == utils.TargetYao {
				key = strings.Replace(key, "gmw-level-sort", "yao-deep-chain", 1)
			}
			rp := c09DeepReplay{Seed: c.Seed, Gates: n, MaxLevel: n - 1, Target: tgt.String(), ChainSeed: chainSeed}
			circ, msg := c09DeepBuild(n, chainSeed, tgt)
			c.Eval(fmt.Sprintf("deep|%d|%d|%s", n, chainSeed, tgt), true)
			if msg != "" {
				rp.Panic = msg
				c.Fail(key+":panic", "Compile panics on a deep dependent chain", rp)
				continue
			}
			// topological order of the emitted gate list
			written := make([]bool, circ.NumWires)
			for i := 0; i < ni; i++ {
				written[i] = true
			}
			bad := -1
			badWire := -1
			for gi, g := range circ.Gates {
				if !written[g.Input0] {
					bad, badWire = gi, int(g.Input0)
				} else if g.Op != circuit.INV && !written[g.Input1] {
					bad, badWire = gi, int(g.Input1)
				}
				if bad >= 0 {
					break
				}
				written[g.Output] = true
			}
			if bad >= 0 {
				rp.BadGate, rp.BadWire = bad, badWire
				c.Fail(key+":not-topological",
					fmt.Sprintf("Compile (%s) emits gate %d before the gate that writes its input wire %d: the level sort key does not preserve the order of BFS levels for a chain of %d dependent gates", tgt, bad, badWire, n), rp)
			}
			var res []string
			for v := 0; v < 1<<ni; v++ {
				x := make([]bool, ni)
				for b := 0; b < ni; b++ {
					x[b] = v>>uint(b)&1 == 1
				}
				want := bitsString([]bool{c09DeepRef(n, chainSeed, x)})
				got := ""
				m := c09Try(func() {
					out, err := circ.Compute(SplitInputs(circ, x))
					if err != nil {
						panic(err)
					}
					got = bitsString(JoinOutputs(circ, out))
				})
				res = append(res, got)
				if m != "" || got != want {
					rp2 := rp
					rp2.X, rp2.Got, rp2.Want, rp2.Panic = bitsString(x), got, want, m
					c.Fail(key+":output-differs",
						fmt.Sprintf("the %s circuit of a chain of %d dependent gates computes %s, the chain means %s", tgt, n, got, want), rp2)
					break
				}
			}
			outs[tgt] = res
		}
		if strings.Join(outs[utils.TargetYao], ",") != strings.Join(outs[utils.TargetGMW], ",") {
			c.Hist("deep:yao-vs-gmw-differ")
		}
	}
	return nil
}

// ---------------------------------------------------------------- divisions

// c09Divs: programs made of one or more divisions/modulos of (different)
// operand widths, each on its own pair of arguments and returned as its own
// result.  Because the structure is known, a Yao-vs-GMW difference is
// discriminated without any list: the same operands are fed to the division
// compiled ALONE at that width under GMW; if the program's GMW result equals the
// stand-alone divider's result, the difference is the known inaccuracy of the
// GMW divider (or its known divide-by-zero convention); if it differs from the
// stand-alone divider too, the builder's result depends on its context
// (c09:prog:division-context-dependent) and that is a new failure.
type c09DivSpec struct {
	Op     string `json:"op"`
	Signed bool   `json:"signed"`
	W      int    `json:"w"`
}

func (d c09DivSpec) typ() string {
	if d.Signed {
		return fmt.Sprintf("int%d", d.W)
	}
	return fmt.Sprintf("uint%d", d.W)
}

func (d c09DivSpec) tag() string {
	if d.Signed {
		return fmt.Sprintf("iw%d", d.W)
	}
	return fmt.Sprintf("uw%d", d.W)
}

func c09DivSource(specs []c09DivSpec) string {
	var args, rets, exprs []string
	for i, d := range specs {
		args = append(args, fmt.Sprintf("a%d, b%d %s", i, i, d.typ()))
		rets = append(rets, d.typ())
		exprs = append(exprs, fmt.Sprintf("a%d %s b%d", i, d.Op, i))
	}
	ret := strings.Join(rets, ", ")
	if len(rets) > 1 {
		ret = "(" + ret + ")"
	}
	return fmt.Sprintf("package main\nfunc main(%s) %s {\n    return %s\n}\n",
		strings.Join(args, ", "), ret, strings.Join(exprs, ", "))
}

type c09DivReplay struct {
	Seed      uint64       `json:"seed"`
	Specs     []c09DivSpec `json:"divisions"`
	Source    string       `json:"source"`
	Config    string       `json:"config"`
	Component int          `json:"component"`
	A         string       `json:"dividend,omitempty"`
	B         string       `json:"divisor,omitempty"`
	Inputs    string       `json:"inputs,omitempty"`
	Got       string       `json:"got,omitempty"`
	Baseline  string       `json:"yao_baseline,omitempty"`
	Alone     string       `json:"stand_alone_gmw_divider,omitempty"`
	Committed string       `json:"committed_algorithm,omitempty"`
	Want      string       `json:"arithmetic,omitempty"`
	Failing   int          `json:"failing_vectors,omitempty"`
	Vectors   int          `json:"vectors,omitempty"`
	Error     string       `json:"error,omitempty"`
}

func c09BitsToUint(b []bool) uint64 {
	var v uint64
	for i, x := range b {
		if x {
			v |= 1 << uint(i)
		}
	}
	return v
}

func c09Divs(c *Ctx) error {
	r := c.rng.Fork()
	widths := []int{3, 5, 6, 8, 9, 12, 16}
	var progs [][]c09DivSpec
	one := func(op string, signed bool, w int) c09DivSpec { return c09DivSpec{Op: op, Signed: signed, W: w} }
	ops := []string{"/", "%"}
	// single divisions (the stand-alone dividers themselves; uint7 % is exhaustive)
	// (uint7 %, uint6 /, int5 / are exhaustive; 24 is a non-power-of-two width with directed
	// small divisors 1, 2, 3, 255, 256)
	progs = append(progs, []c09DivSpec{one("%", false, 7)}, []c09DivSpec{one("/", false, 6)},
		[]c09DivSpec{one("/", true, 5)}, []c09DivSpec{one("/", true, 8)},
		[]c09DivSpec{one("/", false, 16), one("%", false, 16)},
		[]c09DivSpec{one("/", false, 24)}, []c09DivSpec{one("/", true, 24), one("%", false, 6)})
	// two divisions of different widths, both orders, in every run
	core := [][2]int{{12, 6}, {6, 12}, {9, 3}, {3, 9}, {16, 8}, {8, 16}, {5, 6}, {6, 5}, {9, 8}, {8, 12}}
	for k, p := range core {
		progs = append(progs, []c09DivSpec{one(ops[k%2], false, p[0]), one(ops[(k/2)%2], false, p[1])})
	}
	for k, p := range [][2]int{{12, 6}, {6, 9}, {8, 3}, {5, 16}} {
		progs = append(progs, []c09DivSpec{one(ops[k%2], true, p[0]), one(ops[(k+1)%2], true, p[1])})
	}
	// seed dependent: more pairs, mixed signs, sometimes three divisions
	extra := c.N(6, 0)
	if c.Thorough() {
		for _, signed := range []bool{false, true} {
			for _, w1 := range widths {
				for _, w2 := range widths {
					if w1 != w2 {
						progs = append(progs, []c09DivSpec{one(ops[r.Intn(2)], signed, w1), one(ops[r.Intn(2)], signed, w2)})
					}
				}
			}
		}
		progs = append(progs, []c09DivSpec{one("/", true, 64)}, []c09DivSpec{one("/", false, 64)},
			[]c09DivSpec{one("%", true, 64)}, []c09DivSpec{one("%", false, 64)})
		extra = 20
	}
	for k := 0; k < extra; k++ {
		n := 2 + r.Intn(2)
		var sp []c09DivSpec
		for len(sp) < n {
			sp = append(sp, one(ops[r.Intn(2)], r.Bool(), widths[r.Intn(len(widths))]))
		}
		if sp[0].W == sp[1].W {
			sp[1].W = widths[(r.Intn(len(widths)-1)+1+indexOf(widths, sp[0].W))%len(widths)]
		}
		progs = append(progs, sp)
	}
	var cfgs []c09Cfg
	for _, prune := range []bool{false, true} {
		thrs := []int{0}
		if c.Thorough() {
			thrs = []int{0, 8, 21, 64}
		}
		for _, thr := range thrs {
			for _, tgt := range []utils.Target{utils.TargetYao, utils.TargetGMW} {
				cfgs = append(cfgs, c09Cfg{prune, thr, tgt})
			}
		}
	}
	devnull, _ := os.OpenFile(os.DevNull, os.O_WRONLY, 0)
	saved := os.Stdout
	if devnull != nil {
		os.Stdout = devnull
		defer func() { os.Stdout = saved; devnull.Close() }()
	}
	eval := func(circ *circuit.Circuit, x []bool) ([]bool, string) {
		var out []bool
		msg := c09Try(func() {
			res, err := circ.Compute(SplitInputs(circ, x))
			if err != nil {
				panic(err)
			}
			out = JoinOutputs(circ, res)
		})
		return out, msg
	}
	alone := map[string]*circuit.Circuit{}
	standAlone := func(d c09DivSpec) (*circuit.Circuit, string) {
		k := d.Op + d.tag()
		if cc, ok := alone[k]; ok {
			return cc, ""
		}
		cc, e := c09CompileProg(c09Prog{Name: "alone-" + k, Src: c09DivSource([]c09DivSpec{d})},
			c09Cfg{false, 0, utils.TargetGMW})
		if e == "" {
			alone[k] = cc
		}
		return cc, e
	}
	for _, specs := range progs {
		src := c09DivSource(specs)
		name := ""
		total := 0
		for _, d := range specs {
			name += d.Op + d.tag()
			total += 2 * d.W
			c.Hist("div:width:" + d.tag())
		}
		c.Hist(fmt.Sprintf("div:divisions-per-program:%d", len(specs)))
		prog := c09Prog{Name: "div:" + name, Src: src}
		base, berr := c09CompileProg(prog, cfgs[0])
		if berr != "" {
			c.Fail("c09:prog:division:does-not-compile", "a division program does not compile under the default configuration",
				c09DivReplay{Seed: c.Seed, Specs: specs, Source: src, Config: cfgs[0].String(), Error: berr})
			continue
		}
		// input vectors
		var xs [][]bool
		if total < 16 || (total == 16 && c.Thorough()) {
			for v := 0; v < 1<<uint(total); v++ {
				x := make([]bool, total)
				for b := 0; b < total; b++ {
					x[b] = v>>uint(b)&1 == 1
				}
				xs = append(xs, x)
			}
			c.Hist("div:exhaustive")
		} else {
			for k := 0; k < 96; k++ {
				var x []bool
				for _, d := range specs {
					a := make([]bool, d.W)
					b := make([]bool, d.W)
					mode := k % 12
					if k >= 48 {
						mode = 11
					}
					for i := 0; i < d.W; i++ {
						switch mode {
						case 0: // max / small
							a[i], b[i] = true, i == 0 || (i < 4 && r.Bool())
						case 1: // max / max
							a[i], b[i] = true, true
						case 2: // x / 0
							a[i], b[i] = r.Bool(), false
						case 3: // 0 / x
							a[i], b[i] = false, r.Bool()
						case 4: // large / 1
							a[i], b[i] = i != 0 || r.Bool(), i == 0
						case 5: // large / mid
							a[i], b[i] = i >= d.W/2 || r.Bool(), i < (d.W+1)/2 && (i == 0 || r.Bool())
						case 6, 7, 8, 9, 10: // large or random dividend / small divisor 1, 2, 3, 255, 256
							small := []uint64{1, 2, 3, 255, 256}[mode-6]
							if d.W < 63 && small >= 1<<uint(d.W-1) {
								small = small%(1<<uint(d.W-1)) + 1
							}
							a[i], b[i] = (k < 24 && i >= d.W-2) || r.Bool(), small>>uint(i)&1 == 1
						default:
							a[i], b[i] = r.Bool(), r.Bool()
						}
					}
					x = append(x, a...)
					x = append(x, b...)
				}
				xs = append(xs, x)
			}
			c.Hist("div:96-vectors")
		}
		split := func(out []bool) [][]bool {
			var res [][]bool
			ofs := 0
			for _, d := range specs {
				res = append(res, out[ofs:ofs+d.W])
				ofs += d.W
			}
			return res
		}
		operands := func(x []bool, i int) ([]bool, []bool) {
			ofs := 0
			for k := 0; k < i; k++ {
				ofs += 2 * specs[k].W
			}
			w := specs[i].W
			return x[ofs : ofs+w], x[ofs+w : ofs+2*w]
		}
		baseOut := make([][][]bool, len(xs))
		for xi, x := range xs {
			out, msg := eval(base, x)
			if msg != "" {
				return fmt.Errorf("division program %s: Compute on the baseline: %s", name, msg)
			}
			baseOut[xi] = split(out)
		}
		c.Eval(name+"|"+cfgs[0].String(), true)
		// baseline against arithmetic (unsigned, and signed quotients without overflow)
		for i, d := range specs {
			if d.Signed && d.Op == "%" {
				continue
			}
			for xi, x := range xs {
				a, b := operands(x, i)
				av, bv := c09BitsToUint(a), c09BitsToUint(b)
				if bv == 0 {
					continue
				}
				var want uint64
				if !d.Signed {
					want = av / bv
					if d.Op == "%" {
						want = av % bv
					}
				} else {
					sa, sb := int64(av), int64(bv)
					if a[d.W-1] {
						sa -= 1 << uint(d.W)
					}
					if b[d.W-1] {
						sb -= 1 << uint(d.W)
					}
					if sb == -1 && sa == -(1<<uint(d.W-1)) {
						continue
					}
					want = uint64(sa/sb) & (1<<uint(d.W) - 1)
				}
				if got := c09BitsToUint(baseOut[xi][i]); got != want {
					c.Fail("c09:prog:division:yao-differs-from-arithmetic:"+d.tag(),
						"the Yao (default configuration) circuit of a division differs from integer arithmetic",
						c09DivReplay{Seed: c.Seed, Specs: specs, Source: src, Config: cfgs[0].String(), Component: i,
							A: fmt.Sprint(av), B: fmt.Sprint(bv), Inputs: bitsString(x),
							Got: fmt.Sprint(got), Want: fmt.Sprint(want)})
					break
				}
			}
		}
		for _, k := range cfgs[1:] {
			ckey := fmt.Sprintf("prune=%v:thr=%d:%s", k.prune, k.thr, k.tgt)
			circ, e := c09CompileProg(prog, k)
			c.Eval(name+"|"+k.String(), true)
			c.Hist("div-config:" + ckey)
			if e != "" {
				key := "c09:prog:division:compiles-under-some-configurations-only:" + ckey
				if strings.HasPrefix(e, "panic:") {
					key = "c09:prog:division:compiler-panics:" + ckey
				}
				c.Fail(key, "a program with divisions of different widths compiles under the default configuration and not under this one",
					c09DivReplay{Seed: c.Seed, Specs: specs, Source: src, Config: k.String(), Error: e})
				continue
			}
			type cls struct {
				key, what string
				rp        c09DivReplay
				n         int
			}
			found := map[string]*cls{}
			note := func(key, what string, rp c09DivReplay) {
				if f, ok := found[key]; ok {
					f.n++
					return
				}
				found[key] = &cls{key, what, rp, 1}
			}
			for xi, x := range xs {
				out, msg := eval(circ, x)
				if msg != "" {
					note("c09:prog:division:compute-fails:"+ckey, "Circuit.Compute fails on the compiled division program",
						c09DivReplay{Seed: c.Seed, Specs: specs, Source: src, Config: k.String(), Inputs: bitsString(x), Error: msg})
					continue
				}
				got := split(out)
				for i, d := range specs {
					a, b := operands(x, i)
					rp := c09DivReplay{Seed: c.Seed, Specs: specs, Source: src, Config: k.String(), Component: i,
						A: fmt.Sprint(c09BitsToUint(a)), B: fmt.Sprint(c09BitsToUint(b)), Inputs: bitsString(x),
						Got: fmt.Sprint(c09BitsToUint(got[i])), Baseline: fmt.Sprint(c09BitsToUint(baseOut[xi][i])), Vectors: len(xs)}
					same := bitsString(got[i]) == bitsString(baseOut[xi][i])
					if k.tgt == utils.TargetYao {
						if !same {
							note("c09:prog:division:output-differs:"+ckey,
								"a division program computes different outputs under two Yao configurations", rp)
						}
						continue
					}
					sa, e := standAlone(d)
					if e != "" {
						rp.Error = e
						note("c09:prog:division:stand-alone-divider-does-not-compile:"+d.tag(), "the division alone does not compile for GMW", rp)
						continue
					}
					ax := append(append([]bool(nil), a...), b...)
					so, msg := eval(sa, ax)
					if msg != "" {
						rp.Error = msg
						note("c09:prog:division:stand-alone-divider-compute-fails:"+d.tag(), "Compute fails on the stand-alone GMW divider", rp)
						continue
					}
					rp.Alone = fmt.Sprint(c09BitsToUint(so))
					switch {
					case bitsString(so) != bitsString(got[i]):
						note("c09:prog:division-context-dependent:"+d.tag()+":"+ckey,
							"a division inside a program with other divisions computes something else than the same division compiled alone for GMW: the divider builder depends on its context", rp)
					case same:
					case c09BitsToUint(b) == 0:
						note("c09:prog:division:known-divide-by-zero-difference:"+d.tag()+":Yao-vs-GMW",
							"division by zero: the GMW divider (also stand-alone) and the Yao divider return different values", rp)
					default:
						// second discriminator: the word-level transcription of the COMMITTED
						// Goldschmidt algorithm (harness/c07gmw.go, validated by C07 against the
						// real circuit): only a result that is exactly what the committed
						// algorithm computes for (width, a, b) is the known inaccuracy
						av := new(big.Int).SetUint64(c09BitsToUint(a))
						bv := new(big.Int).SetUint64(c09BitsToUint(b))
						var pq, pr *big.Int
						if d.Signed {
							pq, pr = c07IDivPredictGMW(d.W, av, bv)
						} else {
							pq, pr = c07GoldschmidtPredict(d.W, av, bv)
						}
						pred := pq
						if d.Op == "%" {
							pred = pr
						}
						if pred != nil && pred.IsUint64() && pred.Uint64() == c09BitsToUint(got[i]) {
							note("c09:prog:division:known-divider-inaccuracy:"+d.tag()+":Yao-vs-GMW",
								"the GMW Goldschmidt divider is wrong for this non-zero divisor, exactly as the committed algorithm computes it (also stand-alone)", rp)
						} else {
							if pred != nil {
								rp.Committed = pred.String()
							}
							note("c09:prog:division:differs-from-committed-algorithm:"+d.tag()+":"+d.Op,
								fmt.Sprintf("the GMW divider returns %s for %s %s %s at width %s: neither the Yao result %s nor what the committed Goldschmidt algorithm computes (%s)",
									rp.Got, rp.A, d.Op, rp.B, d.tag(), rp.Baseline, rp.Committed), rp)
						}
					}
				}
			}
			var keys []string
			for kk := range found {
				keys = append(keys, kk)
			}
			sort.Strings(keys)
			for _, kk := range keys {
				f := found[kk]
				f.rp.Failing = f.n
				key := f.key
				if strings.HasPrefix(key, "c09:prog:division:differs-from-committed-algorithm:") {
					key = fmt.Sprintf("c09:prog:division:differs-from-committed-algorithm:%s:%s%s%s",
						specs[f.rp.Component].tag(), f.rp.A, specs[f.rp.Component].Op, f.rp.B)
				}
				c.Fail(key, f.what, f.rp)
			}
		}
	}
	return nil
}

// c09LitDivs: a division/modulo with a LITERAL operand: the literal lives in a
// 32-bit (or wider) container while the variable and the result are narrower or
// wider, so the divider gets operands and results of different widths.  The
// Yao long divider zero-pads and truncates; the GMW Goldschmidt divider must
// compute the same function.  Keys:
//   c09:prog:division:gmw:result-narrower-than-operand-container:<tag>   GMW result is 0 on every input (result wires never driven)
//   c09:prog:division:gmw:operands-of-different-widths:compile-panic:<tag>
//   known-divide-by-zero-difference / known-divider-inaccuracy (F14/F13) at the container width
//   c09:prog:division:literal-operand:output-differs:<tag>               anything else
func c09LitDivs(c *Ctx) {
	type lit struct {
		signed bool
		w      int
		expr   string // over the variable a
		form   string
	}
	progs := []lit{
		{false, 8, "100 % a", "lit-dividend"}, {true, 8, "a / 3", "lit-divisor"},
		{false, 8, "a / 3", "lit-divisor"}, {true, 8, "100 % a", "lit-dividend"},
		{false, 13, "1000 / a", "lit-dividend"}, {false, 13, "a % 7", "lit-divisor"},
		{true, 13, "a / 5", "lit-divisor"},
		{false, 33, "a % 255", "lit-divisor"}, {false, 33, "a / 3", "lit-divisor"},
		{true, 33, "a % 255", "lit-divisor"},
		{false, 40, "a % 1000", "lit-divisor"}, {false, 40, "100000 / a", "lit-dividend"},
		{true, 40, "a / 7", "lit-divisor"},
	}
	r := c.rng.Fork()
	cfgs := []c09Cfg{{false, 0, utils.TargetYao}, {true, 0, utils.TargetYao}, {false, 0, utils.TargetGMW}, {true, 0, utils.TargetGMW}}
	devnull, _ := os.OpenFile(os.DevNull, os.O_WRONLY, 0)
	saved := os.Stdout
	if devnull != nil {
		os.Stdout = devnull
		defer func() { os.Stdout = saved; devnull.Close() }()
	}
	for _, p := range progs {
		ty := fmt.Sprintf("uint%d", p.w)
		tag := fmt.Sprintf("uw%d:%s", p.w, p.form)
		if p.signed {
			ty = fmt.Sprintf("int%d", p.w)
			tag = fmt.Sprintf("iw%d:%s", p.w, p.form)
		}
		src := fmt.Sprintf("package main\nfunc main(a %s) %s {\n    return %s\n}\n", ty, ty, p.expr)
		prog := c09Prog{Name: "litdiv:" + tag + ":" + p.expr, Src: src}
		c.Hist("litdiv:" + tag)
		base, berr := c09CompileProg(prog, cfgs[0])
		rp0 := c09DivReplay{Seed: c.Seed, Source: src, Config: cfgs[0].String()}
		if berr != "" {
			rp0.Error = berr
			c.Fail("c09:prog:division:literal-operand:does-not-compile:"+tag, "a division with a literal operand does not compile for Yao", rp0)
			continue
		}
		var xs [][]bool
		if p.w <= 8 || (p.w <= 16 && c.Thorough()) {
			for v := 0; v < 1<<uint(p.w); v++ {
				x := make([]bool, p.w)
				for b := 0; b < p.w; b++ {
					x[b] = v>>uint(b)&1 == 1
				}
				xs = append(xs, x)
			}
		} else {
			for k := 0; k < 56; k++ {
				x := make([]bool, p.w)
				for b := range x {
					switch {
					case k < 20:
						x[b] = uint64(k)>>uint(b)&1 == 1 && b < 8
					case k < 30:
						x[b] = b >= p.w-3 || r.Bool()
					default:
						x[b] = r.Bool()
					}
				}
				xs = append(xs, x)
			}
		}
		evalStr := func(circ *circuit.Circuit, x []bool) (string, string) {
			out := ""
			msg := c09Try(func() {
				res, err := circ.Compute(SplitInputs(circ, x))
				if err != nil {
					panic(err)
				}
				out = bitsString(JoinOutputs(circ, res))
			})
			return out, msg
		}
		want := make([]string, len(xs))
		for xi, x := range xs {
			want[xi], _ = evalStr(base, x)
		}
		c.Eval(prog.Name+"|"+cfgs[0].String(), true)
		for _, k := range cfgs[1:] {
			ckey := fmt.Sprintf("prune=%v:%s", k.prune, k.tgt)
			rp := c09DivReplay{Seed: c.Seed, Source: src, Config: k.String(), Vectors: len(xs)}
			circ, e := c09CompileProg(prog, k)
			c.Eval(prog.Name+"|"+k.String(), true)
			if e != "" {
				rp.Error = e
				key := "c09:prog:division:literal-operand:does-not-compile:" + tag + ":" + ckey
				if k.tgt == utils.TargetGMW && strings.HasPrefix(e, "panic:") {
					key = "c09:prog:division:gmw:operands-of-different-widths:compile-panic:" + tag
				}
				c.Fail(key, "a division with a literal operand (operands of different widths) compiles for Yao and not under this configuration", rp)
				continue
			}
			nfail, nzero, allZero := 0, 0, true
			var first, firstNZ int = -1, -1
			var got []string
			for xi, x := range xs {
				g, _ := evalStr(circ, x)
				got = append(got, g)
				if strings.Contains(g, "1") {
					allZero = false
				}
				if g != want[xi] {
					nfail++
					isDivZero := p.form == "lit-dividend" && !strings.Contains(bitsString(x), "1")
					if isDivZero {
						nzero++
					} else if firstNZ < 0 {
						firstNZ = xi
					}
					if first < 0 {
						first = xi
					}
				}
			}
			if nfail == 0 {
				continue
			}
			rp.Failing = nfail
			if k.tgt == utils.TargetGMW && allZero {
				xi := firstNZ
				if xi < 0 {
					xi = first
				}
				rp.Inputs, rp.Got, rp.Baseline = bitsString(xs[xi]), got[xi], want[xi]
				rp.A = fmt.Sprint(c09BitsToUint(xs[xi]))
				c.Fail("c09:prog:division:gmw:result-narrower-than-operand-container:"+tag,
					"the GMW circuit of a division with a literal operand returns 0 for every input: the divider's result wires are never driven when the result is narrower than the operands' container", rp)
				continue
			}
			if nzero > 0 && k.tgt == utils.TargetGMW {
				rz := rp
				rz.Failing = nzero
				rz.Inputs, rz.Got, rz.Baseline = bitsString(xs[0]), got[0], want[0]
				c.Fail(fmt.Sprintf("c09:prog:division:known-divide-by-zero-difference:%s:Yao-vs-GMW", strings.SplitN(tag, ":", 2)[0]),
					"division by zero (literal dividend, variable 0): the GMW and the Yao divider return different values", rz)
			}
			if firstNZ >= 0 {
				rp.Failing = nfail - nzero
				rp.Inputs, rp.Got, rp.Baseline = bitsString(xs[firstNZ]), got[firstNZ], want[firstNZ]
				rp.A = fmt.Sprint(c09BitsToUint(xs[firstNZ]))
				c.Fail("c09:prog:division:literal-operand:output-differs:"+tag+":"+ckey,
					"a division with a literal operand computes different outputs under two configurations", rp)
			}
		}
	}
}

// c09Builtins: the builders that are not reachable from plain operators: the
// native("hamming") builtin (pkg encoding/binary HammingDistance ->
// circuits.Hamming, the only producer of 1-bit + 1-bit -> 2-bit additions)
// and the native circuit files of pkg/math (add64/sub64/mul64/div64.circ,
// embedded through the Circ instruction).  Every configuration is compared
// with a Go reference (hence with every other configuration); exhaustive for
// <= 16 input bits.
type c09BuiltinReplay struct {
	Seed    uint64 `json:"seed"`
	Builtin string `json:"builtin"`
	Source  string `json:"source"`
	Config  string `json:"config"`
	A       string `json:"a,omitempty"`
	B       string `json:"b,omitempty"`
	Got     string `json:"got,omitempty"`
	Want    string `json:"want,omitempty"`
	Failing int    `json:"failing_vectors,omitempty"`
	Vectors int    `json:"vectors,omitempty"`
	Error   string `json:"error,omitempty"`
}

func c09Builtins(c *Ctx) {
	type bi struct {
		name, tag string
		w         int
		src       string
		ref       func(a, b uint64) (uint64, bool)
	}
	var list []bi
	for _, w := range []int{2, 3, 8, 13, 32} {
		w := w
		list = append(list, bi{"hamming", fmt.Sprintf("hamming:uw%d", w), w,
			fmt.Sprintf("package main\n\nimport (\n\t\"encoding/binary\"\n)\n\nfunc main(a, b uint%d) uint%d {\n\treturn binary.HammingDistance(a, b)\n}\n", w, w),
			func(a, b uint64) (uint64, bool) { return uint64(bits.OnesCount64(a ^ b)), true }})
	}
	// hamming of operands of different widths, and feeding further arithmetic
	list = append(list, bi{"hamming", "hamming:uw8+1", 8,
		"package main\n\nimport (\n\t\"encoding/binary\"\n)\n\nfunc main(a, b uint8) uint8 {\n\treturn binary.HammingDistance(a, b) + 1\n}\n",
		func(a, b uint64) (uint64, bool) { return uint64(bits.OnesCount64(a^b)) + 1, true }})
	m64 := func(fn, expr string, ref func(a, b uint64) (uint64, bool)) {
		list = append(list, bi{"math." + fn, "math." + fn, 64,
			fmt.Sprintf("package main\n\nimport (\n\t\"math\"\n)\n\nfunc main(a, b uint64) uint64 {\n\treturn math.%s(a, b)\n}\n", fn), ref})
	}
	m64("AddUint64", "+", func(a, b uint64) (uint64, bool) { return a + b, true })
	m64("SubUint64", "-", func(a, b uint64) (uint64, bool) { return a - b, true })
	m64("MulUint64", "*", func(a, b uint64) (uint64, bool) { return a * b, true })
	m64("DivUint64", "/", func(a, b uint64) (uint64, bool) {
		// pkg/math/div64.circ is a signed 64-bit divider (the same circuit file for every
		// configuration): the reference is the truncated int64 quotient
		if b == 0 || (int64(a) == -1<<63 && int64(b) == -1) {
			return 0, false
		}
		return uint64(int64(a) / int64(b)), true
	})
	var cfgs []c09Cfg
	for _, prune := range []bool{false, true} {
		for _, thr := range []int{0, 8, 21, 64} {
			for _, tgt := range []utils.Target{utils.TargetYao, utils.TargetGMW} {
				cfgs = append(cfgs, c09Cfg{prune, thr, tgt})
			}
		}
	}
	devnull, _ := os.OpenFile(os.DevNull, os.O_WRONLY, 0)
	saved := os.Stdout
	if devnull != nil {
		os.Stdout = devnull
		defer func() { os.Stdout = saved; devnull.Close() }()
	}
	r := c.rng.Fork()
	for _, b := range list {
		c.Hist("builtin:" + b.tag)
		// vectors (a, b)
		var vs [][2]uint64
		mask := uint64(1)<<uint(b.w) - 1
		if b.w == 64 {
			mask = ^uint64(0)
		}
		if 2*b.w <= 16 {
			for a := uint64(0); a <= mask; a++ {
				for bb := uint64(0); bb <= mask; bb++ {
					vs = append(vs, [2]uint64{a, bb})
				}
			}
		} else {
			vs = append(vs, [2]uint64{0, 0}, [2]uint64{0, mask}, [2]uint64{mask, 0}, [2]uint64{mask, mask},
				[2]uint64{1, 0}, [2]uint64{0, 3 & mask}, [2]uint64{mask, 1}, [2]uint64{mask >> 1, mask})
			for len(vs) < 64 {
				vs = append(vs, [2]uint64{r.U64() & mask, r.U64() & mask})
			}
		}
		prog := c09Prog{Name: "builtin:" + b.tag, Src: b.src}
		for _, k := range cfgs {
			ckey := fmt.Sprintf("prune=%v:thr=%d:%s", k.prune, k.thr, k.tgt)
			rp := c09BuiltinReplay{Seed: c.Seed, Builtin: b.tag, Source: b.src, Config: k.String(), Vectors: len(vs)}
			circ, e := c09CompileProg(prog, k)
			c.Eval(prog.Name+"|"+k.String(), true)
			if e != "" {
				rp.Error = e
				c.Fail("c09:prog:builtin:"+b.name+":does-not-compile:"+ckey, "a program using a builtin/native circuit does not compile under this configuration", rp)
				continue
			}
			nfail := 0
			for _, v := range vs {
				want, ok := b.ref(v[0], v[1])
				if !ok {
					continue
				}
				want &= mask
				var got uint64
				msg := c09Try(func() {
					res, err := circ.Compute([]*big.Int{new(big.Int).SetUint64(v[0]), new(big.Int).SetUint64(v[1])})
					if err != nil {
						panic(err)
					}
					got = res[0].Uint64()
				})
				if msg != "" || got != want {
					if nfail == 0 {
						rp.A, rp.B, rp.Got, rp.Want, rp.Error = fmt.Sprint(v[0]), fmt.Sprint(v[1]), fmt.Sprint(got), fmt.Sprint(want), msg
					}
					nfail++
				}
			}
			if nfail > 0 {
				rp.Failing = nfail
				c.Fail("c09:prog:builtin:"+b.name+":output-differs:"+ckey,
					fmt.Sprintf("%s(%s, %s) = %s under %s, want %s: the compiled builtin depends on the configuration or is wrong", b.tag, rp.A, rp.B, rp.Got, k, rp.Want), rp)
			}
		}
	}
}

func indexOf(l []int, v int) int {
	for i, x := range l {
		if x == v {
			return i
		}
	}
	return 0
}

func runC09(c *Ctx) error {
	t0 := time.Now()
	if err := c09Graphs(c); err != nil {
		return err
	}
	t1 := time.Now()
	if err := c09Deep(c); err != nil {
		return err
	}
	t2 := time.Now()
	if err := c09Divs(c); err != nil {
		return err
	}
	c09LitDivs(c)
	c09Builtins(c)
	c09Sweep(c)
	t3 := time.Now()
	err := c09Progs(c)
	c.Note("graphs %.1fs, deep chains %.1fs, divisions %.1fs, programs %.1fs", t1.Sub(t0).Seconds(), t2.Sub(t1).Seconds(), t3.Sub(t2).Seconds(), time.Since(t3).Seconds())
	return err
}

var _ = big.NewInt
