package main

// Directed streaming programs for the wire allocator's hash chains
// (compiler/ssa/wire_allocator.go: hash buckets of Value.HashCode mod 10240,
// lookup with move-to-front from chain position 3 on, remove, GCWires): the
// program is sized — by searching with the REAL hash function and the real
// compiler — so that the result of one instruction lands in the hash bucket of
// one of its operands, the operand dies at that instruction (gc) while the
// result is read later.  The dying value is then second in its chain with the
// newer colliding value at the head.

import (
	"fmt"
	"strings"

	"github.com/markkurossi/mpc/compiler"
	"github.com/markkurossi/mpc/compiler/circuits"
	"github.com/markkurossi/mpc/compiler/ssa"
	"github.com/markkurossi/mpc/compiler/utils"
)

type c05HashTmpl struct {
	name string
	src  func(n, pad int) string
	// the operand whose bucket the result of its consuming instruction must hit
	target func(v ssa.Value) bool
	maxN   int
}

func c05HashTemplates(arg string, bits int) []c05HashTmpl {
	return []c05HashTmpl{
		{
			// the garbler's argument and the temporary holding arg+1
			name: "arg-vs-temp",
			src: func(n, pad int) string {
				w, ret := "", "t + u"
				if pad > 0 {
					// one more temporary before the colliding one
					w, ret = "\tw := b + 3\n", "t + u + w"
				}
				return fmt.Sprintf(`package main

func main(%s, b uint%d) uint%d {
	h := b
%s	for i := 0; i < %d; i++ {
		h = (h ^ b) + 7
	}
	t := h ^ b
	u := %s + 1
	return %s
}
`, arg, bits, bits, w, n, arg, ret)
			},
			target: func(v ssa.Value) bool { return !v.Const && v.Name == arg && v.Scope == 1 },
			maxN:   400,
		},
		{
			// two temporaries 5120 versions apart: s (%_{0,0}) lives across the loop
			name: "temp-vs-temp",
			src: func(n, pad int) string {
				w, ret := "", "(h ^ b) + u"
				if pad > 0 {
					w, ret = "\tw := b + 3\n", "(h ^ b) + u + w"
				}
				return fmt.Sprintf(`package main

func main(%s, b uint%d) uint%d {
	s := %s ^ b
	h := b
%s	for i := 0; i < %d; i++ {
		h = (h ^ b) + 7
	}
	u := s + 1
	return %s
}
`, arg, bits, bits, arg, w, n, ret)
			},
			target: func(v ssa.Value) bool { return !v.Const && v.Name == "%_" && v.Scope == 0 && v.Version == 0 },
			maxN:   3000,
		},
	}
}

func c05CompileSSA(src string) (prog *ssa.Program, err error) {
	defer func() {
		if r := recover(); r != nil {
			err = fmt.Errorf("panic: %v", r)
		}
	}()
	params := utils.NewParams()
	defer params.Close()
	prog, _, err = compiler.New(params).CompileSSA("{data}", strings.NewReader(src), [][]int{nil, nil})
	return
}

// c05TargetUse returns the target operand and the result of the (last)
// circuit instruction that consumes it.
func c05TargetUse(prog *ssa.Program, t c05HashTmpl) (in, out ssa.Value, ok bool) {
	for _, st := range prog.Steps {
		instr := st.Instr
		if instr.Out == nil || instr.Op == ssa.GC || c05IsAliasOp(instr.Op) {
			continue
		}
		for _, v := range instr.In {
			if t.target(v) {
				in, out, ok = v, *instr.Out, true
			}
		}
	}
	return
}

// c05HashSearch finds loop counts for which the result's bucket equals the
// operand's bucket (real hash), using two probe compilations to predict the
// version number of the result as a linear function of the loop count.
var c05HashDebug string

func c05HashSearch(t c05HashTmpl, pad int) (hits []int, bucket int) {
	walloc := ssa.NewWireAllocator(circuits.NewAllocator())
	ver := func(n int) (in ssa.Value, v int, ok bool) {
		prog, err := c05CompileSSA(t.src(n, pad))
		if err != nil {
			return
		}
		in, out, ok := c05TargetUse(prog, t)
		if !ok || out.Name != "%_" {
			return in, 0, false
		}
		return in, int(out.Version), true
	}
	in, v2, ok2 := ver(2)
	_, v3, ok3 := ver(3)
	if !ok2 || !ok3 || v3 <= v2 {
		return nil, 0
	}
	d := v3 - v2
	bucket = walloc.VerifC05Bucket(in)
	var coll []int
	for j := 0; j < 12000 && len(coll) < 6; j++ {
		if walloc.VerifC05Bucket(ssa.Value{Name: "%_", Scope: 0, Version: int32(j)}) == bucket {
			coll = append(coll, j)
		}
	}
	c05HashDebug = fmt.Sprintf("target %s bucket %d, result version %d + %d*(n-2), colliding versions %v", in.String(), bucket, v2, d, coll)
	for n := 0; n <= t.maxN && len(hits) < 1; n++ {
		j := v2 + (n-2)*d
		if j < 0 {
			continue
		}
		out := ssa.Value{Name: "%_", Scope: 0, Version: int32(j)}
		if walloc.VerifC05Bucket(out) != bucket {
			continue
		}
		// confirm with the real compilation
		prog, err := c05CompileSSA(t.src(n, pad))
		if err != nil {
			continue
		}
		pin, pout, ok := c05TargetUse(prog, t)
		if ok && walloc.VerifC05Bucket(pin) == walloc.VerifC05Bucket(pout) && !pout.Equal(&pin) {
			hits = append(hits, n)
		}
	}
	return hits, bucket
}

// c05HashPrograms: per run a handful of collision programs plus their
// neighbours (loop count +-1) as controls.
func c05HashPrograms(c *Ctx) []c05Prog {
	r := c.rng.Fork()
	args := []string{"a", "c", "e", "g", "i", "k"}
	var progs []c05Prog
	pick := []string{args[r.Intn(len(args))], args[r.Intn(len(args))]}
	if c.Thorough() {
		pick = args
	}
	for idx, arg := range pick {
		bits := []int{8, 16, 32}[r.Intn(3)]
		for ti, t := range c05HashTemplates(arg, bits) {
			if ti == 1 && idx > 0 && !c.Thorough() {
				continue // one long temp-vs-temp program per quick run
			}
			pad := 0
			hits, bucket := c05HashSearch(t, pad)
			if len(hits) == 0 {
				pad = 1
				hits, bucket = c05HashSearch(t, pad)
			}
			if len(hits) == 0 {
				c.Hist("hash-collision:" + t.name + ":no-collision-found")
				c.Note("hash-collision %s arg %s: none: %s", t.name, arg, c05HashDebug)
				continue
			}
			for _, n := range hits {
				for _, dn := range []int{0, -1, 1} {
					if dn != 0 && ti == 1 {
						continue
					}
					feat := map[string]int{"hash-collision:" + t.name: 1}
					if dn != 0 {
						feat = map[string]int{"hash-collision-control:" + t.name: 1}
					}
					progs = append(progs, c05Prog{src: t.src(n+dn, pad),
						g:    []string{fmt.Sprint(1 + r.Intn(1<<uint(bits-1)))},
						e:    []string{fmt.Sprint(1 + r.Intn(1<<uint(bits-1)))},
						feat: feat, nstmts: n + dn})
				}
				c.Note("hash-collision %s: arg %s uint%d, loop count %d, bucket %d", t.name, arg, bits, n, bucket)
			}
		}
	}
	return progs
}
