package main

// C09 door sweep (notes/C09-findings.md, table "Doors"): ways into the
// anchored functionality that the main generators do not take.
//  D1 every utils.Params field that is meant to be non-semantic (Verbose,
//     Diagnostics, MPCLCErrorLoc, BenchmarkCompile, CircOut+CircFormat,
//     CircDotOut, CircSvgOut, SSAOut, SSADotOut, Warn): one at a time and all
//     together, both targets, prune on/off: the circuit must be the same.
//  D2 circuits written by CircOut (mpclc, bristol), loaded again, AssignLevels
//     for the target: same gates, same levels, same function.
//  D3 the pass order of the streaming compiler (ConstPropagate, Prune, Compile,
//     no ShortCircuitXORZero) and passes called twice, on the random graphs.
//  D4 call patterns: one compiler.Compiler / one Params compiling A, B, A;
//     concurrent compilations; GC pressure (GOGC=1) and GOMAXPROCS=1.
// Oracle only (the model has no Params, files or call patterns).

import (
	"bytes"
	"fmt"
	"io"
	"os"
	"path/filepath"
	"runtime"
	"runtime/debug"
	"strings"
	"sync"

	"github.com/markkurossi/mpc/circuit"
	"github.com/markkurossi/mpc/compiler"
	"github.com/markkurossi/mpc/compiler/utils"
)

type c09NopCloser struct{ io.Writer }

func (c09NopCloser) Close() error { return nil }

type c09SweepReplay struct {
	Seed    uint64 `json:"seed"`
	Door    string `json:"door"`
	Program string `json:"program,omitempty"`
	Source  string `json:"source,omitempty"`
	Config  string `json:"config,omitempty"`
	Field   string `json:"params_field,omitempty"`
	Inputs  string `json:"inputs,omitempty"`
	Got     string `json:"got,omitempty"`
	Want    string `json:"want,omitempty"`
	Detail  string `json:"detail,omitempty"`
}

func c09SweepParams(tgt utils.Target, prune bool) *utils.Params {
	params := utils.NewParams()
	params.Target = tgt
	params.OptPruneGates = prune
	params.Warn.DisableAll()
	params.PkgPath = []string{filepath.Join(repoRoot(), "pkg")}
	return params
}

func c09SweepCompile(cc *compiler.Compiler, src string) (circ *circuit.Circuit, errMsg string) {
	msg := c09Try(func() {
		var err error
		circ, _, err = cc.Compile(src, nil)
		if err != nil {
			errMsg = "error: " + err.Error()
		}
	})
	if msg != "" {
		errMsg = "panic: " + msg
	}
	return
}

func c09GatesText(c *circuit.Circuit) string {
	var sb strings.Builder
	fmt.Fprintf(&sb, "%d/%d;", c.NumWires, c.NumGates)
	for _, g := range c.Gates {
		fmt.Fprintf(&sb, "%d %d %d %d;", g.Op, g.Input0, g.Input1, g.Output)
	}
	return sb.String()
}

func c09LevelsText(c *circuit.Circuit, tgt utils.Target) string {
	c.AssignLevels(tgt)
	var sb strings.Builder
	for _, g := range c.Gates {
		fmt.Fprintf(&sb, "%d,", g.Level)
	}
	return sb.String()
}

func c09SweepVectors(r *RNG, ni int) [][]bool {
	var xs [][]bool
	if ni <= 10 {
		for v := 0; v < 1<<uint(ni); v++ {
			x := make([]bool, ni)
			for b := 0; b < ni; b++ {
				x[b] = v>>uint(b)&1 == 1
			}
			xs = append(xs, x)
		}
		return xs
	}
	for k := 0; k < 24; k++ {
		x := make([]bool, ni)
		for b := range x {
			x[b] = k == 1 || (k > 1 && r.Bool())
		}
		xs = append(xs, x)
	}
	return xs
}

func c09ComputeStr(circ *circuit.Circuit, x []bool) string {
	out := ""
	msg := c09Try(func() {
		res, err := circ.Compute(SplitInputs(circ, x))
		if err != nil {
			panic(err)
		}
		out = bitsString(JoinOutputs(circ, res))
	})
	if msg != "" {
		return "panic: " + msg
	}
	return out
}

func c09Sweep(c *Ctx) {
	r := c.rng.Fork()
	devnull, _ := os.OpenFile(os.DevNull, os.O_WRONLY, 0)
	saved := os.Stdout
	if devnull != nil {
		os.Stdout = devnull
		defer func() { os.Stdout = saved; devnull.Close() }()
	}
	progs := []c09Prog{
		{Name: "sweep:add-mul", Src: "package main\nfunc main(a, b uint5) uint5 {\n    return a * b + a\n}\n"},
		{Name: "sweep:if-mask", Src: "package main\nfunc main(a, b int5) int5 {\n    x := a & 0x0b\n    if x > b {\n        return x - b\n    }\n    return x * x ^ b\n}\n"},
		{Name: "sweep:div-pair", Src: "package main\nfunc main(a0, b0 uint6, a1, b1 uint3) (uint6, uint3) {\n    return a0 / b0, a1 % b1\n}\n"},
		{Name: "sweep:hamming", Src: "package main\n\nimport (\n\t\"encoding/binary\"\n)\n\nfunc main(a, b uint5) uint5 {\n\treturn binary.HammingDistance(a, b)\n}\n"},
		{Name: "sweep:loop-array", Src: "package main\nfunc main(a, b uint4) uint4 {\n    var arr [3]uint4\n    for i := 0; i < 3; i = i + 1 {\n        arr[i] = a + i\n    }\n    return arr[b % 3] | 1\n}\n"},
	}
	type field struct {
		name string
		set  func(p *utils.Params, buf *bytes.Buffer)
	}
	fields := []field{
		{"Verbose", func(p *utils.Params, _ *bytes.Buffer) { p.Verbose = true }},
		{"Diagnostics", func(p *utils.Params, _ *bytes.Buffer) { p.Diagnostics = true }},
		{"MPCLCErrorLoc", func(p *utils.Params, _ *bytes.Buffer) { p.MPCLCErrorLoc = true }},
		{"BenchmarkCompile", func(p *utils.Params, _ *bytes.Buffer) { p.BenchmarkCompile = true }},
		{"Warn", func(p *utils.Params, _ *bytes.Buffer) { p.Warn.EnableAll() }},
		{"CircOut:mpclc", func(p *utils.Params, b *bytes.Buffer) { p.CircOut, p.CircFormat = c09NopCloser{b}, "mpclc" }},
		{"CircOut:bristol", func(p *utils.Params, b *bytes.Buffer) { p.CircOut, p.CircFormat = c09NopCloser{b}, "bristol" }},
		{"CircDotOut", func(p *utils.Params, _ *bytes.Buffer) { p.CircDotOut = c09NopCloser{io.Discard} }},
		{"CircSvgOut", func(p *utils.Params, _ *bytes.Buffer) { p.CircSvgOut = c09NopCloser{io.Discard} }},
		{"SSAOut", func(p *utils.Params, _ *bytes.Buffer) { p.SSAOut = c09NopCloser{io.Discard} }},
		{"SSADotOut", func(p *utils.Params, _ *bytes.Buffer) { p.SSADotOut = c09NopCloser{io.Discard} }},
	}
	all := field{"all-together", func(p *utils.Params, b *bytes.Buffer) {
		for _, f := range fields {
			if f.name != "CircOut:bristol" {
				f.set(p, b)
			}
		}
	}}
	fail := func(key, what string, rp c09SweepReplay) {
		rp.Seed = c.Seed
		c.Fail(key, what, rp)
	}
	type quiet struct {
		circ   *circuit.Circuit
		gates  string
		levels string
		outs   []string
		xs     [][]bool
	}
	base := map[string]*quiet{}
	for pi, p := range progs {
		for _, tgt := range []utils.Target{utils.TargetYao, utils.TargetGMW} {
			for _, prune := range []bool{false, true} {
				cfg := fmt.Sprintf("prune=%v:%s", prune, tgt)
				qc, e := c09SweepCompile(compiler.New(c09SweepParams(tgt, prune)), p.Src)
				c.Eval("sweep|"+p.Name+"|"+cfg, true)
				if e != "" {
					fail("c09:sweep:program-does-not-compile:"+cfg, "a sweep program does not compile", c09SweepReplay{Door: "D1", Program: p.Name, Source: p.Src, Config: cfg, Detail: e})
					continue
				}
				q := &quiet{circ: qc, gates: c09GatesText(qc), levels: c09LevelsText(qc, tgt)}
				q.xs = c09SweepVectors(r, qc.Inputs.Size())
				for _, x := range q.xs {
					q.outs = append(q.outs, c09ComputeStr(qc, x))
				}
				base[p.Name+cfg] = q
				// D1 + D2: one field at a time on the first two programs, all together on every program
				fs := []field{all}
				if pi < 2 {
					fs = append(fs, fields...)
				}
				for _, f := range fs {
					c.Hist("door:D1:params-field:" + f.name)
					var buf bytes.Buffer
					params := c09SweepParams(tgt, prune)
					f.set(params, &buf)
					nc, e := c09SweepCompile(compiler.New(params), p.Src)
					rp := c09SweepReplay{Door: "D1", Program: p.Name, Source: p.Src, Config: cfg, Field: f.name}
					if e != "" {
						rp.Detail = e
						fail("c09:params:non-semantic-field:compile-fails:"+f.name, "the program compiles with default Params and not with this non-semantic field set", rp)
						continue
					}
					if g := c09GatesText(nc); g != q.gates {
						rp.Detail = fmt.Sprintf("gates %d vs %d, wires %d vs %d", nc.NumGates, qc.NumGates, nc.NumWires, qc.NumWires)
						fail("c09:params:non-semantic-field:circuit-differs:"+f.name, "a Params field that is meant to be non-semantic changes the compiled circuit", rp)
					}
					if l := c09LevelsText(nc, tgt); l != q.levels {
						fail("c09:params:non-semantic-field:levels-differ:"+f.name, "AssignLevels(target) after compiling with this non-semantic field set gives other levels", rp)
					}
					for xi, x := range q.xs {
						if got := c09ComputeStr(nc, x); got != q.outs[xi] {
							rp.Inputs, rp.Got, rp.Want = bitsString(x), got, q.outs[xi]
							fail("c09:params:non-semantic-field:output-differs:"+f.name, "a Params field that is meant to be non-semantic changes the compiled function", rp)
							break
						}
					}
					// D2: the written circuit, loaded again
					if buf.Len() > 0 && strings.HasPrefix(f.name, "CircOut") || (f.name == "all-together" && buf.Len() > 0) {
						format := "mpclc"
						if f.name == "CircOut:bristol" {
							format = "bristol"
						}
						c.Hist("door:D2:load-" + format + "-then-AssignLevels:" + tgt.String())
						var lc *circuit.Circuit
						var lerr error
						msg := c09Try(func() {
							if format == "bristol" {
								lc, lerr = circuit.ParseBristol(bytes.NewReader(buf.Bytes()))
							} else {
								lc, lerr = circuit.ParseMPCLC(bytes.NewReader(buf.Bytes()))
							}
						})
						rp2 := c09SweepReplay{Door: "D2", Program: p.Name, Source: p.Src, Config: cfg, Field: format}
						if msg != "" || lerr != nil {
							rp2.Detail = fmt.Sprint(msg, lerr)
							fail("c09:file:"+format+":written-circuit-does-not-load", "the circuit written through Params.CircOut cannot be loaded", rp2)
							continue
						}
						if g := c09GatesText(lc); g != q.gates {
							fail("c09:file:"+format+":loaded-circuit-differs", "the circuit written through Params.CircOut and loaded again has other gates", rp2)
						}
						if l := c09LevelsText(lc, tgt); l != q.levels {
							fail("c09:file:"+format+":AssignLevels-after-load-differs:"+tgt.String(), "AssignLevels(target) on the loaded circuit differs from AssignLevels on the compiled one", rp2)
						}
						if lc.Inputs.Size() == qc.Inputs.Size() {
							for xi, x := range q.xs {
								if got := c09ComputeStr(lc, x); got != q.outs[xi] {
									rp2.Inputs, rp2.Got, rp2.Want = bitsString(x), got, q.outs[xi]
									fail("c09:file:"+format+":loaded-circuit-output-differs:"+tgt.String(), "the loaded circuit computes something else than the compiled one", rp2)
									break
								}
							}
						}
					}
				}
			}
		}
	}
	// D4: one Compiler (and one Params) compiling A, B, A; concurrent compilations; GC pressure
	for _, tgt := range []utils.Target{utils.TargetYao, utils.TargetGMW} {
		cfg := fmt.Sprintf("prune=true:%s", tgt)
		c.Hist("door:D4:call-patterns:" + tgt.String())
		check := func(pattern string, p c09Prog, nc *circuit.Circuit, e string) {
			q := base[p.Name+cfg]
			if q == nil {
				return
			}
			rp := c09SweepReplay{Door: "D4", Program: p.Name, Source: p.Src, Config: cfg, Field: pattern}
			if e != "" {
				rp.Detail = e
				fail("c09:call-pattern:"+pattern+":compile-fails", "a compilation that succeeds in a fresh compiler fails in this call pattern", rp)
				return
			}
			if c09GatesText(nc) != q.gates {
				fail("c09:call-pattern:"+pattern+":circuit-differs", "the compiled circuit depends on what was compiled before / at the same time", rp)
			}
			for xi, x := range q.xs {
				if got := c09ComputeStr(nc, x); got != q.outs[xi] {
					rp.Inputs, rp.Got, rp.Want = bitsString(x), got, q.outs[xi]
					fail("c09:call-pattern:"+pattern+":output-differs", "the compiled function depends on what was compiled before / at the same time", rp)
					break
				}
			}
		}
		shared := compiler.New(c09SweepParams(tgt, true))
		for _, k := range []int{0, 3, 0, 1, 3, 2, 0} { // A, B(import), A, ...
			nc, e := c09SweepCompile(shared, progs[k].Src)
			check("same-compiler-A-B-A", progs[k], nc, e)
		}
		sp := c09SweepParams(tgt, true)
		for _, k := range []int{1, 3, 1} {
			nc, e := c09SweepCompile(compiler.New(sp), progs[k].Src)
			check("same-params-object", progs[k], nc, e)
		}
		var wg sync.WaitGroup
		res := make([]*circuit.Circuit, len(progs))
		errs := make([]string, len(progs))
		for k := range progs {
			wg.Add(1)
			go func(k int) {
				defer wg.Done()
				res[k], errs[k] = c09SweepCompile(compiler.New(c09SweepParams(tgt, true)), progs[k].Src)
			}(k)
		}
		wg.Wait()
		for k := range progs {
			check("concurrent-compilations", progs[k], res[k], errs[k])
		}
		oldGC := debug.SetGCPercent(1)
		oldP := runtime.GOMAXPROCS(1)
		for _, k := range []int{0, 2} {
			nc, e := c09SweepCompile(compiler.New(c09SweepParams(tgt, true)), progs[k].Src)
			check("GOGC=1-GOMAXPROCS=1", progs[k], nc, e)
		}
		runtime.GOMAXPROCS(oldP)
		debug.SetGCPercent(oldGC)
	}
}

// D3: the streaming compiler's pass order and repeated passes on one recipe;
// returns "" or a description of the first difference.
func c09SweepPassOrders(rc *c09Recipe, xs [][]bool, want []string, tgt utils.Target) (string, string, string) {
	type order struct {
		name string
		run  func(b *c09Built)
	}
	orders := []order{
		{"streamer:ConstPropagate-Prune-Compile", func(b *c09Built) { b.cc.ConstPropagate(); b.cc.Prune() }},
		{"passes-twice", func(b *c09Built) {
			b.cc.ConstPropagate()
			b.cc.ConstPropagate()
			b.cc.ShortCircuitXORZero()
			b.cc.ShortCircuitXORZero()
			b.cc.Prune()
			b.cc.Prune()
		}},
		{"Prune-only", func(b *c09Built) { b.cc.Prune() }},
		{"Compile-only", func(b *c09Built) {}},
	}
	for _, o := range orders {
		params := utils.NewParams()
		params.Target = tgt
		b, err := c09Build(rc, params)
		if err != nil {
			return o.name, "build: " + err.Error(), ""
		}
		var circ *circuit.Circuit
		if msg := c09Try(func() { o.run(b); circ = b.cc.Compile() }); msg != "" {
			return o.name, "panic: " + msg, ""
		}
		for v, x := range xs {
			if got := c09ComputeStr(circ, x); got != want[v] {
				return o.name, fmt.Sprintf("x=%s got %s want %s", bitsString(x), got, want[v]), bitsString(x)
			}
		}
	}
	return "", "", ""
}
