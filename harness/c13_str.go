package main

// Property C13, mpc.Result on string-typed outputs and on the remaining entry
// forms (bool arrays, zero-width types, zero-length arrays, struct outputs,
// mpc.Results versus mpc.Result).  "Decoding a result inverts the encoding":
// a stringN output has N/8 characters, character i is byte i of the value
// (least significant byte first), whatever the byte is — NUL bytes at the end,
// at the start, in the middle, all NUL, bytes >= 0x80.  The reference
// rendering below follows the documented output form of Result (a printable
// rune as itself, anything else as \uXXXX) with the standard library only.

import (
	"fmt"
	"math/big"
	"reflect"
	"unicode"
	"unicode/utf8"

	mpc "github.com/markkurossi/mpc"
	"github.com/markkurossi/mpc/circuit"
	"github.com/markkurossi/mpc/types"
)

type c13StrReplay struct {
	Type   string `json:"type"`
	Bytes  string `json:"string_bytes_hex"`
	Value  string `json:"encoded_value"`
	Got    string `json:"got"`
	Want   string `json:"want"`
	Detail string `json:"detail,omitempty"`
}

// the reference rendering of one string value: every one of the n bytes gives
// exactly one character
func c13RefString(b []byte) string {
	s := ""
	for _, x := range b {
		r := rune(x)
		if unicode.IsPrint(r) && r != '\\' { // the escape introducer itself is escaped (F44)
			s += string(r)
		} else {
			s += fmt.Sprintf("\\u%04x", r)
		}
	}
	return s
}

// number of characters Result rendered (an escaped \uXXXX counts as one)
func c13RenderedChars(s string) int {
	n := 0
	for i := 0; i < len(s); {
		if s[i] == '\\' && i+6 <= len(s) && s[i+1] == 'u' {
			i += 6
		} else {
			_, w := utf8.DecodeRuneInString(s[i:])
			i += w
		}
		n++
	}
	return n
}

func c13EncodeBytes(b []byte) *big.Int {
	z := new(big.Int)
	for i := len(b) - 1; i >= 0; i-- {
		z.Lsh(z, 8)
		z.Or(z, big.NewInt(int64(b[i])))
	}
	return z
}

type c13StrClass struct {
	class string
	gen   func(r *RNG, n int) []byte
}

func c13Text(r *RNG, n int) []byte {
	b := make([]byte, n)
	for i := range b {
		b[i] = byte(0x21 + r.Intn(0x5e))
	}
	return b
}

var c13StrClasses = []c13StrClass{
	{"printable", c13Text},
	{"trailing-nul", func(r *RNG, n int) []byte {
		b := c13Text(r, n)
		for k := 1 + r.Intn(n); k > 0; k-- {
			b[n-k] = 0
		}
		if n > 1 {
			b[0] = 'a' // not all NUL
		}
		return b
	}},
	{"leading-nul", func(r *RNG, n int) []byte {
		b := c13Text(r, n)
		b[0] = 0
		return b
	}},
	{"embedded-nul", func(r *RNG, n int) []byte {
		b := c13Text(r, n)
		b[n/2] = 0
		return b
	}},
	{"all-nul", func(r *RNG, n int) []byte { return make([]byte, n) }},
	{"high-bytes", func(r *RNG, n int) []byte {
		b := make([]byte, n)
		for i := range b {
			b[i] = byte(0x80 + r.Intn(0x80))
		}
		return b
	}},
	{"random-bytes", func(r *RNG, n int) []byte { return r.Bytes(n) }},
	{"backslash", func(r *RNG, n int) []byte { // the escape introducer itself, and text that looks like an escape
		b := c13Text(r, n)
		copy(b[r.Intn(n):], []byte("\\u0000"))
		return b
	}},
}

func (x *c13Run) stringFail(class, typ string, b []byte, enc *big.Int, got, want string) {
	key := "c13:Result:string:" + class + ":wrong-value"
	what := "Result of a string output is not the characters of the value"
	if c13RenderedChars(got) < c13RenderedChars(want) {
		key = "c13:Result:string:" + class + ":characters-dropped"
		if class == "trailing-nul" || class == "all-nul" {
			key = "c13:Result:string:trailing-nul-dropped"
		}
		what = fmt.Sprintf("Result renders %d characters of a string of %d", c13RenderedChars(got), c13RenderedChars(want))
	}
	x.c.Fail(key, what, c13StrReplay{Type: typ, Bytes: fmt.Sprintf("%x", b), Value: "0x" + enc.Text(16), Got: fmt.Sprintf("%q", got), Want: fmt.Sprintf("%q", want)})
}

// stringResults: string outputs, arrays of strings, Results (plural)
func (x *c13Run) stringResults(r *RNG) {
	c := x.c
	x.i = -5
	for _, cl := range c13StrClasses {
		for _, n := range []int{1, 2, 3, 4, 8, 16, 33} {
			for rep := 0; rep < 2; rep++ {
				b := cl.gen(r, n)
				enc := c13EncodeBytes(b)
				l := &c13Shape{kind: c13String, bits: 8 * n}
				t := l.Info()
				x.checkResult(l, nil, enc) // correspondence case, twice on one *big.Int
				c.Hist("result-string:" + cl.class)
				o, code := c13Result(new(big.Int).Set(enc), t)
				got, isStr := o.(string)
				want := c13RefString(b)
				if code != 0 || !isStr {
					x.stringFail(cl.class, t.String(), b, enc, fmt.Sprintf("code %d %T", code, o), want)
				} else if got != want {
					x.stringFail(cl.class, t.String(), b, enc, got, want)
				}
				// a second decode of the same value
				if o2, _ := c13Result(new(big.Int).Set(enc), t); code == 0 && !reflect.DeepEqual(o, o2) {
					x.stringFail(cl.class+":not-repeatable", t.String(), b, enc, fmt.Sprint(o2), want)
				}
			}
		}
		// array / slice of strings: element i is string i
		for _, count := range []int{1, 2, 3} {
			n := 1 + r.Intn(4)
			el := &c13Shape{kind: c13String, bits: 8 * n}
			kind := c13Array
			if r.Bool() {
				kind = c13Slice
			}
			l := &c13Shape{kind: kind, elem: el, n: count}
			var all []byte
			var wants []string
			for i := 0; i < count; i++ {
				b := cl.gen(r, n)
				all = append(all, b...)
				wants = append(wants, c13RefString(b))
			}
			enc := c13EncodeBytes(all)
			t := l.Info()
			x.checkResult(l, nil, enc)
			o, code := c13Result(new(big.Int).Set(enc), t)
			got, ok := o.([]string)
			if code != 0 || !ok || !reflect.DeepEqual(got, wants) {
				g, w := fmt.Sprintf("%q", o), fmt.Sprintf("%q", wants)
				short := ok && len(got) == len(wants)
				if short {
					short = false
					for i := range got {
						if c13RenderedChars(got[i]) < c13RenderedChars(wants[i]) {
							short = true
						}
					}
				}
				key := "c13:Result:string-array:" + cl.class + ":wrong-value"
				if short && (cl.class == "trailing-nul" || cl.class == "all-nul") {
					key = "c13:Result:string:trailing-nul-dropped"
				}
				c.Fail(key, "Result of an array of strings is not the strings of the elements",
					c13StrReplay{Type: t.String(), Bytes: fmt.Sprintf("%x", all), Value: "0x" + enc.Text(16), Got: g, Want: w})
			}
		}
	}

	// mpc.Results (plural) is Result per output; with nil outputs every value is returned as a *big.Int
	outs := circuit.IO{
		{Name: "s", Type: (&c13Shape{kind: c13String, bits: 24}).Info()},
		{Name: "i", Type: (&c13Shape{kind: c13Int, bits: 13}).Info()},
		{Name: "b", Type: types.Bool},
		{Name: "a", Type: (&c13Shape{kind: c13Array, n: 3, elem: &c13Shape{kind: c13Bool}}).Info()},
		{Name: "u", Type: (&c13Shape{kind: c13Uint, bits: 70}).Info()},
	}
	vals := []*big.Int{c13EncodeBytes([]byte{'a', 'b', 0}), big.NewInt(8191), big.NewInt(1), big.NewInt(5), c13Pow2(69)}
	cp := func() []*big.Int {
		o := make([]*big.Int, len(vals))
		for i, v := range vals {
			o[i] = new(big.Int).Set(v)
		}
		return o
	}
	plural := mpc.Results(cp(), outs)
	wantPlural := []string{`(4 (61 62 5c 75 30 30 30 30))`, `(2 1 10 -1)`, `(1 1)`, `(5 1 0 ((1 1) (1 0) (1 1)))`, ``}
	for i := range vals {
		single, _ := c13Result(new(big.Int).Set(vals[i]), outs[i].Type)
		c.Eval(fmt.Sprintf("results-plural|%d", i), true)
		if i >= len(plural) || c13OutProj(plural[i], outs[i].Type).String() != c13OutProj(single, outs[i].Type).String() {
			c.Fail("c13:Results:differs-from-Result", "mpc.Results is not mpc.Result per output",
				c13StrReplay{Type: outs[i].Type.String(), Value: "0x" + vals[i].Text(16), Got: fmt.Sprint(plural), Want: fmt.Sprint(single)})
		} else if wantPlural[i] != "" && c13OutProj(single, outs[i].Type).String() != wantPlural[i] {
			c.Fail("c13:Result:fixed-example:wrong-value", "Result of a fixed example is not the expected Go value",
				c13StrReplay{Type: outs[i].Type.String(), Value: "0x" + vals[i].Text(16), Got: c13OutProj(single, outs[i].Type).String(), Want: wantPlural[i]})
		}
	}
	for i, v := range mpc.Results(cp(), nil) {
		bi, ok := v.(*big.Int)
		if !ok || bi.Cmp(vals[i]) != 0 {
			c.Fail("c13:Results:nil-outputs", "mpc.Results with nil outputs does not return the raw values",
				c13StrReplay{Value: "0x" + vals[i].Text(16), Got: fmt.Sprint(v), Want: vals[i].String()})
		}
	}

	// remaining entry forms of Result: bool arrays, zero-length arrays, zero-width types, struct outputs
	for n := 0; n <= 9; n++ {
		l := &c13Shape{kind: c13Array, n: n, elem: &c13Shape{kind: c13Bool}}
		if n%2 == 1 {
			l.kind = c13Slice
		}
		v := &c13Val{}
		for i := 0; i < n; i++ {
			v.elems = append(v.elems, big.NewInt(int64(r.Intn(2))))
		}
		x.checkResult(l, v, c13FromBits(c13Encode(l, v))) // decode == the bits, twice, argument untouched
	}
	for _, el := range []*c13Shape{{kind: c13Uint, bits: 8}, {kind: c13Int, bits: 16}, {kind: c13Uint, bits: 100}, {kind: c13String, bits: 16}} {
		l := &c13Shape{kind: c13Array, n: 0, elem: el}
		x.checkResult(l, nil, c13RandBits(r, 20)) // empty slice of the element's Go type
		o, code := c13Result(c13RandBits(r, 20), l.Info())
		if code != 0 || reflect.ValueOf(o).Kind() != reflect.Slice || reflect.ValueOf(o).Len() != 0 {
			c.Fail("c13:Result:zero-length-array", "Result of a zero-length array is not an empty slice",
				c13StrReplay{Type: l.String(), Got: fmt.Sprintf("%#v (code %d)", o, code), Want: "empty slice"})
		}
	}
	for _, l := range []*c13Shape{{kind: c13Uint, bits: 0}, {kind: c13String, bits: 0}, {kind: c13Int, bits: 0},
		{kind: c13Array, n: 2, elem: &c13Shape{kind: c13Uint, bits: 0}}} {
		x.checkResult(l, nil, c13RandBits(r, 9)) // zero-width: correspondence (uint0 -> 0, string0 -> "", int0 panics)
	}
	st := &c13Shape{kind: c13Struct, fields: []*c13Shape{{kind: c13String, bits: 16}, {kind: c13Uint, bits: 8}}}
	x.checkResult(st, nil, big.NewInt(0x2a6261)) // struct output: Result's default branch (a message), projected to its tag
}
