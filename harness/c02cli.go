package main

// c02cli.go: the two-party protocol through the command-line front end apps/garbled, built from
// the tree under test: one long-running evaluator (`garbled -e`) serves several garblers one
// after the other; the program is instantiated from the sizes of the inputs.  Every session
// must end with both sides printing f(x, y).  Oracle only: the CLI loop is outside the Coq
// model (DESIGN 4, C02).

import (
	"bufio"
	"bytes"
	"context"
	"encoding/hex"
	"fmt"
	"net"
	"os"
	"os/exec"
	"path/filepath"
	"regexp"
	"strconv"
	"sync"
	"syscall"
	"time"
)

func verifRepo() string {
	if r := os.Getenv("VERIF_REPO"); r != "" {
		return r
	}
	return "/repo"
}

var (
	cliOnce sync.Once
	cliPath string
	cliErr  error
)

// buildGarbledCLI builds <repo>/apps/garbled into the run directory (once per process).
func buildGarbledCLI(c *Ctx) (string, error) {
	cliOnce.Do(func() {
		out := filepath.Join(c.OutDir, "garbled-cli")
		cmd := exec.Command("go", "build", "-o", out, "./apps/garbled")
		cmd.Dir = verifRepo()
		cmd.Env = append(os.Environ(), "GOFLAGS=-mod=readonly", "GOPROXY=off") // never writes go.mod / go.sum of the tree
		if b, err := cmd.CombinedOutput(); err != nil {
			cliErr = fmt.Errorf("go build ./apps/garbled: %v\n%s", err, b)
			return
		}
		cliPath = out
	})
	return cliPath, cliErr
}

func freeLoopbackAddr() (string, error) {
	ln, err := net.Listen("tcp", "127.0.0.1:0")
	if err != nil {
		return "", err
	}
	defer ln.Close()
	return ln.Addr().String(), nil
}

var cliResultRE = regexp.MustCompile(`^Result\[0\]: ([0-9]+)$`)

func cliResults(out []byte) []uint64 {
	var res []uint64
	s := bufio.NewScanner(bytes.NewReader(out))
	for s.Scan() {
		if m := cliResultRE.FindStringSubmatch(s.Text()); m != nil {
			v, _ := strconv.ParseUint(m[1], 10, 64)
			res = append(res, v)
		}
	}
	return res
}

const c02CLIProgram = `// -*- go -*-

package main

type Garbler struct {
	a []byte
	b []byte
}

func main(g Garbler, e []byte) uint32 {
	var sum uint32
	for i := 0; i < len(g.a); i++ {
		sum = sum + uint32(g.a[i])
	}
	for i := 0; i < len(g.b); i++ {
		sum = sum + (uint32(g.b[i]) << 8)
	}
	for i := 0; i < len(e); i++ {
		sum = sum + (uint32(e[i]) << 16)
	}
	return sum
}
`

func c02CLIPlain(a, b, e []byte) uint64 {
	var sum uint32
	for _, v := range a {
		sum += uint32(v)
	}
	for _, v := range b {
		sum += uint32(v) << 8
	}
	for _, v := range e {
		sum += uint32(v) << 16
	}
	return uint64(sum)
}

// c02CLI: evaluator loop + garblers whose inputs change shape from session to session:
// different total width, same shape again, and the SAME total width split differently
// between the two fields.
func c02CLI(c *Ctx) error {
	bin, err := buildGarbledCLI(c)
	if err != nil {
		return err
	}
	dir := filepath.Join(c.OutDir, "c02cli")
	if err := os.MkdirAll(dir, 0o755); err != nil {
		return err
	}
	defer os.RemoveAll(dir)
	prog := filepath.Join(dir, "wsum.mpcl")
	if err := os.WriteFile(prog, []byte(c02CLIProgram), 0o644); err != nil {
		return err
	}
	addr, err := freeLoopbackAddr()
	if err != nil {
		return err
	}
	r := c.rng.Fork()
	eInput := r.Bytes(2)
	ctx, cancel := context.WithTimeout(context.Background(), 90*time.Second)
	defer cancel()
	ev := exec.CommandContext(ctx, bin, "-e", "-port", addr, "-i", "0x"+hex.EncodeToString(eInput), prog)
	ev.SysProcAttr = &syscall.SysProcAttr{Setpgid: true}
	evOut, err := ev.StdoutPipe()
	if err != nil {
		return err
	}
	var evErr bytes.Buffer
	ev.Stderr = &evErr
	if err := ev.Start(); err != nil {
		return err
	}
	var mu sync.Mutex
	var evLog bytes.Buffer
	listening := make(chan struct{})
	done := make(chan struct{})
	go func() {
		defer close(done)
		var once sync.Once
		s := bufio.NewScanner(evOut)
		for s.Scan() {
			mu.Lock()
			evLog.WriteString(s.Text() + "\n")
			mu.Unlock()
			once.Do(func() { close(listening) })
		}
	}()
	stopped := false
	stop := func() {
		if stopped {
			return
		}
		stopped = true
		syscall.Kill(-ev.Process.Pid, syscall.SIGKILL)
		<-done
		ev.Wait()
	}
	defer stop()
	select {
	case <-listening:
	case <-done:
		c.Fail("c02:cli:evaluator-loop:did-not-start", "garbled -e exited before listening", evErr.String())
		return nil
	case <-time.After(30 * time.Second):
		c.Fail("c02:cli:evaluator-loop:did-not-start", "garbled -e did not start listening", evErr.String())
		return nil
	}
	type sess struct{ la, lb int }
	sessions := []sess{{4, 2}, {1, 1}, {3, 5}, {5, 3}, {5, 3}, {2, 6}}
	var expected []uint64
	for si, s := range sessions {
		a, b := r.Bytes(s.la), r.Bytes(s.lb)
		want := c02CLIPlain(a, b, eInput)
		expected = append(expected, want)
		g := exec.CommandContext(ctx, bin, "-port", addr, "-i", "0x"+hex.EncodeToString(a)+",0x"+hex.EncodeToString(b), prog)
		out, err := g.CombinedOutput()
		c.Hist("cli:evaluator-loop:session")
		c.Eval(fmt.Sprintf("cli|%d|%x|%x|%x", si, a, b, eInput), true)
		got := cliResults(out)
		if err != nil || len(got) != 1 || got[0] != want {
			time.Sleep(300 * time.Millisecond)
			mu.Lock()
			el := evLog.String()
			mu.Unlock()
			what := "garbler printed a wrong result"
			if err != nil {
				what = "garbler process failed: " + err.Error()
			}
			c.Fail("c02:cli:evaluator-loop:session-failed",
				fmt.Sprintf("apps/garbled: one `garbled -e` evaluator serving garblers in sequence; session %d (garbler fields of %d and %d bytes; earlier sessions %v): %s", si+1, s.la, s.lb, sessions[:si], what),
				map[string]interface{}{"program": c02CLIProgram, "garbler_input": fmt.Sprintf("0x%x,0x%x", a, b), "evaluator_input": fmt.Sprintf("0x%x", eInput),
					"want": want, "garbler_printed": fmt.Sprint(got), "garbler_output": tailString(string(out), 600), "evaluator_stdout": tailString(el, 600), "evaluator_stderr": tailString(evErr.String(), 600)})
			return nil
		}
	}
	deadline := time.Now().Add(10 * time.Second)
	for time.Now().Before(deadline) {
		mu.Lock()
		n := len(cliResults(evLog.Bytes()))
		mu.Unlock()
		if n >= len(sessions) {
			break
		}
		time.Sleep(50 * time.Millisecond)
	}
	stop()
	mu.Lock()
	got := cliResults(evLog.Bytes())
	mu.Unlock()
	if fmt.Sprint(got) != fmt.Sprint(expected) {
		c.Fail("c02:cli:evaluator-loop:evaluator-results-differ", "the evaluator loop printed results that differ from f(x, y) of the sessions it served",
			map[string]interface{}{"evaluator_printed": fmt.Sprint(got), "want": fmt.Sprint(expected), "evaluator_stderr": tailString(evErr.String(), 600)})
	}
	return nil
}

func tailString(s string, n int) string {
	if len(s) > n {
		return s[len(s)-n:]
	}
	return s
}
