package main

// c02cli.go: the two-party protocol through the command-line front end apps/garbled, built from
// the tree under test: one long-running evaluator (`garbled -e`) serves several garblers one
// after the other; the program is instantiated from the sizes of the inputs.  Every session
// must end with both sides printing f(x, y).  Oracle only: the CLI loop is outside the Coq
// model (DESIGN 4, C02).

import (
	"bufio"
	"bytes"
	"context"
	"encoding/hex"
	"fmt"
	"net"
	"os"
	"os/exec"
	"path/filepath"
	"regexp"
	"strconv"
	"sync"
	"syscall"
	"time"

	"github.com/markkurossi/mpc/p2p"
)

func verifRepo() string {
	if r := os.Getenv("VERIF_REPO"); r != "" {
		return r
	}
	return "/repo"
}

var (
	cliOnce sync.Once
	cliPath string
	cliErr  error
)

// buildGarbledCLI builds <repo>/apps/garbled into the run directory (once per process).
func buildGarbledCLI(c *Ctx) (string, error) {
	cliOnce.Do(func() {
		// absolute: the build runs with the tree as its working directory, and nothing may be
		// written there
		out, err := filepath.Abs(filepath.Join(c.OutDir, "garbled-cli"))
		if err != nil {
			cliErr = err
			return
		}
		cmd := exec.Command("go", "build", "-o", out, "./apps/garbled")
		cmd.Dir = verifRepo()
		cmd.Env = append(os.Environ(), "GOFLAGS=-mod=readonly", "GOPROXY=off") // never writes go.mod / go.sum of the tree
		if b, err := cmd.CombinedOutput(); err != nil {
			cliErr = fmt.Errorf("go build ./apps/garbled: %v\n%s", err, b)
			return
		}
		cliPath = out
	})
	return cliPath, cliErr
}

func freeLoopbackAddr() (string, error) {
	ln, err := net.Listen("tcp", "127.0.0.1:0")
	if err != nil {
		return "", err
	}
	defer ln.Close()
	return ln.Addr().String(), nil
}

var cliResultRE = regexp.MustCompile(`^Result\[0\]: ([0-9]+)$`)

func cliResults(out []byte) []uint64 {
	var res []uint64
	s := bufio.NewScanner(bytes.NewReader(out))
	for s.Scan() {
		if m := cliResultRE.FindStringSubmatch(s.Text()); m != nil {
			v, _ := strconv.ParseUint(m[1], 10, 64)
			res = append(res, v)
		}
	}
	return res
}

const c02CLIProgram = `// -*- go -*-

package main

type Garbler struct {
	a []byte
	b []byte
}

func main(g Garbler, e []byte) uint32 {
	var sum uint32
	for i := 0; i < len(g.a); i++ {
		sum = sum + uint32(g.a[i])
	}
	for i := 0; i < len(g.b); i++ {
		sum = sum + (uint32(g.b[i]) << 8)
	}
	for i := 0; i < len(e); i++ {
		sum = sum + (uint32(e[i]) << 16)
	}
	return sum
}
`

func c02CLIPlain(a, b, e []byte) uint64 {
	var sum uint32
	for _, v := range a {
		sum += uint32(v)
	}
	for _, v := range b {
		sum += uint32(v) << 8
	}
	for _, v := range e {
		sum += uint32(v) << 16
	}
	return uint64(sum)
}

// c02CLI: evaluator loop + garblers whose inputs change shape from session to session:
// different total width, same shape again, and the SAME total width split differently
// between the two fields.
func c02CLI(c *Ctx) error {
	bin, err := buildGarbledCLI(c)
	if err != nil {
		return err
	}
	dir := filepath.Join(c.OutDir, "c02cli")
	if err := os.MkdirAll(dir, 0o755); err != nil {
		return err
	}
	defer os.RemoveAll(dir)
	prog := filepath.Join(dir, "wsum.mpcl")
	if err := os.WriteFile(prog, []byte(c02CLIProgram), 0o644); err != nil {
		return err
	}
	addr, err := freeLoopbackAddr()
	if err != nil {
		return err
	}
	r := c.rng.Fork()
	eInput := r.Bytes(2)
	ctx, cancel := context.WithTimeout(context.Background(), 90*time.Second)
	defer cancel()
	ev := exec.CommandContext(ctx, bin, "-e", "-port", addr, "-i", "0x"+hex.EncodeToString(eInput), prog)
	ev.SysProcAttr = &syscall.SysProcAttr{Setpgid: true}
	evOut, err := ev.StdoutPipe()
	if err != nil {
		return err
	}
	var evErr bytes.Buffer
	ev.Stderr = &evErr
	if err := ev.Start(); err != nil {
		return err
	}
	var mu sync.Mutex
	var evLog bytes.Buffer
	listening := make(chan struct{})
	done := make(chan struct{})
	go func() {
		defer close(done)
		var once sync.Once
		s := bufio.NewScanner(evOut)
		for s.Scan() {
			mu.Lock()
			evLog.WriteString(s.Text() + "\n")
			mu.Unlock()
			once.Do(func() { close(listening) })
		}
	}()
	stopped := false
	stop := func() {
		if stopped {
			return
		}
		stopped = true
		syscall.Kill(-ev.Process.Pid, syscall.SIGKILL)
		<-done
		ev.Wait()
	}
	defer stop()
	select {
	case <-listening:
	case <-done:
		c.Fail("c02:cli:evaluator-loop:did-not-start", "garbled -e exited before listening", evErr.String())
		return nil
	case <-time.After(30 * time.Second):
		c.Fail("c02:cli:evaluator-loop:did-not-start", "garbled -e did not start listening", evErr.String())
		return nil
	}
	type sess struct{ la, lb int }
	sessions := []sess{{4, 2}, {1, 1}, {3, 5}, {5, 3}, {5, 3}, {2, 6}}
	var expected []uint64
	for si, s := range sessions {
		a, b := r.Bytes(s.la), r.Bytes(s.lb)
		want := c02CLIPlain(a, b, eInput)
		expected = append(expected, want)
		g := exec.CommandContext(ctx, bin, "-port", addr, "-i", "0x"+hex.EncodeToString(a)+",0x"+hex.EncodeToString(b), prog)
		out, err := g.CombinedOutput()
		c.Hist("cli:evaluator-loop:session")
		c.Eval(fmt.Sprintf("cli|%d|%x|%x|%x", si, a, b, eInput), true)
		got := cliResults(out)
		if err != nil || len(got) != 1 || got[0] != want {
			time.Sleep(300 * time.Millisecond)
			mu.Lock()
			el := evLog.String()
			mu.Unlock()
			what := "garbler printed a wrong result"
			if err != nil {
				what = "garbler process failed: " + err.Error()
			}
			c.Fail("c02:cli:evaluator-loop:session-failed",
				fmt.Sprintf("apps/garbled: one `garbled -e` evaluator serving garblers in sequence; session %d (garbler fields of %d and %d bytes; earlier sessions %v): %s", si+1, s.la, s.lb, sessions[:si], what),
				map[string]interface{}{"program": c02CLIProgram, "garbler_input": fmt.Sprintf("0x%x,0x%x", a, b), "evaluator_input": fmt.Sprintf("0x%x", eInput),
					"want": want, "garbler_printed": fmt.Sprint(got), "garbler_output": tailString(string(out), 600), "evaluator_stdout": tailString(el, 600), "evaluator_stderr": tailString(evErr.String(), 600)})
			return nil
		}
	}
	deadline := time.Now().Add(10 * time.Second)
	for time.Now().Before(deadline) {
		mu.Lock()
		n := len(cliResults(evLog.Bytes()))
		mu.Unlock()
		if n >= len(sessions) {
			break
		}
		time.Sleep(50 * time.Millisecond)
	}
	stop()
	mu.Lock()
	got := cliResults(evLog.Bytes())
	mu.Unlock()
	if fmt.Sprint(got) != fmt.Sprint(expected) {
		c.Fail("c02:cli:evaluator-loop:evaluator-results-differ", "the evaluator loop printed results that differ from f(x, y) of the sessions it served",
			map[string]interface{}{"evaluator_printed": fmt.Sprint(got), "want": fmt.Sprint(expected), "evaluator_stderr": tailString(evErr.String(), 600)})
	}
	return nil
}

func tailString(s string, n int) string {
	if len(s) > n {
		return s[len(s)-n:]
	}
	return s
}

// ---------------------------------------------------------------- more CLI doors (door sweep)

var cliAnyResultRE = regexp.MustCompile(`^Result\[([0-9]+)\]: (.*)$`)

// cliAllResults: the "Result[k]: v" lines in order, as "k=v" with booleans as 0/1.
func cliAllResults(out []byte) []string {
	var res []string
	s := bufio.NewScanner(bytes.NewReader(out))
	s.Buffer(make([]byte, 1<<20), 1<<20)
	for s.Scan() {
		if m := cliAnyResultRE.FindStringSubmatch(s.Text()); m != nil {
			v := m[2]
			switch v {
			case "true":
				v = "1"
			case "false":
				v = "0"
			}
			res = append(res, m[1]+"="+v)
		}
	}
	return res
}

// cliEval is one running `garbled -e ...` process.
type cliEval struct {
	cmd     *exec.Cmd
	mu      sync.Mutex
	out     bytes.Buffer
	errOut  bytes.Buffer
	done    chan struct{}
	stopped bool
}

func (e *cliEval) stdout() []byte {
	e.mu.Lock()
	defer e.mu.Unlock()
	return append([]byte(nil), e.out.Bytes()...)
}

func (e *cliEval) stop() {
	if e.stopped {
		return
	}
	e.stopped = true
	syscall.Kill(-e.cmd.Process.Pid, syscall.SIGKILL)
	<-e.done
	e.cmd.Wait()
}

// startCLIEvaluator starts the evaluator and waits until it listens.
func startCLIEvaluator(ctx context.Context, bin string, env []string, args ...string) (*cliEval, error) {
	e := &cliEval{done: make(chan struct{})}
	e.cmd = exec.CommandContext(ctx, bin, args...)
	e.cmd.Env = append(os.Environ(), env...)
	e.cmd.SysProcAttr = &syscall.SysProcAttr{Setpgid: true}
	po, err := e.cmd.StdoutPipe()
	if err != nil {
		return nil, err
	}
	e.cmd.Stderr = &e.errOut
	if err := e.cmd.Start(); err != nil {
		return nil, err
	}
	listening := make(chan struct{})
	go func() {
		defer close(e.done)
		var once sync.Once
		s := bufio.NewScanner(po)
		s.Buffer(make([]byte, 1<<20), 1<<20)
		for s.Scan() {
			e.mu.Lock()
			e.out.WriteString(s.Text() + "\n")
			e.mu.Unlock()
			if len(s.Text()) >= 9 && s.Text()[:9] == "Listening" {
				once.Do(func() { close(listening) })
			}
		}
	}()
	select {
	case <-listening:
		return e, nil
	case <-e.done:
		e.cmd.Wait()
		e.stopped = true
		return nil, fmt.Errorf("exited before listening: %s", tailString(e.errOut.String(), 400))
	case <-time.After(30 * time.Second):
		e.stop()
		return nil, fmt.Errorf("did not start listening: %s", tailString(e.errOut.String(), 400))
	}
}

const c02CLIProgram2 = `// -*- go -*-

package main

func main(a, b uint16) (uint16, bool, uint32) {
	return a + b, a > b, uint32(a) * uint32(b)
}
`

func c02CLIPlain2(a, b uint16) []string {
	gt := "0"
	if a > b {
		gt = "1"
	}
	return []string{fmt.Sprintf("0=%d", a+b), "1=" + gt, fmt.Sprintf("2=%d", uint32(a)*uint32(b))}
}

// c02CLIMore: apps/garbled through its flags, file kinds and environment.  Per evaluator process
// (each an evaluator LOOP serving its garblers in sequence) every garbler and the evaluator must
// print f(x, y) (three outputs) for every session:
//
//	E1  garbled -e -v -d prog.mpcl     garblers: plain; -v; -d with GOMAXPROCS=1 GOGC=1; a peer that
//	                                   connects, shakes hands, sends the key and goes away (the loop
//	                                   tolerates the io.EOF of such a session); then a plain garbler again
//	E2  garbled -e prog.mpclc          (made by garbled -circ) garblers: the .mpclc file; the .mpcl source
//	E3  garbled -e prog.bristol        (made by garbled -circ -format bristol) garbler: the .bristol file
//	E4  garbled -stream -e             garbler: garbled -stream prog.mpcl (streaming front end; the streaming
//	                                   protocol itself is C05's)
func c02CLIMore(c *Ctx) error {
	bin, err := buildGarbledCLI(c)
	if err != nil {
		return err
	}
	dir, err := filepath.Abs(filepath.Join(c.OutDir, "c02cli2"))
	if err != nil {
		return err
	}
	if err := os.MkdirAll(dir, 0o755); err != nil {
		return err
	}
	defer os.RemoveAll(dir)
	prog := filepath.Join(dir, "three.mpcl")
	if err := os.WriteFile(prog, []byte(c02CLIProgram2), 0o644); err != nil {
		return err
	}
	ctx, cancel := context.WithTimeout(context.Background(), 120*time.Second)
	defer cancel()
	for _, format := range []string{"mpclc", "bristol"} {
		out, err := exec.CommandContext(ctx, bin, "-circ", "-format", format, prog).CombinedOutput()
		if _, serr := os.Stat(filepath.Join(dir, "three."+format)); err != nil || serr != nil {
			c.Fail("c02:cli:circ-compile:"+format, "garbled -circ -format "+format+" did not produce the circuit file", tailString(string(out), 600))
			return nil
		}
	}
	r := c.rng.Fork()
	type gsess struct {
		name  string
		args  []string // before -port
		env   []string
		file  string
		abort bool
	}
	type escen struct {
		name  string
		eargs []string
		file  string // "" = none (streaming evaluator)
		gs    []gsess
	}
	scens := []escen{
		{"evaluator -v -d, MPCL source", []string{"-e", "-v", "-d"}, prog, []gsess{
			{name: "plain", file: prog},
			{name: "-v", args: []string{"-v"}, file: prog},
			{name: "-d, GOMAXPROCS=1 GOGC=1", args: []string{"-d"}, env: []string{"GOMAXPROCS=1", "GOGC=1"}, file: prog},
			{name: "peer that leaves after the key", abort: true},
			{name: "plain, after the aborted session", file: prog},
		}},
		{"evaluator on the .mpclc file", []string{"-e"}, filepath.Join(dir, "three.mpclc"), []gsess{
			{name: ".mpclc file", file: filepath.Join(dir, "three.mpclc")},
			{name: ".mpcl source against the .mpclc evaluator", file: prog},
		}},
		{"evaluator on the .bristol file", []string{"-e"}, filepath.Join(dir, "three.bristol"), []gsess{
			{name: ".bristol file", file: filepath.Join(dir, "three.bristol")},
		}},
		{"streaming evaluator", []string{"-stream", "-e"}, "", []gsess{
			{name: "-stream", args: []string{"-stream"}, file: prog},
		}},
	}
	for _, sc := range scens {
		addr, err := freeLoopbackAddr()
		if err != nil {
			return err
		}
		b := uint16(r.U64())
		eargs := append(append([]string(nil), sc.eargs...), "-port", addr, "-i", fmt.Sprint(b))
		if sc.file != "" {
			eargs = append(eargs, sc.file)
		}
		ev, err := startCLIEvaluator(ctx, bin, nil, eargs...)
		if err != nil {
			c.Fail("c02:cli:flags:evaluator-did-not-start", "apps/garbled "+sc.name+": "+err.Error(), fmt.Sprint(eargs))
			continue
		}
		var expected []string
		failed := false
		for gi, g := range sc.gs {
			c.Hist("cli:doors:session")
			if g.abort {
				// a peer that completes the size handshake, sends the session key and closes
				nc, err := net.Dial("tcp", addr)
				if err == nil {
					conn := p2p.NewConn(nc)
					if _, err = conn.ReceiveInputSizes(); err == nil {
						conn.SendInputSizes([]int{16})
						conn.Flush()
						conn.SendData(r.Bytes(32))
						conn.Flush()
					}
					conn.Close()
				}
				time.Sleep(100 * time.Millisecond)
				continue
			}
			a := uint16(r.U64())
			want := c02CLIPlain2(a, b)
			expected = append(expected, want...)
			gargs := append(append([]string(nil), g.args...), "-port", addr, "-i", fmt.Sprint(a), g.file)
			gc := exec.CommandContext(ctx, bin, gargs...)
			gc.Env = append(os.Environ(), g.env...)
			out, err := gc.CombinedOutput()
			c.Eval(fmt.Sprintf("cli2|%s|%s|%d|%d", sc.name, g.name, a, b), true)
			got := cliAllResults(out)
			if err != nil || fmt.Sprint(got) != fmt.Sprint(want) {
				time.Sleep(300 * time.Millisecond)
				what := "garbler printed wrong results"
				if err != nil {
					what = "garbler process failed: " + err.Error()
				}
				var earlier []string
				for _, p := range sc.gs[:gi] {
					earlier = append(earlier, p.name)
				}
				c.Fail("c02:cli:flags:session-failed",
					fmt.Sprintf("apps/garbled, %s; garbler %q (earlier peers of this evaluator: %v): %s", sc.name, g.name, earlier, what),
					map[string]interface{}{"program": c02CLIProgram2, "garbler_args": fmt.Sprint(gargs), "garbler_env": fmt.Sprint(g.env), "evaluator_args": fmt.Sprint(eargs),
						"want": fmt.Sprint(want), "garbler_printed": fmt.Sprint(got), "garbler_output": tailString(string(out), 600),
						"evaluator_stdout": tailString(string(ev.stdout()), 600), "evaluator_stderr": tailString(ev.errOut.String(), 600)})
				failed = true
				break
			}
		}
		if !failed {
			deadline := time.Now().Add(10 * time.Second)
			for time.Now().Before(deadline) && len(cliAllResults(ev.stdout())) < len(expected) {
				time.Sleep(50 * time.Millisecond)
			}
		}
		ev.stop()
		if got := cliAllResults(ev.stdout()); !failed && fmt.Sprint(got) != fmt.Sprint(expected) {
			c.Fail("c02:cli:flags:evaluator-results-differ", "apps/garbled, "+sc.name+": the evaluator printed results that differ from f(x, y) of the sessions it served",
				map[string]interface{}{"evaluator_args": fmt.Sprint(eargs), "evaluator_printed": fmt.Sprint(got), "want": fmt.Sprint(expected),
					"evaluator_stdout": tailString(string(ev.stdout()), 600), "evaluator_stderr": tailString(ev.errOut.String(), 600)})
		}
	}
	return nil
}
