package main

import (
	"bytes"
	"encoding/json"
	"fmt"
	"io"
	"math/big"
	"os"
	"runtime"
	"runtime/debug"
	"strings"
	"sync"
	"sync/atomic"
	"time"

	"github.com/markkurossi/mpc/circuit"
	"github.com/markkurossi/mpc/compiler"
	"github.com/markkurossi/mpc/compiler/utils"
	"github.com/markkurossi/mpc/env"
	"github.com/markkurossi/mpc/ot"
	"github.com/markkurossi/mpc/p2p"
	"github.com/markkurossi/mpc/types"
)

func init() { register("c05", runC05) }

// c05OTSpy wraps the garbler's OT and records at which logical offset of the
// garbler->evaluator byte stream the OT segment begins and ends (bytes
// flushed so far + bytes pending in the write buffer).
type c05OTSpy struct {
	inner      ot.OT
	conn       *p2p.Conn
	begin, end int
	wires      []ot.Wire
}

func (s *c05OTSpy) pos() int {
	return int(s.conn.Stats.Sent.Load()) + s.conn.WritePos
}
func (s *c05OTSpy) InitSender(io ot.IO) error {
	s.begin = s.pos()
	return s.inner.InitSender(io)
}
func (s *c05OTSpy) InitReceiver(io ot.IO) error { return s.inner.InitReceiver(io) }
func (s *c05OTSpy) Send(wires []ot.Wire) error {
	s.wires = append([]ot.Wire(nil), wires...)
	err := s.inner.Send(wires)
	s.end = s.pos()
	return err
}
func (s *c05OTSpy) Receive(flags []bool, result []ot.Label) error {
	return s.inner.Receive(flags, result)
}

// nopCloser makes a bytes.Buffer an io.WriteCloser (params.SSAOut).
type c05Buf struct{ bytes.Buffer }

func (b *c05Buf) Close() error { return nil }

type c05Stream struct {
	gOut, eOut circuit.IO
	gRes, eRes []*big.Int
	gErr, eErr error
	stalled    bool
	g2e        []byte
	otBegin    int
	otEnd      int
	ssa        string
	rand       []ot.Label
	key        []byte
	otWires    []ot.Wire
	elapsed    time.Duration
}

// c05RunStream runs the real Compiler.Stream against the real
// circuit.StreamEvaluator over an in-memory connection pair with a watchdog.
// c05StreamOpt selects the less-travelled entry points / options of a session.
type c05StreamOpt struct {
	eVals       []interface{} // evaluator input as Go values (StreamEvaluator's inputValues) instead of strings
	eSizes      []int         // input sizes the evaluator announces in that case
	eLeaves     []*big.Int    // the same input per flattened argument member, packed by the harness (whole circuit)
	file        bool          // Compiler.StreamFile instead of Compiler.Stream
	verbose     bool          // params.Verbose and StreamEvaluator(verbose)
	diagnostics bool          // params.Diagnostics
	dot         bool          // params.SSADotOut
	multArray   int           // params.CircMultArrayTreshold (0 = default)
	maxUnroll   int           // params.MaxLoopUnroll (0 = default)
	source      string        // (virtual) source name of the program; native circuit files resolve from its directory
	label       string
	// door sweep (c05doors.go)
	prune      bool               // params.OptPruneGates (apps/garbled sets it by default: -O 1), both compilations
	gmw        bool               // params.Target = TargetGMW for the streaming compilation
	direct     bool               // Compiler.CompileSSA + Program.Stream instead of Compiler.Stream
	pressure   bool               // GOGC=1 and GOMAXPROCS=1 for the duration of the session
	tcp        bool               // a loopback TCP connection instead of the in-memory transport
	oracleOnly bool               // no correspondence case (outside the model or too large)
	comp       *compiler.Compiler // long-lived objects shared by several sessions
	params     *utils.Params
	gOT, eOT   ot.OT
	pre        *c05Stream // the session has already been run (concurrent sessions)
	searched   bool       // ... by the placement search of the page-boundary family (c05page.go)
}

func (o c05StreamOpt) String() string {
	var s []string
	if o.eVals != nil {
		s = append(s, "input-values")
	}
	if o.file {
		s = append(s, "StreamFile")
	}
	if o.verbose {
		s = append(s, "verbose")
	}
	if o.diagnostics {
		s = append(s, "diagnostics")
	}
	if o.dot {
		s = append(s, "ssa-dot")
	}
	if o.multArray != 0 {
		s = append(s, fmt.Sprintf("mult-array-treshold=%d", o.multArray))
	}
	if o.maxUnroll != 0 {
		s = append(s, fmt.Sprintf("max-loop-unroll=%d", o.maxUnroll))
	}
	for _, f := range []struct {
		on   bool
		name string
	}{{o.prune, "opt-prune-gates"}, {o.gmw, "target-gmw"}, {o.direct, "Program.Stream"}, {o.pressure, "GOGC=1+GOMAXPROCS=1"},
		{o.tcp, "tcp-loopback"}, {o.comp != nil, "shared-compiler-params-ot"}, {o.pre != nil && !o.searched, "concurrent-sessions"}} {
		if f.on {
			s = append(s, f.name)
		}
	}
	return strings.Join(s, "+")
}

func c05RunStream(src string, gIn, eIn []string, opt c05StreamOpt, rng *RNG, frag int, timeout time.Duration) *c05Stream {
	res := &c05Stream{}
	if opt.verbose || opt.diagnostics {
		// these modes print progress and statistics: keep the harness output clean
		if null, err := os.OpenFile(os.DevNull, os.O_WRONLY, 0); err == nil {
			old := os.Stdout
			os.Stdout = null
			defer func() { os.Stdout = old; null.Close() }()
		}
	}
	if opt.pressure {
		oldGC := debug.SetGCPercent(1)
		oldP := runtime.GOMAXPROCS(1)
		defer func() { debug.SetGCPercent(oldGC); runtime.GOMAXPROCS(oldP) }()
	}
	start := time.Now()
	var ga, ea io.ReadWriteCloser
	var g2e, e2g *fragQueue
	if opt.tcp {
		a, b, err := c05TCPPair()
		if err != nil {
			res.gErr, res.eErr = err, err
			return res
		}
		ga, ea = a, b
	} else {
		ga, ea, g2e, e2g = newDuplexPair(rng, frag)
	}
	gConn := p2p.NewConn(ga)
	eConn := p2p.NewConn(ea)
	var gDone, eDone atomic.Bool
	var wg sync.WaitGroup
	wg.Add(2)
	grand := &blockLog{r: rng.Fork(), skipKey: true}
	gOT, eOT := opt.gOT, opt.eOT
	if gOT == nil {
		gOT = ot.NewCO(rng.Fork())
	}
	if eOT == nil {
		eOT = ot.NewCO(rng.Fork())
	}
	spy := &c05OTSpy{inner: gOT, conn: gConn}
	ssaBuf := &c05Buf{}
	go func() {
		defer wg.Done()
		defer gDone.Store(true)
		defer func() {
			if r := recover(); r != nil {
				res.gErr = fmt.Errorf("panic: %v", r)
			}
		}()
		// the garbler learns the evaluator's input sizes first (apps/garbled/streaming.go)
		sizes0, err := circuit.InputSizes(gIn)
		if err != nil {
			res.gErr = err
			return
		}
		sizes1, err := gConn.ReceiveInputSizes()
		if err != nil {
			res.gErr = err
			return
		}
		params := opt.params
		if params == nil {
			params = utils.NewParams()
		}
		params.Config = &env.Config{Rand: grand}
		params.OptPruneGates = opt.prune
		if opt.gmw {
			params.Target = utils.TargetGMW
		}
		comp := opt.comp
		if comp == nil {
			comp = compiler.New(params)
		}
		params.SSAOut = ssaBuf
		params.Verbose = opt.verbose
		params.Diagnostics = opt.diagnostics
		if opt.dot {
			params.SSADotOut = &c05Buf{}
		}
		if opt.multArray != 0 {
			params.CircMultArrayTreshold = opt.multArray
		}
		if opt.maxUnroll != 0 {
			params.MaxLoopUnroll = opt.maxUnroll
		}
		defer params.Close()
		if opt.file {
			f, err := os.CreateTemp("", "c05-*.mpcl")
			if err != nil {
				res.gErr = err
				return
			}
			defer os.Remove(f.Name())
			f.WriteString(src)
			f.Close()
			res.gOut, res.gRes, res.gErr = comp.StreamFile(gConn, spy, f.Name(), gIn, [][]int{sizes0, sizes1})
			return
		}
		source := "{data}"
		if opt.source != "" {
			source = opt.source
		}
		if opt.direct {
			// the exported pieces Compiler.Stream is made of
			prog, _, err := comp.CompileSSA(source, strings.NewReader(src), [][]int{sizes0, sizes1})
			if err != nil {
				res.gErr = err
				return
			}
			if len(prog.Inputs) != 2 {
				res.gErr = fmt.Errorf("not a two-party program")
				return
			}
			input, err := prog.Inputs[0].Parse(gIn)
			if err != nil {
				res.gErr = err
				return
			}
			res.gOut, res.gRes, res.gErr = prog.Stream(gConn, spy, params, input, circuit.NewTiming())
			return
		}
		res.gOut, res.gRes, res.gErr = comp.Stream(gConn, spy, source,
			strings.NewReader(src), gIn, [][]int{sizes0, sizes1})
	}()
	go func() {
		defer wg.Done()
		defer eDone.Store(true)
		defer func() {
			if r := recover(); r != nil {
				res.eErr = fmt.Errorf("panic: %v", r)
			}
		}()
		sizes, err := circuit.InputSizes(eIn)
		if opt.eVals != nil {
			sizes, err = opt.eSizes, nil
		}
		if err != nil {
			res.eErr = err
			return
		}
		if err := eConn.SendInputSizes(sizes); err != nil {
			res.eErr = err
			return
		}
		if err := eConn.Flush(); err != nil {
			res.eErr = err
			return
		}
		if opt.eVals != nil {
			// the value entry: inputFlag empty, inputValues set
			res.eOut, res.eRes, res.eErr = circuit.StreamEvaluator(eConn, eOT, nil, opt.eVals, opt.verbose)
			return
		}
		res.eOut, res.eRes, res.eErr = circuit.StreamEvaluator(eConn, eOT, eIn, nil, opt.verbose)
	}()
	done := make(chan struct{})
	go func() { wg.Wait(); close(done) }()
	deadline := time.Now().Add(timeout)
	idle := 0
loop:
	for {
		select {
		case <-done:
			break loop
		case <-time.After(2 * time.Millisecond):
		}
		// both parties blocked reading from empty queues (or finished) for
		// many consecutive polls: protocol-level stall.  The garbler compiles
		// before it talks, so only count polls in which neither side is
		// computing: a side that is done, or blocked in Read.
		gBlocked := gDone.Load() || (e2g != nil && e2g.idle())
		eBlocked := eDone.Load() || (g2e != nil && g2e.idle())
		if gBlocked && eBlocked && !(gDone.Load() && eDone.Load()) {
			idle++
		} else {
			idle = 0
		}
		if (gDone.Load() && res.gErr != nil) || (eDone.Load() && res.eErr != nil) {
			// a party gave up with an error: its process would exit and
			// the peer would see the connection close
			ga.Close()
			ea.Close()
			<-done
			break loop
		}
		if idle >= 200 || time.Now().After(deadline) {
			res.stalled = true
			ga.Close()
			ea.Close()
			<-done
			break loop
		}
	}
	ga.Close()
	ea.Close()
	go gConn.Close()
	go eConn.Close()
	if g2e != nil {
		g2e.mu.Lock()
		res.g2e = append([]byte(nil), g2e.log...)
		g2e.mu.Unlock()
	}
	res.otBegin, res.otEnd = spy.begin, spy.end
	res.otWires = spy.wires
	res.ssa = ssaBuf.String()
	res.rand = grand.blocks
	res.elapsed = time.Since(start)
	return res
}

type c05Whole struct {
	out circuit.IO
	res []*big.Int
	err error
}

// c05RunWhole compiles the same program into one circuit and evaluates it.
func c05RunWhole(src string, gIn, eIn []string, opt c05StreamOpt) (w c05Whole) {
	defer func() {
		if r := recover(); r != nil {
			w.err = fmt.Errorf("panic: %v", r)
		}
	}()
	sizes0, err := circuit.InputSizes(gIn)
	if err != nil {
		w.err = err
		return
	}
	sizes1, err := circuit.InputSizes(eIn)
	if opt.eVals != nil {
		sizes1, err = opt.eSizes, nil
	}
	if err != nil {
		w.err = err
		return
	}
	params := utils.NewParams()
	params.OptPruneGates = opt.prune
	if opt.multArray != 0 {
		params.CircMultArrayTreshold = opt.multArray
	}
	if opt.maxUnroll != 0 {
		params.MaxLoopUnroll = opt.maxUnroll
	}
	defer params.Close()
	var circ *circuit.Circuit
	if opt.source != "" {
		// Compile() has no source-name form: the same two steps it performs
		prog, _, err2 := compiler.New(params).CompileSSA(opt.source, strings.NewReader(src), [][]int{sizes0, sizes1})
		if err2 != nil {
			w.err = err2
			return
		}
		circ, err = prog.CompileCircuit(params)
	} else {
		circ, _, err = compiler.New(params).Compile(src, [][]int{sizes0, sizes1})
	}
	if err != nil {
		w.err = err
		return
	}
	if len(circ.Inputs) != 2 {
		w.err = fmt.Errorf("not a two-party program")
		return
	}
	x, err := circ.Inputs[0].Parse(gIn)
	if err != nil {
		w.err = err
		return
	}
	if opt.eVals != nil {
		// the evaluator's input was given as values: one number per flattened member,
		// packed by the harness itself (not by IOArg.Set)
		var ins []*big.Int
		if len(circ.Inputs[0].Compound) > 0 {
			ins = append(ins, circ.Inputs[0].Compound.Split(x)...)
		} else {
			ins = append(ins, x)
		}
		ins = append(ins, opt.eLeaves...)
		w.res, w.err = circ.Compute(ins)
		w.out = circ.Outputs
		return
	}
	y, err := circ.Inputs[1].Parse(eIn)
	if err != nil {
		w.err = err
		return
	}
	// Compute takes one value per flattened (compound) argument
	var ins []*big.Int
	for i, v := range []*big.Int{x, y} {
		if len(circ.Inputs[i].Compound) > 0 {
			ins = append(ins, circ.Inputs[i].Compound.Split(v)...)
		} else {
			ins = append(ins, v)
		}
	}
	w.res, w.err = circ.Compute(ins)
	w.out = circ.Outputs
	return
}

func c05IOString(io circuit.IO) string {
	var s []string
	for _, a := range io {
		s = append(s, a.Type.String())
	}
	return strings.Join(s, ",")
}

type c05Fixed struct {
	name string
	src  string
	g, e []string
}

var c05FixedProgs = []c05Fixed{
	{"F3-alias-of-alias", `package main
func main(a, x uint32) uint32 {
	b := a >> 1
	c := b >> 1
	t := b + x
	return c + ((a + x) + t)
}
`, []string{"1000"}, []string{"7"}},
	{"concat-alias", `package main
func main(a [4]uint8, x uint32) ([8]uint8, uint32, uint8) {
	var z [4]uint8
	c := a + z
	i := x & 3
	e := a[i]
	y := x + x
	return c, y, e
}
`, []string{"0x01020304"}, []string{"2"}},
	{"no-alias", `package main
func main(a, b uint16) (uint16, bool) {
	c := a + b
	d := c * a
	return d - b, c > d
}
`, []string{"1234"}, []string{"77"}},
	{"struct-array-out", `package main
type S struct {
	A uint16
	B int8
}
func main(a [4]uint8, x uint32) (uint32, [2]uint8, S, int16) {
	s := a[1:3]
	var st S
	st.A = uint16(x)
	st.B = int8(x >> 3)
	v := int16(st.B)
	return x + 1, s, st, v
}
`, []string{"0x01020304"}, []string{"77"}},
}

// c05TypeDesc is a canonical deep description of an output type.
func c05TypeDesc(t types.Info) string {
	s := fmt.Sprintf("%s/%d", t.Type, t.Bits)
	switch t.Type {
	case types.TArray, types.TSlice:
		s += fmt.Sprintf("[%d]", t.ArraySize)
		if t.ElementType != nil {
			s += c05TypeDesc(*t.ElementType)
		}
	}
	return s
}

func c05SameTypes(a, b circuit.IO) (ok bool, why string) {
	if len(a) != len(b) {
		return false, fmt.Sprintf("%d vs %d outputs", len(a), len(b))
	}
	for i := range a {
		if c05TypeDesc(a[i].Type) != c05TypeDesc(b[i].Type) || a[i].Type.String() != b[i].Type.String() {
			return false, fmt.Sprintf("output %d: %s (%s) vs %s (%s)", i, a[i].Type, c05TypeDesc(a[i].Type),
				b[i].Type, c05TypeDesc(b[i].Type))
		}
		func() {
			defer func() {
				if r := recover(); r != nil {
					ok, why = false, fmt.Sprintf("output %d: Info.Equal panics: %v", i, r)
				}
			}()
			if !a[i].Type.Equal(b[i].Type) {
				why = fmt.Sprintf("output %d: Info.Equal(%s, %s) is false", i, a[i].Type, b[i].Type)
			}
		}()
		if why != "" {
			return false, why
		}
	}
	return true, ""
}

// c05Parsed is the garbler->evaluator stream after the OT without the rows.
type c05Parsed struct {
	circs  []SX
	retIDs []int
	result *big.Int
	max    int
	maxHdr int
	maxTmp int
	wide   int
	gates  int
}

func c05ParseStream(b []byte, nOutBits int) (*c05Parsed, error) {
	p := &c05Parsed{}
	pos := 0
	u32 := func() (int, error) {
		if pos+4 > len(b) {
			return 0, fmt.Errorf("short stream at %d", pos)
		}
		v := int(b[pos])<<24 | int(b[pos+1])<<16 | int(b[pos+2])<<8 | int(b[pos+3])
		pos += 4
		return v, nil
	}
	for {
		op, err := u32()
		if err != nil {
			return nil, err
		}
		switch op {
		case circuit.OpCircuit:
			var hdr [4]int
			for i := range hdr {
				if hdr[i], err = u32(); err != nil {
					return nil, err
				}
			}
			if hdr[3] > p.maxHdr {
				p.maxHdr = hdr[3]
			}
			var gs []SX
			for g := 0; g < hdr[1]; g++ {
				if pos >= len(b) {
					return nil, fmt.Errorf("short stream in gate")
				}
				gop := b[pos]
				pos++
				w := 4
				if gop&0x10 != 0 {
					w = 2
				} else {
					p.wide++
				}
				rd := func() int {
					v := 0
					for i := 0; i < w && pos < len(b); i++ {
						v = v<<8 | int(b[pos])
						pos++
					}
					return v
				}
				var a, bb, c, rows int
				switch circuit.Operation(gop & 0x0f) {
				case circuit.XOR, circuit.XNOR:
					a, bb, c = rd(), rd(), rd()
				case circuit.AND:
					a, bb, c, rows = rd(), rd(), rd(), 2
				case circuit.OR:
					a, bb, c, rows = rd(), rd(), rd(), 3
				case circuit.INV:
					a, c, rows = rd(), rd(), 1
				default:
					return nil, fmt.Errorf("invalid gate op byte %#x at %d", gop, pos-1)
				}
				pos += 16 * rows
				for k, id := range []int{a, bb, c} {
					tmp := gop&(0x80>>uint(k)) != 0
					if tmp {
						if id > p.maxTmp {
							p.maxTmp = id
						}
					} else if id > p.max {
						p.max = id
					}
				}
				gs = append(gs, L(I(int(gop)), I(a), I(bb), I(c)))
				p.gates++
			}
			if pos > len(b) {
				return nil, fmt.Errorf("short stream in rows")
			}
			p.circs = append(p.circs, L(I(hdr[0]), I(hdr[1]), I(hdr[2]), I(hdr[3]), L(gs...)))
		case circuit.OpReturn:
			for i := 0; i < nOutBits; i++ {
				id, err := u32()
				if err != nil {
					return nil, err
				}
				p.retIDs = append(p.retIDs, id)
			}
			n, err := u32()
			if err != nil {
				return nil, err
			}
			if pos+n != len(b) {
				return nil, fmt.Errorf("trailing bytes: result data %d at %d of %d", n, pos, len(b))
			}
			p.result = new(big.Int).SetBytes(b[pos:])
			return p, nil
		default:
			return nil, fmt.Errorf("unknown stream operation %d at %d", op, pos-4)
		}
	}
}

func c05ArgSX(a circuit.IOArg) SX {
	var comp []SX
	for _, c := range a.Compound {
		comp = append(comp, c05ArgSX(c))
	}
	return L(Bytes([]byte(a.Name)), Bytes([]byte(a.Type.String())), I(int(a.Type.Bits)), L(comp...))
}

func c05RecvTypeSX(a circuit.IOArg) SX {
	var comp []SX
	for _, c := range a.Compound {
		comp = append(comp, c05RecvTypeSX(c))
	}
	return L(Bytes([]byte(a.Name)), c05InfoSX(a.Type), L(comp...))
}

func c05InfoSX(t types.Info) SX {
	el := L()
	if t.ElementType != nil {
		el = L(c05InfoSX(*t.ElementType))
	}
	return L(I(int(t.Type)), I(int(t.Bits)), I(int(t.ArraySize)), Bool(t.IsConcrete), el)
}

type c05ReplayRec struct {
	Seed      uint64         `json:"seed"`
	Case      int            `json:"case"`
	Src       string         `json:"src"`
	G         []string       `json:"g"`
	E         []string       `json:"e"`
	EValues   string         `json:"evaluator_input_values,omitempty"`
	Entry     string         `json:"entry_options,omitempty"`
	Stream    string         `json:"stream_garbler"`
	StreamE   string         `json:"stream_evaluator"`
	Whole     string         `json:"whole"`
	TypesG    string         `json:"types_garbler"`
	TypesE    string         `json:"types_evaluator"`
	TypesW    string         `json:"types_whole"`
	GErr      string         `json:"garbler_error,omitempty"`
	EErr      string         `json:"evaluator_error,omitempty"`
	WErr      string         `json:"whole_error,omitempty"`
	Premature []c05Premature `json:"premature_gc,omitempty"`
	Cmd       string         `json:"cmd"`
}

// c05Classify names the failing site of a stream/whole disagreement from the
// premature gc instructions found by the implementation-side liveness
// analysis.
func c05Classify(pre []c05Premature) string {
	deep, direct := false, false
	for _, p := range pre {
		if p.Depth >= 2 {
			deep = true
		} else {
			direct = true
		}
	}
	switch {
	case deep:
		return "c05:gc:alias-of-alias-still-live:stream-differs-from-whole"
	case direct:
		return "c05:gc:alias-still-live:stream-differs-from-whole"
	}
	return ""
}

// c05ExportMaybe: oracle-only sessions need no step export.
func c05ExportMaybe(p c05Prog, sizes [][]int) (*c05Exported, error) {
	if p.opt.oracleOnly {
		return nil, fmt.Errorf("oracle only")
	}
	return c05Export(p.src, sizes, p.opt)
}

// c05Program runs one program in both modes, evaluates the oracle and, when
// the run is clean, records the correspondence case.
func c05Program(c *Ctx, idx int, name string, p c05Prog, frag int) error {
	r := c.rng.Fork()
	s := p.opt.pre
	if s == nil {
		s = c05RunStream(p.src, p.g, p.e, p.opt, r, frag, 120*time.Second)
	}
	w := c05RunWhole(p.src, p.g, p.e, p.opt)
	if o := p.opt.String(); o != "" {
		c.Hist("entry:" + o)
	}
	rec := c05ReplayRec{Seed: c.Seed, Case: idx, Src: p.src, G: p.g, E: p.e, Entry: p.opt.String(),
		Stream: bigsString(s.gRes), StreamE: bigsString(s.eRes), Whole: bigsString(w.res),
		TypesG: c05IOString(s.gOut), TypesE: c05IOString(s.eOut), TypesW: c05IOString(w.out),
		Cmd: "harness c05 -replay <this file>"}
	if p.opt.eVals != nil {
		rec.EValues = fmt.Sprintf("%#v", p.opt.eVals)
	}
	if s.gErr != nil {
		rec.GErr = s.gErr.Error()
	}
	if s.eErr != nil {
		rec.EErr = s.eErr.Error()
	}
	if w.err != nil {
		rec.WErr = w.err.Error()
	}
	for k, v := range p.feat {
		if v > 0 {
			c.Hist("feature:" + k)
		}
	}
	c.Hist(fmt.Sprintf("maxfrag:%d", frag))
	if w.err != nil && s.gErr != nil && !s.stalled {
		// rejected by the compiler in both modes: not a program
		c.Hist("rejected-by-compiler")
		if name == "door" || name == "native" || name == "page-boundary" {
			return fmt.Errorf("case %d (%s %s): a directed program is rejected by the compiler: %v", idx, name, p.opt.label, w.err)
		}
		return nil
	}
	sizes0, _ := circuit.InputSizes(p.g)
	sizes1, _ := circuit.InputSizes(p.e)
	if p.opt.eVals != nil {
		sizes1 = p.opt.eSizes
	}
	ex, exErr := c05ExportMaybe(p, [][]int{sizes0, sizes1})
	if exErr == nil {
		rec.Premature = ex.premature
	}
	bad, what := "", ""
	switch {
	case s.stalled:
		bad, what = "c05:stall", "streaming session stalled"
	case s.gErr != nil || s.eErr != nil || w.err != nil:
		bad, what = "c05:error:"+name, fmt.Sprintf("garbler=%v evaluator=%v whole=%v", s.gErr, s.eErr, w.err)
		if name == "door" {
			bad = "c05:error:door:" + p.opt.label
		}
		if name == "page-boundary" {
			// a party gave up (an evaluator panic is recovered into its error)
			bad = "c05:stream:wire-page-boundary:" + p.opt.label + ":session-failed"
		}
	case bigsString(s.gRes) != bigsString(s.eRes):
		bad, what = "c05:parties-differ", "garbler and evaluator return different values"
	case bigsString(s.gRes) != bigsString(w.res):
		what = fmt.Sprintf("streamed result %s differs from whole-circuit result %s", bigsString(s.gRes), bigsString(w.res))
		if exErr == nil {
			bad = c05Classify(ex.premature)
		}
		if bad == "" && name == "door" {
			bad = "c05:stream:door:" + p.opt.label + ":wrong-output"
		}
		if bad == "" && name == "native" {
			bad = "c05:stream:native-circuit:" + p.opt.label + ":wrong-output"
		}
		if bad == "" && name == "page-boundary" {
			bad = "c05:stream:wire-page-boundary:" + p.opt.label + ":wrong-output"
		}
		if bad == "" && name == "entry" && p.opt.eVals != nil {
			bad = "c05:stream:input-values-entry:wrong-output"
		}
		if bad == "" && name == "entry" {
			bad = "c05:stream:entry-option:" + p.opt.String() + ":wrong-output"
		}
		if bad == "" && name == "sign-resize" {
			bad = "c05:stream:resize-memo:sign-vs-zero-extension:wrong-output"
		}
		if bad == "" && name == "slice-lengths" {
			bad = "c05:stream-cache:slice-length-collision"
		}
		if bad == "" && name == "hash-collision" {
			bad = "c05:walloc:hash-chain-collision:stream-differs-from-whole"
		}
		if bad == "" {
			bad = "c05:stream-vs-whole:unexplained"
		}
	}
	if bad == "" && p.want != nil && bigsString(w.res) != bigsString(p.want) {
		bad, what = "c05:"+name+":whole-circuit-differs-from-reference",
			fmt.Sprintf("whole-circuit result %s differs from the reference result %s", bigsString(w.res), bigsString(p.want))
	}
	if bad == "" {
		if ok, why := c05SameTypes(s.gOut, w.out); !ok {
			bad, what = "c05:types:garbler-vs-whole", why
		} else if ok, why := c05SameTypes(s.eOut, w.out); !ok {
			bad, what = "c05:types:evaluator-vs-whole", why
			if strings.Contains(why, "Info.Equal(struct") {
				bad = "c05:receiveArgument:struct-output-fields-lost"
			}
		}
	}
	nontrivial := exErr == nil && ex.nAlias > 0 && ex.nCirc > 0 && ex.nGC > 0
	c.Eval(p.src+"|"+strings.Join(p.g, ",")+"|"+strings.Join(p.e, ","), nontrivial)
	if exErr == nil {
		if len(ex.premature) > 0 {
			c.Hist("has-premature-gc")
			c.Note("case %d (%s): premature gc %v; stream %s whole %s\n%s", idx, name, ex.premature, bigsString(s.gRes), bigsString(w.res), p.src)
		}
		c.Hist(fmt.Sprintf("steps:%d", (ex.nSteps/20)*20))
	}
	if bad != "" {
		c.Hist("oracle-failure")
		c.Fail(bad, what, rec)
		if s.stalled || s.gErr != nil || s.eErr != nil || w.err != nil {
			return nil
		}
	}
	if p.opt.oracleOnly {
		c.Hist("oracle-only:" + name)
		return nil
	}
	if exErr != nil {
		return fmt.Errorf("case %d (%s): export: %v", idx, name, exErr)
	}
	if ex.ssaText != s.ssa {
		return fmt.Errorf("case %d (%s): the SSA listing of the streamed compilation differs from CompileSSA's", idx, name)
	}
	// correspondence
	nOut := 0
	for _, b := range ex.outBits {
		nOut += b
	}
	if s.otEnd <= 0 || s.otEnd > len(s.g2e) {
		return fmt.Errorf("case %d: OT segment not located", idx)
	}
	ps, err := c05ParseStream(s.g2e[s.otEnd:], nOut)
	if err != nil {
		return fmt.Errorf("case %d (%s): stream: %v", idx, name, err)
	}
	if ps.max > 0xffff {
		c.Hist("ids>65535")
	}
	if ps.wide > 0 {
		c.Hist("32-bit-id-gates")
	}
	if ps.maxTmp > 0xffff {
		c.Hist("tmp-index>65535")
		if ps.max <= 0xffff {
			c.Hist("tmp-index>65535-with-all-permanent-ids<=65535")
		}
	}
	hdrEnd := s.otBegin - 16*ex.n0
	if hdrEnd < 36 || hdrEnd > len(s.g2e) {
		return fmt.Errorf("case %d: header not located", idx)
	}
	hdr := append([]byte{1}, s.g2e[36:hdrEnd]...)
	x, _ := s.gOut, 0
	_ = x
	gx := c05ParseIn(p.src, p.g, p.e, p.opt, [][]int{sizes0, sizes1})
	if gx == nil {
		return fmt.Errorf("case %d: cannot parse inputs", idx)
	}
	var ioargs []SX
	ioargs = append(ioargs, c05ArgSX(gx.in0), c05ArgSX(gx.in1))
	var outs []SX
	for _, o := range gx.outs {
		outs = append(outs, c05ArgSX(o))
	}
	var recvOuts []SX
	for _, o := range s.eOut {
		recvOuts = append(recvOuts, c05RecvTypeSX(o))
	}
	in := L(I(1), ex.input, Bits(gx.xy), L(ioargs...), L(outs...), I(len(gx.steps)))
	// the model also evaluates the theorems' hypothesis (wf_prog) and
	// conclusion (no_premature_reuse) on the program: both must hold
	npr := 1
	if ps.maxHdr > 4096 {
		npr = 2 // not evaluated by the model (quadratic in the number of ids)
	}
	obs := L(I(0), ex.listing, L(ps.circs...), Ints(ps.retIDs), bigsSX(s.gRes), Big(new(big.Int).SetBytes(hdr)), L(recvOuts...),
		L(Bool(true), I(c05ConstsFlag(ex)), I(npr), I(1)))
	if ex.cacheHits > 0 {
		c.Hist("circuit-cache-hit")
	}
	if ex.hasNative {
		c.Hist("theorem-hypotheses-evaluated:native-circuit-program")
	}
	if ex.constsRead {
		c.Hist("consts-read-tabled")
	} else {
		c.Hist("consts-read-tabled:FALSE")
	}
	for _, u := range ex.unreadConst {
		c.Hist("untabled-const-operand-unread-by-circuit:" + u)
	}
	if ex.constsTabled {
		c.Hist("consts-tabled")
	} else {
		seen := map[string]bool{}
		for _, u := range ex.untabled {
			if !seen[u] {
				seen[u] = true
				c.Hist("untabled-const-operand:" + u)
			}
		}
	}
	line := len(in.String()) + len(obs.String())
	if name == "big-circuit" || name == "native" {
		c.Note("case %d (%s): %d gates, max permanent id %d, max tmp index %d, line %d bytes", idx, name, ps.gates, ps.max, ps.maxTmp, line)
	}
	if !c.Thorough() && ex.gates > 6000 {
		// oracle only in the quick tier: large native circuits (mul64, div64)
		c.Hist("case-too-large-for-quick-correspondence")
		return nil
	}
	if !c.Thorough() && ex.nSteps > 3000 {
		// oracle only in the quick tier: the model needs ~15 s for such a list
		c.Hist("case-too-long-for-quick-correspondence")
		return nil
	}
	if line > 400000 {
		c.Hist("case-too-large-for-correspondence")
		return nil
	}
	c.Case(in, obs)
	if idx < 4 {
		c.Sample(map[string]interface{}{"program": p.src, "garbler_input": p.g, "evaluator_input": p.e,
			"stream": bigsString(s.gRes), "whole": bigsString(w.res), "types": c05IOString(s.eOut)})
	}
	return nil
}

type c05Inputs struct {
	in0, in1 circuit.IOArg
	outs     circuit.IO
	xy       []bool
	steps    []int
}

// c05ParseIn re-derives the program signature and both parties' input bits.
func c05ParseIn(src string, g, e []string, opt c05StreamOpt, sizes [][]int) *c05Inputs {
	params := utils.NewParams()
	defer params.Close()
	source := "{data}"
	if opt.source != "" {
		source = opt.source
	}
	prog, _, err := compiler.New(params).CompileSSA(source, strings.NewReader(src), sizes)
	if err != nil || len(prog.Inputs) != 2 {
		return nil
	}
	x, err := prog.Inputs[0].Parse(g)
	if err != nil {
		return nil
	}
	var y *big.Int
	if opt.eVals != nil {
		// value entry: the members packed at their declared offsets by the harness
		y = new(big.Int)
		ofs := 0
		members := prog.Inputs[1].Compound
		if len(members) != len(opt.eLeaves) {
			return nil
		}
		for i, m := range members {
			y.Or(y, new(big.Int).Lsh(opt.eLeaves[i], uint(ofs)))
			ofs += int(m.Type.Bits)
		}
	} else {
		y, err = prog.Inputs[1].Parse(e)
		if err != nil {
			return nil
		}
	}
	res := &c05Inputs{in0: prog.Inputs[0], in1: prog.Inputs[1], outs: prog.Outputs, steps: make([]int, len(prog.Steps))}
	for i := 0; i < int(prog.Inputs[0].Type.Bits); i++ {
		res.xy = append(res.xy, x.Bit(i) == 1)
	}
	for i := 0; i < int(prog.Inputs[1].Type.Bits); i++ {
		res.xy = append(res.xy, y.Bit(i) == 1)
	}
	return res
}

// c05ConstsFlag is the second hypothesis flag of the kind-1 observable as the
// harness computes it from the real program: 1 = every constant operand in a
// value position is in prog.Constants, 3 = some are not but no gate of the
// step's circuit reads them (consts_read_tabled holds, consts_tabled does
// not), 2 = an untabled constant operand is read.
func c05ConstsFlag(ex *c05Exported) int {
	f := 0
	if ex.constsRead {
		f = 1
	}
	if !ex.constsTabled {
		f += 2
	}
	return f
}

func runC05(c *Ctx) error {
	if c.Replay != "" {
		return c05Replay(c)
	}
	frags := []int{0, 0, 1, 7, 1000}
	idx := 0
	for _, f := range c05FixedProgs {
		if err := c05Program(c, idx, f.name, c05Prog{src: f.src, g: f.g, e: f.e, feat: map[string]int{"fixed": 1}}, 0); err != nil {
			return err
		}
		idx++
	}
	// one instruction whose own circuit has more than 65536 wires (its
	// circuit-local tmp indices need the 32-bit encoding) in a program whose
	// permanent wire ids all stay below 65536
	for i := 0; i < c.N(1, 3); i++ {
		if err := c05Program(c, idx, "big-circuit", c05BigProg(c.rng.Fork(), i), 0); err != nil {
			return err
		}
		idx++
	}
	// native circuit files (case Circ of the streamer)
	for _, p := range c05NativePrograms(c) {
		if err := c05Program(c, idx, "native", p, 0); err != nil {
			return err
		}
		idx++
	}
	// the door sweep: entry points, options, call patterns and input constructs
	// the families above do not use
	if err := c05Doors(c, &idx); err != nil {
		return err
	}
	// less-travelled entry points: evaluator input as Go values, StreamFile, options
	for _, p := range c05EntryPrograms(c) {
		if err := c05Program(c, idx, "entry", p, 0); err != nil {
			return err
		}
		idx++
	}
	// one constant / variable widened both sign- and zero-extended
	for _, p := range c05ResizePrograms(c) {
		if err := c05Program(c, idx, "sign-resize", p, 0); err != nil {
			return err
		}
		idx++
	}
	// slices of different lengths feeding one opcode twice (the circuit cache)
	for _, p := range c05SlicePrograms(c) {
		if err := c05Program(c, idx, "slice-lengths", p, 0); err != nil {
			return err
		}
		idx++
	}
	// concatenation / slice / joint death of both operands / same-width fresh values
	for _, p := range c05AliasPrograms(c) {
		if err := c05Program(c, idx, "alias-family", p, 0); err != nil {
			return err
		}
		idx++
	}
	// result and dying operand in the same hash bucket of the wire allocator
	for _, p := range c05HashPrograms(c) {
		if err := c05Program(c, idx, "hash-collision", p, 0); err != nil {
			return err
		}
		idx++
	}
	n := c.N(150, 3000)
	for i := 0; i < n; i++ {
		r := c.rng.Fork()
		stmts := 4 + r.Intn(14)
		if i%7 == 6 {
			stmts = 20 + r.Intn(20)
		}
		p := c05GenProg(r, stmts, i%3 != 0)
		if err := c05Program(c, idx, "generated", p, frags[i%len(frags)]); err != nil {
			return err
		}
		idx++
	}
	if c.Thorough() {
		for i := 0; i < 3; i++ {
			if err := c05Program(c, idx, "large-ids", c05LargeProg(c.rng.Fork()), 0); err != nil {
				return err
			}
			idx++
		}
	}
	if err := c05Walloc(c, &idx); err != nil {
		return err
	}
	if err := c05Direct(c); err != nil {
		return err
	}
	// wire ids exactly on, one below and one above the 64k pages of the wire
	// stores (last: the family draws from c.rng, the cases before it stay as
	// they were)
	return c05PageBoundary(c, &idx)
}

// c05Replay runs one program given as a JSON file {"src":..., "g":[...], "e":[...]}
// (the replay struct of an oracle failure) in both modes and prints the outcome.
func c05Replay(c *Ctx) error {
	data, err := os.ReadFile(c.Replay)
	if err != nil {
		return err
	}
	var rp struct {
		Src string   `json:"src"`
		G   []string `json:"g"`
		E   []string `json:"e"`
	}
	if err := json.Unmarshal(data, &rp); err != nil {
		return err
	}
	s := c05RunStream(rp.Src, rp.G, rp.E, c05StreamOpt{}, c.rng.Fork(), 0, 120*time.Second)
	w := c05RunWhole(rp.Src, rp.G, rp.E, c05StreamOpt{})
	fmt.Printf("stream: g=%s (%s) e=%s (%s) gErr=%v eErr=%v stalled=%v\nwhole:  %s (%s) err=%v\n",
		bigsString(s.gRes), c05IOString(s.gOut), bigsString(s.eRes), c05IOString(s.eOut), s.gErr, s.eErr, s.stalled,
		bigsString(w.res), c05IOString(w.out), w.err)
	fmt.Print(s.ssa)
	return nil
}

// c05Direct drives the exported circuit.NewStreaming / Streaming.Garble API
// directly with deterministic randomness: a few random circuits in a row on
// one wire store, random global ids for the circuit inputs/outputs (16-bit
// and 32-bit encodings, mixed), and compares every byte written.
func c05Direct(c *Ctx) error {
	n := c.N(60, 600)
	for i := 0; i < n; i++ {
		r := c.rng.Fork()
		key := r.Bytes([]int{16, 24, 32}[i%3])
		// id universe: small ids, ids around the 16-bit boundary, large ids
		used := map[int]bool{}
		// every 6th case: circuits with more than 65536 wires (tmp indices
		// beyond 16 bits) while all permanent ids are small
		inflate := i%6 == 5
		freshID := func() circuit.Wire {
			for {
				var v int
				sel := (i + r.Intn(3)) % 4
				if inflate {
					sel = 0
				}
				switch sel {
				case 0, 1:
					v = r.Intn(300)
				case 2:
					v = 0xffff - 20 + r.Intn(40)
				default:
					v = 0x10000 + r.Intn(200000)
				}
				if !used[v] {
					used[v] = true
					return circuit.Wire(v)
				}
			}
		}
		ga, _, g2e, _ := newDuplexPair(r.Fork(), 0)
		conn := p2p.NewConn(ga)
		rd := &blockLog{r: r.Fork()}
		ncirc := 1 + r.Intn(3)
		var circs []*circuit.Circuit
		var insL, outsL [][]circuit.Wire
		var pool []circuit.Wire // ids that hold a defined wire
		var bitsOf = map[circuit.Wire]bool{}
		var inputIDs []circuit.Wire
		var inputBits []bool
		for k := 0; k < ncirc; k++ {
			circ := GenCircuit(r, GenOpts{MinIn: 1, MaxIn: 6, MinGates: 1, MaxGates: 30, MaxOut: 5, Overwrite: true})
			ni, no := circ.Inputs.Size(), circ.Outputs.Size()
			if inflate && (k == 0 || r.Bool()) {
				// move the wires from a random tmp wire on up by 70000
				t := ni + r.Intn(circ.NumWires-no-ni+1)
				f := func(w circuit.Wire) circuit.Wire {
					if int(w) >= t {
						return w + 70000
					}
					return w
				}
				for gi := range circ.Gates {
					g := &circ.Gates[gi]
					g.Input0, g.Output = f(g.Input0), f(g.Output)
					if g.Op != circuit.INV {
						g.Input1 = f(g.Input1)
					}
				}
				circ.NumWires += 70000
				c.Hist("direct:circuit-wires>65536")
			}
			ins := make([]circuit.Wire, ni)
			x := make([]bool, ni)
			for j := range ins {
				if len(pool) > 0 && (k > 0 || r.Intn(4) == 0) && r.Intn(3) > 0 {
					ins[j] = pool[r.Intn(len(pool))]
				} else {
					ins[j] = freshID()
					inputIDs = append(inputIDs, ins[j])
					b := r.Bool()
					inputBits = append(inputBits, b)
					bitsOf[ins[j]] = b
					pool = append(pool, ins[j])
				}
				x[j] = bitsOf[ins[j]]
			}
			outs := make([]circuit.Wire, no)
			for j := range outs {
				outs[j] = freshID()
			}
			y := TruthEval(circ, x)
			for j := range outs {
				bitsOf[outs[j]] = y[j]
				pool = append(pool, outs[j])
			}
			circs = append(circs, circ)
			insL = append(insL, ins)
			outsL = append(outsL, outs)
		}
		// NewStreaming assigns labels to the input ids up front; ids that the
		// later circuits introduce are inputs as well
		st, err := circuit.NewStreaming(&env.Config{Rand: rd}, key, inputIDs, conn)
		if err != nil {
			return fmt.Errorf("direct %d: NewStreaming: %v", i, err)
		}
		var csx []SX
		for k, circ := range circs {
			if err := streamingGarble(st, k, circ, insL[k], outsL[k]); err != nil {
				return fmt.Errorf("direct %d: Garble: %v", i, err)
			}
			dims, gs := CircuitSX(circ)
			csx = append(csx, L(dims, gs, wiresIDs(insL[k]), wiresIDs(outsL[k])))
			opHist(c, circ)
		}
		if err := conn.Flush(); err != nil {
			return err
		}
		conn.Close()
		g2e.mu.Lock()
		stream := append([]byte{1}, g2e.log...)
		g2e.mu.Unlock()
		// probes: every id that holds a wire
		var probeW, probeL []SX
		for _, id := range pool {
			w := st.GetInput(id)
			probeW = append(probeW, L(Label(w.L0), Label(w.L1)))
			// the label an evaluator must end with: the one that encodes the
			// plain value of the wire
			probeL = append(probeL, Label(circuit.LabelForBit(w, bitsOf[id])))
			// oracle: the two labels differ by R and are distinct
			if w.L0.Equal(w.L1) {
				c.Fail("c05:direct:equal-labels", "L0 == L1 on a streamed wire", map[string]interface{}{"seed": c.Seed, "case": i, "id": int(id)})
			}
		}
		wide := false
		for _, id := range pool {
			if id > 0xffff {
				wide = true
			}
		}
		if wide {
			c.Hist("direct:ids>65535")
		} else {
			c.Hist("direct:ids<=65535")
		}
		c.Hist(fmt.Sprintf("direct:circuits:%d", ncirc))
		in := L(I(0), Bytes(key), Labels(rd.blocks), wiresIDs(inputIDs), L(csx...), wiresIDs(pool), Bits(inputBits))
		var rlab ot.Label
		if len(rd.blocks) > 0 {
			rlab = rd.blocks[0]
			rlab.SetS(true)
		}
		obs := L(I(0), Label(rlab), Big(new(big.Int).SetBytes(stream)), L(probeW...), L(probeL...))
		c.Case(in, obs)
		c.Eval(fmt.Sprintf("direct|%x|%d|%v", key, i, pool), len(stream) > 1)
	}
	return nil
}

func wiresIDs(ws []circuit.Wire) SX {
	l := make([]SX, len(ws))
	for i, w := range ws {
		l[i] = I(int(w))
	}
	return L(l...)
}
