package main

// Property C13, door sweep: the same oracles (text form = Go-value form on the
// wires, reference codec, Result inverts) driven through the less-travelled
// ways into the functionality — see the table "Doors" in
// notes/C13-findings.md:
//   streaming mode (compiler.Stream / circuit.StreamEvaluator with inputFlag
//   text and with inputValues), mpc.PrintResults with every -base, types built
//   by types.Parse, arguments read back from a marshalled circuit file,
//   concurrent calls on one IOArg, GC pressure / GOMAXPROCS=1, and the
//   apps/garbled command line (-i lists, -base, -stream, fresh processes).

import (
	"bufio"
	"bytes"
	"fmt"
	"io"
	"math/big"
	"net"
	"os"
	"os/exec"
	"path/filepath"
	"reflect"
	"runtime"
	"runtime/debug"
	"strconv"
	"strings"
	"sync"
	"time"

	mpc "github.com/markkurossi/mpc"
	"github.com/markkurossi/mpc/circuit"
	"github.com/markkurossi/mpc/compiler"
	"github.com/markkurossi/mpc/compiler/utils"
	"github.com/markkurossi/mpc/ot"
	"github.com/markkurossi/mpc/p2p"
	"github.com/markkurossi/mpc/types"
)

type c13DoorReplay struct {
	Door   string `json:"door"`
	Type   string `json:"type,omitempty"`
	Input  string `json:"input,omitempty"`
	Got    string `json:"got"`
	Want   string `json:"want"`
	Detail string `json:"detail,omitempty"`
}

// ---------------------------------------------------------------- streaming

// c13StreamSession: compiler.Stream on the garbler side (input as text),
// circuit.StreamEvaluator on the evaluator side with the input either as text
// (eText) or as Go values (eVals).
func c13StreamSession(src string, gText, eText []string, eVals []interface{}, r *RNG) (vals []interface{}, err error) {
	gConn, eConn := p2p.Pipe()
	gr, er := r.Fork(), r.Fork()
	gerr := make(chan error, 1)
	go func() {
		defer func() {
			if e := recover(); e != nil {
				gerr <- fmt.Errorf("garbler panic: %v", e)
				gConn.Close()
			}
		}()
		params := utils.NewParams()
		defer params.Close()
		_, _, e := compiler.New(params).Stream(gConn, ot.NewCO(gr), "door.mpcl", strings.NewReader(src), gText, nil)
		if e != nil {
			gConn.Close()
		}
		gerr <- e
	}()
	type eres struct {
		outs circuit.IO
		r    []*big.Int
		e    error
	}
	ech := make(chan eres, 1)
	go func() {
		defer func() {
			if e := recover(); e != nil {
				ech <- eres{nil, nil, fmt.Errorf("evaluator panic: %v", e)}
				eConn.Close()
			}
		}()
		outs, rr, e := circuit.StreamEvaluator(eConn, ot.NewCO(er), eText, eVals, false)
		if e != nil {
			eConn.Close()
		}
		ech <- eres{outs, rr, e}
	}()
	select {
	case ev := <-ech:
		if ev.e != nil {
			return nil, fmt.Errorf("evaluator: %v", ev.e)
		}
		select {
		case ge := <-gerr:
			if ge != nil {
				return nil, fmt.Errorf("garbler: %v", ge)
			}
		case <-time.After(20 * time.Second):
			return nil, fmt.Errorf("garbler did not finish")
		}
		return mpc.Results(ev.r, ev.outs), nil
	case <-time.After(20 * time.Second):
		gConn.Close()
		eConn.Close()
		return nil, fmt.Errorf("streaming session timed out")
	}
}

func (x *c13Run) doorStreaming(r *RNG) {
	c := x.c
	n := 0
	for _, w := range []int{8, 13, 32, 64} {
		typ := fmt.Sprintf("int%d", w)
		src := "package main\n\nfunc main(g, e " + typ + ") (" + typ + ", " + typ + ") {\n\treturn g + e, e\n}\n"
		lo := new(big.Int).Neg(c13Pow2(w - 1))
		hi := new(big.Int).Sub(c13Pow2(w-1), big.NewInt(1))
		for _, cl := range []struct {
			v     *big.Int
			class string
		}{{big.NewInt(0), "zero"}, {big.NewInt(-1), "minus-one"}, {lo, "min"}, {hi, "max"}, {big.NewInt(-5), "minus-five"}, {big.NewInt(5), "five"}} {
			want := []string{c13WrapSigned(new(big.Int).Add(cl.v, cl.v), w).String(), cl.v.String()}
			for form := 0; form < 2; form++ {
				var eText []string
				var eVals []interface{}
				fname := "StreamEvaluator(inputFlag text)"
				if form == 0 {
					eText = []string{cl.v.String()}
				} else {
					eVals = []interface{}{c13GoInt(w, cl.v)}
					fname = "StreamEvaluator(inputValues)"
				}
				n++
				c.Eval(fmt.Sprintf("door-stream|%s|%s|%d", typ, cl.v, form), true)
				vals, err := c13StreamSession(src, []string{cl.v.String()}, eText, eVals, r)
				var got []string
				for _, v := range vals {
					got = append(got, fmt.Sprint(v))
				}
				if err != nil || !reflect.DeepEqual(got, want) {
					c.Fail(fmt.Sprintf("c13:wires:text-vs-go-value:stream-evaluator-input:%s:%s", typ, cl.class),
						"a streaming session does not return the reference result for this form of the inputs",
						c13DoorReplay{Door: "compiler.Stream + circuit." + fname, Type: typ, Input: cl.v.String(), Got: fmt.Sprint(got, err), Want: fmt.Sprint(want)})
				}
			}
		}
	}
	// a byte array argument, short literal / short []byte
	src := "package main\n\nfunc main(g, e [4]byte) ([4]byte, [4]byte) {\n\treturn g, e\n}\n"
	for form := 0; form < 2; form++ {
		var eText []string
		var eVals []interface{}
		if form == 0 {
			eText = []string{"0x0102"}
		} else {
			eVals = []interface{}{[]byte{1, 2}}
		}
		n++
		vals, err := c13StreamSession(src, []string{"0xa1a2a3a4"}, eText, eVals, r)
		got := fmt.Sprint(vals)
		if err != nil || got != "[[161 162 163 164] [1 2 0 0]]" {
			c.Fail("c13:wires:text-vs-go-value:stream-evaluator-input:[4]uint8:short", "a streaming session does not return the arrays it was given",
				c13DoorReplay{Door: "compiler.Stream + circuit.StreamEvaluator", Type: "[4]byte", Input: "0x0102 / []byte{1,2}", Got: fmt.Sprint(got, err), Want: "[[161 162 163 164] [1 2 0 0]]"})
		}
	}
	c.Note("door sweep: %d streaming sessions (compiler.Stream / circuit.StreamEvaluator)", n)
}

// ---------------------------------------------------------------- PrintResults

func c13CaptureStdout(f func()) string {
	old := os.Stdout
	rd, wr, err := os.Pipe()
	if err != nil {
		return ""
	}
	os.Stdout = wr
	done := make(chan string, 1)
	go func() {
		var buf bytes.Buffer
		io.Copy(&buf, rd)
		done <- buf.String()
	}()
	func() {
		defer func() { recover() }()
		f()
	}()
	wr.Close()
	os.Stdout = old
	return <-done
}

// the printed text of PrintResults must denote the value Result returns
func (x *c13Run) doorPrintResults(r *RNG) {
	c := x.c
	type out struct {
		shape *c13Shape
		z     *big.Int // the (signed) value
	}
	var outs []out
	for _, w := range []int{1, 7, 8, 13, 16, 31, 32, 63, 64, 70, 130} {
		for _, signed := range []bool{false, true} {
			k := c13Uint
			if signed {
				k = c13Int
			}
			for i := 0; i < 3; i++ {
				z, _ := c13GenInt(r, signed, w)
				outs = append(outs, out{&c13Shape{kind: k, bits: w}, z})
			}
			if signed {
				outs = append(outs, out{&c13Shape{kind: k, bits: w}, big.NewInt(-1)})
			}
		}
	}
	for _, base := range []int{0, 2, 8, 10, 16} {
		var results []*big.Int
		var io circuit.IO
		for _, o := range outs {
			results = append(results, new(big.Int).Mod(o.z, c13Pow2(o.shape.bits)))
			io = append(io, circuit.IOArg{Type: o.shape.Info()})
		}
		text := c13CaptureStdout(func() { mpc.PrintResults(results, io, base) })
		lines := strings.Split(strings.TrimSpace(text), "\n")
		c.Eval(fmt.Sprintf("door-print|%d", base), true)
		if len(lines) != len(outs) {
			c.Fail("c13:PrintResults:line-count", "PrintResults does not print one line per result",
				c13DoorReplay{Door: "mpc.PrintResults", Got: fmt.Sprint(len(lines)), Want: fmt.Sprint(len(outs)), Detail: fmt.Sprintf("base %d", base)})
			continue
		}
		for i, o := range outs {
			prefix := fmt.Sprintf("Result[%d]: ", i)
			t := strings.TrimPrefix(lines[i], prefix)
			b := base
			if b == 0 {
				b = 10
				if o.shape.bits > 64 {
					b = 16
				}
			}
			// sign may come after a 0x prefix for negative *big.Int values ("0x-1"): read leniently
			s := strings.Replace(t, "0x", "", 1)
			got, ok := new(big.Int).SetString(s, b)
			if !strings.HasPrefix(lines[i], prefix) || !ok || got.Cmp(o.z) != 0 {
				c.Fail(fmt.Sprintf("c13:PrintResults:base%d:%s:wrong-text", base, o.shape), "the text PrintResults prints does not denote the decoded value",
					c13DoorReplay{Door: "mpc.PrintResults", Type: o.shape.String(), Input: "0x" + results[i].Text(16), Got: lines[i], Want: o.z.Text(b), Detail: fmt.Sprintf("-base %d", base)})
			}
		}
	}
	// bool, []byte, string, array of uint16
	arr := &c13Shape{kind: c13Array, n: 3, elem: &c13Shape{kind: c13Uint, bits: 8}}
	a16 := &c13Shape{kind: c13Array, n: 2, elem: &c13Shape{kind: c13Int, bits: 16}}
	io := circuit.IO{{Type: types.Bool}, {Type: arr.Info()}, {Type: (&c13Shape{kind: c13String, bits: 16}).Info()}, {Type: a16.Info()}}
	res := []*big.Int{big.NewInt(1), big.NewInt(0x0302a1), big.NewInt(0x6261), big.NewInt(0xfffe0005)}
	want := "Result[0]: true\nResult[1]: a10203\nResult[2]: ab\nResult[3]: [5 -2]\n"
	for _, base := range []int{0, 16} {
		got := c13CaptureStdout(func() { mpc.PrintResults(res, io, base) })
		if got != want {
			c.Fail("c13:PrintResults:non-integer:wrong-text", "PrintResults of bool / []byte / string / array results", c13DoorReplay{Door: "mpc.PrintResults", Got: got, Want: want, Detail: fmt.Sprintf("-base %d", base)})
		}
	}
}

// ---------------------------------------------------------------- types.Parse, circuit files

func (x *c13Run) doorTypesParse(r *RNG) {
	c := x.c
	cases := []struct {
		text  string
		shape *c13Shape
	}{
		{"b", &c13Shape{kind: c13Bool}}, {"bool", &c13Shape{kind: c13Bool}}, {"byte", &c13Shape{kind: c13Uint, bits: 8}},
		{"rune", &c13Shape{kind: c13Int, bits: 32}}, {"i13", &c13Shape{kind: c13Int, bits: 13}}, {"int13", &c13Shape{kind: c13Int, bits: 13}},
		{"u7", &c13Shape{kind: c13Uint, bits: 7}}, {"uint64", &c13Shape{kind: c13Uint, bits: 64}}, {"int130", &c13Shape{kind: c13Int, bits: 130}},
		{"[4]byte", &c13Shape{kind: c13Array, n: 4, elem: &c13Shape{kind: c13Uint, bits: 8}}},
		{"[3]int16", &c13Shape{kind: c13Array, n: 3, elem: &c13Shape{kind: c13Int, bits: 16}}},
		{"[0]uint8", &c13Shape{kind: c13Array, n: 0, elem: &c13Shape{kind: c13Uint, bits: 8}}},
		{"[5]b", &c13Shape{kind: c13Array, n: 5, elem: &c13Shape{kind: c13Bool}}},
		{"s16", &c13Shape{kind: c13String, bits: 16}}, {"string24", &c13Shape{kind: c13String, bits: 24}},
	}
	for _, tc := range cases {
		info, err := types.Parse(tc.text)
		want := tc.shape.Info()
		c.Eval("door-types.Parse|"+tc.text, true)
		if err != nil || !c13SameInfo(info, want) {
			c.Fail("c13:types.Parse:"+tc.text, "types.Parse does not build the type the text denotes",
				c13DoorReplay{Door: "types.Parse", Input: tc.text, Got: fmt.Sprint(info, err), Want: want.String()})
			continue
		}
		if tc.shape.kind == c13String {
			continue
		}
		for i := 0; i < 3; i++ {
			v, _ := c13GenVal(r, tc.shape)
			s, sp := c13Spell(r, tc.shape, v)
			if sp == "" {
				continue
			}
			arg := circuit.IOArg{Type: info}
			bits := tc.shape.Bits()
			pz, pcode := c13Parse(arg, []string{s})
			c.Case(L(I(0), c13ArgSX(arg), c13StrsSX([]string{s})), c13ValueWires(pz, pcode, int(info.Bits)))
			wantBits := bitsString(c13Encode(tc.shape, v))
			if pcode != 0 || bitsString(c13Wires(pz, bits)) != wantBits {
				c.Fail("c13:types.Parse:"+tc.text+":Parse-bits", "Parse on a type built by types.Parse", c13DoorReplay{Door: "types.Parse + IOArg.Parse", Type: tc.text, Input: s, Got: fmt.Sprint(pz, pcode), Want: wantBits})
			}
			if gv, ok := c13GoValue(r, tc.shape, v); ok {
				sz, scode := c13Set(arg, []interface{}{gv})
				c.Case(L(I(1), c13ArgSX(arg), c13GinsSX([]interface{}{gv})), c13ValueWires(sz, scode, int(info.Bits)))
				if scode != 0 || bitsString(c13Wires(sz, bits)) != wantBits {
					c.Fail("c13:types.Parse:"+tc.text+":Set-bits", "Set on a type built by types.Parse", c13DoorReplay{Door: "types.Parse + IOArg.Set", Type: tc.text, Input: fmt.Sprint(gv), Got: fmt.Sprint(sz, scode), Want: wantBits})
				}
			}
		}
	}
}

// arguments read back from a marshalled circuit (circuit.Marshal / ParseMPCLC)
func (x *c13Run) doorCircuitFile(r *RNG) {
	c := x.c
	src := "package main\n\ntype G struct {\n\ta int13\n\tk [4]byte\n\tf bool\n\tn uint64\n}\n\nfunc main(g G, e [3]int16) (int13, [4]byte, bool, uint64, [3]int16) {\n\treturn g.a, g.k, g.f, g.n, e\n}\n"
	params := utils.NewParams()
	defer params.Close()
	circ, _, err := compiler.New(params).Compile(src, nil)
	if err != nil {
		c.Fail("c13:circuit-file:compile", "the door program does not compile", c13DoorReplay{Door: "compiler.Compile", Got: err.Error()})
		return
	}
	var buf bytes.Buffer
	if err := circ.Marshal(&buf); err != nil {
		c.Fail("c13:circuit-file:marshal", "Marshal fails", c13DoorReplay{Door: "Circuit.Marshal", Got: err.Error()})
		return
	}
	back, err := circuit.ParseMPCLC(bytes.NewReader(buf.Bytes()))
	if err != nil || len(back.Inputs) != len(circ.Inputs) {
		c.Fail("c13:circuit-file:parse", "ParseMPCLC fails on a marshalled circuit", c13DoorReplay{Door: "circuit.ParseMPCLC", Got: fmt.Sprint(err)})
		return
	}
	inputs := [][]string{{"-5", "0x0102", "true", "0xffffffffffffffff"}, {"0x0001fffe8000"}}
	govals := [][]interface{}{{int16(-5), []byte{1, 2}, true, uint64(1<<64 - 1)}, nil}
	for i := range circ.Inputs {
		a, b := circ.Inputs[i], back.Inputs[i]
		c.Eval(fmt.Sprintf("door-circuit-file|%d", i), true)
		pa, ca := c13Parse(a, inputs[i])
		pb, cb := c13Parse(b, inputs[i])
		c.Case(L(I(0), c13ArgSX(b), c13StrsSX(inputs[i])), c13ValueWires(pb, cb, int(b.Type.Bits)))
		if a.Type.Bits != b.Type.Bits || ca != 0 || cb != 0 || pa.Cmp(pb) != 0 {
			c.Fail("c13:circuit-file:argument-changed:Parse", "an argument read back from a circuit file does not encode text like the compiled one",
				c13DoorReplay{Door: "Circuit.Marshal + ParseMPCLC + IOArg.Parse", Type: a.String() + " / " + b.String(), Input: strings.Join(inputs[i], ","), Got: fmt.Sprint(pb, cb, b.Type.Bits), Want: fmt.Sprint(pa, ca, a.Type.Bits)})
		}
		if govals[i] != nil {
			sa, ca := c13Set(a, govals[i])
			sb, cb := c13Set(b, govals[i])
			c.Case(L(I(1), c13ArgSX(b), c13GinsSX(govals[i])), c13ValueWires(sb, cb, int(b.Type.Bits)))
			if ca != 0 || cb != 0 || sa.Cmp(sb) != 0 || sa.Cmp(pa) != 0 {
				c.Fail("c13:circuit-file:argument-changed:Set", "an argument read back from a circuit file does not encode Go values like the compiled one / like Parse",
					c13DoorReplay{Door: "Circuit.Marshal + ParseMPCLC + IOArg.Set", Type: b.String(), Input: c13GoValuesText(govals[i]), Got: fmt.Sprint(sb, cb), Want: fmt.Sprint(sa, ca, pa)})
			}
		}
	}
	// results decoded with the outputs read back
	gIn, _ := circ.Inputs[0].Parse(inputs[0])
	eIn, _ := circ.Inputs[1].Parse(inputs[1])
	ins := append(circ.Inputs[0].Compound.Split(gIn), eIn)
	o1, err1 := circ.Compute(ins)
	o2, err2 := back.Compute(ins)
	want := "[-5 [1 2 0 0] true 18446744073709551615 [1 -2 -32768]]"
	if err1 != nil || err2 != nil || fmt.Sprint(mpc.Results(o1, circ.Outputs)) != want || fmt.Sprint(mpc.Results(o2, back.Outputs)) != want {
		c.Fail("c13:circuit-file:results", "results decoded with the outputs of the compiled / reloaded circuit",
			c13DoorReplay{Door: "Compute + mpc.Results", Got: fmt.Sprint(mpc.Results(o1, circ.Outputs), mpc.Results(o2, back.Outputs), err1, err2), Want: want})
	}
}

// ---------------------------------------------------------------- concurrency, GC pressure

func (x *c13Run) doorConcurrent(r *RNG) {
	c := x.c
	oldGC := debug.SetGCPercent(1)
	defer debug.SetGCPercent(oldGC)
	s := &c13Shape{kind: c13Struct, fields: []*c13Shape{{kind: c13Int, bits: 13}, {kind: c13Array, n: 4, elem: &c13Shape{kind: c13Uint, bits: 8}},
		{kind: c13Bool}, {kind: c13Int, bits: 70}}}
	arg := s.IOArg()
	strs := []string{"-5", "0x0102", "t", "-1"}
	govals := []interface{}{int16(-5), []byte{1, 2}, true, int64(-1)}
	wantP, _ := c13Parse(arg, strs)
	wantS, _ := c13Set(arg, govals)
	i70 := (&c13Shape{kind: c13Int, bits: 70}).Info()
	shared := new(big.Int).Sub(c13Pow2(70), big.NewInt(1)) // one *big.Int decoded by every goroutine
	var wg sync.WaitGroup
	var mu sync.Mutex
	bad := ""
	for g := 0; g < 8; g++ {
		wg.Add(1)
		go func(g int) {
			defer wg.Done()
			defer func() {
				if e := recover(); e != nil {
					mu.Lock()
					bad = fmt.Sprintf("panic: %v", e)
					mu.Unlock()
				}
			}()
			for k := 0; k < 40; k++ {
				p, pc := c13Parse(arg, strs)
				sv, sc := c13Set(arg, govals)
				o, oc := c13Result(shared, i70)
				parts := arg.Compound.Split(wantP)
				sz, _ := circuit.InputSizes(strs)
				msg := ""
				switch {
				case pc != 0 || p.Cmp(wantP) != 0:
					msg = fmt.Sprintf("Parse gave %v", p)
				case sc != 0 || bitsString(c13Wires(sv, 88)) != bitsString(c13Wires(wantP, 88)) || sv.Cmp(wantS) != 0:
					msg = fmt.Sprintf("Set gave %v", sv)
				case oc != 0 || fmt.Sprint(o) != "-1":
					msg = fmt.Sprintf("Result gave %v", o)
				case len(parts) != 4 || parts[1].Int64() != 0x0201:
					msg = fmt.Sprintf("Split gave %v", parts)
				case fmt.Sprint(sz) != "[3 16 1 1]":
					msg = fmt.Sprintf("InputSizes gave %v", sz)
				}
				if msg != "" {
					mu.Lock()
					bad = fmt.Sprintf("goroutine %d iteration %d: %s", g, k, msg)
					mu.Unlock()
					return
				}
			}
		}(g)
	}
	wg.Wait()
	c.Eval("door-concurrent", true)
	if bad != "" || shared.Cmp(new(big.Int).Sub(c13Pow2(70), big.NewInt(1))) != 0 {
		c.Fail("c13:concurrent:shared-argument", "concurrent Parse / Set / Result / Split / InputSizes on one IOArg and one *big.Int (GC percent 1) disagree with the sequential result",
			c13DoorReplay{Door: "8 goroutines x 40 calls, GOGC=1", Type: s.String(), Input: strings.Join(strs, ","), Got: bad + " shared=" + shared.String(), Want: "every call as in the sequential run; shared value unchanged"})
	}
	// a slice of the ordinary cases again under GC pressure and GOMAXPROCS=1
	oldP := runtime.GOMAXPROCS(1)
	for i := 0; i < 25; i++ {
		x.codecCase(r.Fork())
		x.historyCase(r.Fork())
		x.resultCase(r.Fork())
	}
	runtime.GOMAXPROCS(oldP)
}

// ---------------------------------------------------------------- the apps/garbled command line

func c13FreePort() string {
	l, err := net.Listen("tcp", "127.0.0.1:0")
	if err != nil {
		return ""
	}
	defer l.Close()
	return fmt.Sprintf("127.0.0.1:%d", l.Addr().(*net.TCPAddr).Port)
}

// c13Garbled runs one evaluator and one garbler process of apps/garbled and
// returns the "Result[i]: " lines the garbler prints.
func c13Garbled(bin, file string, gArgs, eArgs []string) (string, error) {
	port := c13FreePort()
	if port == "" {
		return "", fmt.Errorf("no free port")
	}
	ev := exec.Command(bin, append(append([]string{"-e", "-port", port}, eArgs...), file)...)
	evOut, err := ev.StdoutPipe()
	if err != nil {
		return "", err
	}
	ev.Stderr = io.Discard
	if err := ev.Start(); err != nil {
		return "", err
	}
	defer func() {
		ev.Process.Kill()
		ev.Wait()
	}()
	listening := make(chan bool, 1)
	evLines := make(chan string, 64)
	go func() {
		sc := bufio.NewScanner(evOut)
		for sc.Scan() {
			if strings.HasPrefix(sc.Text(), "Listening") {
				listening <- true
			}
			if strings.HasPrefix(sc.Text(), "Result[") {
				evLines <- sc.Text()
			}
		}
	}()
	select {
	case <-listening:
	case <-time.After(15 * time.Second):
		return "", fmt.Errorf("evaluator did not start listening")
	}
	ga := exec.Command(bin, append(append([]string{"-port", port}, gArgs...), file)...)
	out, err := ga.Output()
	if err != nil {
		return "", fmt.Errorf("garbler: %v", err)
	}
	var res []string
	for _, l := range strings.Split(string(out), "\n") {
		if strings.HasPrefix(l, "Result[") {
			res = append(res, l)
		}
	}
	// the evaluator prints the same results
	var eres []string
	for len(eres) < len(res) {
		select {
		case l := <-evLines:
			eres = append(eres, l)
		case <-time.After(10 * time.Second):
			return strings.Join(res, "\n"), fmt.Errorf("evaluator printed %d of %d results", len(eres), len(res))
		}
	}
	if strings.Join(eres, "\n") != strings.Join(res, "\n") {
		return strings.Join(res, "\n"), fmt.Errorf("evaluator printed %q", eres)
	}
	return strings.Join(res, "\n"), nil
}

func (x *c13Run) doorCommandLine() {
	c := x.c
	repo := os.Getenv("VERIF_REPO")
	if repo == "" {
		repo = "/repo"
	}
	dir, err := os.MkdirTemp("", "c13-garbled-")
	if err != nil {
		c.Note("door sweep: command line not exercised: %v", err)
		return
	}
	defer os.RemoveAll(dir)
	bin := filepath.Join(dir, "garbled")
	build := exec.Command("go", "build", "-o", bin, "./apps/garbled")
	build.Dir = repo
	if out, err := build.CombinedOutput(); err != nil {
		c.Fail("c13:command-line:build", "apps/garbled does not build", c13DoorReplay{Door: "go build ./apps/garbled", Got: string(out) + err.Error()})
		return
	}
	sized := filepath.Join(dir, "sized.mpcl")
	os.WriteFile(sized, []byte("package main\n\ntype G struct {\n\ta int13\n\tk [4]byte\n}\n\nfunc main(g G, e int32) (int13, [4]byte, int32, int32) {\n\treturn g.a, g.k, e, e + e\n}\n"), 0o644)
	unsized := filepath.Join(dir, "unsized.mpcl")
	os.WriteFile(unsized, []byte("package main\n\nfunc main(g uint, e []byte) (uint, []byte) {\n\treturn g, e\n}\n"), 0o644)
	runs := []struct {
		name, file   string
		gArgs, eArgs []string
		want         string
	}{
		{"negative decimals, list input", sized, []string{"-i", "-5,0x0102"}, []string{"-i", "-7"},
			"Result[0]: -5\nResult[1]: 01020000\nResult[2]: -7\nResult[3]: -14"},
		{"-base 16", sized, []string{"-base", "16", "-i", "0b101,0xa1a2a3a4"}, []string{"-base", "16", "-i", "0x7fffffff"},
			"Result[0]: 5\nResult[1]: a1a2a3a4\nResult[2]: 7fffffff\nResult[3]: -2"},
		{"-stream, negative", sized, []string{"-stream", "-i", "-1,0"}, []string{"-stream", "-i", "-2147483648"},
			"Result[0]: -1\nResult[1]: 00000000\nResult[2]: -2147483648\nResult[3]: 0"},
		{"unsized arguments from -i / -pi sizes", unsized, []string{"-i", "300", "-pi", "0x0102ff"}, []string{"-i", "0x0102ff", "-pi", "300"},
			"Result[0]: 300\nResult[1]: 0102ff"},
	}
	for _, rn := range runs {
		c.Eval("door-command-line|"+rn.name, true)
		got, err := c13Garbled(bin, rn.file, rn.gArgs, rn.eArgs)
		if err != nil || got != rn.want {
			c.Fail("c13:command-line:"+strings.ReplaceAll(strings.Split(rn.name, ",")[0], " ", "-"), "apps/garbled does not print the reference results for these -i inputs",
				c13DoorReplay{Door: "apps/garbled " + strings.Join(rn.gArgs, " ") + "  |  -e " + strings.Join(rn.eArgs, " "), Input: filepath.Base(rn.file), Got: fmt.Sprint(got, " ", err), Want: rn.want})
		}
	}
	_ = strconv.Itoa
}
