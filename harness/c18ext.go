package main

// Property C18, second part (model: coq/theories/IO/Sha2pcRounds.v):
//
//  (d) elliptic.UnmarshalCompressed — the one fact about it that the proof of
//      Round2 canonicity (C18_canonical_round2) assumes: an accepted encoding
//      is the compressed form of the returned point, which is on the curve
//      ("reject or round-trip").  Canonical and non-canonical encodings on
//      every curve; every answer goes to the model's checker (run_c18 kind 9,
//      C18_decompress_check_sound) and, independently, to the oracle below.
//      The same non-canonical X values are planted into real Round2 messages
//      and given to DecodeRound2.  Curve parameters: kind 10.
//  (e) the argument validation of GarblerRound1/3 and EvaluatorRound2/4: nil
//      and zero arguments, other session, other curve (by name and by points),
//      points off the curve, wrong counts, a randomness source running dry at
//      each stage, several faults at once (which error wins) — the real
//      functions' error against the model's named error (run_c18 kind 11).
//  (f) every encoding given to every OTHER decoder (a message of the wrong
//      round / the other party's session): an error, never accepted.

import (
	"crypto/elliptic"
	"errors"
	"fmt"
	"io"
	"math/big"
	"strings"

	"github.com/markkurossi/mpc/circuit"
	"github.com/markkurossi/mpc/ot"
	"github.com/markkurossi/mpc/sha2pc"
)

// ---------------------------------------------------------------- (d) compressed points

// cases whose model side needs Euler's criterion (a rejected X below p with a
// well-formed prefix) cost seconds on the large curves: a budget per curve
var c18EulerLeft = map[int]int{}

func c18CurveParams(c *Ctx) {
	var per []SX
	for _, cv := range c18Curves {
		p := cv.c.Params()
		per = append(per, L(I(cv.id), Big(p.P), Big(p.B), Big(p.Gx), Big(p.Gy), Bool(cv.c.IsOnCurve(p.Gx, p.Gy))))
	}
	c.Case(L(I(10)), L(per...))
	c.Eval("curve-params", false)
}

func c18Compress(cv c18Curve, x *big.Int, odd bool) []byte {
	out := make([]byte, 1+cv.bl)
	out[0] = 2
	if odd {
		out[0] = 3
	}
	xb := x.Bytes()
	if len(xb) > cv.bl {
		xb = xb[len(xb)-cv.bl:]
	}
	copy(out[1+cv.bl-len(xb):], xb)
	return out
}

// c18EmitCompressed: one call of elliptic.UnmarshalCompressed.  want != nil:
// data is the canonical encoding of that point and must be accepted.
func c18EmitCompressed(c *Ctx, cv c18Curve, name string, data []byte, want *ot.ECPoint) {
	var x, y *big.Int
	cls, msg := c18Guard(func() error { x, y = elliptic.UnmarshalCompressed(cv.c, data); return nil })
	key := fmt.Sprintf("c18:UnmarshalCompressed:%s:%s", cv.name, name)
	rep := c18Replay{Seed: c.Seed, Curve: cv.name, Kind: "elliptic.UnmarshalCompressed", Mut: name, Bytes: hexHead(data)}
	c.Eval(fmt.Sprintf("uc|%s|%x", cv.name, data), want == nil)
	if cls == clsPanic {
		rep.What = "UnmarshalCompressed panics: " + msg
		c.Fail(key+":panic", rep.What, rep)
		return
	}
	accepted := x != nil && y != nil
	c.Hist(fmt.Sprintf("compressed:%s:%v", name, map[bool]string{true: "accepted", false: "rejected"}[accepted]))
	if accepted {
		// reject-or-roundtrip: the accepted point is on the curve and compresses to the input
		ok := len(data) == 1+cv.bl && (data[0] == 2 || data[0] == 3) && cv.c.IsOnCurve(x, y)
		if ok {
			back := elliptic.MarshalCompressed(cv.c, x, y)
			ok = string(back) == string(data)
		}
		if !ok {
			rep.What = "a non-canonical compressed encoding is accepted (the returned point does not compress to the input, or is not on the curve)"
			rep.Got = fmt.Sprintf("x=%x y=%x", x, y)
			c.Fail(key+":non-canonical-accepted", rep.What, rep)
		}
		if want != nil && (x.Cmp(want.X) != 0 || y.Cmp(want.Y) != 0) {
			rep.What = "the canonical encoding of a curve point decompresses to another point"
			c.Fail(key+":wrong-point", rep.What, rep)
		}
	} else if want != nil {
		rep.What = "the canonical encoding of a curve point is rejected"
		c.Fail(key+":valid-rejected", rep.What, rep)
	}
	// correspondence: the model's checker on this answer
	if !accepted && len(data) == 1+cv.bl && (data[0] == 2 || data[0] == 3) &&
		new(big.Int).SetBytes(data[1:]).Cmp(cv.c.Params().P) < 0 {
		if c18EulerLeft[cv.id] <= 0 {
			c.Hist("compressed:oracle-only(no-root,euler-budget)")
			return
		}
		c18EulerLeft[cv.id]--
	}
	if accepted {
		c.Case(L(I(9), I(cv.id), Bytes(data), L(Big(y))), L(I(1), Big(x), Big(y)))
	} else {
		c.Case(L(I(9), I(cv.id), Bytes(data), L()), L(I(0)))
	}
}

// c18SmallValidX: the smallest x >= from that is the X of a curve point
func c18SmallValidX(cv c18Curve, from int64) *big.Int {
	for x := big.NewInt(from); ; x.Add(x, big.NewInt(1)) {
		if _, y := elliptic.UnmarshalCompressed(cv.c, c18Compress(cv, x, false)); y != nil {
			return x
		}
	}
}

// c18NoRootX: a random X below p that is not the X of any curve point
func c18NoRootX(r *RNG, cv c18Curve) *big.Int {
	p := cv.c.Params().P
	for {
		x := new(big.Int).SetBytes(r.Bytes(cv.bl))
		x.Mod(x, p)
		if _, y := elliptic.UnmarshalCompressed(cv.c, c18Compress(cv, x, false)); y == nil {
			return x
		}
	}
}

func c18Compressed(c *Ctx) {
	for _, cv := range c18Curves {
		// Euler-path cases in the model: quick 2 / 2 / 1 / 0, thorough 6 / 6 / 4 / 2
		c18EulerLeft[cv.id] = []int{c.N(2, 6), c.N(2, 6), c.N(1, 4), c.N(0, 2)}[cv.id]
		r := c.rng.Fork()
		par := cv.c.Params()
		p := par.P
		odd := func(v *big.Int) bool { return v.Bit(0) == 1 }
		neg := func(v *big.Int) *big.Int { return new(big.Int).Sub(p, v) }
		full := new(big.Int).Lsh(big.NewInt(1), uint(8*cv.bl)) // 256^bl

		// canonical encodings: the base point and random points, both roots
		pts := []ot.ECPoint{{X: par.Gx, Y: par.Gy}}
		for i := 0; i < c.N(3, 20); i++ {
			k := new(big.Int).SetBytes(r.Bytes(cv.bl))
			k.Mod(k, par.N)
			x, y := cv.c.ScalarBaseMult(k.Bytes())
			if x.Sign() != 0 || y.Sign() != 0 {
				pts = append(pts, ot.ECPoint{X: x, Y: y})
			}
		}
		for i, pt := range pts {
			pt := pt
			c18EmitCompressed(c, cv, fmt.Sprintf("valid-point-%d", i), c18Compress(cv, pt.X, odd(pt.Y)), &pt)
			other := ot.ECPoint{X: pt.X, Y: neg(pt.Y)}
			c18EmitCompressed(c, cv, fmt.Sprintf("valid-point-%d-parity-flipped", i), c18Compress(cv, pt.X, !odd(pt.Y)), &other)
		}
		g := c18Compress(cv, par.Gx, odd(par.Gy))

		// wrong prefix byte in front of a valid X
		for _, pre := range []byte{0x00, 0x01, 0x04, 0x05, 0x06, 0x07, 0x82, 0xff} {
			d := cloneBytes(g)
			d[0] = pre
			c18EmitCompressed(c, cv, fmt.Sprintf("prefix-%#02x", pre), d, nil)
		}
		// the uncompressed and hybrid encodings of the base point
		c18EmitCompressed(c, cv, "uncompressed-encoding", elliptic.Marshal(cv.c, par.Gx, par.Gy), nil)
		{
			h := elliptic.Marshal(cv.c, par.Gx, par.Gy)
			h[0] = 2
			c18EmitCompressed(c, cv, "uncompressed-length-prefix-02", h, nil)
		}
		// infinity, empty, all-zero, wrong lengths
		c18EmitCompressed(c, cv, "infinity-00", []byte{0}, nil)
		c18EmitCompressed(c, cv, "empty", []byte{}, nil)
		c18EmitCompressed(c, cv, "prefix-only-02", []byte{2}, nil)
		c18EmitCompressed(c, cv, "all-zero", make([]byte, 1+cv.bl), nil)
		c18EmitCompressed(c, cv, "one-byte-short", g[:len(g)-1], nil)
		c18EmitCompressed(c, cv, "one-byte-long", append(cloneBytes(g), 0), nil)
		c18EmitCompressed(c, cv, "leading-zero-inserted", append([]byte{g[0], 0}, g[1:]...), nil)

		// X >= p: p, p+1, p + small, p + (the X of a point) when that fits the field width, 2^(8*bl)-1
		x0 := c18SmallValidX(cv, 0)
		x1 := c18SmallValidX(cv, int64(r.Range(1000, 60000)))
		xs := map[string]*big.Int{
			"x=p":              new(big.Int).Set(p),
			"x=p+1":            new(big.Int).Add(p, big.NewInt(1)),
			"x=p+valid-x0":     new(big.Int).Add(p, x0),
			"x=p+valid-x1":     new(big.Int).Add(p, x1),
			"x=p+random-small": new(big.Int).Add(p, big.NewInt(int64(r.Range(2, 1<<30)))),
			"x=all-ff":         new(big.Int).Sub(full, big.NewInt(1)),
		}
		if gx := new(big.Int).Add(p, par.Gx); gx.Cmp(full) < 0 {
			xs["x=p+Gx"] = gx // P-521: fits the 66 bytes
		}
		for i, pt := range pts[1:] {
			if v := new(big.Int).Add(p, pt.X); v.Cmp(full) < 0 && i < 2 {
				xs[fmt.Sprintf("x=p+X%d", i+1)] = v
			}
		}
		for _, name := range c18SortedKeys(xs) {
			v := xs[name]
			if v.Cmp(full) >= 0 {
				continue
			}
			for _, o := range []bool{false, true} {
				c18EmitCompressed(c, cv, fmt.Sprintf("%s:prefix-%d", name, map[bool]int{false: 2, true: 3}[o]), c18Compress(cv, v, o), nil)
			}
		}
		// the canonical small X itself (valid), and X = 0
		for _, o := range []bool{false, true} {
			c18EmitCompressed(c, cv, "x=valid-x0", c18Compress(cv, x0, o), nil)
			c18EmitCompressed(c, cv, "x=0", c18Compress(cv, big.NewInt(0), o), nil)
		}
		// an X below p without a root: no parity makes it a point
		for i := 0; i < c.N(1, 3); i++ {
			nx := c18NoRootX(r, cv)
			for _, o := range []bool{false, true} {
				c18EmitCompressed(c, cv, "x-without-root", c18Compress(cv, nx, o), nil)
			}
		}
	}
}

func c18SortedKeys(m map[string]*big.Int) []string {
	var ks []string
	for k := range m {
		ks = append(ks, k)
	}
	for i := range ks {
		for j := i + 1; j < len(ks); j++ {
			if ks[j] < ks[i] {
				ks[i], ks[j] = ks[j], ks[i]
			}
		}
	}
	return ks
}

// c18NonCanonicalPoints plants non-canonical X values into choice points of a
// real Round2 message: DecodeRound2 must refuse (or, for the flipped sign,
// accept the other root and re-encode to the same bytes).
func c18NonCanonicalPoints(c *Ctx, base *c18Run) {
	cv := base.cv
	enc := base.enc[c18R2]
	const hdr = 2 + 8 + 1 + 5
	if len(enc) != hdr+256*cv.bl+32 {
		return
	}
	r := c.rng.Fork()
	p := cv.c.Params().P
	full := new(big.Int).Lsh(big.NewInt(1), uint(8*cv.bl))
	setX := func(b []byte, k int, x *big.Int) {
		xb := x.Bytes()
		seg := b[hdr+k*cv.bl : hdr+(k+1)*cv.bl]
		for i := range seg {
			seg[i] = 0
		}
		copy(seg[cv.bl-len(xb):], xb)
	}
	signOf := func(b []byte, k int) bool { return b[hdr+256*cv.bl+k/8]>>(uint(k)%8)&1 == 1 }
	x0 := c18SmallValidX(cv, int64(r.Range(1, 5000)))
	for _, k := range []int{0, 255} {
		xk := new(big.Int).SetBytes(enc[hdr+k*cv.bl : hdr+(k+1)*cv.bl])
		vars := map[string]*big.Int{
			"point-x=p":          new(big.Int).Set(p),
			"point-x=p+valid-x0": new(big.Int).Add(p, x0),
			"point-x=all-ff":     new(big.Int).Sub(full, big.NewInt(1)),
			"point-x-without-root": c18NoRootX(r, cv),
		}
		if v := new(big.Int).Add(p, xk); v.Cmp(full) < 0 {
			vars["point-x=p+own-x"] = v // the same point, X not reduced (fits on P-521)
		}
		for _, name := range c18SortedKeys(vars) {
			b := cloneBytes(enc)
			setX(b, k, vars[name])
			m := c18Mut{name: name, segs: c18Auto(b)}
			d := c18EmitDecode(c, c18R2, cv, m, false)
			if d.class == clsOk && name != "point-x=p+valid-x0" {
				// (p + x0 re-encodes to x0: reported by c18EmitDecode as non-canonical)
				c.Fail(fmt.Sprintf("c18:DecodeRound2:%s:accepted", name),
					"DecodeRound2 accepts a choice point whose X is not the reduced X of a curve point",
					c18Replay{Seed: c.Seed, Curve: cv.name, Kind: "DecodeRound2", Mut: fmt.Sprintf("%s (point %d)", name, k), Bytes: hexHead(b)})
			}
			c18EmitCompressed(c, cv, "round2-"+name, c18Compress(cv, vars[name], signOf(b, k)), nil)
		}
		// the other root: a different, valid message
		b := cloneBytes(enc)
		b[hdr+256*cv.bl+k/8] ^= 1 << (uint(k) % 8)
		c18EmitDecode(c, c18R2, cv, c18Mut{name: "point-sign-flipped", segs: c18Auto(b)}, false)
		c18EmitCompressed(c, cv, "round2-point-sign-flipped", c18Compress(cv, xk, signOf(b, k)), nil)
		c18EmitCompressed(c, cv, "round2-point", c18Compress(cv, xk, signOf(enc, k)), &base.r2.Choices[k])
	}
}

// ---------------------------------------------------------------- (f) wrong round

func c18WrongRound(c *Ctx, base *c18Run, withR3 bool) {
	cv := base.cv
	for _, src := range []int{c18R1, c18R2, c18R3, c18GS, c18ES} {
		for _, dst := range []int{c18R1, c18R2, c18R3, c18GS, c18ES} {
			if src == dst || (src == c18R3 && !(withR3 && dst == c18R1)) {
				continue // the 707 kB Round3 message: once, to one other decoder
			}
			m := c18Mut{name: "wrong-round:" + c18EncName[src], segs: c18Auto(base.enc[src])}
			d := c18EmitDecode(c, dst, cv, m, false)
			if d.class == clsOk {
				c.Fail(fmt.Sprintf("c18:%s:wrong-round-accepted:%s", c18KindName[dst], c18EncName[src]),
					fmt.Sprintf("%s accepts the output of %s", c18KindName[dst], c18EncName[src]),
					c18Replay{Seed: c.Seed, Curve: cv.name, Kind: c18KindName[dst], Mut: m.name, Bytes: hexHead(base.enc[src])})
			}
		}
	}
}

// ---------------------------------------------------------------- (e) argument validation of the rounds

var errC18Dry = errors.New("c18: randomness source ran dry")

// c18DryReader delivers the stream of NewRNG(seed) and fails after budget bytes
type c18DryReader struct {
	r    *RNG
	left int
	used int
}

func (d *c18DryReader) Read(p []byte) (int, error) {
	if d.left == 0 {
		return 0, errC18Dry
	}
	if d.left > 0 && len(p) > d.left {
		p = p[:d.left]
	}
	n, _ := d.r.Read(p)
	if d.left > 0 {
		d.left -= n
	}
	d.used += n
	return n, nil
}

// budget < 0: unlimited
func c18Dry(seed uint64, budget int) *c18DryReader { return &c18DryReader{r: NewRNG(seed), left: budget} }

// the model's error codes (IO/RunC18.v rerr_code)
func c18ErrCode(err error) int {
	if err == nil {
		return 0
	}
	msg := err.Error()
	switch {
	case msg == "sha2pc: randomness source must not be nil":
		return 1
	case msg == "sha2pc: elliptic curve must not be nil" || errors.Is(err, ot.ErrNilCurve):
		return 2
	case msg == "sha2pc: invalid garbler session":
		return 3
	case msg == "invalid evaluator state for round 4":
		return 4
	case strings.HasPrefix(msg, "session id mismatch"):
		return 5
	case strings.HasPrefix(msg, "curve mismatch"):
		return 6
	case strings.Contains(msg, "input mismatch"):
		return 7
	case errors.Is(err, errC18Dry) || errors.Is(err, io.ErrUnexpectedEOF) || errors.Is(err, io.EOF):
		return 8
	case errors.Is(err, ot.ErrPointNotOnCurve):
		return 9
	case strings.HasPrefix(msg, "OT point count mismatch"):
		return 10
	case msg == "invalid CO ciphertext bundle":
		return 11
	case strings.HasPrefix(msg, "corrupted cir") || strings.HasPrefix(msg, "invalid operation"):
		return 13
	case strings.HasPrefix(msg, "output hint mismatch"):
		return 14
	case strings.HasPrefix(msg, "unknown label"):
		return 15
	case strings.HasPrefix(msg, "unexpected output length"):
		return 16
	}
	return 99
}

type c18VCase struct {
	fn      string
	name    string
	input   SX
	call    func() ([]byte, error) // the real round function; digest bytes for round 4
	wantErr bool                   // the property: this call must not return Ok
}

func c18RunVCases(c *Ctx, cv c18Curve, cases []c18VCase) {
	for _, vc := range cases {
		var out []byte
		var err error
		cls, msg := c18Guard(func() error { out, err = vc.call(); return nil })
		key := fmt.Sprintf("c18:%s:validation:%s", vc.fn, vc.name)
		rep := c18Replay{Seed: c.Seed, Curve: cv.name, Kind: vc.fn, Mut: vc.name}
		c.Eval("validation|"+cv.name+"|"+vc.fn+"|"+vc.name, true)
		var obs SX
		switch {
		case cls == clsPanic:
			obs = L(I(2))
			rep.What = vc.fn + " panics: " + msg
			c.Fail(key+":panic", rep.What, rep)
		case err == nil:
			if out != nil {
				obs = L(I(0), Bytes(out))
			} else {
				obs = L(I(0))
			}
			if vc.wantErr {
				rep.What = vc.fn + " returns no error on " + vc.name
				c.Fail(key+":accepted", rep.What, rep)
			}
		default:
			code := c18ErrCode(err)
			obs = L(I(1), I(code))
			if code == 99 {
				rep.What = vc.fn + " returns an error the model has no name for: " + err.Error()
				c.Fail(key+":unnamed-error", rep.What, rep)
			}
			if !vc.wantErr {
				rep.What = vc.fn + " fails on valid arguments: " + err.Error()
				c.Fail(key+":rejected", rep.What, rep)
			}
		}
		c.Hist(fmt.Sprintf("validation:%s:%s", vc.fn, obs.String()))
		c.Case(vc.input, obs)
	}
}

func c18PtsSX(pts []ot.ECPoint) (SX, SX) {
	xs := make([]SX, len(pts))
	ys := make([]SX, len(pts))
	for i, p := range pts {
		xs[i], ys[i] = bigOr0(p.X), bigOr0(p.Y)
	}
	return L(xs...), L(ys...)
}

// c18RoundValidation: full = include the cases in which all 256 choice points
// are checked by the model (costly on the large curves).
func c18RoundValidation(c *Ctx, base *c18Run, full bool) {
	cv := base.cv
	r := c.rng.Fork()
	fcv := c18Curves[(cv.id+1)%4]
	p := cv.c.Params().P
	var in [32]byte
	copy(in[:], r.Bytes(32))
	seed := r.U64()
	one := big.NewInt(1)
	plus := func(v, d *big.Int) *big.Int { return new(big.Int).Add(v, d) }

	// a run on another curve: "a message / session of another curve"
	var f1 sha2pc.Round1Payload
	var fgs *sha2pc.GarblerSession
	var f2 sha2pc.Round2Payload
	var fes *sha2pc.EvaluatorSession
	{
		var err error
		if f1, fgs, err = sha2pc.GarblerRound1(NewRNG(seed+1), fcv.c); err == nil {
			f2, fes, err = sha2pc.EvaluatorRound2(NewRNG(seed+2), fcv.c, f1, in)
		}
		if err != nil {
			c.Fail("c18:validation:foreign-run:"+fcv.name, "rounds 1-2 on "+fcv.name+" fail: "+err.Error(), c18Replay{Seed: c.Seed, Curve: fcv.name})
			return
		}
	}
	rngOf := func(nilRng bool, budget int) io.Reader {
		if nilRng {
			return nil
		}
		return c18Dry(seed, budget)
	}
	curveOf := func(nilCurve bool) elliptic.Curve {
		if nilCurve {
			return nil
		}
		return cv.c
	}
	var cases []c18VCase

	// ---- GarblerRound1
	{
		cnt := c18Dry(seed, -1)
		if _, err := ot.GenerateCOSenderSetup(cnt, cv.c); err != nil {
			return
		}
		n1 := cnt.used
		add := func(name string, nilRng, nilCurve bool, budget int) {
			genOK := budget < 0 || budget >= n1
			sidOK := budget < 0 || budget >= n1+8
			cases = append(cases, c18VCase{fn: "GarblerRound1", name: name,
				input: L(I(11), I(1), Bool(nilRng), Bool(nilCurve), I(cv.id), Bool(genOK), Bool(sidOK)),
				call: func() ([]byte, error) {
					_, _, err := sha2pc.GarblerRound1(rngOf(nilRng, budget), curveOf(nilCurve))
					return nil, err
				}, wantErr: nilRng || nilCurve || !genOK || !sidOK})
		}
		add("ok", false, false, -1)
		add("nil-rng", true, false, -1)
		add("nil-curve", false, true, -1)
		add("nil-rng+nil-curve", true, true, -1)
		add("rng-dry@0", false, false, 0)
		add("rng-dry@1", false, false, 1)
		add("rng-dry@session-id", false, false, n1)
		add("rng-dry@session-id+7", false, false, n1+7)
		add("rng-exactly-enough", false, false, n1+8)
	}

	// ---- EvaluatorRound2
	{
		add := func(name string, nilRng, nilCurve bool, msg sha2pc.Round1Payload, budget int, wantErr bool) {
			chOK := budget < 0
			cases = append(cases, c18VCase{fn: "EvaluatorRound2", name: name,
				input: L(I(11), I(2), Bool(nilRng), Bool(nilCurve), I(cv.id), Bytes([]byte(msg.OT.CurveName)),
					bigOr0(msg.OT.A.X), bigOr0(msg.OT.A.Y), Bool(chOK)),
				call: func() ([]byte, error) {
					_, _, err := sha2pc.EvaluatorRound2(rngOf(nilRng, budget), curveOf(nilCurve), msg, in)
					return nil, err
				}, wantErr: wantErr})
		}
		withA := func(x, y *big.Int) sha2pc.Round1Payload {
			m := base.r1
			m.OT.A = ot.ECPoint{X: x, Y: y}
			return m
		}
		withName := func(m sha2pc.Round1Payload, n string) sha2pc.Round1Payload { m.OT.CurveName = n; return m }
		A := base.r1.OT.A
		add("ok", false, false, base.r1, -1, false)
		add("nil-rng", true, false, base.r1, -1, true)
		add("nil-curve", false, true, base.r1, -1, true)
		add("nil-rng+nil-curve", true, true, base.r1, -1, true)
		add("zero-message", false, false, sha2pc.Round1Payload{}, -1, true)
		add("curve-name-empty", false, false, withName(base.r1, ""), -1, true)
		add("curve-name-other", false, false, withName(base.r1, fcv.name), -1, true)
		add("curve-name-lowercase", false, false, withName(base.r1, strings.ToLower(cv.name)), -1, true)
		add("message-of-other-curve", false, false, f1, -1, true)
		add("message-of-other-curve-renamed", false, false, withName(f1, cv.name), -1, true)
		add("A-y+1", false, false, withA(A.X, plus(A.Y, one)), -1, true)
		add("A-x+1", false, false, withA(plus(A.X, one), A.Y), -1, true)
		add("A=(0,0)", false, false, withA(big.NewInt(0), big.NewInt(0)), -1, true)
		add("A-x+p", false, false, withA(plus(A.X, p), A.Y), -1, true)
		add("A-y+p", false, false, withA(A.X, plus(A.Y, p)), -1, true)
		add("A-negated", false, false, withA(A.X, new(big.Int).Sub(p, A.Y)), -1, false) // another valid point
		add("curve-name-other+A-off-curve", false, false, withName(withA(A.X, plus(A.Y, one)), fcv.name), -1, true)
		add("rng-dry@0", false, false, base.r1, 0, true)
		add("rng-dry@100", false, false, base.r1, 100, true)
		add("rng-dry@0+A-off-curve", false, false, withA(A.X, plus(A.Y, one)), 0, true)
	}

	// ---- GarblerRound3
	{
		type arg struct {
			nilRng, nilCurve, nilState, zeroState bool
			st                                    *sha2pc.GarblerSession
			req                                   sha2pc.Round2Payload
			budget                                int
		}
		// every case that passes the nil / session checks garbles the whole circuit: on the curves
		// other than P-256 the quick tier keeps one case per validation step
		keep := map[string]bool{"A-y+1": true, "AaInv-y+1": true, "choice0-y+1": true, "choices-255": true,
			"message-of-other-curve": true, "session-of-other-curve": true, "rng-dry@31": true, "rng-dry@32": true}
		add := func(name string, a arg, wantErr bool) {
			if !full && !a.nilRng && !a.nilState && !a.zeroState && !a.nilCurve && a.req.SessionID == base.gs.SessionID && !keep[name] {
				return
			}
			if a.st == nil {
				a.st = base.gs
			}
			st := a.st
			var stArg *sha2pc.GarblerSession
			switch {
			case a.nilState:
			case a.zeroState:
				stArg = &sha2pc.GarblerSession{}
				st = stArg
			default:
				stArg = st
			}
			keyOK := a.budget < 0 || a.budget >= 32
			garbleOK := a.budget < 0
			xs, ys := c18PtsSX(a.req.Choices)
			s := st.SenderSetup
			cases = append(cases, c18VCase{fn: "GarblerRound3", name: name,
				input: L(I(11), I(3), Bool(a.nilRng), Bool(a.nilCurve), I(cv.id), Bool(a.nilState), Bool(a.zeroState),
					U64(st.SessionID), U64(a.req.SessionID), Bool(keyOK), Bool(garbleOK),
					bigOr0(s.Ax), bigOr0(s.Ay), bigOr0(s.AaInvX), bigOr0(s.AaInvY), xs, ys, I(256)),
				call: func() ([]byte, error) {
					_, err := sha2pc.GarblerRound3(rngOf(a.nilRng, a.budget), curveOf(a.nilCurve), stArg, in, a.req)
					return nil, err
				}, wantErr: wantErr})
		}
		req := base.r2
		withSetup := func(f func(s *ot.COSenderSetup)) *sha2pc.GarblerSession {
			g := *base.gs
			f(&g.SenderSetup)
			return &g
		}
		withChoices := func(f func(ch []ot.ECPoint) []ot.ECPoint) sha2pc.Round2Payload {
			q := req
			q.Choices = f(append([]ot.ECPoint(nil), req.Choices...))
			return q
		}
		sidOff := req
		sidOff.SessionID ^= 1
		add("nil-rng", arg{nilRng: true, req: req, budget: -1}, true)
		add("nil-rng+nil-state+nil-curve", arg{nilRng: true, nilState: true, nilCurve: true, req: req, budget: -1}, true)
		add("nil-state", arg{nilState: true, req: req, budget: -1}, true)
		add("zero-state", arg{zeroState: true, req: req, budget: -1}, true)
		add("nil-state+nil-curve", arg{nilState: true, nilCurve: true, req: req, budget: -1}, true)
		add("nil-curve", arg{nilCurve: true, req: req, budget: -1}, true)
		add("nil-curve+other-session", arg{nilCurve: true, req: sidOff, budget: -1}, true)
		add("other-session", arg{req: sidOff, budget: -1}, true)
		add("other-session+rng-dry@0", arg{req: sidOff, budget: 0}, true)
		add("zero-message", arg{req: sha2pc.Round2Payload{SessionID: base.gs.SessionID}, budget: -1}, true)
		add("zero-message-sid0", arg{req: sha2pc.Round2Payload{}, budget: -1}, true)
		for _, b := range []int{0, 31, 32, 48, 112} {
			add(fmt.Sprintf("rng-dry@%d", b), arg{req: req, budget: b}, true)
		}
		add("A-y+1", arg{st: withSetup(func(s *ot.COSenderSetup) { s.Ay = plus(s.Ay, one) }), req: req, budget: -1}, true)
		add("A=(0,0)", arg{st: withSetup(func(s *ot.COSenderSetup) { s.Ax, s.Ay = big.NewInt(0), big.NewInt(0) }), req: req, budget: -1}, true)
		add("A-x+p", arg{st: withSetup(func(s *ot.COSenderSetup) { s.Ax = plus(s.Ax, p) }), req: req, budget: -1}, true)
		add("AaInv-y+1", arg{st: withSetup(func(s *ot.COSenderSetup) { s.AaInvY = plus(s.AaInvY, one) }), req: req, budget: -1}, true)
		add("AaInv-x+p", arg{st: withSetup(func(s *ot.COSenderSetup) { s.AaInvX = plus(s.AaInvX, p) }), req: req, budget: -1}, true)
		add("A-off-curve+rng-dry@0", arg{st: withSetup(func(s *ot.COSenderSetup) { s.Ay = plus(s.Ay, one) }), req: req, budget: 0}, true)
		add("choices-255", arg{req: withChoices(func(ch []ot.ECPoint) []ot.ECPoint { return ch[:255] }), budget: -1}, true)
		add("choices-257", arg{req: withChoices(func(ch []ot.ECPoint) []ot.ECPoint { return append(ch, ch[0]) }), budget: -1}, true)
		add("choices-1", arg{req: withChoices(func(ch []ot.ECPoint) []ot.ECPoint { return ch[:1] }), budget: -1}, true)
		add("choice0-y+1", arg{req: withChoices(func(ch []ot.ECPoint) []ot.ECPoint { ch[0].Y = plus(ch[0].Y, one); return ch }), budget: -1}, true)
		add("choice0-x+p", arg{req: withChoices(func(ch []ot.ECPoint) []ot.ECPoint { ch[0].X = plus(ch[0].X, p); return ch }), budget: -1}, true)
		add("choice1=(0,0)", arg{req: withChoices(func(ch []ot.ECPoint) []ot.ECPoint {
			ch[1] = ot.ECPoint{X: big.NewInt(0), Y: big.NewInt(0)}
			return ch
		}), budget: -1}, true)
		foreignReq := f2
		foreignReq.SessionID = base.gs.SessionID
		add("message-of-other-curve", arg{req: foreignReq, budget: -1}, true)
		foreignReq.CurveName = cv.name
		add("message-of-other-curve-renamed", arg{req: foreignReq, budget: -1}, true)
		foreignSt := *fgs
		foreignSt.SessionID = req.SessionID
		add("session-of-other-curve", arg{st: &foreignSt, req: req, budget: -1}, true)
		foreignSt.SenderSetup.CurveName = cv.name
		add("session-of-other-curve-renamed", arg{st: &foreignSt, req: req, budget: -1}, true)
		if full {
			add("choice255-y+1", arg{req: withChoices(func(ch []ot.ECPoint) []ot.ECPoint { ch[255].Y = plus(ch[255].Y, one); return ch }), budget: -1}, true)
			// valid arguments; the CurveName fields of the VALUES are not consulted by round 3 (the
			// points decide), so the model's input does not even carry them
			renamed := req
			renamed.CurveName = fcv.name
			add("ok:names-of-other-curve-points-of-this", arg{st: withSetup(func(s *ot.COSenderSetup) { s.CurveName = fcv.name }), req: renamed, budget: -1}, false)
		}
	}

	// ---- EvaluatorRound4
	{
		want := c18DigestOf(base.a, base.b)
		honest := make([]ot.Label, 256)
		for k, w := range base.r3.OutputHints {
			if want[k/8]>>(uint(k)%8)&1 == 1 {
				honest[k] = w.L1
			} else {
				honest[k] = w.L0
			}
		}
		type arg struct {
			nilCurve, nilState, zeroState bool
			st                            *sha2pc.EvaluatorSession
			msg                           sha2pc.Round3Payload
			evalFails                     bool
			late                          bool // the model needs hints and labels (the call gets past Eval)
		}
		add := func(name string, a arg, wantErr bool) {
			if a.st == nil {
				a.st = base.es
			}
			st := a.st
			var stArg *sha2pc.EvaluatorSession
			switch {
			case a.nilState:
			case a.zeroState:
				stArg = &sha2pc.EvaluatorSession{}
				st = stArg
			default:
				stArg = st
			}
			hs, ls := L(), L()
			if a.late {
				items := make([]SX, len(a.msg.OutputHints))
				for i, w := range a.msg.OutputHints {
					items[i] = L(Label(w.L0), Label(w.L1))
				}
				hs, ls = L(items...), Labels(honest)
			}
			b := st.ChoiceBundle
			cases = append(cases, c18VCase{fn: "EvaluatorRound4", name: name,
				input: L(I(11), I(4), Bool(a.nilCurve), I(cv.id), Bool(a.nilState), U64(st.SessionID), U64(a.msg.SessionID),
					I(len(b.Scalars)), I(len(b.Bits)), I(len(a.msg.Ciphertexts)), bigOr0(b.Ax), bigOr0(b.Ay),
					Bool(!a.evalFails), hs, ls),
				call: func() ([]byte, error) {
					d, err := sha2pc.EvaluatorRound4(curveOf(a.nilCurve), stArg, a.msg)
					if err != nil {
						return nil, err
					}
					return d[:], nil
				}, wantErr: wantErr})
		}
		msg := base.r3
		withBundle := func(f func(b *ot.COChoiceBundle)) *sha2pc.EvaluatorSession {
			e := *base.es
			f(&e.ChoiceBundle)
			return &e
		}
		sidOff := msg
		sidOff.SessionID ^= 1 << 63
		add("ok", arg{msg: msg, late: true}, false)
		add("nil-state", arg{nilState: true, msg: msg}, true)
		add("zero-state", arg{zeroState: true, msg: msg}, true)
		add("nil-state+nil-curve", arg{nilState: true, nilCurve: true, msg: msg}, true)
		add("nil-curve", arg{nilCurve: true, msg: msg}, true)
		add("nil-curve+other-session", arg{nilCurve: true, msg: sidOff}, true)
		add("other-session", arg{msg: sidOff}, true)
		add("zero-message", arg{msg: sha2pc.Round3Payload{SessionID: base.es.SessionID}}, true)
		add("zero-message-sid0", arg{msg: sha2pc.Round3Payload{}}, true)
		short := msg
		short.Ciphertexts = msg.Ciphertexts[:255]
		add("ciphertexts-255", arg{msg: short}, true)
		add("bits-255", arg{st: withBundle(func(b *ot.COChoiceBundle) { b.Bits = b.Bits[:255] }), msg: msg}, true)
		add("scalars-255", arg{st: withBundle(func(b *ot.COChoiceBundle) { b.Scalars = b.Scalars[:255] }), msg: msg}, true)
		add("scalars-255+other-session", arg{st: withBundle(func(b *ot.COChoiceBundle) { b.Scalars = b.Scalars[:255] }), msg: sidOff}, true)
		add("A-y+1", arg{st: withBundle(func(b *ot.COChoiceBundle) { b.Ay = plus(b.Ay, one) }), msg: msg}, true)
		add("A=(0,0)", arg{st: withBundle(func(b *ot.COChoiceBundle) { b.Ax, b.Ay = big.NewInt(0), big.NewInt(0) }), msg: msg}, true)
		add("A-x+p", arg{st: withBundle(func(b *ot.COChoiceBundle) { b.Ax = plus(b.Ax, p) }), msg: msg}, true)
		add("A-off-curve+ciphertexts-255", arg{st: withBundle(func(b *ot.COChoiceBundle) { b.Ay = plus(b.Ay, one) }), msg: short}, true)
		foreignSt := *fes
		foreignSt.SessionID = msg.SessionID
		add("session-of-other-curve", arg{st: &foreignSt, msg: msg}, true)
		foreignSt.ChoiceBundle.CurveName = cv.name
		add("session-of-other-curve-renamed", arg{st: &foreignSt, msg: msg}, true)
		add("ok:session-named-after-other-curve", arg{st: withBundle(func(b *ot.COChoiceBundle) { b.CurveName = fcv.name }), msg: msg, late: true}, false)
		// a truncated AND row: Circuit.Eval reports a corrupted circuit
		{
			circ := sha2pc.VerifC18Circuit()
			bad := msg
			bad.GarbledTables = append([][]ot.Label(nil), msg.GarbledTables...)
			for i := len(circ.Gates) - 1; i >= 0; i-- {
				if circ.Gates[i].Op == circuit.AND && len(bad.GarbledTables[i]) == 2 {
					bad.GarbledTables[i] = bad.GarbledTables[i][:1]
					add("and-row-truncated", arg{msg: bad, evalFails: true}, true)
					break
				}
			}
		}
		fewer := msg
		fewer.OutputHints = msg.OutputHints[:255]
		add("output-hints-255", arg{msg: fewer, late: true}, true)
		more := msg
		more.OutputHints = append(append([]ot.Wire(nil), msg.OutputHints...), msg.OutputHints[0])
		add("output-hints-257", arg{msg: more, late: true}, true)
		for _, k := range []int{0, 255} {
			t := msg
			t.OutputHints = append([]ot.Wire(nil), msg.OutputHints...)
			w := t.OutputHints[k]
			if honest[k].Equal(w.L0) {
				w.L0.D1 ^= 4
			} else {
				w.L1.D1 ^= 4
			}
			t.OutputHints[k] = w
			add(fmt.Sprintf("output-hint-%d-tampered", k), arg{msg: t, late: true}, true)
		}
	}
	c18RunVCases(c, cv, cases)
}
