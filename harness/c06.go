package main

// Property C06: oblivious transfer delivers exactly the chosen label.
//
// Part 1 (IKNP, byte exact): an IKNPSender/IKNPReceiver pair of the real code
// runs over ot.NewPipe with a stub base OT (so that the column seeds are the
// labels the receiver drew from the harness RNG); every SendData payload of
// the receiver (the u matrix), both label vectors and both packed bit
// vectors are the observable the Coq model (OT/Iknp.v, AES-CTR in Gallina)
// must reproduce.
// Part 2: every ot.OT implementation (CO, RSA, COT, ROT in both adversary
// modes, shared / non-shared) and the pure CO helper functions run on all
// batch sizes; the OT relation itself is evaluated on the real outputs.

import (
	"crypto/aes"
	"crypto/cipher"
	"crypto/elliptic"
	crand "crypto/rand"
	"crypto/sha256"
	"encoding/binary"
	"fmt"
	"math/big"
	"os"
	"sync"
	"time"

	"github.com/markkurossi/mpc/ot"
)

func init() { register("c06", runC06) }

var c06Sizes = []int{1, 2, 3, 4, 5, 6, 7, 8, 9, 10, 11, 12, 13, 14, 15, 16, 17, 18, 19, 20,
	63, 64, 65, 127, 128, 129, 511, 512, 513, 1023, 1024, 1025, 1537}

type c06Replay struct {
	Seed    uint64 `json:"seed"`
	Case    string `json:"case"`
	Impl    string `json:"impl"`
	N       int    `json:"n"`
	Pattern string `json:"pattern"`
	Batch   int    `json:"batch_index"`
	Wrong   int    `json:"wrong_positions"`
	First   int    `json:"first_wrong_index"`
	Detail  string `json:"detail"`
}

// ---------------------------------------------------------------------------
// stub base OT: hands the receiver-chosen wires to the other side in memory.

type c06StubOT struct {
	ch chan []ot.Wire
}

func newC06Stub() *c06StubOT                     { return &c06StubOT{ch: make(chan []ot.Wire, 1)} }
func (s *c06StubOT) InitSender(io ot.IO) error   { return nil }
func (s *c06StubOT) InitReceiver(io ot.IO) error { return nil }
func (s *c06StubOT) Send(wires []ot.Wire) error {
	s.ch <- append([]ot.Wire(nil), wires...)
	return nil
}
func (s *c06StubOT) Receive(flags []bool, result []ot.Label) error {
	select {
	case w := <-s.ch:
		if len(w) != len(flags) {
			return fmt.Errorf("stub OT: %d wires for %d flags", len(w), len(flags))
		}
		for i, f := range flags {
			if f {
				result[i] = w[i].L1
			} else {
				result[i] = w[i].L0
			}
		}
		return nil
	case <-time.After(30 * time.Second):
		return fmt.Errorf("stub OT: no wires")
	}
}

// c06Tap records every SendData payload.
type c06Tap struct {
	ot.IO
	mu     sync.Mutex
	data   [][]byte
	labels []ot.Label
}

func (t *c06Tap) SendData(val []byte) error {
	t.mu.Lock()
	t.data = append(t.data, append([]byte(nil), val...))
	t.mu.Unlock()
	return t.IO.SendData(val)
}

func (t *c06Tap) SendLabel(val ot.Label, data *ot.LabelData) error {
	t.mu.Lock()
	t.labels = append(t.labels, val)
	t.mu.Unlock()
	return t.IO.SendLabel(val, data)
}

func (t *c06Tap) takeLabels() []ot.Label {
	t.mu.Lock()
	d := t.labels
	t.labels = nil
	t.mu.Unlock()
	return d
}

func (t *c06Tap) take() [][]byte {
	t.mu.Lock()
	d := t.data
	t.data = nil
	t.mu.Unlock()
	return d
}

// ---------------------------------------------------------------------------
// IKNP sessions

type c06Op struct {
	bits    bool // packed-bit form
	n       int
	pattern string
	mal     bool
	flags   []bool   // label form
	words   []uint64 // bit form: choice words
	rs0     []uint64 // initial contents of the sender's result buffer
	rr0     []uint64
	// results
	b0, b1 ot.Label
	chunks [][]byte
	sent   []ot.Label
	rcvd   []ot.Label
	rs, rr []uint64
	sErr   error
	rErr   error
}

func c06Pattern(r *RNG, pattern string, n int) []bool {
	b := make([]bool, n)
	for i := range b {
		switch pattern {
		case "all1":
			b[i] = true
		case "random":
			b[i] = r.Bool()
		}
	}
	return b
}

func c06Words(r *RNG, flags []bool, garbage bool) []uint64 {
	n := len(flags)
	w := make([]uint64, (n+63)/64)
	if garbage {
		for i := range w {
			w[i] = r.U64()
		}
	}
	for i, f := range flags {
		if f {
			w[i/64] |= 1 << uint(i%64)
		} else {
			w[i/64] &^= 1 << uint(i%64)
		}
	}
	return w
}

func c06MkOp(r *RNG, bits bool, n int, pattern string, mal bool, dirty bool) *c06Op {
	op := &c06Op{bits: bits, n: n, pattern: pattern, mal: mal && !bits}
	op.flags = c06Pattern(r, pattern, n)
	if bits {
		op.words = c06Words(r, op.flags, pattern == "random")
		extra := 0
		if dirty && r.Intn(3) == 0 {
			extra = 1 // a longer buffer: the words beyond (n+63)/64 must keep their contents
		}
		op.rs0 = make([]uint64, (n+63)/64+extra)
		op.rr0 = make([]uint64, (n+63)/64+extra)
		if dirty {
			for i := range op.rs0 {
				op.rs0[i] = r.U64()
				op.rr0[i] = r.U64()
			}
		}
	}
	return op
}

func c06U64s(v []uint64) SX {
	l := make([]SX, len(v))
	for i, x := range v {
		l[i] = U64(x)
	}
	return L(l...)
}

func c06ChunkSX(ch []byte) SX {
	var l []SX
	for i := 0; i < len(ch); i += 16 {
		end := i + 16
		if end > len(ch) {
			end = len(ch)
		}
		var buf [16]byte
		copy(buf[16-(end-i):], ch[i:end])
		var lab ot.Label
		lab.SetBytes(buf[:])
		l = append(l, Label(lab))
	}
	return L(l...)
}

func (op *c06Op) inputSX() SX {
	if op.bits {
		return L(I(1), I(op.n), c06U64s(op.words), c06U64s(op.rs0), c06U64s(op.rr0))
	}
	return L(I(0), Bits(op.flags), Bool(op.mal), Label(op.b0), Label(op.b1))
}

func (op *c06Op) observedSX() SX {
	chunks := make([]SX, len(op.chunks))
	for i, ch := range op.chunks {
		chunks[i] = c06ChunkSX(ch)
	}
	if op.bits {
		return L(L(chunks...), c06U64s(op.rs), c06U64s(op.rr))
	}
	return L(L(chunks...), Labels(op.sent), Labels(op.rcvd))
}

// c06Stream is the key stream ot.newPrg(seed) produces (AES-CTR, zero IV),
// as the little-endian number of its first n bytes.
func c06Stream(seed ot.Label, n int) SX {
	var ld ot.LabelData
	block, err := aes.NewCipher(seed.Bytes(&ld))
	if err != nil {
		panic(err)
	}
	var iv [16]byte
	st := cipher.NewCTR(block, iv[:])
	buf := make([]byte, n)
	st.XORKeyStream(buf, buf)
	for i, j := 0, len(buf)-1; i < j; i, j = i+1, j-1 {
		buf[i], buf[j] = buf[j], buf[i]
	}
	return Big(new(big.Int).SetBytes(buf))
}

// c06IKNPSession runs the ops on one initialised IKNP pair of the real code.
// gallinaAES: the case carries the seeds and the model runs AES-CTR itself;
// otherwise the key streams are passed as data.
func c06IKNPSession(c *Ctx, r *RNG, name string, ops []*c06Op, gallinaAES bool, deltaBit0 int) error {
	rngR := r.Fork()
	replay := *rngR
	var seeds0, seeds1 [ot.K]ot.Label
	for i := 0; i < ot.K; i++ {
		seeds0[i], _ = ot.NewLabel(&replay)
		seeds1[i], _ = ot.NewLabel(&replay)
	}
	delta, _ := ot.NewLabel(r)
	if deltaBit0 >= 0 {
		delta.SetBit(0, uint(deltaBit0))
	}
	stub := newC06Stub()
	c0, c1 := ot.NewPipe()
	tap := &c06Tap{IO: c1}

	var wg sync.WaitGroup
	wg.Add(2)
	var initErrS, initErrR error
	go func() { // sender
		defer wg.Done()
		defer func() {
			if p := recover(); p != nil {
				initErrS = fmt.Errorf("sender panic: %v", p)
				c0.Close()
			}
		}()
		snd, err := ot.NewIKNPSender(stub, c0, r.Fork(), &delta)
		if err != nil {
			initErrS = err
			c0.Close()
			return
		}
		for _, op := range ops {
			if op.bits {
				op.rs = append([]uint64(nil), op.rs0...)
				op.sErr = snd.SendBits(op.n, op.rs)
			} else {
				op.sent, op.sErr = snd.Send(op.n, op.mal)
			}
			if op.sErr != nil {
				c0.Close()
				return
			}
		}
	}()
	go func() { // receiver
		defer wg.Done()
		defer func() {
			if p := recover(); p != nil {
				initErrR = fmt.Errorf("receiver panic: %v", p)
				c1.Close()
			}
		}()
		rcv, err := ot.NewIKNPReceiver(stub, tap, rngR)
		if err != nil {
			initErrR = err
			c1.Close()
			return
		}
		for _, op := range ops {
			if op.bits {
				op.rr = append([]uint64(nil), op.rr0...)
				op.rErr = rcv.ReceiveBits(op.words, op.rr, op.n)
			} else {
				if op.mal {
					cp := *rngR
					op.b0, _ = ot.NewLabel(&cp)
					op.b1, _ = ot.NewLabel(&cp)
				}
				op.rcvd = make([]ot.Label, op.n)
				op.rErr = rcv.Receive(op.flags, op.rcvd, op.mal)
			}
			op.chunks = tap.take()
			if op.rErr != nil {
				c1.Close()
				return
			}
		}
	}()
	done := make(chan struct{})
	go func() { wg.Wait(); close(done) }()
	select {
	case <-done:
	case <-time.After(60 * time.Second):
		c0.Close()
		c1.Close()
		c.Fail("c06:iknp:stalled", "IKNP session did not terminate: "+name, c06Replay{Seed: c.Seed, Case: name, Impl: "iknp"})
		return nil
	}
	if initErrS != nil || initErrR != nil {
		return fmt.Errorf("%s: IKNP setup: %v / %v", name, initErrS, initErrR)
	}

	// oracle: the IKNP relation on the real outputs
	clean := true
	for bi, op := range ops {
		form := "labels"
		if op.bits {
			form = "bits"
		}
		c.Hist(fmt.Sprintf("iknp:%s:%s", form, c06Bucket(op.n)))
		c.Hist("iknp:choice:" + op.pattern)
		c.Eval(fmt.Sprintf("iknp|%s|%d|%s|%v|%x|%v|%d|%x", form, op.n, op.pattern, op.mal, delta, op.flags, bi, seeds0[0]), true)
		rp := c06Replay{Seed: c.Seed, Case: name, Impl: "iknp-" + form, N: op.n, Pattern: op.pattern, Batch: bi}
		if op.sErr != nil || op.rErr != nil {
			clean = false
			rp.Detail = fmt.Sprintf("sender: %v, receiver: %v", op.sErr, op.rErr)
			c.Fail(fmt.Sprintf("c06:iknp:%s:error", form), "IKNP "+form+" operation returned an error", rp)
			break
		}
		if !op.bits {
			wrong, first := 0, -1
			for i := 0; i < op.n; i++ {
				exp := op.sent[i]
				if op.flags[i] {
					exp.Xor(delta)
				}
				if !op.rcvd[i].Equal(exp) {
					if first < 0 {
						first = i
					}
					wrong++
				}
			}
			if len(op.sent) != op.n {
				wrong++
			}
			if wrong > 0 {
				rp.Wrong, rp.First = wrong, first
				rp.Detail = "received_i != sent_i xor choice_i*Delta"
				c.Fail(fmt.Sprintf("c06:iknp:Send/Receive:%s", c06Class(op.n)), "IKNP label form violates received = sent xor choice*Delta", rp)
			}
			continue
		}
		d0 := uint64(delta.Bit(0))
		dirty := false
		for i := range op.rs0 {
			if op.rs0[i] != 0 || op.rr0[i] != 0 {
				dirty = true
			}
		}
		wrong, first := 0, -1
		for i := 0; i < op.n; i++ {
			cb := op.words[i/64] >> uint(i%64) & 1
			sb := op.rs[i/64] >> uint(i%64) & 1
			rb := op.rr[i/64] >> uint(i%64) & 1
			if sb^rb != cb&d0 {
				if first < 0 {
					first = i
				}
				wrong++
			}
		}
		if wrong > 0 {
			rp.Wrong, rp.First = wrong, first
			rp.Detail = fmt.Sprintf("Delta.Bit(0)=%d; r_i != s_i xor b_i*Delta.Bit(0)", d0)
			switch {
			case dirty:
				c.Fail("c06:SendBits/ReceiveBits:result-not-overwritten", "packed-bit IKNP: existing contents of the result buffers are OR-ed into, not overwritten as documented", rp)
			case op.n%64 != 0:
				c.Fail("c06:ReceiveBits:n%64!=0", "packed-bit IKNP (ReceiveBits) ignores the choice bits of the last partial 64-bit word", rp)
			default:
				c.Fail("c06:ReceiveBits:n%64==0", "packed-bit IKNP violates r = s xor b*Delta.Bit(0)", rp)
			}
		}
	}
	if !clean {
		return nil
	}
	// correspondence case
	s0 := make([]ot.Label, ot.K)
	s1 := make([]ot.Label, ot.K)
	copy(s0, seeds0[:])
	copy(s1, seeds1[:])
	in := make([]SX, len(ops))
	obs := make([]SX, len(ops))
	for i, op := range ops {
		in[i] = op.inputSX()
		obs[i] = op.observedSX()
	}
	if gallinaAES {
		c.Case(L(I(1), Labels(s0), Labels(s1), Label(delta), L(in...)), L(obs...))
		return nil
	}
	need := 0
	for _, op := range ops {
		need += op.n/8 + 2
		if op.mal {
			need += 32
		}
	}
	k0 := make([]SX, ot.K)
	k1 := make([]SX, ot.K)
	for i := 0; i < ot.K; i++ {
		k0[i] = c06Stream(s0[i], need)
		k1[i] = c06Stream(s1[i], need)
	}
	c.Case(L(I(5), L(k0...), L(k1...), Label(delta), L(in...)), L(obs...))
	return nil
}

func c06Bucket(n int) string {
	switch {
	case n <= 20:
		return "n<=20"
	case n <= 129:
		return "n<=129"
	case n <= 513:
		return "n<=513"
	default:
		return "n>513"
	}
}

func c06Class(n int) string {
	s := ""
	if n%8 != 0 {
		s += "n%8!=0"
	} else if n%64 != 0 {
		s += "n%64!=0"
	} else if n%512 != 0 {
		s += "n%512!=0"
	} else {
		s += "n%512==0"
	}
	return s
}

var c06Patterns = []string{"all0", "all1", "random"}

// ---------------------------------------------------------------------------
// Part 2: every ot.OT implementation, the OT relation on the real outputs

type c06Batch struct {
	pattern string
	wires   []ot.Wire
	flags   []bool
	result  []ot.Label
	// COT/ROT correspondence
	mal     bool
	b0, b1  ot.Label
	seed    ot.Label
	msgs    []ot.Label
	wiresIn []ot.Wire
}

func c06MkBatch(r *RNG, n int, pattern string) *c06Batch {
	b := &c06Batch{pattern: pattern, flags: c06Pattern(r, pattern, n)}
	b.wires = make([]ot.Wire, n)
	for i := range b.wires {
		b.wires[i].L0, _ = ot.NewLabel(r)
		b.wires[i].L1, _ = ot.NewLabel(r)
	}
	b.wiresIn = append([]ot.Wire(nil), b.wires...)
	b.result = make([]ot.Label, n)
	return b
}

// c06RunOT runs the batches on one sender/receiver pair over ot.NewPipe
// (reinit: InitSender/InitReceiver are called again before every batch, the
// shared mode of COT/ROT) and evaluates result_i = pick(wire_i, flag_i).
func c06RunOT(c *Ctx, name, impl string, snd, rcv ot.OT, sIO, rIO ot.IO, batches []*c06Batch, reinit bool,
	beforeRecv func(b *c06Batch), afterSend func(b *c06Batch)) bool {

	var wg sync.WaitGroup
	wg.Add(2)
	var sErr, rErr error
	closeAll := func() {
		if p, ok := sIO.(*ot.Pipe); ok {
			p.Close()
		}
		if p, ok := rIO.(*ot.Pipe); ok {
			p.Close()
		}
		if t, ok := sIO.(*c06Tap); ok {
			t.IO.(*ot.Pipe).Close()
		}
		if t, ok := rIO.(*c06Tap); ok {
			t.IO.(*ot.Pipe).Close()
		}
	}
	go func() {
		defer wg.Done()
		defer func() {
			if p := recover(); p != nil {
				sErr = fmt.Errorf("panic: %v", p)
				closeAll()
			}
		}()
		for bi, b := range batches {
			if bi == 0 || reinit {
				if sErr = snd.InitSender(sIO); sErr != nil {
					closeAll()
					return
				}
			}
			if sErr = snd.Send(b.wires); sErr != nil {
				closeAll()
				return
			}
			if afterSend != nil {
				afterSend(b)
			}
		}
	}()
	go func() {
		defer wg.Done()
		defer func() {
			if p := recover(); p != nil {
				rErr = fmt.Errorf("panic: %v", p)
				closeAll()
			}
		}()
		for bi, b := range batches {
			if bi == 0 || reinit {
				if rErr = rcv.InitReceiver(rIO); rErr != nil {
					closeAll()
					return
				}
			}
			if beforeRecv != nil {
				beforeRecv(b)
			}
			if rErr = rcv.Receive(b.flags, b.result); rErr != nil {
				closeAll()
				return
			}
		}
	}()
	done := make(chan struct{})
	go func() { wg.Wait(); close(done) }()
	select {
	case <-done:
	case <-time.After(120 * time.Second):
		closeAll()
		c.Fail("c06:"+impl+":stalled", "OT pair did not terminate: "+name, c06Replay{Seed: c.Seed, Case: name, Impl: impl})
		return false
	}
	if sErr != nil || rErr != nil {
		n := 0
		if len(batches) > 0 {
			n = len(batches[0].flags)
		}
		c.Fail("c06:"+impl+":error", "OT returned an error on an honest run",
			c06Replay{Seed: c.Seed, Case: name, Impl: impl, N: n, Detail: fmt.Sprintf("sender: %v, receiver: %v", sErr, rErr)})
		return false
	}
	ok := true
	for bi, b := range batches {
		n := len(b.flags)
		c.Hist(fmt.Sprintf("ot:%s:%s", impl, c06Bucket(n)))
		c.Eval(fmt.Sprintf("ot|%s|%d|%s|%d|%v|%v", impl, n, b.pattern, bi, b.flags, b.wires[0]), true)
		wrong, first := 0, -1
		for i := 0; i < n; i++ {
			exp := b.wires[i].L0
			if b.flags[i] {
				exp = b.wires[i].L1
			}
			if !b.result[i].Equal(exp) {
				if first < 0 {
					first = i
				}
				wrong++
			}
		}
		if wrong > 0 {
			ok = false
			c.Fail(fmt.Sprintf("c06:%s:wrong-label:%s", impl, c06Class(n)),
				impl+": receiver's label is not the sender's label selected by the choice bit",
				c06Replay{Seed: c.Seed, Case: name, Impl: impl, N: n, Pattern: b.pattern, Batch: bi, Wrong: wrong, First: first})
		}
	}
	return ok
}

func c06Batches(r *RNG, n int, all bool, k int) []*c06Batch {
	if all {
		return []*c06Batch{c06MkBatch(r, n, "all0"), c06MkBatch(r, n, "all1"), c06MkBatch(r, n, "random")}
	}
	return []*c06Batch{c06MkBatch(r, n, c06Patterns[k%3]), c06MkBatch(r, n, "random")}
}

// c06DeriveMask replicates ot.deriveMask (unexported): first 16 bytes of
// SHA-256(x || y || uint64(id)) as a label.
func c06DeriveMask(x, y *big.Int, id uint64) ot.Label {
	h := sha256.New()
	h.Write(x.Bytes())
	h.Write(y.Bytes())
	var idb [8]byte
	binary.BigEndian.PutUint64(idb[:], id)
	h.Write(idb[:])
	sum := h.Sum(nil)
	var l ot.Label
	l.SetBytes(sum[:16])
	return l
}

// c06COHelpers: the pure helper functions of ot/co_helpers.go, relation and
// xor-layer correspondence on the real masks.
func c06COHelpers(c *Ctx, r *RNG, n int, pattern string, corr bool) error {
	curve := elliptic.P256()
	b := c06MkBatch(r, n, pattern)
	setup, err := ot.GenerateCOSenderSetup(r, curve)
	if err != nil {
		return err
	}
	bundle, points, err := ot.BuildCOChoices(r, curve, setup.Ax, setup.Ay, b.flags)
	if err != nil {
		return err
	}
	rp := c06Replay{Seed: c.Seed, Case: fmt.Sprintf("co-helpers-n%d-%s", n, pattern), Impl: "co-helpers", N: n, Pattern: pattern}
	cts, err := ot.EncryptCOCiphertexts(curve, setup, points, b.wires)
	if err != nil {
		rp.Detail = err.Error()
		c.Fail("c06:co-helpers:error", "EncryptCOCiphertexts failed on honest inputs", rp)
		return nil
	}
	labels, err := ot.DecryptCOCiphertexts(curve, bundle, cts)
	if err != nil {
		rp.Detail = err.Error()
		c.Fail("c06:co-helpers:error", "DecryptCOCiphertexts failed on honest inputs", rp)
		return nil
	}
	c.Hist("ot:co-helpers:" + c06Bucket(n))
	c.Eval(fmt.Sprintf("co-helpers|%d|%s|%v|%v", n, pattern, b.flags, b.wires[0]), true)
	wrong, first := 0, -1
	for i := 0; i < n; i++ {
		exp := b.wires[i].L0
		if b.flags[i] {
			exp = b.wires[i].L1
		}
		if i >= len(labels) || !labels[i].Equal(exp) {
			if first < 0 {
				first = i
			}
			wrong++
		}
	}
	if wrong > 0 {
		rp.Wrong, rp.First = wrong, first
		c.Fail("c06:co-helpers:wrong-label:"+c06Class(n), "DecryptCOCiphertexts(EncryptCOCiphertexts(BuildCOChoices)) is not the chosen label", rp)
	}
	if !corr {
		return nil
	}
	aBytes := setup.Scalar.Bytes()
	ms := make([]SX, n)
	mr := make([]SX, n)
	ct := make([]SX, n)
	ws := make([]SX, n)
	for i := 0; i < n; i++ {
		bx, by := curve.ScalarMult(points[i].X, points[i].Y, aBytes)
		bax, bay := curve.Add(bx, by, setup.AaInvX, setup.AaInvY)
		ms[i] = L(Label(c06DeriveMask(bx, by, uint64(i))), Label(c06DeriveMask(bax, bay, uint64(i))))
		asx, asy := curve.ScalarMult(bundle.Ax, bundle.Ay, bundle.Scalars[i].Bytes())
		mr[i] = Label(c06DeriveMask(asx, asy, uint64(i)))
		var z, o ot.Label
		z.SetBytes(cts[i].Zero[:])
		o.SetBytes(cts[i].One[:])
		ct[i] = L(Label(z), Label(o))
		ws[i] = L(Label(b.wires[i].L0), Label(b.wires[i].L1))
	}
	c.Case(L(I(3), L(ms...), L(mr...), Bits(b.flags), L(ws...)), L(L(ct...), Labels(labels)))
	return nil
}

// c06COXfer: the single-transfer API of ot/co.go on label-sized and shorter messages.
func c06COXfer(c *Ctx, r *RNG, size int, bit uint) {
	m0 := r.Bytes(size)
	m1 := r.Bytes(size)
	sender := ot.NewCOSender(r)
	receiver := ot.NewCOReceiver(r, sender.Curve())
	sx, err1 := sender.NewTransfer(m0, m1)
	rx, err2 := receiver.NewTransfer(bit)
	rp := c06Replay{Seed: c.Seed, Case: fmt.Sprintf("co-xfer-%d-%d", size, bit), Impl: "co-xfer", N: size}
	if err1 != nil || err2 != nil {
		c.Fail("c06:co-xfer:error", "NewTransfer failed", rp)
		return
	}
	rx.ReceiveA(sx.A())
	sx.ReceiveB(rx.B())
	got := rx.ReceiveE(sx.E())
	want := m0
	if bit != 0 {
		want = m1
	}
	c.Eval(fmt.Sprintf("co-xfer|%d|%d|%x", size, bit, m0), true)
	c.Hist("ot:co-xfer")
	if string(got) != string(want) {
		rp.Detail = fmt.Sprintf("got %x want %x", got, want)
		c.Fail("c06:co-xfer:wrong-message", "COReceiverXfer.ReceiveE is not the chosen message", rp)
	}
	// correspondence: the masks recomputed from the two secret scalars
	// (verif accessors) and the public points, the xor layer by the model
	curve := sender.Curve()
	a := sx.VerifC06Scalar()
	b := rx.VerifC06Scalar()
	ax, ay := curve.ScalarBaseMult(a.Bytes())
	aax, aay := curve.ScalarMult(ax, ay, a.Bytes())
	aaInvY := new(big.Int).Sub(curve.Params().P, aay)
	bxb, byb := rx.B()
	bx, by := curve.ScalarMult(new(big.Int).SetBytes(bxb), new(big.Int).SetBytes(byb), a.Bytes())
	bax, bay := curve.Add(bx, by, aax, aaInvY)
	asx, asy := curve.ScalarMult(ax, ay, b.Bytes())
	e0, e1 := sx.E()
	c.Case(L(I(6), Bytes(c06DeriveMask32(bx, by, 0)), Bytes(c06DeriveMask32(bax, bay, 0)),
		Bytes(c06DeriveMask32(asx, asy, 0)), Bool(bit != 0), Bytes(m0), Bytes(m1)),
		L(Bytes(e0), Bytes(e1), Bytes(got)))
}

// c06RSASession: one RSA.Send ‖ RSA.Receive batch, byte exact against the
// model: the key comes from the verif accessor, x0/x1/m0'/m1' and v from the
// two taps, k by replaying the receiver's RNG through crypto/rand.Int.
// gallinaExp: the model exponentiates itself (small keys only); otherwise
// the three exponentiation results per transfer are computed here with
// math/big and handed to the model as the table of mpint.Exp.
func c06RSASession(c *Ctx, r *RNG, name string, keyBits, n int, pattern string, gallinaExp bool) error {
	rngR := r.Fork()
	cpR := *rngR
	snd := ot.NewRSA(r.Fork(), keyBits)
	rcv := ot.NewRSA(rngR, keyBits)
	c0, c1 := ot.NewPipe()
	tapS := &c06Tap{IO: c0}
	tapR := &c06Tap{IO: c1}
	b := c06MkBatch(r, n, pattern)
	impl := fmt.Sprintf("rsa-%d", keyBits)
	if !c06RunOT(c, name, impl, snd, rcv, tapS, tapR, []*c06Batch{b}, false, nil, nil) {
		return nil
	}
	priv := snd.VerifC06PrivateKey()
	sd := tapS.take()
	rd := tapR.take()
	if priv == nil || len(sd) != 2+4*n || len(rd) != n {
		return fmt.Errorf("%s: unexpected RSA transcript shape: %d sender / %d receiver messages", name, len(sd), len(rd))
	}
	N := priv.N
	E := big.NewInt(int64(priv.E))
	var table, xfers, obs []SX
	for i := 0; i < n; i++ {
		x0 := new(big.Int).SetBytes(sd[2+4*i])
		x1 := new(big.Int).SetBytes(sd[2+4*i+1])
		m0p := new(big.Int).SetBytes(sd[2+4*i+2])
		m1p := new(big.Int).SetBytes(sd[2+4*i+3])
		v := new(big.Int).SetBytes(rd[i])
		k, err := crand.Int(&cpR, N)
		if err != nil {
			return err
		}
		if !gallinaExp {
			d0 := new(big.Int).Sub(v, x0)
			d1 := new(big.Int).Sub(v, x1)
			table = append(table,
				L(Big(k), Big(E), Big(new(big.Int).Exp(k, E, N))),
				L(Big(d0), Big(priv.D), Big(new(big.Int).Exp(d0, priv.D, N))),
				L(Big(d1), Big(priv.D), Big(new(big.Int).Exp(d1, priv.D, N))))
		}
		xfers = append(xfers, L(Label(b.wires[i].L0), Label(b.wires[i].L1), Big(x0), Big(x1), Big(k), Bool(b.flags[i])))
		obs = append(obs, L(Big(v), Big(m0p), Big(m1p), Label(b.result[i])))
	}
	c.Case(L(I(4), Big(N), Big(E), Big(priv.D), I((keyBits+7)/8), Bool(!gallinaExp), L(table...), L(xfers...)), L(obs...))
	return nil
}

// c06DeriveMask32 replicates ot.deriveMask: SHA-256(x || y || uint64(id)).
func c06DeriveMask32(x, y *big.Int, id uint64) []byte {
	h := sha256.New()
	h.Write(x.Bytes())
	h.Write(y.Bytes())
	var idb [8]byte
	binary.BigEndian.PutUint64(idb[:], id)
	h.Write(idb[:])
	return h.Sum(nil)
}

// c06COTSession: COT/ROT over the stub base OT, byte exact against the model.
func c06COTSession(c *Ctx, r *RNG, name string, rot, mal bool, batches []*c06Batch) error {
	rngS := r.Fork()
	rngR := r.Fork()
	cpS := *rngS
	delta, _ := ot.NewLabel(&cpS)
	cpR := *rngR
	var seeds0, seeds1 [ot.K]ot.Label
	for i := 0; i < ot.K; i++ {
		seeds0[i], _ = ot.NewLabel(&cpR)
		seeds1[i], _ = ot.NewLabel(&cpR)
	}
	stub := newC06Stub()
	c0, c1 := ot.NewPipe()
	tapS := &c06Tap{IO: c0}
	var snd, rcv ot.OT
	impl := "cot"
	if rot {
		impl = "rot"
		snd = ot.NewROT(stub, rngS, mal, false)
		rcv = ot.NewROT(stub, rngR, mal, false)
	} else {
		snd = ot.NewCOT(stub, rngS, mal, false)
		rcv = ot.NewCOT(stub, rngR, mal, false)
	}
	if mal {
		impl += "-malicious"
	}
	ok := c06RunOT(c, name, impl+"-stub", snd, rcv, tapS, c1, batches, false,
		func(b *c06Batch) {
			b.mal = mal
			if mal {
				cp := *rngR
				b.b0, _ = ot.NewLabel(&cp)
				b.b1, _ = ot.NewLabel(&cp)
			}
		},
		func(b *c06Batch) {
			ls := tapS.takeLabels()
			if len(ls) > 0 {
				b.seed = ls[0]
				b.msgs = ls[1:]
			}
		})
	if !ok {
		return nil
	}
	need := 0
	for _, b := range batches {
		need += len(b.flags)/8 + 2
		if mal {
			need += 32
		}
	}
	if len(batches) > 1 || len(batches[0].flags) > 2 {
		need += 40 // only the two minimal sessions are meant for the in-kernel sub-sample
	}
	k0 := make([]SX, ot.K)
	k1 := make([]SX, ot.K)
	for i := 0; i < ot.K; i++ {
		k0[i] = c06Stream(seeds0[i], need)
		k1[i] = c06Stream(seeds1[i], need)
	}
	in := make([]SX, len(batches))
	obs := make([]SX, len(batches))
	for i, b := range batches {
		in[i] = L(Bits(b.flags), Bool(b.mal), Label(b.b0), Label(b.b1), Label(b.seed), wiresSX(b.wiresIn))
		if rot {
			obs[i] = L(wiresSX(b.wires), Labels(b.result))
		} else {
			obs[i] = L(Labels(b.msgs), Labels(b.result))
		}
	}
	c.Case(L(I(2), Bool(rot), L(k0...), L(k1...), Label(delta), L(in...)), L(obs...))
	return nil
}

func c06AllImpls(c *Ctx) error {
	type cfg struct {
		impl string
		mk   func(r *RNG, shared bool) ot.OT
	}
	cfgs := []cfg{
		{"co", func(r *RNG, shared bool) ot.OT { return ot.NewCO(r) }},
		{"cot", func(r *RNG, shared bool) ot.OT { return ot.NewCOT(ot.NewCO(r.Fork()), r, false, shared) }},
		{"cot-malicious", func(r *RNG, shared bool) ot.OT { return ot.NewCOT(ot.NewCO(r.Fork()), r, true, shared) }},
		{"rot", func(r *RNG, shared bool) ot.OT { return ot.NewROT(ot.NewCO(r.Fork()), r, false, shared) }},
		{"rot-malicious", func(r *RNG, shared bool) ot.OT { return ot.NewROT(ot.NewCO(r.Fork()), r, true, shared) }},
	}
	for ci, cf := range cfgs {
		for si, n := range c06Sizes {
			r := c.rng.Fork()
			shared := cf.impl != "co" && (si+ci)%2 == 0
			if c.Thorough() && cf.impl != "co" {
				// both modes
				for _, sh := range []bool{false, true} {
					impl := cf.impl
					if sh {
						impl += "-shared"
					}
					p0, p1 := ot.NewPipe()
					c06RunOT(c, fmt.Sprintf("%s-n%d", impl, n), impl, cf.mk(r.Fork(), sh), cf.mk(r.Fork(), sh), p0, p1,
						c06Batches(r, n, true, si), sh, nil, nil)
				}
				continue
			}
			impl := cf.impl
			if shared {
				impl += "-shared"
			}
			p0, p1 := ot.NewPipe()
			c06RunOT(c, fmt.Sprintf("%s-n%d", impl, n), impl, cf.mk(r.Fork(), shared), cf.mk(r.Fork(), shared), p0, p1,
				c06Batches(r, n, n <= 129 || c.Thorough(), si), shared, nil, nil)
		}
	}
	// RSA: small keys, few sizes in the quick tier
	rsaSizes := []int{1, 2, 17, 64}
	bits := []int{1024}
	if c.Thorough() {
		rsaSizes = []int{1, 2, 3, 7, 8, 9, 16, 17, 20, 63, 64, 65, 129}
		bits = []int{1024, 2048}
	}
	for _, kb := range bits {
		for si, n := range rsaSizes {
			r := c.rng.Fork()
			p0, p1 := ot.NewPipe()
			c06RunOT(c, fmt.Sprintf("rsa%d-n%d", kb, n), fmt.Sprintf("rsa-%d", kb), ot.NewRSA(r.Fork(), kb), ot.NewRSA(r.Fork(), kb),
				p0, p1, c06Batches(r, n, n <= 17, si), false, nil, nil)
		}
	}
	// Long-lived objects re-initialised in ALTERNATING roles over new connections (two peers taking
	// turns as sender): CO and RSA objects can be initialised again in either role (an ot.COT / ot.ROT
	// object serves one initialisation per role by design: "already initialized").  Every session
	// delivers exactly the chosen labels.
	for _, impl := range []string{"co", "rsa-1024"} {
		r := c.rng.Fork()
		var a, b ot.OT
		if impl == "co" {
			a, b = ot.NewCO(r.Fork()), ot.NewCO(r.Fork())
		} else {
			a, b = ot.NewRSA(r.Fork(), 1024), ot.NewRSA(r.Fork(), 1024)
		}
		for si, aSends := range []bool{true, false, true, true, false, true} {
			snd, rcv := a, b
			if !aSends {
				snd, rcv = b, a
			}
			p0, p1 := ot.NewPipe()
			n := []int{3, 1, 5, 2, 9, 4}[si]
			c.Hist("ot:" + impl + ":alternating-roles")
			if !c06RunOT(c, fmt.Sprintf("%s-alternating-roles-session%d", impl, si+1), impl+":alternating-roles", snd, rcv, p0, p1,
				[]*c06Batch{c06MkBatch(r, n, "random")}, false, nil, nil) {
				break
			}
		}
	}
	// RSA byte exact: real key size with the exponentiations as a table,
	// and a 224-bit key (smallest whose message size holds a padded label)
	// where the model exponentiates itself
	for si, n := range []int{1, 5, 9} {
		if err := c06RSASession(c, c.rng.Fork(), fmt.Sprintf("rsa1024-corr-n%d", n), 1024, n, c06Patterns[si%3], false); err != nil {
			return err
		}
	}
	{
		old, had := os.LookupEnv("GODEBUG")
		os.Setenv("GODEBUG", "rsa1024min=0")
		small := []int{1}
		if c.Thorough() {
			small = []int{1, 2, 5}
		}
		var err error
		for _, n := range small {
			if err = c06RSASession(c, c.rng.Fork(), fmt.Sprintf("rsa224-corr-n%d", n), 224, n, "random", true); err != nil {
				break
			}
		}
		if had {
			os.Setenv("GODEBUG", old)
		} else {
			os.Unsetenv("GODEBUG")
		}
		if err != nil {
			return err
		}
	}
	// CO helper functions and the single-transfer API
	for si, n := range c06Sizes {
		r := c.rng.Fork()
		pats := []string{c06Patterns[si%3]}
		if n <= 129 || c.Thorough() {
			pats = c06Patterns
		}
		for _, p := range pats {
			corr := p == "random" && (n <= 3 || n == 8 || n == 9 || n == 17 || n == 64 || n == 65 || (c.Thorough() && n <= 129))
			if err := c06COHelpers(c, r, n, p, corr); err != nil {
				return err
			}
		}
	}
	for _, size := range []int{1, 15, 16, 17, 31, 32} {
		r := c.rng.Fork()
		c06COXfer(c, r, size, 0)
		c06COXfer(c, r, size, 1)
	}
	for _, rot := range []bool{false, true} {
		r := c.rng.Fork()
		if err := c06COTSession(c, r, fmt.Sprintf("cot-kernel-rot%v", rot), rot, false, []*c06Batch{c06MkBatch(r, 2, "random")}); err != nil {
			return err
		}
	}
	// COT / ROT byte exact against the model (Gallina AES for MITCCRH): small sizes
	for si, n := range c06Sizes {
		if n > 65 {
			break
		}
		if !c.Thorough() && n > 20 && n != 65 {
			continue
		}
		for _, rot := range []bool{false, true} {
			r := c.rng.Fork()
			mal := (si+1)%4 == 0 || n == 65
			bs := []*c06Batch{c06MkBatch(r, n, c06Patterns[si%3]), c06MkBatch(r, n, "random")}
			if n == 65 {
				bs = bs[1:]
			}
			if err := c06COTSession(c, r, fmt.Sprintf("cot-corr-n%d-rot%v", n, rot), rot, mal, bs); err != nil {
				return err
			}
		}
	}
	return nil
}

func runC06(c *Ctx) error {
	// --- IKNP, byte-exact sessions
	for _, n := range c06Sizes {
		r := c.rng.Fork()
		if n <= 129 {
			var ops []*c06Op
			for _, p := range c06Patterns {
				ops = append(ops, c06MkOp(r, false, n, p, false, false))
			}
			ops = append(ops, c06MkOp(r, false, n, "random", true, false))
			for _, p := range c06Patterns {
				ops = append(ops, c06MkOp(r, true, n, p, false, p == "random"))
			}
			// a few sessions let the model run AES-CTR itself
			gallina := n == 1 || n == 7 || (c.Thorough() && (n <= 20 || n == 65))
			if err := c06IKNPSession(c, r, fmt.Sprintf("iknp-all-n%d", n), ops, gallina, 1); err != nil {
				return err
			}
			continue
		}
		for _, p := range c06Patterns {
			for _, bits := range []bool{false, true} {
				ops := []*c06Op{c06MkOp(r, bits, n, p, false, p == "all1")}
				if err := c06IKNPSession(c, r, fmt.Sprintf("iknp-n%d-%s-%v", n, p, bits), ops, false, 1); err != nil {
					return err
				}
			}
		}
	}
	// two minimal sessions, small enough for the in-kernel vm_compute sub-sample
	// (Gallina AES-CTR as the PRG; MITCCRH below in c06AllImpls)
	{
		r := c.rng.Fork()
		ops := []*c06Op{c06MkOp(r, false, 3, "random", false, false), c06MkOp(r, true, 3, "all1", false, true)}
		if err := c06IKNPSession(c, r, "iknp-kernel-n3", ops, true, 1); err != nil {
			return err
		}
	}
	// the two inputs of DESIGN.md section 9 (F4, fixed by commit eae031e): n = 65 and n = 100, all-ones choices
	for _, n := range []int{65, 100} {
		r := c.rng.Fork()
		ops := []*c06Op{c06MkOp(r, true, n, "all1", false, false)}
		if err := c06IKNPSession(c, r, fmt.Sprintf("iknp-F4-n%d", n), ops, false, 1); err != nil {
			return err
		}
	}
	// mixed sessions: repeated batches of different sizes and forms on one pair
	nMixed := c.N(12, 600)
	for k := 0; k < nMixed; k++ {
		r := c.rng.Fork()
		cnt := r.Range(2, 5)
		var ops []*c06Op
		budget := 2200
		for j := 0; j < cnt; j++ {
			var n int
			if r.Intn(3) == 0 {
				n = r.Range(1, 1600)
			} else {
				n = c06Sizes[r.Intn(len(c06Sizes))]
			}
			if n > budget {
				n = r.Range(1, 130)
			}
			budget -= n
			ops = append(ops, c06MkOp(r, r.Bool(), n, c06Patterns[r.Intn(3)], r.Intn(4) == 0, r.Bool()))
		}
		if err := c06IKNPSession(c, r, fmt.Sprintf("iknp-mixed-%d", k), ops, false, -1); err != nil {
			return err
		}
	}
	// sessions around the chunk boundary (512 rows): three operations each, both forms
	boundary := []int{511, 512, 513, 1023, 1024, 1025}
	nBoundary := c.N(6, 60)
	for k := 0; k < nBoundary; k++ {
		r := c.rng.Fork()
		var ops []*c06Op
		for j := 0; j < 3; j++ {
			n := boundary[(k+2*j+r.Intn(2))%len(boundary)]
			if j == 1 {
				n = r.Range(1, 70) // a short batch between two multi-chunk ones shifts the stream offsets
			}
			ops = append(ops, c06MkOp(r, (k+j)%2 == 0, n, c06Patterns[r.Intn(3)], j == 2 && k%3 == 0, r.Bool()))
		}
		if err := c06IKNPSession(c, r, fmt.Sprintf("iknp-boundary-%d", k), ops, false, k%2); err != nil {
			return err
		}
	}
	// dirty result buffers (documented: "Existing contents of result are overwritten";
	// finding F4b, fixed by commit 7d31e72)
	for _, n := range []int{64, 100, 128} {
		r := c.rng.Fork()
		ops := []*c06Op{c06MkOp(r, true, n, "random", false, true)}
		if err := c06IKNPSession(c, r, fmt.Sprintf("iknp-dirty-n%d", n), ops, false, -1); err != nil {
			return err
		}
	}
	if err := c06AllImpls(c); err != nil {
		return err
	}
	// the less travelled ways in (c06doors.go)
	if err := c06Doors(c); err != nil {
		return err
	}
	// ot/label.go function by function and the CO wire format (c06ext.go)
	return c06Ext(c)
}
