package main

// C12, third part: the SAME source expression folded several times at different
// types in one compilation.
//
//   const A = ..; const B = ..            (or  A := ..; B := ..  in main)
//   func op(v, a, b uint) uint { return v + (a * b) }     // unsized parameters
//   func main(v0 uint32, v1 uint64) (uint32, uint64) {
//       return op(v0, uint32(A), uint32(B)), op(v1, uint64(A), uint64(B))
//   }
//
// The helper is instantiated per call; its one Binary node is folded once per
// call with the SAME constant objects (a cast copies the ssa.Value and shares the
// *mpa.Int) but another declared type, so the fold must depend on the result
// type, not only on the operand objects.  Run-time variant: the casts replaced by
// inputs a_i, b_i.  Observables / oracle as for the multi-constant programs:
// constant names in the SSA listing + every output; constant variant ==
// run-time variant per result.

import (
	"fmt"
	"math/big"
	"strings"
)

type c12Call struct {
	n  int
	pv *big.Int
}

type c12CallProg struct {
	op    int
	k     int // 0 int, 1 uint (helper parameters "int" / "uint")
	cons  int // 0 as is, 1 v + E, 2 v < E, 3 E >> 1
	style int // 0 package-level const A, B; 1 A := .., B := .. in main
	a, b  *big.Int
	calls []c12Call
}

// value of "a op b" at an n-bit unsigned/signed type for 0 <= a, b (n-bit pattern)
func c12ExactValue(op, n int, a, b *big.Int) *big.Int {
	m := c12Pow(n)
	var r *big.Int
	switch op {
	case 0:
		r = new(big.Int).Add(a, b)
	case 1:
		r = new(big.Int).Sub(a, b)
	case 2:
		r = new(big.Int).Mul(a, b)
	case 3:
		if b.Sign() == 0 {
			return new(big.Int).Sub(m, big.NewInt(1))
		}
		r = new(big.Int).Quo(a, b)
	case 4:
		if b.Sign() == 0 {
			return new(big.Int).Mod(a, m)
		}
		r = new(big.Int).Rem(a, b)
	case 5:
		r = new(big.Int).And(a, b)
	case 6:
		r = new(big.Int).Or(a, b)
	case 7:
		r = new(big.Int).Xor(a, b)
	case 8:
		r = new(big.Int).AndNot(a, b)
	case 9:
		r = new(big.Int).Lsh(a, uint(b.Int64()))
	case 10:
		r = new(big.Int).Rsh(a, uint(b.Int64()))
	default:
		return nil
	}
	return r.Mod(r, m)
}

func (p *c12CallProg) isCmp() bool { return p.op >= 11 && p.op <= 16 }

func (p *c12CallProg) helperExpr(a, b string) string {
	var e string
	if p.op == 9 || p.op == 10 {
		e = "(" + a + " " + c12Ops[p.op] + " " + p.b.String() + ")"
	} else {
		e = "(" + a + " " + c12Ops[p.op] + " " + b + ")"
	}
	switch p.cons {
	case 1:
		return "v + " + e
	case 2:
		return "v < " + e
	case 3:
		return e + " >> 1"
	}
	return e
}

// every call inside the class the Coq theorems cover for this consumer
func (p *c12CallProg) inClass() bool {
	for _, cl := range p.calls {
		m := c12Meta{code: p.op, k: p.k, n: cl.n, a: p.a, b: p.b}
		cls := m.class()
		if cl.n < 32 {
			// narrower than every container: only consumers with a run-time operand
			// (the unsized helper would return the container's type otherwise)
			if cls < 1 || p.cons == 0 || p.cons == 3 {
				return false
			}
			// a folded intN, N < 32, is 32 wires wide and the comparators zero-pad the
			// run-time operand (known finding F6c): only the adder (which truncates)
			if p.k == 0 && p.cons != 1 {
				return false
			}
			continue
		}
		// the unsized helper returns the folded constant's own type, so even the as-is
		// consumer needs the exact width (fold_exact_class)
		if cls != 2 {
			return false
		}
		if p.cons == 3 {
			v := c12ExactValue(p.op, cl.n, p.a, p.b)
			if v == nil {
				return false
			}
			sv := c12Signed(p.k, cl.n, v)
			if !(sv.Sign() >= 0 && (cl.n > 64 || sv.Cmp(c12Pow(63)) < 0)) {
				return false
			}
		}
	}
	return true
}

func (p *c12CallProg) render(runtime bool) (string, []*big.Int, SX) {
	kw := []string{"int", "uint"}[p.k]
	ret := kw
	if p.cons == 2 || p.isCmp() {
		ret = "bool"
	}
	var decl, rets, calls []string
	var vals []*big.Int
	var sxCalls []SX
	for i, cl := range p.calls {
		decl = append(decl, fmt.Sprintf("v%d %s", i, c12TypeName(p.k, cl.n)))
		vals = append(vals, c12Unsigned(cl.pv, cl.n))
	}
	for i, cl := range p.calls {
		tn := c12TypeName(p.k, cl.n)
		var ea, eb *c12Expr
		var sa, sb string
		if runtime {
			decl = append(decl, fmt.Sprintf("a%d %s", i, tn), fmt.Sprintf("b%d %s", i, tn))
			vals = append(vals, c12Unsigned(p.a, cl.n), c12Unsigned(p.b, cl.n))
			sa, sb = fmt.Sprintf("a%d", i), fmt.Sprintf("b%d", i)
			ea, eb = c12InE(sa, p.k, cl.n, p.a), c12InE(sb, p.k, cl.n, p.b)
		} else {
			sa, sb = tn+"(A)", tn+"(B)"
			ea, eb = c12CastE(p.k, cl.n, c12LitE(p.a)), c12CastE(p.k, cl.n, c12LitE(p.b))
		}
		calls = append(calls, fmt.Sprintf("op(v%d, %s, %s)", i, sa, sb))
		rt := tn
		if ret == "bool" {
			rt = "bool"
		}
		rets = append(rets, rt)
		var e *c12Expr
		if p.op == 9 || p.op == 10 {
			e = c12BinE(p.op, ea, c12LitE(p.b))
		} else {
			e = c12BinE(p.op, ea, eb)
		}
		args := L()
		if !runtime {
			args = L(ea.sx(), eb.sx())
		}
		sxCalls = append(sxCalls, L(I(p.k), I(cl.n), args, e.sx(), I(p.cons), Big(c12Unsigned(cl.pv, cl.n))))
	}
	var sb strings.Builder
	sb.WriteString("package main\n")
	pre := L()
	body := ""
	if !runtime {
		if p.style == 0 {
			fmt.Fprintf(&sb, "const A = %s\nconst B = %s\n", p.a, p.b)
		} else {
			body = fmt.Sprintf("\tA := %s\n\tB := %s\n", p.a, p.b)
			pre = L(c12LitE(p.a).sx(), c12LitE(p.b).sx())
		}
	}
	fmt.Fprintf(&sb, "func op(v, a, b %s) %s {\n\treturn %s\n}\n", kw, ret, p.helperExpr("a", "b"))
	fmt.Fprintf(&sb, "func main(%s) (%s) {\n%s\treturn %s\n}\n", strings.Join(decl, ", "), strings.Join(rets, ", "), body, strings.Join(calls, ", "))
	variant := 0
	if runtime {
		variant = 1
	}
	return sb.String(), vals, L(I(10), I(variant), pre, L(sxCalls...))
}

func runC12Calls(c *Ctx) {
	r := c.rng.Fork()
	widthSets := [][]int{{32, 64}, {64, 32}, {32, 64, 32}, {32, 128}, {64, 65}, {65, 64}, {32, 65, 128}, {16, 32}, {8, 64}, {64, 16}}
	if c.Thorough() {
		widthSets = append(widthSets, []int{32, 33}, []int{128, 32}, []int{64, 128}, []int{8, 16}, []int{8, 32, 64}, []int{64, 32, 8}, []int{127, 130}, []int{31, 32})
	}
	nProg, nFail := 0, 0
	tries := c.N(3, 12)
	for _, ws := range widthSets {
		for k := 0; k < 2; k++ {
			for op := 0; op <= 16; op++ {
				for cons := 0; cons < 4; cons++ {
					if op >= 11 && cons != 0 {
						continue // a bool result is only returned
					}
					if !c.Thorough() && (op+cons+len(ws)+k)%2 == 1 && op != 2 && op != 1 && op != 9 {
						continue
					}
					// operand values: prefer results that differ between the widths
					var best *c12CallProg
					for t := 0; t < tries*4 && best == nil; t++ {
						nmin := ws[0]
						for _, w := range ws {
							if w < nmin {
								nmin = w
							}
						}
						lim := nmin
						if k == 0 {
							lim = nmin - 1
						}
						var a, b *big.Int
						switch {
						case op == 2: // product overflowing the narrower width
							a = c12Rand(r, lim/2+1+r.Intn(lim/2))
							b = c12Rand(r, lim/2+1+r.Intn(lim/2))
						case op == 1: // below zero half of the time
							a = c12Rand(r, lim-1)
							b = c12Rand(r, lim)
						case op == 9 || op == 10:
							a = c12Rand(r, lim)
							b = big.NewInt(int64(1 + r.Intn(nmin)))
						default:
							a = c12Rand(r, lim)
							b = c12Rand(r, 1+r.Intn(lim))
						}
						p := &c12CallProg{op: op, k: k, cons: cons, style: r.Intn(2), a: a, b: b}
						for _, w := range ws {
							p.calls = append(p.calls, c12Call{n: w, pv: c12Rand(r, w)})
						}
						if p.inClass() {
							best = p
						}
					}
					if best == nil {
						c.Hist("calls:no-in-class-values")
						continue
					}
					p := best
					srcC, inC, sxC := p.render(false)
					srcD, inD, sxD := p.render(true)
					oc := c12RunN(srcC, inC, len(p.calls))
					od := c12RunN(srcD, inD, len(p.calls))
					nProg++
					c.Case(sxC, c12MultiOutcomeSX(oc, true))
					c.Case(sxD, c12MultiOutcomeSX(od, false))
					c.Hist("calls:op:" + c12OpNames[op])
					c.Hist("calls:consumer:" + c12MultiCons[cons])
					c.Eval(srcC, oc.kind == 0 && od.kind == 0)
					var types []string
					for _, cl := range p.calls {
						types = append(types, c12TypeName(p.k, cl.n))
					}
					str := func(vs []*big.Int) []string {
						var o []string
						for _, v := range vs {
							o = append(o, "0x"+v.Text(16))
						}
						return o
					}
					var names []string
					for _, v := range oc.names {
						names = append(names, "$"+v.String())
					}
					rp := c12MultiReplay{Seed: c.Seed, Const: srcC, Runtime: srcD, Inputs: str(inD),
						ConstGot: str(oc.vals), RunGot: str(od.vals), Names: names}
					base := fmt.Sprintf("c12:same-node-folded-at-two-types:%s:%s:%s", c12OpNames[op], strings.Join(types, "+"), c12MultiCons[cons])
					switch {
					case oc.kind == 2:
						nFail++
						c.Fail(base+":panic", "compiler panics ("+oc.text+")", rp)
					case od.kind != 0:
						c.Hist("calls:runtime-variant-rejected")
						c.Note("calls: run-time variant rejected: %s: %s", od.text, strings.ReplaceAll(srcD, "\n", " | "))
					case oc.kind == 1:
						nFail++
						c.Fail(base+":compile-error", "constant variant rejected ("+oc.text+") but the run-time variant compiles", rp)
					default:
						// constants registered so far: (Type.Bits, value) in order
						type reg struct {
							w int
							v *big.Int
						}
						var regs []reg
						if p.style == 1 { // A := .., B := .. register the literals first
							regs = append(regs, reg{c12Cont(p.a), p.a}, reg{c12Cont(p.b), p.b})
						}
						cw := func(n int) int { // Type.Bits of a folded constant of declared width n
							if n < 32 {
								return 32
							}
							return n
						}
						for i, cl := range p.calls {
							kv := c12ExactValue(p.op, cl.n, p.a, p.b)
							if oc.vals[i].Cmp(od.vals[i]) != 0 {
								nFail++
								rp.Item = i
								known := false
								cands := []*big.Int{kv}
								if kv != nil && p.cons == 3 {
									cands = append(cands, new(big.Int).Rsh(kv, 1))
								}
								for _, e := range regs {
									for _, cv := range cands {
										if cv != nil && p.k == 0 && e.w < cl.n && e.v.Cmp(cv) == 0 && e.v.Bit(e.w-1) == 1 {
											known = true
										}
									}
								}
								key := base + fmt.Sprintf(":result%d:wrong-value", i)
								if known {
									key = "c12:two-folded-constants-one-program:F6k-wider-int-after-narrower-equal-value-with-top-bit:" + strings.Join(types, "+")
								}
								c.Fail(key, fmt.Sprintf("call %d (%s): the constant variant gives 0x%s, the run-time variant 0x%s; constant names in the SSA listing: %v",
									i, types[i], oc.vals[i].Text(16), od.vals[i].Text(16), names), rp)
							}
							regs = append(regs, reg{cl.n, c12Unsigned(p.a, cl.n)}, reg{cl.n, c12Unsigned(p.b, cl.n)})
							if kv != nil {
								regs = append(regs, reg{cw(cl.n), kv})
								if p.cons == 3 {
									regs = append(regs, reg{cw(cl.n), new(big.Int).Rsh(kv, 1)})
								}
							}
						}
					}
				}
			}
		}
	}
	c.Note("same-node programs: %d pairs of (constant, run-time) variants, %d failing results", nProg, nFail)
}
