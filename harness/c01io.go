package main

// c01io.go — the []*big.Int layer of Circuit.Compute (circuit/computer.go) as byte-exact
// correspondence cases for the Coq model Circuit/ComputeIO.v: how argument values are
// flattened into wires (compound arguments replaced by their members; widths 0, 1, odd,
// around 8 / 64 / 128; negative values, values wider and narrower than the declared
// width) and how the output wires are packed into one number per declared output.
// Case format: RunC01.v (first item the atom 1).

import (
	"fmt"
	"math/big"

	"github.com/markkurossi/mpc/circuit"
	"github.com/markkurossi/mpc/types"
)

type c01ioReplay struct {
	Seed    uint64
	Case    int
	Circuit string
	Inputs  string
	Outputs string
	Values  []string
	Got     []string
	Want    []string
}

// c01ioWidths cuts n bits into argument widths (directed widths around byte / word borders).
func c01ioWidths(r *RNG, n int, zero bool) []int {
	pref := []int{1, 2, 3, 5, 7, 8, 9, 13, 15, 16, 17, 31, 32, 33, 63, 64, 65, 127, 128, 129}
	var ws []int
	for n > 0 {
		var w int
		switch r.Intn(4) {
		case 0:
			w = n
		case 1:
			w = r.Range(1, n)
		default:
			w = pref[r.Intn(len(pref))]
			if w > n {
				w = r.Range(1, n)
			}
		}
		if zero && r.Intn(12) == 0 {
			ws = append(ws, 0)
		}
		ws = append(ws, w)
		n -= w
	}
	if zero && r.Intn(12) == 0 {
		ws = append(ws, 0)
	}
	return ws
}

func c01ioSX(io circuit.IO) SX {
	l := make([]SX, len(io))
	for i, a := range io {
		var m []int
		for _, k := range a.Compound {
			m = append(m, int(k.Type.Bits))
		}
		l[i] = L(I(int(a.Type.Bits)), Ints(m))
	}
	return L(l...)
}

func c01ioCompute(circ *circuit.Circuit, vals []*big.Int) (res []*big.Int, err error, panicked bool) {
	defer func() {
		if p := recover(); p != nil {
			panicked = true
		}
	}()
	res, err = circ.Compute(vals)
	return
}

func bigStrings(v []*big.Int) []string {
	s := make([]string, len(v))
	for i, x := range v {
		s[i] = x.Text(16)
	}
	return s
}

func c01ComputeIO(c *Ctx) error {
	n := c.N(120, 6000)
	one := big.NewInt(1)
	for i := 0; i < n; i++ {
		r := c.rng.Fork()
		opts := GenOpts{MinIn: 1, MaxIn: 24, MinGates: 1, MaxGates: 40, MaxOut: 12, Overwrite: true}
		switch {
		case i%6 == 1:
			opts.MinIn, opts.MaxIn = 60, 140 // arguments around one and two machine words
		case i%6 == 4:
			opts.MinIn, opts.MaxIn, opts.MaxOut = 120, 300, 140 // outputs wider than 64 / 128 bits
			opts.MinGates, opts.MaxGates = 100, 160
		}
		src := GenCircuit(r, opts)
		circ := *src
		ni, no := src.Inputs.Size(), src.Outputs.Size()

		// declared inputs: random widths, some consecutive arguments grouped into a struct
		ws := c01ioWidths(r, ni, true)
		circ.Inputs = nil
		var flat []int
		for k := 0; k < len(ws); {
			if len(ws)-k >= 2 && r.Intn(4) == 0 {
				m := r.Range(2, min(4, len(ws)-k))
				sum := 0
				var comp circuit.IO
				for j := 0; j < m; j++ {
					comp = append(comp, circuit.IOArg{Name: fmt.Sprintf("a%d.f%d", k, j), Type: uintInfo(ws[k+j])})
					sum += ws[k+j]
				}
				if sum > 0 {
					arg := circuit.IOArg{Name: fmt.Sprintf("a%d", k), Type: uintInfo(sum), Compound: comp}
					arg.Type.Type = types.TStruct
					circ.Inputs = append(circ.Inputs, arg)
					flat = append(flat, ws[k:k+m]...)
					k += m
					c.Hist("compute-io:compound-argument")
					continue
				}
			}
			circ.Inputs = append(circ.Inputs, circuit.IOArg{Name: fmt.Sprintf("a%d", k), Type: uintInfo(ws[k])})
			flat = append(flat, ws[k])
			k++
		}
		// declared outputs
		circ.Outputs = nil
		for k, w := range c01ioWidths(r, no, true) {
			circ.Outputs = append(circ.Outputs, circuit.IOArg{Name: fmt.Sprintf("r%d", k), Type: uintInfo(w)})
		}

		// directed bad layouts / calls
		mode := "ok"
		switch i % 20 {
		case 7:
			mode = "too-few-values"
		case 13:
			mode = "too-many-values"
		case 17:
			mode = "inputs-wider-than-wires"
			circ.Inputs = append(circ.Inputs, circuit.IOArg{Name: "huge", Type: uintInfo(circ.NumWires - ni + 1)})
			flat = append(flat, circ.NumWires-ni+1)
		case 19:
			mode = "outputs-wider-than-wires"
			circ.Outputs = append(circ.Outputs, circuit.IOArg{Name: "huge", Type: uintInfo(circ.NumWires - no + 1)})
		}
		c.Hist("compute-io:" + mode)

		// argument values: x is what must reach the wires
		var vals []*big.Int
		var x []bool
		for _, w := range flat {
			v := new(big.Int)
			for b := 0; b < w; b++ {
				if r.Bool() {
					v.SetBit(v, b, 1)
				}
			}
			switch r.Intn(8) {
			case 0:
				v.SetInt64(0)
			case 1:
				v.SetInt64(-1)
				c.Hist("compute-io:value:minus-one")
			case 2:
				// negative value with the same low bits
				v.Sub(v, new(big.Int).Lsh(one, uint(w+r.Intn(70))))
				c.Hist("compute-io:value:negative")
			case 3:
				// wider than the argument: extra high bits
				extra := new(big.Int).SetUint64(r.U64() | 1)
				v.Add(v, extra.Lsh(extra, uint(w+r.Intn(3))))
				c.Hist("compute-io:value:wider-than-argument")
			case 4:
				if w > 2 {
					v.Rsh(v, uint(w/2))
					c.Hist("compute-io:value:narrower-than-argument")
				}
			}
			vals = append(vals, v)
			// the harness's own reading: v mod 2^w (Euclidean), bit by bit
			m := new(big.Int).Mod(v, new(big.Int).Lsh(one, uint(w)))
			for b := 0; b < w; b++ {
				x = append(x, m.Bit(b) == 1)
			}
			switch {
			case w == 0:
				c.Hist("compute-io:width:0")
			case w%8 != 0:
				c.Hist("compute-io:width:not-multiple-of-8")
			case w%64 != 0:
				c.Hist("compute-io:width:multiple-of-8")
			default:
				c.Hist("compute-io:width:multiple-of-64")
			}
			if w > 64 {
				c.Hist("compute-io:width:over-64")
			}
		}
		switch mode {
		case "too-few-values":
			vals = vals[:len(vals)-1]
		case "too-many-values":
			vals = append(vals, big.NewInt(int64(r.Intn(5))))
		}
		before := bigStrings(vals)

		res, err, panicked := c01ioCompute(&circ, vals)

		var obs SX
		bad, detail := "", ""
		var wantS []string
		switch {
		case panicked:
			obs = L(I(2))
			if mode != "inputs-wider-than-wires" && mode != "outputs-wider-than-wires" {
				bad = "Compute panics on a fitting layout"
			}
		case err != nil:
			var got, exp int
			if _, serr := fmt.Sscanf(err.Error(), "invalid inputs: got %d, expected %d", &got, &exp); serr != nil {
				bad = "Compute error"
				detail = err.Error()
				obs = L(I(-1))
			} else {
				obs = L(I(1), I(got), I(exp))
				if mode != "too-few-values" && mode != "too-many-values" {
					bad = "Compute rejects a call with one value per flattened argument"
					detail = err.Error()
				} else if got != len(vals) || exp != len(flat) {
					bad = "Compute reports the wrong argument counts"
					detail = err.Error()
				}
			}
		default:
			l := make([]SX, len(res))
			for k, v := range res {
				l[k] = Big(v)
			}
			obs = L(I(0), L(l...))
			if mode != "ok" {
				bad = "Compute accepts a bad call"
			} else {
				// independent oracle: truth-table evaluation of the bits, packed per output
				want := TruthEval(src, x)
				ofs := 0
				if len(res) != len(circ.Outputs) {
					bad = "Compute returns the wrong number of results"
					detail = fmt.Sprintf("%d results for %d declared outputs", len(res), len(circ.Outputs))
				}
				for k, o := range circ.Outputs {
					wv := new(big.Int)
					for b := 0; b < int(o.Type.Bits); b++ {
						if want[ofs] {
							wv.SetBit(wv, b, 1)
						}
						ofs++
					}
					wantS = append(wantS, wv.Text(16))
					if bad == "" && res[k].Cmp(wv) != 0 {
						bad = "Compute result differs from the truth-table evaluation of the argument bits"
						detail = fmt.Sprintf("result %d", k)
					}
				}
			}
		}
		after := bigStrings(vals)
		for k := range before {
			if bad == "" && before[k] != after[k] {
				bad = "Compute modifies its argument values"
			}
		}
		c.Eval(fmt.Sprintf("io|%s|%v|%v|%v", circuitText(&circ), flat, circ.Outputs, before),
			circ.Stats[circuit.AND]+circ.Stats[circuit.OR]+circ.Stats[circuit.INV] > 0)
		if bad != "" {
			c.Fail("c01:compute-io:"+mode+":"+bad, bad+" "+detail, c01ioReplay{Seed: c.Seed, Case: i, Circuit: circuitText(&circ),
				Inputs: circ.Inputs.String(), Outputs: circ.Outputs.String(), Values: before, Got: bigStrings(res), Want: wantS})
		}
		dims, gs := CircuitSX(&circ)
		vl := make([]SX, len(vals))
		for k, v := range vals {
			vl[k] = Big(v)
		}
		c.Case(L(I(1), dims, gs, c01ioSX(circ.Inputs), c01ioSX(circ.Outputs), L(vl...)), obs)
		if i < 2 {
			c.Sample(map[string]interface{}{"compute-io circuit": circuitText(&circ), "inputs": circ.Inputs.String(),
				"outputs": circ.Outputs.String(), "values": before, "results": bigStrings(res)})
		}
	}
	return nil
}
