package main

// Property C06, extension: (a) ot/label.go function by function against the
// two-word model (OT/LabelWire.v) on random and boundary labels; (b) the wire
// format of ot/co.go: every IO.SendData payload of a complete CO session
// (InitSender/InitReceiver, Send ‖ Receive) in the global order of the calls,
// against the model's encoding of the values the pure helper functions of
// ot/co_helpers.go produce from the same randomness, and the SHA-256 input of
// deriveMask per index.

import (
	"bytes"
	"crypto/elliptic"
	"crypto/sha256"
	"encoding/binary"
	"fmt"
	"math/big"
	"sync"
	"time"

	"github.com/markkurossi/mpc/ot"
)

func c06LW(l ot.Label) SX { return L(U64(l.D0), U64(l.D1)) }

// c06LabelCase runs every helper of ot/label.go on (l, o, tweak, i, data).
func c06LabelCase(c *Ctx, l, o ot.Label, tweak uint32, i int, data []byte) {
	var obs []SX
	obs = append(obs, Bool(l.Equal(o)), Bool(l.Equal(l)), c06LW(ot.NewTweak(tweak)), Bool(l.S()))
	t := l
	t.SetS(true)
	obs = append(obs, c06LW(t))
	t = l
	t.SetS(false)
	obs = append(obs, c06LW(t))
	t = l
	t.Mul2()
	obs = append(obs, c06LW(t))
	t = l
	t.Mul4()
	obs = append(obs, c06LW(t))
	t = l
	t.Xor(o)
	obs = append(obs, c06LW(t))
	t = l
	t.And(o)
	obs = append(obs, c06LW(t))
	var ld ot.LabelData
	l.GetData(&ld)
	obs = append(obs, Bytes(ld[:]))
	var ld2 ot.LabelData
	bs := l.Bytes(&ld2)
	if !bytes.Equal(bs, ld[:]) {
		c.Fail("c06:label:Bytes!=GetData", "Label.Bytes differs from Label.GetData", c06Replay{Seed: c.Seed, Case: "label", Detail: fmt.Sprintf("%x vs %x", bs, ld[:])})
	}
	var in ot.LabelData
	copy(in[:], data[:16])
	t = ot.Label{D0: 0xdeadbeef, D1: 0xfeedface}
	t.SetData(&in)
	obs = append(obs, c06LW(t))
	t = ot.Label{D0: 1, D1: 2}
	t.SetBytes(data)
	obs = append(obs, c06LW(t))
	nl, err := ot.NewLabel(bytes.NewReader(data))
	if err != nil {
		c.Fail("c06:label:NewLabel:error", "NewLabel failed on a 16+ byte stream", c06Replay{Seed: c.Seed, Case: "label", Detail: err.Error()})
	}
	obs = append(obs, c06LW(nl))
	obs = append(obs, Bool(l.Bit(i) == 1))
	t = l
	t.SetBit(i, 0)
	obs = append(obs, c06LW(t))
	t = l
	t.SetBit(i, 1)
	obs = append(obs, c06LW(t))
	v, _ := new(big.Int).SetString(l.String(), 16)
	obs = append(obs, Big(v))

	// the properties themselves on the implementation
	rp := c06Replay{Seed: c.Seed, Case: "label", Detail: fmt.Sprintf("l=%s o=%s i=%d", l, o, i)}
	var rt ot.Label
	rt.SetData(&ld)
	if !rt.Equal(l) {
		c.Fail("c06:label:SetData(GetData)", "SetData(GetData(l)) != l", rp)
	}
	two := new(big.Int).Lsh(v, 1)
	two.Mod(two, new(big.Int).Lsh(big.NewInt(1), 128))
	t = l
	t.Mul2()
	if t.String() != fmt.Sprintf("%032x", two) {
		c.Fail("c06:label:Mul2", "Mul2 is not doubling mod 2^128", rp)
	}
	if l.S() != (v.Bit(127) == 1) {
		c.Fail("c06:label:S", "S is not bit 127", rp)
	}
	if new(big.Int).SetBytes(ld[:]).Cmp(v) != 0 {
		c.Fail("c06:label:byte-order", "GetData is not big-endian D0 ‖ D1", rp)
	}
	c.Eval(fmt.Sprintf("label|%s|%s|%d|%d", l, o, tweak, i), true)
	c.Hist("label-ops")
	c.Case(L(I(7), c06LW(l), c06LW(o), U64(uint64(tweak)), I(i), Bytes(data)), L(obs...))
}

// ---------------------------------------------------------------------------
// CO wire format

type c06WireLog struct {
	mu   sync.Mutex
	msgs []SX
	raw  [][]byte
	dirs []bool
}

type c06WireTap struct {
	ot.IO
	log *c06WireLog
	dir bool // true: the OT receiver's end
}

func (t *c06WireTap) SendData(val []byte) error {
	t.log.mu.Lock()
	t.log.msgs = append(t.log.msgs, L(Bool(t.dir), Bytes(val)))
	t.log.raw = append(t.log.raw, append([]byte(nil), val...))
	t.log.dirs = append(t.log.dirs, t.dir)
	t.log.mu.Unlock()
	return t.IO.SendData(val)
}

func c06COWire(c *Ctx, r *RNG, n int, pattern string) error {
	curve := elliptic.P256()
	b := c06MkBatch(r, n, pattern)
	rS, rR := r.Fork(), r.Fork()
	cpS, cpR := *rS, *rR
	snd, rcv := ot.NewCO(rS), ot.NewCO(rR)
	p0, p1 := ot.NewPipe()
	log := &c06WireLog{}
	sIO := &c06WireTap{IO: p0, log: log, dir: false}
	rIO := &c06WireTap{IO: p1, log: log, dir: true}
	errs := make(chan error, 2)
	go func() {
		if err := snd.InitSender(sIO); err != nil {
			errs <- err
			return
		}
		errs <- snd.Send(b.wires)
	}()
	go func() {
		if err := rcv.InitReceiver(rIO); err != nil {
			errs <- err
			return
		}
		errs <- rcv.Receive(b.flags, b.result)
	}()
	name := fmt.Sprintf("co-wire-n%d-%s", n, pattern)
	rp := c06Replay{Seed: c.Seed, Case: name, Impl: "co", N: n, Pattern: pattern}
	for k := 0; k < 2; k++ {
		select {
		case err := <-errs:
			if err != nil {
				p0.Close()
				p1.Close()
				rp.Detail = err.Error()
				c.Fail("c06:co-wire:error", "CO session failed on honest inputs", rp)
				return nil
			}
		case <-time.After(60 * time.Second):
			p0.Close()
			p1.Close()
			c.Fail("c06:co-wire:hang", "CO session did not finish", rp)
			return nil
		}
	}
	// the OT relation
	for i := 0; i < n; i++ {
		exp := b.wiresIn[i].L0
		if b.flags[i] {
			exp = b.wiresIn[i].L1
		}
		if !b.result[i].Equal(exp) {
			rp.First = i
			c.Fail("c06:co-wire:wrong-label:"+c06Class(n), "CO.Receive is not the chosen label", rp)
			break
		}
	}
	// the values, from the pure helpers on copies of the two random streams
	setup, err := ot.GenerateCOSenderSetup(&cpS, curve)
	if err != nil {
		return err
	}
	_, points, err := ot.BuildCOChoices(&cpR, curve, setup.Ax, setup.Ay, b.flags)
	if err != nil {
		return err
	}
	cts, err := ot.EncryptCOCiphertexts(curve, setup, points, append([]ot.Wire(nil), b.wiresIn...))
	if err != nil {
		return err
	}
	pts := make([]SX, n)
	ct := make([]SX, n)
	pre := make([]SX, 0, 2*n)
	var obsPre []SX
	aBytes := setup.Scalar.Bytes()
	for i := 0; i < n; i++ {
		pts[i] = L(Big(points[i].X), Big(points[i].Y))
		var z, o ot.Label
		z.SetBytes(cts[i].Zero[:])
		o.SetBytes(cts[i].One[:])
		ct[i] = L(c06LW(z), c06LW(o))
		// deriveMask input of the sender's zero mask, tied to the wire: the
		// SHA-256 of these bytes xor L0 must be the Zero payload the real
		// CO.Send wrote
		bx, by := curve.ScalarMult(points[i].X, points[i].Y, aBytes)
		var idb [8]byte
		binary.BigEndian.PutUint64(idb[:], uint64(i))
		in := append(append(append([]byte(nil), bx.Bytes()...), by.Bytes()...), idb[:]...)
		sum := sha256.Sum256(in)
		var ld ot.LabelData
		b.wiresIn[i].L0.GetData(&ld)
		for k := 0; k < 16; k++ {
			ld[k] ^= sum[k]
		}
		idx := 3 + 2*n + 2*i
		if idx >= len(log.raw) || !bytes.Equal(ld[:], log.raw[idx]) {
			return fmt.Errorf("%s: SHA-256(x ‖ y ‖ be64(%d)) xor L0 is not the Zero payload on the wire", name, i)
		}
		pre = append(pre, L(Big(bx), Big(by), I(i)))
		obsPre = append(obsPre, Bytes(in))
	}
	c.Eval(fmt.Sprintf("co-wire|%d|%s|%x", n, pattern, log.raw[1]), true)
	c.Hist("co-wire:" + c06Bucket(n))
	c.Case(L(I(8), Bytes([]byte(curve.Params().Name)), L(Big(setup.Ax), Big(setup.Ay)), L(pts...), L(ct...), L(pre...)),
		L(L(log.msgs...), L(obsPre...)))
	return nil
}

func c06Ext(c *Ctx) error {
	// (a) label helpers: boundary labels x boundary partners, then random ones
	r := c.rng.Fork()
	words := []uint64{0, 1, 2, 3, 0x8000000000000000, 0x4000000000000000, 0xc000000000000000,
		0x7fffffffffffffff, 0xffffffffffffffff, 0x00000000ffffffff, 0xffffffff00000000, 0x0123456789abcdef}
	tweaks := []uint32{0, 1, 0x7fffffff, 0x80000000, 0xffffffff}
	idxs := []int{0, 1, 62, 63, 64, 65, 126, 127}
	k := 0
	for _, d0 := range words {
		for _, d1 := range words {
			l := ot.Label{D0: d0, D1: d1}
			o := ot.Label{D0: words[(k*5+3)%len(words)], D1: words[(k*7+1)%len(words)]}
			if k%11 == 0 {
				o = l
			}
			data := r.Bytes(16 + k%5)
			if k%6 == 0 {
				for j := range data {
					data[j] = []byte{0, 0xff, 0x80, 1}[(k/6+j/8)%4]
				}
			}
			c06LabelCase(c, l, o, tweaks[k%len(tweaks)], idxs[k%len(idxs)], data)
			k++
		}
	}
	nRand := c.N(120, 5000)
	for j := 0; j < nRand; j++ {
		l, _ := ot.NewLabel(r)
		o, _ := ot.NewLabel(r)
		c06LabelCase(c, l, o, uint32(r.U64()), r.Intn(128), r.Bytes(16+r.Intn(8)))
	}
	// (b) CO sessions on the wire
	sizes := []int{1, 2, 3, 8, 17}
	if c.Thorough() {
		sizes = append(sizes, 64, 129, 300)
	}
	for _, n := range sizes {
		for _, p := range c06Patterns {
			if err := c06COWire(c, c.rng.Fork(), n, p); err != nil {
				return err
			}
		}
	}
	return nil
}
