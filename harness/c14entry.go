package main

// C14, entry points: every exported way to WRITE a circuit (Circuit.Marshal, MarshalBristol,
// MarshalFormat with every accepted format string and with unknown ones, Params.CircOut +
// CircFormat through a real compile) crossed with every exported way to READ one
// (ParseMPCLC / ParseBristol on an io.Reader, circuit.Parse(file) by suffix, IsFilename),
// into destinations that do not hide an unflushed tail (plain buffer, byte-counting writer,
// caller-buffered writer, real temp file under the run directory).
// Not driven: the `garbled -circ -format` command line (apps/garbled/compile.go calls the same
// Circuit.MarshalFormat(params.CircOut, params.CircFormat) as compiler/ssa/circuitgen.go, which
// is driven here); Circuit.Dot / Svg / Tabulate output is not parseable and is excluded.

import (
	"bufio"
	"bytes"
	"fmt"
	"io"
	"os"
	"path/filepath"

	"github.com/markkurossi/mpc/circuit"
	"github.com/markkurossi/mpc/compiler"
	"github.com/markkurossi/mpc/compiler/utils"
)

// countingWriter has no buffer of its own: what is not written to it is lost.
type countingWriter struct {
	buf    bytes.Buffer
	writes int
}

func (w *countingWriter) Write(p []byte) (int, error) {
	w.writes++
	return w.buf.Write(p)
}

type nopCloser struct{ io.Writer }

func (nopCloser) Close() error { return nil }

var c14FormatNames = []string{"mpclc", "bristol"}
var c14BadFormats = []string{"", "MPCLC", "Bristol", "circ", "mpcl", "bristol ", "json"}
var c14Suffix = map[int][]string{0: {".mpclc"}, 1: {".bristol", ".circ"}}

var c14EntryPrograms = []string{
	"package main\nfunc main(a, b uint8) uint8 {\n\treturn a + b\n}\n",
	"package main\nfunc main(a uint5, b uint3) (uint6, bool) {\n\treturn uint6(a) + uint6(b), uint5(b) < a\n}\n",
	"package main\nfunc main(a, b uint16) (uint16, uint16) {\n\treturn a * b, a ^ b\n}\n",
	"package main\nfunc main(a, b int32) int32 {\n\tif a > b {\n\t\treturn a - b\n\t}\n\treturn b * a\n}\n",
}

type c14EntryReplay struct {
	Seed    uint64 `json:"seed"`
	Case    int    `json:"case"`
	Writer  string `json:"writer"`
	Reader  string `json:"reader"`
	Format  string `json:"format"`
	Circuit string `json:"circuit"`
	Want    int    `json:"bytes_expected"`
	Got     int    `json:"bytes_written"`
	Detail  string `json:"detail"`
}

// c14EntryPoints runs the writer x reader family for one circuit.
func c14EntryPoints(c *Ctx, caseNo int, circ *circuit.Circuit, kind string) {
	dir := filepath.Join(c.OutDir, "c14files")
	os.MkdirAll(dir, 0o755)
	desc := circuitText(circ)
	if len(desc) > 400 {
		desc = desc[:400] + "..."
	}
	fail := func(writer, reader, format, reason string, want, got int, detail string) {
		c.Fail(fmt.Sprintf("c14:roundtrip:%s:%s:%s", writer, reader, reason),
			fmt.Sprintf("circuit written by %s (format %q) and read by %s: %s (%s; %s)", writer, format, reader, reason, detail, kind),
			c14EntryReplay{Seed: c.Seed, Case: caseNo, Writer: writer, Reader: reader, Format: format, Circuit: desc, Want: want, Got: got, Detail: detail})
	}
	// reference bytes of the two plain marshallers
	ref := [][]byte{c14Marshal(0, circ), c14Marshal(1, circ)}

	// ---- readers applied to what one writer produced
	readAll := func(writer string, f int, bs []byte, path string) {
		check := func(reader string, c2 *circuit.Circuit, err error) {
			c.Eval(fmt.Sprintf("e|%s|%s|%x", writer, reader, bs), true)
			c.Hist("entry:" + writer + "->" + reader)
			if err != nil {
				fail(writer, reader, c14FormatNames[f], "parse-error", len(ref[f]), len(bs), err.Error())
				return
			}
			if d := c14SameCircuit(f, circ, c2); d != "" {
				fail(writer, reader, c14FormatNames[f], "differs-"+d, len(ref[f]), len(bs), d)
				return
			}
			if !bytes.Equal(c14Marshal(f, c2), ref[f]) {
				fail(writer, reader, c14FormatNames[f], "second-write-differs", len(ref[f]), len(bs), "write(parse(write(c))) != write(c)")
			}
		}
		o := c14Parse(f, bs) // ParseMPCLC / ParseBristol on an io.Reader, under recover
		if o.class() == 2 || o.class() == 4 {
			fail(writer, c14Fmt[f], c14FormatNames[f], "panic", len(ref[f]), len(bs), o.pmsg)
		} else {
			check(c14Fmt[f], o.c, o.err)
		}
		if path != "" {
			for _, suf := range c14Suffix[f] {
				p := path + suf
				if err := os.WriteFile(p, bs, 0o644); err != nil {
					continue
				}
				if !circuit.IsFilename(p) {
					fail(writer, "IsFilename", c14FormatNames[f], "suffix-not-recognised", 0, 0, suf)
				}
				c2, err := circuit.Parse(p)
				check("Parse("+suf+")", c2, err)
				os.Remove(p)
			}
		}
	}

	// ---- writers
	for f := 0; f < 2; f++ {
		name := c14FormatNames[f]
		plain := []string{"Marshal", "MarshalBristol"}[f]
		readAll(plain, f, ref[f], filepath.Join(dir, fmt.Sprintf("c%d-plain", caseNo)))

		type dest struct {
			name string
			run  func() ([]byte, error)
		}
		path := filepath.Join(dir, fmt.Sprintf("c%d-mf", caseNo))
		dests := []dest{
			{"buffer", func() ([]byte, error) {
				var b bytes.Buffer
				err := circ.MarshalFormat(&b, name)
				return b.Bytes(), err
			}},
			{"counting", func() ([]byte, error) {
				var w countingWriter
				err := circ.MarshalFormat(&w, name)
				return w.buf.Bytes(), err
			}},
			{"caller-bufio", func() ([]byte, error) {
				var b bytes.Buffer
				w := bufio.NewWriterSize(&b, 64)
				err := circ.MarshalFormat(w, name)
				w.Flush() // the caller flushes its own buffer, nothing else
				return b.Bytes(), err
			}},
			{"file", func() ([]byte, error) {
				fh, err := os.Create(path + ".tmp")
				if err != nil {
					return nil, err
				}
				err = circ.MarshalFormat(fh, name)
				fh.Close()
				bs, _ := os.ReadFile(path + ".tmp")
				os.Remove(path + ".tmp")
				return bs, err
			}},
		}
		for _, d := range dests {
			writer := fmt.Sprintf("MarshalFormat(%s)->%s", name, d.name)
			bs, err := d.run()
			if err != nil {
				fail(writer, "-", name, "write-error", len(ref[f]), len(bs), err.Error())
				continue
			}
			if !bytes.Equal(bs, ref[f]) {
				fail(writer, "-", name, "bytes-differ-from-"+plain, len(ref[f]), len(bs),
					fmt.Sprintf("%d of %d bytes arrived at the destination", len(bs), len(ref[f])))
			}
			readAll(writer, f, bs, path)
			if d.name == "buffer" && len(bs) <= 20000 {
				// correspondence: the dispatcher of the model
				c.Case(L(I(3), Bytes([]byte(name)), c14CircSX(circ)), L(I(0), Bytes(bs)))
			}
		}
	}
	// unknown format strings: an error and nothing written
	for _, bad := range c14BadFormats {
		var w countingWriter
		err := circ.MarshalFormat(&w, bad)
		c.Eval(fmt.Sprintf("e|bad|%s|%s", bad, desc), true)
		if err == nil || w.buf.Len() != 0 {
			fail(fmt.Sprintf("MarshalFormat(%q)", bad), "-", bad, "unknown-format-accepted", 0, w.buf.Len(), fmt.Sprint(err))
		}
		if len(desc) < 300 {
			c.Case(L(I(3), Bytes([]byte(bad)), c14CircSX(circ)), L(I(1)))
		}
	}
}

// c14EntryFiles: reader-side entry points that do not depend on a circuit.
func c14EntryFiles(c *Ctx, valid []byte) {
	dir := filepath.Join(c.OutDir, "c14files")
	os.MkdirAll(dir, 0o755)
	for _, suf := range []string{".txt", "", ".mpcl", ".MPCLC", ".bristol.bak"} {
		p := filepath.Join(dir, "unknown"+suf)
		os.WriteFile(p, valid, 0o644)
		if circuit.IsFilename(p) {
			c.Fail("c14:roundtrip:-:IsFilename:unknown-suffix-recognised", "IsFilename accepts "+suf, c14EntryReplay{Seed: c.Seed, Reader: "IsFilename", Detail: suf})
		}
		c2, err := circuit.Parse(p)
		c.Eval("e|unknown-suffix|"+suf, true)
		if err == nil || c2 != nil {
			c.Fail("c14:roundtrip:-:Parse(unknown-suffix):accepted", "circuit.Parse accepts a file with suffix "+suf, c14EntryReplay{Seed: c.Seed, Reader: "Parse", Detail: suf})
		}
		os.Remove(p)
	}
	for _, suf := range []string{".mpclc", ".bristol", ".circ"} {
		if !circuit.IsFilename("x" + suf) {
			c.Fail("c14:roundtrip:-:IsFilename:suffix-not-recognised", "IsFilename rejects "+suf, c14EntryReplay{Seed: c.Seed, Reader: "IsFilename", Detail: suf})
		}
		if c2, err := circuit.Parse(filepath.Join(dir, "does-not-exist"+suf)); err == nil || c2 != nil {
			c.Fail("c14:roundtrip:-:Parse(missing-file):accepted", "circuit.Parse of a missing file returns no error", c14EntryReplay{Seed: c.Seed, Reader: "Parse", Detail: suf})
		}
	}
}

// c14EntryCompile: Params.CircOut + Params.CircFormat through a real compile
// (compiler/ssa/circuitgen.go); what arrives in CircOut must be the circuit the compiler
// returns, in that format, and must parse back to it.
func c14EntryCompile(c *Ctx, caseNo int) {
	dir := filepath.Join(c.OutDir, "c14files")
	os.MkdirAll(dir, 0o755)
	for pi, src := range c14EntryPrograms {
		for f := 0; f < 2; f++ {
			for _, toFile := range []bool{false, true} {
				name := c14FormatNames[f]
				writer := fmt.Sprintf("Compile(CircOut,CircFormat=%s)", name)
				params := utils.NewParams()
				var w countingWriter
				path := filepath.Join(dir, fmt.Sprintf("compile%d-%d", caseNo, pi))
				if toFile {
					writer += "->file"
					fh, err := os.Create(path + ".out")
					if err != nil {
						continue
					}
					params.CircOut = fh
				} else {
					params.CircOut = nopCloser{&w}
				}
				params.CircFormat = name
				circ, _, err := compiler.New(params).Compile(src, nil)
				params.Close() // closes CircOut, as apps/garbled does
				var bs []byte
				if toFile {
					bs, _ = os.ReadFile(path + ".out")
					os.Remove(path + ".out")
				} else {
					bs = w.buf.Bytes()
				}
				c.Eval(fmt.Sprintf("e|compile|%d|%s|%v", pi, name, toFile), true)
				c.Hist("entry:" + writer)
				rp := c14EntryReplay{Seed: c.Seed, Case: caseNo, Writer: writer, Format: name, Circuit: src, Got: len(bs)}
				if err != nil {
					rp.Detail = err.Error()
					c.Fail("c14:roundtrip:"+writer+":-:compile-error", "compile with CircOut failed: "+err.Error(), rp)
					continue
				}
				want := c14Marshal(f, circ)
				rp.Want = len(want)
				if !bytes.Equal(bs, want) {
					rp.Detail = fmt.Sprintf("%d of %d bytes arrived in CircOut", len(bs), len(want))
					c.Fail("c14:roundtrip:"+writer+":-:bytes-differ", "Params.CircOut does not hold the marshalled circuit: "+rp.Detail, rp)
				}
				o := c14Parse(f, bs)
				rp.Reader = c14Fmt[f]
				switch {
				case o.class() != 0:
					rp.Detail = o.className() + " " + fmt.Sprint(o.err) + o.pmsg
					c.Fail("c14:roundtrip:"+writer+":"+c14Fmt[f]+":parse-error", "the file written through Params.CircOut does not parse back: "+rp.Detail, rp)
				case c14SameCircuit(f, circ, o.c) != "":
					rp.Detail = c14SameCircuit(f, circ, o.c)
					c.Fail("c14:roundtrip:"+writer+":"+c14Fmt[f]+":differs", "the file written through Params.CircOut parses to a different circuit: "+rp.Detail, rp)
				}
			}
		}
	}
}
