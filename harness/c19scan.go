package main

// C19 timing inventory.  Proto/Mesh.v has no notion of time: a schedule may
// leave any delay between two steps, so C19_complete covers every timing in
// which the parties start — provided the implementation's mesh-formation path
// has no timer.  This scan (go/parser, no type checking) lists every use of
// package time / context and every deadline/timeout call in p2p/network.go and
// p2p/peer.go; the harness compares it with the list the model was written
// against (today: none).

import (
	"fmt"
	"go/ast"
	"go/parser"
	"go/token"
	"os"
	"path/filepath"
	"sort"
	"strconv"
)

var c19TimerNames = map[string]bool{
	"SetDeadline": true, "SetReadDeadline": true, "SetWriteDeadline": true,
	"After": true, "AfterFunc": true, "NewTimer": true, "NewTicker": true, "Tick": true, "Sleep": true,
	"WithTimeout": true, "WithDeadline": true, "DialTimeout": true, "SetKeepAlive": true, "SetKeepAlivePeriod": true,
}

func c19TimingInventory(repo string) ([]string, error) {
	var inv []string
	fset := token.NewFileSet()
	for _, fn := range []string{"network.go", "peer.go"} {
		f, err := parser.ParseFile(fset, filepath.Join(repo, "p2p", fn), nil, 0)
		if err != nil {
			return nil, err
		}
		for _, im := range f.Imports {
			if p, _ := strconv.Unquote(im.Path.Value); p == "time" || p == "context" {
				inv = append(inv, fmt.Sprintf("%s:import:%s", fn, p))
			}
		}
		for _, d := range f.Decls {
			where := fn + ":package"
			if fd, ok := d.(*ast.FuncDecl); ok {
				where = fn + ":" + fd.Name.Name
			}
			ast.Inspect(d, func(nd ast.Node) bool {
				switch nd := nd.(type) {
				case *ast.SelectorExpr:
					if id, ok := nd.X.(*ast.Ident); ok && id.Obj == nil && (id.Name == "time" || id.Name == "context") {
						inv = append(inv, fmt.Sprintf("%s:%s.%s", where, id.Name, nd.Sel.Name))
					} else if c19TimerNames[nd.Sel.Name] {
						inv = append(inv, fmt.Sprintf("%s:call:%s", where, nd.Sel.Name))
					}
				case *ast.KeyValueExpr:
					if id, ok := nd.Key.(*ast.Ident); ok && (id.Name == "Timeout" || id.Name == "Deadline" || id.Name == "KeepAlive") {
						inv = append(inv, fmt.Sprintf("%s:field:%s", where, id.Name))
					}
				}
				return true
			})
		}
	}
	// thread-creation order in connectPeer: the joiner's accept goroutine is started AFTER the
	// sync with the leader (connectPeerToLeader sets need[]); Proto/Mesh.v creates the
	// accept thread at that step
	if f, err := parser.ParseFile(fset, filepath.Join(repo, "p2p", "network.go"), nil, 0); err == nil {
		for _, d := range f.Decls {
			fd, ok := d.(*ast.FuncDecl)
			if !ok || fd.Name.Name != "connectPeer" || fd.Body == nil {
				continue
			}
			var posGo, posSync token.Pos
			ast.Inspect(fd.Body, func(nd ast.Node) bool {
				switch nd := nd.(type) {
				case *ast.GoStmt:
					if sel, ok := nd.Call.Fun.(*ast.SelectorExpr); ok && sel.Sel.Name == "accept" && posGo == 0 {
						posGo = nd.Pos()
					}
				case *ast.CallExpr:
					if sel, ok := nd.Fun.(*ast.SelectorExpr); ok && sel.Sel.Name == "connectPeerToLeader" && posSync == 0 {
						posSync = nd.Pos()
					}
				}
				return true
			})
			switch {
			case posGo == 0 || posSync == 0:
				inv = append(inv, "network.go:connectPeer:order:go-accept-or-connectPeerToLeader-not-found")
			case posSync < posGo:
				inv = append(inv, "network.go:connectPeer:order:connectPeerToLeader-before-go-accept")
			default:
				inv = append(inv, "network.go:connectPeer:order:go-accept-before-connectPeerToLeader")
			}
		}
	}
	sort.Strings(inv)
	var out []string
	for i, s := range inv {
		if i == 0 || s != inv[i-1] {
			out = append(out, s)
		}
	}
	return out, nil
}

// the timers on the mesh-formation path that the model was written against
var c19ExpectedTiming = []string{
	"network.go:connectPeer:order:connectPeerToLeader-before-go-accept",
}

func c19CheckTiming(c *Ctx) {
	repo := os.Getenv("VERIF_REPO")
	if repo == "" {
		repo = "/repo"
	}
	inv, err := c19TimingInventory(repo)
	if err != nil {
		c.Fail("c19:timing-inventory:scan-failed", err.Error(), map[string]interface{}{"repo": repo})
		return
	}
	exp := map[string]bool{}
	for _, s := range c19ExpectedTiming {
		exp[s] = true
	}
	for _, s := range inv {
		c.Eval("timing/"+s, false)
		if !exp[s] {
			if containsStr(s, ":order:") {
				c.Fail("c19:thread-creation-order:unmodelled:"+s,
					"connectPeer starts the accept goroutine at another point than Proto/Mesh.v (which creates the joiner's accept thread after the sync with the leader has set need[]): "+s,
					map[string]interface{}{"repo": repo, "inventory": inv, "expected": c19ExpectedTiming})
				continue
			}
			c.Fail("c19:timing-inventory:unmodelled:"+s,
				"p2p mesh formation uses a timer / deadline that the model of Proto/Mesh.v does not have (time is not modelled: C19_complete covers every delay between two steps, so a bound on a delay is behaviour outside the model): "+s,
				map[string]interface{}{"repo": repo, "inventory": inv, "expected": c19ExpectedTiming})
		}
	}
	c.Hist(fmt.Sprintf("timing-inventory-items:%d", len(inv)))
}
