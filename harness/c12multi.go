package main

// C12, second part: SEVERAL folded constants in ONE program.
//
// ssa.Generator.Constant names a constant "$" + mpa.Int.String(); that name is
// the only key of the program's constant table (gen.constants) and of the wire
// allocator (Value.Equal / HashCode).  Two folded constants with the same name
// share one table entry and one wire vector (the first registered wins); a
// consumer whose constant has another Type.Bits truncates / zero-extends /
// sign-extends (TInt) those wires (ssa/circuitgen.go Program.Circuit).  Each
// folded expression alone is right, so only programs with 2..4 folded
// expressions of DIFFERENT declared widths / signedness can show what "the rest
// of the program" sees.  Every expression is inside the proved class
// (Fold.fold_exact_class, or fold_ok_class for the as-is consumer of widths
// below 32), so the known single-expression findings cannot mask anything.
//
// Correspondence: run_c12 (constant-table layer of Lang/Fold.v: interning by
// name, lookup + extension rule) must predict the constant names in the SSA
// listing and every output, for the constant and the run-time variant.
// Oracle: every output of the constant variant equals the run-time variant's.

import (
	"fmt"
	"math/big"
	"strings"
)

type c12Item struct {
	k, n   int
	op     int
	a, b   *big.Int // operand values (signed), b = count for shifts
	cons   int      // 0 as is, 1 p + x, 2 p < x, 3 x >> 1
	pv     *big.Int // the consumer's run-time operand
	val    *big.Int // the value the fold must have (unsigned n-bit pattern), filled from the run-time variant
	origin string
}

var c12MultiCons = []string{"asis", "additive", "comparing", "shifting"}

func (it *c12Item) exprs(i int) (*c12Expr, *c12Expr) {
	an, bn := fmt.Sprintf("a%d", i), fmt.Sprintf("b%d", i)
	if it.op == 9 || it.op == 10 {
		lit := c12LitE(it.b)
		return c12BinE(it.op, c12Operand(it.k, it.n, it.a, 0), lit),
			c12BinE(it.op, c12InE(an, it.k, it.n, it.a), lit)
	}
	return c12BinE(it.op, c12Operand(it.k, it.n, it.a, 0), c12Operand(it.k, it.n, it.b, 0)),
		c12BinE(it.op, c12InE(an, it.k, it.n, it.a), c12InE(bn, it.k, it.n, it.b))
}

// is the fold inside the class the Coq theorems cover for this consumer?
func (it *c12Item) inClass() bool {
	m := c12Meta{code: it.op, k: it.k, n: it.n, a: it.a, b: it.b}
	cls := m.class()
	if it.cons == 0 {
		return cls >= 1
	}
	return cls == 2
}

// c12MultiProgram renders
//   func main(p0 T0, p1 T1, ...[, a0 T0, b0 T0, ...]) (R0, R1, ...) {
//       x0 := E0 ; x1 := E1 ; ... ; return C0, C1, ...  }
func c12MultiProgram(items []*c12Item, runtime bool) (string, []*big.Int, SX) {
	var decl, rets, stmts, outs []string
	var vals []*big.Int
	var sxItems []SX
	for i, it := range items {
		decl = append(decl, fmt.Sprintf("p%d %s", i, c12TypeName(it.k, it.n)))
		vals = append(vals, c12Unsigned(it.pv, it.n))
	}
	for i, it := range items {
		ec, ed := it.exprs(i)
		e := ec
		if runtime {
			e = ed
			decl = append(decl, fmt.Sprintf("a%d %s", i, c12TypeName(it.k, it.n)), fmt.Sprintf("b%d %s", i, c12TypeName(it.k, it.n)))
			bv := it.b
			if it.op == 9 || it.op == 10 {
				bv = big.NewInt(0)
			}
			vals = append(vals, c12Unsigned(it.a, it.n), c12Unsigned(bv, it.n))
		}
		stmts = append(stmts, fmt.Sprintf("\tx%d := %s\n", i, e.src()))
		rt := c12TypeName(it.k, it.n)
		var use string
		switch it.cons {
		case 0:
			use = fmt.Sprintf("x%d", i)
		case 1:
			use = fmt.Sprintf("p%d + x%d", i, i)
		case 2:
			use = fmt.Sprintf("p%d < x%d", i, i)
			rt = "bool"
		case 3:
			use = fmt.Sprintf("x%d >> 1", i)
		}
		rets = append(rets, rt)
		outs = append(outs, use)
		sxItems = append(sxItems, L(I(it.k), I(it.n), e.sx(), I(it.cons), Big(c12Unsigned(it.pv, it.n))))
	}
	src := "package main\nfunc main(" + strings.Join(decl, ", ") + ") (" + strings.Join(rets, ", ") + ") {\n" +
		strings.Join(stmts, "") + "\treturn " + strings.Join(outs, ", ") + "\n}\n"
	variant := 0
	if runtime {
		variant = 1
	}
	return src, vals, L(I(9), I(variant), L(sxItems...))
}

func c12MultiOutcomeSX(o c12Outcome, withNames bool) SX {
	if o.kind != 0 {
		return L(I(o.kind), I(o.class))
	}
	var ns, vs []SX
	if withNames {
		for _, n := range o.names {
			ns = append(ns, Big(n))
		}
	}
	for _, v := range o.vals {
		vs = append(vs, Big(v))
	}
	return L(I(0), L(ns...), L(vs...))
}

// a fold of declared type k/n whose value has the n-bit pattern v (unsigned)
func c12FoldFor(r *RNG, k, n int, v *big.Int, origin string) []*c12Item {
	var out []*c12Item
	add := func(op int, a, b *big.Int) {
		out = append(out, &c12Item{k: k, n: n, op: op, a: a, b: b, origin: origin})
	}
	sv := v // signed reading
	if k == 0 && v.Bit(n-1) == 1 {
		sv = new(big.Int).Sub(v, c12Pow(n))
	}
	if sv.Sign() >= 0 {
		half := n / 2
		if half < 1 {
			half = 1
		}
		lo := new(big.Int).Mod(sv, c12Pow(half))
		hi := new(big.Int).Sub(sv, lo)
		add(6, hi, lo)                                  // hi | lo
		add(7, new(big.Int).Xor(sv, lo), lo)            // (v ^ lo) ^ lo
		if n <= 64 || sv.BitLen() >= n-1 {
			add(1, sv, big.NewInt(0)) // v - 0
		}
	} else {
		add(6, sv, big.NewInt(0)) // (-T(x)) | T(0)
		add(5, sv, big.NewInt(-1))
	}
	if k == 1 && n <= 64 {
		// all-ones style patterns through wrap-around subtraction: 0 - x
		x := new(big.Int).Sub(c12Pow(n), v)
		if x.Sign() > 0 && x.Cmp(c12Pow(n)) < 0 {
			add(1, big.NewInt(0), x)
		}
	}
	if v.Bit(0) == 0 && v.Sign() > 0 && sv.Sign() >= 0 {
		add(9, new(big.Int).Rsh(sv, 1), big.NewInt(1)) // (v>>1) << 1
	}
	var ok []*c12Item
	for _, it := range out {
		if c12Reprb(k, n, it.a) && ((it.op == 9 || it.op == 10) || c12Reprb(k, n, it.b)) {
			ok = append(ok, it)
		}
	}
	return ok
}

// shape of the relation between two n-bit patterns of different types
func c12PairShape(x, y *c12Item) string {
	if x.val == nil || y.val == nil {
		return "unknown"
	}
	lo, hi := x, y
	if lo.n > hi.n {
		lo, hi = hi, lo
	}
	switch {
	case lo.val.Cmp(hi.val) == 0:
		return "equal-values"
	case new(big.Int).Mod(hi.val, c12Pow(lo.n)).Cmp(lo.val) == 0 && lo.n < hi.n:
		ext := new(big.Int).Sub(c12Pow(hi.n), c12Pow(lo.n))
		if lo.val.Bit(lo.n-1) == 1 && new(big.Int).Add(lo.val, ext).Cmp(hi.val) == 0 {
			return "sign-extension-coincides"
		}
		return "truncation-coincides"
	}
	return "unrelated"
}

type c12MultiReplay struct {
	Seed     uint64   `json:"seed"`
	Const    string   `json:"constant_variant"`
	Runtime  string   `json:"runtime_variant"`
	Inputs   []string `json:"runtime_inputs"`
	ConstGot []string `json:"constant_variant_results"`
	RunGot   []string `json:"runtime_variant_results"`
	Names    []string `json:"constant_names_in_ssa"`
	Item     int      `json:"failing_result"`
}

func runC12Multi(c *Ctx) {
	r := c.rng.Fork()
	type tp struct{ k, n int }
	exact := []tp{{1, 32}, {0, 32}, {1, 64}, {0, 64}, {1, 65}, {0, 128}, {1, 128}}
	narrow := []tp{{1, 8}, {1, 16}, {0, 8}, {0, 16}}
	if c.Thorough() {
		exact = append(exact, tp{0, 65}, tp{1, 127}, tp{0, 129}, tp{1, 130})
		narrow = append(narrow, tp{1, 7}, tp{0, 9}, tp{1, 31}, tp{0, 31})
	}
	nProg, nFail := 0, 0

	runProgram := func(items []*c12Item, label string) {
		for _, it := range items {
			if !it.inClass() {
				c.Hist("multi:skipped-not-in-class")
				return
			}
		}
		srcC, inC, sxC := c12MultiProgram(items, false)
		srcD, inD, sxD := c12MultiProgram(items, true)
		oc := c12RunN(srcC, inC, len(items))
		od := c12RunN(srcD, inD, len(items))
		nProg++
		c.Case(sxC, c12MultiOutcomeSX(oc, true))
		c.Case(sxD, c12MultiOutcomeSX(od, false))
		c.Hist("multi:" + label)
		c.Hist(fmt.Sprintf("multi:items:%d", len(items)))
		c.Eval(srcC, oc.kind == 0 && od.kind == 0)
		if od.kind == 0 {
			for i, it := range items {
				if it.cons == 0 {
					it.val = od.vals[i]
				}
			}
		}
		str := func(vs []*big.Int) []string {
			var o []string
			for _, v := range vs {
				o = append(o, "0x"+v.Text(16))
			}
			return o
		}
		dec := func(vs []*big.Int) []string {
			var o []string
			for _, v := range vs {
				o = append(o, "$"+v.String())
			}
			return o
		}
		rp := c12MultiReplay{Seed: c.Seed, Const: srcC, Runtime: srcD, Inputs: str(inD),
			ConstGot: str(oc.vals), RunGot: str(od.vals), Names: dec(oc.names)}
		var types []string
		for _, it := range items {
			types = append(types, c12TypeName(it.k, it.n)+"."+c12MultiCons[it.cons])
		}
		base := "c12:two-folded-constants-one-program:"
		switch {
		case oc.kind == 2:
			nFail++
			c.Fail(base+label+":"+strings.Join(types, "+")+":panic", "compiler panics on a program with several folded constants ("+oc.text+")", rp)
		case od.kind != 0:
			c.Hist("multi:runtime-variant-rejected")
			c.Note("multi: run-time variant rejected: %s: %s", od.text, strings.ReplaceAll(srcD, "\n", " | "))
		case oc.kind == 1:
			nFail++
			c.Fail(base+label+":"+strings.Join(types, "+")+":compile-error", "constant variant rejected ("+oc.text+")", rp)
		default:
			for i := range items {
				if oc.vals[i].Cmp(od.vals[i]) == 0 {
					continue
				}
				nFail++
				rp.Item = i
				// F6k (true of /repo today): an EARLIER registered folded constant has the
				// same value, fewer wires and its top wire set, and this consumer's
				// constant is a wider intN: the shared wires are sign-extended.
				known := false
				it := items[i]
				for j := 0; j < i; j++ {
					e := items[j]
					ev := new(big.Int).Mod(c12Unsigned(c12ItemValue(e), e.n), c12Pow(e.n))
					iv := c12Unsigned(c12ItemValue(it), it.n)
					ew := e.n
					if ew < 32 {
						ew = 32
					}
					same := ev.Cmp(iv) == 0
					if it.cons == 3 { // the nested fold x >> 1 is a constant of its own
						same = same || ev.Cmp(new(big.Int).Rsh(iv, 1)) == 0
					}
					if it.k == 0 && ew < it.n && same && ev.Bit(ew-1) == 1 {
						known = true
					}
				}
				key := base + label + ":" + strings.Join(types, "+") + fmt.Sprintf(":result%d:wrong-value", i)
				if known {
					key = base + "F6k-wider-int-after-narrower-equal-value-with-top-bit:" + strings.Join(types, "+")
				}
				c.Fail(key, fmt.Sprintf("result %d of the constant variant is 0x%s, the run-time variant gives 0x%s; constant names in the SSA listing: %v",
					i, oc.vals[i].Text(16), od.vals[i].Text(16), dec(oc.names)), rp)
			}
		}
	}

	// pick a fold for pattern v at type t with consumer cons
	mk := func(t tp, v *big.Int, cons int, origin string) *c12Item {
		fs := c12FoldFor(r, t.k, t.n, v, origin)
		var ok []*c12Item
		for _, f := range fs {
			f.cons = cons
			if t.n < 32 {
				f.cons = 0
			}
			if f.cons == 3 {
				// the nested fold x >> 1 must itself be in the class
				sv := c12Signed(t.k, t.n, v)
				if !(sv.Sign() >= 0 && (t.n > 64 || sv.Cmp(c12Pow(63)) < 0)) {
					f.cons = 1
				}
			}
			f.pv = c12Rand(r, t.n)
			if f.inClass() {
				ok = append(ok, f)
			}
		}
		if len(ok) == 0 {
			return nil
		}
		return ok[r.Intn(len(ok))]
	}
	pair := func(t1 tp, v1 *big.Int, t2 tp, v2 *big.Int, label string) {
		reps := c.N(2, 4)
		for rep := 0; rep < reps; rep++ {
			c1 := (rep + r.Intn(4)) % 4
			c2 := r.Intn(4)
			x := mk(t1, v1, c1, label)
			y := mk(t2, v2, c2, label)
			if x == nil || y == nil {
				c.Hist("multi:no-in-class-fold")
				continue
			}
			x.val, y.val = v1, v2
			shape := label + ":" + c12PairShape(x, y)
			runProgram([]*c12Item{x, y}, shape)
			x2, y2 := *y, *x
			runProgram([]*c12Item{&x2, &y2}, shape+":wider-first")
		}
	}
	ones := func(n int) *big.Int { return new(big.Int).Sub(c12Pow(n), big.NewInt(1)) }
	all := append(append([]tp{}, narrow...), exact...)
	for i, t1 := range all {
		for _, t2 := range exact {
			if t2.n <= t1.n {
				continue
			}
			if !c.Thorough() && (i+t2.n)%2 == 1 && t1.n != 32 {
				continue
			}
			// all-ones at both widths (sign-extended patterns coincide)
			pair(t1, ones(t1.n), t2, ones(t2.n), "all-ones")
			// 0x80.. : top bit of the narrower type, the same VALUE at the wider type,
			// and the wider type's own top bit
			pair(t1, c12Pow(t1.n-1), t2, c12Pow(t1.n-1), "top-bit-same-value")
			pair(t1, c12Pow(t1.n-1), t2, c12Pow(t2.n-1), "top-bits")
			// 0xff..f0
			pair(t1, new(big.Int).Sub(ones(t1.n), big.NewInt(15)), t2, new(big.Int).Sub(ones(t2.n), big.NewInt(15)), "all-ones-f0")
			// equal small values
			sm := big.NewInt(int64(3 + r.Intn(100)))
			pair(t1, sm, t2, sm, "small-equal")
			// v at the narrower type, its sign extension at the wider one
			v := new(big.Int).Add(c12Pow(t1.n-1), c12Rand(r, t1.n-1))
			ext := new(big.Int).Add(v, new(big.Int).Sub(c12Pow(t2.n), c12Pow(t1.n)))
			pair(t1, v, t2, ext, "sign-extension")
			pair(t1, v, t2, v, "zero-extension")
			// truncation: low bits of the wider value are the narrower value
			w := new(big.Int).Add(new(big.Int).Lsh(c12Rand(r, t2.n-t1.n), uint(t1.n)), v)
			pair(t1, v, t2, w, "truncation")
			// random
			pair(t1, c12Rand(r, t1.n), t2, c12Rand(r, t2.n), "random")
		}
	}
	// 3-4 folded constants of different types, directed patterns mixed
	nBig := c.N(24, 400)
	for i := 0; i < nBig; i++ {
		m := 3 + r.Intn(2)
		var items []*c12Item
		base := c12Rand(r, 31)
		for j := 0; j < m; j++ {
			t := all[r.Intn(len(all))]
			var v *big.Int
			switch r.Intn(4) {
			case 0:
				v = ones(t.n)
			case 1:
				v = new(big.Int).Mod(new(big.Int).Add(c12Pow(31), base), c12Pow(t.n))
			case 2:
				v = new(big.Int).Mod(base, c12Pow(t.n))
			default:
				v = c12Rand(r, t.n)
			}
			it := mk(t, v, r.Intn(4), "mixed")
			if it != nil {
				it.val = v
				items = append(items, it)
			}
		}
		if len(items) >= 2 {
			runProgram(items, "mixed")
		}
	}
	c.Note("multi-constant programs: %d pairs of (constant, run-time) variants, %d failing results", nProg, nFail)
}

// the value a fold item must have, from its operator and operands (exact integer
// arithmetic, reduced to the n-bit pattern by the caller)
func c12ItemValue(it *c12Item) *big.Int {
	if it.val != nil {
		return it.val
	}
	a, b := it.a, it.b
	switch it.op {
	case 1:
		return new(big.Int).Sub(a, b)
	case 5:
		return new(big.Int).And(a, b)
	case 6:
		return new(big.Int).Or(a, b)
	case 7:
		return new(big.Int).Xor(a, b)
	case 9:
		return new(big.Int).Lsh(a, uint(b.Int64()))
	}
	return new(big.Int).Add(a, b)
}
