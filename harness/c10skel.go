package main

// C10, online-phase message exchange (Gmw/GmwNet.v, Gen/SkelGmw.v).
//
//   - c10FlushOracle: on EVERY single-Run online network of the check the
//     number of write segments every party flushed on its online connections
//     during Run (p2p IOStats.Flushed after Run minus after Connect) must be
//     (n-1) * (2 + number of non-empty AND levels): one segment per peer for the
//     input share, for every non-empty level and for the output share
//     (oracle only; key c10:net:flush-segments).
//   - c10Skel: a family of small networks whose leader is built with
//     gmw.NewNetwork on a listener of the harness that records the size of
//     every Write of every accepted connection.  Per network two correspondence
//     cases: mode 5 (the n-party small-step model runs the skeleton generated
//     from the source under round robin: done, no unexpected item, segments per
//     party) and mode 6 (write segments by p2p.Conn's buffer rule: segments
//     per party, byte sizes of the leader's segments per peer).
//   - c10WideSegs: the mode-6 case of the wide-level network (one level message
//     larger than p2p.writeBufSize: NeedSpace flushes in the middle).

import (
	"encoding/binary"
	"fmt"
	"math/big"
	"net"
	"strings"
	"sync"
	"time"

	"github.com/markkurossi/mpc/circuit"
	"github.com/markkurossi/mpc/compiler/utils"
	"github.com/markkurossi/mpc/gmw"
)

// ---------------------------------------------------------------- write log

type c10WriteLog struct {
	mu    sync.Mutex
	conns []*c10LogConn
}

type c10LogConn struct {
	net.Conn
	mu     sync.Mutex
	head   []byte // first 8 bytes read: connection magic, peer id
	writes []int
}

func (c *c10LogConn) Read(b []byte) (int, error) {
	n, err := c.Conn.Read(b)
	if n > 0 {
		c.mu.Lock()
		if len(c.head) < 8 {
			take := 8 - len(c.head)
			if take > n {
				take = n
			}
			c.head = append(c.head, b[:take]...)
		}
		c.mu.Unlock()
	}
	return n, err
}

func (c *c10LogConn) Write(b []byte) (int, error) {
	c.mu.Lock()
	c.writes = append(c.writes, len(b))
	c.mu.Unlock()
	return c.Conn.Write(b)
}

type c10LogListener struct {
	net.Listener
	log *c10WriteLog
}

func (l *c10LogListener) Accept() (net.Conn, error) {
	c, err := l.Listener.Accept()
	if err != nil {
		return nil, err
	}
	lc := &c10LogConn{Conn: c}
	l.log.mu.Lock()
	l.log.conns = append(l.log.conns, lc)
	l.log.mu.Unlock()
	return lc, nil
}

// onlineWrites returns, per peer id, the sizes of the leader's Writes on the
// online connection accepted from that peer.
func (l *c10WriteLog) onlineWrites() map[int][]int {
	out := map[int][]int{}
	l.mu.Lock()
	defer l.mu.Unlock()
	for _, c := range l.conns {
		c.mu.Lock()
		if len(c.head) == 8 && binary.BigEndian.Uint32(c.head[:4]) == gmw.MagicOnline {
			out[int(binary.BigEndian.Uint32(c.head[4:]))] = append([]int(nil), c.writes...)
		}
		c.mu.Unlock()
	}
	return out
}

// ---------------------------------------------------------------- helpers

// c10LevelCounts: AND gates per level, index 0..Stats[NumLevels] (the batches
// Network.run hands to andBatchFlush).
func c10LevelCounts(circ *circuit.Circuit) []int {
	counts := make([]int, int(circ.Stats[circuit.NumLevels])+1)
	for i := range circ.Gates {
		if circ.Gates[i].Op == circuit.AND && int(circ.Gates[i].Level) < len(counts) {
			counts[circ.Gates[i].Level]++
		}
	}
	return counts
}

// c10FlushOracle: see the head of this file.  Skipped when a level message
// does not fit the write buffer (the wide-level run is checked by c10WideSegs).
func c10FlushOracle(c *Ctx, n int, circ *circuit.Circuit, res []c10PartyResult, replay c10Replay) {
	counts := c10LevelCounts(circ)
	nonEmpty, maxWords := 0, 0
	for _, k := range counts {
		if k > 0 {
			nonEmpty++
			if w := (k + 63) / 64; w > maxWords {
				maxWords = w
			}
		}
	}
	if 4+32*((maxWords+1)/2) > 65536 {
		return
	}
	want := uint64((n - 1) * (2 + nonEmpty))
	for p := range res {
		if got := res[p].flushed[1] - res[p].flushed[0]; got != want {
			rp := replay
			rp.Detail = fmt.Sprintf("party %d flushed %d write segments on its online connections during Run; %d parties, AND gates per level %v: expected (n-1)*(2+%d) = %d", p, got, n, counts, nonEmpty, want)
			c.Fail("c10:net:flush-segments", "number of online write segments of a GMW party differs from one per peer and exchange", rp)
			return
		}
	}
	c.Hist("net:flush-segments-checked")
}

// ---------------------------------------------------------------- family

type c10SkelJob struct {
	n      int
	levels []int
}

func c10SkelJobs(c *Ctx, r *RNG) []c10SkelJob {
	jobs := []c10SkelJob{
		{2, []int{1}},
		{2, []int{300, 1, 129}}, // len(nw.andD) does not shrink: 5 words for all three levels
		{3, []int{65, 64}},
		{3, []int{1, 130, 2, 70}},
		{4, []int{129, 3}},
		{5, []int{2}},
	}
	for k := c.N(0, 10); k > 0; k-- {
		nl := r.Range(1, 6)
		ls := make([]int, nl)
		for i := range ls {
			ls[i] = r.Range(1, 400)
		}
		jobs = append(jobs, c10SkelJob{r.Range(2, 5), ls})
	}
	return jobs
}

func c10Skel(c *Ctx, timeout time.Duration) error {
	r := c.rng.Fork()
	for ji, job := range c10SkelJobs(c, r) {
		n := job.n
		cc := c10Levelled(r, n, job.levels, true)
		circ := cc.circ
		circ.AssignLevels(utils.TargetGMW)
		counts := c10LevelCounts(circ)
		inputs := make([]*big.Int, n)
		inStr := make([]string, n)
		inB := make([]int, n)
		for p := 0; p < n; p++ {
			bits := int(circ.Inputs[p].Type.Bits)
			v := new(big.Int)
			for b := 0; b < bits; b++ {
				if r.Bool() {
					v.SetBit(v, b, 1)
				}
			}
			inputs[p] = v
			inStr[p] = v.Text(16)
			inB[p] = (bits + 7) / 8
		}
		want, err := circ.Compute(inputs)
		if err != nil {
			return fmt.Errorf("skel: Compute: %v", err)
		}
		wantBits := bitsString(JoinOutputs(circ, want))
		replay := c10Replay{Seed: c.Seed, Case: -100 - ji, Parties: n, Kind: "net-skeleton", Inputs: inStr, Want: wantBits,
			Detail: fmt.Sprintf("directed circuit with AND levels %v (AND gates per level index: %v); leader on a write-logging listener", job.levels, counts)}
		var res []c10PartyResult
		var stalled bool
		for attempt := 0; attempt < 4; attempt++ {
			d := make([][]int, n)
			order := make([]int, 0, n-1)
			for p := range d {
				d[p] = []int{0, 0, r.Intn(3) * r.Intn(10), 0}
				if p > 0 {
					order = append(order, p)
				}
			}
			for k := len(order) - 1; k > 0; k-- {
				j := r.Intn(k + 1)
				order[k], order[j] = order[j], order[k]
			}
			var retry bool
			res, stalled, retry = c10RunNetwork(&c10Plan{n: n, circ: circ, inputs: inputs, delays: d, order: order, timeout: timeout, logLeader: true})
			if !retry {
				break
			}
			c.Hist("harness:port-retry")
		}
		c.Eval(fmt.Sprintf("net-skeleton|%d|%v|%s", n, counts, strings.Join(inStr, ",")), true)
		c.Hist("kind:net-skeleton")
		c.Hist(fmt.Sprintf("net-skeleton:parties:%d", n))
		if stalled {
			var steps []string
			for p := range res {
				steps = append(steps, fmt.Sprintf("%d:%s", p, res[p].step))
			}
			rp := replay
			rp.Detail += "; not finished within " + timeout.String() + "; parties at " + strings.Join(steps, " ")
			c.Fail(fmt.Sprintf("c10:net:stalled:parties=%d", n), "GMW network stalled", rp)
			// what the model must reproduce: NOT done
			c.Case(L(I(5), I(n), Ints(counts), I(0)), L(I(0), I(0), Ints(make([]int, n))))
			continue
		}
		failed := false
		flushed := make([]int, n)
		for p := range res {
			if res[p].err != nil {
				rp := replay
				rp.Detail += fmt.Sprintf("; party %d failed at %s: %v", p, res[p].step, res[p].err)
				c.Fail(fmt.Sprintf("c10:net:error:%s", res[p].step), "GMW party returned an error", rp)
				failed = true
				break
			}
			if got := bitsString(JoinOutputs(circ, res[p].out)); got != wantBits {
				rp := replay
				rp.Got = []string{got}
				rp.Detail += fmt.Sprintf("; party %d", p)
				c.Fail("c10:net:wrong-output", "a party's GMW output differs from Circuit.Compute", rp)
				failed = true
				break
			}
			flushed[p] = int(res[p].flushed[1] - res[p].flushed[0])
		}
		if failed {
			continue
		}
		c10FlushOracle(c, n, circ, res, replay)
		// the leader's write segments per peer; the first two of every online
		// connection belong to Connect (input sizes, network info)
		var leader []SX
		outB := -1
		okLog := res[0].wlog != nil
		if okLog {
			ow := res[0].wlog.onlineWrites()
			for j := 1; j < n; j++ {
				w := ow[j]
				if len(w) < 3 {
					okLog = false
					rp := replay
					rp.Detail += fmt.Sprintf("; leader's online connection from peer %d shows %d writes %v", j, len(w), w)
					c.Fail("c10:net:leader-write-log", "the leader wrote fewer segments to a peer than Connect + Run need", rp)
					break
				}
				run := w[2:]
				ob := run[len(run)-1] - 4
				if outB >= 0 && ob != outB || ob < 0 || ob > (circ.Outputs.Size()+7)/8 {
					okLog = false
					rp := replay
					rp.Detail += fmt.Sprintf("; leader's last segment to peer %d has %d bytes (output share of %d bits; %d bytes of payload to another peer)", j, run[len(run)-1], circ.Outputs.Size(), outB)
					c.Fail("c10:net:leader-output-segment", "the leader's output-share segments differ between peers or exceed the output size", rp)
					break
				}
				outB = ob
				leader = append(leader, Ints(run))
			}
		}
		c.Case(L(I(5), I(n), Ints(counts), I(0)), L(I(1), I(0), Ints(flushed)))
		if okLog {
			c.Case(L(I(6), I(n), Ints(inB), Ints(counts), I(0), I(outB)), L(Ints(flushed), L(leader...)))
			c.Hist("net:leader-write-log-compared")
		}
	}
	return nil
}

// c10WideSegs: mode-6 case of the wide-level network (2 parties; flush counts
// only: its leader does not log, so the model's leader sizes are compared for
// the count of segments through Flushed alone).
func c10WideSegs(c *Ctx, circ *circuit.Circuit, res []c10PartyResult) {
	n := len(res)
	counts := c10LevelCounts(circ)
	inB := make([]int, n)
	flushed := make([]int, n)
	for p := 0; p < n; p++ {
		inB[p] = (int(circ.Inputs[p].Type.Bits) + 7) / 8
		flushed[p] = int(res[p].flushed[1] - res[p].flushed[0])
	}
	c.Case(L(I(7), I(n), Ints(inB), Ints(counts), I(0), I(0)), L(Ints(flushed)))
	c.Hist("net:wide-level-segments-compared")
}
