package main

// C07 door sweep (oracle only; the Gallina model reaches single builder calls):
// further ways into the builders than "one builder per Compiler".
//   mpcl    : MPCL source through compiler.New(params).Compile (the entry the
//             apps/garbled front end uses), every arithmetic / comparison /
//             bitwise operator, unsigned and signed, both targets,
//             OptPruneGates off/on, CircMultArrayTreshold 0/21
//   chain   : several builders on ONE Compiler, results reused as operands of
//             later builders, the same builder called twice
//   stream  : the way ssa/streamer.go calls the builders: one shared Allocator
//             for many Compilers, nil IO, the destination vector is the
//             Compiler's output wires, ConstPropagate + Prune + Compile
//   helpers : exported builders no in-repo caller uses (NewUDividerRestoring,
//             NewUDividerArray, NewHalfAdder/NewFullAdder/NewFullSubtractor as
//             circuits_test.go calls them, AddConstOne, SubConstOne, DetectMSB,
//             Compiler.ShiftLeft/ShiftRight)
//   mpa     : compiler/mpa Int.Add/Sub/Mul/Div/Mod above 64 bits (circuit path)
//   conc    : builders run concurrently in several goroutines under GC pressure
//             (GOGC=1) must produce the same circuit as a sequential run

import (
	"fmt"
	"math/big"
	"os"
	"runtime/debug"
	"sync"

	"github.com/markkurossi/mpc/circuit"
	"github.com/markkurossi/mpc/compiler"
	"github.com/markkurossi/mpc/compiler/circuits"
	"github.com/markkurossi/mpc/compiler/mpa"
	"github.com/markkurossi/mpc/compiler/utils"
	"github.com/markkurossi/mpc/types"
)

type c07Door struct {
	Door     string   `json:"door"`
	Config   string   `json:"config"`
	Operands []string `json:"operands,omitempty"`
	Got      string   `json:"got,omitempty"`
	Want     string   `json:"want,omitempty"`
	Note     string   `json:"note,omitempty"`
}

func c07Guard(f func()) (perr error) {
	defer func() {
		if r := recover(); r != nil {
			perr = fmt.Errorf("panic: %v", r)
		}
	}()
	f()
	return nil
}

func c07DoorsRun(c *Ctx) {
	c07DoorMPCL(c)
	c07DoorChain(c)
	c07DoorStream(c)
	c07DoorHelpers(c)
	c07DoorMPA(c)
	c07DoorConc(c)
}

// ---- mpcl ----

type c07Op struct {
	sym  string
	name string
	f    func(k c07Case, x, y *big.Int) *big.Int
}

func c07ExpectOp(b int) func(k c07Case, x, y *big.Int) *big.Int {
	return func(k c07Case, x, y *big.Int) *big.Int {
		kk := k
		kk.B = b
		return c07Expected(kk, []*big.Int{x, y})[0]
	}
}

func c07DoorMPCL(c *Ctx) {
	uops := []struct {
		sym, name string
		b         int
		boolRes   bool
	}{{"+", "add", bAdder, false}, {"-", "sub", bSub, false}, {"*", "mul", bMult, false}, {"/", "div", bUDiv, false},
		{"%", "mod", -1, false}, {"<", "lt", bUintLt, true}, {"<=", "le", bUintLe, true}, {">", "gt", bUintGt, true},
		{">=", "ge", bUintGe, true}, {"==", "eq", bEq, true}, {"!=", "neq", bNeq, true}, {"&", "band", bBand, false},
		{"|", "bor", bBor, false}, {"^", "bxor", bBxor, false}, {"&^", "bclr", bBclr, false}}
	signedOf := map[int]int{bUDiv: bIDiv, bUintLt: bIntLt, bUintLe: bIntLe, bUintGt: bIntGt, bUintGe: bIntGe}
	n := 3
	variant := 0
	for _, signed := range []bool{false, true} {
		for _, op := range uops {
			for tgt := 0; tgt <= 1; tgt++ {
				variant++
				prune := variant%2 == 0
				thr := 0
				if variant%3 == 0 {
					thr = 21
				}
				ty := fmt.Sprintf("uint%d", n)
				if signed {
					ty = fmt.Sprintf("int%d", n)
				}
				rt := ty
				if op.boolRes {
					rt = "bool"
				}
				src := fmt.Sprintf("package main\nfunc main(a, b %s) %s {\n\treturn a %s b\n}\n", ty, rt, op.sym)
				cfg := fmt.Sprintf("%s %s target=%d prune=%v arrayTreshold=%d", ty, op.name, tgt, prune, thr)
				params := utils.NewParams()
				if tgt == 1 {
					params.Target = utils.TargetGMW
				}
				params.OptPruneGates = prune
				params.CircMultArrayTreshold = thr
				var circ *circuit.Circuit
				var err error
				perr := c07Guard(func() {
					so := os.Stdout
					if dn, e := os.Open(os.DevNull); e == nil {
						os.Stdout = dn
						defer func() { os.Stdout = so; dn.Close() }()
					}
					circ, _, err = compiler.New(params).Compile(src, nil)
				})
				params.Close()
				if perr != nil || err != nil {
					c.Fail(fmt.Sprintf("c07:door:mpcl:%s:%s:%s:compile-error", ty, op.name, []string{"Yao", "GMW"}[tgt]),
						fmt.Sprintf("MPCL `a %s b` (%s): %v %v", op.sym, cfg, perr, err), c07Door{Door: "mpcl", Config: cfg, Note: src})
					continue
				}
				b := op.b
				if signed {
					if sb, ok := signedOf[b]; ok {
						b = sb
					}
				}
				reported := false
				for a := 0; a < 1<<uint(n); a++ {
					for bv := 0; bv < 1<<uint(n); bv++ {
						x, y := big.NewInt(int64(a)), big.NewInt(int64(bv))
						var want *big.Int
						zw := n
						if op.boolRes {
							zw = 1
						}
						if op.name == "mod" {
							kk := c07Case{B: bUDiv, Opw: []int{n, n}, Dsw: []int{n, n}}
							if signed {
								kk.B = bIDiv
							}
							want = c07Expected(kk, []*big.Int{x, y})[1]
						} else {
							kk := c07Case{B: b, Opw: []int{n, n}, Dsw: []int{zw, zw}, Prm: []int{0}}
							want = c07Expected(kk, []*big.Int{x, y})[0]
						}
						if want == nil {
							continue
						}
						res, err := circ.Compute([]*big.Int{x, y})
						c.Eval(fmt.Sprintf("door|mpcl|%s|%d|%d", cfg, a, bv), true)
						if err != nil || len(res) < 1 {
							continue
						}
						got := c07Mask(res[0], zw)
						if got.Cmp(want) != 0 && !reported {
							reported = true
							c.Fail(fmt.Sprintf("c07:door:mpcl:%s:%s:%s:wrong-value", ty, op.name, []string{"Yao", "GMW"}[tgt]),
								fmt.Sprintf("MPCL `a %s b` (%s) a=%d b=%d: %s, exact %s", op.sym, cfg, a, bv, got, want),
								c07Door{Door: "mpcl", Config: cfg, Operands: []string{fmt.Sprint(a), fmt.Sprint(bv)}, Got: got.String(), Want: want.String(), Note: src})
						}
					}
				}
				c.Hist("door:mpcl")
			}
		}
	}
}

// ---- common: a compiler with ssa-style constants ----

func c07NewCC(tgt int, calloc *circuits.Allocator, opw, dsw []int) (*circuits.Compiler, [][]*circuits.Wire) {
	params := utils.NewParams()
	if tgt == 1 {
		params.Target = utils.TargetGMW
	}
	var ops [][]*circuits.Wire
	var inputs []*circuits.Wire
	for _, w := range opw {
		o := make([]*circuits.Wire, w)
		for i := range o {
			o[i] = calloc.Wire()
		}
		ops = append(ops, o)
		inputs = append(inputs, o...)
	}
	cc, err := circuits.NewCompiler(params, calloc, c07IO(opw, "i"), c07IO(dsw, "o"), inputs, nil)
	if err != nil {
		panic(err)
	}
	cc.ZeroWire()
	cc.OneWire()
	return cc, ops
}

func c07Mk(calloc *circuits.Allocator, n int) []*circuits.Wire {
	ws := make([]*circuits.Wire, n)
	for i := range ws {
		ws[i] = calloc.Wire()
	}
	return ws
}

func c07Must(err error) {
	if err != nil {
		panic(err)
	}
}

// ---- chain ----

func c07DoorChain(c *Ctx) {
	for tgt := 0; tgt <= 1; tgt++ {
		for _, n := range []int{2, 3} {
			for passes := 0; passes <= 2; passes += 2 {
				cfg := fmt.Sprintf("chain target=%d n=%d passes=%d", tgt, n, passes)
				dsw := []int{n + 1, 2*n + 1, 2*n + 1, 1, n + 1, 1}
				var circ *circuit.Circuit
				perr := c07Guard(func() {
					calloc := circuits.NewAllocator()
					cc, ops := c07NewCC(tgt, calloc, []int{n, n}, dsw)
					a, b := ops[0], ops[1]
					r1 := c07Mk(calloc, n+1)
					c07Must(circuits.NewAdder(cc, a, b, r1)) // r1 = a + b
					r2 := c07Mk(calloc, 2*n+1)
					c07Must(circuits.NewMultiplier(cc, 0, r1, a, r2)) // r2 = r1 * a
					r3 := c07Mk(calloc, 2*n+1)
					c07Must(circuits.NewSubtractor(cc, r2, r1, r3)) // r3 = r2 - r1 (mod 2^(2n+1))
					r4 := c07Mk(calloc, 1)
					c07Must(circuits.NewUintGtComparator(cc, r3, r1, r4)) // r4 = r3 > r1
					r5 := c07Mk(calloc, n+1)
					c07Must(circuits.NewAdder(cc, a, b, r5)) // the same builder again, same operands
					r6 := c07Mk(calloc, 1)
					c07Must(circuits.NewEqComparator(cc, r1, r5, r6)) // r6 = (r1 == r5) = 1
					var err error
					circ, err = c07CompilePasses(&c07Built{cc: cc, dst: [][]*circuits.Wire{r1, r2, r3, r4, r5, r6}}, passes)
					c07Must(err)
				})
				if perr != nil {
					c.Fail("c07:door:chain:panic", cfg+": "+perr.Error(), c07Door{Door: "chain", Config: cfg, Note: perr.Error()})
					continue
				}
				wires := make([]byte, circ.NumWires)
				reported := false
				for av := 0; av < 1<<uint(n); av++ {
					for bv := 0; bv < 1<<uint(n); bv++ {
						x, y := big.NewInt(int64(av)), big.NewInt(int64(bv))
						got := c07Eval(circ, []int{n, n}, dsw, []*big.Int{x, y}, wires)
						r1 := new(big.Int).Add(x, y)
						r2 := c07Mask(new(big.Int).Mul(r1, x), 2*n+1)
						r3 := c07Mask(new(big.Int).Sub(r2, r1), 2*n+1)
						want := []*big.Int{r1, r2, r3, c07Bool(r3.Cmp(r1) > 0), r1, big.NewInt(1)}
						c.Eval(fmt.Sprintf("door|%s|%d|%d", cfg, av, bv), true)
						for i := range want {
							if got[i].Cmp(want[i]) != 0 && !reported {
								reported = true
								c.Fail(fmt.Sprintf("c07:door:chain:%s:result%d:wrong-value", []string{"Yao", "GMW"}[tgt], i+1),
									fmt.Sprintf("%s a=%d b=%d: r%d = %s, exact %s", cfg, av, bv, i+1, got[i], want[i]),
									c07Door{Door: "chain", Config: cfg, Operands: []string{x.String(), y.String()}, Got: got[i].String(), Want: want[i].String()})
							}
						}
					}
				}
				c.Hist("door:chain")
			}
		}
	}
}

// ---- stream ----

func c07DoorStream(c *Ctx) {
	builders := []int{bAdder, bSub, bMult, bUDiv, bIDiv, bIntLt, bUintLt, bIntGe, bUintGe, bEq, bNeq, bBand, bBclr, bBor, bBxor}
	for tgt := 0; tgt <= 1; tgt++ {
		calloc := circuits.NewAllocator() // prog.calloc: one allocator for every instruction's Compiler
		for _, n := range []int{3, 4} {
			for _, b := range builders {
				for variant := 0; variant < 2; variant++ {
					dsw := []int{n}
					switch {
					case b >= bIntGt && b <= bNeq:
						dsw = []int{1}
						if variant == 1 {
							continue
						}
					case b == bUDiv || b == bIDiv:
						// Idiv/Udiv: (q, nil); Imod/Umod: (nil, r)
						if variant == 1 {
							dsw = []int{0, n}
						} else {
							dsw = []int{n, 0}
						}
					default:
						if variant == 1 {
							continue
						}
					}
					name := c07Names[b]
					cfg := fmt.Sprintf("stream %s target=%d n=%d dest=%v", name, tgt, n, dsw)
					var circ *circuit.Circuit
					perr := c07Guard(func() {
						params := utils.NewParams()
						if tgt == 1 {
							params.Target = utils.TargetGMW
						}
						x := calloc.Wires(types.Size(n))
						y := calloc.Wires(types.Size(n))
						flat := append(append([]*circuits.Wire(nil), x...), y...)
						ow := dsw[0]
						if len(dsw) > 1 && dsw[1] > 0 {
							ow = dsw[1]
						}
						cOut := calloc.Wires(types.Size(ow))
						for _, w := range cOut {
							w.SetOutput(true)
						}
						cc, err := circuits.NewCompiler(params, calloc, nil, nil, flat, cOut)
						c07Must(err)
						var q, r []*circuits.Wire
						if len(dsw) > 1 && dsw[1] > 0 {
							r = cOut
						} else {
							q = cOut
						}
						c07Must(c07Call(cc, b, x, y, nil, q, r, []int{0}))
						cc.ConstPropagate()
						cc.Prune()
						circ = cc.Compile()
					})
					if perr != nil {
						c.Fail(fmt.Sprintf("c07:door:stream:%s:%s:panic", name, []string{"Yao", "GMW"}[tgt]), cfg+": "+perr.Error(),
							c07Door{Door: "stream", Config: cfg, Note: perr.Error()})
						continue
					}
					wires := make([]byte, circ.NumWires)
					reported := false
					di := 0
					ow := dsw[0]
					if len(dsw) > 1 && dsw[1] > 0 {
						di, ow = 1, dsw[1]
					}
					kk := c07Case{B: b, Tgt: tgt, Opw: []int{n, n}, Dsw: []int{dsw[0], 0}, Prm: []int{0}}
					if len(dsw) > 1 {
						kk.Dsw = dsw
					}
					for av := 0; av < 1<<uint(n); av++ {
						for bv := 0; bv < 1<<uint(n); bv++ {
							x, y := big.NewInt(int64(av)), big.NewInt(int64(bv))
							want := c07Expected(kk, []*big.Int{x, y})
							if di >= len(want) || want[di] == nil {
								continue
							}
							got := c07Eval(circ, []int{n, n}, []int{ow}, []*big.Int{x, y}, wires)[0]
							c.Eval(fmt.Sprintf("door|%s|%d|%d", cfg, av, bv), true)
							if got.Cmp(want[di]) != 0 && !reported {
								reported = true
								c.Fail(fmt.Sprintf("c07:door:stream:%s:%s:wrong-value", name, []string{"Yao", "GMW"}[tgt]),
									fmt.Sprintf("%s a=%d b=%d: %s, exact %s", cfg, av, bv, got, want[di]),
									c07Door{Door: "stream", Config: cfg, Operands: []string{x.String(), y.String()}, Got: got.String(), Want: want[di].String()})
							}
						}
					}
					c.Hist("door:stream")
				}
			}
		}
	}
}

// ---- helpers ----

func c07DoorHelpers(c *Ctx) {
	fail := func(what, cfg string, ops []string, got, want *big.Int) {
		c.Fail("c07:door:helpers:"+what+":wrong-value", fmt.Sprintf("%s operands %v: %s, exact %s", cfg, ops, got, want),
			c07Door{Door: "helpers", Config: cfg, Operands: ops, Got: got.String(), Want: want.String()})
	}
	type hcase struct {
		name string
		opw  []int
		dsw  []int
		tgt  int
		prm  int
		call func(cc *circuits.Compiler, ops [][]*circuits.Wire, dst [][]*circuits.Wire)
		want func(v []*big.Int) []*big.Int
	}
	var cases []hcase
	for n := 1; n <= 4; n++ {
		n := n
		for _, alg := range []string{"UDividerRestoring", "UDividerArray"} {
			alg := alg
			cases = append(cases, hcase{name: alg, opw: []int{n, n}, dsw: []int{n, n},
				call: func(cc *circuits.Compiler, ops, dst [][]*circuits.Wire) {
					if alg == "UDividerRestoring" {
						c07Must(circuits.NewUDividerRestoring(cc, ops[0], ops[1], dst[0], dst[1]))
					} else {
						c07Must(circuits.NewUDividerArray(cc, ops[0], ops[1], dst[0], dst[1]))
					}
				},
				want: func(v []*big.Int) []*big.Int {
					if v[1].Sign() == 0 {
						return nil
					}
					q, r := new(big.Int).QuoRem(v[0], v[1], new(big.Int))
					return []*big.Int{q, r}
				}})
		}
		for tgt := 0; tgt <= 1; tgt++ {
			cases = append(cases, hcase{name: "AddConstOne", opw: []int{n}, dsw: []int{n}, tgt: tgt,
				call: func(cc *circuits.Compiler, ops, dst [][]*circuits.Wire) {
					o := circuits.AddConstOne(cc, ops[0])
					copy(dst[0], o)
				},
				want: func(v []*big.Int) []*big.Int { return []*big.Int{c07Mask(new(big.Int).Add(v[0], big.NewInt(1)), n)} }})
			cases = append(cases, hcase{name: "SubConstOne", opw: []int{n}, dsw: []int{n}, tgt: tgt,
				call: func(cc *circuits.Compiler, ops, dst [][]*circuits.Wire) {
					o := circuits.SubConstOne(cc, ops[0])
					copy(dst[0], o)
				},
				want: func(v []*big.Int) []*big.Int { return []*big.Int{c07Mask(new(big.Int).Sub(v[0], big.NewInt(1)), n)} }})
			cases = append(cases, hcase{name: "DetectMSB", opw: []int{n}, dsw: []int{n}, tgt: tgt,
				call: func(cc *circuits.Compiler, ops, dst [][]*circuits.Wire) {
					copy(dst[0], circuits.DetectMSB(cc, ops[0]))
				},
				want: func(v []*big.Int) []*big.Int {
					if v[0].Sign() == 0 {
						return []*big.Int{big.NewInt(0)}
					}
					return []*big.Int{c07Pow2(v[0].BitLen() - 1)}
				}})
		}
		for sh := 0; sh <= n+1; sh++ {
			sh := sh
			cases = append(cases, hcase{name: "ShiftRight", opw: []int{n}, dsw: []int{n + 1}, prm: sh,
				call: func(cc *circuits.Compiler, ops, dst [][]*circuits.Wire) {
					copy(dst[0], cc.ShiftRight(ops[0], n+1, sh))
				},
				want: func(v []*big.Int) []*big.Int { return []*big.Int{new(big.Int).Rsh(v[0], uint(sh))} }})
			if sh <= n+1 {
				cases = append(cases, hcase{name: "ShiftLeft", opw: []int{n}, dsw: []int{n + 1}, prm: sh,
					call: func(cc *circuits.Compiler, ops, dst [][]*circuits.Wire) {
						copy(dst[0], cc.ShiftLeft(ops[0], n+1, sh))
					},
					want: func(v []*big.Int) []*big.Int { return []*big.Int{c07Mask(new(big.Int).Lsh(v[0], uint(sh)), n+1)} }})
			}
		}
	}
	// truth tables as circuits_test.go builds them
	for _, withC := range []bool{true, false} {
		withC := withC
		cases = append(cases, hcase{name: "HalfAdder", opw: []int{1, 1}, dsw: []int{2},
			call: func(cc *circuits.Compiler, ops, dst [][]*circuits.Wire) {
				s, co := cc.Calloc.Wire(), cc.Calloc.Wire()
				if withC {
					circuits.NewHalfAdder(cc, ops[0][0], ops[1][0], s, co)
				} else {
					circuits.NewHalfAdder(cc, ops[0][0], ops[1][0], s, nil)
					co = cc.ZeroWire()
				}
				dst[0][0], dst[0][1] = s, co
			},
			want: func(v []*big.Int) []*big.Int {
				r := new(big.Int).Add(v[0], v[1])
				if !withC {
					r = c07Mask(r, 1)
				}
				return []*big.Int{r}
			}})
		cases = append(cases, hcase{name: "FullAdder", opw: []int{1, 1, 1}, dsw: []int{2},
			call: func(cc *circuits.Compiler, ops, dst [][]*circuits.Wire) {
				s, co := cc.Calloc.Wire(), cc.Calloc.Wire()
				if withC {
					circuits.NewFullAdder(cc, ops[0][0], ops[1][0], ops[2][0], s, co)
				} else {
					circuits.NewFullAdder(cc, ops[0][0], ops[1][0], ops[2][0], s, nil)
					co = cc.ZeroWire()
				}
				dst[0][0], dst[0][1] = s, co
			},
			want: func(v []*big.Int) []*big.Int {
				r := new(big.Int).Add(new(big.Int).Add(v[0], v[1]), v[2])
				if !withC {
					r = c07Mask(r, 1)
				}
				return []*big.Int{r}
			}})
		cases = append(cases, hcase{name: "FullSubtractor", opw: []int{1, 1, 1}, dsw: []int{2},
			call: func(cc *circuits.Compiler, ops, dst [][]*circuits.Wire) {
				// NewFullSubtractor(cc, x, y, cin, d, cout): d = y - x - cin, cout = borrow (as NewSubtractor uses it)
				d, co := cc.Calloc.Wire(), cc.Calloc.Wire()
				if withC {
					circuits.NewFullSubtractor(cc, ops[0][0], ops[1][0], ops[2][0], d, co)
				} else {
					circuits.NewFullSubtractor(cc, ops[0][0], ops[1][0], ops[2][0], d, nil)
					co = cc.ZeroWire()
				}
				dst[0][0], dst[0][1] = d, co
			},
			want: func(v []*big.Int) []*big.Int {
				r := new(big.Int).Sub(new(big.Int).Sub(v[1], v[0]), v[2])
				if !withC {
					return []*big.Int{c07Mask(r, 1)}
				}
				return []*big.Int{c07Mask(r, 2)}
			}})
	}
	for _, hc := range cases {
		for passes := 0; passes <= 2; passes += 2 {
			cfg := fmt.Sprintf("%s target=%d widths=%v param=%d passes=%d", hc.name, hc.tgt, hc.opw, hc.prm, passes)
			var circ *circuit.Circuit
			perr := c07Guard(func() {
				calloc := circuits.NewAllocator()
				cc, ops := c07NewCC(hc.tgt, calloc, hc.opw, hc.dsw)
				dst := make([][]*circuits.Wire, 2)
				for i, w := range hc.dsw {
					dst[i] = c07Mk(calloc, w)
				}
				hc.call(cc, ops, dst)
				var err error
				circ, err = c07CompilePasses(&c07Built{cc: cc, dst: dst}, passes)
				c07Must(err)
			})
			if perr != nil {
				c.Fail("c07:door:helpers:"+hc.name+":panic", cfg+": "+perr.Error(), c07Door{Door: "helpers", Config: cfg, Note: perr.Error()})
				continue
			}
			tot := 0
			for _, w := range hc.opw {
				tot += w
			}
			wires := make([]byte, circ.NumWires)
			reported := false
			for v := 0; v < 1<<uint(tot); v++ {
				vals := make([]*big.Int, len(hc.opw))
				sh := 0
				for i, w := range hc.opw {
					vals[i] = big.NewInt(int64((v >> uint(sh)) & (1<<uint(w) - 1)))
					sh += w
				}
				want := hc.want(vals)
				if want == nil {
					continue
				}
				got := c07Eval(circ, hc.opw, hc.dsw, vals, wires)
				c.Eval(fmt.Sprintf("door|helpers|%s|%d", cfg, v), true)
				for i := range want {
					if got[i].Cmp(want[i]) != 0 && !reported {
						reported = true
						ops := make([]string, len(vals))
						for j, x := range vals {
							ops[j] = x.String()
						}
						fail(hc.name, cfg, ops, got[i], want[i])
					}
				}
			}
			c.Hist("door:helpers")
		}
	}
}

// ---- mpa ----

func c07DoorMPA(c *Ctx) {
	r := c.rng.Fork()
	for _, w := range []int{65, 100, 128} {
		for i := 0; i < 3; i++ {
			xb := new(big.Int).SetBytes(r.Bytes((w + 7) / 8))
			yb := new(big.Int).SetBytes(r.Bytes((w + 7) / 8))
			xb = c07Mask(xb, w-1) // non-negative as TInt
			yb = c07Mask(yb, w-1-8*i)
			if yb.Sign() == 0 {
				yb.SetInt64(3)
			}
			mk := func(v *big.Int) *mpa.Int {
				z, ok := mpa.Parse(v.Text(10), 10)
				if !ok {
					panic("mpa.Parse")
				}
				z.SetTypeSize(types.Size(w))
				return z
			}
			ops := []struct {
				name string
				f    func() *mpa.Int
				want *big.Int
			}{
				{"Add", func() *mpa.Int { return mpa.New(types.Size(w)).Add(mk(xb), mk(yb)) }, c07Mask(new(big.Int).Add(xb, yb), w)},
				{"Sub", func() *mpa.Int { return mpa.New(types.Size(w)).Sub(mk(xb), mk(yb)) }, c07Mask(new(big.Int).Sub(xb, yb), w)},
				{"Mul", func() *mpa.Int { return mpa.New(types.Size(w)).Mul(mk(xb), mk(yb)) }, c07Mask(new(big.Int).Mul(xb, yb), w)},
				{"Div", func() *mpa.Int { return mpa.New(types.Size(w)).Div(mk(xb), mk(yb)) }, new(big.Int).Quo(xb, yb)},
				{"Mod", func() *mpa.Int { return mpa.New(types.Size(w)).Mod(mk(xb), mk(yb)) }, new(big.Int).Rem(xb, yb)},
			}
			for _, op := range ops {
				cfg := fmt.Sprintf("mpa.New(%d).%s", w, op.name)
				var got *big.Int
				perr := c07Guard(func() {
					g, ok := new(big.Int).SetString(op.f().Text(10), 10)
					if !ok {
						panic("result not a number")
					}
					got = c07Mask(g, w)
				})
				c.Eval(fmt.Sprintf("door|%s|%s|%s", cfg, xb.Text(16), yb.Text(16)), true)
				if perr != nil {
					c.Fail("c07:door:mpa:"+op.name+":panic", cfg+": "+perr.Error(),
						c07Door{Door: "mpa", Config: cfg, Operands: []string{xb.String(), yb.String()}, Note: perr.Error()})
					continue
				}
				if got.Cmp(op.want) != 0 {
					c.Fail("c07:door:mpa:"+op.name+":wrong-value", fmt.Sprintf("%s(%s, %s) = %s, exact %s", cfg, xb, yb, got, op.want),
						c07Door{Door: "mpa", Config: cfg, Operands: []string{xb.String(), yb.String()}, Got: got.String(), Want: op.want.String()})
				}
			}
			c.Hist("door:mpa")
		}
	}
}

// ---- conc ----

func c07DoorConc(c *Ctx) {
	ks := []c07Case{
		{B: bMult, Tgt: 0, Opw: []int{12, 12}, Dsw: []int{24}, Prm: []int{0}},
		{B: bMult, Tgt: 1, Opw: []int{9, 9}, Dsw: []int{18}, Prm: []int{0}},
		{B: bAdder, Tgt: 1, Opw: []int{16, 11}, Dsw: []int{17}},
		{B: bIDiv, Tgt: 0, Opw: []int{8, 8}, Dsw: []int{8, 8}},
	}
	fingerprint := func(k c07Case) (uint64, error) {
		bt, err := c07Build(k)
		if err != nil {
			return 0, err
		}
		if bt.err != nil {
			return 0, bt.err
		}
		gs, _, _, _, _ := c07Canon(bt)
		circ, err := c07CompilePasses(bt, 2)
		if err != nil {
			return 0, err
		}
		h := c07Hash(gs)
		for _, g := range circ.Gates {
			h = (h ^ uint64(g.Op) ^ uint64(g.Input0)<<8 ^ uint64(g.Input1)<<28 ^ uint64(g.Output)<<44) * 1099511628211
		}
		return h, nil
	}
	seq := make([]uint64, len(ks))
	for i, k := range ks {
		h, err := fingerprint(k)
		if err != nil {
			c.Fail("c07:door:conc:sequential-error", err.Error(), c07Door{Door: "conc", Config: k.String()})
			return
		}
		seq[i] = h
	}
	old := debug.SetGCPercent(1)
	defer debug.SetGCPercent(old)
	var wg sync.WaitGroup
	var mu sync.Mutex
	bad := map[string]bool{}
	for g := 0; g < 6; g++ {
		wg.Add(1)
		go func(g int) {
			defer wg.Done()
			for rep := 0; rep < 2; rep++ {
				for i, k := range ks {
					var h uint64
					var err error
					perr := c07Guard(func() { h, err = fingerprint(k) })
					if perr != nil || err != nil || h != seq[i] {
						mu.Lock()
						bad[k.String()] = true
						mu.Unlock()
					}
				}
			}
		}(g)
	}
	wg.Wait()
	for cfg := range bad {
		c.Fail("c07:door:conc:differs-from-sequential", "builder run concurrently under GC pressure gives a different circuit: "+cfg,
			c07Door{Door: "conc", Config: cfg})
	}
	c.Eval("door|conc", true)
	c.Hist("door:conc")
}
