package main

// c04doors.go — C04 door sweep: the property quantifies over EVERY execution of the two-party
// protocols, so the transcript oracle of c04.go (scan at every byte offset with the offset R
// actually used, OT recorder) is driven through the less-travelled ways into the same code.
// All sessions here are oracle-only (no correspondence case): the symbolic model is tied to the
// implementation by the slot-level cases of c04.go; the doors below differ in HOW the garbler is
// reached, not in what it computes.  The inventory is the table "Doors" in notes/C04-findings.md.

import (
	"bytes"
	"crypto/elliptic"
	"fmt"
	"math/big"
	"os"
	"path/filepath"
	"strings"
	"sync"
	"time"

	"github.com/markkurossi/mpc/circuit"
	"github.com/markkurossi/mpc/compiler"
	"github.com/markkurossi/mpc/compiler/utils"
	"github.com/markkurossi/mpc/env"
	"github.com/markkurossi/mpc/ot"
	"github.com/markkurossi/mpc/p2p"
	"github.com/markkurossi/mpc/sha2pc"
)

func c04AllOnes(n int) []bool {
	x := make([]bool, n)
	for i := range x {
		x[i] = true
	}
	return x
}

func c04RandBits(r *RNG, n int) []bool {
	x := make([]bool, n)
	for i := range x {
		x[i] = r.Bool()
	}
	return x
}

// c04Scan applies the whole-circuit oracle to one garbler->evaluator byte stream.
func c04Scan(c *Ctx, door string, idx int, stream []byte, R ot.Label, gOT, eOT *recOT, detail, inputs string) {
	self, pairs := scanR(stream, R)
	if gOT != nil && eOT != nil {
		if leaks := otLeaks(stream, R, gOT.sent, eOT.recv); len(leaks) > 0 {
			c.Fail("c04:whole-circuit:ot-handoff-leaks-second-label", "a wire offered through the OT also has a label in the clear transcript / a delivered label is R apart from transmitted data",
				c04Replay{Seed: c.Seed, Mode: "door:" + door, Case: idx, R: R.String(), Detail: strings.Join(leaks, "; ") + " | " + detail, Inputs: inputs})
		}
	}
	if len(self) > 0 || len(pairs) > 0 {
		if len(pairs) > 20 {
			pairs = pairs[:20]
		}
		c.Fail("c04:whole-circuit:transcript-leaks-R", "the garbler->evaluator transcript contains R or two 16-byte values differing by R",
			c04Replay{Seed: c.Seed, Mode: "door:" + door, Case: idx, R: R.String(), Offsets: pairs, Self: self, Detail: detail, Inputs: inputs})
	}
}

// c04Stalled: runSession's watchdog declares a stall when both parties look idle for 60 ms; on a
// heavily loaded machine a starved connection writer goroutine produces that picture.  A stalled
// session is re-run (fresh randomness and OT objects) up to two times before it is reported.
func c04Retry(run func() (*sessionResult, *blockLog, *recOT, *recOT)) (*sessionResult, *blockLog, *recOT, *recOT) {
	var res *sessionResult
	var grand *blockLog
	var gOT, eOT *recOT
	for try := 0; try < 3; try++ {
		res, grand, gOT, eOT = run()
		if !res.stalled {
			break
		}
	}
	return res, grand, gOT, eOT
}

// c04Session runs one whole-circuit session and applies the oracle; returns the transcript and R.
func c04Session(c *Ctx, r *RNG, door string, idx int, circ *circuit.Circuit, gIn, eIn *big.Int,
	setup func() (*blockLog, *recOT, *recOT)) ([]byte, ot.Label, bool) {

	res, grand, gOT, eOT := c04Retry(func() (*sessionResult, *blockLog, *recOT, *recOT) {
		grand, gOT, eOT := setup()
		return runSession(circ, gIn, eIn, grand, gOT, eOT, 0, r.Fork(), nil, 60*time.Second), grand, gOT, eOT
	})
	c.Hist("door:" + door)
	c.Eval(fmt.Sprintf("door|%s|%d|%s|%s", door, idx, gIn.Text(16), eIn.Text(16)), true)
	if res.gErr != nil || res.eErr != nil || res.stalled {
		c.Fail("c04:session-failed", fmt.Sprintf("door %s: session did not complete: %v %v", door, res.gErr, res.eErr), nil)
		return nil, ot.Label{}, false
	}
	if len(grand.blocks) == 0 {
		c.Fail("c04:door:no-R", "door "+door+": could not observe R", nil)
		return nil, ot.Label{}, false
	}
	R := setS(grand.blocks[0])
	c04Scan(c, door, idx, res.g2e, R, gOT, eOT, fmt.Sprintf("%d gates, %d wires", circ.NumGates, circ.NumWires),
		gIn.Text(16)+"/"+eIn.Text(16))
	return res.g2e, R, true
}

// c04CrossScan: transcripts of SEVERAL sessions (one *Circuit, one process, one evaluator that kept
// them): nothing in them may be apart by the offset of any of the sessions, nor by the xor of two
// offsets (what stale labels of an earlier garbling under a fresh offset would show), and no
// 16-byte label-bearing value may repeat between two sessions' input-label sections.
func c04CrossScan(c *Ctx, door string, idx int, streams [][]byte, Rs []ot.Label) {
	var all []byte
	for _, s := range streams {
		// the 32-byte session key message and length words are public; 16 zero bytes between
		// the streams keep windows from spanning two sessions
		all = append(all, s...)
		all = append(all, make([]byte, 16)...)
	}
	for i, R := range Rs {
		self, pairs := scanR(all, R)
		if len(self) > 0 || len(pairs) > 0 {
			if len(pairs) > 12 {
				pairs = pairs[:12]
			}
			c.Fail("c04:whole-circuit:repeated-sessions:transcripts-leak-R", fmt.Sprintf("the transcripts of %d sessions on one *Circuit together contain the offset of session %d or two values differing by it", len(streams), i),
				c04Replay{Seed: c.Seed, Mode: "door:" + door, Case: idx, R: R.String(), Offsets: pairs, Self: self})
		}
		for j := i + 1; j < len(Rs); j++ {
			x := R
			x.Xor(Rs[j])
			self, pairs := scanR(all, x)
			if len(self) > 0 || len(pairs) > 0 {
				if len(pairs) > 12 {
					pairs = pairs[:12]
				}
				c.Fail("c04:whole-circuit:repeated-sessions:values-differ-by-xor-of-two-offsets", fmt.Sprintf("sessions %d and %d on one *Circuit: transmitted values differ by R%d xor R%d (labels of one garbling reused under the other offset)", i, j, i, j),
					c04Replay{Seed: c.Seed, Mode: "door:" + door, Case: idx, R: x.String(), Offsets: pairs, Self: self})
			}
		}
	}
}

// c04LabelSection: the n0 garbler input labels at the end of the first flight (after the tables).
func c04InputLabels(stream []byte, circ *circuit.Circuit) [][16]byte {
	// key: 4 + 32; table count: 4; per gate: 4 + 16*rows; then n0 labels
	pos := 4 + 32 + 4
	for _, g := range circ.Gates {
		rows := 0
		switch g.Op {
		case circuit.AND:
			rows = 2
		case circuit.OR:
			rows = 3
		case circuit.INV:
			rows = 1
		}
		pos += 4 + 16*rows
	}
	n0 := int(circ.Inputs[0].Type.Bits)
	var res [][16]byte
	for i := 0; i < n0 && pos+16 <= len(stream); i++ {
		var b [16]byte
		copy(b[:], stream[pos:pos+16])
		res = append(res, b)
		pos += 16
	}
	return res
}

var c04WholePrograms = []struct {
	src      string
	gIn, eIn []string
}{
	{"package main\nfunc main(a, b int32) int32 {\n\tif a > b {\n\t\treturn a - b\n\t}\n\treturn b + a\n}\n", []string{"-1"}, []string{"-7"}},
	{"package main\nfunc main(a, b uint16) (uint16, bool) {\n\tc := b + 1\n\treturn (a & b) ^ (a & c) | (a >> 3), a < c\n}\n", []string{"0xffff"}, []string{"0x1234"}},
	{"package main\ntype P struct {\n\tx uint8\n\ty int8\n\tok bool\n}\nfunc main(a P, b [2]uint8) uint8 {\n\tif a.ok {\n\t\treturn a.x + b[0] + uint8(a.y)\n\t}\n\treturn a.x * b[1]\n}\n", []string{"0xff", "-1", "true"}, []string{"0x0a0b"}},
}

// runWholeDoor: one whole-circuit session per door variant.
func runWholeDoor(c *Ctx, idx int, tmp string) error {
	r := c.rng.Fork()
	gen := func(o GenOpts) *circuit.Circuit { o.Overwrite = true; o.TwoParty = true; return GenCircuit(r, o) }
	mk := func() *blockLog { return &blockLog{r: r.Fork(), skipKey: true} }
	co := func() *recOT { return &recOT{OT: ot.NewCO(r.Fork())} }
	switch idx {
	case 0:
		// the fourth OT of the package (the three of runWholeSession are CO, COT, COT-malicious)
		circ := gen(GenOpts{MinIn: 4, MaxIn: 8, MinGates: 10, MaxGates: 40, MaxOut: 4})
		n0, n1 := int(circ.Inputs[0].Type.Bits), int(circ.Inputs[1].Type.Bits)
		c04Session(c, r, "ot:rsa", idx, circ, bitsToBig(c04AllOnes(n0)), bitsToBig(c04RandBits(r, n1)),
			func() (*blockLog, *recOT, *recOT) {
				return mk(), &recOT{OT: ot.NewRSA(r.Fork(), 1024)}, &recOT{OT: ot.NewRSA(r.Fork(), 1024)}
			})

	case 1, 2:
		// the composition of apps/garbled garblerMode: circuit file on disk -> circuit.Parse ->
		// AssignLevels(params.Target) -> Inputs[0].Parse(strings) -> circuit.Garbler(params.Config, ...)
		// with the OT built on the SAME configured random source (ot.NewCO(params.Config.GetRandom()))
		format := []string{"mpclc", "bristol"}[idx-1]
		orig := gen(GenOpts{MinIn: 6, MaxIn: 20, MinGates: 20, MaxGates: 120, MaxOut: 6})
		file := filepath.Join(tmp, fmt.Sprintf("door%d.%s", idx, format))
		var buf bytes.Buffer
		if err := orig.MarshalFormat(&buf, format); err != nil {
			return fmt.Errorf("MarshalFormat %s: %v", format, err)
		}
		if err := os.WriteFile(file, buf.Bytes(), 0o644); err != nil {
			return err
		}
		circ, err := circuit.Parse(file)
		if err != nil {
			return fmt.Errorf("circuit.Parse(%s): %v", file, err)
		}
		params := utils.NewParams()
		defer params.Close()
		circ.AssignLevels(params.Target)
		if len(circ.Inputs) != 2 {
			// the Bristol format has no argument structure for more than ... keep the two-party shape
			c.Note("door file:%s: parsed circuit has %d inputs", format, len(circ.Inputs))
			return nil
		}
		n0, n1 := int(circ.Inputs[0].Type.Bits), int(circ.Inputs[1].Type.Bits)
		gIn, err := circ.Inputs[0].Parse([]string{"0x" + bitsToBig(c04AllOnes(n0)).Text(16)})
		if err != nil {
			return fmt.Errorf("IOArg.Parse: %v", err)
		}
		// runSession builds env.Config{Rand: grand} itself: the same reader feeds the garbler's OT
		c04Session(c, r, "apps-garbled-garbler-mode:file:"+format, idx, circ, gIn, bitsToBig(c04RandBits(r, n1)),
			func() (*blockLog, *recOT, *recOT) {
				grand := mk()
				params.Config = &env.Config{Rand: grand}
				return grand, &recOT{OT: ot.NewCO(params.Config.GetRandom())}, co()
			})

	case 3:
		// one *Circuit, several sessions: two one after the other (pooled scratch of Circuit.Garble
		// is reused; circuit.Garbler itself never calls Release, an explicit Garble+Release round in
		// between returns a scratch to the pool), then two at the same time
		circ := gen(GenOpts{MinIn: 6, MaxIn: 12, MinGates: 20, MaxGates: 60, MaxOut: 4})
		n0, n1 := int(circ.Inputs[0].Type.Bits), int(circ.Inputs[1].Type.Bits)
		var streams [][]byte
		var Rs []ot.Label
		var labels [][][16]byte
		xs := [][]bool{c04AllOnes(n0), make([]bool, n0), c04RandBits(r, n0), c04AllOnes(n0)}
		// the sessions themselves touch nothing of c (two of them overlap); reporting happens here
		type sess struct {
			res      *sessionResult
			grand    *blockLog
			gOT, eOT *recOT
			gIn, eIn *big.Int
		}
		one := func(k int, rr *RNG) *sess {
			s := &sess{gIn: bitsToBig(xs[k]), eIn: bitsToBig(c04RandBits(rr, n1))}
			s.res, s.grand, s.gOT, s.eOT = c04Retry(func() (*sessionResult, *blockLog, *recOT, *recOT) {
				grand, gOT, eOT := &blockLog{r: rr.Fork(), skipKey: true}, &recOT{OT: ot.NewCO(rr.Fork())}, &recOT{OT: ot.NewCO(rr.Fork())}
				return runSession(circ, s.gIn, s.eIn, grand, gOT, eOT, 0, rr.Fork(), nil, 60*time.Second), grand, gOT, eOT
			})
			return s
		}
		report := func(k int, s *sess) bool {
			door := "same-circuit-object:repeated-sessions"
			c.Hist("door:" + door)
			c.Eval(fmt.Sprintf("door|%s|%d|%s|%s", door, k, s.gIn.Text(16), s.eIn.Text(16)), true)
			if s.res.gErr != nil || s.res.eErr != nil || s.res.stalled || len(s.grand.blocks) == 0 {
				c.Fail("c04:session-failed", fmt.Sprintf("door %s: session %d did not complete: %v %v", door, k, s.res.gErr, s.res.eErr), nil)
				return false
			}
			R := setS(s.grand.blocks[0])
			c04Scan(c, door, idx*10+k, s.res.g2e, R, s.gOT, s.eOT, circuitText(circ), s.gIn.Text(16)+"/"+s.eIn.Text(16))
			streams, Rs, labels = append(streams, s.res.g2e), append(Rs, R), append(labels, c04InputLabels(s.res.g2e, circ))
			return true
		}
		for k := 0; k < 2; k++ {
			if !report(k, one(k, r.Fork())) {
				return nil
			}
			if g, err := circ.Garble(r.Fork(), r.Bytes(32)); err == nil {
				g.Release()
			}
		}
		var wg sync.WaitGroup
		both := make([]*sess, 2)
		for k := 2; k < 4; k++ {
			wg.Add(1)
			rr := r.Fork()
			go func(k int) {
				defer wg.Done()
				both[k-2] = one(k, rr)
			}(k)
		}
		wg.Wait()
		for k, s := range both {
			if !report(k+2, s) {
				return nil
			}
		}
		c04CrossScan(c, "same-circuit-object:repeated-sessions", idx, streams, Rs)
		seen := map[[16]byte]int{}
		for si, ls := range labels {
			for wi, l := range ls {
				if sj, ok := seen[l]; ok && sj != si {
					c.Fail("c04:whole-circuit:repeated-sessions:input-label-reused", fmt.Sprintf("sessions %d and %d on one *Circuit transmitted the same 16-byte garbler input label (wire %d): labels are not drawn afresh per session", sj, si, wi),
						c04Replay{Seed: c.Seed, Mode: "door:same-circuit-object", Case: idx})
				}
				seen[l] = si
			}
		}

	case 4, 5:
		// a party without input bits (a 0-bit argument): no label flight / an empty OT
		circ := gen(GenOpts{MinIn: 4, MaxIn: 10, MinGates: 10, MaxGates: 40, MaxOut: 4})
		ni := circ.Inputs.Size()
		if idx == 4 {
			circ.Inputs = circuit.IO{{Name: "a", Type: uintInfo(0)}, {Name: "b", Type: uintInfo(ni)}}
		} else {
			circ.Inputs = circuit.IO{{Name: "a", Type: uintInfo(ni)}, {Name: "b", Type: uintInfo(0)}}
		}
		n0, n1 := int(circ.Inputs[0].Type.Bits), int(circ.Inputs[1].Type.Bits)
		kind := otKinds[idx%2]
		door := fmt.Sprintf("party-without-input-bits:n0=%v,n1=%v", n0 > 0, n1 > 0)
		grand := mk()
		gOT, eOT := &recOT{OT: kind.mk(r.Fork())}, &recOT{OT: kind.mk(r.Fork())}
		res := runSession(circ, bitsToBig(c04AllOnes(n0)), bitsToBig(c04RandBits(r, n1)), grand, gOT, eOT, 0, r.Fork(), nil, 30*time.Second)
		c.Hist("door:" + door)
		c.Eval(fmt.Sprintf("door|%s|%s", door, circuitText(circ)), true)
		if res.gErr != nil || res.eErr != nil || res.stalled {
			// an explicit refusal is fine; what was sent before it is scanned all the same
			c.Hist("door:" + door + ":refused")
		}
		if len(grand.blocks) > 0 {
			c04Scan(c, door, idx, res.g2e, setS(grand.blocks[0]), gOT, eOT, circuitText(circ), "")
		}

	case 6:
		// input vectors wider than every internal chunk (256, 1024 wires), garbler bits all 1,
		// the entropy source hands out at most 32 bytes per call, inputs as a NEGATIVE big.Int
		circ := gen(GenOpts{MinIn: 1400, MaxIn: 1500, MinGates: 300, MaxGates: 500, MaxOut: 6})
		n0, n1 := int(circ.Inputs[0].Type.Bits), int(circ.Inputs[1].Type.Bits)
		kind := otKinds[1]
		c04Session(c, r, "wide-inputs:all-ones:negative-big-int:source-reads-at-most-32-bytes", idx, circ,
			negRep(bitsToBig(c04AllOnes(n0)), n0), bitsToBig(c04RandBits(r, n1)),
			func() (*blockLog, *recOT, *recOT) {
				grand := mk()
				grand.maxRead = 32
				return grand, &recOT{OT: kind.mk(r.Fork())}, &recOT{OT: kind.mk(r.Fork())}
			})
		c.Note("door wide-inputs: n0=%d n1=%d", n0, n1)

	case 7, 8, 9:
		// circuits the MPCL compiler produced (Compiler.Compile: constants, sign extension, struct and
		// array arguments), whole-circuit mode, inputs parsed from strings by IOArg.Parse
		p := c04WholePrograms[idx-7]
		params := utils.NewParams()
		defer params.Close()
		circ, _, err := compiler.New(params).Compile(p.src, nil)
		if err != nil {
			return fmt.Errorf("Compile: %v", err)
		}
		circ.AssignLevels(params.Target)
		gIn, err := circ.Inputs[0].Parse(p.gIn)
		if err != nil {
			return fmt.Errorf("IOArg.Parse(%v): %v", p.gIn, err)
		}
		eIn, err := circ.Inputs[1].Parse(p.eIn)
		if err != nil {
			return fmt.Errorf("IOArg.Parse(%v): %v", p.eIn, err)
		}
		kind := otKinds[idx%3]
		c04Session(c, r, "compiled-mpcl-whole-circuit", idx, circ, gIn, eIn,
			func() (*blockLog, *recOT, *recOT) {
				grand := mk()
				grand.maxRead = 32
				return grand, &recOT{OT: kind.mk(r.Fork())}, &recOT{OT: kind.mk(r.Fork())}
			})

	case 10:
		// Circuit.Garble -> Release -> Circuit.Garble on one *Circuit (the pooled scratch of the first
		// garbling, wires and rows, is what the second one writes into): the slots of the two
		// garblings (one label per input wire for COMPLEMENTARY inputs + all rows) taken together
		for _, big := range []bool{false, true} {
			o := GenOpts{MinIn: 3, MaxIn: 10, MinGates: 8, MaxGates: 50, MaxOut: 4}
			if big {
				o = GenOpts{MinIn: 1030, MaxIn: 1100, MinGates: 40, MaxGates: 80, MaxOut: 4}
			}
			circ := gen(o)
			ni := circ.Inputs.Size()
			x := c04RandBits(r, ni)
			var all []ot.Label
			var Rs []ot.Label
			for k := 0; k < 3; k++ {
				g, err := circ.Garble(&blockLog{r: r.Fork(), maxRead: 32}, r.Bytes(32))
				if err != nil {
					return err
				}
				Rs = append(Rs, g.R)
				for i := 0; i < ni; i++ {
					all = append(all, circuit.LabelForBit(g.Wires[i], x[i] != (k%2 == 1)))
				}
				for _, row := range g.Gates {
					all = append(all, row...)
				}
				g.Release()
			}
			c.Hist("door:garble-release-garble-on-one-circuit")
			c.Eval(fmt.Sprintf("door|regarble|%s", bitsString(x[:min(len(x), 64)])), true)
			ds := append([]ot.Label(nil), Rs...)
			for i := range Rs {
				for j := i + 1; j < len(Rs); j++ {
					d := Rs[i]
					d.Xor(Rs[j])
					ds = append(ds, d)
				}
			}
			ds = append(ds, ot.Label{}) // difference 0: a label-bearing value transmitted twice
			for di, d := range ds {
				if p := slotPairsFast(all, d); len(p) > 0 && !(di == len(ds)-1 && c04OnlySelf(p)) {
					what := "two values of successive garblings of one *Circuit (Garble, Release, Garble) differ by an offset / the xor of two offsets"
					if di == len(ds)-1 {
						what = "successive garblings of one *Circuit (Garble, Release, Garble) transmit the SAME 16-byte label-bearing value twice (stale scratch)"
					}
					c.Fail("c04:whole-circuit:garble-release-garble:stale-scratch-leaks", what,
						c04Replay{Seed: c.Seed, Mode: "door:garble-release-garble", Case: idx, R: d.String(), Offsets: p, Detail: fmt.Sprintf("%d input wires, difference #%d of R0,R1,R2,R0^R1,R0^R2,R1^R2,0", ni, di)})
				}
			}
		}
	}
	return nil
}

const c04WholeDoors = 11

// ---- streaming doors

var c04StreamDoorPrograms = []struct {
	name, src string
	gIn, eIn  []string
	sizes     [][]int
}{
	{"signed-all-ones", "package main\nfunc main(a, b int32) (int32, int64) {\n\tc := int64(a) + 1\n\tif a > b {\n\t\treturn a - b, c\n\t}\n\treturn (b - a) >> 2, c << 3\n}\n",
		[]string{"-1"}, []string{"-7"}, nil},
	{"struct-array-args", "package main\ntype P struct {\n\tx uint8\n\ty int8\n\tok bool\n}\nfunc main(a P, b [2]uint8) (uint8, bool) {\n\tvar t [3]uint8\n\tt[1] = a.x & b[0]\n\tt[2] = uint8(a.y) & b[1]\n\tif a.ok {\n\t\treturn t[1] + t[2], a.ok\n\t}\n\treturn t[0] | (a.x & b[1]), false\n}\n",
		[]string{"0xff", "-1", "true"}, []string{"0x0a0b"}, nil},
	{"unsized-slices-input-sizes", "package main\nfunc main(a, b []byte) (byte, int) {\n\tvar r byte\n\tfor i := 0; i < len(a); i++ {\n\t\tr = r + (a[i] & b[i % len(b)])\n\t}\n\treturn r, len(a) + len(b)\n}\n",
		[]string{"0xffffffffff"}, []string{"0x0f0e0d"}, [][]int{{40}, {24}}},
	{"returns-inputs-and-constants", "package main\nfunc main(a, b uint8) (uint8, uint8, uint8, bool) {\n\treturn a, 0xff, a & b, true\n}\n",
		[]string{"0xff"}, []string{"0xa5"}, nil},
}

// runStreamDoor: streaming sessions through the doors runStreamSession does not take: StreamFile
// (a file on disk), inputSizes, compound arguments, a second OT, a Compiler object and Params that
// served an earlier session, an entropy source that hands out at most 32 bytes per call.
func runStreamDoor(c *Ctx, idx int, tmp string, shared *compiler.Compiler, sharedParams *utils.Params) error {
	r := c.rng.Fork()
	p := c04StreamDoorPrograms[idx%len(c04StreamDoorPrograms)]
	file := filepath.Join(tmp, fmt.Sprintf("door%d.mpcl", idx))
	if err := os.WriteFile(file, []byte(p.src), 0o644); err != nil {
		return err
	}
	ga, ea, g2e, _ := newDuplexPair(r, 0)
	gConn, eConn := p2p.NewConn(ga), p2p.NewConn(ea)
	grand := &blockLog{r: r.Fork(), skipKey: true, maxRead: 32}
	sharedParams.Config = &env.Config{Rand: grand}
	kind := otKinds[idx%2]
	gOT := &recOT{OT: kind.mk(r.Fork())}
	eOT := &recOT{OT: kind.mk(r.Fork())}
	type out struct {
		vals []*big.Int
		err  error
	}
	gch, ech := make(chan out, 1), make(chan out, 1)
	go func() {
		defer func() {
			if p := recover(); p != nil {
				gch <- out{nil, fmt.Errorf("panic: %v", p)}
			}
		}()
		_, vals, err := shared.StreamFile(gConn, gOT, file, p.gIn, p.sizes)
		gch <- out{vals, err}
	}()
	go func() {
		defer func() {
			if p := recover(); p != nil {
				ech <- out{nil, fmt.Errorf("panic: %v", p)}
			}
		}()
		_, vals, err := circuit.StreamEvaluator(eConn, eOT, p.eIn, nil, false)
		ech <- out{vals, err}
	}()
	var go_, eo out
	timeout := time.After(60 * time.Second)
	for got := 0; got < 2; {
		select {
		case go_ = <-gch:
			got++
			if go_.err != nil {
				ga.Close()
				ea.Close()
			}
		case eo = <-ech:
			got++
		case <-timeout:
			ga.Close()
			ea.Close()
			c.Fail("c04:stream-session:stalled", "streaming session stalled (door "+p.name+")", p.src)
			return nil
		}
	}
	ga.Close()
	ea.Close()
	door := "stream-file:" + p.name + ":" + kind.name
	c.Hist("door:" + door)
	c.Eval(fmt.Sprintf("door|%s|%d", door, idx), true)
	if go_.err != nil || eo.err != nil {
		c.Fail("c04:stream-session:error", fmt.Sprintf("streaming session failed (door %s): %v / %v", door, go_.err, eo.err), p.src)
		return nil
	}
	g2e.mu.Lock()
	data := append([]byte(nil), g2e.log...)
	g2e.mu.Unlock()
	if len(grand.blocks) == 0 {
		c.Fail("c04:stream-session:no-R", "could not observe R (door "+door+")", p.src)
		return nil
	}
	R := setS(grand.blocks[0])
	self, pairs := scanR(data, R)
	if leaks := otLeaks(data, R, gOT.sent, eOT.recv); len(leaks) > 0 {
		c.Fail("c04:streaming:ot-handoff-leaks-second-label", "a wire offered through the OT also has a label in the clear transcript / a delivered label is R apart from transmitted data",
			c04Replay{Seed: c.Seed, Mode: "door:" + door, Case: idx, R: R.String(), Detail: strings.Join(leaks, "; "), Program: p.src})
	}
	if len(self) > 0 || len(pairs) > 0 {
		if len(pairs) > 20 {
			pairs = pairs[:20]
		}
		c.Fail("c04:streaming:transcript-leaks-R", "the streaming garbler->evaluator transcript contains R or two 16-byte values differing by R",
			c04Replay{Seed: c.Seed, Mode: "door:" + door, Case: idx, R: R.String(), Offsets: pairs, Self: self, Program: p.src,
				Inputs: strings.Join(p.gIn, ",") + "/" + strings.Join(p.eIn, ",")})
	}
	return nil
}

// runStreamAPIPage: circuit.NewStreaming / Streaming.Garble with global wire numbers that straddle
// the 64K wire page and need the 32-bit wire-id encoding; garbler-side label bookkeeping through
// GetInput / GetInputs on both sides of the page boundary.  Oracle only.
func runStreamAPIPage(c *Ctx, idx int) error {
	r := c.rng.Fork()
	ni := r.Range(8, 14)
	n0 := ni / 2 // garbler wires: inputs[0:n0]; the rest is served through GetInputs (the OT hand-off)
	page := 0x10000 * (1 + idx%2)
	base := page - n0 - r.Range(1, 3) // the EVALUATOR's wires straddle the page boundary
	if idx%4 >= 2 {
		base = page - r.Range(1, n0-1) // the garbler's wires straddle it
	}
	inputs := make([]circuit.Wire, ni)
	for i := range inputs {
		inputs[i] = circuit.Wire(base + i)
	}
	key := r.Bytes(32)
	rd := &blockLog{r: r.Fork(), maxRead: 32}
	q := newFragQueue(r.Fork(), 0)
	conn := p2p.NewConn(&duplex{r: newFragQueue(r.Fork(), 0), w: q})
	stream, err := circuit.NewStreaming(&env.Config{Rand: rd}, key, inputs, conn)
	if err != nil {
		return err
	}
	next := base + ni
	assigned := append([]circuit.Wire(nil), inputs...)
	var steps []streamStep
	for s := 0; s < r.Range(3, 6); s++ {
		k := r.Range(2, 4)
		circ := GenCircuit(r, GenOpts{MinIn: k, MaxIn: k, MinGates: 2, MaxGates: 14, MaxOut: 3})
		var in, out []circuit.Wire
		for i := 0; i < k; i++ {
			in = append(in, assigned[r.Intn(len(assigned))])
		}
		for i := 0; i < circ.Outputs.Size(); i++ {
			out = append(out, circuit.Wire(next))
			next++
		}
		assigned = append(assigned, out...)
		if err := streamingGarble(stream, s, circ, in, out); err != nil {
			return fmt.Errorf("Streaming.Garble: %v", err)
		}
		steps = append(steps, streamStep{circ, in, out})
	}
	if err := conn.Flush(); err != nil {
		return err
	}
	deadline := time.Now().Add(5 * time.Second)
	var data []byte
	for {
		q.mu.Lock()
		data = append([]byte(nil), q.log...)
		q.mu.Unlock()
		if uint64(len(data)) >= conn.Stats.Sent.Load() || time.Now().After(deadline) {
			break
		}
		time.Sleep(time.Millisecond)
	}
	go conn.Close()
	door := "stream-api:wire-ids-straddle-64K-page"
	c.Hist("door:" + door)
	c.Eval(fmt.Sprintf("door|%s|%d|%x", door, base, key), true)
	rows, err := parseStreamRows(data, steps)
	if err != nil {
		c.Fail("c04:stream-api:parse", "cannot parse the bytes Streaming.Garble wrote (wire ids above 64K): "+err.Error(), nil)
		return nil
	}
	R := setS(rd.blocks[0])
	// what the garbler hands out for these wires: one label per garbler wire (all bits 1), the OT
	// pairs of the rest through GetInputs
	var slots []ot.Label
	for i := 0; i < n0; i++ {
		slots = append(slots, circuit.LabelForBit(stream.GetInput(inputs[i]), true))
	}
	for _, row := range rows {
		slots = append(slots, row...)
	}
	pairs := slotPairs(slots, R)
	self, bp := scanR(data, R)
	if len(pairs) > 0 || len(self) > 0 || len(bp) > 0 {
		c.Fail("c04:streaming:values-differ-by-R", "the streamed garbling contains values that differ by the secret offset R (or R itself)",
			c04Replay{Seed: c.Seed, Mode: "door:" + door, Case: idx, R: R.String(), Offsets: append(pairs, bp...), Self: self,
				Detail: fmt.Sprintf("first input wire %#x, %d inputs, %d streamed circuits", base, ni, len(steps))})
	}
	// every wire GetInputs serves must be a proper pair under R, distinct per wire, and the
	// same pair GetInput serves (the OT hand-off uses GetInputs, the clear flight GetInput)
	ws := stream.GetInputs(base+n0, ni-n0)
	seen := map[[16]byte]int{}
	for i, w := range ws {
		x := w.L0
		x.Xor(w.L1)
		one := stream.GetInput(inputs[n0+i])
		if !x.Equal(R) || !one.L0.Equal(w.L0) || !one.L1.Equal(w.L1) {
			c.Fail("c04:streaming:GetInputs:wrong-wire-served", fmt.Sprintf("Streaming.GetInputs(%#x, %d)[%d] is not the label pair of wire %#x under R", base+n0, ni-n0, i, base+n0+i),
				c04Replay{Seed: c.Seed, Mode: "door:" + door, Case: idx, R: R.String()})
			break
		}
		if j, ok := seen[labelBytes(w.L0)]; ok {
			c.Fail("c04:streaming:GetInputs:wires-share-a-label", fmt.Sprintf("input wires %d and %d share a label pair", j, i), c04Replay{Seed: c.Seed, Mode: "door:" + door, Case: idx})
		}
		seen[labelBytes(w.L0)] = i
		for k := 0; k < n0; k++ {
			g := stream.GetInput(inputs[k])
			if g.L0.Equal(w.L0) || g.L0.Equal(w.L1) {
				c.Fail("c04:streaming:GetInputs:serves-a-garbler-wire", fmt.Sprintf("GetInputs serves the pair of garbler wire %d for evaluator wire %d", k, i), c04Replay{Seed: c.Seed, Mode: "door:" + door, Case: idx})
			}
		}
	}
	return nil
}

// ---- sha2pc doors: GarblerRound3 driven directly (all-ones preimage, a session object used for
// two Round3 calls, a source that reads at most 32 bytes per call / fails once).  The OutputHints
// of the payload are the known finding F2 and would mask anything else in a scan of the whole
// payload, so the label-bearing fields OUTSIDE the hints are checked as slots.
func sha2pcDoors(c *Ctx) {
	r := c.rng.Fork()
	curve := elliptic.P256()
	var a, b [32]byte
	for i := range a {
		a[i] = 0xff
	}
	copy(b[:], r.Bytes(32))
	r1, gs, err := sha2pc.GarblerRound1(r.Fork(), curve)
	if err != nil {
		c.Fail("c04:sha2pc:protocol-error", "GarblerRound1: "+err.Error(), nil)
		return
	}
	r2, _, err := sha2pc.EvaluatorRound2(r.Fork(), curve, r1, b)
	if err != nil {
		c.Fail("c04:sha2pc:protocol-error", "EvaluatorRound2: "+err.Error(), nil)
		return
	}
	type run struct {
		R     ot.Label
		slots []ot.Label
	}
	var runs []run
	for k := 0; k < 2; k++ {
		rd := &blockLog{r: r.Fork(), skipKey: true, maxRead: 32}
		if k == 1 {
			// the source fails once at the draw of an input label: Round3 must fail, not continue
			probe := &blockLog{r: r.Fork(), skipKey: true, failAt: 2 + k + r.Intn(3)}
			if r3, err := sha2pc.GarblerRound3(probe, curve, gs, a, r2); err == nil && probe.failed {
				c.Hist("door:sha2pc:entropy-source-fails-once:completed")
				R := setS(ot.Label{})
				if probe.failAt != 2 && len(probe.blocks) > 0 {
					R = setS(probe.blocks[0])
				}
				sl := append([]ot.Label(nil), r3.GarblerInputs...)
				for _, row := range r3.GarbledTables {
					sl = append(sl, row...)
				}
				if p := slotPairsFast(sl, R); len(p) > 0 {
					c.Fail("c04:sha2pc:entropy-failure:round3-leaks-R", fmt.Sprintf("the entropy source failed once at read %d; GarblerRound3 completed and its payload (outside OutputHints) contains R or values R apart", probe.failAt),
						c04Replay{Seed: c.Seed, Mode: "door:sha2pc", R: R.String(), Offsets: p})
				}
			} else {
				c.Hist("door:sha2pc:entropy-source-fails-once:refused")
			}
		}
		pre := a
		if k == 1 {
			pre = [32]byte{} // complementary preimage in the second call on the same session object
		}
		r3, err := sha2pc.GarblerRound3(rd, curve, gs, pre, r2)
		if err != nil {
			c.Fail("c04:sha2pc:protocol-error", "GarblerRound3: "+err.Error(), nil)
			return
		}
		var R ot.Label
		if len(rd.blocks) > 0 {
			R = setS(rd.blocks[0])
		} else if len(runs) > 0 {
			R = runs[0].R // no label randomness drawn: a garbling kept from the earlier call
		} else {
			c.Fail("c04:door:no-R", "sha2pc: GarblerRound3 drew no label randomness", nil)
			return
		}
		sl := append([]ot.Label(nil), r3.GarblerInputs...)
		for _, row := range r3.GarbledTables {
			sl = append(sl, row...)
		}
		runs = append(runs, run{R, sl})
		c.Hist("door:sha2pc:round3-direct:all-ones-preimage:session-reused")
		c.Eval(fmt.Sprintf("door|sha2pc|%d|%x", k, b), true)
		if len(r3.GarblerInputs) != 256 {
			c.Fail("c04:sha2pc:garbler-inputs-count", fmt.Sprintf("Round3 carries %d garbler input labels, want 256", len(r3.GarblerInputs)), nil)
		}
		if p := slotPairsFast(sl, R); len(p) > 0 {
			c.Fail("c04:sha2pc:round3-leaks-R-outside-output-hints", "the Round3 payload contains, outside OutputHints, the offset R or two label-bearing values R apart (garbler input labels / garbled rows)",
				c04Replay{Seed: c.Seed, Mode: "door:sha2pc", Case: k, R: R.String(), Offsets: p})
		}
	}
	if len(runs) == 2 {
		x := runs[0].R
		x.Xor(runs[1].R)
		all := append(append([]ot.Label(nil), runs[0].slots...), runs[1].slots...)
		for i, d := range []ot.Label{runs[0].R, runs[1].R, x} {
			if p := slotPairsFast(all, d); len(p) > 0 {
				c.Fail("c04:sha2pc:session-reused:payloads-leak-R", fmt.Sprintf("two GarblerRound3 payloads of one session object: values outside OutputHints differ by %s", []string{"R1", "R2", "R1 xor R2"}[i]),
					c04Replay{Seed: c.Seed, Mode: "door:sha2pc", R: d.String(), Offsets: p})
			}
		}
	}
}

// c04OnlySelf: only (i, i) entries (a slot EQUAL to the difference; for difference 0 that is a zero
// row, which says nothing about repetition).
func c04OnlySelf(p [][2]int) bool {
	for _, x := range p {
		if x[0] != x[1] {
			return false
		}
	}
	return true
}

// slotPairsFast: slotPairs in linear time (hash set), at most 12 results.
func slotPairsFast(slots []ot.Label, r ot.Label) [][2]int {
	var res [][2]int
	seen := make(map[[16]byte]int, len(slots))
	for i, s := range slots {
		if s.Equal(r) {
			res = append(res, [2]int{i, i})
		}
		x := s
		x.Xor(r)
		if j, ok := seen[labelBytes(x)]; ok {
			res = append(res, [2]int{j, i})
		}
		if _, ok := seen[labelBytes(s)]; !ok {
			seen[labelBytes(s)] = i
		}
		if len(res) >= 12 {
			break
		}
	}
	return res
}

// runC04Doors is called from runC04 once per run.
func runC04Doors(c *Ctx) error {
	tmp, err := os.MkdirTemp("", "c04doors-")
	if err != nil {
		return err
	}
	defer os.RemoveAll(tmp)
	reps := c.N(1, 6)
	for rep := 0; rep < reps; rep++ {
		for i := 0; i < c04WholeDoors; i++ {
			if err := runWholeDoor(c, i, tmp); err != nil {
				return fmt.Errorf("whole-circuit door %d: %v", i, err)
			}
		}
		// ONE Compiler and ONE Params object serve all streaming door sessions of this round
		params := utils.NewParams()
		comp := compiler.New(params)
		for i := 0; i < len(c04StreamDoorPrograms); i++ {
			if err := runStreamDoor(c, rep*len(c04StreamDoorPrograms)+i, tmp, comp, params); err != nil {
				params.Close()
				return fmt.Errorf("streaming door %d: %v", i, err)
			}
		}
		params.Close()
		for i := 0; i < 4; i++ {
			if err := runStreamAPIPage(c, rep*4+i); err != nil {
				return fmt.Errorf("stream-api page door: %v", err)
			}
		}
		for i := 0; i < len(c04InputWriters); i++ {
			runInputWriter(c, rep*len(c04InputWriters)+i, tmp)
		}
	}
	sha2pcDoors(c)
	return nil
}

// ---- circuit FILES in which a gate WRITES AN INPUT WIRE (finding F43, the C04 face of F35:
// circuit.Garbler takes the input labels from Garbled.Wires AFTER garbling, and a free-XOR gate of
// a wire with itself leaves the pair (0, R) / (R, 0) on the wire it writes: the garbler transmitted
// R itself).  Repaired in /repo by 407ba55: ParseMPCLC / ParseBristol reject such gates.  The door
// stays in every run: either the parser rejects the file (nothing can leak), or the session runs and
// its transcript is scanned as always - the old key fires again if the defect ever returns.
// Circuits with such gates built as Go values are outside the quantifier (no entry point produces them).
type c04Writer struct {
	name  string
	gates []circuit.Gate
	x     []bool // garbler bits (2 wires: 0, 1); evaluator wires 2, 3
	y     []bool
}

var c04InputWriters = []c04Writer{
	{"XOR(w0,w0)->w0:garbler-wire", []circuit.Gate{{Input0: 0, Input1: 0, Output: 0, Op: circuit.XOR}}, []bool{true, false}, []bool{false, true}},
	{"XNOR(w1,w1)->w1:garbler-wire", []circuit.Gate{{Input0: 1, Input1: 1, Output: 1, Op: circuit.XNOR}}, []bool{true, false}, []bool{false, true}},
	{"XOR(w2,w2)->w2:evaluator-wire", []circuit.Gate{{Input0: 2, Input1: 2, Output: 2, Op: circuit.XOR}}, []bool{true, false}, []bool{true, true}},
	{"XOR(w0,w1)->w0:garbler-wire", []circuit.Gate{{Input0: 0, Input1: 1, Output: 0, Op: circuit.XOR}}, []bool{true, true}, []bool{false, true}},
	{"AND(w0,w2)->w0:garbler-wire", []circuit.Gate{{Input0: 0, Input1: 2, Output: 0, Op: circuit.AND}}, []bool{true, true}, []bool{true, true}},
	{"INV(w3)->w3:evaluator-wire", []circuit.Gate{{Input0: 3, Output: 3, Op: circuit.INV}}, []bool{true, true}, []bool{true, true}},
}

func runInputWriter(c *Ctx, idx int, tmp string) {
	r := c.rng.Fork()
	w := c04InputWriters[idx%len(c04InputWriters)]
	gates := append([]circuit.Gate(nil), w.gates...)
	gates = append(gates,
		circuit.Gate{Input0: 0, Input1: 2, Output: 4, Op: circuit.AND},
		circuit.Gate{Input0: 1, Input1: 3, Output: 5, Op: circuit.XOR},
		circuit.Gate{Input0: 4, Input1: 5, Output: 6, Op: circuit.OR})
	orig := &circuit.Circuit{NumGates: len(gates), NumWires: 7, Gates: gates,
		Inputs:  circuit.IO{{Name: "a", Type: uintInfo(2)}, {Name: "b", Type: uintInfo(2)}},
		Outputs: circuit.IO{{Name: "r", Type: uintInfo(2)}}}
	format := []string{"mpclc", "bristol"}[(idx/len(c04InputWriters))%2]
	var buf bytes.Buffer
	if err := orig.MarshalFormat(&buf, format); err != nil {
		c.Note("input-writer %s: MarshalFormat: %v", w.name, err)
		return
	}
	file := filepath.Join(tmp, fmt.Sprintf("writer%d.%s", idx, format))
	if err := os.WriteFile(file, buf.Bytes(), 0o644); err != nil {
		return
	}
	circ, err := circuit.Parse(file)
	door := "parsed-circuit:gate-writes-input-wire:" + w.name
	c.Hist("door:parsed-circuit:gate-writes-input-wire")
	c.Eval("door|"+door+"|"+format, true)
	if err != nil {
		// rejected by the parser: nothing to garble
		c.Hist("door:parsed-circuit:gate-writes-input-wire:rejected-by-parser")
		return
	}
	grand := &blockLog{r: r.Fork(), skipKey: true}
	gOT, eOT := &recOT{OT: ot.NewCO(r.Fork())}, &recOT{OT: ot.NewCO(r.Fork())}
	res := runSession(circ, bitsToBig(w.x), bitsToBig(w.y), grand, gOT, eOT, 0, r.Fork(), nil, 20*time.Second)
	if len(grand.blocks) == 0 {
		return // refused before garbling
	}
	R := setS(grand.blocks[0])
	self, pairs := scanR(res.g2e, R)
	leaks := otLeaks(res.g2e, R, gOT.sent, eOT.recv)
	if len(self) > 0 || len(pairs) > 0 || len(leaks) > 0 {
		c.Fail("c04:whole-circuit:gate-writes-input-wire:garbler-transmits-R",
			"a circuit in which a gate writes an input wire (accepted by circuit.Parse) makes circuit.Garbler transmit the offset R itself (in clear or through the OT) or two values R apart: the input labels are taken from Garbled.Wires after garbling",
			c04Replay{Seed: c.Seed, Mode: "door:" + door + ":" + format, Case: idx, R: R.String(), Offsets: pairs, Self: self,
				Detail: circuitText(circ) + " | " + strings.Join(leaks, "; ") + fmt.Sprintf(" | garbler error: %v, evaluator error: %v", res.gErr, res.eErr),
				Inputs: bitsString(w.x) + "/" + bitsString(w.y)})
	}
}
