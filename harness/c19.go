package main

// C19 — peer-to-peer mesh always forms completely and consistently.
//
// Real p2p.Create / p2p.Join / Network.Connect on 127.0.0.1 for n parties and
// k connections per pair.  Three kinds of run:
//   free    parties start in a random order after random short delays;
//   delays  as free, and the verifYield hook (site "acceptConn:before-register")
//           sleeps a random short time in every accept goroutine;
//   freeze  the goroutine making the m-th call of the hook is blocked until
//           every other goroutine has come to rest, then released: a legal
//           schedule (the goroutine is merely slow), made deterministic.  These
//           are the schedules that broke acceptConn before /repo commit 753a572
//           (finding F11: need[c]-- was published before the connection was
//           stored); the F11 signature is still recognised by the oracle (key
//           c19:acceptConn:need-before-addPeer:...) should it come back.
// Observables per party: Connect status, the peer table at the moment Connect
// returned, the table after everything came to rest, and a ping matrix (a
// unique token sent on every stored Conns[c]; the receiving end reports on
// which (peer, c) of its own table it arrived).

import (
	"fmt"
	"io"
	"net"
	"os"
	"runtime"
	"sort"
	"strings"
	"sync"
	"sync/atomic"
	"time"

	"github.com/markkurossi/mpc/ot"
	"github.com/markkurossi/mpc/p2p"
)

func init() { register("c19", runC19) }

type c19Cfg struct {
	N, K   int
	Order  []int // Join order of parties 1..n-1
	Mode   string
	Freeze int
	// mode "late": all parties Join (JoinGap between the calls), every party but
	// Late starts Connect at once, party Late after StaggerMs
	Late      int
	StaggerMs int
	JoinGapMs int
	// after the mesh has formed: stream this many tagged, numbered records over every
	// connection in both directions, the receivers starting 200 ms late
	StreamRecs int
	// mode "slow": party SlowParty reaches the leader through an in-process TCP forwarder that
	// delays the leader -> party direction by SlowMs (it joins with the forwarder's address as
	// the leader's address); all parties start Connect together
	SlowParty int
	SlowMs    int
	// mode "failjoin": before party FailParty joins successfully, a failed attempt happens:
	// FailKind 1 its Join on an address that is busy | 2 its Join while the leader is not
	// listening yet | 3 it Joins and is Closed before Connect, a replacement joins | 4 a stray
	// TCP connection to the leader that sends nothing and closes | 5 one that sends garbage;
	// then two garbage collections, then the real Join, then everybody calls Connect
	FailParty int
	FailKind  int
	// mode "door": an ordinary run through a less-travelled door: AddrForm 1 = addresses given
	// as ":port", 2 = "localhost:port" (0 = "127.0.0.1:port"); Repeat = the mesh is formed,
	// closed, and formed again on the same addresses; Addrs = addresses chosen by the caller
	AddrForm int
	Repeat   bool
	Addrs    []string
}

var c19FailKinds = []string{"", "busy-address", "leader-not-listening", "closed-before-connect", "stray-silent-connection", "stray-garbage-connection"}

// c19Forwarder: a TCP forwarder to [target]; client -> target is copied at once, target ->
// client is delivered [delay] late (order and pipelining preserved).
type c19Forwarder struct {
	l     net.Listener
	mu    sync.Mutex
	conns []net.Conn
}

func c19NewForwarder(target string, delay time.Duration) (*c19Forwarder, error) {
	l, err := net.Listen("tcp", "127.0.0.1:0")
	if err != nil {
		return nil, err
	}
	f := &c19Forwarder{l: l}
	go func() {
		for {
			cl, err := l.Accept()
			if err != nil {
				return
			}
			up, err := net.Dial("tcp", target)
			if err != nil {
				cl.Close()
				continue
			}
			f.mu.Lock()
			f.conns = append(f.conns, cl, up)
			f.mu.Unlock()
			go func() { io.Copy(up, cl); up.Close() }()
			type chunk struct {
				b  []byte
				at time.Time
			}
			ch := make(chan chunk, 1024)
			go func() {
				defer close(ch)
				for {
					buf := make([]byte, 32768)
					n, err := up.Read(buf)
					if n > 0 {
						ch <- chunk{buf[:n], time.Now().Add(delay)}
					}
					if err != nil {
						return
					}
				}
			}()
			go func() {
				for c := range ch {
					if d := time.Until(c.at); d > 0 {
						time.Sleep(d)
					}
					if _, err := cl.Write(c.b); err != nil {
						break
					}
				}
				cl.Close()
			}()
		}
	}()
	return f, nil
}

func (f *c19Forwarder) Addr() string { return f.l.Addr().String() }
func (f *c19Forwarder) Close() {
	f.l.Close()
	f.mu.Lock()
	for _, c := range f.conns {
		c.Close()
	}
	f.mu.Unlock()
}

type c19Table struct {
	Peers []int
	Rows  map[int][]bool // peer id -> k flags
	Lens  map[int]int    // peer id -> len(Conns)
}

type c19Ping struct {
	J, C int
	Tok  []int // sender, sender's peer, sender's c; nil = none arrived
}

// c19StreamFail: what went wrong on the stream received by party I on Peers[J].Conns[C]
type c19StreamFail struct {
	I, J, C int
	Record  int
	What    string
}

// c19Early: the message party From sent on its Conns[C] to party To right after its own
// Connect returned did not arrive as the first thing on To's Peers[From].Conns[C]
type c19Early struct {
	From, To, C int
	Got         []int
}

type c19Party struct {
	HookNotReached bool // freeze mode: the hook call to be delayed was never made
	EarlyLost      []c19Early
	Stream         []c19StreamFail
	Status         int // 0 nil, 1 error, 2 never returned
	Err            string
	Ret            *c19Table
	Fin            *c19Table
	Pings          []c19Ping
}

func c19Snapshot(nw *p2p.Network, k int) (*c19Table, []p2p.VerifPeerConns) {
	snap := nw.VerifSnapshot()
	t := &c19Table{Rows: map[int][]bool{}, Lens: map[int]int{}}
	for _, row := range snap {
		t.Peers = append(t.Peers, row.ID)
		fl := make([]bool, k)
		for c := 0; c < k && c < len(row.Conns); c++ {
			fl[c] = row.Conns[c] != nil
		}
		t.Rows[row.ID] = fl
		t.Lens[row.ID] = len(row.Conns)
	}
	return t, snap
}

func (t *c19Table) sx(self int) SX {
	if t == nil {
		return L()
	}
	var rows []SX
	for _, id := range t.Peers {
		if id == self {
			continue
		}
		rows = append(rows, Bits(t.Rows[id]))
	}
	return L(Ints(t.Peers), L(rows...))
}

// complete: peers are exactly 0..n-1 and every other peer has exactly k stored connections.
func (t *c19Table) complete(self, n, k int) string {
	if t == nil {
		return "no-table"
	}
	if len(t.Peers) != n {
		return "short-peer-table"
	}
	for i, id := range t.Peers {
		if id != i {
			return "wrong-peer-ids"
		}
	}
	for _, id := range t.Peers {
		if id == self {
			continue
		}
		for _, b := range t.Rows[id] {
			if !b {
				return "nil-conn"
			}
		}
		if t.Lens[id] != k {
			return "conn-count"
		}
	}
	return ""
}

func c19FreePorts(n int) ([]string, error) {
	addrs := make([]string, n)
	var ls []net.Listener
	for i := 0; i < n; i++ {
		l, err := net.Listen("tcp", "127.0.0.1:0")
		if err != nil {
			return nil, err
		}
		ls = append(ls, l)
		addrs[i] = l.Addr().String()
	}
	for _, l := range ls {
		l.Close()
	}
	return addrs, nil
}

func c19Close(nw *p2p.Network) {
	defer func() { recover() }() // Peer.Close dereferences nil entries of Conns
	nw.Close()
}

// c19Run runs one configuration on the real code.
func c19Run(cfg c19Cfg, rng *RNG) ([]c19Party, error) {
	n, k := cfg.N, cfg.K
	addrs := append([]string(nil), cfg.Addrs...)
	var err error
	if addrs == nil {
		addrs, err = c19FreePorts(n + 1) // addrs[n]: the address of a failed attempt
		if err != nil {
			return nil, err
		}
	}
	for i := range addrs {
		port := addrs[i][strings.LastIndex(addrs[i], ":"):]
		switch cfg.AddrForm {
		case 1:
			addrs[i] = port
		case 2:
			addrs[i] = "localhost" + port
		}
	}
	conc := cfg.Mode == "late" || cfg.Mode == "slow" || cfg.Mode == "failjoin" || cfg.Mode == "door"

	var lastEvent atomic.Int64
	touch := func() { lastEvent.Store(time.Now().UnixNano()) }
	touch()

	// hook
	var calls atomic.Int64
	blocked := make(chan struct{})
	release := make(chan struct{})
	var rmu sync.Mutex
	switch cfg.Mode {
	case "freeze":
		p2p.SetVerifYield(func(site string) {
			touch()
			if site != "acceptConn:before-register" {
				return
			}
			if int(calls.Add(1)) == cfg.Freeze {
				close(blocked)
				<-release
				touch()
			}
		})
	case "delays":
		p2p.SetVerifYield(func(site string) {
			touch()
			rmu.Lock()
			d := time.Duration(rng.Intn(1500)) * time.Microsecond
			rmu.Unlock()
			time.Sleep(d)
			touch()
		})
	case "late", "slow", "failjoin", "door":
		// runs concurrently with other runs: leaves the global hook alone
	default:
		p2p.SetVerifYield(func(site string) { touch() })
	}
	if !conc {
		defer p2p.SetVerifYield(nil)
	}

	nws := make([]*p2p.Network, n)
	if cfg.Mode == "failjoin" && cfg.FailKind == 2 {
		if nwX, jerr := p2p.Join(addrs[0], addrs[n], cfg.FailParty, k); jerr == nil {
			c19Close(nwX)
			return nil, fmt.Errorf("Join towards a leader that is not listening succeeded")
		}
		runtime.GC()
		runtime.GC()
	}
	nws[0], err = p2p.Create(addrs[0], n, k)
	if err != nil {
		if cfg.Mode == "door" {
			return c19SetupFailed(n, 0, "Create("+addrs[0]+"): "+err.Error()), nil
		}
		return nil, err
	}
	for _, j := range cfg.Order {
		if cfg.JoinGapMs > 0 {
			time.Sleep(time.Duration(rng.Intn(cfg.JoinGapMs+1)) * time.Millisecond)
		}
		if cfg.Mode == "failjoin" && j == cfg.FailParty && cfg.FailKind != 2 {
			switch cfg.FailKind {
			case 1:
				busy, lerr := net.Listen("tcp", addrs[n])
				if lerr != nil {
					return nil, lerr
				}
				defer busy.Close()
				if nwX, jerr := p2p.Join(addrs[0], addrs[n], j, k); jerr == nil {
					c19Close(nwX)
					return nil, fmt.Errorf("Join on a busy address succeeded")
				}
			case 3:
				nwX, jerr := p2p.Join(addrs[0], addrs[n], j, k)
				if jerr != nil {
					return nil, jerr
				}
				c19Close(nwX)
			case 4, 5:
				sc, derr := net.Dial("tcp", addrs[0])
				if derr != nil {
					return nil, derr
				}
				if cfg.FailKind == 5 {
					sc.Write([]byte("GET / HTTP/1.0\r\n\r\n"))
				}
				sc.Close()
			}
			runtime.GC()
			time.Sleep(10 * time.Millisecond)
			runtime.GC()
			time.Sleep(10 * time.Millisecond)
		}
		leaderAddr := addrs[0]
		if cfg.Mode == "slow" && j == cfg.SlowParty {
			fwd, ferr := c19NewForwarder(addrs[0], time.Duration(cfg.SlowMs)*time.Millisecond)
			if ferr != nil {
				return nil, ferr
			}
			defer fwd.Close()
			leaderAddr = fwd.Addr()
		}
		nws[j], err = p2p.Join(leaderAddr, addrs[j], j, k)
		if err != nil {
			for _, nw := range nws {
				if nw != nil {
					c19Close(nw)
				}
			}
			if cfg.Mode == "door" {
				return c19SetupFailed(n, j, "Join("+leaderAddr+", "+addrs[j]+"): "+err.Error()), nil
			}
			return nil, err
		}
	}

	res := make([]c19Party, n)
	var returned atomic.Int64
	var closing atomic.Bool
	var wg sync.WaitGroup
	delays := make([]time.Duration, n)
	for i := range delays {
		delays[i] = time.Duration(rng.Intn(3000)) * time.Microsecond
		if cfg.Mode == "late" && i == cfg.Late {
			delays[i] = time.Duration(cfg.StaggerMs) * time.Millisecond
		}
	}
	var mu sync.Mutex
	for i := 0; i < n; i++ {
		wg.Add(1)
		go func(i int) {
			defer wg.Done()
			time.Sleep(delays[i])
			var err error
			func() {
				defer func() {
					if r := recover(); r != nil {
						err = fmt.Errorf("panic: %v", r)
					}
				}()
				err = nws[i].Connect()
			}()
			var tab *c19Table
			if err == nil && !closing.Load() {
				var snap []p2p.VerifPeerConns
				tab, snap = c19Snapshot(nws[i], k)
				// every connection must be usable from the moment Connect returns: send a tagged
				// message on each of them at once, without waiting for anybody else
				func() {
					defer func() { recover() }()
					for _, row := range snap {
						if row.ID == i {
							continue
						}
						for cc := 0; cc < k && cc < len(row.Conns); cc++ {
							if conn := row.Conns[cc]; conn != nil {
								conn.SendUint32(1000 + i)
								conn.SendUint32(row.ID)
								conn.SendUint32(cc)
								conn.Flush()
							}
						}
					}
				}()
			}
			mu.Lock()
			if closing.Load() {
				mu.Unlock()
				return // woken by our pings or Close: the party never returned on its own
			}
			if err != nil {
				res[i].Status, res[i].Err = 1, err.Error()
			} else {
				res[i].Status, res[i].Ret = 0, tab
			}
			mu.Unlock()
			returned.Add(1)
			touch()
		}(i)
	}
	for i := range res {
		res[i].Status = 2
	}

	// wait until all Connect calls returned, or nothing has happened for [quiet]
	waitRest := func(quiet, max time.Duration) {
		deadline := time.Now().Add(max)
		for time.Now().Before(deadline) {
			if int(returned.Load()) == n {
				return
			}
			if time.Since(time.Unix(0, lastEvent.Load())) > quiet {
				return
			}
			time.Sleep(5 * time.Millisecond)
		}
	}
	hookMissing := false
	if cfg.Mode == "freeze" {
		select {
		case <-blocked:
			waitRest(250*time.Millisecond, 5*time.Second)
		case <-time.After(5 * time.Second):
			hookMissing = true
		}
		close(release)
		touch()
		waitRest(250*time.Millisecond, 5*time.Second)
	} else if conc {
		st := time.Duration(cfg.StaggerMs+cfg.SlowMs) * time.Millisecond
		waitRest(st+1500*time.Millisecond, st+8*time.Second)
	} else {
		waitRest(1500*time.Millisecond, 8*time.Second)
	}
	// let accept goroutines that are past a returned Connect finish their stores
	time.Sleep(30 * time.Millisecond)

	// verdict time: a Connect that returns from now on (woken by our pings or
	// our Close) counts as never returned
	closing.Store(true)
	mu.Lock()
	status := make([]int, n)
	for i := range res {
		status[i] = res[i].Status
	}
	mu.Unlock()

	// final tables and the ping matrix (parties whose Connect returned nil take part)
	type slot struct{ i, j, c int }
	conns := map[slot]*p2p.Conn{}
	for i := 0; i < n; i++ {
		tab, snap := c19Snapshot(nws[i], k)
		res[i].Fin = tab
		if status[i] != 0 {
			continue
		}
		for _, row := range snap {
			if row.ID == i {
				continue
			}
			for c := 0; c < k && c < len(row.Conns); c++ {
				if row.Conns[c] != nil {
					conns[slot{i, row.ID, c}] = row.Conns[c]
				}
			}
		}
	}
	var pmu sync.Mutex
	got := map[slot][]int{}
	gotEarly := map[slot][]int{}
	var rwg, swg sync.WaitGroup
	for s, conn := range conns {
		swg.Add(1)
		go func(s slot, conn *p2p.Conn) {
			defer swg.Done()
			defer func() { recover() }()
			if status[s.j] != 0 {
				return // the other end is still inside Connect and would read the token as protocol data
			}
			conn.SendUint32(s.i)
			conn.SendUint32(s.j)
			conn.SendUint32(s.c)
			conn.Flush()
		}(s, conn)
		rwg.Add(1)
		go func(s slot, conn *p2p.Conn) {
			defer rwg.Done()
			defer func() { recover() }()
			// first the message the peer sent right after its own Connect returned, then the ping
			for round := 0; round < 2; round++ {
				var tok []int
				for x := 0; x < 3; x++ {
					v, err := conn.ReceiveUint32()
					if err != nil {
						return
					}
					tok = append(tok, v)
				}
				pmu.Lock()
				if round == 0 {
					gotEarly[s] = tok
				} else {
					got[s] = tok
				}
				pmu.Unlock()
			}
		}(s, conn)
	}
	swg.Wait()
	rdone := make(chan struct{})
	go func() { rwg.Wait(); close(rdone) }()
	allOK := true
	for _, s := range status {
		if s != 0 {
			allOK = false
		}
	}
	if allOK {
		select {
		case <-rdone:
		case <-time.After(3 * time.Second):
		}
	} else {
		select {
		case <-rdone:
		case <-time.After(300 * time.Millisecond):
		}
	}
	if cfg.StreamRecs > 0 && allOK {
		// "data sent on the k-th connection arrives there; nothing lost, duplicated": record r
		// on the link (i -> j, c) is Uint32 tag(i,j,c), Uint32 r and, for every third r, a
		// Label (tag, r).  The receiver lags behind, so that socket reads end inside fields.
		nrec := cfg.StreamRecs
		tag := func(i, j, c int) int { return 0x5a000000 | i<<16 | j<<8 | c }
		var smu sync.Mutex
		var sw, rw sync.WaitGroup
		for s, conn := range conns {
			sw.Add(1)
			go func(s slot, conn *p2p.Conn) {
				defer sw.Done()
				defer func() { recover() }()
				var ld ot.LabelData
				tg := tag(s.i, s.j, s.c)
				for r := 0; r < nrec; r++ {
					if conn.SendUint32(tg) != nil || conn.SendUint32(r) != nil {
						return
					}
					if r%3 == 0 {
						if conn.SendLabel(ot.Label{D0: uint64(tg), D1: uint64(r)}, &ld) != nil {
							return
						}
					}
				}
				conn.Flush()
			}(s, conn)
			rw.Add(1)
			go func(s slot, conn *p2p.Conn) {
				defer rw.Done()
				failf := func(r int, format string, a ...interface{}) {
					smu.Lock()
					res[s.i].Stream = append(res[s.i].Stream, c19StreamFail{I: s.i, J: s.j, C: s.c, Record: r, What: fmt.Sprintf(format, a...)})
					smu.Unlock()
				}
				defer func() {
					if p := recover(); p != nil {
						failf(-1, "panic: %v", p)
					}
				}()
				time.Sleep(200 * time.Millisecond)
				var ld ot.LabelData
				want := tag(s.j, s.i, s.c) // what the peer sends on its Conns[c] to us
				for r := 0; r < nrec; r++ {
					tg, err := conn.ReceiveUint32()
					if err != nil {
						failf(r, "receive error: %v", err)
						return
					}
					seq, err := conn.ReceiveUint32()
					if err != nil {
						failf(r, "receive error: %v", err)
						return
					}
					if tg != want || seq != r {
						failf(r, "expected record (tag %#x, seq %d), got (tag %#x, seq %d)", want, r, tg, seq)
						return
					}
					if r%3 == 0 {
						var l ot.Label
						if err := conn.ReceiveLabel(&l, &ld); err != nil {
							failf(r, "receive error: %v", err)
							return
						}
						if l.D0 != uint64(want) || l.D1 != uint64(r) {
							failf(r, "expected label (%#x, %d), got (%#x, %d)", want, r, l.D0, l.D1)
							return
						}
					}
				}
			}(s, conn)
		}
		sdone := make(chan struct{})
		go func() { sw.Wait(); rw.Wait(); close(sdone) }()
		select {
		case <-sdone:
		case <-time.After(20 * time.Second):
			smu.Lock()
			res[0].Stream = append(res[0].Stream, c19StreamFail{I: -1, J: -1, C: -1, Record: -1, What: "streams did not finish within 20 s"})
			smu.Unlock()
		}
	}
	for _, nw := range nws {
		c19Close(nw)
	}
	select {
	case <-rdone:
	case <-time.After(2 * time.Second):
	}
	cdone := make(chan struct{})
	go func() { wg.Wait(); close(cdone) }()
	select {
	case <-cdone:
	case <-time.After(3 * time.Second):
	}

	if hookMissing && calls.Load() > 0 {
		// the hook works, but the scenario never got as far as the call to be delayed (e.g. a
		// Connect that never returns): that is a stalled scenario, reported by the oracle below,
		// not a reason to abort the whole run
		res[0].HookNotReached = true
		hookMissing = false
	}
	if hookMissing {
		return nil, fmt.Errorf("hook call %d of yield(\"acceptConn:before-register\") was never made (%d calls): is the yield line in /repo/p2p/network.go acceptConn missing?", cfg.Freeze, calls.Load())
	}
	pmu.Lock()
	for i := 0; i < n; i++ {
		if status[i] != 0 {
			continue
		}
		var ps []c19Ping
		for s := range conns {
			if s.i == i {
				ps = append(ps, c19Ping{J: s.j, C: s.c, Tok: got[s]})
			}
		}
		sort.Slice(ps, func(a, b int) bool {
			if ps[a].J != ps[b].J {
				return ps[a].J < ps[b].J
			}
			return ps[a].C < ps[b].C
		})
		res[i].Pings = ps
		for s := range conns {
			if s.i != i || status[s.j] != 0 {
				continue
			}
			e := gotEarly[s]
			if len(e) != 3 || e[0] != 1000+s.j || e[1] != i || e[2] != s.c {
				res[i].EarlyLost = append(res[i].EarlyLost, c19Early{From: s.j, To: i, C: s.c, Got: e})
			}
		}
		sort.Slice(res[i].EarlyLost, func(a, b int) bool {
			x, y := res[i].EarlyLost[a], res[i].EarlyLost[b]
			return x.From < y.From || (x.From == y.From && x.C < y.C)
		})
	}
	pmu.Unlock()
	return res, nil
}

func c19ObsSX(res []c19Party) SX {
	var ps []SX
	for i, p := range res {
		var pings []SX
		for _, pg := range p.Pings {
			tok := L()
			if pg.Tok != nil {
				tok = Ints(pg.Tok)
			}
			pings = append(pings, L(I(pg.J), I(pg.C), tok))
		}
		ret := L()
		if p.Status == 0 {
			ret = p.Ret.sx(i)
		}
		ps = append(ps, L(I(p.Status), ret, p.Fin.sx(i), L(pings...)))
	}
	return L(ps...)
}

// c19Oracle evaluates the property on the observed run; returns symptoms.
func c19Oracle(cfg c19Cfg, res []c19Party) (symptoms []string, f11 bool) {
	n, k := cfg.N, cfg.K
	add := func(s string) { symptoms = append(symptoms, s) }
	leaderReturned := res[0].Status == 0
	for i, p := range res {
		switch p.Status {
		case 2:
			add(fmt.Sprintf("party %d: stalled (Connect never returned)", i))
			if leaderReturned {
				// the leader's Connect returned although a party is still
				// waiting for the network info: need[0] reached 0 early
				f11 = true
			}
		case 1:
			add(fmt.Sprintf("party %d: Connect error: %s", i, p.Err))
		case 0:
			if s := p.Ret.complete(i, n, k); s != "" {
				add(fmt.Sprintf("party %d: table at Connect return: %s", i, s))
				if p.Fin.complete(i, n, k) == "" {
					// incomplete when Connect returned, complete a moment later:
					// need[c] was published before the table was written
					f11 = true
				}
			}
			if s := p.Fin.complete(i, n, k); s != "" {
				add(fmt.Sprintf("party %d: settled table: %s", i, s))
			}
			for _, pg := range p.Pings {
				if pg.Tok == nil {
					add(fmt.Sprintf("party %d: nothing arrived on Peers[%d].Conns[%d]", i, pg.J, pg.C))
				} else if pg.Tok[0] != pg.J || pg.Tok[1] != i || pg.Tok[2] != pg.C {
					add(fmt.Sprintf("party %d: Peers[%d].Conns[%d] is cross-wired: token of party %d Peers[%d].Conns[%d]",
						i, pg.J, pg.C, pg.Tok[0], pg.Tok[1], pg.Tok[2]))
				}
			}
		}
	}
	// The leader's settled table holds Conns[0] of all n-1 peers, so need[0]
	// reached 0 and the leader went on to distribute the peer list; yet a party
	// never got the list or got a short one: the list was read before the last
	// addPeer (the leader read nw.Peers inside the window).
	leaderHasAll := len(res[0].Fin.Peers) == n
	for _, id := range res[0].Fin.Peers {
		if id != 0 && !res[0].Fin.Rows[id][0] {
			leaderHasAll = false
		}
	}
	if leaderHasAll {
		for j := 1; j < n; j++ {
			if res[j].Status != 0 || len(res[j].Fin.Peers) < n {
				f11 = true
			}
		}
	}
	return
}

func c19Symptom(symptoms []string) string {
	has := func(sub string) bool {
		for _, s := range symptoms {
			if len(s) >= len(sub) && containsStr(s, sub) {
				return true
			}
		}
		return false
	}
	switch {
	case has("stalled"):
		return "stalled"
	case has("Connect error"):
		return "connect-error"
	case has("short-peer-table"):
		return "short-peer-table"
	case has("nil-conn"), has("conn-count"):
		return "nil-conn"
	case has("cross-wired"):
		return "cross-wired"
	case has("nothing arrived"):
		return "lost"
	}
	return "other"
}

func containsStr(s, sub string) bool {
	for i := 0; i+len(sub) <= len(s); i++ {
		if s[i:i+len(sub)] == sub {
			return true
		}
	}
	return false
}

func c19Perm(rng *RNG, n int, kind int) []int {
	o := make([]int, 0, n-1)
	for j := 1; j < n; j++ {
		o = append(o, j)
	}
	switch kind {
	case 1: // descending
		sort.Sort(sort.Reverse(sort.IntSlice(o)))
	case 2: // random
		for i := len(o) - 1; i > 0; i-- {
			j := rng.Intn(i + 1)
			o[i], o[j] = o[j], o[i]
		}
	}
	return o
}

func runC19(c *Ctx) error {
	// network.go logs every dial and new peer on stdout
	if devnull, err := os.OpenFile(os.DevNull, os.O_WRONLY, 0); err == nil {
		saved := os.Stdout
		os.Stdout = devnull
		defer func() { os.Stdout = saved; devnull.Close() }()
	}

	var cfgs []c19Cfg
	// hook-driven schedules whose hook-call order is fixed by the protocol:
	// the first n-1 calls are the leader's accepts of connection 0 in Join
	// order; with n = 2 every call is the leader's; with n = 3, k = 1 the third
	// call is party 2 accepting party 1.
	type fz struct {
		n, k, m int
		order   []int
	}
	fzs := []fz{
		{2, 1, 1, []int{1}}, {2, 2, 2, []int{1}}, {2, 2, 1, []int{1}}, {2, 3, 3, []int{1}},
		{2, 3, 2, []int{1}}, {2, 4, 2, []int{1}}, {2, 4, 3, []int{1}}, // a hello of connection c >= 1 delayed: later ones register first
		{3, 1, 2, []int{1, 2}}, {3, 1, 2, []int{2, 1}}, {3, 2, 2, []int{1, 2}}, {3, 1, 3, []int{1, 2}},
		{4, 1, 3, []int{1, 3, 2}},
	}
	if c.Thorough() {
		fzs = append(fzs, fz{2, 4, 4, []int{1}}, fz{2, 4, 2, []int{1}}, fz{4, 1, 3, []int{1, 2, 3}},
			fz{4, 2, 3, []int{3, 2, 1}}, fz{5, 1, 4, []int{1, 2, 3, 4}}, fz{3, 1, 1, []int{1, 2}},
			fz{3, 3, 2, []int{2, 1}}, fz{2, 1, 1, []int{1}})
	}
	for _, f := range fzs {
		cfgs = append(cfgs, c19Cfg{N: f.n, K: f.k, Order: f.order, Mode: "freeze", Freeze: f.m})
	}
	// free and delayed runs: 2..6 parties x 1..4 connections x join orders
	nFree := c.N(14, 160)
	for x := 0; x < nFree; x++ {
		n := 2 + x%5
		k := 1 + (x/5+x)%4
		if x >= 20 {
			n, k = c.rng.Range(2, 6), c.rng.Range(1, 4)
		}
		mode := "free"
		if x%3 == 2 {
			mode = "delays"
		}
		cfgs = append(cfgs, c19Cfg{N: n, K: k, Order: c19Perm(c.rng, n, x%3), Mode: mode})
	}

	report := func(cfg c19Cfg, res []c19Party) { c19Report(c, cfg, res) }
	runOne := c19RunOne

	// late-start scenarios ("every order and timing in which the parties start"): they
	// run concurrently with each other and with the free/delays runs below (never with the
	// freeze runs, which count the calls of the global hook)
	maxSt := c.N(2500, 6000)
	var lates []c19Cfg
	lateSpec := [][3]int{{2, 1, 1}, {3, 2, 2}, {4, 1, 0}, {5, 3, 3}, {3, 1, 1}}
	if c.Thorough() {
		lateSpec = append(lateSpec, [3]int{6, 2, 5}, [3]int{4, 4, 2}, [3]int{2, 3, 0}, [3]int{6, 1, 1}, [3]int{3, 3, 0})
	}
	for x, sp := range lateSpec {
		lates = append(lates, c19Cfg{N: sp[0], K: sp[1], Order: c19Perm(c.rng, sp[0], x%3), Mode: "late", Late: sp[2],
			StaggerMs: c.rng.Range(1200, maxSt), JoinGapMs: []int{0, 150, 400}[x%3],
			StreamRecs: []int{200000, 150000, 0, 0, 250000, 0, 0, 100000, 0, 0}[x%10]})
	}
	// slow-link scenarios: each non-leader party in turn, 3- and 4-party meshes
	for _, nk := range [][2]int{{3, 1}, {4, 2}} {
		for sp := 1; sp < nk[0]; sp++ {
			lates = append(lates, c19Cfg{N: nk[0], K: nk[1], Order: c19Perm(c.rng, nk[0], sp%3), Mode: "slow", Late: -1,
				SlowParty: sp, SlowMs: c.rng.Range(100, 400)})
		}
	}
	// failed-attempt scenarios: a Join that fails (own address busy; leader not listening yet)
	// followed by a successful one.  Kinds 3..5 (a joined party closed before Connect, stray
	// connections to the leader) only with C19_EXPERIMENTAL set: see notes/C19-findings.md.
	failKinds := []int{1, 2, 1, 2}
	if os.Getenv("C19_EXPERIMENTAL") != "" {
		failKinds = append(failKinds, 3, 4, 5)
	}
	for x, fk := range failKinds {
		nn := []int{3, 2, 2, 4}[x%4]
		lates = append(lates, c19Cfg{N: nn, K: 1 + x%2, Order: c19Perm(c.rng, nn, x%3), Mode: "failjoin", Late: -1,
			FailParty: 1 + c.rng.Intn(nn-1), FailKind: fk})
	}
	lates = append(lates, c19DoorCfgs(c)...)
	type lateRes struct {
		res []c19Party
		err error
	}
	lateOut := make([]lateRes, len(lates))
	lateRngs := make([]*RNG, len(lates))
	for i := range lates {
		lateRngs[i] = c.rng.Fork()
	}
	var lateWG sync.WaitGroup
	// other runtime environments and separate processes: started now, collected at the end
	var children []*c19Child
	procRes := make(chan func(), 4)
	nProcs := 2
	startLate := func() {
		// (after the hook-driven runs, whose verdicts rest on a quiescence window)
		children = c19StartChildren(c)
		go c19Processes(c, 3, 2, "GOMAXPROCS=1", procRes)
		go c19Processes(c, 4, 1, "", procRes)
		for i := range lates {
			lateWG.Add(1)
			go func(i int) {
				defer lateWG.Done()
				r, e := runOne(lates[i], lateRngs[i])
				lateOut[i] = lateRes{r, e}
			}(i)
		}
	}
	lateStarted := false
	for _, cfg := range cfgs {
		if cfg.Mode != "freeze" && !lateStarted {
			lateStarted = true
			startLate()
		}
		res, err := runOne(cfg, c.rng.Fork())
		if err != nil {
			return fmt.Errorf("c19 %+v: %v", cfg, err)
		}
		report(cfg, res)
	}
	if !lateStarted {
		startLate()
	}
	lateWG.Wait()
	for i, cfg := range lates {
		if lateOut[i].err != nil {
			return fmt.Errorf("c19 %+v: %v", cfg, lateOut[i].err)
		}
		report(cfg, lateOut[i].res)
	}
	c19ArgDoors(c)
	c19MergeChildren(c, children)
	for i := 0; i < nProcs; i++ {
		(<-procRes)()
	}
	c19CheckTiming(c)
	// wire cases (c19wire.go): one real party among scripted raw-TCP peers
	return c19Wire(c)
}

func c19Report(c *Ctx, cfg c19Cfg, res []c19Party) {
	key := fmt.Sprintf("%d/%d/%v/%s/%d/%d/%d", cfg.N, cfg.K, cfg.Order, cfg.Mode, cfg.Freeze, cfg.Late, cfg.StaggerMs)
	c.Eval(key, cfg.N >= 3 || cfg.K >= 2)
	c.Hist(fmt.Sprintf("n=%d", cfg.N))
	c.Hist(fmt.Sprintf("k=%d", cfg.K))
	c.Hist("mode=" + cfg.Mode)

	symptoms, f11 := c19Oracle(cfg, res)
	seenEarly := map[string]bool{}
	for _, p := range res {
		for _, e := range p.EarlyLost {
			key := fmt.Sprintf("c19:early-data-lost:party%d->%d:conn%d", e.From, e.To, e.C)
			if seenEarly[key] {
				continue
			}
			seenEarly[key] = true
			c.Fail(key, fmt.Sprintf("n=%d k=%d join order %v mode %s: the mesh formed, but the message party %d sent on Peers[%d].Conns[%d] immediately after its own Connect returned is not the first thing party %d receives on Peers[%d].Conns[%d] (got %v)",
				cfg.N, cfg.K, cfg.Order, cfg.Mode, e.From, e.To, e.C, e.To, e.From, e.C, e.Got),
				map[string]interface{}{"cfg": cfg, "lost": e})
		}
	}
	if cfg.StreamRecs > 0 {
		c.Hist("post-connect-stream")
		smu := map[string]bool{}
		for _, p := range res {
			for _, sf := range p.Stream {
				key := fmt.Sprintf("c19:post-connect-stream:%d<->%d#%d:corrupted-or-duplicated", sf.I, sf.J, sf.C)
				if smu[key] {
					continue
				}
				smu[key] = true
				c.Fail(key, fmt.Sprintf("n=%d k=%d: the mesh formed; %d tagged, numbered records were streamed over every connection in both directions (receivers 200 ms late); party %d, Peers[%d].Conns[%d], record %d: %s",
					cfg.N, cfg.K, cfg.StreamRecs, sf.I, sf.J, sf.C, sf.Record, sf.What),
					map[string]interface{}{"cfg": cfg, "failure": sf})
			}
		}
	}
	input := L(I(cfg.N), I(cfg.K), Ints(cfg.Order), I(cfg.Freeze))
	obs := c19ObsSX(res)
	c.Sample(map[string]interface{}{"cfg": cfg, "symptoms": symptoms})
	if cfg.Mode == "freeze" && len(res) > 0 && res[0].HookNotReached {
		symptoms = append(symptoms, fmt.Sprintf("hook call %d of yield(acceptConn:before-register) was never reached", cfg.Freeze))
	}
	if len(symptoms) == 0 {
		c.Hist("clean")
		c.Case(input, obs)
		return
	}
	sym := c19Symptom(symptoms)
	c.Hist("failing:" + cfg.Mode + ":" + sym)
	var fkey string
	switch {
	case cfg.Mode == "late":
		who := fmt.Sprintf("party%d", cfg.Late)
		if cfg.Late == 0 {
			who = "leader"
		}
		fkey = "c19:late-start:" + who + ":" + sym
	case cfg.Mode == "slow":
		fkey = fmt.Sprintf("c19:slow-leader-link:party%d:%s", cfg.SlowParty, sym)
	case cfg.Mode == "failjoin":
		fkey = fmt.Sprintf("c19:failed-join-then-retry:%s:%s", c19FailKinds[cfg.FailKind], sym)
	case f11:
		fkey = "c19:acceptConn:need-before-addPeer:" + cfg.Mode + ":" + sym
	default:
		fkey = "c19:" + cfg.Mode + ":" + sym
	}
	what := fmt.Sprintf("n=%d k=%d join order %v mode %s freeze %d: %v", cfg.N, cfg.K, cfg.Order, cfg.Mode, cfg.Freeze, symptoms)
	if cfg.Mode == "late" {
		what = fmt.Sprintf("n=%d k=%d join order %v: all parties joined, party %d called Connect %d ms after the others: %v",
			cfg.N, cfg.K, cfg.Order, cfg.Late, cfg.StaggerMs, symptoms)
	}
	if cfg.Mode == "slow" {
		what = fmt.Sprintf("n=%d k=%d join order %v: data from the leader reaches party %d %d ms late (TCP forwarder on its link to the leader), all parties start Connect together: %v",
			cfg.N, cfg.K, cfg.Order, cfg.SlowParty, cfg.SlowMs, symptoms)
	}
	if cfg.Mode == "failjoin" {
		what = fmt.Sprintf("n=%d k=%d join order %v: failed attempt (%s) for party %d, two garbage collections, then its successful Join on a free address, then all parties Connect: %v",
			cfg.N, cfg.K, cfg.Order, c19FailKinds[cfg.FailKind], cfg.FailParty, symptoms)
	}
	c.Fail(fkey, what, map[string]interface{}{"cfg": cfg, "observed": obs.String(), "symptoms": symptoms})
	if cfg.Mode == "freeze" && !res[0].HookNotReached {
		// the schedule is known: the model must predict the same failure
		c.Case(input, obs)
	}
}

func c19RunOne(cfg c19Cfg, rng *RNG) ([]c19Party, error) {
	var res []c19Party
	var err error
	if cfg.Repeat && cfg.Addrs == nil {
		// a second mesh on the same addresses after the first one has been closed
		addrs, aerr := c19FreePorts(cfg.N + 1)
		if aerr != nil {
			return nil, aerr
		}
		cfg.Addrs = addrs
		first, ferr := c19Run(cfg, rng)
		if ferr != nil {
			return nil, ferr
		}
		if sym, _ := c19Oracle(cfg, first); len(sym) > 0 {
			return first, nil
		}
	}
	for try := 0; try < 3; try++ { // a port taken by a concurrent run: try again
		res, err = c19Run(cfg, rng)
		if err == nil || cfg.Addrs != nil || !containsStr(err.Error(), "address already in use") {
			break
		}
	}
	return res, err
}

// c19SetupFailed: in a scenario whose inputs the API must accept, Create/Join of party j
// failed: an oracle failure (Connect status "error" for j, the others never get anywhere).
func c19SetupFailed(n, j int, what string) []c19Party {
	res := make([]c19Party, n)
	for i := range res {
		res[i].Status = 2
		res[i].Fin = &c19Table{Rows: map[int][]bool{}, Lens: map[int]int{}}
	}
	res[j].Status, res[j].Err = 1, what
	return res
}
