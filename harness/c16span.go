package main

// C16, span cases: R is not a GF(2)-linear function of the evaluator's view.
//
// Theorem C16_forgery_not_in_span (Proto/SpanViewProof.v) is stated in the
// idealised symbolic execution.  Here the SAME rank / span test is evaluated
// on the real 128-bit values of the real code: circuit.Circuit.Garble gives the
// view (the active label of every input wire + every garbled row), the real
// circuit.Circuit.Eval gives the honest output labels, g.R the offset.  The
// executable model (run_c16, span case) predicts from the circuit alone:
// (number of view values, rank, R in span, per output wire (honest label in
// span, honest xor R in span)).  With fewer than ~110 values in GF(2)^128 the
// real test agrees with the structural one unless the implementation creates a
// linear relation the symbolic execution does not have (accidental relations
// have probability < 2^-18 per run).
//
// Oracle on the implementation (independent of the model): R in the span of the
// view, or (honest output label xor R) in the span, is a failing input.

import (
	"fmt"

	"github.com/markkurossi/mpc/circuit"
	"github.com/markkurossi/mpc/ot"
)

// gf2Elim: Gaussian elimination over GF(2)^128, one basis vector per pivot bit.
type gf2Elim struct {
	have [128]bool
	vec  [128]ot.Label
	rank int
}

func gf2Bit(l ot.Label, i int) bool { // i = 127: top bit of D0
	if i >= 64 {
		return l.D0>>(uint(i)-64)&1 == 1
	}
	return l.D1>>uint(i)&1 == 1
}

func (e *gf2Elim) reduce(v ot.Label) ot.Label {
	for i := 127; i >= 0; i-- {
		if e.have[i] && gf2Bit(v, i) {
			v.Xor(e.vec[i])
		}
	}
	return v
}

func (e *gf2Elim) add(v ot.Label) {
	v = e.reduce(v)
	for i := 127; i >= 0; i-- {
		if gf2Bit(v, i) {
			e.have[i] = true
			e.vec[i] = v
			e.rank++
			return
		}
	}
}

func (e *gf2Elim) inSpan(v ot.Label) bool {
	v = e.reduce(v)
	return v.D0 == 0 && v.D1 == 0
}

type c16SpanReplay struct {
	Seed    uint64 `json:"seed"`
	Case    int    `json:"case"`
	Circuit string `json:"circuit"`
	Key     string `json:"key"`
	Input   string `json:"input"`
	R       string `json:"R"`
	Output  int    `json:"output"`
	Detail  string `json:"detail"`
}

func c16SpanCases(c *Ctx) error {
	n := c.N(48, 600)
	for idx := 0; idx < n; idx++ {
		r := c.rng.Fork()
		circ := GenCircuit(r, GenOpts{MinIn: 1, MaxIn: 8, MinGates: 1, MaxGates: 5 + idx%20, MaxOut: 6, Overwrite: true})
		key := r.Bytes(32)
		rd := &blockLog{r: r.Fork()}
		g, err := circ.Garble(rd, key)
		if err != nil {
			return err
		}
		ni := circ.Inputs.Size()
		no := circ.Outputs.Size()
		x := make([]bool, ni)
		for i := range x {
			x[i] = r.Bool()
		}
		// permute-bit assignment of the symbolic execution: the theorem holds for every one;
		// the first cases carry a short assignment (kernel-sized cases), the others a long one
		np := 64
		if idx >= 8 {
			np = 1024
		}
		perm := make([]bool, np)
		for i := range perm {
			perm[i] = r.Bool()
		}
		// the evaluator's view and what it derives from it with the real code
		wires := make([]ot.Label, circ.NumWires)
		var view []ot.Label
		for i := 0; i < ni; i++ {
			wires[i] = circuit.LabelForBit(g.Wires[i], x[i])
			view = append(view, wires[i])
		}
		for _, row := range g.Gates {
			view = append(view, row...)
		}
		if err := circ.Eval(key, wires, g.Gates); err != nil {
			return fmt.Errorf("c16 span: Eval: %v", err)
		}
		var e gf2Elim
		for _, v := range view {
			e.add(v)
		}
		rIn := e.inSpan(g.R)
		rep := c16SpanReplay{Seed: c.Seed, Case: idx, Circuit: circuitText(circ), Key: fmt.Sprintf("%x", key), Input: bitsString(x), R: g.R.String(), Output: -1}
		if rIn {
			rep.Detail = "R is a GF(2)-combination of the transmitted input labels and rows"
			c.Fail("c16:span:R-in-span-of-view", "the offset R is a linear function of the evaluator's view", rep)
		}
		outs := make([]SX, no)
		linear := 0
		for o := 0; o < no; o++ {
			w := circ.NumWires - no + o
			h := wires[w]
			if _, err := circuit.BitFromLabel(g.Wires[w], h); err != nil {
				return fmt.Errorf("c16 span: honest evaluation yields an unknown label on output %d", o)
			}
			f := h
			f.Xor(g.R)
			hIn, fIn := e.inSpan(h), e.inSpan(f)
			if hIn {
				linear++
			}
			if fIn {
				rp := rep
				rp.Output = o
				rp.Detail = "(honest output label xor R) is a GF(2)-combination of the transmitted input labels and rows"
				c.Fail("c16:span:forgery-in-span-of-view", "the forged output label is a linear function of the evaluator's view", rp)
			}
			outs[o] = L(Bool(hIn), Bool(fIn))
		}
		// self-test of the real-side elimination: with both labels of a wire R IS in the span
		e2 := e
		e2.add(g.Wires[0].L0)
		e2.add(g.Wires[0].L1)
		if !e2.inSpan(g.R) {
			return fmt.Errorf("c16 span: elimination self-test failed (L0, L1 of a wire do not span R)")
		}
		c.Hist("span:view-values")
		if e.rank == len(view) {
			c.Hist("span:full-rank")
		} else {
			c.Hist("span:rank-deficient")
		}
		if linear > 0 {
			c.Hist("span:has-linear-output")
		}
		c.Eval(fmt.Sprintf("span|%s|%x|%s", circuitText(circ), key, bitsString(x)), len(view) > ni)
		dims, gs := CircuitSX(circ)
		c.Case(L(I(16), dims, gs, Bits(x), Bits(perm)), L(I(len(view)), I(e.rank), Bool(rIn), L(outs...)))
		if idx < 2 {
			c.Sample(map[string]interface{}{"mode": "span", "circuit": circuitText(circ), "view_values": len(view), "rank": e.rank, "R_in_span": rIn, "outputs_linear_in_view": linear})
		}
		g.Release()
	}
	return nil
}
