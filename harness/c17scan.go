package main

// C17 source inventory: the model of Circuit/Pool.v has exactly one piece of
// mutable state inside circuit.Circuit — garblePool, touched only through
// atomic Load / CompareAndSwap in garbleScratchPool — and treats everything
// else of the Circuit as read-only for Garble, Eval and Compute.  This scan
// (go/parser, no type checking) lists, for the methods on *Circuit reachable
// inside package circuit from Garble, Eval and Compute:
//   the fields of struct Circuit, and every place where such a method assigns
//   to, increments, takes the address of, or calls a method on a field of its
//   receiver.
// The harness compares the list with the one the model was written against.

import (
	"fmt"
	"go/ast"
	"go/parser"
	"go/token"
	"os"
	"path/filepath"
	"sort"
	"strings"
)

func c17Inventory(repo string) ([]string, error) {
	dir := filepath.Join(repo, "circuit")
	fset := token.NewFileSet()
	ents, err := os.ReadDir(dir)
	if err != nil {
		return nil, err
	}
	type method struct {
		decl *ast.FuncDecl
		recv *ast.Object
	}
	methods := map[string]method{}
	var inv []string
	for _, e := range ents {
		n := e.Name()
		if !strings.HasSuffix(n, ".go") || strings.HasSuffix(n, "_test.go") || strings.HasPrefix(n, "verif_") {
			continue
		}
		f, err := parser.ParseFile(fset, filepath.Join(dir, n), nil, 0)
		if err != nil {
			return nil, err
		}
		// finalizers, cleanups, weak pointers: object lifetime hooks the model does not have
		for _, im := range f.Imports {
			if im.Path.Value == `"weak"` {
				inv = append(inv, "lifetime:import:weak:"+n)
			}
		}
		for _, d := range f.Decls {
			where := "package"
			if fd, ok := d.(*ast.FuncDecl); ok {
				where = fd.Name.Name
			}
			ast.Inspect(d, func(nd ast.Node) bool {
				if sel, ok := nd.(*ast.SelectorExpr); ok {
					if id, ok := sel.X.(*ast.Ident); ok && id.Obj == nil {
						if (id.Name == "runtime" && (sel.Sel.Name == "SetFinalizer" || sel.Sel.Name == "AddCleanup")) || id.Name == "weak" {
							inv = append(inv, fmt.Sprintf("lifetime:%s:%s.%s", where, id.Name, sel.Sel.Name))
						}
					}
				}
				return true
			})
		}
		for _, d := range f.Decls {
			switch d := d.(type) {
			case *ast.GenDecl:
				for _, sp := range d.Specs {
					ts, ok := sp.(*ast.TypeSpec)
					if !ok || ts.Name.Name != "Circuit" {
						continue
					}
					if st, ok := ts.Type.(*ast.StructType); ok {
						for _, fl := range st.Fields.List {
							for _, nm := range fl.Names {
								inv = append(inv, "field:"+nm.Name)
							}
						}
					}
				}
			case *ast.FuncDecl:
				if d.Recv == nil || len(d.Recv.List) != 1 || len(d.Recv.List[0].Names) != 1 || d.Body == nil {
					continue
				}
				star, ok := d.Recv.List[0].Type.(*ast.StarExpr)
				if !ok {
					continue
				}
				if id, ok := star.X.(*ast.Ident); !ok || id.Name != "Circuit" {
					continue
				}
				methods[d.Name.Name] = method{d, d.Recv.List[0].Names[0].Obj}
			}
		}
	}
	// root field of an expression rooted at the receiver: c.F, c.F[i], c.F.G, (c.F)...
	var rootField func(e ast.Expr, recv *ast.Object) string
	rootField = func(e ast.Expr, recv *ast.Object) string {
		switch e := e.(type) {
		case *ast.SelectorExpr:
			if id, ok := e.X.(*ast.Ident); ok && id.Obj == recv {
				return e.Sel.Name
			}
			return rootField(e.X, recv)
		case *ast.IndexExpr:
			return rootField(e.X, recv)
		case *ast.SliceExpr:
			return rootField(e.X, recv)
		case *ast.ParenExpr:
			return rootField(e.X, recv)
		case *ast.StarExpr:
			return rootField(e.X, recv)
		}
		return ""
	}
	seen := map[string]bool{}
	work := []string{"Garble", "Eval", "Compute"}
	for len(work) > 0 {
		name := work[0]
		work = work[1:]
		if seen[name] {
			continue
		}
		seen[name] = true
		m, ok := methods[name]
		if !ok {
			inv = append(inv, "missing-method:"+name)
			continue
		}
		ast.Inspect(m.decl.Body, func(nd ast.Node) bool {
			switch nd := nd.(type) {
			case *ast.AssignStmt:
				for _, l := range nd.Lhs {
					if f := rootField(l, m.recv); f != "" {
						inv = append(inv, fmt.Sprintf("%s:assign:%s", name, f))
					}
				}
			case *ast.IncDecStmt:
				if f := rootField(nd.X, m.recv); f != "" {
					inv = append(inv, fmt.Sprintf("%s:assign:%s", name, f))
				}
			case *ast.UnaryExpr:
				if nd.Op == token.AND {
					if f := rootField(nd.X, m.recv); f != "" {
						inv = append(inv, fmt.Sprintf("%s:addr:%s", name, f))
					}
				}
			case *ast.CallExpr:
				if sel, ok := nd.Fun.(*ast.SelectorExpr); ok {
					if id, ok := sel.X.(*ast.Ident); ok && id.Obj == m.recv {
						// a call of another method on the receiver
						work = append(work, sel.Sel.Name)
					} else if f := rootField(sel.X, m.recv); f != "" {
						inv = append(inv, fmt.Sprintf("%s:call:%s.%s", name, f, sel.Sel.Name))
					}
				}
			}
			return true
		})
	}
	// garbleScratchPool: the pool's New function must be set before the pool is published
	if m, ok := methods["garbleScratchPool"]; ok {
		var posNew, posCAS token.Pos
		ast.Inspect(m.decl.Body, func(nd ast.Node) bool {
			switch nd := nd.(type) {
			case *ast.KeyValueExpr:
				if id, ok := nd.Key.(*ast.Ident); ok && id.Name == "New" && posNew == 0 {
					posNew = nd.Pos()
				}
			case *ast.AssignStmt:
				for _, l := range nd.Lhs {
					if sel, ok := l.(*ast.SelectorExpr); ok && sel.Sel.Name == "New" && posNew == 0 {
						posNew = nd.Pos()
					}
				}
			case *ast.CallExpr:
				if sel, ok := nd.Fun.(*ast.SelectorExpr); ok && sel.Sel.Name == "CompareAndSwap" && posCAS == 0 {
					posCAS = nd.Pos()
				}
			}
			return true
		})
		switch {
		case posNew == 0 || posCAS == 0:
			inv = append(inv, "garbleScratchPool:order:New-or-CompareAndSwap-not-found")
		case posNew < posCAS:
			inv = append(inv, "garbleScratchPool:order:New-before-CompareAndSwap")
		default:
			inv = append(inv, "garbleScratchPool:order:CompareAndSwap-before-New")
		}
	}
	sort.Strings(inv)
	var out []string
	for i, s := range inv {
		if i == 0 || s != inv[i-1] {
			out = append(out, s)
		}
	}
	return out, nil
}

// c17ReleaseInventory lists every call X.Release() (no arguments) in the non-test code of
// the whole module, with file, enclosing function and whether it is deferred: who gives a
// garbling's scratch back, and when, is part of the ownership protocol the model describes.
func c17ReleaseInventory(repo string) ([]string, error) {
	var inv []string
	err := filepath.Walk(repo, func(path string, info os.FileInfo, err error) error {
		if err != nil {
			return nil
		}
		name := info.Name()
		if info.IsDir() {
			if path != repo && (strings.HasPrefix(name, ".") || name == "testdata" || name == "vendor") {
				return filepath.SkipDir
			}
			return nil
		}
		if !strings.HasSuffix(name, ".go") || strings.HasSuffix(name, "_test.go") || strings.HasPrefix(name, "verif_") {
			return nil
		}
		fset := token.NewFileSet()
		f, perr := parser.ParseFile(fset, path, nil, 0)
		if perr != nil {
			return nil
		}
		rel, _ := filepath.Rel(repo, path)
		for _, d := range f.Decls {
			fd, ok := d.(*ast.FuncDecl)
			if !ok || fd.Body == nil {
				continue
			}
			deferred := map[*ast.CallExpr]bool{}
			ast.Inspect(fd.Body, func(nd ast.Node) bool {
				if ds, ok := nd.(*ast.DeferStmt); ok {
					deferred[ds.Call] = true
				}
				return true
			})
			ast.Inspect(fd.Body, func(nd ast.Node) bool {
				ce, ok := nd.(*ast.CallExpr)
				if !ok || len(ce.Args) != 0 {
					return true
				}
				if sel, ok := ce.Fun.(*ast.SelectorExpr); ok && sel.Sel.Name == "Release" {
					kind := "call"
					if deferred[ce] {
						kind = "defer"
					}
					inv = append(inv, fmt.Sprintf("release:%s:%s:%s", filepath.ToSlash(rel), fd.Name.Name, kind))
				}
				return true
			})
		}
		return nil
	})
	sort.Strings(inv)
	return inv, err
}
