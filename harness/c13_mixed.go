package main

// Property C13, sizes-based instantiation of structs that MIX members of a
// declared width (intN, uintN, bool, [N]T, [N]struct) with unsized members
// (int, uint, []T), in every order, flat and nested, with values whose
// inferred sizes are below, equal to and above the declared widths.
// Oracle (independent of the model): after InstantiateWithSizes every member
// that was concrete before is UNCHANGED, every unsized member has the size
// inferred for its own input, Bits is the sum; Parse / Set / Result on the
// instantiated type then agree with the reference codec; and for a few
// programs compiler.Compile with input sizes gives the declared member types
// and returns every member's value.

import (
	"fmt"
	"math/big"
	"reflect"
	"strings"

	mpc "github.com/markkurossi/mpc"
	"github.com/markkurossi/mpc/circuit"
	"github.com/markkurossi/mpc/compiler"
	"github.com/markkurossi/mpc/compiler/utils"
	"github.com/markkurossi/mpc/types"
)

// a member of a mixed struct
type c13Member struct {
	shape   *c13Shape // declared shape (for an unsized member: the shape the value is drawn from)
	unsized bool
	sub     []*c13Member // nested struct
}

type c13MixedReplay struct {
	Seed     uint64   `json:"seed"`
	Case     int      `json:"case"`
	Template string   `json:"template"`
	Strings  []string `json:"inputs,omitempty"`
	Values   string   `json:"go_values,omitempty"`
	Sizes    string   `json:"sizes"`
	Got      string   `json:"got"`
	Want     string   `json:"want"`
	Detail   string   `json:"detail,omitempty"`
}

func c13GenMember(r *RNG, depth int, forceUnsized bool) *c13Member {
	if depth < 2 && !forceUnsized && r.Intn(7) == 0 {
		m := &c13Member{}
		for k := r.Range(1, 3); k > 0; k-- {
			m.sub = append(m.sub, c13GenMember(r, depth+1, false))
		}
		return m
	}
	unsized := forceUnsized || r.Intn(3) == 0
	switch r.Intn(6) {
	case 0:
		if !unsized {
			return &c13Member{shape: &c13Shape{kind: c13Bool}}
		}
		fallthrough
	case 1, 2:
		k := c13Int
		if r.Bool() {
			k = c13Uint
		}
		return &c13Member{shape: &c13Shape{kind: k, bits: []int{3, 8, 13, 16, 32, 64}[r.Intn(6)]}, unsized: unsized}
	case 3:
		if !unsized && r.Bool() { // an array of structs, always of declared size
			el := &c13Shape{kind: c13Struct, fields: []*c13Shape{{kind: c13Int, bits: 8}, {kind: c13Uint, bits: 4}}}
			return &c13Member{shape: &c13Shape{kind: c13Array, n: r.Range(1, 3), elem: el}}
		}
		fallthrough
	default:
		el := &c13Shape{kind: c13Uint, bits: 8}
		if r.Intn(4) == 0 {
			el = &c13Shape{kind: c13Int, bits: 16}
		}
		k := c13Array
		if unsized {
			k = c13Slice
		}
		return &c13Member{shape: &c13Shape{kind: k, n: r.Range(1, 5), elem: el}, unsized: unsized}
	}
}

func (m *c13Member) template() types.Info {
	if m.sub != nil {
		info := types.Info{Type: types.TStruct}
		for i, s := range m.sub {
			info.Struct = append(info.Struct, types.StructField{Name: fmt.Sprintf("f%d", i), Type: s.template()})
		}
		return info
	}
	if m.unsized {
		return m.shape.Unsized()
	}
	return m.shape.Info()
}

func (m *c13Member) leaves() []*c13Member {
	if m.sub == nil {
		return []*c13Member{m}
	}
	var r []*c13Member
	for _, s := range m.sub {
		r = append(r, s.leaves()...)
	}
	return r
}

func (m *c13Member) nested() bool {
	for _, s := range m.sub {
		if s.sub != nil {
			return true
		}
	}
	return false
}

func (m *c13Member) String() string {
	if m.sub != nil {
		var p []string
		for _, s := range m.sub {
			p = append(p, s.String())
		}
		return "struct{" + strings.Join(p, ",") + "}"
	}
	if m.unsized {
		switch m.shape.kind {
		case c13Int:
			return "int"
		case c13Uint:
			return "uint"
		default:
			return "[]" + m.shape.elem.String()
		}
	}
	return m.shape.String()
}

func c13FlatInfos(t types.Info) []types.Info {
	if t.Type != types.TStruct {
		return []types.Info{t}
	}
	var r []types.Info
	for _, f := range t.Struct {
		r = append(r, c13FlatInfos(f.Type)...)
	}
	return r
}

func c13SameInfo(a, b types.Info) bool {
	if a.Type != b.Type || a.Bits != b.Bits || a.ArraySize != b.ArraySize {
		return false
	}
	if (a.ElementType == nil) != (b.ElementType == nil) {
		return false
	}
	if a.ElementType != nil && !c13SameInfo(*a.ElementType, *b.ElementType) {
		return false
	}
	if len(a.Struct) != len(b.Struct) {
		return false
	}
	for i := range a.Struct {
		if !c13SameInfo(a.Struct[i].Type, b.Struct[i].Type) {
			return false
		}
	}
	return true
}

// a value for a member; sizeClass says how its inferred size relates to the declared width
func c13MixedValue(r *RNG, m *c13Member) (*c13Val, string, bool) {
	l := m.shape
	switch l.kind {
	case c13Bool:
		return &c13Val{b: r.Bool()}, "bool", true
	case c13Int, c13Uint:
		switch r.Intn(4) {
		case 0: // inferred size equal to the declared width
			z := c13Pow2(l.bits - 1)
			if l.kind == c13Int {
				z.Neg(z) // min: magnitude has exactly `bits` bits
			}
			return &c13Val{z: z}, "equal", true
		case 1: // above: does not fit the declared width
			if !m.unsized {
				return &c13Val{z: c13Pow2(l.bits + r.Intn(3))}, "above", false
			}
			fallthrough
		default: // below
			z := big.NewInt(int64(r.Intn(6)))
			if l.bits < 4 {
				z = big.NewInt(int64(r.Intn(2)))
			}
			if l.kind == c13Int && r.Bool() && z.Sign() > 0 && l.bits >= 4 {
				z.Neg(z)
			}
			return &c13Val{z: z}, "below", true
		}
	default:
		if l.elem.kind == c13Struct {
			return &c13Val{}, "struct-array", false
		}
		k := l.n
		class := "equal"
		if !m.unsized && r.Bool() && l.n > 1 {
			k = 1 + r.Intn(l.n-1)
			class = "below"
		}
		v := &c13Val{}
		for i := 0; i < k; i++ {
			v.elems = append(v.elems, big.NewInt(int64(1+r.Intn(255))))
		}
		return v, class, true
	}
}

func (x *c13Run) mixedCase(r *RNG) {
	c := x.c
	// a struct with at least one unsized and one declared member, any order
	top := &c13Member{}
	nm := r.Range(2, 5)
	forced := r.Intn(nm)
	for i := 0; i < nm; i++ {
		top.sub = append(top.sub, c13GenMember(r, 0, i == forced))
	}
	leaves := top.leaves()
	hasSized := false
	for _, l := range leaves {
		if !l.unsized {
			hasSized = true
		}
	}
	if !hasSized {
		top.sub = append(top.sub, &c13Member{shape: &c13Shape{kind: c13Int, bits: 32}})
		leaves = top.leaves()
	}
	nested := top.nested()
	if nested {
		c.Hist("mixed:nested")
	} else {
		c.Hist("mixed:flat")
	}
	vals := make([]*c13Val, len(leaves))
	strs := make([]string, len(leaves))
	govals := make([]interface{}, len(leaves))
	inDomain, expressible, spellable := true, true, true
	for k, l := range leaves {
		var cls string
		var ok bool
		vals[k], cls, ok = c13MixedValue(r, l)
		who := "declared"
		if l.unsized {
			who = "unsized"
		}
		c.Hist("mixed-member:" + who + ":" + cls)
		if !ok {
			inDomain = false
		}
		if l.shape.kind == c13Array && l.shape.elem.kind == c13Struct {
			strs[k] = "0x" + strings.Repeat("00", (l.shape.Bits()+7)/8)
			expressible = false
			continue
		}
		var sp string
		switch l.shape.kind {
		case c13Bool:
			strs[k], sp = c13SpellBool(r, vals[k].b), "bool"
		case c13Int, c13Uint:
			strs[k], sp = vals[k].z.String(), "decimal"
			if vals[k].z.Sign() >= 0 && r.Bool() {
				strs[k] = "0x" + vals[k].z.Text(16)
			}
			if vals[k].z.Cmp(big.NewInt(1)) <= 0 && vals[k].z.Sign() >= 0 && l.unsized {
				strs[k] = "0b" + vals[k].z.Text(2) // "0"/"1" would be sized as bool spellings: still 1 bit, keep it unambiguous
			}
		default:
			strs[k], sp = c13Spell(r, l.shape, vals[k])
		}
		if sp == "" {
			spellable = false
		}
		var gok bool
		govals[k], gok = c13GoValue(r, l.shape, vals[k])
		if !gok {
			expressible = false
		}
	}
	if !spellable {
		return
	}
	tmplDesc := top.String()
	sizes, err := circuit.InputSizes(strs)
	c.Case(L(I(3), c13StrsSX(strs)), c13IntsRes(sizes, err))
	if err != nil {
		return
	}
	if expressible {
		gs, gerr := circuit.Sizes(govals)
		c.Case(L(I(2), c13GinsSX(govals)), c13IntsRes(gs, gerr))
	}
	tmpl := top.template()
	before := top.template()
	code := c13Instantiate(&tmpl, sizes)
	obs := c13Err(code)
	if code == 0 {
		obs = L(I(1), c13InfoSX(&tmpl))
	}
	c.Case(L(I(6), c13InfoSX(&before), Ints(sizes)), obs)
	c.Eval("mixed|"+tmplDesc+"|"+strings.Join(strs, ","), true)
	rep := c13MixedReplay{Seed: c.Seed, Case: x.i, Template: tmplDesc, Strings: strs, Values: c13GoValuesText(govals), Sizes: fmt.Sprint(sizes)}
	if code != 0 {
		rep.Got, rep.Want = fmt.Sprintf("code %d", code), "instantiated"
		c.Fail("c13:InstantiateWithSizes:mixed-struct:fails", "InstantiateWithSizes fails on a struct mixing declared and unsized members", rep)
		return
	}
	// the frame: every member that was concrete before is unchanged
	bi, ai := c13FlatInfos(before), c13FlatInfos(tmpl)
	if len(bi) != len(ai) || len(ai) != len(leaves) {
		rep.Got, rep.Want = fmt.Sprint(len(ai)), fmt.Sprint(len(leaves))
		c.Fail("c13:InstantiateWithSizes:mixed-struct:member-count", "the number of members changed", rep)
		return
	}
	sum := 0
	frameOK := true
	for k, l := range leaves {
		sum += int(ai[k].Bits)
		if !l.unsized && !c13SameInfo(bi[k], ai[k]) {
			frameOK = false
			rep.Got, rep.Want = ai[k].String(), bi[k].String()
			rep.Detail = fmt.Sprintf("member %d (%s) was given %q (inferred size %d)", k, l, strs[k], sizes[k])
			c.Fail("c13:InstantiateWithSizes:mixed-struct:sized-member-changed",
				"InstantiateWithSizes changed a member of declared width", rep)
		}
	}
	if int(tmpl.Bits) != sum {
		rep.Got, rep.Want = fmt.Sprint(tmpl.Bits), fmt.Sprint(sum)
		c.Fail("c13:InstantiateWithSizes:mixed-struct:bits-not-sum", "Bits of the instantiated struct is not the sum of its members", rep)
	}
	// every unsized member has the size inferred for its own input
	unsizedOK := true
	for k, l := range leaves {
		if !l.unsized {
			continue
		}
		want := sizes[k]
		got := int(ai[k].Bits)
		if l.shape.kind == c13Slice || l.shape.kind == c13Array {
			w := l.shape.elem.Bits()
			want = (sizes[k] + w - 1) / w * w
		}
		if got != want {
			unsizedOK = false
			key := "c13:InstantiateWithSizes:mixed-struct:unsized-member-size"
			if nested {
				key = "c13:InstantiateWithSizes:nested-struct:sizes-overlap" // known: sizes[idx:] after a nested struct
			}
			rep.Got, rep.Want = fmt.Sprint(got), fmt.Sprint(want)
			rep.Detail = fmt.Sprintf("unsized member %d (%s) given %q", k, l, strs[k])
			c.Fail(key, "an unsized member does not take the size inferred for its own input", rep)
		}
	}
	if !frameOK || !unsizedOK || !inDomain {
		return
	}
	// Parse / Set / Result on the instantiated type against the reference codec
	arg := circuit.IOArg{Type: tmpl}
	var expect []*c13Shape
	for k, l := range leaves {
		arg.Compound = append(arg.Compound, circuit.IOArg{Type: ai[k]})
		e := *l.shape
		if l.unsized {
			switch e.kind {
			case c13Int, c13Uint:
				e.bits = int(ai[k].Bits)
			default:
				e.kind, e.n = c13Slice, int(ai[k].ArraySize)
			}
		}
		expect = append(expect, &e)
	}
	var want []bool
	signedLoss := false
	for k, e := range expect {
		if leaves[k].unsized && e.kind == c13Int && (e.bits == 0 || !c13FitsSigned(vals[k].z, e.bits)) {
			signedLoss = true // known finding: no room for the sign bit in the inferred size
		}
		want = append(want, c13Encode(e, vals[k])...)
	}
	total := len(want)
	pz, pcode := c13Parse(arg, strs)
	c.Case(L(I(0), c13ArgSX(arg), c13StrsSX(strs)), c13ValueWires(pz, pcode, int(tmpl.Bits)))
	if pcode != 0 || bitsString(c13Wires(pz, total)) != bitsString(want) {
		rep.Got, rep.Want = fmt.Sprintf("code %d %v", pcode, pz), bitsString(want)
		c.Fail("c13:InstantiateWithSizes:mixed-struct:Parse-bits", "Parse on the instantiated struct does not put the reference encoding on the wires", rep)
		return
	}
	if expressible {
		sz, scode := c13Set(arg, govals)
		c.Case(L(I(1), c13ArgSX(arg), c13GinsSX(govals)), c13ValueWires(sz, scode, int(tmpl.Bits)))
		if scode != 0 || bitsString(c13Wires(sz, total)) != bitsString(want) {
			rep.Got, rep.Want = fmt.Sprintf("code %d %v", scode, sz), bitsString(want)
			c.Fail("c13:InstantiateWithSizes:mixed-struct:Set-bits", "Set on the instantiated struct differs from Parse / the reference encoding", rep)
		}
	}
	if signedLoss {
		return
	}
	offs := 0
	for k, e := range expect {
		seg := c13FromBits(want[offs : offs+e.Bits()])
		offs += e.Bits()
		if (e.kind == c13Int || e.kind == c13Uint || e.kind == c13Bool) && e.Bits() > 0 {
			x.checkResult(e, vals[k], seg)
		}
	}
}

// mixedEndToEnd: programs whose first argument is a struct mixing declared and
// unsized members, compiled with the sizes of the inputs; every member returned
func (x *c13Run) mixedEndToEnd() {
	c := x.c
	type prog struct {
		name, src string
		gText     []string
		wantTypes []string
		wantVals  []string
	}
	progs := []prog{
		{"sized,sized,unsized", "package main\n\ntype G struct {\n\ta int32\n\tk [4]byte\n\tn uint\n}\n\nfunc main(g G, e uint) (int, []byte, uint, uint) {\n\treturn g.a, g.k, g.n, e\n}\n",
			[]string{"5", "0x0102", "100"}, []string{"a:int32", "k:[4]uint8", "n:uint7"}, []string{"5", "[1 2 0 0]", "100", "100"}},
		{"unsized,sized", "package main\n\ntype G struct {\n\tn uint\n\ta int16\n}\n\nfunc main(g G, e uint) (uint, int, uint) {\n\treturn g.n, g.a, e\n}\n",
			[]string{"300", "-3"}, []string{"n:uint9", "a:int16"}, []string{"300", "-3", "100"}},
		{"sized,unsized,sized", "package main\n\ntype G struct {\n\ta uint8\n\tn uint\n\tb uint64\n}\n\nfunc main(g G, e uint) (uint, uint, uint, uint) {\n\treturn g.a, g.n, g.b, e\n}\n",
			[]string{"7", "0b10", "9"}, []string{"a:uint8", "n:uint2", "b:uint64"}, []string{"7", "2", "9", "100"}},
	}
	for _, p := range progs {
		gs, _ := circuit.InputSizes(p.gText)
		es, _ := circuit.InputSizes([]string{"100"})
		rep := c13MixedReplay{Template: p.name + ": " + strings.ReplaceAll(strings.TrimSpace(p.src), "\n", " "), Strings: p.gText, Sizes: fmt.Sprint(gs)}
		c.Eval("mixed-e2e|"+p.name, true)
		func() {
			defer func() {
				if e := recover(); e != nil {
					rep.Got = fmt.Sprintf("panic: %v", e)
					c.Fail("c13:InstantiateWithSizes:mixed-struct:e2e:panic", "compiling / running the program panics", rep)
				}
			}()
			params := utils.NewParams()
			defer params.Close()
			circ, _, err := compiler.New(params).Compile(p.src, [][]int{gs, es})
			if err != nil {
				rep.Got = err.Error()
				c.Fail("c13:InstantiateWithSizes:mixed-struct:e2e:compile", "the program does not compile with the inferred sizes", rep)
				return
			}
			g := circ.Inputs[0]
			var got []string
			for _, m := range g.Compound {
				got = append(got, m.String())
			}
			if !reflect.DeepEqual(got, p.wantTypes) {
				rep.Got, rep.Want = fmt.Sprint(got), fmt.Sprint(p.wantTypes)
				c.Fail("c13:InstantiateWithSizes:mixed-struct:sized-member-changed", "the compiled program's argument does not have the declared member types", rep)
				return
			}
			gIn, err := g.Parse(p.gText)
			eIn, err2 := circ.Inputs[1].Parse([]string{"100"})
			if err != nil || err2 != nil {
				rep.Got = fmt.Sprint(err, err2)
				c.Fail("c13:InstantiateWithSizes:mixed-struct:e2e:Parse", "Parse rejects the inputs", rep)
				return
			}
			ins := g.Compound.Split(gIn)
			ins = append(ins, eIn)
			outs, err := circ.Compute(ins)
			if err != nil {
				rep.Got = err.Error()
				c.Fail("c13:InstantiateWithSizes:mixed-struct:e2e:Compute", "Compute fails", rep)
				return
			}
			var res []string
			for _, v := range mpc.Results(outs, circ.Outputs) {
				res = append(res, fmt.Sprint(v))
			}
			if !reflect.DeepEqual(res, p.wantVals) {
				rep.Got, rep.Want = fmt.Sprint(res), fmt.Sprint(p.wantVals)
				c.Fail("c13:InstantiateWithSizes:mixed-struct:e2e:wrong-result", "the program does not return the members' values", rep)
			}
		}()
	}
}
