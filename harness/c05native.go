package main

// Native-circuit family (`case Circ` of Program.Stream): MPCL programs that
// call a circuit file through native("x.circ", ...) — pkg/math's add64 / sub64
// / mul64 / div64 — directly (full-width variables; a narrow constant as first
// and as last argument; chained calls; results cast narrower and wider) and
// through the library wrappers (math.AddUint64 ...).  The program's (virtual)
// source name lies in <repo>/pkg/math so that the .circ files resolve.
// Streamed == whole circuit == reference values computed here on big.Int.

import (
	"fmt"
	"math/big"
	"os"
	"path/filepath"
)

func c05RepoRoot() string {
	if r := os.Getenv("VERIF_REPO"); r != "" {
		return r
	}
	return "/repo"
}

func c05NativePrograms(c *Ctx) []c05Prog {
	r := c.rng.Fork()
	src := filepath.Join(c05RepoRoot(), "pkg", "math", "verifc05.mpcl")
	m64 := new(big.Int).Lsh(big.NewInt(1), 64)
	ops := []struct {
		file, wrapper string
		f             func(x, y *big.Int) *big.Int
	}{
		{"add64.circ", "AddUint64", func(x, y *big.Int) *big.Int { return new(big.Int).Mod(new(big.Int).Add(x, y), m64) }},
		{"sub64.circ", "SubUint64", func(x, y *big.Int) *big.Int { return new(big.Int).Mod(new(big.Int).Sub(x, y), m64) }},
		{"mul64.circ", "MulUint64", func(x, y *big.Int) *big.Int { return new(big.Int).Mod(new(big.Int).Mul(x, y), m64) }},
		{"div64.circ", "DivUint64", func(x, y *big.Int) *big.Int { return new(big.Int).Div(x, y) }},
	}
	shapes := []string{"full", "const-first", "const-last", "wrapper", "chained", "result-narrower", "result-wider"}
	var progs []c05Prog
	n := c.N(12, 56)
	for i := 0; i < n; i++ {
		op := ops[i%2] // add / sub: small circuits, also correspondence cases
		if i%6 == 5 {
			op = ops[2+r.Intn(2)] // mul / div: oracle only (large circuits)
		}
		shape := shapes[(i/2+i)%len(shapes)]
		if i < len(shapes) {
			shape = shapes[i]
		}
		a := new(big.Int).SetUint64(r.U64() | 1<<63)
		b := new(big.Int).SetUint64(r.U64()>>uint(r.Intn(40)) | 1)
		if op.file == "div64.circ" {
			// keep the operands below 2^62: the reference here is unsigned division
			a.Rsh(a, 2)
			b.Rsh(b, 2)
			b.Or(b, big.NewInt(1))
		}
		k := big.NewInt(int64(1 + r.Intn(100000)))
		x := new(big.Int).Xor(a, b)
		call := func(p, q string) string { return fmt.Sprintf("native(%q, %s, %s)", op.file, p, q) }
		var body, rtype string
		var want *big.Int
		imp := ""
		rtype = "uint64"
		switch shape {
		case "full":
			body, want = "\treturn "+call("a", "b")+"\n", op.f(a, b)
		case "const-first":
			body, want = "\treturn "+call(k.String(), "a ^ b")+"\n", op.f(k, x)
		case "const-last":
			body, want = "\treturn "+call("a ^ b", k.String())+"\n", op.f(x, k)
		case "wrapper":
			imp = "import (\n\t\"math\"\n)\n\n"
			body, want = fmt.Sprintf("\treturn math.%s(a, b)\n", op.wrapper), op.f(a, b)
		case "chained":
			body = "\tt := " + call(k.String(), "a") + "\n\treturn " + call("t", "b") + " + b\n"
			want = new(big.Int).Mod(new(big.Int).Add(op.f(op.f(k, a), b), b), m64)
		case "result-narrower":
			rtype = "uint32"
			body = "\treturn uint32(" + call("a", k.String()) + ")\n"
			want = new(big.Int).And(op.f(a, k), big.NewInt(0xffffffff))
		default: // result-wider
			rtype = "uint100"
			body = "\treturn uint100(" + call(k.String(), "b") + ") + uint100(a)\n"
			want = new(big.Int).Add(op.f(k, b), a)
		}
		code := fmt.Sprintf("package main\n\n%sfunc main(a, b uint64) %s {\n%s}\n", imp, rtype, body)
		progs = append(progs, c05Prog{src: code, g: []string{"0x" + a.Text(16)}, e: []string{"0x" + b.Text(16)},
			want: []*big.Int{want}, opt: c05StreamOpt{source: src, label: op.file + ":" + shape},
			feat: map[string]int{"native-circuit:" + shape: 1, "native-circuit:" + op.file: 1}, nstmts: 1})
	}
	return progs
}
