package main

// Translator (DESIGN 2.3, C02 liveness): regenerates coq/theories/Gen/Skel.v
// from the CURRENT Go source of /repo on every check run.
//
// It extracts (go/parser + go/ast only, no type checker) the COMMUNICATION
// SKELETON of
//
//	circuit.Garbler, circuit.Evaluator                       (circuit/garbler.go, evaluator.go)
//	CO / RSA / COT . InitSender, InitReceiver, Send, Receive (ot/co.go, rsa.go, cot.go)
//
// following, recursively and by inlining, every call into a function or
// method of the same package that is handed the connection / the ot.IO / an
// object holding one (SendString, ReceiveBigInt, NewIKNPSender,
// IKNPSender.Send/send, IKNPReceiver.Receive/receive, ...).
//
// The skeleton is a tree of
//
//	Send(kind) | Recv(kind) | Flush | Loop(label, body) | Branch(label, then, else) | Call(OTop, n)
//
// in program order.  kind is the typed operation of the ot.IO interface
// (Data, Uint32, Label, Byte; the method set is read from ot/io.go).  A loop
// label names the loop bound symbolically: the bound expression is rendered in
// a canonical form that does not depend on the names of local variables or
// parameters (locals are replaced by their defining expression, parameters by
// their TYPE, package constants by their value, inlined parameters by the
// caller's rendering) and the canonical form is mapped to a label by the table
// skBoundLabels below.  Error exits (`if err != nil { return ..., err }`, an
// `if` without else whose body has no communication and ends in
// `return ..., <error>` or panic) are dropped; equalities established by such
// guards on received values (`if count != X { return error }`) are used when
// rendering.  An `if` whose two arms have the same skeleton is replaced by that
// skeleton.
//
// FAIL LOUDLY.  Everything that touches a connection-class value (the conn, an
// ot.IO, an ot.OT, a struct holding one) and is not understood — an unknown
// method, the value passed to a function outside the package, stored in a
// closure, used in go/defer/switch/select/goto, a return or break inside a
// communicating loop, a loop bound or branch condition that is not in the
// tables — becomes an `Unknown "<file:line: reason>"` node in the generated
// skeleton and an entry of `skel_gen_errors`.  The Coq checker `well_flushed`
// rejects every skeleton that contains an Unknown node, so the obligations
// C02_live_* of Props/C02.v break (and only those: the other properties do not
// import Gen/Skel.v).  Nothing is ever skipped silently.
//
// The same extraction is used at harness run time (c02live.go) to predict the
// flush segments of real sessions.

import (
	"fmt"
	"go/ast"
	"go/parser"
	"go/token"
	"math/big"
	"os"
	"path/filepath"
	"sort"
	"strconv"
	"strings"
)

func init() { extraGens = append(extraGens, genSkel) }

// ---------------------------------------------------------------- skeleton

type skNode struct {
	Op    string // send recv flush loop branch call unknown
	Kind  string // send/recv: Data Uint32 Label Byte ...
	Label string // loop/branch label template (may contain $n), call: count label template
	Body  []*skNode
	Else  []*skNode
	Base  bool   // call: on the base OT (inside package ot) rather than the session's OT
	CallN string // call: InitSender InitReceiver Send Receive
	Msg   string // unknown
}

func skEqual(a, b []*skNode) bool {
	if len(a) != len(b) {
		return false
	}
	for i := range a {
		x, y := a[i], b[i]
		if x.Op != y.Op || x.Kind != y.Kind || x.Label != y.Label || x.Base != y.Base || x.CallN != y.CallN || x.Msg != y.Msg {
			return false
		}
		if !skEqual(x.Body, y.Body) || !skEqual(x.Else, y.Else) {
			return false
		}
	}
	return true
}

// ---------------------------------------------------------------- tables

// connection-class types (by the text of the type expression)
// (package circuit has a type IO of its own: there only the qualified names count)
var skConnTypesIn = map[string]map[string]bool{
	"ot":      {"IO": true, "*p2p.Conn": true},
	"circuit": {"*p2p.Conn": true, "ot.IO": true},
}
var skOTTypesIn = map[string]map[string]bool{
	"ot":      {"OT": true},
	"circuit": {"ot.OT": true},
}
var skOTOps = map[string]bool{"InitSender": true, "InitReceiver": true, "Send": true, "Receive": true}

// canonical count expression -> label template.  $n = the count handed to the
// OT operation being extracted (len of its wires/flags argument).
var skCountLabels = map[string]string{
	"$Circuit.NumGates":                        "gates",
	"len(call($Circuit.Garble)#0.Gates)":       "gates",
	"len(elem(call($Circuit.Garble)#0.Gates))": "rows",
	"Evaluator:recv(Uint32)":                   "rows", // the per-gate row count the garbler sent just before the rows
	"int($Circuit.Inputs[0].Type.Bits)":        "n0",
	"int($Circuit.Inputs[1].Type.Bits)":        "n1",
	"call($Circuit.Outputs.Size)":              "outputs",
	"len($[]Wire)":                             "$n",
	"len($[]bool)":                             "$n",
	"len($[]Label)":                            "$n",
	"$int":                                     "$n",
}

// canonical loop-bound patterns with holes (X = a count expression, mapped recursively)
func skBoundLabel(fn string, b string) (label string, factor int, ok bool) {
	factor = 1
	cR, cK, cB := skConsts["chunkRows"], skConsts["K"], skConsts["otBatchSize"]
	if strings.HasPrefix(b, "(2*") && strings.HasSuffix(b, ")") {
		inner := b[3 : len(b)-1]
		l, f, ok := skBoundLabel(fn, inner)
		return l, 2 * f, ok
	}
	if l, ok := skCountLabel(fn, b); ok {
		return l, 1, true
	}
	if args, ok := skCallArgs(b, "progress"); ok && len(args) == 2 {
		n, okn := skCountLabel(fn, args[0])
		if !okn {
			return "", 1, false
		}
		nn := args[0]
		switch args[1] {
		case "min(" + cR + ",(" + nn + "-$acc))", // IKNPReceiver.receive: rows = min(chunkRows, len(b)-ofs)
			"((len(recv(Data))/" + cK + ")*8)": // IKNPSender.send: ofs += byteRows*8, byteRows = len(chunk)/K
			return "chunks(" + n + ")", 1, true
		case cB: // for i := 0; i < n; i += otBatchSize
			return "steps(" + n + ")", 1, true
		}
		return "", 1, false
	}
	// COT batches: the number of OTs in batch $i of 8
	if args, ok := skCallArgs(b, "min"); ok && len(args) == 2 {
		// receiver: end = min(otBatchSize, len(flags)-i)
		if args[0] == cB && strings.HasPrefix(args[1], "(") && strings.HasSuffix(args[1], "-$i)") {
			if n, ok := skCountLabel(fn, args[1][1:len(args[1])-4]); ok {
				return "batch(" + n + ")", 1, true
			}
		}
	}
	if pre := "(min(($i+" + cB + "),"; strings.HasPrefix(b, pre) && strings.HasSuffix(b, ")-$i)") {
		// sender: end-i with end = min(i+otBatchSize, len(wires))
		inner := b[len(pre) : len(b)-len(")-$i)")]
		if n, ok := skCountLabel(fn, inner); ok {
			return "batch(" + n + ")", 1, true
		}
	}
	return "", 1, false
}

// values of the ot constants the canonical bounds mention (set by skExtractAll from the source)
var skConsts = map[string]string{}

func skCountLabel(fn, c string) (string, bool) {
	if _, err := strconv.Atoi(c); err == nil {
		return c, true
	}
	if l, ok := skCountLabels[fn+":"+c]; ok {
		return l, true
	}
	if l, ok := skCountLabels[c]; ok {
		return l, true
	}
	return "", false
}

// skCallArgs splits "name(a,b,...)" at top-level commas.
func skCallArgs(s, name string) ([]string, bool) {
	if !strings.HasPrefix(s, name+"(") || !strings.HasSuffix(s, ")") {
		return nil, false
	}
	body := s[len(name)+1 : len(s)-1]
	var args []string
	depth, start := 0, 0
	for i, ch := range body {
		switch ch {
		case '(', '[':
			depth++
		case ')', ']':
			depth--
			if depth < 0 {
				return nil, false
			}
		case ',':
			if depth == 0 {
				args = append(args, body[start:i])
				start = i + 1
			}
		}
	}
	if depth != 0 {
		return nil, false
	}
	args = append(args, body[start:])
	return args, true
}

// canonical branch condition -> (label, negated)
var skCondLabels = map[string]struct {
	label string
	neg   bool
}{
	"!$r.malicious":   {"malicious", true},
	"$r.malicious":    {"malicious", false},
	"($r.iknpS!=nil)": {"reinit", false}, // InitSender called again on an initialised (shared) instance
	"($r.iknpR!=nil)": {"reinit", false},
}

// ---------------------------------------------------------------- packages

type skPkg struct {
	name    string
	fset    *token.FileSet
	funcs   map[string]*ast.FuncDecl     // "F" or "T.M"
	structs map[string]map[string]string // T -> field -> type text
	arrays  map[string]string            // unused
	consts  *constEnv
	ioOps   map[string]bool // method names of ot.IO
	repo    string
}

func skTypeText(e ast.Expr) string {
	switch v := e.(type) {
	case *ast.Ident:
		return v.Name
	case *ast.StarExpr:
		return "*" + skTypeText(v.X)
	case *ast.SelectorExpr:
		return skTypeText(v.X) + "." + v.Sel.Name
	case *ast.ArrayType:
		if v.Len == nil {
			return "[]" + skTypeText(v.Elt)
		}
		return "[" + skExprText(v.Len) + "]" + skTypeText(v.Elt)
	case *ast.Ellipsis:
		return "..." + skTypeText(v.Elt)
	case *ast.InterfaceType:
		return "interface{}"
	case *ast.MapType:
		return "map[" + skTypeText(v.Key) + "]" + skTypeText(v.Value)
	case *ast.FuncType:
		return "func"
	case *ast.ChanType:
		return "chan"
	}
	return "?"
}

func skExprText(e ast.Expr) string {
	switch v := e.(type) {
	case *ast.Ident:
		return v.Name
	case *ast.BasicLit:
		return v.Value
	case *ast.SelectorExpr:
		return skExprText(v.X) + "." + v.Sel.Name
	}
	return "?"
}

func skLoadPkg(repo, rel string) (*skPkg, error) {
	fset := token.NewFileSet()
	dir := filepath.Join(repo, rel)
	pkgs, err := parser.ParseDir(fset, dir, func(fi os.FileInfo) bool {
		n := fi.Name()
		return !strings.HasSuffix(n, "_test.go") && !strings.HasPrefix(n, "verif_")
	}, 0)
	if err != nil {
		return nil, err
	}
	p := &skPkg{name: filepath.Base(rel), fset: fset, funcs: map[string]*ast.FuncDecl{},
		structs: map[string]map[string]string{}, consts: &constEnv{vals: map[string]*big.Int{}},
		ioOps: map[string]bool{}, repo: repo}
	var files []*ast.File
	for name, ap := range pkgs {
		if strings.HasSuffix(name, "_test") || name == "main" {
			continue
		}
		var names []string
		for fn := range ap.Files {
			names = append(names, fn)
		}
		sort.Strings(names)
		for _, fn := range names {
			files = append(files, ap.Files[fn])
		}
	}
	for pass := 0; pass < 2; pass++ {
		for _, f := range files {
			for _, d := range f.Decls {
				switch v := d.(type) {
				case *ast.FuncDecl:
					if v.Body == nil {
						continue
					}
					key := v.Name.Name
					if v.Recv != nil && len(v.Recv.List) == 1 {
						key = strings.TrimPrefix(skTypeText(v.Recv.List[0].Type), "*") + "." + key
					}
					p.funcs[key] = v
				case *ast.GenDecl:
					switch v.Tok {
					case token.CONST:
						var last []ast.Expr
						for i, s := range v.Specs {
							vs := s.(*ast.ValueSpec)
							vals := vs.Values
							if len(vals) == 0 {
								vals = last
							} else {
								last = vals
							}
							for k, id := range vs.Names {
								if k < len(vals) {
									if val, ok := p.consts.eval(vals[k], i); ok {
										p.consts.vals[id.Name] = val
									}
								}
							}
						}
					case token.TYPE:
						for _, s := range v.Specs {
							ts := s.(*ast.TypeSpec)
							switch t := ts.Type.(type) {
							case *ast.StructType:
								m := map[string]string{}
								for _, fl := range t.Fields.List {
									for _, n := range fl.Names {
										m[n.Name] = skTypeText(fl.Type)
									}
								}
								p.structs[ts.Name.Name] = m
							case *ast.InterfaceType:
								if ts.Name.Name == "IO" {
									for _, m := range t.Methods.List {
										for _, n := range m.Names {
											p.ioOps[n.Name] = true
										}
									}
								}
							}
						}
					}
				}
			}
		}
	}
	return p, nil
}

// commStruct: struct type T of the package that (transitively) holds a connection-class field
func (p *skPkg) commStruct(t string, depth int) bool {
	fields, ok := p.structs[t]
	if !ok || depth > 4 {
		return false
	}
	for _, ft := range fields {
		if skConnTypesIn[p.name][ft] || skOTTypesIn[p.name][ft] {
			return true
		}
		if p.commStruct(strings.TrimPrefix(ft, "*"), depth+1) {
			return true
		}
	}
	return false
}

// class of a type text: "conn", "ot", "struct:T" or ""
func (p *skPkg) classOfType(t string) string {
	if skConnTypesIn[p.name][t] {
		return "conn"
	}
	if skOTTypesIn[p.name][t] {
		return "ot"
	}
	b := strings.TrimPrefix(t, "*")
	if p.commStruct(b, 0) {
		return "struct:" + b
	}
	return ""
}

// ---------------------------------------------------------------- scopes

type skDef struct {
	kind string // assign multi var rangekey rangeval forinit op
	expr ast.Expr
	idx  int
	typ  ast.Expr
	loop ast.Stmt    // innermost enclosing loop of the definition
	ifc  *ast.IfStmt // innermost enclosing if (directly containing the statement)
	rng  *ast.RangeStmt
	op   token.Token
}

type skBinding struct {
	class string // connection class
	ren   string // canonical rendering
}

type skScope struct {
	p      *skPkg
	entry  string // name of the entry function (for function-specific table keys)
	fn     *ast.FuncDecl
	binds  map[string]*skBinding // parameters / receiver by name
	defs   map[*ast.Object][]*skDef
	lclass map[*ast.Object]string // connection class of locals
	facts  map[*ast.Object]string // local -> rendering established by error guards
	loops  []ast.Stmt             // enclosing loops (for $i / $acc)
	depth  int
	ex     *skExtractor
}

type skExtractor struct {
	errs []string
	ot   *skPkg
}

func (x *skExtractor) unknown(p *skPkg, pos token.Pos, format string, a ...interface{}) *skNode {
	ps := p.fset.Position(pos)
	rel, _ := filepath.Rel(p.repo, ps.Filename)
	msg := fmt.Sprintf("%s:%d: %s", rel, ps.Line, fmt.Sprintf(format, a...))
	x.errs = append(x.errs, msg)
	return &skNode{Op: "unknown", Msg: msg}
}

// collectDefs records every definition of every local variable of the function.
func (s *skScope) collectDefs() {
	s.defs = map[*ast.Object][]*skDef{}
	var loopStack []ast.Stmt
	var ifStack []*ast.IfStmt
	add := func(id *ast.Ident, d *skDef) {
		if id == nil || id.Name == "_" || id.Obj == nil {
			return
		}
		if len(loopStack) > 0 {
			d.loop = loopStack[len(loopStack)-1]
		}
		if len(ifStack) > 0 {
			d.ifc = ifStack[len(ifStack)-1]
		}
		s.defs[id.Obj] = append(s.defs[id.Obj], d)
	}
	var walk func(n ast.Node)
	walkList := func(l []ast.Stmt) {
		for _, st := range l {
			walk(st)
		}
	}
	walk = func(n ast.Node) {
		switch v := n.(type) {
		case nil:
		case *ast.BlockStmt:
			walkList(v.List)
		case *ast.AssignStmt:
			if v.Tok == token.ASSIGN || v.Tok == token.DEFINE {
				if len(v.Lhs) == len(v.Rhs) {
					for i, l := range v.Lhs {
						if id, ok := l.(*ast.Ident); ok {
							add(id, &skDef{kind: "assign", expr: v.Rhs[i]})
						}
					}
				} else if len(v.Rhs) == 1 {
					for i, l := range v.Lhs {
						if id, ok := l.(*ast.Ident); ok {
							add(id, &skDef{kind: "multi", expr: v.Rhs[0], idx: i})
						}
					}
				}
			} else if len(v.Lhs) == 1 {
				if id, ok := v.Lhs[0].(*ast.Ident); ok {
					add(id, &skDef{kind: "op", expr: v.Rhs[0], op: v.Tok})
				}
			}
		case *ast.IncDecStmt:
			if id, ok := v.X.(*ast.Ident); ok {
				add(id, &skDef{kind: "op", op: v.Tok})
			}
		case *ast.DeclStmt:
			if gd, ok := v.Decl.(*ast.GenDecl); ok && gd.Tok == token.VAR {
				for _, sp := range gd.Specs {
					vs := sp.(*ast.ValueSpec)
					for i, id := range vs.Names {
						if i < len(vs.Values) {
							add(id, &skDef{kind: "assign", expr: vs.Values[i], typ: vs.Type})
						} else {
							add(id, &skDef{kind: "var", typ: vs.Type})
						}
					}
				}
			}
		case *ast.IfStmt:
			walk(v.Init)
			ifStack = append(ifStack, v)
			walk(v.Body)
			ifStack = ifStack[:len(ifStack)-1]
			walk(v.Else)
		case *ast.ForStmt:
			loopStack = append(loopStack, v)
			if as, ok := v.Init.(*ast.AssignStmt); ok {
				for i, l := range as.Lhs {
					if id, ok := l.(*ast.Ident); ok && i < len(as.Rhs) {
						add(id, &skDef{kind: "forinit", expr: as.Rhs[i]})
					}
				}
			}
			if v.Post != nil {
				switch ps := v.Post.(type) {
				case *ast.IncDecStmt:
					if id, ok := ps.X.(*ast.Ident); ok {
						add(id, &skDef{kind: "post", op: ps.Tok})
					}
				case *ast.AssignStmt:
					if id, ok := ps.Lhs[0].(*ast.Ident); ok {
						add(id, &skDef{kind: "post", op: ps.Tok, expr: ps.Rhs[0]})
					}
				}
			}
			walk(v.Body)
			loopStack = loopStack[:len(loopStack)-1]
		case *ast.RangeStmt:
			loopStack = append(loopStack, v)
			if id, ok := v.Key.(*ast.Ident); ok {
				add(id, &skDef{kind: "rangekey", rng: v})
			}
			if id, ok := v.Value.(*ast.Ident); ok {
				add(id, &skDef{kind: "rangeval", rng: v})
			}
			walk(v.Body)
			loopStack = loopStack[:len(loopStack)-1]
		case *ast.LabeledStmt:
			walk(v.Stmt)
		case *ast.SwitchStmt:
			walk(v.Init)
			walk(v.Body)
		case *ast.CaseClause:
			walkList(v.Body)
		}
	}
	walk(s.fn.Body)
}

// ---------------------------------------------------------------- rendering

func (s *skScope) isLocal(id *ast.Ident) bool {
	if id.Obj == nil {
		return false
	}
	_, ok := s.defs[id.Obj]
	return ok
}

func (s *skScope) ren(e ast.Expr) string {
	s.depth++
	defer func() { s.depth-- }()
	if s.depth > 40 {
		return "?deep"
	}
	return s.ren0(e)
}

func (s *skScope) ren0(e ast.Expr) string {
	switch v := e.(type) {
	case *ast.BasicLit:
		if v.Kind == token.INT {
			if n, ok := new(big.Int).SetString(strings.ReplaceAll(v.Value, "_", ""), 0); ok {
				return n.String()
			}
		}
		return v.Value
	case *ast.ParenExpr:
		return s.ren(v.X)
	case *ast.StarExpr:
		return s.ren(v.X)
	case *ast.UnaryExpr:
		if v.Op == token.AND {
			return s.ren(v.X)
		}
		return v.Op.String() + s.ren(v.X)
	case *ast.Ident:
		if s.isLocal(v) {
			return s.renLocal(v)
		}
		if b, ok := s.binds[v.Name]; ok && (v.Obj == nil || v.Obj.Kind == ast.Var) {
			return b.ren
		}
		if c, ok := s.p.consts.vals[v.Name]; ok {
			return c.String()
		}
		return v.Name
	case *ast.SelectorExpr:
		return s.ren(v.X) + "." + v.Sel.Name
	case *ast.IndexExpr:
		return s.ren(v.X) + "[" + s.ren(v.Index) + "]"
	case *ast.SliceExpr:
		lo, hi := "", ""
		if v.Low != nil {
			lo = s.ren(v.Low)
		}
		if v.High != nil {
			hi = s.ren(v.High)
		}
		if lo == "" && hi == "" {
			return s.ren(v.X)
		}
		return "slice(" + s.ren(v.X) + "," + lo + "," + hi + ")"
	case *ast.BinaryExpr:
		a, b := s.ren(v.X), s.ren(v.Y)
		// ((X+Y)-X) = Y
		if v.Op == token.SUB && strings.HasPrefix(a, "("+b+"+") && strings.HasSuffix(a, ")") {
			return a[len(b)+2 : len(a)-1]
		}
		return "(" + a + v.Op.String() + b + ")"
	case *ast.CallExpr:
		if id, ok := v.Fun.(*ast.Ident); ok && id.Obj == nil {
			switch id.Name {
			case "len":
				if len(v.Args) == 1 {
					return s.lenOf(v.Args[0])
				}
			case "make":
				if len(v.Args) >= 2 {
					return "make(" + s.ren(v.Args[1]) + ")"
				}
			case "int", "uint", "int32", "uint32", "int64", "uint64":
				if len(v.Args) == 1 {
					return "int(" + s.ren(v.Args[0]) + ")"
				}
			}
		}
		if k, ok := s.recvKind(v); ok {
			return "recv(" + k + ")"
		}
		return "call(" + s.ren(v.Fun) + ")"
	case *ast.CompositeLit:
		return "lit(" + skTypeText(v.Type) + ")"
	}
	return "?expr"
}

// recvKind: the call is a Receive operation on the connection (directly or
// through a one-call wrapper such as ReceiveBigInt)
func (s *skScope) recvKind(c *ast.CallExpr) (string, bool) {
	if sel, ok := c.Fun.(*ast.SelectorExpr); ok {
		if s.class(sel.X) == "conn" && strings.HasPrefix(sel.Sel.Name, "Receive") && s.ex.ot.ioOps[sel.Sel.Name] {
			return strings.TrimPrefix(sel.Sel.Name, "Receive"), true
		}
	}
	return "", false
}

func (s *skScope) lenOf(e ast.Expr) string {
	r := s.ren(e)
	if a, ok := skCallArgs(r, "make"); ok && len(a) == 1 {
		return a[0]
	}
	if a, ok := skCallArgs(r, "array"); ok && len(a) == 1 {
		return a[0]
	}
	if a, ok := skCallArgs(r, "appended"); ok && len(a) == 1 {
		return a[0]
	}
	if a, ok := skCallArgs(r, "slice"); ok && len(a) == 3 {
		switch {
		case a[1] == "" && a[2] != "":
			return a[2]
		case a[1] != "" && a[2] != "":
			hi, lo := a[2], a[1]
			if strings.HasPrefix(hi, "("+lo+"+") && strings.HasSuffix(hi, ")") {
				return hi[len(lo)+2 : len(hi)-1]
			}
			return "(" + hi + "-" + lo + ")"
		}
	}
	return "len(" + r + ")"
}

func (s *skScope) renLocal(id *ast.Ident) string {
	if f, ok := s.facts[id.Obj]; ok {
		return f
	}
	defs := s.defs[id.Obj]
	var assigns, ops, vars, others []*skDef
	for _, d := range defs {
		switch d.kind {
		case "assign":
			assigns = append(assigns, d)
		case "op", "post":
			ops = append(ops, d)
		case "var":
			vars = append(vars, d)
		default:
			others = append(others, d)
		}
	}
	if len(others) == 1 && len(defs) == 1 {
		d := others[0]
		switch d.kind {
		case "rangeval":
			return "elem(" + s.ren(d.rng.X) + ")"
		case "rangekey":
			return "$i"
		case "multi":
			if c, ok := d.expr.(*ast.CallExpr); ok {
				if k, ok := s.recvKind(c); ok {
					return "recv(" + k + ")"
				}
				return s.renCallResult(c, d.idx)
			}
		}
		return "?" + id.Name
	}
	// loop counter: i := 0 ; i++ / i += C
	if len(others) == 1 && others[0].kind == "forinit" && len(assigns) == 0 && len(vars) == 0 {
		allPost := true
		for _, o := range ops {
			if o.kind != "post" {
				allPost = false
			}
		}
		if allPost {
			return "$i"
		}
		return "$acc"
	}
	if len(others) > 0 {
		return "?" + id.Name
	}
	// declared without value
	if len(vars) == 1 && len(assigns) == 0 && len(ops) == 0 {
		if at, ok := vars[0].typ.(*ast.ArrayType); ok && at.Len != nil {
			return "array(" + s.ren(at.Len) + ")"
		}
		return "zero(" + skTypeText(vars[0].typ) + ")"
	}
	// var x []T ; x = append(x, ...) inside one loop
	if len(vars) == 1 && len(assigns) == 1 && len(ops) == 0 {
		if c, ok := assigns[0].expr.(*ast.CallExpr); ok {
			if f, ok := c.Fun.(*ast.Ident); ok && f.Name == "append" && len(c.Args) == 2 {
				if a0, ok := c.Args[0].(*ast.Ident); ok && a0.Obj == id.Obj && assigns[0].loop != nil && assigns[0].ifc == nil {
					return "appended(" + s.boundOf(assigns[0].loop) + ")"
				}
			}
		}
		// var x T ; x = E   (single later assignment)
		if assigns[0].loop == nil {
			return s.ren(assigns[0].expr)
		}
		return "?" + id.Name
	}
	// accumulator: zero-initialised, advanced by += inside a loop
	if len(ops) > 0 && len(assigns)+len(vars) == 1 {
		return "$acc"
	}
	if len(assigns) == 1 && len(vars) == 0 && len(ops) == 0 {
		return s.ren(assigns[0].expr)
	}
	// clamp: x := A ; if x > B { x = B }
	if len(assigns) == 2 && len(vars) == 0 && len(ops) == 0 && assigns[1].ifc != nil && assigns[0].ifc == nil {
		ic := assigns[1].ifc
		if be, ok := ic.Cond.(*ast.BinaryExpr); ok && be.Op == token.GTR && ic.Else == nil && len(ic.Body.List) == 1 {
			if x, ok := be.X.(*ast.Ident); ok && x.Obj == id.Obj {
				saved := s.defs[id.Obj]
				s.defs[id.Obj] = []*skDef{assigns[0]} // render B and A with the first definition only
				b1 := s.ren(be.Y)
				b2 := s.ren(assigns[1].expr)
				a := s.ren(assigns[0].expr)
				s.defs[id.Obj] = saved
				if b1 == b2 {
					return "min(" + a + "," + b1 + ")"
				}
			}
		}
	}
	return "?" + id.Name
}

// renCallResult: length-transparent helpers of the package: result #idx of a
// pure function whose non-error returns all return `make([]T, len(param))`
func (s *skScope) renCallResult(c *ast.CallExpr, idx int) string {
	if f, ok := c.Fun.(*ast.Ident); ok {
		if fd, ok := s.p.funcs[f.Name]; ok && fd.Recv == nil {
			if r, ok := s.helperResultLen(fd, c, idx); ok {
				return "make(" + r + ")"
			}
		}
	}
	return "call(" + s.ren(c.Fun) + ")#" + strconv.Itoa(idx)
}

func (s *skScope) helperResultLen(fd *ast.FuncDecl, c *ast.CallExpr, idx int) (string, bool) {
	if s.depth > 20 {
		return "", false
	}
	sub := &skScope{p: s.p, entry: s.entry, fn: fd, binds: map[string]*skBinding{}, lclass: map[*ast.Object]string{}, facts: map[*ast.Object]string{}, ex: s.ex, depth: s.depth}
	i := 0
	for _, fl := range fd.Type.Params.List {
		for _, n := range fl.Names {
			if i < len(c.Args) {
				sub.binds[n.Name] = &skBinding{ren: s.ren(c.Args[i])}
			}
			i++
		}
	}
	sub.collectDefs()
	// parameters are not locals
	for _, fl := range fd.Type.Params.List {
		for _, n := range fl.Names {
			if n.Obj != nil {
				delete(sub.defs, n.Obj)
			}
		}
	}
	res := ""
	found := false
	bad := false
	ast.Inspect(fd.Body, func(n ast.Node) bool {
		if _, ok := n.(*ast.FuncLit); ok {
			return false
		}
		rs, ok := n.(*ast.ReturnStmt)
		if !ok || len(rs.Results) <= idx {
			return true
		}
		last := rs.Results[len(rs.Results)-1]
		if id, ok := last.(*ast.Ident); !ok || id.Name != "nil" {
			return true // error return
		}
		r := sub.lenOf(rs.Results[idx])
		if strings.Contains(r, "?") || strings.HasPrefix(r, "len(") && strings.Contains(r, "call(") {
			bad = true
		}
		if found && r != res {
			bad = true
		}
		res, found = r, true
		return true
	})
	if !found || bad {
		return "", false
	}
	return res, true
}

// boundOf: canonical iteration count of a loop statement
func (s *skScope) boundOf(l ast.Stmt) string {
	switch v := l.(type) {
	case *ast.RangeStmt:
		return s.lenOf(v.X)
	case *ast.ForStmt:
		be, ok := v.Cond.(*ast.BinaryExpr)
		if !ok || be.Op != token.LSS {
			return "?for-cond"
		}
		cv, ok := be.X.(*ast.Ident)
		if !ok || cv.Obj == nil {
			return "?for-var"
		}
		n := s.ren(be.Y)
		// the counter must start at zero
		zero := false
		var steps []*skDef
		for _, d := range s.defs[cv.Obj] {
			switch d.kind {
			case "forinit", "assign":
				if lit, ok := d.expr.(*ast.BasicLit); ok && lit.Value == "0" && !zero {
					zero = true
				} else {
					return "?for-init"
				}
			case "var":
				if zero {
					return "?for-init"
				}
				zero = true
			case "op", "post":
				steps = append(steps, d)
			default:
				return "?for-def"
			}
		}
		if !zero || len(steps) != 1 {
			return "?for-steps"
		}
		st := steps[0]
		if st.loop != l && st.kind != "post" || st.ifc != nil {
			return "?for-step-place"
		}
		switch st.op {
		case token.INC:
			return n
		case token.ADD_ASSIGN:
			return "progress(" + n + "," + s.ren(st.expr) + ")"
		}
		return "?for-op"
	}
	return "?loop"
}

// ---------------------------------------------------------------- classes

func (s *skScope) class(e ast.Expr) string {
	switch v := e.(type) {
	case *ast.ParenExpr:
		return s.class(v.X)
	case *ast.StarExpr:
		return s.class(v.X)
	case *ast.UnaryExpr:
		if v.Op == token.AND {
			return s.class(v.X)
		}
	case *ast.Ident:
		if v.Obj != nil {
			if c, ok := s.lclass[v.Obj]; ok {
				return c
			}
		}
		if s.isLocal(v) {
			return ""
		}
		if b, ok := s.binds[v.Name]; ok {
			return b.class
		}
	case *ast.SelectorExpr:
		c := s.class(v.X)
		if strings.HasPrefix(c, "struct:") {
			if ft, ok := s.p.structs[c[7:]][v.Sel.Name]; ok {
				return s.p.classOfType(ft)
			}
		}
	case *ast.CompositeLit:
		return s.p.classOfType(skTypeText(v.Type))
	}
	return ""
}
