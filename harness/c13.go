package main

// Property C13: input and output value encoding is lossless and consistent.
//
// The runner drives the real circuit.IOArg.Parse / Set, circuit.Sizes /
// InputSizes, circuit.IO.Split, types.Info.InstantiateWithSizes and mpc.Result
// of /repo on generated (type shape, value, spelling) triples.  Every call is
// recorded as a correspondence case for the Coq model (coq/theories/IO/RunC13.v
// documents the s-expression protocol), and the five equations of the property
// are evaluated on the implementation alone with a reference codec written
// here (c13Encode / c13Decode) that does not use the code under test.

import (
	"fmt"
	"math/big"
	"reflect"
	"regexp"
	"strings"

	mpc "github.com/markkurossi/mpc"
	"github.com/markkurossi/mpc/circuit"
	"github.com/markkurossi/mpc/types"
)

func init() { register("c13", runC13) }

var reC13Rep = regexp.MustCompile(`^[0-9]+x[0-9a-fA-F]*$`)

// c13OutProj projects a Result value; the formatted message of the default
// branch ("%v (%s)") is projected to its tag.
func c13OutProj(o interface{}, t types.Info) SX {
	if _, isStr := o.(string); isStr && t.Type != types.TString {
		return L(I(6))
	}
	return c13OutSX(o)
}

// ---------------------------------------------------------------- shapes

const (
	c13Bool = iota
	c13Int
	c13Uint
	c13String
	c13Array
	c13Slice
	c13Struct
)

type c13Shape struct {
	kind   int
	bits   int // int/uint/string
	elem   *c13Shape
	n      int
	fields []*c13Shape
}

func (s *c13Shape) Bits() int {
	switch s.kind {
	case c13Bool:
		return 1
	case c13Int, c13Uint, c13String:
		return s.bits
	case c13Array, c13Slice:
		return s.n * s.elem.Bits()
	default:
		sum := 0
		for _, f := range s.fields {
			sum += f.Bits()
		}
		return sum
	}
}

func (s *c13Shape) String() string {
	switch s.kind {
	case c13Bool:
		return "bool"
	case c13Int:
		return fmt.Sprintf("int%d", s.bits)
	case c13Uint:
		return fmt.Sprintf("uint%d", s.bits)
	case c13String:
		return fmt.Sprintf("string%d", s.bits)
	case c13Array:
		return fmt.Sprintf("[%d]%s", s.n, s.elem)
	case c13Slice:
		return fmt.Sprintf("[]%s/%d", s.elem, s.n)
	default:
		var p []string
		for _, f := range s.fields {
			p = append(p, f.String())
		}
		return "struct{" + strings.Join(p, ",") + "}"
	}
}

// Info builds the concrete types.Info that types.Parse / InstantiateWithSizes
// / the compiler build for the shape.
func (s *c13Shape) Info() types.Info {
	b := types.Size(s.Bits())
	switch s.kind {
	case c13Bool:
		return types.Bool
	case c13Int:
		return types.Info{Type: types.TInt, IsConcrete: true, Bits: b, MinBits: b}
	case c13Uint:
		return types.Info{Type: types.TUint, IsConcrete: true, Bits: b, MinBits: b}
	case c13String:
		return types.Info{Type: types.TString, IsConcrete: true, Bits: b, MinBits: b}
	case c13Array, c13Slice:
		el := s.elem.Info()
		t := types.TArray
		if s.kind == c13Slice {
			t = types.TSlice
		}
		return types.Info{Type: t, IsConcrete: true, Bits: b, MinBits: b,
			ElementType: &el, ArraySize: types.Size(s.n)}
	default:
		info := types.Info{Type: types.TStruct, IsConcrete: true, Bits: b, MinBits: b}
		var ofs types.Size
		for i, f := range s.fields {
			fi := f.Info()
			fi.Offset = ofs
			ofs += fi.Bits
			info.Struct = append(info.Struct, types.StructField{Name: fmt.Sprintf("f%d", i), Type: fi})
		}
		return info
	}
}

// Unsized is the template type (unspecified sizes) of the shape, as the MPCL
// compiler resolves `int`, `uint`, `[]T`, struct of those.
func (s *c13Shape) Unsized() types.Info {
	switch s.kind {
	case c13Bool:
		return types.Bool
	case c13Int:
		return types.Info{Type: types.TInt}
	case c13Uint:
		return types.Info{Type: types.TUint}
	case c13Array, c13Slice:
		el := s.elem.Info()
		return types.Info{Type: types.TSlice, ElementType: &el}
	case c13Struct:
		info := types.Info{Type: types.TStruct}
		for i, f := range s.fields {
			info.Struct = append(info.Struct, types.StructField{Name: fmt.Sprintf("f%d", i), Type: f.Unsized()})
		}
		return info
	}
	return s.Info()
}

// Leaves is compiler/ast flattenStruct on shapes.
func (s *c13Shape) Leaves() []*c13Shape {
	if s.kind != c13Struct {
		return []*c13Shape{s}
	}
	var r []*c13Shape
	for _, f := range s.fields {
		r = append(r, f.Leaves()...)
	}
	return r
}

func (s *c13Shape) IOArg() circuit.IOArg {
	arg := circuit.IOArg{Name: "a", Type: s.Info()}
	if s.kind == c13Struct {
		for i, l := range s.Leaves() {
			arg.Compound = append(arg.Compound, circuit.IOArg{Name: fmt.Sprintf("m%d", i), Type: l.Info()})
		}
	}
	return arg
}

func (s *c13Shape) nested() bool {
	for _, f := range s.fields {
		if f.kind == c13Struct {
			return true
		}
	}
	return false
}

// ---------------------------------------------------------------- values

// c13Val is the value of one leaf.
type c13Val struct {
	b     bool
	z     *big.Int   // int / uint
	elems []*big.Int // array / slice: element values as unsigned chunks < 2^w
}

func (v *c13Val) String(s *c13Shape) string {
	switch s.kind {
	case c13Bool:
		return fmt.Sprint(v.b)
	case c13Int, c13Uint:
		return v.z.String()
	default:
		var p []string
		for _, e := range v.elems {
			p = append(p, e.Text(16))
		}
		return "[" + strings.Join(p, " ") + "]"
	}
}

func c13Pow2(n int) *big.Int { return new(big.Int).Lsh(big.NewInt(1), uint(n)) }

func c13RandBits(r *RNG, n int) *big.Int {
	z := new(big.Int)
	for i := 0; i < n; i++ {
		if r.Bool() {
			z.SetBit(z, i, 1)
		}
	}
	return z
}

// c13GenInt: an in-domain value of a signed/unsigned b-bit integer, with the
// boundary classes the property names (negative, max, min, top-bit patterns).
func c13GenInt(r *RNG, signed bool, b int) (*big.Int, string) {
	if b == 0 {
		return new(big.Int), "zero-width"
	}
	var lo, hi *big.Int // inclusive
	if signed {
		lo = new(big.Int).Neg(c13Pow2(b - 1))
		hi = new(big.Int).Sub(c13Pow2(b-1), big.NewInt(1))
	} else {
		lo = new(big.Int)
		hi = new(big.Int).Sub(c13Pow2(b), big.NewInt(1))
	}
	switch r.Intn(9) {
	case 0:
		return new(big.Int), "zero"
	case 1:
		return new(big.Int).Set(hi), "max"
	case 2:
		return new(big.Int).Set(lo), "min"
	case 3:
		if signed {
			return big.NewInt(-1), "minus-one"
		}
		return c13Pow2(b - 1), "top-bit-only"
	case 4: // top bit pattern 10…01 / alternating
		z := c13Pow2(b - 1)
		z.SetBit(z, 0, 1)
		if signed {
			z.Sub(z, c13Pow2(b))
		}
		return z, "top-and-low-bit"
	case 5:
		z := new(big.Int)
		for i := 0; i < b; i += 2 {
			z.SetBit(z, i, 1)
		}
		if signed && z.Bit(b-1) == 1 {
			z.Sub(z, c13Pow2(b))
		}
		return z, "alternating"
	case 6: // small magnitude
		z := big.NewInt(int64(r.Intn(4)))
		if z.Cmp(hi) > 0 {
			z.Set(hi)
		}
		if signed && r.Bool() {
			z.Neg(z)
			if z.Cmp(lo) < 0 {
				z.Set(lo)
			}
		}
		return z, "small"
	default:
		z := c13RandBits(r, b)
		cls := "random-nonneg"
		if signed && z.Bit(b-1) == 1 {
			z.Sub(z, c13Pow2(b))
			cls = "random-negative"
		}
		return z, cls
	}
}

func c13GenVal(r *RNG, s *c13Shape) (*c13Val, string) {
	switch s.kind {
	case c13Bool:
		return &c13Val{b: r.Bool()}, "bool"
	case c13Int:
		z, cls := c13GenInt(r, true, s.bits)
		return &c13Val{z: z}, cls
	case c13Uint:
		z, cls := c13GenInt(r, false, s.bits)
		return &c13Val{z: z}, cls
	case c13Array, c13Slice:
		w := s.elem.Bits()
		k := s.n
		cls := "full"
		if s.kind == c13Array && s.n > 0 && r.Intn(3) == 0 {
			k = r.Intn(s.n) // short literal, needs padding (possibly empty)
			cls = "short"
		}
		v := &c13Val{}
		for i := 0; i < k; i++ {
			var e *big.Int
			switch r.Intn(5) {
			case 0:
				e = new(big.Int)
			case 1:
				e = new(big.Int).Sub(c13Pow2(w), big.NewInt(1))
			case 2:
				e = c13Pow2(w - 1)
			default:
				e = c13RandBits(r, w)
			}
			v.elems = append(v.elems, e)
		}
		return v, cls
	}
	return &c13Val{}, "none"
}

// c13Encode is the reference encoding of the property text: little-endian
// two's complement per element, elements in order, zero elements after a
// short array literal.
func c13Encode(s *c13Shape, v *c13Val) []bool {
	switch s.kind {
	case c13Bool:
		return []bool{v.b}
	case c13Int, c13Uint:
		out := make([]bool, s.bits)
		for i := range out {
			out[i] = v.z.Bit(i) == 1
		}
		return out
	case c13Array, c13Slice:
		w := s.elem.Bits()
		out := make([]bool, s.n*w)
		for i, e := range v.elems {
			for j := 0; j < w; j++ {
				out[i*w+j] = e.Bit(j) == 1
			}
		}
		return out
	}
	return nil
}

func c13FromBits(bits []bool) *big.Int {
	z := new(big.Int)
	for i, b := range bits {
		if b {
			z.SetBit(z, i, 1)
		}
	}
	return z
}

// c13DecodeInt: value of a little-endian two's complement bit string.
func c13DecodeInt(bits []bool, signed bool) *big.Int {
	z := c13FromBits(bits)
	if signed && len(bits) > 0 && bits[len(bits)-1] {
		z.Sub(z, c13Pow2(len(bits)))
	}
	return z
}

func c13Wires(z *big.Int, n int) []bool {
	out := make([]bool, n)
	for i := range out {
		out[i] = z.Bit(i) == 1 // what garbler/evaluator/computer put on wire i
	}
	return out
}

// ---------------------------------------------------------------- spellings

func c13Underscore(r *RNG, digits string) string {
	if len(digits) < 2 {
		return digits
	}
	p := 1 + r.Intn(len(digits)-1)
	return digits[:p] + "_" + digits[p:]
}

// c13SpellInt: a spelling big.Int.SetString(s, 0) reads as z.
func c13SpellInt(r *RNG, z *big.Int) (string, string) {
	abs := new(big.Int).Abs(z)
	sign := ""
	if z.Sign() < 0 {
		sign = "-"
	}
	switch r.Intn(10) {
	case 0, 1, 2:
		return z.String(), "decimal"
	case 3, 4:
		return sign + "0x" + abs.Text(16), "hex"
	case 5:
		return sign + "0b" + abs.Text(2), "binary"
	case 6:
		return sign + "0o" + abs.Text(8), "octal"
	case 7:
		return sign + "0X" + strings.ToUpper(abs.Text(16)), "hex-upper"
	case 8:
		if r.Bool() {
			return sign + "0x_" + c13Underscore(r, abs.Text(16)), "hex-underscore"
		}
		return sign + c13Underscore(r, abs.Text(10)), "decimal-underscore"
	default:
		if z.Sign() >= 0 && r.Bool() {
			return "+" + z.String(), "plus-decimal"
		}
		return sign + "0" + abs.Text(8), "octal-0"
	}
}

func c13SpellBool(r *RNG, b bool) string {
	if b {
		return []string{"1", "t", "true"}[r.Intn(3)]
	}
	return []string{"0", "f", "false"}[r.Intn(3)]
}

// c13SpellArray: a literal that denotes exactly the elements (in order) under
// the rules of Parse: a 0x literal is as long as its digits, any other
// spelling as long as its value; the literal is read big-endian.
func c13SpellArray(r *RNG, s *c13Shape, v *c13Val) (string, string) {
	w := s.elem.Bits()
	k := len(v.elems)
	if k == 0 {
		return "0", "empty-0"
	}
	z := new(big.Int)
	for _, e := range v.elems {
		z.Lsh(z, uint(w))
		z.Or(z, e)
	}
	total := k * w
	fitsValue := (z.BitLen()+w-1)/w == k // a non-0x spelling has the right element count
	var opts []string
	if total%4 == 0 {
		opts = append(opts, "hex-full", "hex-full")
	}
	// 0x literal with fewer digits: d digits with ceil(4d/w) == k and z < 16^d
	minD := (z.BitLen() + 3) / 4
	if minD == 0 {
		minD = 1
	}
	for d := minD; d*4 < total+4; d++ {
		if (d*4+w-1)/w == k && d*4 != total {
			opts = append(opts, fmt.Sprintf("hex-%d", d))
			break
		}
	}
	if fitsValue {
		opts = append(opts, "decimal", "binary", "hex-upper-prefix")
	}
	if len(opts) == 0 {
		return "", ""
	}
	o := opts[r.Intn(len(opts))]
	switch {
	case o == "hex-full":
		return fmt.Sprintf("0x%0*s", total/4, z.Text(16)), "array-hex"
	case strings.HasPrefix(o, "hex-") && o != "hex-upper-prefix":
		var d int
		fmt.Sscanf(o, "hex-%d", &d)
		return fmt.Sprintf("0x%0*s", d, z.Text(16)), "array-hex-odd-digits"
	case o == "decimal":
		return z.String(), "array-decimal"
	case o == "binary":
		return "0b" + z.Text(2), "array-binary"
	default:
		return "0X" + z.Text(16), "array-0X"
	}
}

func c13Spell(r *RNG, s *c13Shape, v *c13Val) (string, string) {
	switch s.kind {
	case c13Bool:
		return c13SpellBool(r, v.b), "bool"
	case c13Int, c13Uint:
		return c13SpellInt(r, v.z)
	case c13Array, c13Slice:
		return c13SpellArray(r, s, v)
	}
	return "", ""
}

// c13GoValue: the Go value a caller of Set passes for the leaf value, if the
// API can express it (int8…uint64, bool, []byte, nil).
func c13GoValue(r *RNG, s *c13Shape, v *c13Val) (interface{}, bool) {
	switch s.kind {
	case c13Bool:
		return v.b, true
	case c13Int:
		if !v.z.IsInt64() {
			return nil, false
		}
		x := v.z.Int64()
		switch {
		case s.bits <= 8:
			return int8(x), true
		case s.bits <= 16:
			return int16(x), true
		case s.bits <= 32:
			return int32(x), true
		default:
			return x, true
		}
	case c13Uint:
		if !v.z.IsUint64() {
			return nil, false
		}
		x := v.z.Uint64()
		switch {
		case s.bits <= 8:
			return uint8(x), true
		case s.bits <= 16:
			return uint16(x), true
		case s.bits <= 32:
			return uint32(x), true
		default:
			return x, true
		}
	case c13Array, c13Slice:
		if s.elem.kind != c13Int && s.elem.kind != c13Uint {
			return nil, false
		}
		if s.elem.Bits() < 8 {
			return nil, false
		}
		if len(v.elems) == 0 {
			if r.Bool() {
				return nil, true
			}
			return []byte{}, true
		}
		b := make([]byte, len(v.elems))
		for i, e := range v.elems {
			if e.BitLen() > 8 {
				return nil, false
			}
			b[i] = byte(e.Uint64())
		}
		return b, true
	}
	return nil, false
}

// ---------------------------------------------------------------- s-expressions

func c13InfoSX(t *types.Info) SX {
	el := L()
	if t.ElementType != nil {
		el = L(c13InfoSX(t.ElementType))
	}
	fs := make([]SX, len(t.Struct))
	for i := range t.Struct {
		fs[i] = c13InfoSX(&t.Struct[i].Type)
	}
	return L(I(int(t.Type)), I(int(t.Bits)), I(int(t.ArraySize)), el, L(fs...), Bool(t.IsConcrete))
}

func c13ArgSX(a circuit.IOArg) SX {
	cs := make([]SX, len(a.Compound))
	for i, c := range a.Compound {
		cs[i] = c13ArgSX(c)
	}
	return L(c13InfoSX(&a.Type), L(cs...))
}

func c13StrSX(s string) SX { return Bytes([]byte(s)) }

func c13StrsSX(ss []string) SX {
	l := make([]SX, len(ss))
	for i, s := range ss {
		l[i] = c13StrSX(s)
	}
	return L(l...)
}

func c13GinSX(v interface{}) SX {
	switch x := v.(type) {
	case nil:
		return L(I(0))
	case bool:
		return L(I(1), Bool(x))
	case int8:
		return L(I(2), I64(int64(x)))
	case int16:
		return L(I(2), I64(int64(x)))
	case int32:
		return L(I(2), I64(int64(x)))
	case int64:
		return L(I(2), I64(x))
	case uint8:
		return L(I(2), U64(uint64(x)))
	case uint16:
		return L(I(2), U64(uint64(x)))
	case uint32:
		return L(I(2), U64(uint64(x)))
	case uint64:
		return L(I(2), U64(x))
	case []byte:
		return L(I(3), Bytes(x))
	}
	return L(I(4))
}

func c13GinsSX(vs []interface{}) SX {
	l := make([]SX, len(vs))
	for i, v := range vs {
		l[i] = c13GinSX(v)
	}
	return L(l...)
}

func c13Err(code int) SX { return L(I(-1), I(code)) }

// c13OutSX projects the Go value mpc.Result returns.
func c13OutSX(v interface{}) SX {
	switch x := v.(type) {
	case bool:
		return L(I(1), Bool(x))
	case int8:
		return L(I(2), I(1), I(8), I64(int64(x)))
	case int16:
		return L(I(2), I(1), I(16), I64(int64(x)))
	case int32:
		return L(I(2), I(1), I(32), I64(int64(x)))
	case int64:
		return L(I(2), I(1), I(64), I64(x))
	case uint8:
		return L(I(2), I(0), I(8), U64(uint64(x)))
	case uint16:
		return L(I(2), I(0), I(16), U64(uint64(x)))
	case uint32:
		return L(I(2), I(0), I(32), U64(uint64(x)))
	case uint64:
		return L(I(2), I(0), I(64), U64(x))
	case *big.Int:
		return L(I(3), Big(x))
	case string:
		return L(I(4), Bytes([]byte(x)))
	}
	rv := reflect.ValueOf(v)
	if rv.IsValid() && rv.Kind() == reflect.Slice {
		ek, ew := 0, 0
		switch rv.Type().Elem().Kind() {
		case reflect.Bool:
			ek = 1
		case reflect.Int8:
			ek, ew = 2, 8
		case reflect.Int16:
			ek, ew = 2, 16
		case reflect.Int32:
			ek, ew = 2, 32
		case reflect.Int64:
			ek, ew = 2, 64
		case reflect.Uint8:
			ek, ew = 3, 8
		case reflect.Uint16:
			ek, ew = 3, 16
		case reflect.Uint32:
			ek, ew = 3, 32
		case reflect.Uint64:
			ek, ew = 3, 64
		case reflect.Ptr:
			ek = 4
		case reflect.String:
			ek = 5
		}
		items := make([]SX, rv.Len())
		for i := range items {
			items[i] = c13OutSX(rv.Index(i).Interface())
		}
		return L(I(5), I(ek), I(ew), L(items...))
	}
	return L(I(99))
}

// ---------------------------------------------------------------- guarded calls

func c13Parse(a circuit.IOArg, in []string) (z *big.Int, code int) {
	defer func() {
		if e := recover(); e != nil {
			z, code = nil, 2
		}
	}()
	z, err := a.Parse(in)
	if err != nil {
		return nil, 1
	}
	return z, 0
}

func c13Set(a circuit.IOArg, in []interface{}) (z *big.Int, code int) {
	defer func() {
		if e := recover(); e != nil {
			z, code = nil, 2
		}
	}()
	z, err := a.Set(nil, in)
	if err != nil {
		return nil, 1
	}
	return z, 0
}

func c13Result(z *big.Int, t types.Info) (v interface{}, code int) {
	defer func() {
		if e := recover(); e != nil {
			v, code = nil, 2
		}
	}()
	return mpc.Result(z, circuit.IOArg{Type: t}), 0
}

func c13Instantiate(t *types.Info, sizes []int) (code int) {
	defer func() {
		if e := recover(); e != nil {
			code = 2
		}
	}()
	if err := t.InstantiateWithSizes(sizes); err != nil {
		return 1
	}
	return 0
}

func c13ValueWires(z *big.Int, code int, n int) SX {
	if code != 0 {
		return c13Err(code)
	}
	return L(I(1), Big(z), Bits(c13Wires(z, n)))
}

func c13IntsRes(v []int, err error) SX {
	if err != nil {
		return c13Err(1)
	}
	return L(I(1), Ints(v))
}

// ---------------------------------------------------------------- generators

func c13GenWidth(r *RNG) int {
	switch r.Intn(8) {
	case 0:
		return []int{1, 2, 7, 8, 9, 15, 16, 17, 31, 32, 33, 63, 64, 65, 127, 128, 129, 130}[r.Intn(18)]
	case 1:
		return []int{8, 16, 32, 64}[r.Intn(4)]
	case 2:
		return r.Range(65, 130)
	default:
		return r.Range(1, 64)
	}
}

func c13GenScalar(r *RNG) *c13Shape {
	switch r.Intn(7) {
	case 0:
		return &c13Shape{kind: c13Bool}
	case 1, 2, 3:
		return &c13Shape{kind: c13Int, bits: c13GenWidth(r)}
	default:
		return &c13Shape{kind: c13Uint, bits: c13GenWidth(r)}
	}
}

func c13GenArray(r *RNG) *c13Shape {
	var el *c13Shape
	switch r.Intn(8) {
	case 0, 1, 2:
		el = &c13Shape{kind: c13Uint, bits: 8}
	case 3:
		el = &c13Shape{kind: c13Int, bits: []int{8, 16, 32, 64}[r.Intn(4)]}
	case 4:
		el = &c13Shape{kind: c13Bool}
	default:
		el = c13GenScalar(r)
	}
	k := c13Array
	if r.Intn(3) == 0 {
		k = c13Slice
	}
	n := r.Intn(7)
	if r.Intn(10) == 0 {
		n = 0
	}
	return &c13Shape{kind: k, elem: el, n: n}
}

func c13GenLeaf(r *RNG) *c13Shape {
	if r.Intn(3) == 0 {
		return c13GenArray(r)
	}
	return c13GenScalar(r)
}

func c13GenStruct(r *RNG, depth int) *c13Shape {
	s := &c13Shape{kind: c13Struct}
	n := r.Range(1, 5)
	for i := 0; i < n; i++ {
		if depth < 2 && r.Intn(6) == 0 {
			s.fields = append(s.fields, c13GenStruct(r, depth+1))
		} else {
			s.fields = append(s.fields, c13GenLeaf(r))
		}
	}
	return s
}

func c13GenShape(r *RNG) *c13Shape {
	if r.Intn(2) == 0 {
		return c13GenStruct(r, 0)
	}
	return c13GenLeaf(r)
}

// ---------------------------------------------------------------- replay records

type c13Replay struct {
	Seed    uint64   `json:"seed"`
	Case    int      `json:"case"`
	Type    string   `json:"type"`
	Strings []string `json:"strings,omitempty"`
	Values  string   `json:"go_values,omitempty"`
	Got     string   `json:"got"`
	Want    string   `json:"want"`
	Detail  string   `json:"detail,omitempty"`
}

func c13GoValuesText(vs []interface{}) string {
	var p []string
	for _, v := range vs {
		p = append(p, fmt.Sprintf("%T(%v)", v, v))
	}
	return strings.Join(p, ", ")
}

// member offsets of the leaves of a shape
func c13Offsets(leaves []*c13Shape) []int {
	o := make([]int, len(leaves)+1)
	for i, l := range leaves {
		o[i+1] = o[i] + l.Bits()
	}
	return o
}

// c13SetHazard classifies a case by the two ways setInt's fixed 64-bit write
// can be wrong: ones spilled above a negative value narrower than 64 bits,
// and missing sign extension above bit 63.
func c13SetHazard(leaves []*c13Shape, vals []*c13Val) (spill, wide bool) {
	for i, l := range leaves {
		if l.kind == c13Int && vals[i].z.Sign() < 0 {
			if l.bits < 64 {
				spill = true
			}
			if l.bits > 64 {
				wide = true
			}
		}
	}
	return
}

// ---------------------------------------------------------------- runner

type c13Run struct {
	c *Ctx
	i int
}

func (x *c13Run) fail(key, what string, shape string, strs []string, govals []interface{}, got, want, detail string) {
	x.c.Fail(key, what, c13Replay{Seed: x.c.Seed, Case: x.i, Type: shape, Strings: strs,
		Values: c13GoValuesText(govals), Got: got, Want: want, Detail: detail})
}

func runC13(c *Ctx) error {
	x := &c13Run{c: c}
	n := c.N(700, 12000)
	for i := 0; i < n; i++ {
		x.i = i
		r := c.rng.Fork()
		x.codecCase(r)
	}
	for i := 0; i < c.N(500, 8000); i++ {
		x.i = n + i
		x.resultCase(c.rng.Fork())
	}
	for i := 0; i < c.N(300, 5000); i++ {
		x.i = 2*n + i
		x.sizesCase(c.rng.Fork())
	}
	for i := 0; i < c.N(600, 20000); i++ {
		x.setStringCase(c.rng.Fork())
	}
	for i := 0; i < c.N(250, 4000); i++ {
		x.i = 3*n + i
		x.edgeCase(c.rng.Fork())
	}
	for i := 0; i < c.N(400, 6000); i++ {
		x.i = 4*n + i
		x.historyCase(c.rng.Fork())
	}
	x.fixedHistory()
	for i := 0; i < c.N(400, 6000); i++ {
		x.i = 5*n + i
		x.mixedCase(c.rng.Fork())
	}
	x.mixedEndToEnd()
	x.valueVsText()
	x.endToEnd(c.rng.Fork())
	x.stringResults(c.rng.Fork())
	for i := 0; i < c.N(450, 7000); i++ {
		x.i = 6*n + i
		x.resultsCase(c.rng.Fork())
	}
	for i := 0; i < c.N(250, 4000); i++ {
		x.i = 7*n + i
		x.roundTripCase(c.rng.Fork())
	}
	x.resultsFixed()
	x.stringLossless(c.rng.Fork())
	// x.typeTexts(c.rng.Fork()) — c13_types.go (ops 13/14) is NOT wired in yet: widths near 2^31 in the fixed
	// texts make the nat-based of_minfo of IO/IOTypes.v take minutes in the extracted model
	x.doorStreaming(c.rng.Fork())
	x.doorPrintResults(c.rng.Fork())
	x.doorTypesParse(c.rng.Fork())
	x.doorCircuitFile(c.rng.Fork())
	x.doorConcurrent(c.rng.Fork())
	x.doorCommandLine()
	x.fixedCases()
	return nil
}

// codecCase: one type shape with in-domain values: Parse, Set, independence,
// Split, Result on every member.
func (x *c13Run) codecCase(r *RNG) {
	c := x.c
	shape := c13GenShape(r)
	spillProne := r.Intn(8) == 0
	if spillProne {
		// a narrow signed int, optionally bools, then a byte array that gets an empty value
		shape = &c13Shape{kind: c13Struct}
		if r.Bool() {
			shape.fields = append(shape.fields, c13GenLeaf(r))
		}
		shape.fields = append(shape.fields, &c13Shape{kind: c13Int, bits: r.Range(1, 63)})
		for k := r.Intn(3); k > 0; k-- {
			shape.fields = append(shape.fields, &c13Shape{kind: c13Bool})
		}
		shape.fields = append(shape.fields, &c13Shape{kind: c13Array, elem: &c13Shape{kind: c13Uint, bits: 8}, n: r.Range(1, 6)})
		if r.Bool() {
			shape.fields = append(shape.fields, c13GenLeaf(r))
		}
		c.Hist("shape:narrow-int-then-empty-array")
	}
	leaves := shape.Leaves()
	arg := shape.IOArg()
	total := shape.Bits()
	c.Hist("shape:" + map[int]string{c13Bool: "bool", c13Int: "int", c13Uint: "uint", c13Array: "array", c13Slice: "slice", c13Struct: "struct"}[shape.kind])
	if shape.nested() {
		c.Hist("shape:nested-struct")
	}
	vals := make([]*c13Val, len(leaves))
	strs := make([]string, len(leaves))
	var want []bool
	spellable := true
	for k, l := range leaves {
		var cls string
		vals[k], cls = c13GenVal(r, l)
		if spillProne && l.kind == c13Int && l.bits < 64 && vals[k].z.Sign() >= 0 {
			vals[k].z = new(big.Int).Sub(new(big.Int).Neg(c13RandBits(r, l.bits-1)), big.NewInt(1))
			cls = "random-negative"
		}
		if spillProne && l.kind == c13Array && l.elem.kind == c13Uint && l.elem.bits == 8 && r.Intn(4) != 0 {
			vals[k].elems = nil
			cls = "short"
		}
		c.Hist("value:" + cls)
		var sp string
		strs[k], sp = c13Spell(r, l, vals[k])
		if sp == "" {
			spellable = false
		} else {
			c.Hist("spelling:" + sp)
		}
		switch l.kind {
		case c13Int, c13Uint:
			c.Hist(fmt.Sprintf("width:%s", c13WidthBucket(l.bits)))
		case c13Array, c13Slice:
			c.Hist(fmt.Sprintf("array-len:%d", l.n))
			c.Hist(fmt.Sprintf("elem-width:%s", c13WidthBucket(l.elem.Bits())))
		}
		want = append(want, c13Encode(l, vals[k])...)
	}
	if !spellable {
		return
	}
	key := shape.String() + "|" + strings.Join(strs, ",")
	c.Eval(key, total > 1)
	if x.i < 3 {
		c.Sample(map[string]interface{}{"type": shape.String(), "inputs": strs, "bits": bitsString(want)})
	}

	// (1) Parse puts the reference encoding on the wires
	pz, pcode := c13Parse(arg, strs)
	c.Case(L(I(0), c13ArgSX(arg), c13StrsSX(strs)), c13ValueWires(pz, pcode, total))
	var pbits []bool
	if pcode != 0 {
		x.fail("c13:Parse:rejects-in-domain-value", "Parse rejects an in-domain value", shape.String(), strs, nil, fmt.Sprintf("code %d", pcode), bitsString(want), "")
	} else {
		pbits = c13Wires(pz, total)
		if bitsString(pbits) != bitsString(want) {
			x.fail("c13:Parse:bits", "Parse wires differ from little-endian two's complement in declaration order", shape.String(), strs, nil, bitsString(pbits), bitsString(want), "")
		}
	}

	// (2) Set (Go values) puts the same bits on the wires
	govals := make([]interface{}, len(leaves))
	expressible := true
	for k, l := range leaves {
		var ok bool
		govals[k], ok = c13GoValue(r, l, vals[k])
		if !ok {
			expressible = false
		}
	}
	var sbits []bool
	if expressible {
		sz, scode := c13Set(arg, govals)
		c.Case(L(I(1), c13ArgSX(arg), c13GinsSX(govals)), c13ValueWires(sz, scode, total))
		c.Eval("set|"+key, total > 1)
		spill, wide := c13SetHazard(leaves, vals)
		if scode != 0 {
			x.fail("c13:Set:rejects-in-domain-value", "Set rejects an in-domain value", shape.String(), strs, govals, fmt.Sprintf("code %d", scode), bitsString(want), "")
		} else {
			sbits = c13Wires(sz, total)
			if bitsString(sbits) != bitsString(want) {
				k := "c13:Set:bits:other"
				what := "Set wires differ from the Parse wires of the same value"
				offs := c13Offsets(leaves)
				// which member's range is wrong, and is it explained by setInt's 64-bit write?
				for m := range leaves {
					if bitsString(sbits[offs[m]:offs[m+1]]) != bitsString(want[offs[m]:offs[m+1]]) {
						if leaves[m].kind == c13Int && leaves[m].bits > 64 && vals[m].z.Sign() < 0 && wide {
							k = "c13:setInt:width>64:no-sign-extension"
							what = "setInt writes 64 bits: a negative value of an int wider than 64 bits is not sign-extended"
						} else if spill && c13SpillReaches(leaves, vals, offs, m) {
							k = "c13:setInt:spill"
							what = "setInt writes 64 bits whatever the width: the ones above a negative narrow int stay in a following member"
						}
						break
					}
				}
				x.fail(k, what, shape.String(), strs, govals, bitsString(sbits), bitsString(want), "")
			}
		}
	}

	// (3) independence: change one member, the others' bits stay
	if len(leaves) > 1 {
		m := r.Intn(len(leaves))
		nv, _ := c13GenVal(r, leaves[m])
		ns, sp := c13Spell(r, leaves[m], nv)
		if sp != "" {
			strs2 := append([]string(nil), strs...)
			strs2[m] = ns
			offs := c13Offsets(leaves)
			pz2, pcode2 := c13Parse(arg, strs2)
			c.Eval("indep|"+key+"|"+ns, true)
			if pcode == 0 && pcode2 == 0 {
				pb2 := c13Wires(pz2, total)
				for j := range leaves {
					if j != m && bitsString(pb2[offs[j]:offs[j+1]]) != bitsString(pbits[offs[j]:offs[j+1]]) {
						x.fail("c13:Parse:independence", "changing one member changes the Parse bits of another", shape.String(), strs2, nil,
							bitsString(pb2), bitsString(pbits), fmt.Sprintf("changed member %d, member %d differs", m, j))
					}
				}
			}
			if expressible && sbits != nil {
				gv, ok := c13GoValue(r, leaves[m], nv)
				if ok {
					govals2 := append([]interface{}(nil), govals...)
					govals2[m] = gv
					sz2, scode2 := c13Set(arg, govals2)
					c.Case(L(I(1), c13ArgSX(arg), c13GinsSX(govals2)), c13ValueWires(sz2, scode2, total))
					if scode2 == 0 {
						sb2 := c13Wires(sz2, total)
						for j := range leaves {
							if j != m && bitsString(sb2[offs[j]:offs[j+1]]) != bitsString(sbits[offs[j]:offs[j+1]]) {
								k := "c13:Set:independence:other"
								vals2 := append([]*c13Val(nil), vals...)
								vals2[m] = nv
								if c13SpillReaches(leaves, vals, offs, j) || c13SpillReaches(leaves, vals2, offs, j) {
									k = "c13:setInt:spill"
								}
								x.fail(k, "changing one member changes the Set bits of another member", shape.String(), strs2, govals2,
									bitsString(sb2), bitsString(sbits), fmt.Sprintf("changed member %d from %s to %s, member %d differs", m, vals[m].String(leaves[m]), nv.String(leaves[m]), j))
							}
						}
					}
				}
			}
		}
	}

	// Split of the compound value gives back each member's own Parse bits
	if pcode == 0 && len(leaves) > 0 {
		var io circuit.IO
		for _, l := range leaves {
			io = append(io, circuit.IOArg{Type: l.Info()})
		}
		parts := io.Split(pz)
		ps := make([]SX, len(parts))
		for k := range parts {
			ps[k] = Big(parts[k])
		}
		c.Case(L(I(4), L(c13ArgsSX(io)...), Big(pz)), L(ps...))
		offs := c13Offsets(leaves)
		for k, l := range leaves {
			if bitsString(c13Wires(parts[k], l.Bits())) != bitsString(want[offs[k]:offs[k+1]]) || parts[k].BitLen() > l.Bits() {
				x.fail("c13:Split", "IO.Split does not return the member's bits", shape.String(), strs, nil, parts[k].Text(2), bitsString(want[offs[k]:offs[k+1]]), fmt.Sprintf("member %d", k))
			}
		}
	}

	// (5) Result inverts the encoding of every member, twice, argument untouched
	for k, l := range leaves {
		x.checkResult(l, vals[k], c13FromBits(c13Encode(l, vals[k])))
	}
}

func c13ArgsSX(io circuit.IO) []SX {
	l := make([]SX, len(io))
	for i, a := range io {
		l[i] = c13ArgSX(a)
	}
	return l
}

// c13SpillReaches: is member m within 64 bits above a negative int narrower
// than 64 bits that precedes it, with no integer/bool write in between
// covering it (arrays written short or nil keep the spilled ones)?
func c13SpillReaches(leaves []*c13Shape, vals []*c13Val, offs []int, m int) bool {
	for p := 0; p < m; p++ {
		if leaves[p].kind == c13Int && leaves[p].bits < 64 && vals[p].z.Sign() < 0 && offs[p]+64 > offs[m] {
			return true
		}
	}
	return false
}

func c13WidthBucket(b int) string {
	switch {
	case b == 0:
		return "0"
	case b == 1:
		return "1"
	case b < 8:
		return "2-7"
	case b == 8:
		return "8"
	case b < 32:
		return "9-31"
	case b <= 33:
		return "32-33"
	case b < 64:
		return "34-63"
	case b == 64:
		return "64"
	case b <= 66:
		return "65-66"
	case b < 128:
		return "67-127"
	default:
		return "128-130"
	}
}

// expected Go value of Result for a leaf value, as an SX of the same
// projection as c13OutSX
func c13ExpectOut(l *c13Shape, v *c13Val) SX {
	scalar := func(s *c13Shape, z *big.Int) SX {
		switch s.kind {
		case c13Bool:
			return L(I(1), Bool(z.Sign() != 0))
		case c13Int, c13Uint:
			signed := 0
			if s.kind == c13Int {
				signed = 1
			}
			w := 0
			switch {
			case s.bits <= 8:
				w = 8
			case s.bits <= 16:
				w = 16
			case s.bits <= 32:
				w = 32
			case s.bits <= 64:
				w = 64
			}
			if w == 0 {
				return L(I(3), Big(z))
			}
			return L(I(2), I(signed), I(w), Big(z))
		}
		return L(I(99))
	}
	switch l.kind {
	case c13Bool:
		z := new(big.Int)
		if v.b {
			z.SetInt64(1)
		}
		return scalar(l, z)
	case c13Int, c13Uint:
		return scalar(l, v.z)
	case c13Array, c13Slice:
		w := l.elem.Bits()
		var ek, ew int
		switch l.elem.kind {
		case c13Bool:
			ek = 1
		case c13Int, c13Uint:
			ek = 3
			if l.elem.kind == c13Int {
				ek = 2
			}
			switch {
			case w <= 8:
				ew = 8
			case w <= 16:
				ew = 16
			case w <= 32:
				ew = 32
			case w <= 64:
				ew = 64
			default:
				ek = 4
			}
		}
		items := make([]SX, l.n)
		for i := 0; i < l.n; i++ {
			e := new(big.Int)
			if i < len(v.elems) {
				e.Set(v.elems[i])
			}
			if l.elem.kind == c13Int && e.Bit(w-1) == 1 {
				e.Sub(e, c13Pow2(w))
			}
			items[i] = scalar(l.elem, e)
		}
		return L(I(5), I(ek), I(ew), L(items...))
	}
	return L(I(99))
}

// checkResult: Result twice on the same *big.Int: model case + equation (5)
func (x *c13Run) checkResult(l *c13Shape, v *c13Val, enc *big.Int) {
	c := x.c
	t := l.Info()
	arg := new(big.Int).Set(enc)
	o1, c1 := c13Result(arg, t)
	var obs SX
	var s1, s2 SX
	var a1, a2 *big.Int
	c2 := 0
	if c1 == 0 {
		s1 = c13OutProj(o1, t) // projected before the second call (o1 may alias arg)
		a1 = new(big.Int).Set(arg)
		var o2 interface{}
		o2, c2 = c13Result(arg, t)
		if c2 == 0 {
			s2 = c13OutProj(o2, t)
			a2 = new(big.Int).Set(arg)
			obs = L(L(s1, Big(a1)), L(s2, Big(a2)))
		} else {
			obs = c13Err(c2)
		}
	} else {
		obs = c13Err(c1)
	}
	c.Case(L(I(5), c13InfoSX(&t), Big(enc)), obs)
	c.Eval("result|"+l.String()+"|"+enc.Text(16), l.Bits() > 1)
	if v == nil {
		return
	}
	want := c13ExpectOut(l, v)
	desc := l.String()
	tint := l.kind == c13Int
	pfx := "c13:Result:" + map[int]string{c13Bool: "TBool", c13Int: "TInt", c13Uint: "TUint", c13Array: "TArray", c13Slice: "TSlice"}[l.kind]
	if c1 != 0 || c2 != 0 {
		x.fail(pfx+":panics", "Result panics on an encoded in-domain value", desc, nil, nil, fmt.Sprintf("code %d/%d", c1, c2), want.String(), "value "+v.String(l))
		return
	}
	if s1.String() != want.String() {
		x.fail(pfx+":wrong-value", "Result does not invert the encoding", desc, nil, nil, s1.String(), want.String(), "encoded 0x"+enc.Text(16))
	}
	if a1.Cmp(enc) != 0 {
		k := pfx + ":mutates-argument"
		if !tint {
			k += ":other"
		}
		x.fail(k, "Result modifies the *big.Int it is given", desc, nil, nil, "argument after the call 0x"+a1.Text(16), "0x"+enc.Text(16), "value "+v.String(l))
	}
	if s2.String() != s1.String() {
		k := pfx + ":not-repeatable"
		if !tint {
			k += ":other"
		}
		x.fail(k, "decoding the same *big.Int a second time gives a different value", desc, nil, nil, s2.String(), s1.String(), "encoded 0x"+enc.Text(16))
	}
}

// resultCase: Result on arbitrary (also out-of-domain) values and on strings,
// for the model correspondence.
func (x *c13Run) resultCase(r *RNG) {
	var l *c13Shape
	switch r.Intn(6) {
	case 0:
		l = &c13Shape{kind: c13String, bits: 8 * r.Intn(9)}
	case 1:
		el := &c13Shape{kind: c13String, bits: 8 * r.Intn(3)}
		l = &c13Shape{kind: c13Array, elem: el, n: r.Intn(4)}
	case 2:
		l = c13GenArray(r)
	default:
		l = c13GenScalar(r)
	}
	z := c13RandBits(r, l.Bits()+r.Intn(3)*r.Intn(70))
	if l.kind == c13String && r.Bool() { // mostly printable text
		b := make([]byte, l.bits/8)
		for i := range b {
			b[i] = byte(0x20 + r.Intn(0x5f))
		}
		z = new(big.Int)
		for i := len(b) - 1; i >= 0; i-- {
			z.Lsh(z, 8)
			z.Or(z, big.NewInt(int64(b[i])))
		}
	}
	if r.Intn(8) == 0 {
		z.Neg(z)
	}
	x.c.Hist("result:" + map[int]string{c13Bool: "bool", c13Int: "int", c13Uint: "uint", c13String: "string", c13Array: "array", c13Slice: "slice"}[l.kind])
	x.checkResult(l, nil, z)
}

// sizesCase: Sizes / InputSizes / InstantiateWithSizes: model cases + equation (4)
func (x *c13Run) sizesCase(r *RNG) {
	c := x.c
	var shape *c13Shape
	if r.Intn(3) == 0 {
		shape = c13GenStruct(r, 0)
	} else {
		shape = c13GenLeaf(r)
	}
	// the unsized template keeps concrete element types; widths of int/uint
	// members are inferred, so bound them by what one Go value can carry
	leaves := shape.Leaves()
	vals := make([]*c13Val, len(leaves))
	strs := make([]string, len(leaves))
	govals := make([]interface{}, len(leaves))
	expressible := true
	for k, l := range leaves {
		if l.kind == c13Array {
			l.kind = c13Slice // an unsized array argument is a slice template
		}
		var cls string
		vals[k], cls = c13GenVal(r, l)
		if (l.kind == c13Int || l.kind == c13Uint) && r.Intn(3) == 0 {
			vals[k].z = big.NewInt(int64(r.Intn(9))) // small positives: 0..8
			if l.bits < 4 {
				vals[k].z = big.NewInt(int64(r.Intn(2)))
			}
			cls = "tiny"
		}
		c.Hist("sizes-value:" + cls)
		var sp string
		strs[k], sp = c13Spell(r, l, vals[k])
		if sp == "" {
			return
		}
		if l.kind == c13Bool { // "0"/"1" style spellings are sized 1 whatever the type
			strs[k] = c13SpellBool(r, vals[k].b)
		}
		if (l.kind == c13Slice) && len(vals[k].elems) == 0 {
			strs[k] = "_" // the spelling InputSizes sizes 0
		}
		var ok bool
		govals[k], ok = c13GoValue(r, l, vals[k])
		if !ok {
			expressible = false
		}
	}
	isz, ierr := circuit.InputSizes(strs)
	c.Case(L(I(3), c13StrsSX(strs)), c13IntsRes(isz, ierr))
	c.Eval("inputsizes|"+strings.Join(strs, ","), true)
	if ierr != nil {
		x.fail("c13:InputSizes:rejects-in-domain-value", "InputSizes rejects a spelling Parse accepts", shape.String(), strs, nil, ierr.Error(), "sizes", "")
	} else {
		x.checkInstantiated(shape, leaves, vals, strs, nil, isz, "InputSizes")
	}
	if expressible {
		gsz, gerr := circuit.Sizes(govals)
		c.Case(L(I(2), c13GinsSX(govals)), c13IntsRes(gsz, gerr))
		c.Eval("sizes|"+c13GoValuesText(govals), true)
		if gerr != nil {
			x.fail("c13:Sizes:rejects-in-domain-value", "Sizes rejects a value Set accepts", shape.String(), nil, govals, gerr.Error(), "sizes", "")
		} else {
			x.checkInstantiated(shape, leaves, vals, nil, govals, gsz, "Sizes")
		}
	}
}

// checkInstantiated: instantiate the unsized template with the inferred
// sizes; the written bits, decoded with the instantiated member types, must
// be the values.
func (x *c13Run) checkInstantiated(shape *c13Shape, leaves []*c13Shape, vals []*c13Val, strs []string, govals []interface{}, sizes []int, who string) {
	c := x.c
	tmpl := shape.Unsized()
	before := c13InfoSX(&tmpl)
	code := c13Instantiate(&tmpl, sizes)
	obs := c13Err(code)
	if code == 0 {
		obs = L(I(1), c13InfoSX(&tmpl))
	}
	c.Case(L(I(6), before, Ints(sizes)), obs)
	if code != 0 {
		x.fail("c13:"+who+":InstantiateWithSizes-fails", "the inferred sizes do not instantiate the argument type", shape.String(), strs, govals, fmt.Sprintf("code %d sizes %v", code, sizes), "a concrete type", "")
		return
	}
	// member types as the compiler flattens them
	var members []types.Info
	var flat func(t types.Info)
	flat = func(t types.Info) {
		if t.Type == types.TStruct {
			for _, f := range t.Struct {
				flat(f.Type)
			}
			return
		}
		members = append(members, t)
	}
	flat(tmpl)
	arg := circuit.IOArg{Type: tmpl}
	if tmpl.Type == types.TStruct {
		for _, m := range members {
			arg.Compound = append(arg.Compound, circuit.IOArg{Type: m})
		}
	}
	total := int(tmpl.Bits)
	var z *big.Int
	var code2 int
	if strs != nil {
		z, code2 = c13Parse(arg, strs)
		c.Case(L(I(0), c13ArgSX(arg), c13StrsSX(strs)), c13ValueWires(z, code2, total))
	} else {
		z, code2 = c13Set(arg, govals)
		c.Case(L(I(1), c13ArgSX(arg), c13GinsSX(govals)), c13ValueWires(z, code2, total))
	}
	overlapHit := false
	if shape.nested() {
		for k, m := range members {
			if k < len(sizes) && k < len(leaves) && c13MemberSizeWrong(leaves[k], m, sizes[k]) {
				overlapHit = true
			}
		}
	}
	const overlapKey = "c13:InstantiateWithSizes:nested-struct:sizes-overlap"
	const overlapWhat = "InstantiateWithSizes passes sizes[idx:] to struct field idx: after a nested struct the following members take the wrong sizes"
	if code2 != 0 {
		if overlapHit {
			x.fail(overlapKey, overlapWhat, shape.String(), strs, govals, fmt.Sprintf("code %d", code2), "accepted", fmt.Sprintf("sizes %v", sizes))
			return
		}
		for _, l := range leaves {
			if strs == nil && l.kind == c13Slice && l.elem.Bits() > 8 && l.n > 0 {
				x.fail("c13:Sizes:bytes-for-wide-elements", "Sizes reports len*8 bits for a []byte, Set writes one element of the (wider) element type per byte: the instantiated slice is too short",
					shape.String(), strs, govals, fmt.Sprintf("code %d", code2), "accepted", fmt.Sprintf("sizes %v", sizes))
				return
			}
		}
		for k, l := range leaves {
			if strs != nil && l.kind == c13Slice && strs[k] == "_" {
				x.fail("c13:Parse:TSlice:rejects-underscore", "InputSizes sizes \"_\" as an empty argument, Parse of the instantiated (empty) slice rejects \"_\"",
					shape.String(), strs, govals, fmt.Sprintf("code %d", code2), "accepted", fmt.Sprintf("sizes %v", sizes))
				return
			}
		}
		x.fail("c13:"+who+":instantiated-type-rejects-value", "the type instantiated from the inferred sizes rejects the value", shape.String(), strs, govals, fmt.Sprintf("code %d", code2), "accepted", fmt.Sprintf("sizes %v", sizes))
		return
	}
	bits := c13Wires(z, total)
	ofs := 0
	for k, m := range members {
		mb := int(m.Bits)
		if ofs+mb > len(bits) {
			break
		}
		seg := bits[ofs : ofs+mb]
		ofs += mb
		l := leaves[k]
		var got, want string
		switch l.kind {
		case c13Bool:
			got, want = bitsString(seg), bitsString([]bool{vals[k].b})
		case c13Int, c13Uint:
			got, want = c13DecodeInt(seg, l.kind == c13Int).String(), vals[k].z.String()
		default:
			got, want = bitsString(seg), bitsString(c13Encode(&c13Shape{kind: c13Slice, elem: l.elem, n: len(vals[k].elems)}, vals[k]))
		}
		if got != want {
			key := "c13:" + who + ":other"
			what := "the bits written under the inferred size do not decode to the value"
			switch {
			case overlapHit:
				key, what = overlapKey, overlapWhat
			case (l.kind == c13Int || l.kind == c13Uint) && who == "Sizes" && (vals[k].z.Cmp(big.NewInt(2)) == 0 || vals[k].z.Cmp(big.NewInt(3)) == 0) && mb == 1:
				key = "c13:Sizes:bitLen:2-or-3"
				what = "bitLen never tests bit 1: Sizes reports 1 bit for the values 2 and 3"
			case l.kind == c13Int && mb == vals[k].z.BitLen() && mb > 0 && !c13FitsSigned(vals[k].z, mb):
				key = "c13:" + who + ":TInt:no-room-for-sign-bit"
				what = "the size inferred for a signed int is the bit length of the magnitude: no room for the sign bit"
			}
			x.fail(key, what, shape.String(), strs, govals, got, want, fmt.Sprintf("member %d instantiated as %s from sizes %v", k, m, sizes))
		}
	}
}

func c13FitsSigned(z *big.Int, bits int) bool {
	lo := new(big.Int).Neg(c13Pow2(bits - 1))
	return z.Cmp(lo) >= 0 && z.Cmp(c13Pow2(bits-1)) < 0
}

// did member k get a size other than its own inferred one?
func c13MemberSizeWrong(l *c13Shape, m types.Info, own int) bool {
	switch l.kind {
	case c13Int, c13Uint:
		return int(m.Bits) != own
	case c13Array, c13Slice:
		w := l.elem.Bits()
		return int(m.ArraySize) != (own+w-1)/w
	}
	return false
}

// setStringCase: big.Int.SetString(s, 0) on short strings over the alphabet of
// number literals, and InputSizes on the same string.
func (x *c13Run) setStringCase(r *RNG) {
	const alpha = "0123456789abcdefABCDEFxXbBoO_+-_0011xx "
	n := r.Intn(7)
	var sb strings.Builder
	switch r.Intn(4) {
	case 0:
		sb.WriteString([]string{"0x", "0b", "0o", "0", "-", "+", "0X", "-0x", "1", "42x"}[r.Intn(10)])
	}
	for i := 0; i < n; i++ {
		sb.WriteByte(alpha[r.Intn(len(alpha))])
	}
	s := sb.String()
	z, ok := new(big.Int).SetString(s, 0)
	obs := c13Err(1)
	if ok {
		obs = L(I(1), Big(z))
	}
	x.c.Case(L(I(7), c13StrSX(s)), obs)
	sz, err := circuit.InputSizes([]string{s})
	x.c.Case(L(I(3), c13StrsSX([]string{s})), c13IntsRes(sz, err))
	if ok {
		x.c.Hist("setstring:accepted")
	} else {
		x.c.Hist("setstring:rejected")
	}
	// the repeat spelling <count>x<hex> that InputSizes sizes (circuit/ioarg_test.go:
	// "42x00" = 42 zero bytes) must be one Parse can read.  (Strings that merely
	// start with 0x are sized without validation; Parse rejects them later, no
	// bits are written, so that is not a statement of the property.)
	if err == nil && !ok && reC13Rep.MatchString(s) && !strings.HasPrefix(s, "0x") {
		el := types.Byte
		t := types.Info{Type: types.TSlice, ElementType: &el}
		if c13Instantiate(&t, sz) == 0 {
			if _, code := c13Parse(circuit.IOArg{Type: t}, []string{s}); code != 0 {
				x.fail("c13:InputSizes:NxHH:Parse-rejects", "InputSizes sizes the repeat spelling <count>x<hex>, Parse of the instantiated []byte rejects it",
					"[]byte", []string{s}, nil, fmt.Sprintf("sizes %v, Parse code %d", sz, code), "accepted", "")
			}
		}
	}
}

// edgeCase: error paths and ill-formed arguments, for the model correspondence
func (x *c13Run) edgeCase(r *RNG) {
	c := x.c
	shape := c13GenShape(r)
	leaves := shape.Leaves()
	arg := shape.IOArg()
	strs := make([]string, len(leaves))
	govals := make([]interface{}, len(leaves))
	for k, l := range leaves {
		v, _ := c13GenVal(r, l)
		s, sp := c13Spell(r, l, v)
		if sp == "" {
			s = "0"
		}
		strs[k] = s
		govals[k], _ = c13GoValue(r, l, v)
	}
	kind := r.Intn(9)
	switch kind {
	case 0: // wrong number of inputs
		if r.Bool() {
			strs = append(strs, "1")
			govals = append(govals, uint8(1))
		} else {
			strs = strs[:len(strs)-1]
			govals = govals[:len(govals)-1]
		}
	case 1: // malformed text / wrong Go type
		m := r.Intn(len(strs))
		strs[m] = []string{"", "x", "0x", "12a", "tru", "-", "0b2", "_", "1__0", "08", "0_8", "2x00"}[r.Intn(12)]
		govals[m] = []interface{}{"str", int(3), 1.5, []int{1}, nil, true, uint8(7), []byte{1, 2, 3, 4, 5, 6, 7, 8, 9}}[r.Intn(8)]
	case 2: // too many array elements / out-of-range numbers
		m := r.Intn(len(strs))
		strs[m] = []string{"0x" + strings.Repeat("ff", 1+r.Intn(9)), "-5", "-0x80", "340282366920938463463374607431768211456"}[r.Intn(4)]
		govals[m] = r.Bytes(r.Intn(10))
	case 3: // nil element type
		m := r.Intn(len(leaves))
		t := types.Info{Type: types.TArray, IsConcrete: true, ArraySize: types.Size(r.Intn(3))}
		c13SetMember(&arg, m, t)
	case 4: // zero-width element type
		m := r.Intn(len(leaves))
		el := types.Info{Type: types.TUint, IsConcrete: true}
		t := types.Info{Type: []types.Type{types.TArray, types.TSlice}[r.Intn(2)], IsConcrete: true, ArraySize: types.Size(r.Intn(3)), ElementType: &el}
		c13SetMember(&arg, m, t)
		strs[m] = []string{"0", "1", "0x"}[r.Intn(3)]
	case 5: // Bits field disagreeing with ArraySize*element (as in circuit/ioarg_test.go, and slices read from circuit files)
		m := r.Intn(len(leaves))
		if leaves[m].kind == c13Array || leaves[m].kind == c13Slice {
			t := leaves[m].Info()
			if r.Bool() {
				t.Bits = 0
			} else {
				t.ArraySize = 0
			}
			c13SetMember(&arg, m, t)
		}
	case 6: // nested (unflattened) compound, as circuit files may contain
		inner := circuit.IOArg{Name: "in", Type: types.Info{Type: types.TStruct, IsConcrete: true}}
		nin := 1 + r.Intn(2)
		for k := 0; k < nin; k++ {
			l := c13GenScalar(r)
			inner.Compound = append(inner.Compound, circuit.IOArg{Type: l.Info()})
			inner.Type.Bits += types.Size(l.Bits())
		}
		if len(arg.Compound) == 0 {
			arg = circuit.IOArg{Type: types.Info{Type: types.TStruct, IsConcrete: true, Bits: arg.Type.Bits}, Compound: circuit.IO{arg}}
		}
		arg.Compound = append(arg.Compound, inner)
		arg.Type.Bits += inner.Type.Bits
		strs = append(strs, "1")
		govals = append(govals, uint8(1))
	case 7: // unsupported kinds
		m := r.Intn(len(leaves))
		t := types.Info{Type: []types.Type{types.TString, types.TFloat, types.TPtr, types.TNil, types.TUndefined, types.TStruct}[r.Intn(6)], IsConcrete: true, Bits: 8}
		c13SetMember(&arg, m, t)
	case 8: // array of arrays / of bools / of strings as element type (Parse uses only the element width)
		m := r.Intn(len(leaves))
		inner := c13GenArray(r)
		outer := &c13Shape{kind: c13Array, elem: inner, n: r.Intn(3)}
		t := outer.Info()
		c13SetMember(&arg, m, t)
		strs[m] = "0x" + fmt.Sprintf("%x", r.Bytes(r.Intn(5)))
	}
	c.Hist(fmt.Sprintf("edge:%d", kind))
	total := int(arg.Type.Bits)
	if len(arg.Compound) > 0 {
		total = 0
		for _, m := range arg.Compound {
			total += int(m.Type.Bits)
		}
	}
	pz, pcode := c13Parse(arg, strs)
	c.Case(L(I(0), c13ArgSX(arg), c13StrsSX(strs)), c13ValueWires(pz, pcode, int(arg.Type.Bits)))
	sz, scode := c13Set(arg, govals)
	c.Case(L(I(1), c13ArgSX(arg), c13GinsSX(govals)), c13ValueWires(sz, scode, int(arg.Type.Bits)))
	gsz, gerr := circuit.Sizes(govals)
	c.Case(L(I(2), c13GinsSX(govals)), c13IntsRes(gsz, gerr))
	isz, ierr := circuit.InputSizes(strs)
	c.Case(L(I(3), c13StrsSX(strs)), c13IntsRes(isz, ierr))
	c.Eval(fmt.Sprintf("edge|%d|%s|%s", kind, arg, strings.Join(strs, ",")), true)
	_ = total
	// Result on ill-formed output types
	if kind == 3 || kind == 4 || kind == 7 || kind == 8 {
		var t types.Info
		if len(arg.Compound) > 0 {
			t = arg.Compound[r.Intn(len(arg.Compound))].Type
		} else {
			t = arg.Type
		}
		z := c13RandBits(r, int(t.Bits)+r.Intn(9))
		a := new(big.Int).Set(z)
		o1, c1 := c13Result(a, t)
		obs := c13Err(c1)
		if c1 == 0 {
			s1 := c13OutProj(o1, t)
			a1 := new(big.Int).Set(a)
			o2, c2 := c13Result(a, t)
			if c2 == 0 {
				obs = L(L(s1, Big(a1)), L(c13OutProj(o2, t), Big(a)))
			} else {
				obs = c13Err(c2)
			}
		}
		c.Case(L(I(5), c13InfoSX(&t), Big(z)), obs)
	}
}

func c13SetMember(arg *circuit.IOArg, m int, t types.Info) {
	if len(arg.Compound) == 0 {
		arg.Type = t
		return
	}
	old := arg.Compound[m].Type.Bits
	arg.Compound[m].Type = t
	arg.Type.Bits += t.Bits - old
}

// fixedCases: the replay inputs of the confirmed findings and the examples
// of circuit/ioarg_test.go, small enough for the in-kernel sub-sample.
func (x *c13Run) fixedCases() {
	c := x.c
	x.i = -1
	// F7: 5-bit signed 16 decoded twice
	i5 := &c13Shape{kind: c13Int, bits: 5}
	x.checkResult(i5, &c13Val{z: big.NewInt(-16)}, big.NewInt(16))
	i70 := &c13Shape{kind: c13Int, bits: 70}
	x.checkResult(i70, &c13Val{z: big.NewInt(-1)}, new(big.Int).Sub(c13Pow2(70), big.NewInt(1)))
	// F8: negative int8 followed by a short byte array
	s := &c13Shape{kind: c13Struct, fields: []*c13Shape{{kind: c13Int, bits: 8},
		{kind: c13Array, elem: &c13Shape{kind: c13Uint, bits: 8}, n: 4}}}
	arg := s.IOArg()
	strs := []string{"-1", "0"}
	govals := []interface{}{int8(-1), nil}
	pz, pc := c13Parse(arg, strs)
	c.Case(L(I(0), c13ArgSX(arg), c13StrsSX(strs)), c13ValueWires(pz, pc, 40))
	sz, sc := c13Set(arg, govals)
	c.Case(L(I(1), c13ArgSX(arg), c13GinsSX(govals)), c13ValueWires(sz, sc, 40))
	if pc == 0 && sc == 0 && bitsString(c13Wires(pz, 40)) != bitsString(c13Wires(sz, 40)) {
		x.fail("c13:setInt:spill", "setInt writes 64 bits whatever the width: the ones above a negative narrow int stay in a following member",
			s.String(), strs, govals, bitsString(c13Wires(sz, 40)), bitsString(c13Wires(pz, 40)), "fixed replay of F8")
	}
	// F8b: negative value of an int wider than 64 bits
	w := &c13Shape{kind: c13Int, bits: 100}
	warg := w.IOArg()
	pz, pc = c13Parse(warg, []string{"-1"})
	c.Case(L(I(0), c13ArgSX(warg), c13StrsSX([]string{"-1"})), c13ValueWires(pz, pc, 100))
	sz, sc = c13Set(warg, []interface{}{int64(-1)})
	c.Case(L(I(1), c13ArgSX(warg), c13GinsSX([]interface{}{int64(-1)})), c13ValueWires(sz, sc, 100))
	if pc == 0 && sc == 0 && bitsString(c13Wires(pz, 100)) != bitsString(c13Wires(sz, 100)) {
		x.fail("c13:setInt:width>64:no-sign-extension", "setInt writes 64 bits: a negative value of an int wider than 64 bits is not sign-extended",
			w.String(), []string{"-1"}, []interface{}{int64(-1)}, bitsString(c13Wires(sz, 100)), bitsString(c13Wires(pz, 100)), "fixed replay")
	}
	// F13: Sizes of 2 and 3
	for _, v := range []interface{}{uint8(2), uint32(3), int16(2)} {
		gsz, gerr := circuit.Sizes([]interface{}{v})
		c.Case(L(I(2), c13GinsSX([]interface{}{v})), c13IntsRes(gsz, gerr))
		isz, _ := circuit.InputSizes([]string{fmt.Sprint(v)})
		if gerr == nil && len(gsz) == 1 && len(isz) == 1 && gsz[0] != isz[0] && gsz[0] < 2 {
			x.fail("c13:Sizes:bitLen:2-or-3", "bitLen never tests bit 1: Sizes reports 1 bit for the values 2 and 3",
				"uint", []string{fmt.Sprint(v)}, []interface{}{v}, fmt.Sprint(gsz), fmt.Sprint(isz), "fixed replay")
		}
	}
	// the examples of circuit/ioarg_test.go
	for _, ss := range [][]string{{"0", "f", "false", "1", "t", "true"}, {"0xdeadbeef", "255"}, {"0x0", "0x00", "0x000", "0x0000"}, {"42x00", "0x00"}, {"_", "255"}} {
		isz, ierr := circuit.InputSizes(ss)
		c.Case(L(I(3), c13StrsSX(ss)), c13IntsRes(isz, ierr))
	}
}
