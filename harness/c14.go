package main

// C14: circuit files round-trip; parsers reject malformed files gracefully.
//
// (a) generated circuits (GenCircuit, INV-only, compound/struct/array typed
//     I/O, empty names, I/O sections longer than one bufio buffer) are
//     written, parsed and written again in both formats;
// (b) byte strings obtained from valid files by truncation, extension, bit
//     flips and field splicing (declared sizes <= 10^6) are offered to both
//     parsers under recover + timeout;
// (c) type texts are offered to types.Parse and printed back.
// Every case is also a correspondence case for the Coq model (run_c14).

import (
	"bufio"
	"bytes"
	"encoding/binary"
	"encoding/hex"
	"fmt"
	"regexp"
	"runtime/debug"
	"strconv"
	"strings"
	"time"

	"github.com/markkurossi/mpc/circuit"
	"github.com/markkurossi/mpc/types"
)

func init() { register("c14", runC14) }

const c14Limit = 1000000

// ---------------------------------------------------------------- s-expressions

func c14InfoSX(t types.Info) SX {
	var el []SX
	if t.ElementType != nil {
		el = []SX{c14InfoSX(*t.ElementType)}
	}
	st := make([]SX, len(t.Struct))
	for i, f := range t.Struct {
		st[i] = c14InfoSX(f.Type)
	}
	return L(I(int(t.Type)), Bool(t.IsConcrete), I(int(t.Bits)), I(int(t.MinBits)), I(int(t.ArraySize)), L(el...), L(st...))
}

func c14NameSX(s string) SX {
	b := []byte(s)
	n := len(b)
	for n > 0 && b[n-1] == 0 {
		n--
	}
	return L(Bytes(b[:n]), I(len(b)-n))
}

func c14ArgSX(a circuit.IOArg) SX {
	comp := make([]SX, len(a.Compound))
	for i, m := range a.Compound {
		comp[i] = c14ArgSX(m)
	}
	return L(c14NameSX(a.Name), c14InfoSX(a.Type), L(comp...))
}

func c14IOSX(io circuit.IO) SX {
	l := make([]SX, len(io))
	for i, a := range io {
		l[i] = c14ArgSX(a)
	}
	return L(l...)
}

func c14CircSX(c *circuit.Circuit) SX {
	gs := make([]SX, len(c.Gates))
	for i, g := range c.Gates {
		gs[i] = L(I(int(g.Op)), U64(uint64(g.Input0)), U64(uint64(g.Input1)), U64(uint64(g.Output)))
	}
	return L(I(c.NumGates), I(c.NumWires), c14IOSX(c.Inputs), c14IOSX(c.Outputs), L(gs...))
}

func c14StatsSX(c *circuit.Circuit) SX {
	l := make([]SX, 5)
	for i := 0; i < 5; i++ {
		l[i] = U64(c.Stats[i])
	}
	return L(l...)
}

// ---------------------------------------------------------------- guarded parsing

type c14Out struct {
	c        *circuit.Circuit
	err      error
	panicked bool
	pmsg     string
	stack    string
	hang     bool
}

func (o c14Out) class() int {
	switch {
	case o.hang:
		return 4
	case o.panicked:
		return 2
	case o.err != nil:
		return 1
	default:
		return 0
	}
}

func (o c14Out) className() string {
	return []string{"ok", "err", "panic", "fuel", "hang"}[o.class()]
}

func c14Parse(format int, bs []byte) c14Out {
	ch := make(chan c14Out, 1)
	go func() {
		var o c14Out
		defer func() {
			if r := recover(); r != nil {
				o = c14Out{panicked: true, pmsg: fmt.Sprint(r), stack: string(debug.Stack())}
			}
			ch <- o
		}()
		if format == 0 {
			o.c, o.err = circuit.ParseMPCLC(bytes.NewReader(bs))
		} else {
			o.c, o.err = circuit.ParseBristol(bytes.NewReader(bs))
		}
	}()
	select {
	case o := <-ch:
		return o
	case <-time.After(20 * time.Second):
		return c14Out{hang: true}
	}
}

func c14Marshal(format int, c *circuit.Circuit) []byte {
	var b bytes.Buffer
	if format == 0 {
		c.Marshal(&b)
	} else {
		c.MarshalBristol(&b)
	}
	return b.Bytes()
}

func c14ResSX(o c14Out) SX {
	if o.class() == 0 {
		return L(I(0), c14CircSX(o.c), c14StatsSX(o.c))
	}
	return L(I(o.class()))
}

func c14Remarshal(format int, o c14Out) SX {
	if o.class() != 0 {
		return L()
	}
	return Bytes(c14Marshal(format, o.c))
}

var c14Fmt = []string{"ParseMPCLC", "ParseBristol"}

// ---------------------------------------------------------------- memory guard

func c14min(a, b int) int {
	if a < b {
		return a
	}
	return b
}

// c14MPCLCSizesOK walks the bytes the way ParseMPCLC consumes them (exact
// reads; parseString = io.ReadFull since commit dace4fa) and reports whether
// every declared size it meets is <= 10^6.  It only decides which mutations
// are offered to the parser (no allocation of gigabytes); it is not an oracle.
func c14MPCLCSizesOK(bs []byte) bool {
	n := len(bs)
	pos := 0
	readFull := func(k int) ([]byte, bool) {
		if n-pos < k {
			pos = n
			return nil, false
		}
		out := bs[pos : pos+k]
		pos += k
		return out, true
	}
	ok := true
	u32 := func() (int, bool) {
		b, good := readFull(4)
		if !good {
			return 0, false
		}
		v := int(binary.BigEndian.Uint32(b))
		if v > c14Limit {
			ok = false
			return 0, false
		}
		return v, true
	}
	str := func() bool {
		v, good := u32()
		if !good {
			return false
		}
		_, good = readFull(v)
		return good
	}
	var arg func(depth int) bool
	arg = func(depth int) bool {
		if depth > 100000 {
			return false
		}
		if !str() || !str() {
			return false
		}
		if _, good := readFull(4); !good {
			return false
		}
		cnt, good := u32()
		if !good {
			return false
		}
		for i := 0; i < cnt; i++ {
			if !arg(depth + 1) {
				return false
			}
		}
		return true
	}
	h, good := readFull(20)
	if !good {
		return true
	}
	for i := 1; i < 5; i++ {
		if binary.BigEndian.Uint32(h[4*i:]) > c14Limit {
			return false
		}
	}
	nio := int(binary.BigEndian.Uint32(h[12:])) + int(binary.BigEndian.Uint32(h[16:]))
	for i := 0; i < nio; i++ {
		if !arg(0) {
			break
		}
	}
	return ok
}

var c14ReParts = regexp.MustCompilePOSIX("[[:space:]]+")

// c14BristolSizesOK: the first line's two counts (what ParseBristol
// allocates from) are <= 10^6 or the line is rejected before allocating.
func c14BristolSizesOK(bs []byte) bool {
	rest := string(bs)
	for {
		i := strings.IndexByte(rest, '\n')
		if i < 0 {
			return true
		}
		line := strings.TrimSpace(rest[:i+1])
		rest = rest[i+1:]
		if len(line) == 0 {
			continue
		}
		parts := c14ReParts.Split(line, -1)
		if len(parts) != 2 {
			return true
		}
		for _, p := range parts {
			v, err := strconv.Atoi(p)
			if err != nil {
				return true
			}
			if v > c14Limit {
				return false
			}
		}
		return true
	}
}

// ---------------------------------------------------------------- well-formedness of a parsed circuit (oracle)

func c14WellFormed(c *circuit.Circuit) string {
	if c.NumGates != len(c.Gates) {
		return fmt.Sprintf("NumGates=%d but %d gates", c.NumGates, len(c.Gates))
	}
	if c.NumWires < 0 {
		return "negative NumWires"
	}
	seen := make([]bool, c.NumWires)
	ni := c.Inputs.Size()
	for i := 0; i < ni; i++ {
		if i >= len(seen) {
			return "more input bits than wires"
		}
		seen[i] = true
	}
	for k, g := range c.Gates {
		if g.Op > circuit.INV {
			return fmt.Sprintf("gate %d: invalid op", k)
		}
		ins := []circuit.Wire{g.Input0}
		if g.Op != circuit.INV {
			ins = append(ins, g.Input1)
		}
		for _, w := range ins {
			if int(w) >= len(seen) || !seen[w] {
				return fmt.Sprintf("gate %d: input %d not defined before use", k, w)
			}
		}
		if int(g.Output) >= len(seen) {
			return fmt.Sprintf("gate %d: output %d out of range", k, g.Output)
		}
		if int(g.Output) < ni {
			return fmt.Sprintf("gate %d overwrites input wire %d", k, g.Output)
		}
		seen[g.Output] = true
	}
	for i, s := range seen {
		if !s {
			return fmt.Sprintf("wire %d not assigned", i)
		}
	}
	return ""
}

func c14ZeroIDs(io circuit.IO) bool {
	var chk func(t types.Info) bool
	chk = func(t types.Info) bool {
		if t.ID != 0 || t.Offset != 0 || len(t.Struct) != 0 {
			return false
		}
		if t.ElementType != nil {
			return chk(*t.ElementType)
		}
		return true
	}
	for _, a := range io {
		if !chk(a.Type) || !c14ZeroIDs(a.Compound) {
			return false
		}
	}
	return true
}

// ---------------------------------------------------------------- generators

var c14Names = []string{"", "a", "b", "x1", "in", "key", "msg", "r\xc3\xa9sum\xc3\xa9", "%d", "a b", "n\n", "\x00z", "z\x00\x00", "NI1"}

func c14Name(r *RNG) string {
	if r.Intn(12) == 0 {
		return string(r.Bytes(r.Range(1, 12)))
	}
	return c14Names[r.Intn(len(c14Names))]
}

func c14Split(r *RNG, total, parts int) []int {
	res := make([]int, parts)
	rem := total
	for i := 0; i < parts-1; i++ {
		v := 0
		if rem > 0 {
			v = r.Intn(rem + 1)
		}
		res[i] = v
		rem -= v
	}
	res[parts-1] = rem
	return res
}

// c14Info generates a concrete type of exactly `bits` bits (with compound
// members for structs).
func c14Info(r *RNG, bits, depth int) (types.Info, circuit.IO) {
	mk := func(t types.Type) types.Info {
		return types.Info{Type: t, IsConcrete: true, Bits: types.Size(bits), MinBits: types.Size(bits)}
	}
	ch := r.Intn(11)
	switch {
	case bits == 1 && ch < 3:
		return types.Bool, nil
	case ch < 3:
		return mk(types.TUint), nil
	case ch < 5:
		return mk(types.TInt), nil
	case ch == 5 && bits%8 == 0:
		return mk(types.TString), nil
	case ch <= 8 && depth < 3:
		e, m := 0, 0
		if bits == 0 {
			e, m = r.Range(1, 16), 0
			if r.Bool() {
				e, m = 0, r.Intn(4)
			}
		} else {
			var divs []int
			for d := 1; d <= bits; d++ {
				if bits%d == 0 {
					divs = append(divs, d)
				}
			}
			e = divs[r.Intn(len(divs))]
			m = bits / e
		}
		el, _ := c14Info(r, e, depth+1)
		t := mk(types.TArray)
		if r.Intn(3) == 0 {
			t.Type = types.TSlice
		}
		t.ElementType = &el
		t.ArraySize = types.Size(m)
		return t, nil
	case depth < 2:
		nf := r.Range(1, 4)
		parts := c14Split(r, bits, nf)
		t := mk(types.TStruct)
		var comp circuit.IO
		ofs := 0
		for i, p := range parts {
			ft, fc := c14Info(r, p, depth+1)
			ft.Offset = types.Size(ofs)
			ofs += p
			name := fmt.Sprintf("f%d", i)
			if r.Intn(6) == 0 {
				name = c14Name(r)
			}
			t.Struct = append(t.Struct, types.StructField{Name: name, Type: ft})
			comp = append(comp, circuit.IOArg{Name: name, Type: ft, Compound: fc})
		}
		return t, comp
	}
	return mk(types.TUint), nil
}

func c14IO(r *RNG, total int, prefix string) circuit.IO {
	nargs := r.Range(1, 4)
	parts := c14Split(r, total, nargs)
	var io circuit.IO
	for i, p := range parts {
		t, comp := c14Info(r, p, 0)
		name := fmt.Sprintf("%s%d", prefix, i)
		if r.Intn(3) == 0 {
			name = c14Name(r)
		}
		io = append(io, circuit.IOArg{Name: name, Type: t, Compound: comp})
	}
	return io
}

func c14InvOnly(r *RNG) *circuit.Circuit {
	ni := r.Range(1, 6)
	ng := r.Range(1, 30)
	c := &circuit.Circuit{NumGates: ng, NumWires: ni + ng}
	for k := 0; k < ng; k++ {
		c.Gates = append(c.Gates, circuit.Gate{Input0: circuit.Wire(r.Intn(ni + k)), Output: circuit.Wire(ni + k), Op: circuit.INV})
		c.Stats[circuit.INV]++
	}
	c.Inputs = circuit.IO{{Name: "a", Type: uintInfo(ni)}}
	no := r.Range(1, c14min(ng, 8))
	c.Outputs = circuit.IO{{Name: "", Type: uintInfo(no)}}
	return c
}

// c14BigIO: the I/O section is longer than one bufio buffer (4096 bytes).
func c14BigIO(r *RNG, variant int) *circuit.Circuit {
	c := GenCircuit(r, GenOpts{MinIn: 4, MaxIn: 8, MinGates: 5, MaxGates: 12, MaxOut: 3})
	ni := c.Inputs.Size()
	switch variant % 3 {
	case 0: // one long name (zero bytes or letters)
		ch := "n"
		if r.Intn(4) == 0 {
			ch = "\x00"
		}
		c.Inputs = circuit.IO{{Name: strings.Repeat(ch, r.Range(4090, 5200)), Type: uintInfo(ni)}}
	case 1: // many arguments of 0 bits after the real one
		c.Inputs = circuit.IO{{Name: "a", Type: uintInfo(ni)}}
		for i := 0; i < r.Range(130, 170); i++ {
			c.Inputs = append(c.Inputs, circuit.IOArg{Name: fmt.Sprintf("arg%0*d", r.Range(3, 9), i), Type: uintInfo(0)})
		}
	case 2: // long name that ends before the buffer does: must round-trip
		c.Inputs = circuit.IO{{Name: strings.Repeat("m", r.Range(3000, 4000)), Type: uintInfo(ni)}}
	}
	return c
}

// ---------------------------------------------------------------- mutations

type c14Layout struct {
	u32s    []int    // offsets of uint32 fields (header, lengths, bits, counts, wire ids)
	strs    [][2]int // [start,end) of string contents
	types   [][2]int // [lenOffset, end) of type strings (length field + content)
	gates   []int    // offsets of gate records
	gateEnd int
}

// c14Walk records the field layout of a *valid* MPCLC file.
func c14Walk(bs []byte) c14Layout {
	var l c14Layout
	pos := 0
	u32 := func() int {
		l.u32s = append(l.u32s, pos)
		v := int(binary.BigEndian.Uint32(bs[pos:]))
		pos += 4
		return v
	}
	str := func() {
		n := u32()
		l.strs = append(l.strs, [2]int{pos, pos + n})
		pos += n
	}
	var arg func()
	arg = func() {
		str()
		start := pos
		str()
		l.types = append(l.types, [2]int{start, pos})
		u32()
		cnt := u32()
		for i := 0; i < cnt; i++ {
			arg()
		}
	}
	u32()
	u32()
	u32()
	ni := u32()
	no := u32()
	for i := 0; i < ni+no; i++ {
		arg()
	}
	for pos < len(bs) {
		l.gates = append(l.gates, pos)
		op := bs[pos]
		pos++
		k := 3
		if op == byte(circuit.INV) {
			k = 2
		}
		for i := 0; i < k; i++ {
			u32()
		}
	}
	l.gateEnd = pos
	return l
}

var c14TypeTexts = []string{"", "b", "bool", "bool1", "byte", "rune", "i", "int", "int32", "u", "uint", "uint8", "s", "string", "string64",
	"struct", "struct48", "float32", "int8\nxx", "xx\nint8", "[2]x\n[3]int8", "[]uint8", "[4]uint8", "[4]bool", "[2][3]int4", "[]",
	"[2]", "[2]\n", "\n", "[+5]int8", "int+5", "int-5", "[-1]int8", "[2147483647]int8", "[2147483648]int8", "[65536][65536]int8",
	"[65536]int65536", "int2147483647", "int2147483648", "int99999999999999999999", "int007", "[007]u1", "*int8", "<Undefined>0",
	"nil0", "array", "slice", "ptr", "INT8", "int8 ", " int8", "int8\n", "\nint8", "\n\n[2]u1", "[2]u1\nint", "uintx", "u\x00", "[2]\x00",
	"[1]\xff", "\xc3\xa9", "[[2]int8", "[2]]int8", "[2][]int8", "[][]b", "bool8", "b5", "byte8", "rune32", "structs", "s8", "st8"}

func c14MutMPCLC(r *RNG, bs []byte, other []byte) ([]byte, string) {
	l := c14Walk(bs)
	out := append([]byte(nil), bs...)
	put := func(ofs int, v uint32) { binary.BigEndian.PutUint32(out[ofs:], v) }
	k := r.Intn(13)
	if r.Intn(80) == 0 {
		k = 13
	}
	switch k {
	case 0:
		return out[:r.Intn(len(out))], "truncate"
	case 1:
		return append(out, r.Bytes(r.Range(1, 20))...), "extend-random"
	case 2: // one more gate record than declared
		if len(l.gates) > 0 {
			g := l.gates[r.Intn(len(l.gates))]
			end := l.gateEnd
			for _, o := range l.gates {
				if o > g {
					end = o
					break
				}
			}
			return append(out, out[g:end]...), "extend-gate"
		}
		return append(out, 4, 0, 0, 0, 0, 0, 0, 0, 0), "extend-gate"
	case 3:
		for i := r.Range(1, 3); i > 0; i-- {
			out[r.Intn(len(out))] ^= 1 << uint(r.Intn(8))
		}
		return out, "bitflip"
	case 4, 5:
		ofs := l.u32s[r.Intn(len(l.u32s))]
		v := binary.BigEndian.Uint32(out[ofs:])
		vals := []uint32{0, 1, 2, v + 1, v - 1, 0xffffffff, 0x80000000, 0x7fffffff, 1000000, 999999, 65536, 4096, 4095, uint32(r.Intn(64)), v ^ 0x100}
		put(ofs, vals[r.Intn(len(vals))])
		return out, "field-value"
	case 6:
		if len(other) > 0 {
			a := r.Intn(len(other))
			b := a + r.Intn(c14min(len(other)-a, 40)+1)
			p := r.Intn(len(out) + 1)
			if r.Bool() { // insert
				res := append(append(append([]byte(nil), out[:p]...), other[a:b]...), out[p:]...)
				return res, "splice-insert"
			}
			copy(out[c14min(p, len(out)):], other[a:b])
			return out, "splice-overwrite"
		}
		return out, "identity"
	case 7:
		a := r.Intn(len(out))
		b := a + r.Intn(c14min(len(out)-a, 24)+1)
		return append(out[:a:a], out[b:]...), "delete-segment"
	case 8: // swap / duplicate gate records
		if len(l.gates) >= 2 {
			i := r.Intn(len(l.gates) - 1)
			a, b := l.gates[i], l.gates[i+1]
			e := l.gateEnd
			if i+2 < len(l.gates) {
				e = l.gates[i+2]
			}
			res := append([]byte(nil), out[:a]...)
			if r.Bool() {
				res = append(res, out[b:e]...)
				res = append(res, out[a:b]...)
				res = append(res, out[e:]...)
				return res, "swap-gates"
			}
			res = append(res, out[a:b]...)
			res = append(res, out[a:]...)
			return res, "dup-gate"
		}
		return out, "identity"
	case 9: // type text replaced (length adjusted)
		if len(l.types) > 0 {
			t := l.types[r.Intn(len(l.types))]
			txt := c14TypeTexts[r.Intn(len(c14TypeTexts))]
			res := append([]byte(nil), out[:t[0]]...)
			var lb [4]byte
			binary.BigEndian.PutUint32(lb[:], uint32(len(txt)))
			res = append(res, lb[:]...)
			res = append(res, txt...)
			res = append(res, out[t[1]:]...)
			return res, "type-text"
		}
		return out, "identity"
	case 10: // byte inside a string
		if len(l.strs) > 0 {
			s := l.strs[r.Intn(len(l.strs))]
			if s[1] > s[0] {
				vals := []byte{'\n', 0, ' ', '[', ']', '9', 0xff, byte(r.U64())}
				out[s[0]+r.Intn(s[1]-s[0])] = vals[r.Intn(len(vals))]
				return out, "string-byte"
			}
		}
		return out, "identity"
	case 11: // header gate count +-1 with the records unchanged
		v := binary.BigEndian.Uint32(out[4:])
		if r.Bool() {
			put(4, v-1)
		} else {
			put(4, v+1)
		}
		return out, "numgates+-1"
	case 12: // gate wire id replaced by another wire id / op byte changed
		if len(l.gates) > 0 {
			g := l.gates[r.Intn(len(l.gates))]
			if r.Intn(3) == 0 {
				out[g] = byte(r.Intn(7))
				return out, "gate-op"
			}
			nw := binary.BigEndian.Uint32(out[8:])
			put(g+1+4*r.Intn(2), uint32(r.Intn(int(nw)+2)))
			return out, "gate-wire"
		}
		return out, "identity"
	default: // large declared sizes that stay <= 10^6
		nw := uint32(r.Range(900000, 1000000))
		put(8, nw)
		if r.Bool() && len(l.u32s) > 7 {
			put(l.u32s[7], nw-uint32(r.Intn(4))) // Bits of the first input
		}
		return out, "big-sizes"
	}
}

var c14Tokens = []string{"-1", "+1", "0", "1", "2", "3", "007", "99999999999999999999", "9223372036854775807", "9223372036854775808",
	"-9223372036854775808", "4294967295", "4294967296", "2147483647", "2147483648", "1000000", "0x1", "1e3", "", "XOR", "XNOR", "AND", "OR", "INV",
	"xor", "NOT", "EQ", "1_0", "\xc2\xa0", "\xe2\x80\x83", "\xef\xbf\xbd", "\xff", "+", "-"}

var c14Spaces = []string{" ", "\t", "\r", "\v", "\f", "  ", " \t ", "\xc2\xa0", "\xc2\x85", "\xe2\x80\x80", "\xe3\x80\x80", "\xe1\x9a\x80", "\xe2\x81\x9f", "\xe2\x80\xa8", "\xc2", "\xa0", "\xe2\x80", "\x1c", "\x85"}

func c14MutBristol(r *RNG, bs []byte, other []byte) ([]byte, string) {
	out := append([]byte(nil), bs...)
	lines := strings.SplitAfter(string(bs), "\n")
	if len(lines) > 0 && lines[len(lines)-1] == "" {
		lines = lines[:len(lines)-1]
	}
	join := func(ls []string) []byte { return []byte(strings.Join(ls, "")) }
	switch k := r.Intn(13); k {
	case 0:
		return out[:r.Intn(len(out))], "truncate"
	case 1:
		return append(out, r.Bytes(r.Range(1, 20))...), "extend-random"
	case 2: // one more gate line (with / without final newline)
		g := lines[len(lines)-1]
		if r.Bool() {
			g = strings.TrimSuffix(g, "\n")
		}
		return append(out, g...), "extend-gate"
	case 3:
		for i := r.Range(1, 3); i > 0; i-- {
			out[r.Intn(len(out))] ^= 1 << uint(r.Intn(8))
		}
		return out, "bitflip"
	case 4, 5, 6: // token replaced
		li := r.Intn(len(lines))
		toks := strings.Fields(lines[li])
		if len(toks) > 0 {
			ti := r.Intn(len(toks))
			if r.Intn(3) == 0 {
				if v, err := strconv.Atoi(toks[ti]); err == nil {
					toks[ti] = strconv.Itoa(v + r.Range(-1, 1))
				}
			} else {
				toks[ti] = c14Tokens[r.Intn(len(c14Tokens))]
			}
			lines[li] = strings.Join(toks, " ") + "\n"
		}
		return join(lines), "token"
	case 7: // whitespace variants
		li := r.Intn(len(lines))
		sp := c14Spaces[r.Intn(len(c14Spaces))]
		switch r.Intn(4) {
		case 0:
			lines[li] = sp + lines[li]
		case 3: // before the last character of the line (not a suffix: must not be trimmed)
			t := strings.TrimSuffix(lines[li], "\n")
			if len(t) > 0 {
				lines[li] = t[:len(t)-1] + sp + t[len(t)-1:] + "\n"
			}
		case 1:
			lines[li] = strings.TrimSuffix(lines[li], "\n") + sp + "\n"
		default:
			lines[li] = strings.Replace(lines[li], " ", sp, 1+r.Intn(2))
		}
		return join(lines), "whitespace"
	case 8: // duplicate / delete / swap lines
		li := r.Intn(len(lines))
		switch r.Intn(3) {
		case 0:
			lines = append(lines[:li+1], lines[li:]...)
			return join(lines), "dup-line"
		case 1:
			lines = append(lines[:li:li], lines[li+1:]...)
			return join(lines), "delete-line"
		default:
			lj := r.Intn(len(lines))
			lines[li], lines[lj] = lines[lj], lines[li]
			return join(lines), "swap-lines"
		}
	case 9:
		if len(other) > 0 {
			a := r.Intn(len(other))
			b := a + r.Intn(c14min(len(other)-a, 40)+1)
			p := r.Intn(len(out) + 1)
			res := append(append(append([]byte(nil), out[:p]...), other[a:b]...), out[p:]...)
			return res, "splice-insert"
		}
		return out, "identity"
	case 10:
		a := r.Intn(len(out))
		b := a + r.Intn(c14min(len(out)-a, 12)+1)
		return append(out[:a:a], out[b:]...), "delete-segment"
	case 11: // header count +-1
		toks := strings.Fields(lines[0])
		if len(toks) == 2 {
			i := r.Intn(2)
			v, _ := strconv.Atoi(toks[i])
			toks[i] = strconv.Itoa(v + 2*r.Intn(2) - 1)
			lines[0] = strings.Join(toks, " ") + "\n"
		}
		return join(lines), "header+-1"
	default: // no final newline / CRLF / blank lines
		switch r.Intn(3) {
		case 0:
			return bytes.TrimSuffix(out, []byte("\n")), "no-final-newline"
		case 1:
			return bytes.ReplaceAll(out, []byte("\n"), []byte("\r\n")), "crlf"
		default:
			return bytes.ReplaceAll(out, []byte("\n"), []byte("\n \n")), "blank-lines"
		}
	}
}

// c14MutRaw needs no layout: second-stage mutation of an already mutated file.
func c14MutRaw(r *RNG, bs []byte) []byte {
	out := append([]byte(nil), bs...)
	switch r.Intn(4) {
	case 0:
		return out[:r.Intn(len(out))]
	case 1:
		return append(out, r.Bytes(r.Range(1, 13))...)
	case 2:
		out[r.Intn(len(out))] ^= 1 << uint(r.Intn(8))
		return out
	default:
		a := r.Intn(len(out))
		b := a + r.Intn(c14min(len(out)-a, 8)+1)
		return append(out[:a:a], out[b:]...)
	}
}

// bufioWhole returns a bufio.Reader large enough to hold the whole file;
// bufio.NewReader inside ParseMPCLC then uses it as it is.
func bufioWhole(bs []byte) *bufio.Reader {
	n := len(bs) + 16
	if n < 8192 {
		n = 8192
	}
	return bufio.NewReaderSize(bytes.NewReader(bs), n)
}

type c14Witness struct {
	format int
	kind   string
	bs     []byte
}

func c14be(vals ...uint32) []byte {
	var b []byte
	for _, v := range vals {
		b = binary.BigEndian.AppendUint32(b, v)
	}
	return b
}

// c14F9Witness: header declares 0 gates and 2 wires, one 1-bit input "u1",
// followed by one XOR gate record 0,0 -> 1.  (The same bytes are the witness
// of C14_mpclc_no_panic_refuted in Coq.)
func c14F9Witness() []byte {
	b := c14be(circuit.MAGIC, 0, 2, 1, 0)
	b = append(b, c14be(0, 2)...)
	b = append(b, 'u', '1')
	b = append(b, c14be(1, 0)...)
	b = append(b, 0)
	b = append(b, c14be(0, 0, 1)...)
	return b
}

func c14Witnesses() []c14Witness {
	f9 := c14F9Witness()
	noMagic := append([]byte(nil), f9[:len(f9)-13]...)
	copy(noMagic, []byte{0, 0, 0, 0})
	return []c14Witness{
		{0, "witness:F9-extra-gate", f9},
		{0, "witness:empty", nil},
		{0, "witness:magic-only", c14be(circuit.MAGIC)},
		{0, "witness:header-only", c14be(circuit.MAGIC, 0, 0, 0, 0)},
		{0, "witness:wrong-magic", noMagic},
		{1, "witness:empty", nil},
		{1, "witness:header-only", []byte("0 1\n1 1\n1 1\n")},
		{1, "witness:no-final-newline", []byte("1 2\n1 1\n1 1\n\n1 1 0 1 INV")},
		{1, "witness:one-more-gate", []byte("1 2\n1 1\n1 1\n\n1 1 0 1 INV\n1 1 0 1 INV\n")},
		{1, "witness:and-input-is-own-output", []byte("1 3\n2 1 1\n1 1\n\n2 1 0 2 2 AND\n")},
		{1, "witness:inv-input-is-own-output", []byte("2 4\n1 2\n1 1\n\n2 1 0 1 2 XOR\n1 1 3 3 INV\n")},
		{1, "witness:negative-n2-length-holds", []byte("2 4\n1 2\n1 1\n\n2 1 0 1 2 XOR\n4 -2 0 1 2\n")},
		{1, "witness:xor-0-0-0", []byte("1 1\n1 1\n1 1\n\n2 1 0 0 0 XOR\n")},
		{0, "witness:xor-0-0-0", append(append(c14be(circuit.MAGIC, 1, 1, 1, 0), append(append(c14be(0, 2), 'u', '1'), c14be(1, 0)...)...), append([]byte{0}, c14be(0, 0, 0)...)...)},
		{1, "witness:huge-n1", []byte("1 2\n1 1\n1 1\n\n9223372036854775807 9223372036854775807 0 1 INV\n")},
	}
}

// ---------------------------------------------------------------- round trip comparison (oracle)

func c14SameArg(a, b circuit.IOArg) string {
	if a.Name != b.Name {
		return "name"
	}
	if a.Type.String() != b.Type.String() {
		return "type"
	}
	if a.Type.Bits != b.Type.Bits {
		return "bits"
	}
	if len(a.Compound) != len(b.Compound) {
		return "compound-count"
	}
	for i := range a.Compound {
		if d := c14SameArg(a.Compound[i], b.Compound[i]); d != "" {
			return "compound-" + d
		}
	}
	return ""
}

func c14SameCircuit(format int, a, b *circuit.Circuit) string {
	if a.NumGates != b.NumGates || a.NumWires != b.NumWires {
		return "counts"
	}
	if len(a.Gates) != len(b.Gates) {
		return "gate-count"
	}
	for i := range a.Gates {
		x, y := a.Gates[i], b.Gates[i]
		if x.Op != y.Op || x.Input0 != y.Input0 || x.Output != y.Output || (x.Op != circuit.INV && x.Input1 != y.Input1) {
			return "gates"
		}
	}
	if len(a.Inputs) != len(b.Inputs) || len(a.Outputs) != len(b.Outputs) {
		return "io-count"
	}
	cmp := func(x, y circuit.IO) string {
		for i := range x {
			if format == 0 {
				if d := c14SameArg(x[i], y[i]); d != "" {
					return d
				}
			} else if x[i].Type.Bits != y[i].Type.Bits {
				return "bits"
			}
		}
		return ""
	}
	if d := cmp(a.Inputs, b.Inputs); d != "" {
		return "inputs-" + d
	}
	if d := cmp(a.Outputs, b.Outputs); d != "" {
		return "outputs-" + d
	}
	return ""
}

type c14Replay struct {
	Seed   uint64 `json:"seed"`
	Case   int    `json:"case"`
	Format string `json:"format"`
	Kind   string `json:"kind"`
	Hex    string `json:"bytes_hex"`
	Class  string `json:"class"`
	Detail string `json:"detail"`
}

func c14Hex(bs []byte) string {
	if len(bs) > 6000 {
		return hex.EncodeToString(bs[:6000]) + fmt.Sprintf("...(%d bytes)", len(bs))
	}
	return hex.EncodeToString(bs)
}

// c14PanicKey names the failing site.
func c14PanicKey(format int, o c14Out) string {
	if o.hang {
		return "c14:" + c14Fmt[format] + ":hang"
	}
	if strings.Contains(o.pmsg, "index out of range") && strings.Contains(o.stack, "circuit.ParseMPCLC") {
		return "c14:ParseMPCLC:gate-index-panic"
	}
	msg := o.pmsg
	if len(msg) > 60 {
		msg = msg[:60]
	}
	return "c14:" + c14Fmt[format] + ":panic:" + msg
}

// ---------------------------------------------------------------- runner

func runC14(c *Ctx) error {
	caseNo := 0
	var validM, validB [][]byte

	// graceful-rejection oracle + correspondence for one byte string
	spliceKey := "" // set by the structured count splices: names n1/n2 in the oracle key
	offer := func(format int, bs []byte, kind string, orig []byte) {
		caseNo++
		if format == 0 && !c14MPCLCSizesOK(bs) || format == 1 && !c14BristolSizesOK(bs) {
			c.Hist("skipped:declared-size>1e6")
			return
		}
		o := c14Parse(format, bs)
		c.Hist(fmt.Sprintf("class:%s:%s", c14Fmt[format], o.className()))
		c.Hist("mut:" + kind)
		c.Eval(fmt.Sprintf("p|%d|%x", format, bs), !bytes.Equal(bs, orig))
		rp := c14Replay{Seed: c.Seed, Case: caseNo, Format: c14Fmt[format], Kind: kind, Hex: c14Hex(bs), Class: o.className()}
		switch o.class() {
		case 2, 4:
			rp.Detail = o.pmsg
			key := c14PanicKey(format, o)
			if spliceKey != "" {
				key = spliceKey + ":" + o.className()
			}
			c.Fail(key, fmt.Sprintf("%s crashes/hangs on a malformed file (%s): %s", c14Fmt[format], kind, o.pmsg), rp)
		case 0:
			if d := c14WellFormed(o.c); d != "" {
				rp.Detail = d
				c.Fail("c14:"+c14Fmt[format]+":ok-not-wellformed", c14Fmt[format]+" accepted a circuit that is not well-formed: "+d, rp)
			}
			if !c14ZeroIDs(o.c.Inputs) || !c14ZeroIDs(o.c.Outputs) {
				rp.Detail = "parsed type carries ID/Offset/Struct"
				c.Fail("c14:"+c14Fmt[format]+":model-scope", "parsed types.Info has ID/Offset/Struct fields set (outside the model)", rp)
			}
		}
		if o.class() != 4 && len(bs) <= 30000 {
			c.Case(L(I(1), I(format), Bytes(bs)), L(c14ResSX(o), c14Remarshal(format, o)))
		}
	}

	// round trip oracle + correspondence for one circuit
	roundTrip := func(format int, circ *circuit.Circuit, kind string) []byte {
		caseNo++
		b1 := c14Marshal(format, circ)
		o := c14Parse(format, b1)
		c.Hist("gen:" + kind)
		c.Hist(fmt.Sprintf("roundtrip:%s:%s", c14Fmt[format], o.className()))
		c.Eval(fmt.Sprintf("r|%d|%x", format, b1), len(circ.Gates) > 0)
		rp := c14Replay{Seed: c.Seed, Case: caseNo, Format: c14Fmt[format], Kind: kind, Hex: c14Hex(b1), Class: o.className()}
		fail := func(reason string) {
			key := fmt.Sprintf("c14:%s:roundtrip:%s", c14Fmt[format], reason)
			if format == 0 && o.class() != 2 && o.class() != 4 {
				// is the single Read of parseString the cause?  A bufio.Reader that already
				// holds the whole file is used as it is by ParseMPCLC and never short-reads.
				br := bufioWhole(b1)
				c2, err := circuit.ParseMPCLC(br)
				if err == nil && c14SameCircuit(0, circ, c2) == "" {
					key = "c14:parseString:short-read"
				}
			}
			rp.Detail = reason
			c.Fail(key, fmt.Sprintf("%s of a marshalled circuit (%s): %s", c14Fmt[format], kind, reason), rp)
		}
		switch o.class() {
		case 2, 4:
			rp.Detail = o.pmsg
			c.Fail(c14PanicKey(format, o), c14Fmt[format]+" crashes/hangs on a marshalled circuit: "+o.pmsg, rp)
		case 1:
			fail("parse-error:" + o.err.Error())
		case 0:
			if d := c14SameCircuit(format, circ, o.c); d != "" {
				fail("differs:" + d)
			} else if !bytes.Equal(c14Marshal(format, o.c), b1) {
				fail("second-marshal-differs")
			} else if d := c14WellFormed(o.c); d != "" {
				fail("not-wellformed:" + d)
			}
		}
		if o.class() != 4 {
			c.Case(L(I(0), I(format), c14CircSX(circ)), L(Bytes(b1), c14ResSX(o), c14Remarshal(format, o)))
		}
		return b1
	}

	// ---- (a) generated circuits
	nCirc := c.N(120, 4000)
	for i := 0; i < nCirc; i++ {
		r := c.rng.Fork()
		var circ *circuit.Circuit
		kind := "gencircuit"
		switch {
		case i%8 == 7:
			circ = c14InvOnly(r)
			kind = "inv-only"
		default:
			opts := GenOpts{MinIn: 1, MaxIn: 10, MinGates: 1, MaxGates: 40, MaxOut: 8, Overwrite: i%3 == 0}
			if i%20 == 19 {
				opts.MinGates, opts.MaxGates = 100, 200
			}
			circ = GenCircuit(r, opts)
		}
		if i%2 == 1 {
			circ.Inputs = c14IO(r, circ.Inputs.Size(), "i")
			circ.Outputs = c14IO(r, circ.Outputs.Size(), "o")
			kind += "+typed-io"
		}
		opHist(c, circ)
		bm := roundTrip(0, circ, kind)
		bb := roundTrip(1, circ, kind)
		if len(bm) < 4000 {
			validM = append(validM, bm)
			validB = append(validB, bb)
		}
		if i < c.N(30, 400) {
			c14EntryPoints(c, caseNo, circ, kind)
		}
		if i < 2 {
			c.Sample(map[string]string{"circuit": circuitText(circ), "mpclc": hex.EncodeToString(bm), "bristol": string(bb)})
		}
	}
	// entry points: circuits whose text is longer than one 4096-byte buffer, reader-side
	// suffix dispatch, Params.CircOut through a real compile
	for i := 0; i < c.N(2, 10); i++ {
		r := c.rng.Fork()
		big := GenCircuit(r, GenOpts{MinIn: 4, MaxIn: 10, MinGates: 450, MaxGates: 900, MaxOut: 8})
		caseNo++
		c14EntryPoints(c, caseNo, big, "gencircuit-large")
	}
	c14EntryFiles(c, validB[0])
	c14FrontDoors(c, validM, validB, offer) // IsFilename / Parse(file) / Stats as correspondence cases (c14front.go)
	caseNo++
	c14EntryCompile(c, caseNo)
	nBig := c.N(6, 60)
	for i := 0; i < nBig; i++ {
		r := c.rng.Fork()
		circ := c14BigIO(r, i)
		bm := roundTrip(0, circ, fmt.Sprintf("big-io-%d", i%3))
		if i < 3 {
			// mutations of a file longer than one buffer
			for k := 0; k < c.N(4, 40); k++ {
				m, kind := c14MutMPCLC(r, bm, validM[r.Intn(len(validM))])
				offer(0, m, "big:"+kind, bm)
			}
		}
	}

	// ---- (b) mutated files
	// every prefix of a few small files
	for i := 0; i < c.N(2, 20) && i < len(validM); i++ {
		for k := 0; k < len(validM[i]); k++ {
			offer(0, validM[i][:k], "truncate-all", validM[i])
		}
		for k := 0; k < len(validB[i]); k++ {
			offer(1, validB[i][:k], "truncate-all", validB[i])
		}
	}
	nMut := c.N(1500, 60000)
	for i := 0; i < nMut; i++ {
		r := c.rng.Fork()
		j := r.Intn(len(validM))
		if r.Intn(3) == 0 {
			j = r.Intn(c14min(10, len(validM))) // keep a population of small files for the in-kernel sub-sample
		}
		o := r.Intn(len(validM))
		if i%2 == 0 {
			m, kind := c14MutMPCLC(r, validM[j], validM[o])
			if r.Intn(6) == 0 && len(m) > 0 {
				m = c14MutRaw(r.Fork(), m)
				kind += "+raw"
			}
			offer(0, m, kind, validM[j])
		} else {
			m, kind := c14MutBristol(r, validB[j], validB[o])
			if r.Intn(6) == 0 && len(m) > 0 && bytes.Contains(m, []byte("\n")) {
				m, _ = c14MutBristol(r.Fork(), m, validB[o])
				kind += "+2"
			}
			offer(1, m, kind, validB[j])
		}
	}
	// targeted field splicing (every seed): a gate's input field := that gate's own output id /
	// a later gate's output id / an id that is never assigned, for gates at the start, middle, end
	for i := 0; i < c.N(12, 200); i++ {
		r := c.rng.Fork()
		opts := GenOpts{MinIn: 2, MaxIn: 6, MinGates: 3, MaxGates: 14, MaxOut: 3}
		if i%4 == 3 {
			opts.MinGates, opts.MaxGates = 30, 60
		}
		base := GenCircuit(r, opts) // no overwrite: every gate output is a fresh wire
		if i%5 == 4 {
			base = c14InvOnly(r)
		}
		ng := len(base.Gates)
		for _, gi := range []int{0, ng / 2, ng - 1} {
			g := base.Gates[gi]
			type tgt struct {
				kind string
				w    circuit.Wire
				nw   int
			}
			tgts := []tgt{
				{"own-output", g.Output, base.NumWires},
				{"unassigned-out-of-range", circuit.Wire(base.NumWires), base.NumWires},
				{"unassigned-in-range", circuit.Wire(base.NumWires), base.NumWires + 1},
			}
			if gi+1 < ng {
				tgts = append(tgts, tgt{"later-output", base.Gates[gi+1+r.Intn(ng-gi-1)].Output, base.NumWires})
			}
			// the gate's OUTPUT id replaced by an input wire id; XOR/AND/.. w w w and INV w w on an input wire w
			nin := base.Inputs.Size()
			for _, w := range []int{0, nin - 1, r.Intn(nin)} {
				for v := 0; v < 2; v++ {
					m := circuit.Circuit{NumGates: base.NumGates, NumWires: base.NumWires, Inputs: base.Inputs, Outputs: base.Outputs,
						Gates: append([]circuit.Gate(nil), base.Gates...)}
					m.Gates[gi].Output = circuit.Wire(w)
					kind := fmt.Sprintf("gate-output:=input-wire:%d-of-%d", gi, ng)
					if v == 1 {
						m.Gates[gi].Input0 = circuit.Wire(w)
						if m.Gates[gi].Op != circuit.INV {
							m.Gates[gi].Input1 = circuit.Wire(w)
						}
						kind = fmt.Sprintf("gate:=op-w-w-w-on-input-wire:%d-of-%d", gi, ng)
					}
					offer(0, c14Marshal(0, &m), kind, c14Marshal(0, base))
					offer(1, c14Marshal(1, &m), kind, c14Marshal(1, base))
				}
			}
			for _, t := range tgts {
				for in := 0; in < 2; in++ {
					if in == 1 && g.Op == circuit.INV {
						continue
					}
					m := circuit.Circuit{NumGates: base.NumGates, NumWires: t.nw, Inputs: base.Inputs, Outputs: base.Outputs,
						Gates: append([]circuit.Gate(nil), base.Gates...)}
					if in == 0 {
						m.Gates[gi].Input0 = t.w
					} else {
						m.Gates[gi].Input1 = t.w
					}
					pos := "middle"
					if gi == 0 {
						pos = "first"
					} else if gi == ng-1 {
						pos = "last"
					}
					kind := fmt.Sprintf("gate-input:=%s:%s:in%d", t.kind, pos, in)
					offer(0, c14Marshal(0, &m), kind, c14Marshal(0, base))
					offer(1, c14Marshal(1, &m), kind, c14Marshal(1, base))
				}
			}
		}
	}
	// structured splices of the numeric fields of Bristol gate lines and header lines (every seed)
	for i := 0; i < c.N(2, 40); i++ {
		r := c.rng.Fork()
		base := GenCircuit(r, GenOpts{MinIn: 2, MaxIn: 5, MinGates: 3, MaxGates: 8, MaxOut: 2})
		ni := base.Inputs.Size()
		valid := c14Marshal(1, base)
		lines := strings.SplitAfter(strings.TrimSuffix(string(valid), "\n"), "\n")
		// lines[0..2] header, lines[3] blank, lines[4..] gates
		withLine := func(li int, toks []string) []byte {
			ls := append([]string(nil), lines...)
			ls[li] = strings.Join(toks, " ") + "\n"
			return []byte(strings.Join(ls, "") + "\n")
		}
		defWire := func() string { return strconv.Itoa(r.Intn(ni)) } // a circuit input: defined at every gate
		lastTok := func(k int) string {
			switch k % 3 {
			case 0:
				return []string{"XOR", "AND", "INV", "OR", "XNOR"}[r.Intn(5)]
			case 1:
				return defWire()
			default:
				return strconv.Itoa(base.NumWires - 1)
			}
		}
		ng := len(base.Gates)
		for _, gi := range []int{0, ng / 2, ng - 1} {
			li := 4 + gi
			orig := strings.Fields(lines[li])
			ln := len(orig)
			vals := []int{-3, -2, -1, 0, 1, 2, 3, 4, ln - 3, ln - 2}
			k := 0
			for _, n1 := range vals {
				for _, n2 := range vals {
					k++
					spliceKey = fmt.Sprintf("c14:ParseBristol:gate-count-splice:n1=%d:n2=%d", n1, n2)
					// (A) counts replaced, tokens as they are
					toks := append([]string(nil), orig...)
					toks[0], toks[1] = strconv.Itoa(n1), strconv.Itoa(n2)
					offer(1, withLine(li, toks), "count-splice:keep-tokens", valid)
					// (B) token count adjusted so that 2+n1+n2+1 == len(line) holds
					if L := 3 + n1 + n2; L >= 3 && L <= 12 {
						toks = []string{strconv.Itoa(n1), strconv.Itoa(n2)}
						for len(toks) < L-1 {
							toks = append(toks, defWire())
						}
						toks = append(toks, lastTok(k))
						offer(1, withLine(li, toks), "count-splice:length-holds", valid)
					}
				}
			}
			// (C) n1 solved from n2 and the token count: the length equation holds by construction
			for _, n2 := range vals {
				for _, L := range []int{3, 4, 5, 6, ln, ln + 1} {
					n1 := L - 3 - n2
					for v := 0; v < 2; v++ {
						k++
						spliceKey = fmt.Sprintf("c14:ParseBristol:gate-count-splice:n1=%d:n2=%d", n1, n2)
						toks := []string{strconv.Itoa(n1), strconv.Itoa(n2)}
						for len(toks) < L-1 {
							toks = append(toks, defWire())
						}
						toks = append(toks, lastTok(v))
						offer(1, withLine(li, toks), "count-splice:solve-n1", valid)
					}
				}
			}
			// (D) huge values and signs
			for _, hv := range []string{"2147483648", "4294967296", "9223372036854775807", "9223372036854775808", "18446744073709551616",
				"-9223372036854775808", "-9223372036854775809", "+1", "+2", "-0", "+0", "-1", "01", "1.0", ""} {
				for f := 0; f < 2; f++ {
					spliceKey = fmt.Sprintf("c14:ParseBristol:gate-count-splice:field%d=%s", f, hv)
					toks := append([]string(nil), orig...)
					toks[f] = hv
					offer(1, withLine(li, toks), "count-splice:huge-sign", valid)
				}
			}
		}
		// header lines: numGates/numWires, niv and nov with and without matching token counts
		hv := []string{"-3", "-2", "-1", "0", "1", "2", "3", "4", "+1", "-0", "2147483647", "2147483648", "4294967296",
			"9223372036854775807", "9223372036854775808", "18446744073709551616", "-9223372036854775808"}
		for li := 0; li < 3; li++ {
			orig := strings.Fields(lines[li])
			for f := range orig {
				for _, v := range hv {
					spliceKey = fmt.Sprintf("c14:ParseBristol:header-splice:line%d:field%d=%s", li, f, v)
					toks := append([]string(nil), orig...)
					toks[f] = v
					offer(1, withLine(li, toks), "header-splice:keep-tokens", valid)
				}
			}
			if li > 0 {
				for cnt := -2; cnt <= 4; cnt++ { // count field and number of size tokens chosen independently
					for have := 0; have <= 3; have++ {
						spliceKey = fmt.Sprintf("c14:ParseBristol:header-splice:line%d:count=%d:tokens=%d", li, cnt, have)
						toks := []string{strconv.Itoa(cnt)}
						for j := 0; j < have; j++ {
							toks = append(toks, []string{"1", "0", "2", "-1"}[(j+cnt+8)%4])
						}
						offer(1, withLine(li, toks), "header-splice:count-vs-tokens", valid)
					}
				}
			}
		}
		spliceKey = ""
	}
	// hand-written witnesses (the Coq `_refuted` witnesses are among them)
	for _, w := range c14Witnesses() {
		offer(w.format, w.bs, w.kind, nil)
	}

	// ---- door-inventory sweep (c14doors.go)
	runC14Doors(c, offer, roundTrip, validM, validB)

	// ---- overlapping calls of every writer and reader
	runC14Concurrent(c)

	// ---- (c) type texts
	texts := append([]string(nil), c14TypeTexts...)
	for i := 0; i < c.N(150, 3000); i++ {
		r := c.rng.Fork()
		t, _ := c14Info(r, r.Intn(65), 0)
		s := t.String()
		texts = append(texts, s)
		if i%3 == 0 {
			b := []byte(s)
			if len(b) > 0 {
				switch r.Intn(3) {
				case 0:
					b[r.Intn(len(b))] ^= 1 << uint(r.Intn(8))
				case 1:
					b = b[:r.Intn(len(b))]
				default:
					p := r.Intn(len(b) + 1)
					b = append(append(append([]byte(nil), b[:p]...), []byte{'\n', '[', ']', '0', 'i', 0}[r.Intn(6)]), b[p:]...)
				}
			}
			texts = append(texts, string(b))
		}
	}
	for _, s := range texts {
		caseNo++
		info, err := types.Parse(s)
		c.Eval("t|"+s, len(s) > 0)
		if err != nil {
			c.Hist("typetext:err")
			c.Case(L(I(2), I(0), Bytes([]byte(s))), L(I(1)))
			continue
		}
		c.Hist("typetext:ok")
		back := info.String()
		c.Case(L(I(2), I(0), Bytes([]byte(s))), L(I(0), c14InfoSX(info), Bytes([]byte(back))))
		// printing and parsing again is stable
		info2, err2 := types.Parse(back)
		if err2 != nil || info2.String() != back {
			c.Fail("c14:types.Parse:string-not-reparsable", fmt.Sprintf("types.Parse(%q) = %s, which does not parse back to itself", s, back),
				c14Replay{Seed: c.Seed, Case: caseNo, Format: "types.Parse", Kind: "type-text", Hex: hex.EncodeToString([]byte(s)), Detail: back})
		}
	}
	return nil
}
