package main

// C05 — the 64k pages of the wire stores (circuit/stream_garble.go
// Streaming.ensureWires, circuit/stream_evaluator.go StreamEval.ensureWires,
// the last field of the OpCircuit header sent by Program.garble).
//
// Both parties keep their labels in pages of 65536 wires and grow the table
// from a size hint: the garbler from the ids it uses, the evaluator from
// numInputs+numOutputs and from the last field of every circuit header.  An
// off-by-one anywhere in that chain (count vs highest id, < vs <=) shows only
// when the first circuit that touches a new page has its highest wire id
// EXACTLY on the page boundary.  This family therefore places, with the real
// compiler and the real wire allocator, the highest wire id of a circuit one
// below, on and one above k*65536 for k = 1, 2:
//
//   shape "const-wires": the input vector ends just below the boundary so that
//     the zero / one wires streamed right after the inputs land on
//     B-2 .. B+1 (the page is first touched by the wires that follow the inputs);
//   shape "adder-output": the inputs stay below the boundary and the output
//     block of the first adder of the program ends on B-1, B, B+1 (the page is
//     first touched by a computed value in the middle of the program).
//
// The argument widths are SEARCHED: a session is run with the real code, the
// highest permanent wire id of every streamed circuit is read off the
// garbler->evaluator bytes (from the gates, not from the header field), and the
// evaluator's argument width is corrected by the observed distance until the
// wanted id is hit exactly.  Every placed session goes through the ordinary
// oracle (both parties agree, streamed = whole circuit = Go reference, a panic
// or error of either party is a failure with the program as replay).

import (
	"fmt"
	"math/big"
	"strings"
	"time"

	"github.com/markkurossi/mpc/circuit"
)

// c05CircuitMaxIDs returns, per streamed circuit, the highest permanent
// (non-tmp) wire id its gates mention.  b is the garbler->evaluator stream
// after the OT; a truncated stream yields the circuits parsed so far.
func c05CircuitMaxIDs(b []byte) []int {
	var res []int
	pos := 0
	u32 := func() (int, bool) {
		if pos+4 > len(b) {
			return 0, false
		}
		v := int(b[pos])<<24 | int(b[pos+1])<<16 | int(b[pos+2])<<8 | int(b[pos+3])
		pos += 4
		return v, true
	}
	for {
		op, ok := u32()
		if !ok || op != circuit.OpCircuit {
			return res
		}
		var hdr [4]int
		for i := range hdr {
			if hdr[i], ok = u32(); !ok {
				return res
			}
		}
		max := -1
		for g := 0; g < hdr[1]; g++ {
			if pos >= len(b) {
				return res
			}
			gop := b[pos]
			pos++
			w := 4
			if gop&0x10 != 0 {
				w = 2
			}
			n, rows := 3, 0
			switch circuit.Operation(gop & 0x0f) {
			case circuit.XOR, circuit.XNOR:
			case circuit.AND:
				rows = 2
			case circuit.OR:
				rows = 3
			case circuit.INV:
				n, rows = 2, 1
			default:
				return res
			}
			if pos+n*w+16*rows > len(b) {
				return res
			}
			flags := []byte{0x80, 0x40, 0x20}
			if n == 2 {
				flags = []byte{0x80, 0x20}
			}
			for k := 0; k < n; k++ {
				v := 0
				for i := 0; i < w; i++ {
					v = v<<8 | int(b[pos])
					pos++
				}
				if gop&flags[k] == 0 && v > max {
					max = v
				}
			}
			pos += 16 * rows
		}
		res = append(res, max)
	}
}

type c05PageShape struct {
	name string
	// body of main(a [N]uint16, b uintW)
	rets string
	body string
	// distance between the number of input bits and the wanted id at the
	// first guess (corrected by the search)
	gap int
	// reference results
	ref func(a0, a1, a2, b uint64) []*big.Int
}

func c05PageShapes() []c05PageShape {
	b2i := func(b bool) *big.Int {
		if b {
			return big.NewInt(1)
		}
		return big.NewInt(0)
	}
	return []c05PageShape{
		{name: "const-wires", rets: "bool", body: "\treturn a[0] > uint16(b)\n", gap: 0,
			ref: func(a0, a1, a2, b uint64) []*big.Int { return []*big.Int{b2i(a0 > b&0xffff)} }},
		{name: "adder-output", rets: "(uint16, bool)", body: "\ts := a[0] + a[1]\n\td := s * a[2]\n\treturn d, d > uint16(b)\n", gap: 113,
			ref: func(a0, a1, a2, b uint64) []*big.Int {
				d := (((a0 + a1) & 0xffff) * a2) & 0xffff
				return []*big.Int{new(big.Int).SetUint64(d), b2i(d > b&0xffff)}
			}},
	}
}

// c05PageBoundary runs the family.
func c05PageBoundary(c *Ctx, idx *int) error {
	const page = 0x10000
	for _, sh := range c05PageShapes() {
		for k := 1; k <= 2; k++ {
			deltas := []int{-1, 0, 1}
			if sh.name == "const-wires" {
				// position of the zero wire; the one wire follows it
				deltas = []int{-2, -1, 0, 1}
			}
			for _, d := range deltas {
				target := k*page + d
				label := fmt.Sprintf("%s:page-%d:highest-id=boundary%+d", sh.name, k, d)
				r := c.rng.Fork()
				// first guess: input bits = target - gap, evaluator width 24..39
				bits := target - sh.gap
				elems := (bits - 24) / 16
				width := bits - 16*elems
				var sess *c05Stream
				var p c05Prog
				hit := false
				for try := 0; try < 4 && !hit; try++ {
					for width < 8 {
						elems--
						width += 16
					}
					for width > 72 {
						elems++
						width -= 16
					}
					src := fmt.Sprintf("package main\n\nfunc main(a [%d]uint16, b uint%d) %s {\n%s}\n", elems, width, sh.rets, sh.body)
					hexs := c05RandHex(r, 16*elems)
					raw := strings.TrimPrefix(hexs, "0x")
					// an element of a [N]uint16 given as one hex string: its two
					// bytes in the order they are written
					el := func(i int) uint64 {
						v, _ := new(big.Int).SetString(raw[4*i:4*i+4], 16)
						return v.Uint64()
					}
					bmax := width
					if bmax > 20 {
						bmax = 20
					}
					bv := uint64(r.Intn(1 << uint(bmax)))
					p = c05Prog{src: src, g: []string{hexs}, e: []string{fmt.Sprint(bv)}, want: sh.ref(el(0), el(1), el(2), bv),
						opt:  c05StreamOpt{label: label, oracleOnly: true, searched: true},
						feat: map[string]int{"page-boundary:" + label: 1}, nstmts: 3}
					sess = c05RunStream(p.src, p.g, p.e, p.opt, c.rng.Fork(), 0, 120*time.Second)
					if sess.stalled || sess.gErr != nil || sess.eErr != nil || sess.otEnd <= 0 || sess.otEnd > len(sess.g2e) {
						// a failing session is judged by the oracle below; its
						// stream may be cut short, so the placement cannot be read off it
						break
					}
					maxs := c05CircuitMaxIDs(sess.g2e[sess.otEnd:])
					// the circuit the shape is about: the first one that comes
					// near the boundary
					near := -1
					for _, m := range maxs {
						if m == target {
							hit = true
						}
						if near < 0 && m > target-64 {
							near = m
						}
					}
					if hit {
						break
					}
					if near < 0 {
						return fmt.Errorf("page-boundary %s: no circuit near wire id %d (highest ids %v...)", label, target, maxs[:c05Min(len(maxs), 8)])
					}
					c.Hist("page-boundary:search-step")
					width += target - near
				}
				if sess != nil && !hit && !(sess.stalled || sess.gErr != nil || sess.eErr != nil) {
					return fmt.Errorf("page-boundary %s: the search did not place a circuit's highest wire id on %d", label, target)
				}
				if hit {
					c.Hist("page-boundary:placed:" + label)
				}
				p.opt.pre = sess
				if err := c05Program(c, *idx, "page-boundary", p, 0); err != nil {
					return err
				}
				*idx++
			}
		}
	}
	return nil
}

func c05Min(a, b int) int {
	if a < b {
		return a
	}
	return b
}
