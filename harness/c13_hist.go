package main

// Property C13, histories on caller-supplied destinations.  IOArg.Set takes a
// *big.Int result the caller may reuse; whatever it held before (all ones, an
// earlier encoding of other values, zero), Set(reused, v) must be Set(nil, v)
// and — for in-domain v — put the bits of Parse(text of v) on the wires: no
// member's wires (the padding of a short array, a nil array or slice, the room
// above a slice shorter than the previous one) may keep earlier bits.
// Sequences of 2-3 Set calls on ONE buffer; each call is also a correspondence
// case (op 8: the model's set_into with the previous content).
// mpc.Result on a reused value is covered by checkResult (two calls on the
// same *big.Int); IOArg.Parse has no destination.

import (
	"fmt"
	"math/big"
	"strings"

	"github.com/markkurossi/mpc/circuit"
)

type c13HistStep struct {
	Prev   string   `json:"destination_before"`
	Values string   `json:"go_values"`
	Text   []string `json:"text,omitempty"`
	Got    string   `json:"Set(reused)"`
	Fresh  string   `json:"Set(nil)"`
	Parse  string   `json:"Parse(text),omitempty"`
}

type c13HistReplay struct {
	Seed    uint64        `json:"seed"`
	Case    int           `json:"case"`
	Type    string        `json:"type"`
	History []c13HistStep `json:"history"`
	Detail  string        `json:"detail"`
}

// a shape whose Go values Set can express: scalars up to 64 bits, byte-valued
// arrays and slices
func c13HistShape(r *RNG) *c13Shape {
	s := &c13Shape{kind: c13Struct}
	n := r.Range(1, 4)
	hasArr := false
	for i := 0; i < n; i++ {
		switch r.Intn(5) {
		case 0:
			s.fields = append(s.fields, &c13Shape{kind: c13Bool})
		case 1:
			k := c13Int
			if r.Bool() {
				k = c13Uint
			}
			s.fields = append(s.fields, &c13Shape{kind: k, bits: r.Range(1, 64)})
		default:
			k := c13Array
			if r.Intn(3) == 0 {
				k = c13Slice
			}
			ek := c13Uint
			if r.Intn(4) == 0 {
				ek = c13Int
			}
			s.fields = append(s.fields, &c13Shape{kind: k, n: r.Range(1, 6),
				elem: &c13Shape{kind: ek, bits: []int{8, 8, 8, 16, 32}[r.Intn(5)]}})
			hasArr = true
		}
	}
	if !hasArr {
		s.fields = append(s.fields, &c13Shape{kind: c13Array, n: r.Range(1, 6), elem: &c13Shape{kind: c13Uint, bits: 8}})
	}
	if len(s.fields) == 1 && r.Bool() {
		return s.fields[0] // a single, non-compound array / slice argument
	}
	return s
}

// one value vector; class of each member's value; inDomain: Parse of the
// text form is comparable (slices given in full)
func c13HistValues(r *RNG, leaves []*c13Shape, step int) (vals []*c13Val, govals []interface{}, classes []string, inDomain bool) {
	inDomain = true
	for _, l := range leaves {
		v := &c13Val{}
		class := "scalar"
		var gv interface{}
		switch l.kind {
		case c13Bool:
			v.b = r.Bool()
			gv = v.b
		case c13Int, c13Uint:
			v.z, _ = c13GenInt(r, l.kind == c13Int, l.bits)
			gv, _ = c13GoValue(r, l, v)
		default:
			k := l.n
			class = "full"
			// the first call fills the array with non-zero bytes; later calls give less
			if step > 0 || r.Intn(4) == 0 {
				switch r.Intn(4) {
				case 0:
					k, class = 0, "nil"
				case 1, 2:
					k, class = r.Intn(l.n), "short"
				}
			}
			if k == 0 && class == "short" {
				class = "nil"
			}
			if l.kind == c13Slice && k < l.n {
				class = "shorter-slice"
				inDomain = false
				if k == 0 {
					class = "nil-slice"
				}
			} else if l.kind == c13Array {
				class = "array-" + class
			} else {
				class = "slice-full"
			}
			for i := 0; i < k; i++ {
				v.elems = append(v.elems, big.NewInt(int64(1+r.Intn(255))))
			}
			switch {
			case k == 0 && r.Bool():
				gv = nil
			default:
				b := make([]byte, k)
				for i, e := range v.elems {
					b[i] = byte(e.Int64())
				}
				gv = b
			}
		}
		vals = append(vals, v)
		govals = append(govals, gv)
		classes = append(classes, class)
	}
	return
}

func (x *c13Run) historyCase(r *RNG) {
	c := x.c
	shape := c13HistShape(r)
	leaves := shape.Leaves()
	arg := shape.IOArg()
	total := shape.Bits()
	offs := c13Offsets(leaves)
	// the destination before the first call
	var buf *big.Int
	init := "all-ones"
	switch r.Intn(4) {
	case 0:
		buf = new(big.Int)
		init = "zero"
	case 1:
		buf = c13RandBits(r, total+r.Intn(80))
		init = "random"
	case 2:
		buf = new(big.Int).Neg(c13RandBits(r, total+1))
		init = "negative"
	default:
		buf = new(big.Int).Sub(c13Pow2(total+70), big.NewInt(1))
	}
	c.Hist("history-init:" + init)
	var hist []c13HistStep
	steps := 2 + r.Intn(2)
	for st := 0; st < steps; st++ {
		vals, govals, classes, inDomain := c13HistValues(r, leaves, st)
		prev := new(big.Int).Set(buf)
		got, code := c13SetInto(arg, buf, govals)
		fresh, fcode := c13Set(arg, govals)
		c.Case(L(I(8), c13ArgSX(arg), L(Big(prev)), c13GinsSX(govals)), c13ValueWires(got, code, total))
		c.Eval(fmt.Sprintf("history|%s|%s|%s", shape, prev.Text(16), c13GoValuesText(govals)), true)
		for _, cl := range classes {
			c.Hist("history-member:" + cl)
		}
		step := c13HistStep{Prev: "0x" + prev.Text(16), Values: c13GoValuesText(govals)}
		var strs []string
		var pz *big.Int
		pcode := -1
		if inDomain {
			ok := true
			for k, l := range leaves {
				s, sp := c13Spell(r, l, vals[k])
				if sp == "" {
					ok = false
				}
				strs = append(strs, s)
			}
			if ok {
				pz, pcode = c13Parse(arg, strs)
				step.Text = strs
			}
		}
		if code == 0 {
			step.Got = "0x" + got.Text(16)
		} else {
			step.Got = fmt.Sprintf("code %d", code)
		}
		if fcode == 0 {
			step.Fresh = "0x" + fresh.Text(16)
		} else {
			step.Fresh = fmt.Sprintf("code %d", fcode)
		}
		if pcode == 0 {
			step.Parse = bitsString(c13Wires(pz, total))
		}
		hist = append(hist, step)
		bad := ""
		badMember := -1
		switch {
		case code != fcode:
			bad = "Set on the reused destination succeeds/fails differently from Set(nil)"
		case code != 0:
			// both reject: the destination is unspecified, start the next step from a known value
			buf = new(big.Int).Sub(c13Pow2(total+3), big.NewInt(1))
			continue
		case got.Cmp(fresh) != 0:
			bad = "Set(reused, v) != Set(nil, v)"
			gb, fb := c13Wires(got, total), c13Wires(fresh, total)
			for m := range leaves {
				if bitsString(gb[offs[m]:offs[m+1]]) != bitsString(fb[offs[m]:offs[m+1]]) {
					badMember = m
					break
				}
			}
		case pcode == 0 && bitsString(c13Wires(got, total)) != bitsString(c13Wires(pz, total)):
			bad = "Set(reused, v) differs on the wires from Parse(text of v)"
		case pcode > 0:
			bad = "Parse rejects the text of an in-domain value"
		}
		if bad != "" {
			class := "above-the-argument"
			if badMember >= 0 {
				class = classes[badMember]
			} else if got != nil && fresh != nil && code == 0 && got.Cmp(fresh) == 0 {
				class = "vs-Parse"
			}
			c.Fail("c13:Set:reused-result:"+class+":stale-bits", bad,
				c13HistReplay{Seed: c.Seed, Case: x.i, Type: shape.String(), History: hist,
					Detail: fmt.Sprintf("step %d of the history on one destination (initially %s); member classes %s", st+1, init, strings.Join(classes, ","))})
			return
		}
		buf = got // Set returns the destination it was given
	}
}

// c13SetInto: IOArg.Set on a caller-supplied destination
func c13SetInto(a circuit.IOArg, dst *big.Int, in []interface{}) (z *big.Int, code int) {
	defer func() {
		if e := recover(); e != nil {
			z, code = nil, 2
		}
	}()
	z, err := a.Set(dst, in)
	if err != nil {
		return nil, 1
	}
	return z, 0
}

// fixedHistory: the history of seeded defect C13-7 (small, for the in-kernel sub-sample)
func (x *c13Run) fixedHistory() {
	c := x.c
	s := &c13Shape{kind: c13Struct, fields: []*c13Shape{{kind: c13Uint, bits: 16},
		{kind: c13Array, n: 4, elem: &c13Shape{kind: c13Uint, bits: 8}}}}
	arg := s.IOArg()
	first := []interface{}{uint16(0xb033), []byte{0xa1, 0xa2, 0xa3, 0x44}}
	second := []interface{}{uint16(0xb033), []byte{0x44}}
	buf, code := c13SetInto(arg, nil, first)
	c.Case(L(I(8), c13ArgSX(arg), L(), c13GinsSX(first)), c13ValueWires(buf, code, 48))
	if code != 0 {
		return
	}
	prev := new(big.Int).Set(buf)
	got, code := c13SetInto(arg, buf, second)
	c.Case(L(I(8), c13ArgSX(arg), L(Big(prev)), c13GinsSX(second)), c13ValueWires(got, code, 48))
	fresh, _ := c13Set(arg, second)
	pz, _ := c13Parse(arg, []string{"0xb033", "0x44"})
	if code != 0 || fresh == nil || pz == nil || got.Cmp(fresh) != 0 || bitsString(c13Wires(got, 48)) != bitsString(c13Wires(pz, 48)) {
		g := "error"
		if got != nil {
			g = "0x" + got.Text(16)
		}
		c.Fail("c13:Set:reused-result:array-short:stale-bits", "Set(reused, v) != Set(nil, v) / Parse(text of v)",
			c13HistReplay{Seed: c.Seed, Case: -4, Type: s.String(), History: []c13HistStep{
				{Prev: "nil", Values: c13GoValuesText(first), Got: "0x" + prev.Text(16)},
				{Prev: "0x" + prev.Text(16), Values: c13GoValuesText(second), Text: []string{"0xb033", "0x44"}, Got: g,
					Fresh: fmt.Sprint(fresh), Parse: fmt.Sprint(pz)}},
				Detail: "fixed history: a full [4]byte, then a one-byte value on the same destination"})
	}
}
