package main

// C12, sixth part: the remaining DOORS into the constant folder (door inventory:
// notes/C12-findings.md, table "Doors").
//
//   if-const-cond   If.SSA evaluates a constant condition and compiles one branch only
//   widemul         builtin wideMul on constants (wideMulEval) vs the run-time umult
//   builtins        floorPow2 / base10Digits / paddingN / size on folded arguments
//   forrange        for .. range over an array whose size is a folded expression
//   arraycast       []byte("..") / len of a cast string constant
//   params          the same fold == circuit pairs under other compiler parameters
//                   (Target GMW, OptPruneGates, CircMultArrayTreshold)
//   reuse           one Compiler object compiling the constant variant twice, and
//                   another program in between
//
// Oracle only (outside the Coq model except for the operators themselves).

import (
	"fmt"
	"math"
	"math/big"
	"strings"

	"github.com/markkurossi/mpc/compiler"
	"github.com/markkurossi/mpc/compiler/utils"
)

// c12ParamHook, when set, adjusts the parameters c12RunN compiles with.
var c12ParamHook func(*utils.Params)

func runC12Doors(c *Ctx) {
	r := c.rng.Fork()
	nProg, nFail := 0, 0
	reject := map[string]int{}
	st := func(vs []*big.Int) []string {
		var s []string
		for _, v := range vs {
			s = append(s, v.String())
		}
		return s
	}
	// committed wrong value of the case at hand (nil: none known)
	var committed *big.Int
	// constant variant vs run-time variant
	pair := func(door, form, srcC, srcD string, inC, inD []*big.Int, n int) {
		oc := c12RunN(srcC, inC, n)
		od := c12RunN(srcD, inD, n)
		nProg++
		c.Hist("door:" + door)
		c.Eval(srcC, oc.kind == 0 && od.kind == 0)
		rp := c12EvalReplay{Seed: c.Seed, Entry: door, Program: srcC + "\n--- run-time variant ---\n" + srcD, Inputs: st(inD), Got: st(oc.vals), Want: st(od.vals)}
		key := fmt.Sprintf("c12:door:%s:%s", door, form)
		switch {
		case oc.kind == 2:
			nFail++
			c.Fail(key+":panic", "the compiler panics ("+oc.text+")", rp)
		case od.kind != 0:
			reject[door+" (run-time variant): "+od.text]++
		case oc.kind == 1:
			nFail++
			c.Fail(key+":compile-error", "constant variant rejected ("+oc.text+") but the run-time variant compiles", rp)
		default:
			for i := range oc.vals {
				if oc.vals[i].Cmp(od.vals[i]) != 0 {
					nFail++
					sym := ":folded-differs-from-circuit"
					if committed != nil && oc.vals[i].Cmp(committed) == 0 {
						sym = ":folds-to-square-of-first-operand"
					}
					c.Fail(key+sym, fmt.Sprintf("%s: constant variant %v, run-time variant %v", door, st(oc.vals), st(od.vals)), rp)
					break
				}
			}
		}
	}
	// program vs Go reference
	ref := func(door, form, src string, in, want []*big.Int) {
		o := c12RunN(src, in, len(want))
		nProg++
		c.Hist("door:" + door)
		c.Eval(src, o.kind == 0)
		rp := c12EvalReplay{Seed: c.Seed, Entry: door, Program: src, Inputs: st(in), Got: st(o.vals), Want: st(want)}
		key := fmt.Sprintf("c12:door:%s:%s", door, form)
		switch {
		case o.kind == 2:
			nFail++
			c.Fail(key+":panic", "the compiler panics ("+o.text+")", rp)
		case o.kind == 1:
			reject[door+": "+o.text]++
		default:
			for i := range want {
				if o.vals[i].Cmp(want[i]) != 0 {
					nFail++
					c.Fail(key+":folded-differs-from-reference", fmt.Sprintf("%s: got %v, reference %v", door, st(o.vals), st(want)), rp)
					break
				}
			}
		}
	}
	reps := c.N(3, 20)
	type tp struct{ k, n int }
	types := []tp{{1, 8}, {1, 32}, {0, 32}, {1, 64}, {0, 64}}

	// ---- If.SSA with a constant condition
	for _, t := range types {
		T := c12TypeName(t.k, t.n)
		for op := 11; op <= 16; op++ {
			for rep := 0; rep < reps; rep++ {
				a, b := c12Rand(r, min(t.n-1, 30)), c12Rand(r, min(t.n-1, 30))
				if rep == 0 {
					b = a
				}
				m := c12Meta{code: op, k: t.k, n: t.n, a: a, b: b}
				if m.class() < 1 {
					continue
				}
				x := c12Rand(r, t.n-2)
				srcC := fmt.Sprintf("package main\nfunc main(x %s, y %s) %s {\n\tif %s(%s) %s %s(%s) {\n\t\treturn x + 1\n\t}\n\treturn x + 2\n}\n", T, T, T, T, a, c12Ops[op], T, b)
				srcD := fmt.Sprintf("package main\nfunc main(x %s, y %s, a %s, b %s) %s {\n\tif a %s b {\n\t\treturn x + 1\n\t}\n\treturn x + 2\n}\n", T, T, T, T, T, c12Ops[op])
				pair("If.SSA", "constant-condition:"+c12OpNames[op]+":"+T, srcC, srcD, []*big.Int{x, big.NewInt(0)}, []*big.Int{x, big.NewInt(0), a, b}, 1)
			}
		}
	}
	// ---- builtin wideMul on constants (finding F42, fixed in /repo by 4406c97: wideMulEval
	// multiplied the FIRST operand by itself); always generated; the formerly committed wrong
	// value keeps its own key so that a return of the defect is named
	wmWidths := []int{8, 16, 32, 64}
	for _, n := range wmWidths {
		for rep := 0; rep < reps; rep++ {
			a, b := c12Rand(r, n), c12Rand(r, n)
			if rep == 0 {
				a, b = new(big.Int).Sub(c12Pow(n), big.NewInt(1)), big.NewInt(3)
			}
			T, W := c12TypeName(1, n), c12TypeName(1, 2*n)
			srcC := fmt.Sprintf("package main\nfunc main(x %s, y %s) %s {\n\treturn wideMul(%s(%s), %s(%s))\n}\n", T, T, W, T, a, T, b)
			srcD := fmt.Sprintf("package main\nfunc main(a %s, b %s) %s {\n\treturn wideMul(a, b)\n}\n", T, T, W)
			committed = new(big.Int).Mul(a, a)
			pair("wideMulEval", T, srcC, srcD, []*big.Int{big.NewInt(0), big.NewInt(0)}, []*big.Int{a, b}, 1)
			committed = nil
		}
	}
	// ---- builtins evaluated at compile time, arguments folded
	for rep := 0; rep < reps*2; rep++ {
		x := int64(r.Intn(1000))
		X := []*big.Int{big.NewInt(x)}
		a, b := int64(1+r.Intn(300)), int64(1+r.Intn(20))
		switch rep % 3 {
		case 0: // boundary: a + b is an exact power of two, and a multiple of b + 1
			a = (int64(1) << uint(5+r.Intn(4))) - b
		case 1:
			a = (b+1)*int64(2+r.Intn(9)) - b
		}
		fp := int64(1)
		for fp*2 <= a+b {
			fp *= 2
		}
		ref("floorPow2Eval", "folded-argument", fmt.Sprintf("package main\nfunc main(x uint32) uint32 {\n\treturn x + floorPow2(%d + %d)\n}\n", a, b), X, []*big.Int{big.NewInt(x + fp)})
		ref("base10DigitsEval", "folded-argument", fmt.Sprintf("package main\nfunc main(x uint32) uint32 {\n\treturn x + base10Digits(%d * %d)\n}\n", a, b), X,
			[]*big.Int{big.NewInt(x + int64(float64(a*b)*math.Log10(2)) + 1)})
		ref("paddingNEval", "folded-arguments", fmt.Sprintf("package main\nfunc main(x uint32) uint32 {\n\treturn x + paddingN(%d + %d, %d)\n}\n", a, b, b+1), X, []*big.Int{big.NewInt(x + (b+1-(a+b)%(b+1))%(b+1))})
		n := []int{7, 8, 16, 31, 32, 33, 64, 100}[r.Intn(8)]
		ref("sizeEval", "variable", fmt.Sprintf("package main\nfunc main(x uint32) uint32 {\n\tvar v uint%d\n\treturn x + size(v)\n}\n", n), X, []*big.Int{big.NewInt(x + int64(n))})
		// ---- for .. range over an array with a folded size
		ref("ForRange", "folded-array-size", fmt.Sprintf("package main\nfunc main(x uint32) uint32 {\n\tvar arr [%d + %d]uint8\n\tvar n uint32\n\tfor i := range arr {\n\t\tn = n + 1 + i - i\n\t}\n\treturn x + n\n}\n", b, b%3), X, []*big.Int{big.NewInt(x + b + b%3)})
		// ---- array cast of a string constant
		str := strings.Repeat("ab", 1+int(b)%5)
		ref("ArrayCast.Eval", "string-constant", fmt.Sprintf("package main\nfunc main(x uint32) uint32 {\n\ts := []byte(%q)\n\treturn x + len(s)\n}\n", str), X, []*big.Int{big.NewInt(x + int64(len(str)))})
	}
	// ---- the fold == circuit pairs under other compiler parameters
	type pv struct {
		name string
		hook func(*utils.Params)
	}
	variants := []pv{
		{"target-gmw", func(p *utils.Params) { p.Target = utils.TargetGMW }},
		{"prune-gates", func(p *utils.Params) { p.OptPruneGates = true }},
		{"mult-array-treshold-8", func(p *utils.Params) { p.CircMultArrayTreshold = 8 }},
		{"mult-array-treshold-64", func(p *utils.Params) { p.CircMultArrayTreshold = 64 }},
	}
	for _, v := range variants {
		c12ParamHook = v.hook
		for _, t := range []tp{{1, 32}, {0, 64}, {1, 128}} {
			T := c12TypeName(t.k, t.n)
			for _, op := range []int{0, 1, 2, 5, 7, 9, 11, 14} {
				a, b := c12Rand(r, min(t.n-2, 30)), c12Rand(r, min(t.n-2, 30))
				if op == 9 {
					b = big.NewInt(int64(r.Intn(t.n)))
				}
				m := c12Meta{code: op, k: t.k, n: t.n, a: a, b: b}
				if m.class() != 2 {
					continue
				}
				R := T
				if op >= 11 {
					R = "bool"
				}
				ec, ed := T+"("+a.String()+") "+c12Ops[op]+" "+T+"("+b.String()+")", "a "+c12Ops[op]+" b"
				if op == 9 {
					ec, ed = T+"("+a.String()+") << "+b.String(), "a << "+b.String()
				}
				srcC := fmt.Sprintf("package main\nfunc main(a, b %s) %s {\n\treturn %s\n}\n", T, R, ec)
				srcD := fmt.Sprintf("package main\nfunc main(a, b %s) %s {\n\treturn %s\n}\n", T, R, ed)
				in := []*big.Int{a, b}
				pair("Params", v.name+":"+c12OpNames[op]+":"+T, srcC, srcD, in, in, 1)
			}
		}
	}
	c12ParamHook = nil
	// ---- one Compiler object used for several compilations
	for rep := 0; rep < reps*2; rep++ {
		a, b := c12Rand(r, 30), c12Rand(r, 30)
		op := []int{0, 1, 2, 6, 9}[rep%5]
		if op == 9 {
			b = big.NewInt(int64(r.Intn(32)))
		}
		mk := func(T string) string {
			e := T + "(" + a.String() + ") " + c12Ops[op] + " " + T + "(" + b.String() + ")"
			if op == 9 {
				e = T + "(" + a.String() + ") << " + b.String()
			}
			return fmt.Sprintf("package main\nfunc main(x, y %s) %s {\n\treturn x + (%s)\n}\n", T, T, e)
		}
		src32, src64 := mk("uint32"), mk("uint64")
		x := c12Rand(r, 20)
		in := []*big.Int{x, big.NewInt(0)}
		fresh32 := c12RunN(src32, in, 1)
		fresh64 := c12RunN(src64, in, 1)
		func() {
			defer func() {
				if e := recover(); e != nil {
					nFail++
					c.Fail("c12:door:Compiler-reuse:panic", fmt.Sprint(e), c12EvalReplay{Seed: c.Seed, Entry: "Compiler-reuse", Program: src32 + src64})
				}
			}()
			params := utils.NewParams()
			defer params.Close()
			cc := compiler.New(params)
			var got []*big.Int
			for _, s := range []string{src32, src64, src32} {
				circ, _, err := cc.Compile(s, nil)
				if err != nil {
					reject["Compiler-reuse: "+err.Error()]++
					return
				}
				res, err := circ.Compute(in)
				if err != nil || len(res) != 1 {
					reject["Compiler-reuse: compute"]++
					return
				}
				got = append(got, res[0])
			}
			nProg++
			c.Hist("door:Compiler-reuse")
			c.Eval(src32+src64, true)
			if fresh32.kind != 0 || fresh64.kind != 0 {
				return
			}
			want := []*big.Int{fresh32.val, fresh64.val, fresh32.val}
			for i := range want {
				if got[i].Cmp(want[i]) != 0 {
					nFail++
					c.Fail("c12:door:Compiler-reuse:"+c12OpNames[op]+":differs-from-fresh-compiler",
						fmt.Sprintf("compilation %d on a reused Compiler gives %s, a fresh Compiler %s", i, got[i], want[i]),
						c12EvalReplay{Seed: c.Seed, Entry: "Compiler-reuse", Program: src32 + "\n--- then ---\n" + src64 + "\n--- then the first again ---", Inputs: st(in), Got: st(got), Want: st(want)})
					break
				}
			}
		}()
	}
	for k, v := range reject {
		c.Note("door: rejected %d times: %s", v, k)
	}
	c.Note("door programs: %d, %d failing", nProg, nFail)
}
