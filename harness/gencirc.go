package main

import (
	"fmt"
	"math/big"

	"github.com/markkurossi/mpc/circuit"
	"github.com/markkurossi/mpc/types"
)

// GenOpts controls the random circuit generator.
type GenOpts struct {
	MinIn, MaxIn       int
	MinGates, MaxGates int
	MaxOut             int
	Overwrite          bool // allow gates to overwrite intermediate wires
	TwoParty           bool // split inputs into exactly two arguments
	AllowEmptyParty    bool // with TwoParty: sometimes give one party a 0-bit argument
}

func uintInfo(bits int) types.Info {
	return types.Info{Type: types.TUint, IsConcrete: true, Bits: types.Size(bits)}
}

// GenCircuit builds a random well-formed circuit: ids in range, inputs
// defined before use, no gate writes an input wire; every op is forced to
// appear when there is room; fan-out, in0 == in1 and (optionally) overwrite
// of intermediate wires occur.
func GenCircuit(r *RNG, o GenOpts) *circuit.Circuit {
	ni := r.Range(o.MinIn, o.MaxIn)
	ng := r.Range(o.MinGates, o.MaxGates)
	var gates []circuit.Gate
	next := ni
	defined := make([]int, 0, ni+ng)
	for i := 0; i < ni; i++ {
		defined = append(defined, i)
	}
	ops := []circuit.Operation{circuit.XOR, circuit.XNOR, circuit.AND, circuit.OR, circuit.INV}
	for k := 0; k < ng; k++ {
		var op circuit.Operation
		if k < 5 && ng >= 5 {
			op = ops[k]
		} else {
			// AND-heavy mix: AND 35%, XOR 25%, OR 15%, INV 15%, XNOR 10%
			p := r.Intn(100)
			switch {
			case p < 35:
				op = circuit.AND
			case p < 60:
				op = circuit.XOR
			case p < 75:
				op = circuit.OR
			case p < 90:
				op = circuit.INV
			default:
				op = circuit.XNOR
			}
		}
		pickIn := func() int {
			// bias towards recent wires to get depth, but keep fan-out
			if r.Intn(3) == 0 {
				return defined[r.Intn(len(defined))]
			}
			lo := len(defined) - 8
			if lo < 0 {
				lo = 0
			}
			return defined[lo+r.Intn(len(defined)-lo)]
		}
		in0 := pickIn()
		in1 := pickIn()
		if r.Intn(10) == 0 {
			in1 = in0
		}
		out := next
		remaining := ng - k
		if o.Overwrite && next > ni && remaining > 1 && r.Intn(8) == 0 {
			out = ni + r.Intn(next-ni)
		} else {
			next++
			defined = append(defined, out)
		}
		g := circuit.Gate{Input0: circuit.Wire(in0), Input1: circuit.Wire(in1), Output: circuit.Wire(out), Op: op}
		if op == circuit.INV {
			g.Input1 = 0
		}
		gates = append(gates, g)
	}
	nw := next
	maxOut := nw - ni
	if maxOut > o.MaxOut {
		maxOut = o.MaxOut
	}
	if maxOut < 1 {
		maxOut = 1
	}
	no := r.Range(1, maxOut)
	c := &circuit.Circuit{NumGates: len(gates), NumWires: nw, Gates: gates}
	// inputs
	if o.TwoParty {
		a := ni / 2
		if ni >= 2 {
			a = r.Range(1, ni-1)
		}
		if o.AllowEmptyParty && r.Intn(6) == 0 {
			// one party contributes no input bits (e.g. an empty array argument)
			if r.Bool() {
				a = ni
			} else {
				a = 0
			}
		}
		c.Inputs = circuit.IO{{Name: "a", Type: uintInfo(a)}, {Name: "b", Type: uintInfo(ni - a)}}
	} else if ni >= 2 && r.Bool() {
		a := r.Range(1, ni-1)
		c.Inputs = circuit.IO{{Name: "a", Type: uintInfo(a)}, {Name: "b", Type: uintInfo(ni - a)}}
	} else {
		c.Inputs = circuit.IO{{Name: "a", Type: uintInfo(ni)}}
	}
	// outputs: split into 1..3 args
	rem := no
	idx := 0
	for rem > 0 {
		n := rem
		if rem > 1 && r.Intn(2) == 0 {
			n = r.Range(1, rem)
		}
		c.Outputs = append(c.Outputs, circuit.IOArg{Name: fmt.Sprintf("r%d", idx), Type: uintInfo(n)})
		rem -= n
		idx++
	}
	for _, g := range gates {
		c.Stats[g.Op]++
	}
	return c
}

// CircuitSX renders the circuit for the model: dims and gate list.
func CircuitSX(c *circuit.Circuit) (SX, SX) {
	dims := L(I(c.NumWires), I(c.Inputs.Size()), I(c.Outputs.Size()))
	gs := make([]SX, len(c.Gates))
	for i, g := range c.Gates {
		gs[i] = L(I(int(g.Op)), I(int(g.Input0)), I(int(g.Input1)), I(int(g.Output)))
	}
	return dims, L(gs...)
}

// TruthEval is the harness's own gate-by-gate truth-table evaluator
// (independent of Circuit.Compute).
func TruthEval(c *circuit.Circuit, x []bool) []bool {
	w := make([]bool, c.NumWires)
	copy(w, x)
	for _, g := range c.Gates {
		a := w[g.Input0]
		var b bool
		if g.Op != circuit.INV {
			b = w[g.Input1]
		}
		var v bool
		switch g.Op {
		case circuit.XOR:
			v = a != b
		case circuit.XNOR:
			v = a == b
		case circuit.AND:
			v = a && b
		case circuit.OR:
			v = a || b
		case circuit.INV:
			v = !a
		}
		w[g.Output] = v
	}
	no := c.Outputs.Size()
	return append([]bool(nil), w[c.NumWires-no:]...)
}

// SplitInputs turns flat input bits into the []*big.Int Compute expects.
func SplitInputs(c *circuit.Circuit, x []bool) []*big.Int {
	var res []*big.Int
	ofs := 0
	// Circuit.Compute takes one value per FLATTENED argument (the members of a compound
	// argument count separately)
	var flat circuit.IO
	for _, io := range c.Inputs {
		if len(io.Compound) > 0 {
			flat = append(flat, io.Compound...)
		} else {
			flat = append(flat, io)
		}
	}
	for _, io := range flat {
		v := new(big.Int)
		for b := 0; b < int(io.Type.Bits); b++ {
			if x[ofs] {
				v.SetBit(v, b, 1)
			}
			ofs++
		}
		res = append(res, v)
	}
	return res
}

// JoinOutputs flattens Compute's results into bits.
func JoinOutputs(c *circuit.Circuit, vals []*big.Int) []bool {
	var res []bool
	for i, io := range c.Outputs {
		for b := 0; b < int(io.Type.Bits); b++ {
			res = append(res, vals[i].Bit(b) == 1)
		}
	}
	return res
}

func bitsString(b []bool) string {
	s := make([]byte, len(b))
	for i, v := range b {
		if v {
			s[i] = '1'
		} else {
			s[i] = '0'
		}
	}
	return string(s)
}

func opHist(c *Ctx, circ *circuit.Circuit) {
	for _, g := range circ.Gates {
		c.Hist("gate:" + g.Op.String())
	}
}
