package main

// C12, fifth part: the COMPILE-TIME evaluator (compiler/ast/eval.go) and its
// callers.  Constant folding has three layers: mpa.Int (arithmetic), Binary /
// Unary evalConst (operator + result type, reached from Binary.SSA and from
// Binary.Eval) — these two are what the Coq model covers — and the Eval entry
// points through which other constructs evaluate expressions at compile time:
//
//   For.SSA            -> Assign.Eval / Binary.Eval on the loop header (init, cond, step)
//   TypeInfo.Resolve   -> Eval of an array size expression
//   Slice.Eval / SSA   -> Eval of slice bounds
//   Index.Eval         -> Eval of a constant index
//   Make.Eval / SSA    -> Eval of make() arguments
//   Package.defineConstant -> Eval of const declarations (chains of consts)
//   Binary.SSA         -> Eval of a computed shift count
//
// Each family drives one entry with folded expressions inside the proved class
// (small non-negative values, no overflow) and compares the program's outputs
// with a reference computed here in Go (loops cannot be run on run-time bounds,
// sizes must be constant, so there is no run-time variant).  Oracle only.

import (
	"fmt"
	"math/big"
	"strings"
)

type c12EvalReplay struct {
	Seed    uint64   `json:"seed"`
	Entry   string   `json:"eval_entry"`
	Program string   `json:"program"`
	Inputs  []string `json:"inputs"`
	Got     []string `json:"got"`
	Want    []string `json:"reference"`
}

func runC12Eval(c *Ctx) {
	r := c.rng.Fork()
	nProg, nFail := 0, 0
	reject := map[string]int{}
	// f6f: set by a family when the program folds an add/sub at a type wider than 64
	// bits whose operands' containers are both at least 2 bits narrower than the type:
	// the committed mpa.Int.Add/Sub big path then panics "Output already assigned"
	// (known finding F6f, reached through this door).  ""/"add"/"sub".
	f6f := ""
	check := func(entry, form, src string, inputs []*big.Int, want []*big.Int) {
		o := c12RunN(src, inputs, len(want))
		nProg++
		c.Hist("eval:" + entry)
		c.Eval(src, o.kind == 0)
		st := func(vs []*big.Int) []string {
			var s []string
			for _, v := range vs {
				s = append(s, v.String())
			}
			return s
		}
		rp := c12EvalReplay{Seed: c.Seed, Entry: entry, Program: src, Inputs: st(inputs), Got: st(o.vals), Want: st(want)}
		key := fmt.Sprintf("c12:eval:%s:%s", entry, form)
		switch {
		case o.kind == 2:
			nFail++
			if f6f != "" && o.class == 2 {
				// exactly the committed outcome of F6f; its kind (int/uint) is the 3rd field
				kn := "uint"
				if strings.Contains(form, ":int") {
					kn = "int"
				}
				c.Fail(fmt.Sprintf("c12:%s:%s:eval-%s-%s:large:wgt64:evalentry:panic", f6f, kn, entry, strings.SplitN(form, ":", 2)[0]),
					"the compiler panics ("+o.text+"): mpa.Int.Add/Sub big path (F6f) reached from "+entry, rp)
			} else {
				c.Fail(key+":panic", "the compiler panics ("+o.text+")", rp)
			}
		case o.kind == 1:
			reject[entry+": "+o.text]++
		default:
			for i := range want {
				if o.vals[i].Cmp(want[i]) != 0 {
					nFail++
					c.Fail(key+":folded-differs-from-reference",
						fmt.Sprintf("%s: result %d is %s, the reference gives %s (all results %v, reference %v)", entry, i, o.vals[i], want[i], st(o.vals), st(want)), rp)
					break
				}
			}
		}
	}
	type tp struct{ k, n int }
	types := []tp{{1, 8}, {1, 16}, {1, 32}, {0, 32}, {1, 64}, {0, 64}}
	if c.Thorough() {
		types = append(types, tp{0, 8}, tp{0, 16}, tp{1, 40}, tp{1, 128})
	}
	reps := c.N(6, 30)

	// ---- for headers with 1, 2 and 3 variables stepped in ONE statement
	for _, t := range types {
		T := c12TypeName(t.k, t.n)
		mod := c12Pow(t.n)
		for nv := 1; nv <= 3; nv++ {
			for rep := 0; rep < reps; rep++ {
				names := []string{"i", "j", "k"}[:nv]
				init := make([]int64, nv)
				step := make([]int64, nv) // signed step
				// i counts up towards j (or a limit); j counts down; k anything
				init[0] = int64(r.Intn(5))
				step[0] = int64(1 + r.Intn(3))
				limit := init[0] + int64(2+r.Intn(12))
				if nv >= 2 {
					init[1] = limit
					step[1] = -int64(r.Intn(3))
				}
				if nv == 3 {
					init[2] = int64(20 + r.Intn(40))
					step[2] = int64(r.Intn(7)) - 3
				}
				var inits, lhs, rhs []string
				for v := 0; v < nv; v++ {
					inits = append(inits, fmt.Sprintf("%s(%d)", T, init[v]))
					lhs = append(lhs, names[v])
					if step[v] >= 0 {
						rhs = append(rhs, fmt.Sprintf("%s+%s(%d)", names[v], T, step[v]))
					} else {
						rhs = append(rhs, fmt.Sprintf("%s-%s(%d)", names[v], T, -step[v]))
					}
				}
				cond := fmt.Sprintf("i < %s(%d)", T, limit)
				if nv >= 2 {
					cond = "i < j"
				}
				var sb strings.Builder
				rets := strings.TrimSuffix(strings.Repeat(T+", ", nv+1), ", ")
				fmt.Fprintf(&sb, "package main\nfunc main(x %s) (%s) {\n", T, rets)
				for _, nm := range names {
					fmt.Fprintf(&sb, "\tvar r%s %s\n", nm, T)
				}
				fmt.Fprintf(&sb, "\tvar n %s\n\tfor %s := %s; %s; %s = %s {\n", T, strings.Join(lhs, ", "), strings.Join(inits, ", "), cond, strings.Join(lhs, ", "), strings.Join(rhs, ", "))
				for _, nm := range names {
					fmt.Fprintf(&sb, "\t\tr%s = %s\n", nm, nm)
				}
				sb.WriteString("\t\tn = n + 1\n\t}\n\treturn ")
				var outs []string
				for _, nm := range names {
					outs = append(outs, "r"+nm+" + x")
				}
				outs = append(outs, "n + x")
				sb.WriteString(strings.Join(outs, ", ") + "\n}\n")
				// reference
				cur := append([]int64{}, init...)
				last := make([]int64, nv)
				cnt := int64(0)
				ok := true
				for iter := 0; iter < 64; iter++ {
					lim := limit
					if nv >= 2 {
						lim = cur[1]
					}
					if !(cur[0] < lim) {
						break
					}
					copy(last, cur)
					cnt++
					for v := 0; v < nv; v++ {
						cur[v] += step[v]
						if cur[v] < 0 || (t.k == 0 && cur[v] >= 1<<uint(min(t.n-1, 40))) || (t.n < 40 && cur[v] >= 1<<uint(t.n)) {
							ok = false
						}
					}
				}
				if !ok {
					continue
				}
				x := int64(r.Intn(50))
				var want []*big.Int
				for v := 0; v < nv; v++ {
					want = append(want, new(big.Int).Mod(big.NewInt(last[v]+x), mod))
				}
				want = append(want, new(big.Int).Mod(big.NewInt(cnt+x), mod))
				// header steps are v +/- T(small): at a type wider than 64 bits both
				// containers are 32 bits wide, the first step folded is i + T(s)
				if t.n > 64 {
					f6f = "add"
				}
				check("For.SSA", fmt.Sprintf("header-%dvar:%s", nv, T), sb.String(), []*big.Int{big.NewInt(x)}, want)
				f6f = ""
			}
		}
	}

	// small folded expression with a known value: (text, value)
	smallExpr := func(lo, hi int) (string, int64) {
		for {
			a, b := int64(1+r.Intn(20)), int64(1+r.Intn(9))
			var s string
			var v int64
			switch r.Intn(5) {
			case 0:
				s, v = fmt.Sprintf("%d + %d", a, b), a+b
			case 1:
				s, v = fmt.Sprintf("%d - %d", a+b, b), a
			case 2:
				s, v = fmt.Sprintf("%d * %d", a, b), a*b
			case 3:
				s, v = fmt.Sprintf("%d << %d", a, b%4), a<<uint(b%4)
			default:
				s, v = fmt.Sprintf("(%d + %d) / %d", a*b, b, b), a+1
			}
			if v >= int64(lo) && v <= int64(hi) {
				return s, v
			}
		}
	}
	for rep := 0; rep < reps*3; rep++ {
		x := int64(r.Intn(1000))
		X := []*big.Int{big.NewInt(x)}
		// ---- array size (TypeInfo.Resolve)
		e, v := smallExpr(1, 64)
		check("TypeInfo.Resolve", "array-size", fmt.Sprintf("package main\nfunc main(x uint32) uint32 {\n\tvar arr [%s]uint8\n\treturn x + len(arr)\n}\n", e), X, []*big.Int{big.NewInt(x + v)})
		// ---- slice bounds (Slice.Eval)
		e1, v1 := smallExpr(0, 7)
		e2, v2 := smallExpr(8, 16)
		check("Slice.Eval", "slice-bounds", fmt.Sprintf("package main\nfunc main(x uint32) uint32 {\n\tvar arr [16]uint8\n\ts := arr[%s:%s]\n\treturn x + len(s)\n}\n", e1, e2), X, []*big.Int{big.NewInt(x + v2 - v1)})
		// ---- make() argument (Make.Eval)
		e, v = smallExpr(1, 64)
		check("Make.Eval", "make-length", fmt.Sprintf("package main\nfunc main(x uint32) uint32 {\n\ts := make([]uint8, %s)\n\treturn x + len(s)\n}\n", e), X, []*big.Int{big.NewInt(x + v)})
		// ---- constant index (Index.Eval)
		e, v = smallExpr(0, 3)
		vals := []int64{int64(r.Intn(200)), int64(r.Intn(200)), int64(r.Intn(200)), int64(r.Intn(200))}
		check("Index.Eval", "constant-index", fmt.Sprintf("package main\nfunc main(x uint32) uint32 {\n\tvar arr [4]uint32\n\tarr[0] = %d\n\tarr[1] = %d\n\tarr[2] = %d\n\tarr[3] = %d\n\treturn x + arr[%s]\n}\n", vals[0], vals[1], vals[2], vals[3], e), X, []*big.Int{big.NewInt(x + vals[v])})
		// ---- const declarations, a chain of three (Package.defineConstant)
		ea, va := smallExpr(1, 200)
		b2, c2 := int64(1+r.Intn(9)), int64(1+r.Intn(50))
		check("Package.defineConstant", "const-chain", fmt.Sprintf("package main\nconst K0 = %s\nconst K1 = K0 * %d\nconst K2 = K1 + %d\nfunc main(x uint32) uint32 {\n\treturn x + K2\n}\n", ea, b2, c2), X, []*big.Int{big.NewInt(x + va*b2 + c2)})
		// ---- computed shift count (Binary.SSA -> Eval of the count)
		e, v = smallExpr(0, 20)
		check("Binary.SSA", "computed-shift-count", fmt.Sprintf("package main\nfunc main(x uint32) uint32 {\n\treturn x << (%s)\n}\n", e), X, []*big.Int{new(big.Int).Mod(new(big.Int).Lsh(big.NewInt(x), uint(v)), c12Pow(32))})
	}
	for k, v := range reject {
		c.Note("eval: program rejected %d times: %s", v, k)
	}
	c.Note("compile-time-evaluator programs: %d, %d failing", nProg, nFail)
}
