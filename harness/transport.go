package main

import (
	"errors"
	"io"
	"sync"
)

// fragQueue is one direction of an in-memory transport: an unbounded byte
// queue whose Read returns at most the next prescribed fragment size (so the
// reader sees arbitrary fragmentation), with optional byte corruption and a
// full log of what was written.
type fragQueue struct {
	mu      sync.Mutex
	cond    *sync.Cond
	buf     []byte
	closed  bool
	rng     *RNG
	maxFrag int // 0 = whatever is available
	log     []byte
	written int
	// corruption: xor mask applied to the byte at absolute stream offset
	corrupt map[int]byte
	// set: the byte at absolute stream offset is REPLACED by this value (a constant pattern
	// such as an all-zero label cannot be produced by a data-independent xor mask)
	set map[int]byte
	// dup: the byte at offset dst is replaced by the ORIGINAL byte at the earlier offset src
	// (one label copied over a later one)
	dup map[int]int
	// truncate: if >= 0 the stream ends (EOF) after this many bytes
	truncAt   int
	waiting   bool   // a reader is blocked on an empty queue
	delivered []byte // bytes as delivered to the reader side (after corruption)
}

func newFragQueue(rng *RNG, maxFrag int) *fragQueue {
	q := &fragQueue{rng: rng, maxFrag: maxFrag, truncAt: -1}
	q.cond = sync.NewCond(&q.mu)
	return q
}

func (q *fragQueue) Write(p []byte) (int, error) {
	q.mu.Lock()
	defer q.mu.Unlock()
	if q.closed {
		return 0, io.ErrClosedPipe
	}
	for i, b := range p {
		off := q.written + i
		if q.truncAt >= 0 && off >= q.truncAt {
			continue
		}
		if m, ok := q.corrupt[off]; ok {
			b ^= m
		}
		if v, ok := q.set[off]; ok {
			b = v
		}
		if src, ok := q.dup[off]; ok && src < off {
			if src < len(q.log) {
				b = q.log[src]
			} else if src-q.written < i && src >= q.written {
				b = p[src-q.written]
			}
		}
		q.buf = append(q.buf, b)
		q.delivered = append(q.delivered, b)
	}
	q.log = append(q.log, p...)
	q.written += len(p)
	if q.truncAt >= 0 && q.written >= q.truncAt {
		q.closed = true
	}
	q.cond.Broadcast()
	return len(p), nil
}

func (q *fragQueue) Read(p []byte) (int, error) {
	q.mu.Lock()
	defer q.mu.Unlock()
	for len(q.buf) == 0 {
		if q.closed {
			return 0, io.EOF
		}
		q.waiting = true
		q.cond.Wait()
		q.waiting = false
	}
	n := len(p)
	if n > len(q.buf) {
		n = len(q.buf)
	}
	if q.maxFrag > 0 && n > 1 {
		k := 1 + q.rng.Intn(q.maxFrag)
		if k < n {
			n = k
		}
	}
	copy(p, q.buf[:n])
	q.buf = q.buf[n:]
	return n, nil
}

func (q *fragQueue) Close() {
	q.mu.Lock()
	q.closed = true
	q.cond.Broadcast()
	q.mu.Unlock()
}

// duplex is an io.ReadWriter (+Close) over two fragQueues.
type duplex struct {
	r, w *fragQueue
}

func (d *duplex) Read(p []byte) (int, error)  { return d.r.Read(p) }
func (d *duplex) Write(p []byte) (int, error) { return d.w.Write(p) }
func (d *duplex) Close() error {
	d.r.Close()
	d.w.Close()
	return nil
}

// newDuplexPair returns the two endpoints and the two queues (a->b, b->a).
func newDuplexPair(rng *RNG, maxFrag int) (*duplex, *duplex, *fragQueue, *fragQueue) {
	ab := newFragQueue(rng.Fork(), maxFrag)
	ba := newFragQueue(rng.Fork(), maxFrag)
	return &duplex{r: ba, w: ab}, &duplex{r: ab, w: ba}, ab, ba
}

var errWatchdog = errors.New("watchdog: session stalled and was aborted")

// idle reports whether a reader is blocked on this (empty) queue.
func (q *fragQueue) idle() bool {
	q.mu.Lock()
	defer q.mu.Unlock()
	return q.waiting && len(q.buf) == 0
}
