package main

// Property C15 through the less-travelled entry points: every exported
// constructor of package ot that offers malicious mode (ot.NewCOT and
// ot.NewROT with malicious=true; vole and gmw only call IKNP with
// malicious=false / the bit form, which has no check).  The wrappers are
// thin: X.Receive = IKNPReceiver.Receive(flags, result, true) followed by the
// hashed-pad phase, X.Send = IKNPSender.Send(n, true) followed by the pads.
// The Coq theorems are about the IKNP/KOS core; this file ties the wrappers'
// ERROR PROPAGATION to it: a deviation the direct IKNPSender.Send rejects
// must make the wrapper's Send return a non-nil error and release nothing.
//
// Also a static inventory over ot/*.go: deferred closures that overwrite a
// named result unconditionally (`defer func() { err = ... }()`), which turns
// every error return of the function into whatever the closure computes.

import (
	"fmt"
	"go/ast"
	"go/parser"
	"go/token"
	"os"
	"path/filepath"
	"sort"
	"strings"

	"github.com/markkurossi/mpc/ot"
)

// c15DuplexIO: inbound messages are replayed, outbound messages recorded.
type c15DuplexIO struct {
	in  []c15Msg
	pos int
	out []c15Msg
}

func (d *c15DuplexIO) SendByte(val byte) error  { return errC15Unexpected }
func (d *c15DuplexIO) SendUint32(val int) error { return errC15Unexpected }
func (d *c15DuplexIO) SendData(val []byte) error {
	d.out = append(d.out, c15Msg{data: append([]byte(nil), val...)})
	return nil
}
func (d *c15DuplexIO) SendLabel(val ot.Label, data *ot.LabelData) error {
	d.out = append(d.out, c15Msg{label: val, isLabel: true})
	return nil
}
func (d *c15DuplexIO) Flush() error                { return nil }
func (d *c15DuplexIO) ReceiveByte() (byte, error)  { return 0, errC15Unexpected }
func (d *c15DuplexIO) ReceiveUint32() (int, error) { return 0, errC15Unexpected }
func (d *c15DuplexIO) ReceiveData() ([]byte, error) {
	if d.pos >= len(d.in) {
		return nil, errC15EOF
	}
	m := d.in[d.pos]
	if m.isLabel {
		return nil, errC15Type
	}
	d.pos++
	return append([]byte(nil), m.data...), nil
}
func (d *c15DuplexIO) ReceiveLabel(val *ot.Label, data *ot.LabelData) error {
	if d.pos >= len(d.in) {
		return errC15EOF
	}
	m := d.in[d.pos]
	if !m.isLabel {
		return errC15Type
	}
	d.pos++
	*val = m.label
	return nil
}

func c15NewWrapper(kind string, base ot.OT, rnd *labelLog) ot.OT {
	if kind == "COT" {
		return ot.NewCOT(base, rnd, true, false)
	}
	return ot.NewROT(base, rnd, true, false)
}

type c15WrapRun struct {
	*c15Run
	kind     string
	recvSeed uint64
	sendSeed uint64
}

// the receiver's IKNP phase through the wrapper; its second phase needs the
// sender's reply, so the first pass ends with the I/O running dry
func newC15WrapRun(r *RNG, kind string, n int, b []bool) (*c15WrapRun, error) {
	w := &c15WrapRun{kind: kind, recvSeed: r.U64(), sendSeed: r.U64()}
	run := &c15Run{n: n, b: b, base: &c15Base{}}
	rnd := &labelLog{r: NewRNG(w.recvSeed)}
	rcv := c15NewWrapper(kind, run.base, rnd)
	io := &c15DuplexIO{}
	if err := rcv.InitReceiver(io); err != nil {
		return nil, err
	}
	run.rcvd = make([]ot.Label, n)
	err := rcv.Receive(b, run.rcvd)
	if err != errC15EOF {
		return nil, fmt.Errorf("%s.Receive first pass: expected the I/O to run dry, got %v", kind, err)
	}
	run.msgs = io.out
	run.nPay = c15Chunks(n)
	run.nChk = 1
	if len(run.msgs) != run.nPay+run.nChk+4 {
		return nil, fmt.Errorf("%s.Receive sent %d messages, expected %d", kind, len(run.msgs), run.nPay+run.nChk+4)
	}
	if len(rnd.labels) != 2*ot.K+3 {
		return nil, fmt.Errorf("%s receiver drew %d labels", kind, len(rnd.labels))
	}
	run.b0, run.b1, run.seed = rnd.labels[2*ot.K], rnd.labels[2*ot.K+1], rnd.labels[2*ot.K+2]
	run.chi = c15Chi(run.seed, n+256)
	// Delta: the first label the sender wrapper draws at InitSender
	srnd := &labelLog{r: NewRNG(w.sendSeed)}
	snd := c15NewWrapper(kind, run.base, srnd)
	if err := snd.InitSender(&c15DuplexIO{}); err != nil {
		return nil, err
	}
	if len(srnd.labels) < 1 {
		return nil, fmt.Errorf("%s sender drew no label at InitSender", kind)
	}
	run.delta = srnd.labels[0]
	w.c15Run = run
	return w, nil
}

type c15WrapReplay struct {
	Seed    uint64     `json:"seed"`
	Wrapper string     `json:"wrapper"`
	N       int        `json:"n"`
	Choices string     `json:"choices"`
	Delta   string     `json:"delta"`
	Pattern c15Pattern `json:"pattern"`
	Direct  string     `json:"direct_IKNPSender_Send"`
	Got     string     `json:"wrapper_Send"`
}

// one deviation: direct IKNPSender.Send versus the wrapper's Send
func (w *c15WrapRun) evalWrapped(c *Ctx, r *RNG, p *c15Pattern) {
	msgs := w.tampered(p)
	_, _, derr := w.sender(r, msgs)

	srnd := &labelLog{r: NewRNG(w.sendSeed)}
	snd := c15NewWrapper(w.kind, w.base, srnd)
	io := &c15DuplexIO{in: msgs}
	wires := make([]ot.Wire, w.n)
	if w.kind == "COT" {
		for i := range wires {
			wires[i] = ot.Wire{L0: c15RandLabel(r), L1: c15RandLabel(r)}
		}
	}
	orig := append([]ot.Wire(nil), wires...)
	var werr error
	func() {
		defer func() {
			if e := recover(); e != nil {
				werr = fmt.Errorf("PANIC: %v", e)
			}
		}()
		if err := snd.InitSender(io); err != nil {
			werr = fmt.Errorf("InitSender: %v", err)
			return
		}
		werr = snd.Send(wires)
	}()
	c.Eval(fmt.Sprintf("wrap|%s|%d|%s|%s|%s", w.kind, w.n, bitsString(w.b), w.delta, w.patternSX(p).String()), len(p.Flips) > 0 || p.altersResponse())
	c.Hist("wrapper:" + w.kind)
	es := func(e error) string {
		if e == nil {
			return "nil"
		}
		return e.Error()
	}
	rep := c15WrapReplay{Seed: c.Seed, Wrapper: w.kind, N: w.n, Choices: bitsString(w.b), Delta: w.delta.String(),
		Pattern: *p, Direct: es(derr), Got: es(werr)}
	released := len(io.out) > 0
	if w.kind == "ROT" {
		for i := range wires {
			if wires[i] != orig[i] {
				released = true
			}
		}
	}
	switch {
	case derr != nil && werr == nil:
		c.Fail("c15:wrapper:"+w.kind+":check-failure-swallowed",
			fmt.Sprintf("ot.%s.Send (malicious=true) returned nil although IKNPSender.Send(n,true) rejects the same message sequence (%q); class %s, flips %v, n=%d, %d message(s) sent afterwards",
				w.kind, derr.Error(), p.Class, p.Flips, w.n, len(io.out)), rep)
	case derr != nil && released:
		c.Fail("c15:wrapper:"+w.kind+":output-released-after-check-failure",
			fmt.Sprintf("ot.%s.Send failed (%v) but had already sent %d message(s) / set wires", w.kind, werr, len(io.out)), rep)
	case derr == nil && werr != nil:
		c.Fail("c15:wrapper:"+w.kind+":spurious-error",
			fmt.Sprintf("ot.%s.Send returned %q although IKNPSender.Send(n,true) accepts the same message sequence", w.kind, werr.Error()), rep)
	}
	if derr != nil {
		c.Hist("wrapper-outcome:reject")
	} else {
		c.Hist("wrapper-outcome:accept")
	}
	// honest run: let the receiver finish and compare the transferred labels
	if len(p.Flips) == 0 && !p.altersResponse() && werr == nil {
		rnd := &labelLog{r: NewRNG(w.recvSeed)}
		rcv := c15NewWrapper(w.kind, &c15Base{}, rnd)
		rio := &c15DuplexIO{in: io.out}
		res := make([]ot.Label, w.n)
		err := rcv.InitReceiver(rio)
		if err == nil {
			err = rcv.Receive(w.b, res)
		}
		if err != nil {
			c.Fail("c15:wrapper:"+w.kind+":honest-abort", "honest receiver wrapper failed: "+err.Error(), rep)
			return
		}
		for i := range res {
			want := wires[i].L0
			if w.b[i] {
				want = wires[i].L1
			}
			if res[i] != want {
				c.Fail("c15:wrapper:"+w.kind+":honest-labels-wrong",
					fmt.Sprintf("honest %s run: receiver label %d is not the chosen sender label", w.kind, i), rep)
				break
			}
		}
	}
}

func c15Wrappers(c *Ctx) {
	sizes := []int{1, 8, 13, 100, 600}
	if c.Thorough() {
		sizes = append(sizes, 2, 7, 9, 64, 255, 256, 512, 513, 1024, 1500)
	}
	for _, kind := range []string{"COT", "ROT"} {
		for _, n := range sizes {
			r := c.rng.Fork()
			w, err := newC15WrapRun(r, kind, n, c15Choices(r, n))
			if err != nil {
				c.Fail("c15:wrapper:"+kind+":honest-abort", "setup through the wrapper failed: "+err.Error(), map[string]interface{}{"n": n})
				continue
			}
			var pats []*c15Pattern
			pats = append(pats, w.genPatterns(r, c.N(10, 40))...)
			pats = append(pats, w.boundaryPatterns(r, 2)[1:]...)
			pats = append(pats, w.multiPatterns(r, c.N(2, 6))...)
			pats = append(pats, w.responsePatterns(r)...)
			for _, p := range pats {
				w.evalWrapped(c, r, p)
			}
		}
	}
}

// ---------------------------------------------------------------- static inventory

// c15DeferOverwrites lists functions of ot/*.go whose deferred closure assigns
// a named result unconditionally (top-level statement of the closure body).
func c15DeferOverwrites(repo string) ([]string, error) {
	files, err := filepath.Glob(filepath.Join(repo, "ot", "*.go"))
	if err != nil {
		return nil, err
	}
	sort.Strings(files)
	var found []string
	fset := token.NewFileSet()
	for _, fn := range files {
		if strings.HasSuffix(fn, "_test.go") {
			continue
		}
		f, err := parser.ParseFile(fset, fn, nil, 0)
		if err != nil {
			return nil, err
		}
		for _, d := range f.Decls {
			fd, ok := d.(*ast.FuncDecl)
			if !ok || fd.Body == nil || fd.Type.Results == nil {
				continue
			}
			named := map[string]bool{}
			for _, fld := range fd.Type.Results.List {
				for _, nm := range fld.Names {
					named[nm.Name] = true
				}
			}
			if len(named) == 0 {
				continue
			}
			ast.Inspect(fd.Body, func(nd ast.Node) bool {
				ds, ok := nd.(*ast.DeferStmt)
				if !ok {
					return true
				}
				fl, ok := ds.Call.Fun.(*ast.FuncLit)
				if !ok {
					return true
				}
				for _, st := range fl.Body.List {
					as, ok := st.(*ast.AssignStmt)
					if !ok {
						continue
					}
					for _, lhs := range as.Lhs {
						if id, ok := lhs.(*ast.Ident); ok && named[id.Name] && as.Tok == token.ASSIGN {
							name := fd.Name.Name
							if fd.Recv != nil && len(fd.Recv.List) > 0 {
								switch t := fd.Recv.List[0].Type.(type) {
								case *ast.StarExpr:
									if id2, ok := t.X.(*ast.Ident); ok {
										name = id2.Name + "." + name
									}
								case *ast.Ident:
									name = t.Name + "." + name
								}
							}
							found = append(found, fmt.Sprintf("%s:%s:%s", filepath.Base(fn), name, id.Name))
						}
					}
				}
				return true
			})
		}
	}
	return found, nil
}

func c15Static(c *Ctx) {
	repo := os.Getenv("VERIF_REPO")
	if repo == "" {
		repo = "/repo"
	}
	found, err := c15DeferOverwrites(repo)
	if err != nil {
		c.Note("static inventory of deferred result overwrites failed: %v", err)
		return
	}
	c.Note("static inventory ot/*.go: %d deferred closure(s) overwriting a named result unconditionally", len(found))
	for _, f := range found {
		c.Fail("c15:static:deferred-result-overwrite:"+f,
			"a deferred closure assigns the named result unconditionally: every error return of the function (e.g. 'OT extension check failed') is replaced by the closure's value: "+f,
			map[string]string{"site": f})
	}
}
