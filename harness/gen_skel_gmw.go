package main

// Translator (DESIGN 2.3, C10 online-phase liveness): regenerates
// coq/theories/Gen/SkelGmw.v from the CURRENT Go source of /repo/gmw on every
// check run (registered in extraGens, run by `harness gen`).
//
// It extracts (go/parser + go/ast only) the COMMUNICATION SKELETON of
// gmw.Network.run — the per-party order of Send / Receive / Flush operations
// on the ONLINE connection of the peer of the current `range nw.peers`
// iteration — by inlining every function or method of package gmw that
// (transitively) touches a connection: shareInput, receiveInput,
// andBatchFlush, broadcastXORs, SendBitvec2, ReceiveBitvec2, sendOutput,
// receiveOutput.  The skeleton is a Proto/Live.v `prog`:
//
//	PSend kind | PRecv kind | PFlush | PLoop label body | PBranch label then else
//
// Labels are the SOURCE TEXT of the loop header / branch condition with
// parameters replaced by the caller's argument text (`batch` -> `ands[i]`,
// `len(b0)` -> `len(nw.andD)`, `len(dR)` -> `len(nw.andD)` through
// `dR := make([]uint64, len(d))`).  Gmw/GmwNet.v gives the labels their meaning
// and rejects every label it does not know.
//
// Dropped: error exits (an `if` without else whose body does not communicate
// and ends in `return ..., <non-nil>` or panic), statements and loops that do
// not (transitively) touch a connection.  An `if` without else whose body does
// not communicate and ends in `continue` / `return nil` becomes
// PBranch cond [] [rest of the block].
//
// FAIL LOUDLY: a connection operation on anything but the current peer's
// online connection (peer.offline, another peer's conn, a conn outside a
// peers loop), an unknown conn method, a conn handed to code outside package
// gmw, go/defer/switch/select touching a conn, return/break inside a
// communicating loop, nested peers loops: all become PUnknown nodes, which
// GmwNet.gflat turns into NBad, so that the obligations C10_net_* of
// Props/C10.v break.

import (
	"bytes"
	"fmt"
	"go/ast"
	"go/parser"
	"go/printer"
	"go/token"
	"os"
	"path/filepath"
	"sort"
	"strings"
)

func init() { extraGens = append(extraGens, genSkelGmw) }

type gsNode struct {
	Op    string // send recv flush loop branch unknown
	Kind  string
	Label string
	Msg   string
	Body  []*gsNode
	Else  []*gsNode
}

type gsClass int

const (
	gsOther gsClass = iota
	gsNet           // the *Network
	gsSelf          // nw.self
	gsPeer          // the peer of the current `range nw.peers` iteration
	gsPeerConn      // its online connection
	gsForeignConn   // any other connection
)

type gsEnv struct {
	cls   map[string]gsClass
	text  map[string]string // identifier -> rendering in the entry function's terms
	lenOf map[string]string // identifier -> rendering of the slice whose length it has
	loops int               // communicating loops of THIS function around the current statement
}

func newGsEnv() *gsEnv {
	return &gsEnv{cls: map[string]gsClass{}, text: map[string]string{}, lenOf: map[string]string{}}
}

type gsGen struct {
	repo    string
	fset    *token.FileSet
	funcs   map[string][]*ast.FuncDecl // by bare name (methods and functions of package gmw)
	comm    map[*ast.FuncDecl]bool
	errs    []string
	inPeers bool
	depth   int
}

func (g *gsGen) pos(p token.Pos) string {
	q := g.fset.Position(p)
	rel, err := filepath.Rel(g.repo, q.Filename)
	if err != nil {
		rel = q.Filename
	}
	return fmt.Sprintf("%s:%d", rel, q.Line)
}

func (g *gsGen) unknown(p token.Pos, format string, a ...interface{}) *gsNode {
	msg := g.pos(p) + ": " + fmt.Sprintf(format, a...)
	g.errs = append(g.errs, msg)
	return &gsNode{Op: "unknown", Msg: msg}
}

func gsIsConnType(e ast.Expr) bool {
	st, ok := e.(*ast.StarExpr)
	if !ok {
		return false
	}
	se, ok := st.X.(*ast.SelectorExpr)
	if !ok {
		return false
	}
	id, ok := se.X.(*ast.Ident)
	return ok && id.Name == "p2p" && se.Sel.Name == "Conn"
}

// directComm: the node mentions a connection (a .online/.offline selector or an
// identifier of class conn in env; env may be nil).
func gsMentionsConn(n ast.Node, env *gsEnv) bool {
	found := false
	ast.Inspect(n, func(x ast.Node) bool {
		switch v := x.(type) {
		case *ast.SelectorExpr:
			if v.Sel.Name == "online" || v.Sel.Name == "offline" {
				found = true
			}
		case *ast.Ident:
			if env != nil {
				if c := env.cls[v.Name]; c == gsPeerConn || c == gsForeignConn {
					found = true
				}
			}
		}
		return !found
	})
	return found
}

func (g *gsGen) calleeNames(n ast.Node) []string {
	var out []string
	ast.Inspect(n, func(x ast.Node) bool {
		if c, ok := x.(*ast.CallExpr); ok {
			switch f := c.Fun.(type) {
			case *ast.Ident:
				out = append(out, f.Name)
			case *ast.SelectorExpr:
				out = append(out, f.Sel.Name)
			}
		}
		return true
	})
	return out
}

// computeComm: which functions of the package (transitively) touch a connection
func (g *gsGen) computeComm() {
	g.comm = map[*ast.FuncDecl]bool{}
	for _, fds := range g.funcs {
		for _, fd := range fds {
			if fd.Body == nil {
				continue
			}
			direct := gsMentionsConn(fd.Body, nil)
			if fd.Type.Params != nil {
				for _, f := range fd.Type.Params.List {
					if gsIsConnType(f.Type) {
						direct = true
					}
				}
			}
			g.comm[fd] = direct
		}
	}
	for changed := true; changed; {
		changed = false
		for _, fds := range g.funcs {
			for _, fd := range fds {
				if fd.Body == nil || g.comm[fd] {
					continue
				}
				for _, name := range g.calleeNames(fd.Body) {
					for _, cand := range g.funcs[name] {
						if g.comm[cand] {
							g.comm[fd] = true
							changed = true
						}
					}
				}
			}
		}
	}
}

// nodeComm: the statement / expression (transitively) communicates
func (g *gsGen) nodeComm(n ast.Node, env *gsEnv) bool {
	if n == nil {
		return false
	}
	if gsMentionsConn(n, env) {
		return true
	}
	for _, name := range g.calleeNames(n) {
		for _, cand := range g.funcs[name] {
			if g.comm[cand] {
				return true
			}
		}
	}
	return false
}

// ---------------------------------------------------------------- rendering

func (g *gsGen) render(e ast.Node, env *gsEnv) string {
	switch v := e.(type) {
	case nil:
		return ""
	case *ast.Ident:
		if t, ok := env.text[v.Name]; ok {
			return t
		}
		return v.Name
	case *ast.BasicLit:
		return v.Value
	case *ast.ParenExpr:
		return "(" + g.render(v.X, env) + ")"
	case *ast.SelectorExpr:
		return g.render(v.X, env) + "." + v.Sel.Name
	case *ast.IndexExpr:
		return g.render(v.X, env) + "[" + g.render(v.Index, env) + "]"
	case *ast.UnaryExpr:
		return v.Op.String() + g.render(v.X, env)
	case *ast.BinaryExpr:
		return g.render(v.X, env) + " " + v.Op.String() + " " + g.render(v.Y, env)
	case *ast.CallExpr:
		if id, ok := v.Fun.(*ast.Ident); ok && id.Name == "len" && len(v.Args) == 1 {
			if a, ok := v.Args[0].(*ast.Ident); ok {
				if t, ok := env.lenOf[a.Name]; ok {
					return "len(" + t + ")"
				}
			}
		}
		var args []string
		for _, a := range v.Args {
			args = append(args, g.render(a, env))
		}
		return g.render(v.Fun, env) + "(" + strings.Join(args, ", ") + ")"
	case *ast.AssignStmt:
		var l, r []string
		for _, x := range v.Lhs {
			l = append(l, g.render(x, env))
		}
		for _, x := range v.Rhs {
			r = append(r, g.render(x, env))
		}
		return strings.Join(l, ", ") + " " + v.Tok.String() + " " + strings.Join(r, ", ")
	case *ast.IncDecStmt:
		return g.render(v.X, env) + v.Tok.String()
	case *ast.ExprStmt:
		return g.render(v.X, env)
	}
	var buf bytes.Buffer
	printer.Fprint(&buf, g.fset, e)
	return buf.String()
}

func (g *gsGen) class(e ast.Expr, env *gsEnv) gsClass {
	switch v := e.(type) {
	case *ast.Ident:
		return env.cls[v.Name]
	case *ast.ParenExpr:
		return g.class(v.X, env)
	case *ast.SelectorExpr:
		base := g.class(v.X, env)
		switch v.Sel.Name {
		case "online":
			if base == gsPeer {
				return gsPeerConn
			}
			return gsForeignConn
		case "offline":
			return gsForeignConn
		case "self":
			if base == gsNet {
				return gsSelf
			}
		}
	}
	return gsOther
}

// ---------------------------------------------------------------- calls

func (g *gsGen) callsIn(n ast.Node, env *gsEnv) []*gsNode {
	var out []*gsNode
	if n == nil {
		return nil
	}
	ast.Inspect(n, func(x ast.Node) bool {
		switch v := x.(type) {
		case *ast.FuncLit:
			if g.nodeComm(v.Body, env) {
				out = append(out, g.unknown(v.Pos(), "function literal touching a connection"))
			}
			return false
		case *ast.CallExpr:
			nodes, descend := g.call(v, env)
			out = append(out, nodes...)
			return descend
		}
		return true
	})
	return out
}

func (g *gsGen) call(c *ast.CallExpr, env *gsEnv) (nodes []*gsNode, descend bool) {
	var name string
	var recv ast.Expr
	switch f := c.Fun.(type) {
	case *ast.Ident:
		name = f.Name
	case *ast.SelectorExpr:
		name = f.Sel.Name
		recv = f.X
	default:
		return nil, true
	}
	// operation on a connection
	if recv != nil {
		switch g.class(recv, env) {
		case gsPeerConn:
			if !g.inPeers {
				return []*gsNode{g.unknown(c.Pos(), "connection operation %s outside a peers loop", name)}, false
			}
			switch {
			case name == "Flush":
				return []*gsNode{{Op: "flush"}}, false
			case strings.HasPrefix(name, "Send") && len(name) > 4:
				return []*gsNode{{Op: "send", Kind: name[4:]}}, false
			case strings.HasPrefix(name, "Receive") && len(name) > 7:
				return []*gsNode{{Op: "recv", Kind: name[7:]}}, false
			}
			return []*gsNode{g.unknown(c.Pos(), "unknown connection method %s", name)}, false
		case gsForeignConn:
			return []*gsNode{g.unknown(c.Pos(), "%s on a connection that is not the current peer's online connection (%s)", name, g.render(recv, env))}, false
		}
	}
	// function / method of package gmw
	cands := g.funcs[name]
	var commCands []*ast.FuncDecl
	for _, fd := range cands {
		if g.comm[fd] {
			commCands = append(commCands, fd)
		}
	}
	if len(commCands) == 0 {
		// local code: it must not be handed a connection
		for _, a := range c.Args {
			if gsMentionsConn(a, env) {
				return []*gsNode{g.unknown(c.Pos(), "connection handed to %s", name)}, false
			}
		}
		return nil, true
	}
	if len(commCands) > 1 {
		return []*gsNode{g.unknown(c.Pos(), "ambiguous communicating callee %s", name)}, false
	}
	fd := commCands[0]
	if (fd.Recv != nil) != (recv != nil) {
		return []*gsNode{g.unknown(c.Pos(), "callee %s: receiver mismatch", name)}, false
	}
	if g.depth > 12 {
		return []*gsNode{g.unknown(c.Pos(), "inlining too deep at %s", name)}, false
	}
	// arguments that communicate themselves are not understood
	for _, a := range c.Args {
		if _, isCall := a.(*ast.CallExpr); isCall && g.nodeComm(a, env) {
			return []*gsNode{g.unknown(c.Pos(), "communicating call as argument of %s", name)}, false
		}
	}
	callee := newGsEnv()
	bind := func(id *ast.Ident, arg ast.Expr) {
		if id == nil || id.Name == "_" {
			return
		}
		callee.cls[id.Name] = g.class(arg, env)
		callee.text[id.Name] = g.render(arg, env)
		if a, ok := arg.(*ast.Ident); ok {
			if t, ok := env.lenOf[a.Name]; ok {
				callee.lenOf[id.Name] = t
				return
			}
		}
		callee.lenOf[id.Name] = g.render(arg, env)
	}
	if fd.Recv != nil && len(fd.Recv.List) == 1 && len(fd.Recv.List[0].Names) == 1 {
		bind(fd.Recv.List[0].Names[0], recv)
	}
	var params []*ast.Ident
	var ptypes []ast.Expr
	if fd.Type.Params != nil {
		for _, f := range fd.Type.Params.List {
			for _, nm := range f.Names {
				params = append(params, nm)
				ptypes = append(ptypes, f.Type)
			}
		}
	}
	if len(params) != len(c.Args) {
		return []*gsNode{g.unknown(c.Pos(), "callee %s: %d parameters, %d arguments", name, len(params), len(c.Args))}, false
	}
	for i, p := range params {
		bind(p, c.Args[i])
		if gsIsConnType(ptypes[i]) && callee.cls[p.Name] != gsPeerConn {
			callee.cls[p.Name] = gsForeignConn
		}
	}
	g.depth++
	nodes, _ = g.block(fd.Body.List, callee)
	g.depth--
	return nodes, false
}

// ---------------------------------------------------------------- statements

func gsLastIsNil(r *ast.ReturnStmt) bool {
	if len(r.Results) == 0 {
		return true
	}
	id, ok := r.Results[len(r.Results)-1].(*ast.Ident)
	return ok && id.Name == "nil"
}

// exitKind of a block that does not communicate: "error" (return non-nil /
// panic), "skip" (continue / return nil), "" (falls through)
func gsExitKind(list []ast.Stmt) string {
	if len(list) == 0 {
		return ""
	}
	switch v := list[len(list)-1].(type) {
	case *ast.ReturnStmt:
		if gsLastIsNil(v) {
			return "return"
		}
		return "error"
	case *ast.BranchStmt:
		if v.Tok == token.CONTINUE && v.Label == nil {
			return "continue"
		}
		return "other"
	case *ast.ExprStmt:
		if c, ok := v.X.(*ast.CallExpr); ok {
			if id, ok := c.Fun.(*ast.Ident); ok && id.Name == "panic" {
				return "error"
			}
		}
	}
	return ""
}

func (g *gsGen) track(a *ast.AssignStmt, env *gsEnv) {
	if len(a.Lhs) != 1 || len(a.Rhs) != 1 {
		return
	}
	id, ok := a.Lhs[0].(*ast.Ident)
	if !ok || id.Name == "_" {
		return
	}
	rhs := a.Rhs[0]
	if a.Tok == token.DEFINE || a.Tok == token.ASSIGN {
		if c := g.class(rhs, env); c != gsOther {
			env.cls[id.Name] = c
			if c == gsSelf {
				env.text[id.Name] = "self"
			}
		} else if _, had := env.cls[id.Name]; had && a.Tok == token.ASSIGN {
			delete(env.cls, id.Name)
		}
		// x := make(T, len(y) ...)
		if c, ok := rhs.(*ast.CallExpr); ok {
			if f, ok := c.Fun.(*ast.Ident); ok && f.Name == "make" && len(c.Args) >= 2 {
				if l, ok := c.Args[1].(*ast.CallExpr); ok {
					if lf, ok := l.Fun.(*ast.Ident); ok && lf.Name == "len" && len(l.Args) == 1 {
						s := g.render(l, env) // "len(...)"
						env.lenOf[id.Name] = strings.TrimSuffix(strings.TrimPrefix(s, "len("), ")")
					}
				}
			}
		}
	}
}

func (g *gsGen) block(list []ast.Stmt, env *gsEnv) (nodes []*gsNode, term bool) {
	for i, st := range list {
		if ifs, ok := st.(*ast.IfStmt); ok {
			n, cut := g.ifStmt(ifs, list[i+1:], env)
			nodes = append(nodes, n...)
			if cut {
				return nodes, false
			}
			continue
		}
		n, t := g.stmt(st, env)
		nodes = append(nodes, n...)
		if t {
			return nodes, true
		}
	}
	return nodes, false
}

func (g *gsGen) ifStmt(v *ast.IfStmt, rest []ast.Stmt, env *gsEnv) (nodes []*gsNode, cut bool) {
	if v.Init != nil {
		n, _ := g.stmt(v.Init, env)
		nodes = append(nodes, n...)
	}
	if g.nodeComm(v.Cond, env) {
		nodes = append(nodes, g.unknown(v.Cond.Pos(), "communication in a condition"))
	}
	thenComm := g.nodeComm(v.Body, env)
	elseComm := v.Else != nil && g.nodeComm(v.Else, env)
	if !thenComm && v.Else == nil {
		switch gsExitKind(v.Body.List) {
		case "error":
			return nodes, false
		case "continue":
			if env.loops == 0 {
				nodes = append(nodes, g.unknown(v.Pos(), "continue outside a loop of this function"))
				return nodes, false
			}
			r, _ := g.block(rest, env)
			nodes = append(nodes, &gsNode{Op: "branch", Label: g.render(v.Cond, env), Body: nil, Else: r})
			return nodes, true
		case "return":
			if env.loops != 0 {
				nodes = append(nodes, g.unknown(v.Pos(), "return inside a communicating loop"))
				return nodes, false
			}
			r, _ := g.block(rest, env)
			nodes = append(nodes, &gsNode{Op: "branch", Label: g.render(v.Cond, env), Body: nil, Else: r})
			return nodes, true
		case "other":
			if env.loops != 0 {
				nodes = append(nodes, g.unknown(v.Pos(), "break/goto inside a communicating loop"))
			}
			return nodes, false
		}
		return nodes, false
	}
	if !thenComm && !elseComm {
		// local code on both arms; an exit from a communicating context is not understood
		bad := false
		ast.Inspect(v, func(x ast.Node) bool {
			switch x.(type) {
			case *ast.ReturnStmt, *ast.BranchStmt:
				bad = true
			case *ast.FuncLit, *ast.ForStmt, *ast.RangeStmt, *ast.SwitchStmt:
				return false
			}
			return true
		})
		if bad {
			nodes = append(nodes, g.unknown(v.Pos(), "if/else with an exit"))
		}
		return nodes, false
	}
	a, _ := g.block(v.Body.List, env)
	var b []*gsNode
	switch e := v.Else.(type) {
	case *ast.BlockStmt:
		b, _ = g.block(e.List, env)
	case *ast.IfStmt:
		b, _ = g.ifStmt(e, nil, env)
	}
	nodes = append(nodes, &gsNode{Op: "branch", Label: g.render(v.Cond, env), Body: a, Else: b})
	return nodes, false
}

func (g *gsGen) stmt(st ast.Stmt, env *gsEnv) (nodes []*gsNode, term bool) {
	switch v := st.(type) {
	case nil:
		return nil, false
	case *ast.ExprStmt:
		return g.callsIn(v.X, env), false
	case *ast.AssignStmt:
		for _, r := range v.Rhs {
			nodes = append(nodes, g.callsIn(r, env)...)
		}
		for _, l := range v.Lhs {
			if _, isId := l.(*ast.Ident); !isId && g.nodeComm(l, env) {
				nodes = append(nodes, g.unknown(l.Pos(), "assignment to a connection"))
			}
		}
		g.track(v, env)
		return nodes, false
	case *ast.DeclStmt, *ast.IncDecStmt, *ast.EmptyStmt:
		if g.nodeComm(v, env) {
			return []*gsNode{g.unknown(v.Pos(), "declaration touching a connection")}, false
		}
		return nil, false
	case *ast.ReturnStmt:
		for _, r := range v.Results {
			nodes = append(nodes, g.callsIn(r, env)...)
		}
		if env.loops != 0 {
			nodes = append(nodes, g.unknown(v.Pos(), "return inside a communicating loop"))
		}
		return nodes, true
	case *ast.BlockStmt:
		return g.block(v.List, env)
	case *ast.IfStmt:
		n, _ := g.ifStmt(v, nil, env)
		return n, false
	case *ast.RangeStmt:
		if !g.nodeComm(v.Body, env) && !g.nodeComm(v.X, env) {
			return nil, false
		}
		if g.class(v.X, env) == gsOther && g.render(v.X, env) == "nw.peers" && !g.inPeers {
			if id, ok := v.Value.(*ast.Ident); ok && v.Tok == token.DEFINE {
				saved, had := env.cls[id.Name]
				savedT, hadT := env.text[id.Name]
				env.cls[id.Name] = gsPeer
				env.text[id.Name] = "peer"
				g.inPeers = true
				env.loops++
				body, _ := g.block(v.Body.List, env)
				env.loops--
				g.inPeers = false
				if had {
					env.cls[id.Name] = saved
				} else {
					delete(env.cls, id.Name)
				}
				if hadT {
					env.text[id.Name] = savedT
				} else {
					delete(env.text, id.Name)
				}
				return []*gsNode{{Op: "loop", Label: "range nw.peers", Body: body}}, false
			}
		}
		return []*gsNode{g.unknown(v.Pos(), "communicating range loop over %s", g.render(v.X, env))}, false
	case *ast.ForStmt:
		if !g.nodeComm(v.Body, env) && !g.nodeComm(v.Cond, env) && !g.nodeComm(v.Init, env) && !g.nodeComm(v.Post, env) {
			return nil, false
		}
		if g.nodeComm(v.Cond, env) || g.nodeComm(v.Init, env) || g.nodeComm(v.Post, env) {
			return []*gsNode{g.unknown(v.Pos(), "communication in a loop header")}, false
		}
		label := "for " + g.render(v.Init, env) + "; " + g.render(v.Cond, env) + "; " + g.render(v.Post, env)
		env.loops++
		body, _ := g.block(v.Body.List, env)
		env.loops--
		return []*gsNode{{Op: "loop", Label: label, Body: body}}, false
	case *ast.BranchStmt:
		if env.loops != 0 {
			return []*gsNode{g.unknown(v.Pos(), "%s inside a communicating loop", v.Tok)}, true
		}
		return nil, true
	default:
		if g.nodeComm(st, env) {
			return []*gsNode{g.unknown(st.Pos(), "statement %T touching a connection", st)}, false
		}
		return nil, false
	}
}

// ---------------------------------------------------------------- driver

func gsExtract(repo string) ([]*gsNode, []string, error) {
	g := &gsGen{repo: repo, fset: token.NewFileSet(), funcs: map[string][]*ast.FuncDecl{}}
	dir := filepath.Join(repo, "gmw")
	pkgs, err := parser.ParseDir(g.fset, dir, func(fi os.FileInfo) bool {
		return !strings.HasSuffix(fi.Name(), "_test.go")
	}, 0)
	if err != nil {
		return nil, nil, err
	}
	var entry *ast.FuncDecl
	for _, p := range pkgs {
		if p.Name != "gmw" {
			continue
		}
		var names []string
		for fn := range p.Files {
			names = append(names, fn)
		}
		sort.Strings(names)
		for _, fn := range names {
			for _, d := range p.Files[fn].Decls {
				fd, ok := d.(*ast.FuncDecl)
				if !ok || fd.Body == nil {
					continue
				}
				g.funcs[fd.Name.Name] = append(g.funcs[fd.Name.Name], fd)
				if fd.Name.Name == "run" && fd.Recv != nil && len(fd.Recv.List) == 1 {
					if st, ok := fd.Recv.List[0].Type.(*ast.StarExpr); ok {
						if id, ok := st.X.(*ast.Ident); ok && id.Name == "Network" {
							entry = fd
						}
					}
				}
			}
		}
	}
	if entry == nil {
		return nil, nil, fmt.Errorf("gmw: func (nw *Network) run not found")
	}
	g.computeComm()
	env := newGsEnv()
	if len(entry.Recv.List[0].Names) == 1 {
		nm := entry.Recv.List[0].Names[0].Name
		env.cls[nm] = gsNet
		env.text[nm] = "nw"
	}
	nodes, _ := g.block(entry.Body.List, env)
	return nodes, g.errs, nil
}

func gsCoqStr(s string) string {
	s = strings.ReplaceAll(s, "\"", "'")
	var sb strings.Builder
	for _, r := range s {
		if r < 32 || r > 126 {
			sb.WriteByte('?')
		} else {
			sb.WriteRune(r)
		}
	}
	return "\"" + sb.String() + "\""
}

func gsEmit(sb *strings.Builder, nodes []*gsNode, indent string) {
	sb.WriteString("mk [")
	for i, n := range nodes {
		if i > 0 {
			sb.WriteString(";")
		}
		sb.WriteString("\n" + indent + "  ")
		switch n.Op {
		case "send":
			sb.WriteString("PSend " + gsCoqStr(n.Kind))
		case "recv":
			sb.WriteString("PRecv " + gsCoqStr(n.Kind))
		case "flush":
			sb.WriteString("PFlush")
		case "loop":
			sb.WriteString("PLoop " + gsCoqStr(n.Label) + " (")
			gsEmit(sb, n.Body, indent+"  ")
			sb.WriteString(")")
		case "branch":
			sb.WriteString("PBranch " + gsCoqStr(n.Label) + " (")
			gsEmit(sb, n.Body, indent+"  ")
			sb.WriteString(") (")
			gsEmit(sb, n.Else, indent+"  ")
			sb.WriteString(")")
		default:
			sb.WriteString("PUnknown " + gsCoqStr(n.Msg))
		}
	}
	sb.WriteString("]")
}

func gsRender(nodes []*gsNode, errs []string) string {
	var sb strings.Builder
	sb.WriteString("(* SkelGmw.v — GENERATED by `harness gen` (harness/gen_skel_gmw.go) from gmw/network.go,\n" +
		"   gmw/peer.go on every check run.  Do not edit.\n" +
		"   Communication skeleton (a Proto/Live.v prog; labels = source text) of gmw.Network.run:\n" +
		"   operations on the online connection of the peer of the current `range nw.peers` iteration. *)\n" +
		"From Coq Require Import List.\nFrom Mpc Require Import Proto.Live.\nImport ListNotations.\nOpen Scope nm_scope.\n\n")
	sb.WriteString("Definition skel_gmw_errors : list name := [")
	for i, e := range errs {
		if i > 0 {
			sb.WriteString(";")
		}
		sb.WriteString("\n  " + gsCoqStr(e))
	}
	sb.WriteString("].\n\nDefinition skel_gmw_run : prog :=\n  ")
	gsEmit(&sb, nodes, "  ")
	sb.WriteString(".\n")
	return sb.String()
}

func genSkelGmw(repo, out string) error {
	nodes, errs, err := gsExtract(repo)
	if err != nil {
		// surface in C10 only: a skeleton that cannot be live
		msg := "parse: " + err.Error()
		nodes = []*gsNode{{Op: "unknown", Msg: msg}}
		errs = []string{msg}
	}
	return writeIfChanged(filepath.Join(out, "SkelGmw.v"), gsRender(nodes, errs))
}
