package main

// C11 — transport faults (model: coq/theories/Proto/ConnErr.v, modes 4 and 5 of RunC11.v).
//
// WRITE SIDE.  A real p2p.Conn runs a script over a transport whose i-th Write fails
// (accepting a prefix of the chunk).  The script goes on after an error: the status of
// EVERY op, WritePos / Stats / buffer identity after it, every Write call the transport
// saw, the bytes it accepted and whether Close closed the transport are the observable.
//
// When a Flush notices the writer's error is schedule dependent in p2p.Conn: Flush reads
// c.writerErr after a channel receive that is not ordered after the failing Write (a data
// race the Go race detector reports as soon as a failing Write returns while a Flush is
// near).  The harness therefore forces ONE schedule, the only one without that race: a
// failing Write i returns only after flush attempt i+1 has returned (the transport holds
// it; the main thread releases it between two ops through a mutex, which also orders the
// accesses for the race detector), i.e. the writer is as slow as the channels allow.  In
// this schedule flush attempt j sees exactly the failures of the Writes i <= j+1-numBuffers
// (model parameter lag = numBuffers-1).  The other interleavings are covered by the
// small-step theorems (C11_ringerr_*), not by execution.
//
// READ SIDE.  The stream a fault-free sender produced is served to a fresh p2p.Conn by a
// transport that fails after p bytes (with io.EOF or another error, together with its last
// bytes or on the following Read), for a sweep of p across every value of the script.

import (
	"errors"
	"fmt"
	"io"
	"sync"
	"time"

	"github.com/markkurossi/mpc/ot"
	"github.com/markkurossi/mpc/p2p"
)

var errC11Injected = errors.New("c11: injected transport error")

// ---- the failing writing side

type c11FaultSpec struct {
	faults map[int]int // Write index -> bytes accepted before the error
	from   int         // >= 0: every Write from this index on fails (0 bytes accepted)
}

func (f c11FaultSpec) at(i int) (bool, int) {
	if n, ok := f.faults[i]; ok {
		return true, n
	}
	if f.from >= 0 && i >= f.from {
		return true, 0
	}
	return false, 0
}

type c11FaultWire struct {
	mu       sync.Mutex
	cond     *sync.Cond
	spec     c11FaultSpec
	nwrites  int // Write calls entered
	ndone    int // Write calls returned
	released int // a failing Write with index < released may return
	offered  [][]byte
	ptrs     []*byte
	accepted []byte
	nfailed  int
	first    int // index of the first failed Write, -1
	accAt    int // bytes accepted before the first failed Write
	closed   bool
}

func newC11FaultWire(spec c11FaultSpec) *c11FaultWire {
	w := &c11FaultWire{spec: spec, first: -1}
	w.cond = sync.NewCond(&w.mu)
	return w
}

func (w *c11FaultWire) Write(p []byte) (int, error) {
	w.mu.Lock()
	defer w.mu.Unlock()
	i := w.nwrites
	w.nwrites++
	w.offered = append(w.offered, append([]byte(nil), p...))
	if len(p) > 0 {
		w.ptrs = append(w.ptrs, &p[0])
	} else {
		w.ptrs = append(w.ptrs, nil)
	}
	w.cond.Broadcast()
	fail, n := w.spec.at(i)
	if !fail {
		w.accepted = append(w.accepted, p...)
		w.ndone++
		w.cond.Broadcast()
		return len(p), nil
	}
	for i >= w.released {
		w.cond.Wait()
	}
	if n > len(p) {
		n = len(p)
	}
	if w.first < 0 {
		w.first = i
		w.accAt = len(w.accepted)
	}
	w.accepted = append(w.accepted, p[:n]...)
	w.nfailed++
	w.ndone++
	w.cond.Broadcast()
	return n, errC11Injected
}

func (w *c11FaultWire) Read(p []byte) (int, error) { return 0, io.EOF }

func (w *c11FaultWire) Close() error {
	w.mu.Lock()
	w.closed = true
	w.mu.Unlock()
	return nil
}

// snapshot: what the transport has seen so far, copied under the lock (the writer goroutine may
// still be at work if the implementation under test does not follow the expected schedule)
func (w *c11FaultWire) snapshot() *c11FaultWire {
	w.mu.Lock()
	defer w.mu.Unlock()
	return &c11FaultWire{spec: w.spec, nwrites: w.nwrites, ndone: w.ndone, released: w.released,
		offered: append([][]byte(nil), w.offered...), ptrs: append([]*byte(nil), w.ptrs...),
		accepted: append([]byte(nil), w.accepted...), nfailed: w.nfailed, first: w.first, accAt: w.accAt, closed: w.closed}
}

func (w *c11FaultWire) release(n int) (old int) {
	w.mu.Lock()
	old = w.released
	if n > w.released {
		w.released = n
		w.cond.Broadcast()
	}
	w.mu.Unlock()
	return old
}

// waitFor waits (bounded) until Write calls entered >= arrivals and returned >= done.
func (w *c11FaultWire) waitFor(arrivals, done int, d time.Duration) bool {
	deadline := time.Now().Add(d)
	for {
		w.mu.Lock()
		ok := w.nwrites >= arrivals && w.ndone >= done
		w.mu.Unlock()
		if ok {
			return true
		}
		if time.Now().After(deadline) {
			return false
		}
		time.Sleep(20 * time.Microsecond)
	}
}

// one op of a script on a Conn (the error is returned, nothing else is judged here)
func c11DoOp(conn *p2p.Conn, o c11Op, ldp *ot.LabelData) error {
	switch o.kind {
	case c11KByte:
		return conn.SendByte(o.b)
	case c11KU16:
		return conn.SendUint16(o.v)
	case c11KU32:
		return conn.SendUint32(o.v)
	case c11KData:
		return conn.SendData(append([]byte{}, o.data...))
	case c11KString:
		return conn.SendString(string(o.data))
	case c11KLabel:
		return conn.SendLabel(o.label, ldp)
	case c11KSizes:
		return conn.SendInputSizes(append([]int{}, o.sizes...))
	case c11KFlush:
		return conn.Flush()
	case c11KRaw:
		err := conn.NeedSpace(o.v)
		if err == nil {
			copy(conn.WriteBuf[conn.WritePos:], o.data)
			conn.WritePos += len(o.data)
		}
		return err
	}
	return conn.Close()
}

type c11WFRes struct {
	executed  int // ops executed (the script stops after a Close that got past its Flush)
	status    []error
	trace     []SX // (WritePos Sent Flushed) after every op
	ptrs      []*byte
	flushedAt []uint64
	wposAt    []int
	hang      string
	closeNil  bool // a Close returned nil
	closeSeen bool
}

// c11RunWriteFault runs ops on a fresh Conn over wire, going on after errors, with the
// slowest-writer schedule described at the top of the file.
func c11RunWriteFault(ops []c11Op, wire *c11FaultWire) c11WFRes {
	var res c11WFRes
	conn := p2p.NewConn(wire)
	done := make(chan struct{})
	go func() {
		defer close(done)
		var ld ot.LabelData
		failedAttempts := 0
		open := true // the Conn accepts further calls
		for _, o := range ops {
			if o.kind == c11KClose && conn.WritePos == 0 {
				// Close will not read c.writerErr before it has waited for the writer
				wire.release(1 << 30)
			}
			err := c11DoOp(conn, o, &ld)
			res.executed++
			res.status = append(res.status, err)
			if err != nil && !(o.kind == c11KClose && conn.WritePos == 0) {
				failedAttempts++ // an op that returns the error made exactly one failing flush attempt
			}
			res.trace = append(res.trace, L(I(conn.WritePos), U64(conn.Stats.Sent.Load()), U64(conn.Stats.Flushed.Load())))
			res.flushedAt = append(res.flushedAt, conn.Stats.Flushed.Load())
			res.wposAt = append(res.wposAt, conn.WritePos)
			if len(conn.WriteBuf) > 0 {
				res.ptrs = append(res.ptrs, &conn.WriteBuf[0])
			} else {
				res.ptrs = append(res.ptrs, nil)
			}
			if o.kind == c11KClose {
				res.closeSeen = true
				if err == nil {
					res.closeNil = true
				}
				if err == nil || conn.WritePos == 0 {
					open = false // toWriter is closed: any further call would panic
					break
				}
			}
			// the writer may now finish the failing Writes i with i+2 <= attempts
			attempts := int(conn.Stats.Flushed.Load()) + failedAttempts
			old := wire.release(attempts - 1)
			last := -1
			for i := old; i < attempts-1; i++ {
				if f, _ := wire.spec.at(i); f {
					last = i
				}
			}
			if last >= 0 && !wire.waitFor(last+2, last+1, 20*time.Second) {
				res.hang = fmt.Sprintf("after op %d (%s): the writer did not come back from Write %d", res.executed-1, o, last)
				return
			}
		}
		// end of the script: let the writer work off its queue, then look at the transport
		wire.release(1 << 30)
		attempts := int(conn.Stats.Flushed.Load()) + failedAttempts
		if !wire.waitFor(attempts, attempts, 20*time.Second) {
			res.hang = fmt.Sprintf("end of script: %d slices handed to the writer, the transport saw fewer Writes", attempts)
		}
		_ = open
	}()
	select {
	case <-done:
	case <-time.After(60 * time.Second):
		wire.release(1 << 30)
		res.hang = "script did not finish within the watchdog time"
		select {
		case <-done:
		case <-time.After(10 * time.Second):
		}
	}
	return res
}

func c11FaultIDs(wire *c11FaultWire, ptrs []*byte) (chunkIDs []int, traceIDs []int, distinct int) {
	ids := map[*byte]int{}
	id := func(p *byte) int {
		x, seen := ids[p]
		if !seen {
			x = len(ids)
			ids[p] = x
		}
		return x
	}
	for _, p := range wire.ptrs {
		chunkIDs = append(chunkIDs, id(p))
	}
	for _, p := range ptrs {
		traceIDs = append(traceIDs, id(p))
	}
	return chunkIDs, traceIDs, len(ids)
}

type c11FaultReplay struct {
	Seed   uint64 `json:"seed"`
	Case   int    `json:"case"`
	Script string `json:"script"`
	Fault  string `json:"fault"`
	Detail string `json:"detail"`
}

func c11OpsText(ops []c11Op) string {
	t := ""
	for _, o := range ops {
		t += o.String() + ";"
	}
	return c11Clip(t, 3000)
}

// c11WriteFaultFamily: scripts x failure points.
func c11WriteFaultFamily(c *Ctx) {
	nscripts := c.N(40, 900)
	caseNo := 0
	for si := 0; si < nscripts; si++ {
		r := c.rng.Fork()
		// mostly small values with many Flushes (many chunks, cheap for the model); a few scripts with
		// 64 KiB rollovers inside Send* / NeedSpace and with payloads of several buffers
		class := "small"
		if c.Thorough() {
			class = []string{"small", "small", "small", "boundary", "mixed"}[r.Intn(5)]
		}
		if si < 6 {
			class = []string{"small", "boundary", "mixed", "small", "boundary", "small"}[si]
		}
		heavy := class != "small"
		flushP := []int{30, 60, 100, 100}[r.Intn(4)]
		ops := c11GenOps(r, c, class, flushP)
		// tail: Flush+Close | Close with pending data | Flush only; then calls after a failed Close
		tail := r.Intn(4)
		switch tail {
		case 0, 1:
			if ops[len(ops)-1].kind != c11KFlush {
				ops = append(ops, c11Op{kind: c11KFlush})
			}
			ops = append(ops, c11Op{kind: c11KClose})
		case 2:
			if ops[len(ops)-1].kind == c11KFlush {
				ops = append(ops, c11Op{kind: c11KByte, b: 0x42})
			}
			ops = append(ops, c11Op{kind: c11KClose})
		case 3:
			if ops[len(ops)-1].kind != c11KFlush {
				ops = append(ops, c11Op{kind: c11KFlush})
			}
		}
		post := []c11Op{{kind: c11KU32, v: 7}, {kind: c11KFlush}, {kind: c11KClose}, {kind: c11KData, data: c11GenBytes(c11WriteBuf, 99), gen: true, seed: 99}, {kind: c11KClose}}
		npost := r.Intn(4)
		if si%6 == 1 {
			npost = 3 + r.Intn(3) // with a SendData that has to flush in the failed state
		}
		ops = append(ops, post[:npost]...)

		// dry run without faults: which op makes which flush attempt
		dryLive := newC11FaultWire(c11FaultSpec{from: -1})
		dry := c11RunWriteFault(ops, dryLive)
		dryWire := dryLive.snapshot()
		if dry.hang != "" {
			c.Fail("c11:werr:hang", "fault-free dry run: "+dry.hang, c11FaultReplay{Seed: c.Seed, Case: caseNo, Script: c11OpsText(ops)})
			continue
		}
		M := len(dryWire.offered)
		opOf := func(j int) int {
			for idx, f := range dry.flushedAt {
				if int(f) >= j+1 {
					return idx
				}
			}
			return -1
		}
		closeAttempt := -1 // the flush attempt made by the (first) Close, if it had data to flush
		if dry.closeSeen {
			ci := dry.executed - 1
			before := uint64(0)
			if ci > 0 {
				before = dry.flushedAt[ci-1]
			}
			if dry.flushedAt[ci] > before {
				closeAttempt = int(dry.flushedAt[ci]) - 1
			}
		}
		okK := func(k int) bool {
			if k+2 < M && opOf(k+1) == opOf(k+2) {
				return false // attempts k+1 and k+2 inside one call: the held Write k would deadlock it
			}
			if closeAttempt >= 0 && (k == closeAttempt-1 || k == closeAttempt) {
				return false // Close's own Flush would race with the failing Write
			}
			return true
		}
		var ks []int
		for k := 0; k < M; k++ {
			if okK(k) {
				ks = append(ks, k)
			} else {
				c.Hist("werr:failure-point-skipped(schedule-not-forceable-without-the-race)")
			}
		}
		// sweep: all failure points of short scripts, a sample of long ones, plus one beyond the end
		maxK := c.N(5, 12)
		if heavy {
			maxK = c.N(2, 6)
		}
		for len(ks) > maxK {
			j := r.Intn(len(ks))
			ks = append(ks[:j], ks[j+1:]...)
		}
		if si%4 == 0 {
			ks = append(ks, M+r.Intn(3)) // the failing Write is never reached
		}
		for _, k := range ks {
			spec := c11FaultSpec{faults: map[int]int{}, from: -1}
			kind := r.Intn(4)
			fdesc := ""
			switch {
			case kind == 0:
				spec.from = k
				fdesc = fmt.Sprintf("every Write from %d on fails", k)
			case kind == 1 && k < M && len(dryWire.offered[k]) > 1:
				n := 1 + r.Intn(len(dryWire.offered[k])-1)
				spec.faults[k] = n
				fdesc = fmt.Sprintf("Write %d is short (%d of %d bytes)", k, n, len(dryWire.offered[k]))
			case kind == 2 && k+3 < M && okK(k+3):
				spec.faults[k] = 0
				spec.faults[k+3] = 0
				fdesc = fmt.Sprintf("Writes %d and %d fail", k, k+3)
			default:
				spec.faults[k] = 0
				fdesc = fmt.Sprintf("Write %d fails", k)
			}
			live := newC11FaultWire(spec)
			res := c11RunWriteFault(ops, live)
			wire := live.snapshot()
			caseNo++
			rep := c11FaultReplay{Seed: c.Seed, Case: caseNo, Script: c11OpsText(ops), Fault: fdesc}
			fail := func(key, detail string) {
				rep.Detail = detail
				c.Fail(key, detail, rep)
			}
			if res.hang != "" {
				fail("c11:werr:hang", res.hang)
				continue
			}
			c11JudgeWriteFault(c, ops, wire, res, fail)
			c.Hist("werr:kind:" + []string{"from-k", "short", "two", "once"}[kind])
			c.Hist("werr:class:" + class)
			if k >= M {
				c.Hist("werr:fault-never-reached")
			}
			// correspondence case
			chunkIDs, traceIDs, _ := c11FaultIDs(wire, res.ptrs)
			var opsSX, trace, chunks, faults []SX
			for i := 0; i < res.executed; i++ {
				opsSX = append(opsSX, ops[i].sx())
				st := 0
				if res.status[i] != nil {
					st = 2
				}
				t := res.trace[i]
				trace = append(trace, L(I(st), t.list[0], t.list[1], t.list[2], I(traceIDs[i])))
			}
			for i, ch := range wire.offered {
				chunks = append(chunks, L(I(chunkIDs[i]), c11BytesSX(ch, false)))
			}
			for i := 0; i < M+8; i++ {
				if n, ok := spec.faults[i]; ok {
					faults = append(faults, L(I(i), I(n)))
				}
			}
			c.Case(L(I(4), L(opsSX...), L(faults...), I(spec.from), I(2)),
				L(L(trace...), L(chunks...), c11BytesSX(wire.accepted, false), Bool(wire.closed)))
			nerr := 0
			for _, e := range res.status {
				if e != nil {
					nerr++
				}
			}
			c.Eval(fmt.Sprintf("4|%s|%s", c11OpsText(ops), fdesc), res.executed >= 2 && wire.nfailed > 0 && nerr > 0)
		}
	}
}

// the property itself on the implementation (no model involved)
func c11JudgeWriteFault(c *Ctx, ops []c11Op, wire *c11FaultWire, res c11WFRes, fail func(key, detail string)) {
	firstErr := -1
	for i, e := range res.status {
		if e == nil {
			continue
		}
		if e != errC11Injected {
			fail("c11:werr:foreign-error", fmt.Sprintf("op %d (%s) returned %v, not the transport's error", i, ops[i], e))
		}
		if firstErr < 0 {
			firstErr = i
		}
	}
	// an error is returned only if a Write failed
	if firstErr >= 0 && wire.nfailed == 0 {
		fail("c11:werr:spurious-error", fmt.Sprintf("op %d (%s) returned an error although no Write failed", firstErr, ops[firstErr]))
	}
	// the error is sticky for Flush and Close
	if firstErr >= 0 {
		for i := firstErr + 1; i < res.executed; i++ {
			if (ops[i].kind == c11KFlush || ops[i].kind == c11KClose) && res.status[i] == nil {
				fail("c11:werr:error-not-sticky", fmt.Sprintf("op %d (%s) returned an error, the later op %d (%s) returned nil", firstErr, ops[firstErr], i, ops[i]))
				break
			}
		}
	}
	// Close returns nil only if every Write succeeded; then everything was delivered and the transport closed
	var stream []byte
	for i := 0; i < res.executed; i++ {
		if v, ok := ops[i].expect(); ok && res.status[i] == nil {
			stream = append(stream, v.encode()...)
		}
	}
	if res.closeNil {
		if wire.nfailed > 0 {
			fail("c11:werr:Close-nil-after-failed-Write", fmt.Sprintf("Close returned nil although %d Write(s) failed (first: %d)", wire.nfailed, wire.first))
		} else if string(wire.accepted) != string(stream) {
			fail("c11:werr:Close-nil-but-stream-differs", fmt.Sprintf("Close returned nil, the transport accepted %d bytes, the values sent are %d bytes (first difference at %d)", len(wire.accepted), len(stream), c11FirstDiff(wire.accepted, stream)))
		} else if !wire.closed {
			fail("c11:werr:Close-nil-transport-open", "Close returned nil without closing the transport")
		}
	}
	if wire.nfailed > 0 && res.closeSeen && firstErr < 0 {
		fail("c11:werr:failed-Write-never-reported", fmt.Sprintf("Write %d failed, no op up to and including Close returned an error", wire.first))
	}
	// what the transport accepted before the first failing Write is a prefix of the values sent
	// (all ops up to the first reported error completed: their values are the stream)
	var all []byte
	for i := 0; i < res.executed; i++ {
		if v, ok := ops[i].expect(); ok {
			all = append(all, v.encode()...)
		}
	}
	pre := wire.accepted
	if wire.first >= 0 {
		pre = wire.accepted[:wire.accAt]
	}
	if len(pre) > len(all) || string(all[:len(pre)]) != string(pre) {
		fail("c11:werr:prefix-before-failure-corrupted", fmt.Sprintf("the %d bytes accepted before the first failing Write are not a prefix of the values sent (first difference at %d)", len(pre), c11FirstDiff(pre, all)))
	}
	// the error is reported after at most numBuffers-1 further successful Flushes
	if wire.first >= 0 && firstErr >= 0 {
		if f := int(res.flushedAt[firstErr]); f > wire.first+2 {
			fail("c11:werr:reported-too-late", fmt.Sprintf("Write %d failed, %d Flushes succeeded before op %d returned the error", wire.first, f, firstErr))
		}
	}
	// observation (not judged, see notes/C11-findings.md): the writer goes on writing after a failed Write
	if wire.first >= 0 {
		if len(wire.offered) > wire.first+1 {
			c.Hist("werr:Write-called-after-a-failed-Write")
		}
		_, n := wire.spec.at(wire.first)
		if n > len(wire.offered[wire.first]) {
			n = len(wire.offered[wire.first])
		}
		if len(wire.accepted) > wire.accAt+n {
			c.Hist("werr:bytes-accepted-after-a-failed-Write(stream-has-a-hole-or-a-repeat)")
		}
		if res.closeSeen && !wire.closed {
			c.Hist("werr:Close-returned-the-error-and-left-the-transport-open")
		}
	}
}

// ---- the failing reading side

func c11ReadFaultFamily(c *Ctx) {
	nscripts := c.N(26, 600)
	caseNo := 0
	for si := 0; si < nscripts; si++ {
		r := c.rng.Fork()
		class := "small"
		if c.Thorough() {
			class = []string{"small", "small", "small", "mixed", "boundary"}[r.Intn(5)]
		}
		if si < 3 {
			class = []string{"small", "boundary", "mixed"}[si]
		}
		heavy := class != "small"
		ops := c11GenOps(r, c, class, []int{0, 10, 60}[r.Intn(3)])
		ops = append(ops, c11Op{kind: c11KClose})
		var kinds []int
		var vals []c11Val
		var ends []int // end offset of every value in the stream
		off := 0
		for _, o := range ops {
			if v, ok := o.expect(); ok {
				kinds = append(kinds, o.recvCode())
				vals = append(vals, v)
				off += len(v.encode())
				ends = append(ends, off)
			}
		}
		if len(vals) == 0 {
			continue
		}
		// the stream, from a real fault-free sender
		sw := newC11Wire(nil, false)
		sconn := p2p.NewConn(&c11End{r: newC11Wire(nil, false), w: sw})
		sres := c11Send(sconn, ops, sw)
		if sres.err != nil {
			c.Fail("c11:rerr:sender", sres.err.Error(), c11FaultReplay{Seed: c.Seed, Case: caseNo, Script: c11OpsText(ops)})
			continue
		}
		stream := append([]byte(nil), sw.buf...)
		// failure points: inside and at the edges of values
		cand := map[int]bool{0: true, len(stream): true, len(stream) - 1: true}
		for i := 0; i < c.N(5, 14); i++ {
			vi := r.Intn(len(vals))
			start := 0
			if vi > 0 {
				start = ends[vi-1]
			}
			switch r.Intn(5) {
			case 0:
				cand[ends[vi]] = true
			case 1:
				cand[ends[vi]-1] = true
			case 2:
				cand[start+1] = true
			case 3:
				cand[start+r.Intn(ends[vi]-start+1)] = true
			case 4:
				if ends[vi]-start > 4 {
					cand[start+4] = true // just after a length prefix
				} else {
					cand[start+(ends[vi]-start)/2] = true
				}
			}
		}
		for p := range cand {
			if p < 0 || p > len(stream) {
				delete(cand, p)
			}
		}
		var ps []int
		for p := 0; p <= len(stream); p++ {
			if cand[p] {
				ps = append(ps, p)
			}
		}
		for heavy && len(ps) > c.N(3, 8) {
			j := r.Intn(len(ps))
			ps = append(ps[:j], ps[j+1:]...)
		}
		for _, p := range ps {
			segs, fclass := c11GenSegs(r, len(stream))
			eofData := r.Intn(2) == 0
			errclass := 1 + r.Intn(2)
			rw := newC11Wire(segs, eofData)
			rw.buf = append([]byte(nil), stream[:p]...)
			rw.total = p
			if errclass == 2 {
				rw.rerr = errC11Injected
			}
			sink := newC11Wire(nil, false)
			rconn := p2p.NewConn(&c11End{r: rw, w: sink})
			var rres c11RecvRes
			done := make(chan struct{})
			go func() { defer close(done); rres = c11Recv(rconn, kinds, rw, false) }()
			caseNo++
			rep := c11FaultReplay{Seed: c.Seed, Case: caseNo, Script: c11OpsText(ops),
				Fault: fmt.Sprintf("the transport fails after %d of %d bytes (error class %d, with its last bytes: %v, segments %v)", p, len(stream), errclass, eofData, segs)}
			select {
			case <-done:
			case <-time.After(60 * time.Second):
				rep.Detail = "receive did not return"
				c.Fail("c11:rerr:hang", rep.Detail, rep)
				continue
			}
			rconn.Close()
			fail := func(key, detail string) {
				rep.Detail = detail
				c.Fail(key, detail, rep)
			}
			// oracle: every value returned as a success is the value sent at that place; the values that
			// end at or before p are all received; the first one that does not returns the transport's error
			want := 0
			for want < len(ends) && ends[want] <= p {
				want++
			}
			for i, v := range rres.vals {
				if i < len(vals) && !v.equal(vals[i]) {
					fail("c11:rerr:partial-or-wrong-value-returned-as-success", fmt.Sprintf("receive %d returned %s, sent %s", i, v, vals[i]))
					break
				}
			}
			if len(rres.vals) != want {
				fail("c11:rerr:wrong-number-of-values", fmt.Sprintf("%d values received without error, %d values end within the first %d bytes", len(rres.vals), want, p))
			}
			if want < len(vals) {
				wantErr := io.EOF
				if errclass == 2 {
					wantErr = errC11Injected
				}
				if rres.err != wantErr {
					fail("c11:rerr:error-not-passed-on", fmt.Sprintf("receive %d returned %v, the transport's error is %v", want, rres.err, wantErr))
				}
			} else if rres.err != nil {
				fail("c11:rerr:error-although-complete", fmt.Sprintf("all values are complete, receive returned %v", rres.err))
			}
			if rres.statAt >= 0 {
				fail("c11:rerr:stats-recvd", fmt.Sprintf("after receive %d Stats.Recvd=%d, bytes served by the transport=%d", rres.statAt, rres.statRecvd, rres.statMoved))
			}
			c.Hist("rerr:frag:" + fclass)
			c.Hist(fmt.Sprintf("rerr:errclass:%d", errclass))
			if want < len(vals) {
				start := 0
				if want > 0 {
					start = ends[want-1]
				}
				if p > start {
					c.Hist("rerr:failure-inside-a-value")
				} else {
					c.Hist("rerr:failure-between-values")
				}
			} else {
				c.Hist("rerr:failure-after-the-last-value")
			}
			var opsSX, frags []SX
			for _, o := range ops {
				opsSX = append(opsSX, o.sx())
			}
			for _, sg := range segs {
				frags = append(frags, L(I(sg.count), I(sg.size)))
			}
			c.Case(L(I(5), L(opsSX...), c11RecvSX(kinds), L(frags...), Bool(eofData), Bool(false), I(p), I(errclass)),
				L(L(rres.trace...), I(rw.nreads)))
			c.Eval(fmt.Sprintf("5|%s|%d|%d|%v|%v", c11OpsText(ops), p, errclass, eofData, segs), len(vals) >= 2 && want < len(vals))
		}
	}
}
