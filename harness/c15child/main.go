// Command c15child is the ENVIRONMENT child of the C15 harness: a tiny main
// that the c15 runner builds for another build environment (GOARCH=386: the
// portable mul128Generic path with a 32-bit uint, the only mul128
// implementation besides the amd64 assembly) and runs natively.  It reads
// requests on stdin and answers on stdout:
//
//	M <a> <b>          -> M <genLo> <genHi> <lo> <hi> <refLo> <refHi>
//	                      (mul128Generic, mul128 as dispatched in THIS build, mul128Ref;
//	                       labels as hex in polynomial order D0 + 2^64*D1)
//	D <seed> <n>       -> H <n> <ok|error text>                      honest malicious-mode run
//	                      D <n> <delta> <batch> <col> <row> <accept|reject> <corr 1|0>   per single flip
//	                      (single flips in Delta-selected columns of every column quarter)
//	                      E                                             end of the answer
package main

import (
	"bufio"
	"errors"
	"fmt"
	"math/big"
	"os"
	"runtime"
	"strings"

	"github.com/markkurossi/mpc/ot"
)

type rng struct{ s uint64 }

func (r *rng) u64() uint64 {
	r.s += 0x9E3779B97F4A7C15
	z := r.s
	z = (z ^ (z >> 30)) * 0xBF58476D1CE4E5B9
	z = (z ^ (z >> 27)) * 0x94D049BB133111EB
	return z ^ (z >> 31)
}
func (r *rng) intn(n int) int { return int(r.u64() % uint64(n)) }
func (r *rng) Read(p []byte) (int, error) {
	for i := range p {
		p[i] = byte(r.u64())
	}
	return len(p), nil
}

func poly(l ot.Label) string {
	v := new(big.Int).SetUint64(l.D1)
	v.Lsh(v, 64)
	v.Or(v, new(big.Int).SetUint64(l.D0))
	return v.Text(16)
}

func fromPoly(s string) (ot.Label, error) {
	v, ok := new(big.Int).SetString(s, 16)
	if !ok {
		return ot.Label{}, fmt.Errorf("bad hex %q", s)
	}
	m := new(big.Int).SetUint64(^uint64(0))
	return ot.Label{D0: new(big.Int).And(v, m).Uint64(), D1: new(big.Int).And(new(big.Int).Rsh(v, 64), m).Uint64()}, nil
}

type msg struct {
	data    []byte
	label   ot.Label
	isLabel bool
}

var errIO = errors.New("c15child: unexpected I/O")

type rec struct{ msgs []msg }

func (r *rec) SendByte(byte) error  { return errIO }
func (r *rec) SendUint32(int) error { return errIO }
func (r *rec) SendData(v []byte) error {
	r.msgs = append(r.msgs, msg{data: append([]byte(nil), v...)})
	return nil
}
func (r *rec) SendLabel(v ot.Label, _ *ot.LabelData) error {
	r.msgs = append(r.msgs, msg{label: v, isLabel: true})
	return nil
}
func (r *rec) Flush() error                                { return nil }
func (r *rec) ReceiveByte() (byte, error)                  { return 0, errIO }
func (r *rec) ReceiveUint32() (int, error)                 { return 0, errIO }
func (r *rec) ReceiveData() ([]byte, error)                { return nil, errIO }
func (r *rec) ReceiveLabel(*ot.Label, *ot.LabelData) error { return errIO }

type play struct {
	msgs []msg
	pos  int
}

func (p *play) SendByte(byte) error                     { return errIO }
func (p *play) SendUint32(int) error                    { return errIO }
func (p *play) SendData([]byte) error                   { return errIO }
func (p *play) SendLabel(ot.Label, *ot.LabelData) error { return errIO }
func (p *play) Flush() error                            { return nil }
func (p *play) ReceiveByte() (byte, error)              { return 0, errIO }
func (p *play) ReceiveUint32() (int, error)             { return 0, errIO }
func (p *play) ReceiveData() ([]byte, error) {
	if p.pos >= len(p.msgs) || p.msgs[p.pos].isLabel {
		return nil, errIO
	}
	p.pos++
	return append([]byte(nil), p.msgs[p.pos-1].data...), nil
}
func (p *play) ReceiveLabel(v *ot.Label, _ *ot.LabelData) error {
	if p.pos >= len(p.msgs) || !p.msgs[p.pos].isLabel {
		return errIO
	}
	*v = p.msgs[p.pos].label
	p.pos++
	return nil
}

type base struct{ wires []ot.Wire }

func (b *base) InitSender(ot.IO) error   { return nil }
func (b *base) InitReceiver(ot.IO) error { return nil }
func (b *base) Send(w []ot.Wire) error   { b.wires = append([]ot.Wire(nil), w...); return nil }
func (b *base) Receive(flags []bool, result []ot.Label) error {
	for i, f := range flags {
		if f {
			result[i] = b.wires[i].L1
		} else {
			result[i] = b.wires[i].L0
		}
	}
	return nil
}

func deviations(out *bufio.Writer, seed uint64, n int) {
	r := &rng{s: seed}
	bs := &base{}
	rc := &rec{}
	rcv, err := ot.NewIKNPReceiver(bs, rc, r)
	if err != nil {
		fmt.Fprintf(out, "H %d setup:%s\n", n, strings.ReplaceAll(err.Error(), " ", "_"))
		return
	}
	b := make([]bool, n)
	for i := range b {
		b[i] = r.u64()&1 == 1
	}
	rcvd := make([]ot.Label, n)
	if err := rcv.Receive(b, rcvd, true); err != nil {
		fmt.Fprintf(out, "H %d receive:%s\n", n, strings.ReplaceAll(err.Error(), " ", "_"))
		return
	}
	delta := ot.Label{D0: r.u64(), D1: r.u64()}
	for _, k := range []int{5, 40, 70, 100} { // at least one selected column in every quarter
		delta.SetBit(k, 1)
	}
	send := func(msgs []msg) ([]ot.Label, error) {
		d := delta
		s, err := ot.NewIKNPSender(bs, &play{msgs: msgs}, r, &d)
		if err != nil {
			return nil, err
		}
		return s.Send(n, true)
	}
	corr := func(sent []ot.Label) bool {
		if len(sent) != n {
			return false
		}
		for i, q := range sent {
			if b[i] {
				q.Xor(delta)
			}
			if !q.Equal(rcvd[i]) {
				return false
			}
		}
		return true
	}
	sent, err := send(rc.msgs)
	switch {
	case err != nil:
		fmt.Fprintf(out, "H %d error:%s\n", n, strings.ReplaceAll(err.Error(), " ", "_"))
		return
	case !corr(sent):
		fmt.Fprintf(out, "H %d correlation-broken\n", n)
		return
	}
	fmt.Fprintf(out, "H %d ok\n", n)
	nPay := (n + 511) / 512
	flip := func(batch, col, row int) {
		msgs := append([]msg(nil), rc.msgs...)
		mi, rr := row/512, row%512
		if batch == 1 {
			mi, rr = nPay, row
		}
		msgs[mi].data = append([]byte(nil), msgs[mi].data...)
		w := len(msgs[mi].data) / ot.K
		msgs[mi].data[col*w+rr/8] ^= 1 << uint(rr%8)
		sent, err := send(msgs)
		outcome, c := "reject", 0
		if err == nil {
			outcome = "accept"
			if corr(sent) {
				c = 1
			}
		}
		fmt.Fprintf(out, "D %d %s %d %d %d %s %d\n", n, poly(delta), batch, col, row, outcome, c)
	}
	for q := 0; q < 4; q++ {
		var cols []int
		for j := 32 * q; j < 32*q+32; j++ {
			if delta.Bit(j) == 1 {
				cols = append(cols, j)
			}
		}
		pick := []int{cols[0], cols[len(cols)-1], cols[r.intn(len(cols))], cols[r.intn(len(cols))]}
		for _, col := range pick {
			for _, row := range []int{0, n - 1, r.intn(n)} {
				flip(0, col, row)
			}
			flip(1, col, r.intn(256))
		}
	}
}

func main() {
	in := bufio.NewScanner(os.Stdin)
	in.Buffer(make([]byte, 1<<20), 1<<20)
	out := bufio.NewWriter(os.Stdout)
	defer out.Flush()
	fmt.Fprintf(out, "ENV %s %s uintbits=%d\n", runtime.GOARCH, runtime.Compiler, 32<<(^uint(0)>>63))
	for in.Scan() {
		f := strings.Fields(in.Text())
		if len(f) == 0 {
			continue
		}
		switch f[0] {
		case "M":
			a, e1 := fromPoly(f[1])
			b, e2 := fromPoly(f[2])
			if e1 != nil || e2 != nil {
				fmt.Fprintf(out, "X bad-request\n")
				continue
			}
			glo, ghi := ot.VerifC15Mul128Generic(a, b)
			lo, hi := ot.VerifC15Mul128(a, b)
			rlo, rhi := ot.VerifC15Mul128Ref(a, b)
			fmt.Fprintf(out, "M %s %s %s %s %s %s\n", poly(glo), poly(ghi), poly(lo), poly(hi), poly(rlo), poly(rhi))
		case "D":
			var seed uint64
			var n int
			fmt.Sscan(f[1], &seed)
			fmt.Sscan(f[2], &n)
			if n < 1 {
				n = 1
			}
			deviations(out, seed, n)
			fmt.Fprintf(out, "E\n")
		}
	}
}
