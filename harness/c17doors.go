package main

// C17 door sweep: less-travelled ways to a shared circuit value (see the table
// "Doors" in notes/C17-findings.md).  Everything here runs in the -race child.
//
//   readers       the other methods of *Circuit (String, Cost, NumParties, TabulateStats,
//                 Marshal, MarshalBristol, MarshalFormat, Dot, Dump, Analyze, PrintInputs,
//                 Stats.*) called in loops WHILE other goroutines garble / evaluate / compute /
//                 release on the same value; afterwards the circuit must be unchanged
//   mutators      AssignLevels / Svg (documented to write Gate.Level and Stats) run BETWEEN
//                 uses while a garbling is live: the garbling stays valid, later calls are right
//   value copies  cp := *circ taken before the first Garble and after it (the copy then carries
//                 the same scratch-pool pointer); original and copies used at the same time
//   compiled      circuits that come out of the MPCL compiler (struct-typed and array
//                 arguments), also through circuit.Garbler / circuit.Evaluator
//   streaming     circuit.Streaming.Garble of several streams on one shared circuit value
//   error paths   Garble with a key of an invalid length (error site 1), Eval with such a key,
//                 Compute with the wrong number of arguments, mixed into the concurrent use
//   environment   GOMAXPROCS 1 / 2 / 2 x NumCPU, GC pressure (GC percent 1)

import (
	"bytes"
	"fmt"
	"io"
	"math/big"
	"path/filepath"
	"runtime"
	"runtime/debug"
	"strings"
	"sync"
	"sync/atomic"
	"time"

	"github.com/markkurossi/mpc/circuit"
	"github.com/markkurossi/mpc/compiler"
	"github.com/markkurossi/mpc/compiler/utils"
	"github.com/markkurossi/mpc/env"
	"github.com/markkurossi/mpc/ot"
	"github.com/markkurossi/mpc/p2p"
)

// c17SetEnv switches the scheduler / collector configuration; the returned function restores it.
func c17SetEnv(c *Ctx, mode int) (string, func()) {
	oldP, oldGC := -1, -2
	name := "default"
	switch mode % 5 {
	case 1:
		oldP, name = runtime.GOMAXPROCS(1), "GOMAXPROCS=1"
	case 2:
		oldP, name = runtime.GOMAXPROCS(2), "GOMAXPROCS=2"
	case 3:
		oldGC, name = debug.SetGCPercent(1), "GOGC=1"
	case 4:
		oldP, oldGC, name = runtime.GOMAXPROCS(2*runtime.NumCPU()), debug.SetGCPercent(1), "GOMAXPROCS=2xNumCPU,GOGC=1"
	}
	c.Hist("env:" + name)
	return name, func() {
		if oldP > 0 {
			runtime.GOMAXPROCS(oldP)
		}
		if oldGC != -2 {
			debug.SetGCPercent(oldGC)
		}
	}
}

// ---- the circuit must not change under its readers

type c17Snap struct {
	numGates, numWires int
	gates              []circuit.Gate
	inputs, outputs    string
	stats              circuit.Stats
}

func c17Snapshot(c *circuit.Circuit) c17Snap {
	return c17Snap{c.NumGates, c.NumWires, append([]circuit.Gate(nil), c.Gates...),
		fmt.Sprintf("%#v", c.Inputs), fmt.Sprintf("%#v", c.Outputs), c.Stats}
}

func (s c17Snap) diff(c *circuit.Circuit) string {
	switch {
	case s.numGates != c.NumGates || s.numWires != c.NumWires:
		return "NumGates/NumWires changed"
	case len(s.gates) != len(c.Gates):
		return "len(Gates) changed"
	case s.inputs != fmt.Sprintf("%#v", c.Inputs):
		return "Inputs changed"
	case s.outputs != fmt.Sprintf("%#v", c.Outputs):
		return "Outputs changed"
	case s.stats != c.Stats:
		return "Stats changed"
	}
	for i := range s.gates {
		if s.gates[i] != c.Gates[i] {
			return fmt.Sprintf("Gates[%d] changed from %v to %v", i, s.gates[i], c.Gates[i])
		}
	}
	return ""
}

// ---- live scratch objects (an address identifies a scratch only while a live handle holds it:
// entries are removed BEFORE the handle is released)

type c17Live struct {
	mu   sync.Mutex
	live map[uintptr]string
}

func (l *c17Live) take(g *circuit.Garbled, who string) string {
	id := g.VerifScratchID()
	l.mu.Lock()
	defer l.mu.Unlock()
	if prev, busy := l.live[id]; busy {
		return fmt.Sprintf("scratch handed to %s while the unreleased handle of %s owns it", who, prev)
	}
	l.live[id] = who
	return ""
}

func (l *c17Live) drop(g *circuit.Garbled) {
	id := g.VerifScratchID()
	l.mu.Lock()
	delete(l.live, id)
	l.mu.Unlock()
}

// c17DoorCycle: one Garble -> (error-path calls) -> Eval -> Compute -> Release on [use], which is
// the shared value or a copy of it; the garbling must be the one the same call gives alone on a
// fresh field copy of [ref], the results the truth table's.
func c17DoorCycle(use, ref *circuit.Circuit, key []byte, seed uint64, x []bool, lv *c17Live, who string, errPaths bool) (bad string) {
	defer func() {
		if p := recover(); p != nil {
			bad = fmt.Sprintf("panic: %v", p)
		}
	}()
	if errPaths {
		// error site 1 of Garble (aes.NewCipher), Eval with the same bad key, Compute with one
		// argument too many: explicit errors, nothing else
		if g, err := use.Garble(NewRNG(seed^0x5555), key[:len(key)-1]); err == nil || g != nil {
			return "Garble with a key of invalid length returned no error"
		}
		if err := use.Eval(key[:len(key)-1], make([]ot.Label, use.NumWires), make([][]ot.Label, use.NumGates)); err == nil {
			return "Eval with a key of invalid length returned no error"
		}
		if _, err := use.Compute(append(SplitInputs(use, x), big.NewInt(0))); err == nil {
			return "Compute with one argument too many returned no error"
		}
	}
	g, err := use.Garble(NewRNG(seed), key)
	if err != nil {
		return "Garble: " + err.Error()
	}
	if b := lv.take(g, who); b != "" {
		return b
	}
	solo := freshCopy(ref)
	g2, err := solo.Garble(NewRNG(seed), key)
	if err != nil {
		return "solo Garble: " + err.Error()
	}
	if g2.R != g.R || !sameWires(g2.Wires, g.Wires) || !sameGates(g2.Gates, g.Gates) {
		bad = "Garble returned another garbling than the same call alone"
	}
	want := TruthEval(ref, x)
	_, dec, err := evalOn(use, key, g.Wires, g.Gates, x)
	if err != nil {
		return "Eval: " + err.Error()
	}
	comp, err := use.Compute(SplitInputs(use, x))
	if err != nil {
		return "Compute: " + err.Error()
	}
	if bitsString(decBits(dec)) != bitsString(want) || bitsString(JoinOutputs(use, comp)) != bitsString(want) {
		bad = fmt.Sprintf("decoded %s, Compute %s, expected %s", bitsString(decBits(dec)), bitsString(JoinOutputs(use, comp)), bitsString(want))
	}
	// valid until released: still the solo garbling after the evaluation
	if !sameWires(g2.Wires, g.Wires) || !sameGates(g2.Gates, g.Gates) {
		bad = "the unreleased garbling changed"
	}
	lv.drop(g)
	g.Release()
	g.Release()
	return bad
}

// c17Readers calls every read-only helper of *Circuit once and compares what has a value with
// the reference taken while nothing else ran.
type c17Ref struct {
	str            string
	cost           uint64
	parties        int
	mpclc, bristol []byte
	tab, dot       string
}

func c17ReadAll(c *circuit.Circuit, small bool) (r c17Ref, err error) {
	defer func() {
		if p := recover(); p != nil {
			err = fmt.Errorf("panic: %v", p)
		}
	}()
	r.str = c.String() + "|" + c.Stats.String() + fmt.Sprint("|", c.Stats.Count(), c.Stats.NumXOR(), c.Stats.NumNonXOR(), c.Stats.Cost())
	r.cost = c.Cost()
	r.parties = c.NumParties()
	var b bytes.Buffer
	if err = c.Marshal(&b); err != nil {
		return
	}
	r.mpclc = append([]byte(nil), b.Bytes()...)
	b.Reset()
	if err = c.MarshalFormat(&b, "bristol"); err != nil {
		return
	}
	r.bristol = append([]byte(nil), b.Bytes()...)
	b.Reset()
	if err = c.MarshalBristol(&b); err != nil {
		return
	}
	if !bytes.Equal(b.Bytes(), r.bristol) {
		err = fmt.Errorf("MarshalBristol and MarshalFormat(bristol) differ")
		return
	}
	b.Reset()
	c.TabulateStats(&b)
	r.tab = b.String()
	if small {
		b.Reset()
		c.Dot(&b)
		r.dot = b.String()
		c.Dump()                          // standard output of the child is discarded
		c.Analyze()                       //
		c.PrintInputs(0, []string{"0x0"}) //
	}
	return
}

func (a c17Ref) diff(b c17Ref) string {
	switch {
	case a.str != b.str:
		return "String()/Stats differ: " + a.str + " vs " + b.str
	case a.cost != b.cost || a.parties != b.parties:
		return "Cost()/NumParties() differ"
	case !bytes.Equal(a.mpclc, b.mpclc):
		return "Marshal output differs"
	case !bytes.Equal(a.bristol, b.bristol):
		return "MarshalBristol output differs"
	case a.tab != b.tab:
		return "TabulateStats output differs"
	case a.dot != b.dot:
		return "Dot output differs"
	}
	return ""
}

// ---- compiled circuits

var c17Programs = []string{
	`package main
type Garbler struct {
	a uint8
	flags [3]bool
}
func main(g Garbler, e uint8) (uint8, bool) {
	r := g.a + e
	if g.flags[1] {
		r = r ^ 0x5a
	}
	return r, g.flags[0] && g.flags[2] || e > g.a
}
`,
	`package main
func main(a [4]uint4, b uint4) uint4 {
	var s uint4
	for i := 0; i < len(a); i++ {
		s = s + a[i] * b
	}
	return s
}
`,
	`package main
type P struct {
	x int6
	y int6
}
func main(g P, e P) (int6, int6) {
	if g.x > e.x {
		return g.x - e.y, e.x
	}
	return e.y | g.y, g.x & e.x
}
`,
}

func c17Compile(src string, target utils.Target) (circ *circuit.Circuit, err error) {
	defer func() {
		if p := recover(); p != nil {
			err = fmt.Errorf("panic: %v", p)
		}
	}()
	params := utils.NewParams()
	params.Target = target
	params.Warn.DisableAll()
	params.PkgPath = []string{filepath.Join(repoRoot(), "pkg")}
	defer params.Close()
	circ, _, err = compiler.New(params).Compile(src, nil)
	return
}

// ---- streaming garbler over a byte sink

type c17Sink struct {
	mu sync.Mutex
	b  bytes.Buffer
}

func (s *c17Sink) Write(p []byte) (int, error) {
	s.mu.Lock()
	defer s.mu.Unlock()
	return s.b.Write(p)
}
func (s *c17Sink) Read(p []byte) (int, error) { return 0, io.EOF }

func c17StreamGarble(circ *circuit.Circuit, key []byte, seed uint64) (out []byte, err error) {
	defer func() {
		if p := recover(); p != nil {
			err = fmt.Errorf("panic: %v", p)
		}
	}()
	ni, no := circ.Inputs.Size(), circ.Outputs.Size()
	in := make([]circuit.Wire, ni)
	for i := range in {
		in[i] = circuit.Wire(i)
	}
	outw := make([]circuit.Wire, no)
	for i := range outw {
		outw[i] = circuit.Wire(ni + i)
	}
	sink := new(c17Sink)
	conn := p2p.NewConn(sink)
	st, err := circuit.NewStreaming(&env.Config{Rand: NewRNG(seed)}, key, in, conn)
	if err != nil {
		return nil, err
	}
	for rep := 0; rep < 2; rep++ { // the same circuit twice in one stream, as the streamer does for cached circuits
		if err = streamingGarble(st, rep, circ, in, outw); err != nil {
			return nil, err
		}
	}
	if err = conn.Close(); err != nil {
		return nil, err
	}
	sink.mu.Lock()
	defer sink.mu.Unlock()
	return append([]byte(nil), sink.b.Bytes()...), nil
}

// ---- the sweep

func c17Doors(c *Ctx) error {
	r := c.rng.Fork()
	t0 := time.Now()
	var compiled []*circuit.Circuit
	for i, src := range c17Programs {
		tgt := utils.TargetYao
		if i == 1 {
			tgt = utils.TargetGMW // only the level assignment differs
		}
		pc, err := c17Compile(src, tgt)
		if err != nil {
			return fmt.Errorf("c17Doors: program %d: %v", i, err)
		}
		compiled = append(compiled, pc)
	}
	trials := c.N(12, 80)
	for tr := 0; tr < trials; tr++ {
		var circ *circuit.Circuit
		source := "literal"
		switch {
		case tr%3 == 2:
			circ = freshCopy(compiled[(tr/3)%len(compiled)]) // a never-garbled value of the compiled circuit
			source = fmt.Sprintf("compiled-%d", (tr/3)%len(compiled))
			if tr%2 == 0 {
				circ = compiled[(tr/3)%len(compiled)] // the compiler's own value, reused over the trials
				source += "-same-value"
			}
		case tr%3 == 1:
			circ = GenCircuit(r, GenOpts{MinIn: 2, MaxIn: 8, MinGates: 100, MaxGates: 400, MaxOut: 6, Overwrite: true})
		default:
			circ = GenCircuit(r, GenOpts{MinIn: 1, MaxIn: 6, MinGates: 1, MaxGates: 40, MaxOut: 4, Overwrite: true})
		}
		ni := circ.Inputs.Size()
		key := r.Bytes([]int{16, 24, 32}[tr%3])
		envName, restore := c17SetEnv(c, tr)
		rep := map[string]interface{}{"seed": c.Seed, "trial": tr, "source": source, "gates": len(circ.Gates), "key": fmt.Sprintf("%x", key)}
		if len(circ.Gates) <= 60 {
			rep["circuit"] = circuitText(circ)
		}
		small := len(circ.Gates) <= 120
		failD := func(door, what string) {
			c.Fail("c17:door:"+door, fmt.Sprintf("%s circuit, %d gates: %s", source, len(circ.Gates), what), rep)
		}

		// value copies: one before the first Garble, one after it (while that garbling is live)
		var cpBefore, cpAfter circuit.Circuit
		cpBefore = *circ
		seed0, x0 := r.U64(), randBits(r, ni)
		g0, err := circ.Garble(NewRNG(seed0), key)
		if err != nil {
			restore()
			return fmt.Errorf("c17Doors: Garble: %v", err)
		}
		w0, t0s := copyWires(g0.Wires), copyGates(g0.Gates)
		// two more garblings, released again: the copy is taken while the pool holds free scratch
		var warm []*circuit.Garbled
		for k := 0; k < 2; k++ {
			if gw, err := circ.Garble(NewRNG(seed0+uint64(k)+1), key); err == nil {
				warm = append(warm, gw)
			}
		}
		for _, gw := range warm {
			gw.Release()
		}
		cpAfter = *circ
		// documented mutators between uses, while g0 is live
		if tr%2 == 1 {
			// (Svg, which calls AssignLevels(TargetYao) itself, is left out: it indexes its
			// per-level table by the number of level CHANGES along Gates and panics on circuits
			// whose gates are not sorted by level — a rendering matter, not C17's)
			circ.AssignLevels(utils.TargetGMW)
			circ.AssignLevels(utils.TargetYao)
			c.Hist("doors:mutators-between-uses")
		}
		snap := c17Snapshot(circ)
		uses := []*circuit.Circuit{circ, circ, &cpBefore, &cpAfter}
		// per value: a copy taken before AssignLevels keeps the Stats array it had
		refs := make([]c17Ref, len(uses))
		for u := range uses {
			var rerr error
			if refs[u], rerr = c17ReadAll(uses[u], small); rerr != nil {
				failD("readers:error", "sequential reference: "+rerr.Error())
			}
		}
		useNames := []string{"shared", "shared", "copy-before-first-garble", "copy-after-first-garble"}

		lv := &c17Live{live: map[uintptr]string{}}
		lv.take(g0, "g0")
		W := r.Range(4, 8)
		cycles := 5
		type job struct {
			seed uint64
			x    []bool
		}
		jobs := make([][]job, W)
		for w := range jobs {
			for k := 0; k < cycles; k++ {
				jobs[w] = append(jobs[w], job{r.U64(), randBits(r, ni)})
			}
		}
		nStream := 3
		sseeds := []uint64{r.U64(), r.U64(), r.U64()}
		bads := make([]string, W)
		sOut := make([][]byte, nStream)
		sErr := make([]error, nStream)
		var rBad atomic.Value
		var done atomic.Bool
		var readerCalls atomic.Int64
		start := make(chan struct{})
		var wg, rg sync.WaitGroup
		for w := 0; w < W; w++ {
			wg.Add(1)
			go func(w int) {
				defer wg.Done()
				<-start
				for k, j := range jobs[w] {
					u := (w + k) % len(uses)
					if b := c17DoorCycle(uses[u], circ, key, j.seed, j.x, lv, fmt.Sprintf("worker %d cycle %d (%s)", w, k, useNames[u]), k%3 == 1); b != "" && bads[w] == "" {
						bads[w] = fmt.Sprintf("cycle %d on the %s value: %s", k, useNames[u], b)
					}
				}
			}(w)
		}
		for s := 0; s < nStream; s++ {
			wg.Add(1)
			go func(s int) {
				defer wg.Done()
				<-start
				sOut[s], sErr[s] = c17StreamGarble(uses[s%len(uses)], key, sseeds[s])
			}(s)
		}
		for h := 0; h < 2; h++ {
			rg.Add(1)
			go func(h int) {
				defer rg.Done()
				<-start
				for it := 0; it < 400 && (it < 2 || !done.Load()); it++ {
					ref := refs[(h+it)%len(uses)]
					got, err := c17ReadAll(uses[(h+it)%len(uses)], small && it%8 == 0)
					readerCalls.Add(1)
					if err != nil {
						rBad.CompareAndSwap(nil, "reader: "+err.Error())
						return
					}
					if !(small && it%8 == 0) {
						got.dot = ref.dot
					}
					if d := ref.diff(got); d != "" {
						rBad.CompareAndSwap(nil, d)
						return
					}
				}
			}(h)
		}
		close(start)
		wg.Wait()
		done.Store(true)
		rg.Wait()
		restore()

		for w, b := range bads {
			c.Eval(fmt.Sprintf("doors/%d/worker/%d", tr, w), true)
			if b != "" {
				key := "c17:door:shared-with-readers-copies-streams:wrong-or-panic"
				if strings.Contains(b, "scratch handed to") {
					key = "c17:door:scratch-shared-by-two-live-handles"
				}
				c.Fail(key, fmt.Sprintf("%s circuit, %d gates, %d workers + 2 reader goroutines + %d streams (%s): worker %d: %s",
					source, len(circ.Gates), W, nStream, envName, w, b), rep)
			}
		}
		if v := rBad.Load(); v != nil {
			failD("readers:output-differs-under-concurrent-use", v.(string))
		}
		if d := snap.diff(circ); d != "" {
			failD("circuit-modified", "after concurrent Garble/Eval/Compute/Release, readers and streams the shared circuit differs from its snapshot: "+d)
		}
		if d := c17Snapshot(&cpAfter).diff(&cpBefore); d != "" {
			failD("circuit-modified", "the two value copies differ: "+d)
		}
		// streams against the same streams alone
		for s := 0; s < nStream; s++ {
			c.Eval(fmt.Sprintf("doors/%d/stream/%d", tr, s), true)
			solo, serr := c17StreamGarble(freshCopy(circ), key, sseeds[s])
			switch {
			case sErr[s] != nil:
				failD("streaming:error", fmt.Sprintf("Streaming.Garble on the %s value: %v", useNames[s%len(uses)], sErr[s]))
			case serr != nil:
				failD("streaming:error", "solo Streaming.Garble: "+serr.Error())
			case !bytes.Equal(solo, sOut[s]):
				failD("streaming:differs-from-solo", fmt.Sprintf("Streaming.Garble on the %s value wrote other bytes than the same stream alone", useNames[s%len(uses)]))
			}
		}
		// the garbling that was live all the time
		c.Eval(fmt.Sprintf("doors/%d/live-garbling", tr), true)
		if !sameWires(g0.Wires, w0) || !sameGates(g0.Gates, t0s) {
			failD("garbling-changed-before-release", "the garbling that stayed unreleased during the trial changed")
		}
		if _, dec, err := evalOn(circ, key, g0.Wires, g0.Gates, x0); err != nil || bitsString(decBits(dec)) != bitsString(TruthEval(circ, x0)) {
			failD("garbling-changed-before-release", fmt.Sprintf("the garbling that stayed unreleased during the trial evaluates wrongly (err %v)", err))
		}
		lv.drop(g0)
		g0.Release()
		c.Hist("doors:source:" + strings.TrimSuffix(source, "-same-value"))
		c.Hist(fmt.Sprintf("doors:reader-rounds>=10:%v", readerCalls.Load() >= 10))
	}

	// compiled circuits through circuit.Garbler / circuit.Evaluator: several sessions on one value
	for i, pc := range compiled {
		if i >= c.N(2, 3) {
			break
		}
		n0, n1 := int(pc.Inputs[0].Type.Bits), int(pc.Inputs[1].Type.Bits)
		S := 3
		type ps struct {
			x, y []bool
			res  *sessionResult
			rng  *RNG
		}
		sess := make([]*ps, S)
		for k := range sess {
			sess[k] = &ps{x: randBits(r, n0), y: randBits(r, n1), rng: r.Fork()}
		}
		var wg sync.WaitGroup
		for _, s := range sess {
			wg.Add(1)
			go func(s *ps) {
				defer wg.Done()
				kind := otKinds[0]
				s.res = runSession(pc, bitsToBig(s.x), bitsToBig(s.y), s.rng.Fork(), kind.mk(s.rng.Fork()), kind.mk(s.rng.Fork()),
					0, s.rng.Fork(), nil, 60*time.Second)
			}(s)
		}
		wg.Wait()
		for k, s := range sess {
			c.Eval(fmt.Sprintf("doors/compiled-sessions/%d/%d", i, k), true)
			xy := append(append([]bool(nil), s.x...), s.y...)
			want := JoinBig(pc, TruthEval(pc, xy))
			bad := ""
			switch {
			case s.res.stalled:
				bad = "session stalled"
			case s.res.gErr != nil:
				bad = "garbler error: " + s.res.gErr.Error()
			case s.res.eErr != nil:
				bad = "evaluator error: " + s.res.eErr.Error()
			case bigsString(s.res.gRes) != bigsString(want) || bigsString(s.res.eRes) != bigsString(want):
				bad = "result differs from plain evaluation"
			}
			if bad != "" {
				c.Fail("c17:door:compiled:garbler-evaluator-sessions:wrong-or-error",
					fmt.Sprintf("%d circuit.Garbler/Evaluator sessions sharing the compiled circuit of program %d: session %d: %s", S, i, k, bad),
					map[string]interface{}{"seed": c.Seed, "program": c17Programs[i], "x": bitsString(s.x), "y": bitsString(s.y)})
			}
		}
		c.Hist("doors:compiled-sessions")
	}
	c.Note("door sweep: %d trials in %v", trials, time.Since(t0).Round(100*time.Millisecond))
	return nil
}
