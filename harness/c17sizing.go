package main

// C17, sizing of the pooled garbling scratch (model: coq/theories/Circuit/Scratch.v).
// For random circuits the REAL scratch of a garbling is observed — len(Garbled.Wires), len of the
// slab (unexported field, read with reflect), len(Garbled.Gates), the slice header of every
// Gates[i] as (offset in the slab, len, cap), the slab content and the rows read through
// Gates[i] — and emitted as a correspondence case of kind 2; the model allocates the scratch
// with its own New, garbles with the same key and random blocks and carves the slab.
// Every second trial releases the garbling and garbles again with another random source
// (the pool hands the same object out again, or a new one: observed by identity).
// Independently of the model the sizing property itself is evaluated on the observation.

import (
	"fmt"
	"reflect"
	"runtime"
	"unsafe"

	"github.com/markkurossi/mpc/circuit"
	"github.com/markkurossi/mpc/ot"
)

type c17ScratchObs struct {
	nWires, nSlab, nGates, off int
	hdrs                       [][3]int // off, len, cap; off = -1: nil
	slab                       []ot.Label
	rows                       [][]ot.Label
	keep                       reflect.Value
}

func c17ObserveScratch(g *circuit.Garbled) (o c17ScratchObs, bad string) {
	defer func() {
		if p := recover(); p != nil {
			bad = fmt.Sprintf("cannot observe the scratch: %v", p)
		}
	}()
	scr := reflect.ValueOf(g).Elem().FieldByName("scratch")
	o.keep = scr
	slabV := scr.Elem().FieldByName("slab")
	o.nWires, o.nSlab, o.nGates = len(g.Wires), slabV.Len(), len(g.Gates)
	var base uintptr
	if o.nSlab > 0 {
		p := slabV.UnsafePointer()
		base = uintptr(p)
		o.slab = append([]ot.Label(nil), unsafe.Slice((*ot.Label)(p), o.nSlab)...)
	}
	sz := unsafe.Sizeof(ot.Label{})
	for i, row := range g.Gates {
		if row == nil {
			o.hdrs = append(o.hdrs, [3]int{-1, 0, 0})
			o.rows = append(o.rows, nil)
			continue
		}
		if len(row) == 0 {
			return o, fmt.Sprintf("Gates[%d] is an empty non-nil slice", i)
		}
		p := uintptr(unsafe.Pointer(&row[0]))
		if base == 0 || p < base || (p-base)%sz != 0 {
			return o, fmt.Sprintf("Gates[%d] does not point into the slab", i)
		}
		off := int((p - base) / sz)
		o.hdrs = append(o.hdrs, [3]int{off, len(row), cap(row)})
		o.rows = append(o.rows, append([]ot.Label(nil), row...))
		if off+len(row) > o.off {
			o.off = off + len(row)
		}
	}
	return o, ""
}

func (o c17ScratchObs) sx() SX {
	hs := make([]SX, len(o.hdrs))
	for i, h := range o.hdrs {
		if h[0] < 0 {
			hs[i] = L()
		} else {
			hs[i] = L(I(h[0]), I(h[1]), I(h[2]))
		}
	}
	return L(I(0), I(o.nWires), I(o.nSlab), I(o.nGates), I(o.off), L(hs...), Labels(o.slab), tablesSX(o.rows))
}

// c17RowsOf: the harness's own table of transmitted rows per gate kind (half gates: AND 2;
// row reduction: OR 3, INV 1; free XOR: 0).
func c17RowsOf(op circuit.Operation) int {
	switch op {
	case circuit.AND:
		return 2
	case circuit.OR:
		return 3
	case circuit.INV:
		return 1
	}
	return 0
}

// c17CheckSizing evaluates the sizing property on an observation; returns (key suffix, text) or "".
func c17CheckSizing(circ *circuit.Circuit, o c17ScratchObs) (string, string) {
	if o.nWires != circ.NumWires {
		return "wires-len", fmt.Sprintf("len(Wires) = %d, NumWires = %d", o.nWires, circ.NumWires)
	}
	if o.nGates != len(circ.Gates) {
		return "gates-len", fmt.Sprintf("len(Gates) = %d, %d gates", o.nGates, len(circ.Gates))
	}
	want := 0
	for i, g := range circ.Gates {
		n := c17RowsOf(g.Op)
		h := o.hdrs[i]
		if n == 0 {
			if h[0] >= 0 {
				return "headers", fmt.Sprintf("gate %d (%s) has a table", i, g.Op)
			}
			continue
		}
		if h[0] != want || h[1] != n || h[2] != n {
			return "headers", fmt.Sprintf("gate %d (%s): header (off %d, len %d, cap %d), expected (off %d, len %d, cap %d): rows overlap, leave the slab or can be appended into the next gate's rows",
				i, g.Op, h[0], h[1], h[2], want, n, n)
		}
		want += n
	}
	if o.nSlab != want {
		return "slab-len", fmt.Sprintf("len(slab) = %d, the circuit's gates need %d rows", o.nSlab, want)
	}
	return "", ""
}

func c17Sizing(c *Ctx) {
	r := c.rng.Fork()
	for tr := 0; tr < c.N(48, 600); tr++ {
		var circ *circuit.Circuit
		switch {
		case tr%8 == 5: // free-XOR only: slab of length 0, every header nil
			circ = c17ChainOps(r, r.Range(2, 4), r.Range(1, 12), []circuit.Operation{circuit.XOR, circuit.XNOR})
		case tr%8 == 7: // one kind of gate with rows
			op := []circuit.Operation{circuit.AND, circuit.OR}[r.Intn(2)]
			circ = c17ChainOps(r, r.Range(2, 4), r.Range(1, 12), []circuit.Operation{op})
		default:
			circ = GenCircuit(r, GenOpts{MinIn: 1, MaxIn: 5, MinGates: 1, MaxGates: 24, MaxOut: 4, Overwrite: true})
		}
		key := r.Bytes([]int{16, 24, 32}[tr%3])
		solo := freshCopy(circ)
		dims, gs := CircuitSX(circ)
		rep := map[string]interface{}{"seed": c.Seed, "trial": tr, "circuit": circuitText(circ), "key": fmt.Sprintf("%x", key)}
		fail := func(suffix, what string) {
			c.Fail("c17:scratch-sizing:"+suffix, what, rep)
		}
		garble := func(seed uint64) (*circuit.Garbled, []ot.Label, c17ScratchObs, bool) {
			rd := &blockLog{r: NewRNG(seed)}
			var g *circuit.Garbled
			var err error
			func() {
				defer func() {
					if p := recover(); p != nil {
						err = fmt.Errorf("panic: %v", p)
					}
				}()
				g, err = solo.Garble(rd, key)
			}()
			if err != nil {
				fail("garble-failed", err.Error())
				return nil, nil, c17ScratchObs{}, false
			}
			o, bad := c17ObserveScratch(g)
			if bad != "" {
				fail("observe", bad)
				return nil, nil, o, false
			}
			if k, what := c17CheckSizing(circ, o); k != "" {
				fail(k, what)
			}
			return g, rd.blocks, o, true
		}
		c.Eval(fmt.Sprintf("sizing/%d", tr), true)
		g1, b1, o1, ok := garble(r.U64())
		if !ok {
			continue
		}
		if o1.nSlab == 0 {
			c.Hist("sizing:slab-0")
		}
		if tr%2 == 0 {
			c.Case(L(I(2), Bytes(key), dims, gs, I(circ.NumGates), Labels(b1), L(), I(0)), o1.sx())
			c.Hist("sizing:one-garbling")
			g1.Release()
			continue
		}
		id1 := g1.VerifScratchID()
		g1.Release()
		g2, b2, o2, ok := garble(r.U64())
		if !ok {
			continue
		}
		reuse := 0
		if g2.VerifScratchID() == id1 {
			reuse = 1
			c.Hist("sizing:second-garbling-same-scratch")
		} else {
			c.Hist("sizing:second-garbling-new-scratch")
		}
		if o2.nWires != o1.nWires || o2.nSlab != o1.nSlab || o2.nGates != o1.nGates || fmt.Sprint(o2.hdrs) != fmt.Sprint(o1.hdrs) {
			fail("differs-between-garblings", fmt.Sprintf("two garblings of one circuit: buffers %d/%d/%d headers %v, then %d/%d/%d headers %v",
				o1.nWires, o1.nSlab, o1.nGates, o1.hdrs, o2.nWires, o2.nSlab, o2.nGates, o2.hdrs))
		}
		c.Case(L(I(2), Bytes(key), dims, gs, I(circ.NumGates), Labels(b1), Labels(b2), I(reuse)), o2.sx())
		runtime.KeepAlive(o1.keep)
		g2.Release()
	}
}
