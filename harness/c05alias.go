package main

// Directed program family for Program.GC's alias-liveness walk: two arrays
// are concatenated (a two-input alias instruction), a slice of the
// concatenation stays live and is returned while the concatenation itself is
// dead, both arrays die at ONE later instruction (==, !=, or an if/else merge),
// and fresh values of exactly the operands' bit width are computed right after
// so that recycled wire ids are reused at once.  Each configuration comes with
// its "hiding" controls (consumer before the concatenation; an operand used
// again later; the slice not returned; no later value of the width).

import (
	"fmt"
	"strings"
)

type c05AliasCfg struct {
	w, k     int    // element width, array length
	consumer int    // 0: ==, 1: !=, 2: if/else merge of the two arrays
	fresh    int    // 0: x*x then +, 1: x+x then ^
	variant  string // trigger | consumer-first | operand-used-later | slice-not-returned | no-later-value
}

func c05AliasSrc(cfg c05AliasCfg) string {
	t := cfg.w * cfg.k
	arr := fmt.Sprintf("[%d]uint%d", cfg.k, cfg.w)
	ut := fmt.Sprintf("uint%d", t)
	from, to := cfg.k-1, cfg.k+1 // spans the tail of a and the head of b
	xdef := fmt.Sprintf("\tx := %s(a[0]) + %s(b[%d])\n", ut, ut, cfg.k-1)
	concat := fmt.Sprintf("\tn := a + b\n\tl := n[%d:%d]\n", from, to)
	var consumer, cres, ctype string
	switch cfg.consumer {
	case 0:
		consumer, cres, ctype = "\tq := a == b\n", "q", "bool"
	case 1:
		consumer, cres, ctype = "\tq := a != b\n", "q", "bool"
	default:
		consumer = fmt.Sprintf("\tvar q %s\n\tif x > 5 {\n\t\tq = a\n\t} else {\n\t\tq = b\n\t}\n", arr)
		cres, ctype = "q", arr
	}
	var fresh string
	if cfg.fresh == 0 {
		fresh = "\ts := x * x\n\tt := s + x\n"
	} else {
		fresh = "\ts := x + x\n\tt := s ^ x\n"
	}
	rets := []string{"l", cres, "s", "t"}
	rtypes := []string{fmt.Sprintf("[%d]uint%d", to-from, cfg.w), ctype, ut, ut}
	var body string
	switch cfg.variant {
	case "consumer-first":
		body = xdef + consumer + concat + fresh
	case "operand-used-later":
		body = xdef + concat + consumer + fresh + fmt.Sprintf("\tz := a[%d]\n", cfg.k-1)
		rets = append(rets, "z")
		rtypes = append(rtypes, fmt.Sprintf("uint%d", cfg.w))
	case "slice-not-returned":
		body = xdef + concat + consumer + fresh
		rets, rtypes = rets[1:], rtypes[1:]
	case "no-later-value":
		body = xdef + concat + consumer
		rets, rtypes = []string{"l", cres, "x"}, []string{rtypes[0], ctype, ut}
	default:
		body = xdef + concat + consumer + fresh
	}
	return fmt.Sprintf("package main\n\nfunc main(a, b %s) (%s) {\n%s\treturn %s\n}\n",
		arr, strings.Join(rtypes, ", "), body, strings.Join(rets, ", "))
}

// c05AliasPrograms: per run a few configurations, each with its controls.
func c05AliasPrograms(c *Ctx) []c05Prog {
	r := c.rng.Fork()
	widths := [][2]int{{32, 2}, {8, 2}, {16, 2}, {8, 3}, {16, 3}, {8, 4}, {32, 3}}
	ncfg := c.N(3, 14)
	var progs []c05Prog
	for i := 0; i < ncfg; i++ {
		wk := widths[(i+r.Intn(len(widths)))%len(widths)]
		if i == 0 {
			wk = widths[0]
		}
		cfg := c05AliasCfg{w: wk[0], k: wk[1], consumer: (i + r.Intn(2)) % 2, fresh: r.Intn(2)}
		if i%5 == 4 {
			// the if/else merge as the common last use (its result has the operands'
			// width: the mov into the merged variable takes the recycled block first)
			cfg.consumer = 2
		}
		if cfg.w*cfg.k > 32 {
			cfg.fresh = 1 // keep the multiplier small (a 64-bit one costs the model 15 s)
		}
		variants := []string{"trigger", "consumer-first", "operand-used-later", "slice-not-returned", "no-later-value"}
		for vi, v := range variants {
			if vi > 0 && i > 0 && !c.Thorough() && r.Intn(2) == 0 {
				continue
			}
			cfg.variant = v
			feat := map[string]int{"alias-family:" + v: 1}
			progs = append(progs, c05Prog{src: c05AliasSrc(cfg),
				g:    []string{c05RandHex(r, cfg.w*cfg.k)},
				e:    []string{c05RandHex(r, cfg.w*cfg.k)},
				feat: feat, nstmts: 6})
		}
	}
	return progs
}
