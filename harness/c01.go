package main

import (
	"bytes"
	"errors"
	"fmt"
	"math/big"
	"strings"
	"sync"
	"time"

	"github.com/markkurossi/mpc/circuit"
	"github.com/markkurossi/mpc/ot"
	"github.com/markkurossi/mpc/types"
)

func init() { register("c01", runC01) }

// blockLog wraps a reader and logs each 16-byte read as a label.
type blockLog struct {
	r      *RNG
	blocks []ot.Label
	// and: when set, every 16-byte block is ANDed with this mask before it is handed out
	// (directed randomness: all-zero blocks, blocks whose low / high 32-bit words are zero...).
	// C01 quantifies over ALL label randomness; structured values are where a comparison or
	// a multiplication that looks at only part of a label goes wrong.
	and *[16]byte
	// mirror: when set, the low half of every block is replaced by its high half with the top
	// bit forced (D0 == D1 with the permute bit already 1: the two labels of a wire then differ
	// by a value whose halves are equal)
	mirror bool
	// skipKey: the first 32-byte read is the session key (circuit.Garbler, Program.Stream), not labels
	skipKey bool
	keySeen bool
	cur     [16]byte
	fill    int
	// failAt: when > 0, the failAt-th Read call (1-based) fails once with a transient error and
	// delivers nothing; later calls succeed (an entropy source with a hiccup)
	failAt int
	reads  int
	failed bool
	// maxRead: when > 0, a Read call delivers at most this many bytes (a legal io.Reader: a
	// hardware RNG or block DRBG that hands out 32 bytes per call); 16- and 32-byte reads are full
	maxRead int
}

var errEntropy = errors.New("entropy source: resource temporarily unavailable")

// c01RandPatterns: AND masks for directed label randomness.
var c01RandPatterns = map[string][16]byte{
	"all-zero":        {},
	"low-words-zero":  {0xff, 0xff, 0xff, 0xff, 0, 0, 0, 0, 0xff, 0xff, 0xff, 0xff, 0, 0, 0, 0},
	"high-words-zero": {0, 0, 0, 0, 0xff, 0xff, 0xff, 0xff, 0, 0, 0, 0, 0xff, 0xff, 0xff, 0xff},
	"d1-zero":         {0xff, 0xff, 0xff, 0xff, 0xff, 0xff, 0xff, 0xff},
	"d0-zero":         {0, 0, 0, 0, 0, 0, 0, 0, 0xff, 0xff, 0xff, 0xff, 0xff, 0xff, 0xff, 0xff},
	"one-byte":        {0, 0, 0, 0, 0, 0, 0, 0, 0, 0, 0, 0, 0, 0, 0, 0xff},
	"top-byte":        {0xff},
}
var c01RandPatternNames = []string{"all-zero", "low-words-zero", "high-words-zero", "d1-zero", "d0-zero", "one-byte", "top-byte"}

func (b *blockLog) Read(p []byte) (int, error) {
	b.reads++
	if b.failAt > 0 && b.reads == b.failAt {
		b.failed = true
		return 0, errEntropy
	}
	if b.maxRead > 0 && len(p) > b.maxRead {
		p = p[:b.maxRead]
	}
	n, err := b.r.Read(p)
	if b.skipKey && !b.keySeen && len(p) == 32 {
		// the session key of circuit.Garbler / Program.Stream: not label randomness
		b.keySeen = true
		return n, err
	}
	// The label randomness is the BYTE STREAM: it is cut into 16-byte blocks whatever the
	// sizes of the individual reads are (a garbler that reads its labels in chunks consumes
	// the same stream and must produce the same garbling).
	for i := 0; i < n; i++ {
		idx := b.fill
		v := p[i]
		if b.and != nil {
			v &= b.and[idx]
		}
		if b.mirror {
			if idx == 0 {
				v |= 0x80
			}
			if idx >= 8 {
				v = b.cur[idx-8]
			}
		}
		b.cur[idx] = v
		p[i] = v
		b.fill++
		if b.fill == 16 {
			var l ot.Label
			l.SetBytes(b.cur[:])
			b.blocks = append(b.blocks, l)
			b.fill = 0
		}
	}
	return n, err
}

// c01WithCompoundInputs returns a copy of the circuit whose inputs are declared as
// (scalar, struct{...}) / (struct{...}, scalar) / (struct, struct): only the IO declaration
// changes, the wires and gates stay.
func c01WithCompoundInputs(c *circuit.Circuit, shape int) *circuit.Circuit {
	n := ioBits(c.Inputs)
	cp := *c
	mk := func(name string, bits int) circuit.IOArg { return circuit.IOArg{Name: name, Type: uintInfo(bits)} }
	strct := func(name string, bits int) circuit.IOArg {
		a := bits / 2
		if a == 0 {
			a = bits
		}
		arg := circuit.IOArg{Name: name, Type: uintInfo(bits)}
		arg.Type.Type = types.TStruct
		arg.Compound = circuit.IO{mk(name+".x", a)}
		if bits-a > 0 {
			arg.Compound = append(arg.Compound, mk(name+".y", bits-a))
		}
		return arg
	}
	k := 1 + n/3
	switch shape {
	case 0:
		cp.Inputs = circuit.IO{mk("a", k), strct("b", n-k)}
	case 1:
		cp.Inputs = circuit.IO{strct("a", n-k), mk("b", k)}
	default:
		cp.Inputs = circuit.IO{strct("a", k), strct("b", n-k)}
	}
	return &cp
}

// ioBits: total declared width of the top-level arguments.
func ioBits(io circuit.IO) int {
	n := 0
	for _, a := range io {
		n += int(a.Type.Bits)
	}
	return n
}

func wiresSX(ws []ot.Wire) SX {
	l := make([]SX, len(ws))
	for i, w := range ws {
		l[i] = L(Label(w.L0), Label(w.L1))
	}
	return L(l...)
}

func tablesSX(t [][]ot.Label) SX {
	l := make([]SX, len(t))
	for i, row := range t {
		l[i] = Labels(row)
	}
	return L(l...)
}

type c01Replay struct {
	Seed    uint64 `json:"seed"`
	Case    int    `json:"case"`
	Round   int    `json:"garble_round_on_same_circuit"`
	Circuit string `json:"circuit"`
	Key     string `json:"key"`
	X       string `json:"x"`
	Got     string `json:"got"`
	Want    string `json:"want"`
}

func circuitText(c *circuit.Circuit) string {
	s := fmt.Sprintf("wires=%d inputs=%d outputs=%d;", c.NumWires, c.Inputs.Size(), c.Outputs.Size())
	for _, g := range c.Gates {
		s += fmt.Sprintf(" %s %d %d %d;", g.Op, g.Input0, g.Input1, g.Output)
	}
	return s
}

// sharedKeyBuf is refilled with a new key for a quarter of the cases.
var sharedKeyBuf [32]byte

func runC01(c *Ctx) error {
	n := c.N(180, 12000)
	keyLens := []int{16, 24, 32}
	for i := 0; i < n; i++ {
		r := c.rng.Fork()
		opts := GenOpts{MinIn: 1, MaxIn: 10, MinGates: 1, MaxGates: 60, MaxOut: 8, Overwrite: true}
		if i%10 == 9 {
			opts.MaxGates = 200
			opts.MinGates = 100
		}
		if i%45 == 22 {
			// wide interfaces: more input wires than any label chunk / batch a garbler may
			// use (1024-label chunks, 16 KiB buffers): every input wire, whatever its index,
			// needs its own fresh L0 and L1 = L0 ^ R
			opts = GenOpts{MinIn: 1026, MaxIn: 2300, MinGates: 30, MaxGates: 90, MaxOut: 8, Overwrite: true}
			c.Hist("circuit:more-than-1024-input-wires")
		}
		circ := GenCircuit(r, opts)
		overwrites := false
		if i%60 == 59 {
			// directed: a circuit whose first gate overwrites input wire 0 (the case the C01
			// theorem's wf hypothesis excludes; finding F35, repaired in /repo by 407ba55: the
			// parsers reject such a gate).  The circuit is WRITTEN (Marshal / MarshalBristol) and
			// read back through the parsers, the only entry points that could deliver it: when the
			// parser rejects it, it is counted and skipped (a Go literal no entry point can produce
			// is outside the quantifier); when a parser accepts it again, it is garbled and
			// evaluated as before and the old key fires.
			second := circuit.AND
			if (i/60)%2 == 1 {
				second = circuit.OR
			}
			lit := &circuit.Circuit{NumGates: 2, NumWires: 3,
				Gates: []circuit.Gate{{Input0: 0, Input1: 1, Output: 0, Op: circuit.XOR},
					{Input0: 0, Input1: 1, Output: 2, Op: second}},
				Inputs:  circuit.IO{{Name: "a", Type: uintInfo(2)}},
				Outputs: circuit.IO{{Name: "r", Type: uintInfo(1)}}}
			lit.Stats[circuit.XOR]++
			lit.Stats[second]++
			var file bytes.Buffer
			var parsed *circuit.Circuit
			var perr error
			if (i/120)%2 == 0 {
				if err := lit.Marshal(&file); err != nil {
					return fmt.Errorf("case %d: Marshal: %v", i, err)
				}
				parsed, perr = circuit.ParseMPCLC(&file)
				c.Hist("circuit:gate-writes-input-wire:written-as-mpclc")
			} else {
				if err := lit.MarshalBristol(&file); err != nil {
					return fmt.Errorf("case %d: MarshalBristol: %v", i, err)
				}
				parsed, perr = circuit.ParseBristol(&file)
				c.Hist("circuit:gate-writes-input-wire:written-as-bristol")
			}
			if perr != nil {
				c.Hist("circuit:gate-writes-input-wire:rejected-by-parser")
				continue
			}
			circ = parsed
			overwrites = true
			c.Hist("circuit:gate-writes-input-wire")
		}
		if i%7 == 3 && !overwrites && ioBits(circ.Inputs) >= 3 {
			// the same circuit with struct-typed (compound) arguments: a scalar followed by a
			// struct, or a struct followed by a scalar; total width and wires unchanged
			circ = c01WithCompoundInputs(circ, (i/7)%3)
			c.Hist("circuit:compound-input-arguments")
		}
		key := r.Bytes(keyLens[i%3])
		if i%8 == 1 || i%8 == 2 {
			// successive sessions often refill ONE key buffer (var key [32]byte; rand.Read(key[:])):
			// two CONSECUTIVE cases share the backing array and the length, with new contents
			key = r.Bytes(keyLens[(i/8)%3])
			copy(sharedKeyBuf[:], key)
			key = sharedKeyBuf[:len(key)]
			c.Hist("key:shared-buffer-refilled")
		}
		ni := ioBits(circ.Inputs) // not Inputs.Size(): the harness must not depend on the helper under test
		no := circ.Outputs.Size()
		// The same *Circuit is garbled several times with Release in between, so that
		// later rounds run on reused scratch buffers (sync.Pool) holding the previous
		// garbling: every round must be a correct, independent garbling.
		rounds := 1
		if i%3 == 0 {
			rounds = 3
		}
		for round := 0; round < rounds; round++ {
			rd := &blockLog{r: r.Fork()}
			if i%10 == 4 && !overwrites {
				k := (i/10 + round) % (len(c01RandPatternNames) + 1)
				if k == len(c01RandPatternNames) {
					rd.mirror = true
					c.Hist("randomness:halves-equal")
				} else {
					name := c01RandPatternNames[k]
					m := c01RandPatterns[name]
					rd.and = &m
					c.Hist("randomness:" + name)
				}
			}
			g, err := circ.Garble(rd, key)
			if err != nil {
				return fmt.Errorf("case %d round %d: Garble: %v", i, round, err)
			}
			gw := append([]ot.Wire(nil), g.Wires...)
			gt := make([][]ot.Label, len(g.Gates))
			for k, row := range g.Gates {
				gt[k] = append([]ot.Label(nil), row...)
			}
			opHist(c, circ)
			c.Hist(fmt.Sprintf("keylen:%d", len(key)))
			c.Hist(fmt.Sprintf("gates:%d", (len(circ.Gates)/25)*25))
			// inputs to try: exhaustive when small
			var xs [][]bool
			if ni <= 4 || (c.Thorough() && ni <= 12) {
				for v := 0; v < 1<<uint(ni); v++ {
					x := make([]bool, ni)
					for b := 0; b < ni; b++ {
						x[b] = v>>uint(b)&1 == 1
					}
					xs = append(xs, x)
				}
			} else {
				for k := 0; k < 8; k++ {
					x := make([]bool, ni)
					for b := range x {
						x[b] = r.Bool()
					}
					xs = append(xs, x)
				}
			}
			dims, gs := CircuitSX(circ)
			for xi, x := range xs {
				wires := make([]ot.Label, circ.NumWires)
				for b := 0; b < ni; b++ {
					wires[b] = circuit.LabelForBit(gw[b], x[b])
				}
				evalErr := circ.Eval(key, wires, gt)
				want := TruthEval(circ, x)
				got := make([]bool, no)
				decoded := make([]SX, no)
				bad := ""
				if evalErr != nil {
					bad = "Eval error: " + evalErr.Error()
				} else {
					for o := 0; o < no; o++ {
						w := circ.NumWires - no + o
						bit, err := circuit.BitFromLabel(gw[w], wires[w])
						if err != nil {
							decoded[o] = I(-1)
							bad = fmt.Sprintf("output %d: label is neither L0 nor L1", o)
							continue
						}
						got[o] = bit
						decoded[o] = Bool(bit)
					}
				}
				comp, cerr := circ.Compute(SplitInputs(circ, x))
				var compBits []bool
				if cerr != nil {
					bad = "Compute error: " + cerr.Error()
				} else {
					compBits = JoinOutputs(circ, comp)
				}
				if bad == "" && bitsString(got) != bitsString(want) {
					bad = "garbled evaluation differs from truth-table evaluation"
				}
				if bad == "" && bitsString(compBits) != bitsString(want) {
					bad = "Circuit.Compute differs from truth-table evaluation"
				}
				key2 := fmt.Sprintf("%s|%x|%s|%d", circuitText(circ), key, bitsString(x), round)
				c.Eval(key2, circ.Stats[circuit.AND]+circ.Stats[circuit.OR]+circ.Stats[circuit.INV] > 0)
				if bad != "" && overwrites {
					c.Fail("c01:gate-writes-input-wire:garbled-evaluation-fails", "a circuit whose gate overwrites an input wire (accepted by the parsers) cannot be evaluated garbled: "+bad,
						c01Replay{Seed: c.Seed, Case: i, Round: round, Circuit: circuitText(circ),
							Key: fmt.Sprintf("%x", key), X: bitsString(x), Got: bitsString(got), Want: bitsString(want)})
				} else if bad != "" {
					c.Fail("c01:"+bad, bad, c01Replay{Seed: c.Seed, Case: i, Round: round, Circuit: circuitText(circ),
						Key: fmt.Sprintf("%x", key), X: bitsString(x), Got: bitsString(got), Want: bitsString(want)})
				}
				if xi == 0 && evalErr == nil && cerr == nil {
					outl := make([]ot.Label, no)
					copy(outl, wires[circ.NumWires-no:])
					in := L(Bytes(key), dims, gs, Labels(rd.blocks), Bits(x), L())
					obs := L(Label(g.R), wiresSX(gw), tablesSX(gt), Labels(outl), L(decoded...), Bits(compBits))
					c.Case(in, obs)
					if i < 2 {
						c.Sample(map[string]string{"circuit": circuitText(circ), "key": fmt.Sprintf("%x", key), "x": bitsString(x), "out": bitsString(got)})
					}
				}
			}
			g.Release()
			if round%2 == 1 {
				g.Release() // releasing twice is harmless
			}
		}
	}
	// the []*big.Int layer of Circuit.Compute: argument layouts and values (c01io.go)
	if err := c01ComputeIO(c); err != nil {
		return err
	}
	if err := c01Wrappers(c); err != nil {
		return err
	}
	if err := c01Concurrent(c); err != nil {
		return err
	}
	// the less-travelled doors (c01doors.go; inventory in notes/C01-findings.md)
	return c01Doors(c)
}

// c01Concurrent: several independent sessions (own key, own randomness, own garbling, own
// wire buffer) are evaluated AT THE SAME TIME on one shared *circuit.Circuit, next to a
// goroutine that keeps garbling and one that keeps calling Compute.  C01 quantifies over
// circuits x inputs x keys x randomness; it must hold for each of these sessions whatever
// else is using the circuit value (the sharing discipline itself is property C17).  Oracle
// only: the model is sequential and the sessions are the same function of their inputs.
// c01Wrappers: the same claim through the public two-party entry points that wrap
// Garble / Eval (circuit.Garbler and circuit.Evaluator over an in-memory connection): the
// values BOTH wrappers return for circuits with one, two and three output arguments must be
// the outputs of the truth-table evaluation, argument by argument.
func c01Wrappers(c *Ctx) error {
	n := c.N(10, 300)
	for i := 0; i < n; i++ {
		r := c.rng.Fork()
		circ := GenCircuit(r, GenOpts{MinIn: 2, MaxIn: 24, MinGates: 4, MaxGates: 60, MaxOut: 12, Overwrite: true, TwoParty: true})
		for tries := 0; len(circ.Outputs) < 2 && i%3 != 0 && tries < 20; tries++ {
			circ = GenCircuit(r, GenOpts{MinIn: 2, MaxIn: 24, MinGates: 8, MaxGates: 60, MaxOut: 12, Overwrite: true, TwoParty: true})
		}
		n0, n1 := int(circ.Inputs[0].Type.Bits), int(circ.Inputs[1].Type.Bits)
		x := make([]bool, n0+n1)
		for k := range x {
			x[k] = r.Bool()
		}
		if i%4 == 1 {
			for k := range x {
				x[k] = true
			}
		}
		kind := otKinds[i%3]
		gIn, eIn := bitsToBig(x[:n0]), bitsToBig(x[n0:])
		if i%2 == 1 {
			// the same bit patterns handed over as NEGATIVE big.Ints (what IOArg.Parse returns for
			// "-5" on an intN argument): the wrappers must read two's complement bits
			gIn, eIn = negRep(gIn, n0), negRep(eIn, n1)
			c.Hist("wrapper:inputs-as-negative-big-ints")
		}
		res := runSession(circ, gIn, eIn, &blockLog{r: r.Fork(), skipKey: true},
			kind.mk(r.Fork()), kind.mk(r.Fork()), 0, r.Fork(), nil, 60*time.Second)
		want := TruthEval(circ, x)
		var wantArgs []*big.Int
		ofs := 0
		for _, o := range circ.Outputs {
			wantArgs = append(wantArgs, bitsToBig(want[ofs:ofs+int(o.Type.Bits)]))
			ofs += int(o.Type.Bits)
		}
		c.Hist(fmt.Sprintf("wrapper:output-arguments:%d", len(circ.Outputs)))
		c.Hist("wrapper:ot:" + kind.name)
		bad := ""
		switch {
		case res.stalled:
			bad = "session stalled"
		case res.gErr != nil:
			bad = "Garbler error: " + res.gErr.Error()
		case res.eErr != nil:
			bad = "Evaluator error: " + res.eErr.Error()
		case bigsString(res.gRes) != bigsString(wantArgs):
			bad = "circuit.Garbler returns values that differ from the truth-table evaluation"
		case bigsString(res.eRes) != bigsString(wantArgs):
			bad = "circuit.Evaluator returns values that differ from the truth-table evaluation"
		}
		c.Eval(fmt.Sprintf("wrapper|%s|%s", circuitText(circ), bitsString(x)), bad == "")
		if bad != "" {
			c.Fail("c01:wrapper:"+strings.SplitN(bad, ":", 2)[0], bad, map[string]interface{}{
				"circuit": circuitText(circ), "outputs": fmt.Sprint(outSizes(circ)), "x": bitsString(x[:n0]), "y": bitsString(x[n0:]), "ot": kind.name,
				"garbler_returns": bigsString(res.gRes), "evaluator_returns": bigsString(res.eRes), "want": bigsString(wantArgs)})
		}
	}
	return nil
}

func c01Concurrent(c *Ctx) error {
	nc := c.N(4, 60)
	keyLens := []int{16, 24, 32}
	for ci := 0; ci < nc; ci++ {
		r := c.rng.Fork()
		circ := GenCircuit(r, GenOpts{MinIn: 4, MaxIn: 10, MinGates: 1200, MaxGates: 2500, MaxOut: 8, Overwrite: true})
		ni := ioBits(circ.Inputs) // not Inputs.Size(): the harness must not depend on the helper under test
		no := circ.Outputs.Size()
		type sess struct {
			key  []byte
			gw   []ot.Wire
			gt   [][]ot.Label
			xs   [][]bool
			bad  string
			badX string
		}
		const K = 8
		ss := make([]*sess, K)
		for k := range ss {
			s := &sess{key: r.Bytes(keyLens[(ci+k)%3])}
			g, err := circ.Garble(&blockLog{r: r.Fork()}, s.key)
			if err != nil {
				return fmt.Errorf("concurrent %d: Garble: %v", ci, err)
			}
			s.gw = append([]ot.Wire(nil), g.Wires...)
			s.gt = make([][]ot.Label, len(g.Gates))
			for j, row := range g.Gates {
				s.gt[j] = append([]ot.Label(nil), row...)
			}
			g.Release()
			for j := 0; j < 6; j++ {
				x := make([]bool, ni)
				for b := range x {
					x[b] = r.Bool()
				}
				s.xs = append(s.xs, x)
			}
			ss[k] = s
		}
		// each session alone first (sequentially): must be correct
		for k, s := range ss {
			for _, x := range s.xs {
				wires := make([]ot.Label, circ.NumWires)
				for b := 0; b < ni; b++ {
					wires[b] = circuit.LabelForBit(s.gw[b], x[b])
				}
				ok := circ.Eval(s.key, wires, s.gt) == nil
				want := TruthEval(circ, x)
				for o := 0; o < no && ok; o++ {
					w := circ.NumWires - no + o
					bit, err := circuit.BitFromLabel(s.gw[w], wires[w])
					ok = err == nil && bit == want[o]
				}
				if !ok {
					c.Fail("c01:garbled evaluation differs from truth-table evaluation", "session evaluated alone (concurrent phase, sequential pre-run) is wrong",
						c01Replay{Seed: c.Seed, Case: ci, Round: k, Circuit: circuitText(circ), Key: fmt.Sprintf("%x", s.key), X: bitsString(x)})
				}
			}
		}
		start := make(chan struct{})
		done := make(chan struct{})
		var wg, bg sync.WaitGroup
		for k := range ss {
			wg.Add(1)
			go func(s *sess) {
				defer wg.Done()
				<-start
				for rep := 0; rep < 3; rep++ {
					for _, x := range s.xs {
						wires := make([]ot.Label, circ.NumWires)
						for b := 0; b < ni; b++ {
							wires[b] = circuit.LabelForBit(s.gw[b], x[b])
						}
						bad := ""
						if err := circ.Eval(s.key, wires, s.gt); err != nil {
							bad = "Eval error: " + err.Error()
						} else {
							want := TruthEval(circ, x)
							for o := 0; o < no && bad == ""; o++ {
								w := circ.NumWires - no + o
								bit, err := circuit.BitFromLabel(s.gw[w], wires[w])
								if err != nil {
									bad = fmt.Sprintf("output %d: label is neither L0 nor L1", o)
								} else if bit != want[o] {
									bad = fmt.Sprintf("output %d decodes to the wrong bit", o)
								}
							}
						}
						if bad != "" && s.bad == "" {
							s.bad, s.badX = bad, bitsString(x)
						}
					}
				}
			}(ss[k])
		}
		// background users of the same circuit value
		bgr1, bgr2 := r.Fork(), r.Fork()
		bg.Add(2)
		go func() {
			defer bg.Done()
			<-start
			for {
				select {
				case <-done:
					return
				default:
				}
				if g, err := circ.Garble(&blockLog{r: bgr1.Fork()}, bgr1.Bytes(16)); err == nil {
					g.Release()
				}
			}
		}()
		go func() {
			defer bg.Done()
			<-start
			x := make([]bool, ni)
			for {
				select {
				case <-done:
					return
				default:
				}
				for b := range x {
					x[b] = bgr2.Bool()
				}
				circ.Compute(SplitInputs(circ, x))
			}
		}()
		close(start)
		wg.Wait()
		close(done)
		bg.Wait()
		c.Hist("concurrent:sessions-on-one-circuit")
		for k, s := range ss {
			c.Eval(fmt.Sprintf("conc|%d|%d|%x", ci, k, s.key), true)
			if s.bad != "" {
				c.Fail("c01:concurrent-sessions-on-one-circuit:"+strings.SplitN(s.bad, ":", 2)[0],
					fmt.Sprintf("session %d of %d (own key, own garbling) evaluated concurrently with the others on one *circuit.Circuit: %s; the same session evaluated alone is correct", k, K, s.bad),
					c01Replay{Seed: c.Seed, Case: ci, Round: k, Circuit: fmt.Sprintf("generated circuit #%d of the concurrent phase (%d gates)", ci, len(circ.Gates)),
						Key: fmt.Sprintf("%x", s.key), X: s.badX})
			}
		}
	}
	return nil
}
